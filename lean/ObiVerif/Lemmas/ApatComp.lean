import ObiVerif.Lemmas.Apat
/-!
# The string-level `complementPattern` yields the mirrored code list (C10)

Patterns of the documented grammar: a non-empty list of tokens `['!'] (Letter | '[' Letter+ ']') ['#']` (`Tok`,
`patStr`).  For such a pattern string
* `tokens_pat`, `encode_pat`: the compiler splits it into its tokens, position `i` gets `Tok.code` of token `i`;
* `check_pat`: `CheckPattern` accepts it;
* `complementString_pat`: `ecoComplementPattern` (complement every character, reverse, re-attach the modifiers:
  `fixLoop`) returns the pattern string of the reversed list of complemented tokens;
* `code_mirror`: the code of a complemented token is the mirror (`MirrorCode`) of the code of the token;
* `reverseComplement_pat`: `ApatPattern.ReverseComplement` succeeds and its code list is the mirror of the code list.
-/
namespace ObiVerif.Apat

/-! ## arrays as lists -/

theorem rd_toArray (l : Bytes) (i : Nat) : rd l.toArray i = l.getD i 0 := by
  unfold rd; simp

theorem wr_toArray (l : Bytes) (i : Nat) (v : UInt8) (h : i < l.length) :
    wr l.toArray i v = some (l.set i v).toArray := by
  unfold wr; simp [h]

theorem getD_pre (pre tail : Bytes) (k : Nat) : (pre ++ tail).getD (pre.length + k) 0 = tail.getD k 0 := by
  simp [List.getD_eq_getElem?_getD, List.getElem?_append_right]

theorem getD_pre0 (pre tail : Bytes) : (pre ++ tail).getD pre.length 0 = tail.getD 0 0 := getD_pre pre tail 0

theorem set_pre (pre tail : Bytes) (k : Nat) (v : UInt8) :
    (pre ++ tail).set (pre.length + k) v = pre ++ tail.set k v := by
  rw [List.set_append_right _ _ (by omega)]
  congr 2
  omega

theorem set_pre0 (pre tail : Bytes) (v : UInt8) : (pre ++ tail).set pre.length v = pre ++ tail.set 0 v := set_pre pre tail 0 v

/-! ## the characters -/

theorem upper_ne (c : UInt8) (h : isUpper c = true) :
    (c == chLBr) = false ∧ (c == chRBr) = false ∧ (c == chBang) = false ∧ (c == chHash) = false ∧ c ≠ 0 := by
  unfold isUpper at h
  simp only [Bool.and_eq_true, decide_eq_true_eq] at h
  have h1 : 65 ≤ c.toNat := UInt8.le_iff_toNat_le.mp h.1
  have h2 : c.toNat ≤ 90 := UInt8.le_iff_toNat_le.mp h.2
  refine ⟨?_, ?_, ?_, ?_, ?_⟩
  · cases hb : c == chLBr with
    | false => rfl
    | true => have := eq_of_beq hb; subst this; simp [chLBr] at h1 h2
  · cases hb : c == chRBr with
    | false => rfl
    | true => have := eq_of_beq hb; subst this; simp [chRBr] at h1 h2
  · cases hb : c == chBang with
    | false => rfl
    | true => have := eq_of_beq hb; subst this; simp [chBang] at h1 h2
  · cases hb : c == chHash with
    | false => rfl
    | true => have := eq_of_beq hb; subst this; simp [chHash] at h1 h2
  · intro h0; subst h0; simp at h1

/-! ## steps of the modifier fix-up loop -/

theorem fixLoop_end (fuel : Nat) (a : Array UInt8) (sb : Nat) (h : a.size ≤ sb) :
    fixLoop (fuel + 1) a sb = some a := by
  rw [fixLoop, if_pos (by omega)]

theorem fixLoop_skip (fuel : Nat) (a : Array UInt8) (sb : Nat) (h : sb < a.size)
    (h1 : (rd a sb == chHash) = false) (h2 : (rd a sb == chBang) = false) :
    fixLoop (fuel + 1) a sb = fixLoop fuel a (sb + 1) := by
  rw [fixLoop, if_neg (by omega)]
  simp only [h1, h2, Bool.false_eq_true, if_false]

theorem fixLoop_hash1 (fuel : Nat) (a a1 a2 : Array UInt8) (sb sb1 : Nat) (h : sb < a.size)
    (h1 : (rd a sb == chHash) = true) (h2 : (rd a (sb + 1) == chLBr) = true)
    (h3 : shiftBracket (a.size + 1) a sb = some (a1, sb1)) (h4 : wr a1 sb1 chHash = some a2) :
    fixLoop (fuel + 1) a sb = fixLoop fuel a2 (sb1 + 1) := by
  rw [fixLoop, if_neg (by omega)]
  simp only [h1, h2, if_true, h3, h4]

theorem fixLoop_hash2 (fuel : Nat) (a a1 a2 : Array UInt8) (sb : Nat) (h : sb < a.size)
    (h1 : (rd a sb == chHash) = true) (h2 : (rd a (sb + 1) == chLBr) = false)
    (h3 : a.size - 1 - sb ≥ 2) (h3' : (rd a (sb + 2) == chBang) = true)
    (h4 : wr a sb chBang = some a1) (h5 : wr a1 (sb + 2) chHash = some a2) :
    fixLoop (fuel + 1) a sb = fixLoop fuel a2 (sb + 3) := by
  rw [fixLoop, if_neg (by omega)]
  simp only [h1, h2, if_true, Bool.false_eq_true, if_false, h3, h3', decide_true, Bool.and_self, h4, h5]

theorem fixLoop_hash3 (fuel : Nat) (a a1 a2 : Array UInt8) (sb : Nat) (h : sb < a.size)
    (h1 : (rd a sb == chHash) = true) (h2 : (rd a (sb + 1) == chLBr) = false)
    (h3 : (rd a (sb + 2) == chBang) = false)
    (h4 : wr a sb (rd a (sb + 1)) = some a1) (h5 : wr a1 (sb + 1) chHash = some a2) :
    fixLoop (fuel + 1) a sb = fixLoop fuel a2 (sb + 2) := by
  rw [fixLoop, if_neg (by omega)]
  simp only [h1, h2, if_true, Bool.false_eq_true, if_false, h3, Bool.and_false, h4, h5]

/-- a run of characters that are neither `#` nor `!` is skipped -/
theorem fix_skip_run (run : Bytes) : ∀ (pre rest : Bytes) (fuel : Nat),
    (∀ c ∈ run, (c == chHash) = false ∧ (c == chBang) = false) →
    fixLoop (fuel + run.length) (pre ++ (run ++ rest)).toArray pre.length =
      fixLoop fuel (pre ++ (run ++ rest)).toArray (pre.length + run.length) := by
  induction run with
  | nil => intro pre rest fuel _; rfl
  | cons c run ih =>
    intro pre rest fuel hrun
    have hc := hrun c (by simp)
    have e1 : fuel + (c :: run).length = (fuel + run.length) + 1 := by simp; omega
    rw [e1, fixLoop_skip _ _ _ (by simp) (by rw [rd_toArray, getD_pre0]; exact hc.1)
      (by rw [rd_toArray, getD_pre0]; exact hc.2)]
    have e2 : pre ++ (c :: run ++ rest) = (pre ++ [c]) ++ (run ++ rest) := by simp
    have e3 : pre.length + 1 = (pre ++ [c]).length := by simp
    have e4 : pre.length + (c :: run).length = (pre ++ [c]).length + run.length := by simp; omega
    rw [e2, e3, e4]
    exact ih (pre ++ [c]) rest fuel (fun c' hc' => hrun c' (List.mem_cons_of_mem _ hc'))

/-- `#X` followed by something else than `!` becomes `X#` -/
theorem fix_hash_single (pre rest : Bytes) (x : UInt8) (fuel : Nat)
    (hx : (x == chLBr) = false) (hr : (rest.getD 0 0 == chBang) = false) :
    fixLoop (fuel + 1) (pre ++ chHash :: x :: rest).toArray pre.length =
      fixLoop fuel (pre ++ x :: chHash :: rest).toArray (pre.length + 2) := by
  apply fixLoop_hash3 _ _ (pre ++ x :: x :: rest).toArray
  · simp
  · rw [rd_toArray, getD_pre0]; rfl
  · rw [rd_toArray, getD_pre]; exact hx
  · rw [rd_toArray, getD_pre]; exact hr
  · rw [rd_toArray, getD_pre, wr_toArray _ _ _ (by simp), set_pre0]; rfl
  · rw [wr_toArray _ _ _ (by simp), set_pre]; rfl

/-- `#X!` becomes `!X#` -/
theorem fix_hash_single_bang (pre rest : Bytes) (x : UInt8) (fuel : Nat) (hx : (x == chLBr) = false) :
    fixLoop (fuel + 1) (pre ++ chHash :: x :: chBang :: rest).toArray pre.length =
      fixLoop fuel (pre ++ chBang :: x :: chHash :: rest).toArray (pre.length + 3) := by
  apply fixLoop_hash2 _ _ (pre ++ chBang :: x :: chBang :: rest).toArray
  · simp
  · rw [rd_toArray, getD_pre0]; rfl
  · rw [rd_toArray, getD_pre]; exact hx
  · simp
  · rw [rd_toArray, getD_pre]; rfl
  · rw [wr_toArray _ _ _ (by simp), set_pre0]; rfl
  · rw [wr_toArray _ _ _ (by simp), set_pre]; rfl

/-- the `while (*sb != ']')` loop of the `#[` case -/
theorem shiftBracket_run (run : Bytes) : ∀ (pre rest : Bytes) (x : UInt8) (fuel : Nat),
    (x == chRBr) = false → (∀ c ∈ run, (c == chRBr) = false) → run.length + 2 ≤ fuel →
    shiftBracket fuel (pre ++ x :: (run ++ chRBr :: rest)).toArray pre.length =
      some ((pre ++ (run ++ chRBr :: chRBr :: rest)).toArray, pre.length + run.length + 1) := by
  induction run with
  | nil =>
    intro pre rest x fuel hx _ hf
    obtain ⟨fuel, rfl⟩ : ∃ f, fuel = f + 2 := ⟨fuel - 2, by simp at hf; omega⟩
    rw [shiftBracket, if_neg (by simp)]
    have h1 : (rd (pre ++ x :: ([] ++ chRBr :: rest)).toArray pre.length != chRBr) = true := by
      rw [rd_toArray, getD_pre0]; simp [bne, hx]
    rw [if_pos h1, rd_toArray, getD_pre, wr_toArray _ _ _ (by simp), set_pre0]
    simp only [List.nil_append, List.getD_cons_succ, List.getD_cons_zero, List.set_cons_zero]
    rw [shiftBracket, if_neg (by simp)]
    have h2 : (rd (pre ++ chRBr :: chRBr :: rest).toArray (pre.length + 1) != chRBr) = false := by
      rw [rd_toArray, getD_pre]; simp [bne]
    rw [h2]
    simp
  | cons y run ih =>
    intro pre rest x fuel hx hrun hf
    obtain ⟨fuel, rfl⟩ : ∃ f, fuel = f + 1 := ⟨fuel - 1, by simp at hf; omega⟩
    rw [shiftBracket, if_neg (by simp)]
    have h1 : (rd (pre ++ x :: (y :: run ++ chRBr :: rest)).toArray pre.length != chRBr) = true := by
      rw [rd_toArray, getD_pre0]; simp [bne, hx]
    rw [if_pos h1, rd_toArray, getD_pre, wr_toArray _ _ _ (by simp), set_pre0]
    simp only [List.cons_append, List.getD_cons_succ, List.getD_cons_zero, List.set_cons_zero]
    have e2 : pre ++ y :: y :: (run ++ chRBr :: rest) = (pre ++ [y]) ++ y :: (run ++ chRBr :: rest) := by simp
    have e3 : pre.length + 1 = (pre ++ [y]).length := by simp
    rw [e2, e3, ih (pre ++ [y]) rest y fuel (hrun y (by simp)) (fun c hc => hrun c (List.mem_cons_of_mem _ hc))
      (by simp at hf ⊢; omega)]
    simp
    omega

/-- `#[L]` becomes `[L]#` -/
theorem fix_hash_bracket (pre rest ls : Bytes) (fuel : Nat) (hls : ∀ c ∈ ls, (c == chRBr) = false) :
    fixLoop (fuel + 1) (pre ++ chHash :: chLBr :: (ls ++ chRBr :: rest)).toArray pre.length =
      fixLoop fuel (pre ++ chLBr :: (ls ++ chRBr :: chHash :: rest)).toArray (pre.length + (ls.length + 3)) := by
  have hs := shiftBracket_run (chLBr :: ls) pre rest chHash
    ((pre ++ chHash :: chLBr :: (ls ++ chRBr :: rest)).toArray.size + 1) (by decide)
    (fun c hc => by
      rcases List.mem_cons.1 hc with rfl | hc
      · decide
      · exact hls c hc) (by simp; omega)
  have e : pre.length + (ls.length + 3) = pre.length + (chLBr :: ls).length + 1 + 1 := by simp; omega
  rw [e]
  apply fixLoop_hash1 _ _ _ _ _ _ (by simp) _ _ hs
  · rw [wr_toArray _ _ _ (by simp; omega)]
    have e2 : pre ++ (chLBr :: ls ++ chRBr :: chRBr :: rest) = (pre ++ (chLBr :: ls ++ [chRBr])) ++ chRBr :: rest := by simp
    have e3 : pre.length + (chLBr :: ls).length + 1 = (pre ++ (chLBr :: ls ++ [chRBr])).length := by simp; omega
    rw [e2, e3, set_pre0]
    simp
  · rw [rd_toArray, getD_pre0]; rfl
  · rw [rd_toArray, getD_pre]; rfl

/-! ### the `!` case -/

/-- where the `!` is re-inserted: before the `#`, and before the whole class when the position is a `[...]` class -/
def bangTarget (a : Array UInt8) (sb : Nat) : Nat :=
  let st := sb - 1
  let st := if rd a st == chHash && st > 0 then st - 1 else st
  if rd a st == chRBr then backToLBr a st st else st

theorem fixLoop_bang (fuel : Nat) (a : Array UInt8) (sb : Nat) (h : sb < a.size)
    (h1 : (rd a sb == chHash) = false) (h2 : (rd a sb == chBang) = true) (h0 : sb ≠ 0) :
    fixLoop (fuel + 1) a sb =
      fixLoop fuel (a.toList.take (bangTarget a sb) ++ chBang ::
        ((a.toList.drop (bangTarget a sb)).take (sb - bangTarget a sb) ++ a.toList.drop (sb + 1))).toArray (sb + 1) := by
  rw [fixLoop, if_neg (by omega)]
  have h3 : (sb == 0) = false := by simpa using h0
  simp only [h1, h2, h3, Bool.false_eq_true, if_false, if_true]
  rfl

theorem fix_bang_at (pre mid rest : Bytes) (fuel : Nat) (hmid : mid ≠ [])
    (hst : bangTarget (pre ++ (mid ++ chBang :: rest)).toArray (pre.length + mid.length) = pre.length) :
    fixLoop (fuel + 1) (pre ++ (mid ++ chBang :: rest)).toArray (pre.length + mid.length) =
      fixLoop fuel (pre ++ chBang :: (mid ++ rest)).toArray (pre.length + mid.length + 1) := by
  have hml : 0 < mid.length := List.length_pos_iff.2 hmid
  rw [fixLoop_bang _ _ _ (by simp) _ _ (by omega), hst]
  · congr 2
    simp only []
    have e1 : (pre ++ (mid ++ chBang :: rest)).take pre.length = pre := List.take_left' rfl
    have e2 : (pre ++ (mid ++ chBang :: rest)).drop pre.length = mid ++ chBang :: rest := List.drop_left' rfl
    have e3 : (mid ++ chBang :: rest).take (pre.length + mid.length - pre.length) = mid :=
      List.take_left' (by omega)
    have e4 : (pre ++ (mid ++ chBang :: rest)).drop (pre.length + mid.length + 1) = rest := by
      have : pre ++ (mid ++ chBang :: rest) = (pre ++ mid ++ [chBang]) ++ rest := by simp
      rw [this]
      exact List.drop_left' (by simp; omega)
    rw [e1, e2, e3, e4]
  · rw [rd_toArray]
    have : pre ++ (mid ++ chBang :: rest) = (pre ++ mid) ++ chBang :: rest := by simp
    rw [this]
    have e : pre.length + mid.length = (pre ++ mid).length := by simp
    rw [e, getD_pre0]; rfl
  · rw [rd_toArray]
    have : pre ++ (mid ++ chBang :: rest) = (pre ++ mid) ++ chBang :: rest := by simp
    rw [this]
    have e : pre.length + mid.length = (pre ++ mid).length := by simp
    rw [e, getD_pre0]; rfl

theorem backToLBr_run (mid pre tail : Bytes) (hmid : ∀ c ∈ mid, (c == chLBr) = false) :
    ∀ (j fuel : Nat), j ≤ mid.length → j ≤ fuel →
      backToLBr (pre ++ chLBr :: (mid ++ tail)).toArray fuel (pre.length + j) = pre.length := by
  intro j
  induction j with
  | zero =>
    intro fuel _ _
    cases fuel with
    | zero => rfl
    | succ fuel =>
      rw [backToLBr]
      have : (rd (pre ++ chLBr :: (mid ++ tail)).toArray (pre.length + 0) != chLBr) = false := by
        rw [rd_toArray, getD_pre]; simp [bne]
      rw [this]
      simp
  | succ j ih =>
    intro fuel hj hf
    obtain ⟨fuel, rfl⟩ : ∃ f, fuel = f + 1 := ⟨fuel - 1, by omega⟩
    rw [backToLBr]
    have hlt : j < mid.length := by omega
    have hc : (rd (pre ++ chLBr :: (mid ++ tail)).toArray (pre.length + (j + 1)) != chLBr) = true := by
      rw [rd_toArray, getD_pre]
      simp only [List.getD_eq_getElem?_getD, List.getElem?_cons_succ]
      rw [List.getElem?_append_left hlt, List.getElem?_eq_getElem hlt]
      simp only [Option.getD_some, bne]
      rw [hmid _ (List.getElem_mem hlt)]
      rfl
    have hpos : (decide (pre.length + (j + 1) > 0)) = true := by simp; omega
    rw [hc, hpos]
    simp only [Bool.and_self, if_true]
    have : pre.length + (j + 1) - 1 = pre.length + j := by omega
    rw [this]
    exact ih fuel (by omega) (by omega)

/-- `X!` / `X#!` becomes `!X` / `!X#` -/
theorem fix_bang_single (pre rest : Bytes) (x : UInt8) (ob : Bool) (fuel : Nat)
    (hx1 : (x == chHash) = false) (hx2 : (x == chRBr) = false) :
    fixLoop (fuel + 1) (pre ++ ((x :: (if ob then [chHash] else [])) ++ chBang :: rest)).toArray
        (pre.length + (x :: (if ob then [chHash] else [])).length) =
      fixLoop fuel (pre ++ chBang :: ((x :: (if ob then [chHash] else [])) ++ rest)).toArray
        (pre.length + (x :: (if ob then [chHash] else [])).length + 1) := by
  apply fix_bang_at _ _ _ _ (by simp)
  unfold bangTarget
  cases ob with
  | false =>
    simp only [Bool.false_eq_true, if_false, List.length_cons, List.length_nil, Nat.zero_add, Nat.add_sub_cancel]
    have h1 : rd (pre ++ ([x] ++ chBang :: rest)).toArray pre.length = x := by
      rw [rd_toArray, getD_pre0]; rfl
    simp only [h1, hx1, hx2, Bool.false_and, Bool.false_eq_true, if_false]
  | true =>
    simp only [if_true, List.length_cons, List.length_nil, Nat.zero_add]
    have e : pre.length + (0 + 1 + 1) - 1 = pre.length + 1 := by omega
    have h0 : rd (pre ++ ([x, chHash] ++ chBang :: rest)).toArray (pre.length + 1) = chHash := by
      rw [rd_toArray, getD_pre]; rfl
    have h1 : rd (pre ++ ([x, chHash] ++ chBang :: rest)).toArray pre.length = x := by
      rw [rd_toArray, getD_pre0]; rfl
    have hp : decide (pre.length + 1 > 0) = true := by simp
    simp only [e, h0, hp, Nat.add_sub_cancel, h1, hx2, beq_self_eq_true, Bool.and_self, if_true, Bool.false_eq_true, if_false]

/-- `[L]!` / `[L]#!` becomes `![L]` / `![L]#` -/
theorem fix_bang_bracket (pre rest ls : Bytes) (ob : Bool) (fuel : Nat)
    (hls : ∀ c ∈ ls, (c == chLBr) = false) :
    fixLoop (fuel + 1) (pre ++ ((chLBr :: (ls ++ chRBr :: (if ob then [chHash] else []))) ++ chBang :: rest)).toArray
        (pre.length + (chLBr :: (ls ++ chRBr :: (if ob then [chHash] else []))).length) =
      fixLoop fuel (pre ++ chBang :: ((chLBr :: (ls ++ chRBr :: (if ob then [chHash] else []))) ++ rest)).toArray
        (pre.length + (chLBr :: (ls ++ chRBr :: (if ob then [chHash] else []))).length + 1) := by
  apply fix_bang_at _ _ _ _ (by simp)
  unfold bangTarget
  have hmid : ∀ c ∈ ls ++ [chRBr], (c == chLBr) = false := by
    intro c hc
    rcases List.mem_append.1 hc with h | h
    · exact hls c h
    · simp at h; subst h; decide
  cases ob with
  | false =>
    simp only [Bool.false_eq_true, if_false]
    have e : pre.length + (chLBr :: (ls ++ [chRBr])).length - 1 = pre.length + (ls ++ [chRBr]).length := by simp
    have ea : pre ++ (chLBr :: (ls ++ [chRBr]) ++ chBang :: rest) = pre ++ chLBr :: ((ls ++ [chRBr]) ++ chBang :: rest) := by simp
    rw [e, ea]
    have h0 : rd (pre ++ chLBr :: ((ls ++ [chRBr]) ++ chBang :: rest)).toArray (pre.length + (ls ++ [chRBr]).length) = chRBr := by
      rw [rd_toArray, getD_pre]
      simp [List.getD_eq_getElem?_getD]
    have hne : (chRBr == chHash) = false := by decide
    simp only [h0, hne, Bool.false_and, Bool.false_eq_true, if_false, beq_self_eq_true, if_true]
    exact backToLBr_run (ls ++ [chRBr]) pre (chBang :: rest) hmid _ _ (Nat.le_refl _) (by omega)
  | true =>
    simp only [if_true]
    have e : pre.length + (chLBr :: (ls ++ [chRBr, chHash])).length - 1 = pre.length + (ls ++ [chRBr]).length + 1 := by simp; omega
    have ea : pre ++ (chLBr :: (ls ++ [chRBr, chHash]) ++ chBang :: rest) = pre ++ chLBr :: ((ls ++ [chRBr]) ++ chHash :: chBang :: rest) := by simp
    rw [e, ea]
    have h00 : rd (pre ++ chLBr :: ((ls ++ [chRBr]) ++ chHash :: chBang :: rest)).toArray (pre.length + (ls ++ [chRBr]).length + 1) = chHash := by
      rw [rd_toArray, Nat.add_assoc, getD_pre]
      simp [List.getD_eq_getElem?_getD]
    have h0 : rd (pre ++ chLBr :: ((ls ++ [chRBr]) ++ chHash :: chBang :: rest)).toArray (pre.length + (ls ++ [chRBr]).length) = chRBr := by
      rw [rd_toArray, getD_pre]
      simp [List.getD_eq_getElem?_getD]
    have hp : decide (pre.length + (ls ++ [chRBr]).length + 1 > 0) = true := by simp
    simp only [h00, hp, Nat.add_sub_cancel, h0, beq_self_eq_true, Bool.and_self, if_true]
    exact backToLBr_run (ls ++ [chRBr]) pre (chHash :: chBang :: rest) hmid _ _ (Nat.le_refl _) (by omega)

/-! ## tokens of the documented pattern grammar -/

/-- one pattern position: `['!'] (Letter | '[' Letter+ ']') ['#']` -/
structure Tok where
  neg : Bool
  bracket : Bool
  letters : Bytes
  oblig : Bool

/-- upper-case letters only, at least one, exactly one outside brackets -/
def Tok.WF (t : Tok) : Prop :=
  (∀ c ∈ t.letters, isUpper c = true) ∧ t.letters ≠ [] ∧ (t.bracket = false → t.letters.length = 1)

def Tok.body (t : Tok) : Bytes := if t.bracket then chLBr :: (t.letters ++ [chRBr]) else t.letters
def Tok.hash (t : Tok) : Bytes := if t.oblig then [chHash] else []
def Tok.bang (t : Tok) : Bytes := if t.neg then [chBang] else []
/-- the token as written in a pattern -/
def Tok.str (t : Tok) : Bytes := t.bang ++ (t.body ++ t.hash)
/-- the token read backwards (brackets swapped back): `#`, body, `!` -/
def Tok.rstr (t : Tok) : Bytes := t.hash ++ (t.body ++ t.bang)
/-- the pattern string of a token list -/
def patStr (ts : List Tok) : Bytes := (ts.map Tok.str).flatten
def patRStr (ts : List Tok) : Bytes := (ts.map Tok.rstr).flatten

theorem patStr_cons (t : Tok) (ts : List Tok) : patStr (t :: ts) = t.str ++ patStr ts := rfl
theorem patRStr_cons (t : Tok) (ts : List Tok) : patRStr (t :: ts) = t.rstr ++ patRStr ts := rfl
theorem patRStr_append (ts us : List Tok) : patRStr (ts ++ us) = patRStr ts ++ patRStr us := by
  simp [patRStr]

/-- the modifier fix-up on one reversed token -/
theorem fix_tok (u : Tok) (hu : u.WF) (pre rest : Bytes) (hr : (rest.getD 0 0 == chBang) = false) :
    ∃ n, 1 ≤ n ∧ n ≤ u.rstr.length ∧ ∀ fuel,
      fixLoop (fuel + n) (pre ++ (u.rstr ++ rest)).toArray pre.length =
        fixLoop fuel (pre ++ (u.str ++ rest)).toArray (pre.length + u.str.length) := by
  obtain ⟨neg, bracket, letters, oblig⟩ := u
  obtain ⟨hup, hne, hone⟩ := hu
  simp only at hup hne hone
  cases bracket with
  | false =>
    have hl := hone rfl
    obtain ⟨x, rfl⟩ : ∃ x, letters = [x] := by
      match letters, hl with
      | [x], _ => exact ⟨x, rfl⟩
    have hx := upper_ne x (hup x (by simp))
    cases oblig <;> cases neg
    · -- X
      refine ⟨1, Nat.le_refl _, by simp [Tok.rstr, Tok.hash, Tok.body, Tok.bang], fun fuel => ?_⟩
      have := fix_skip_run [x] pre rest fuel (by intro c hc; simp only [List.mem_singleton] at hc; subst hc; exact ⟨hx.2.2.2.1, hx.2.2.1⟩)
      simpa [Tok.rstr, Tok.str, Tok.hash, Tok.body, Tok.bang] using this
    · -- X!
      refine ⟨2, by omega, by simp [Tok.rstr, Tok.hash, Tok.body, Tok.bang], fun fuel => ?_⟩
      have h1 := fix_skip_run [x] pre (chBang :: rest) (fuel + 1) (by intro c hc; simp only [List.mem_singleton] at hc; subst hc; exact ⟨hx.2.2.2.1, hx.2.2.1⟩)
      have h2 := fix_bang_single pre rest x false fuel hx.2.2.2.1 hx.2.1
      simp only [Bool.false_eq_true, if_false, List.length_cons, List.length_nil, List.cons_append, List.nil_append,
        Nat.zero_add] at h1 h2
      simp only [Tok.rstr, Tok.str, Tok.hash, Tok.body, Tok.bang, Bool.false_eq_true, if_false, if_true,
        List.nil_append, List.cons_append, List.append_nil, List.length_cons, List.length_nil, Nat.zero_add]
      rw [show fuel + 2 = fuel + 1 + 1 from rfl, h1, h2]
    · -- #X
      refine ⟨1, Nat.le_refl _, by simp [Tok.rstr, Tok.hash, Tok.body, Tok.bang], fun fuel => ?_⟩
      have := fix_hash_single pre rest x fuel hx.1 hr
      simpa [Tok.rstr, Tok.str, Tok.hash, Tok.body, Tok.bang] using this
    · -- #X!
      refine ⟨1, Nat.le_refl _, by simp [Tok.rstr, Tok.hash, Tok.body, Tok.bang], fun fuel => ?_⟩
      have := fix_hash_single_bang pre rest x fuel hx.1
      simpa [Tok.rstr, Tok.str, Tok.hash, Tok.body, Tok.bang] using this
  | true =>
    have hl1 : ∀ c ∈ letters, (c == chLBr) = false := fun c hc => (upper_ne c (hup c hc)).1
    have hl2 : ∀ c ∈ letters, (c == chRBr) = false := fun c hc => (upper_ne c (hup c hc)).2.1
    have hbody : ∀ c ∈ chLBr :: (letters ++ [chRBr]), (c == chHash) = false ∧ (c == chBang) = false := by
      intro c hc
      rcases List.mem_cons.1 hc with rfl | hc
      · exact ⟨by decide, by decide⟩
      · rcases List.mem_append.1 hc with h | h
        · exact ⟨(upper_ne c (hup c h)).2.2.2.1, (upper_ne c (hup c h)).2.2.1⟩
        · simp at h; subst h; exact ⟨by decide, by decide⟩
    cases oblig <;> cases neg
    · -- [L]
      refine ⟨(chLBr :: (letters ++ [chRBr])).length, by simp, by simp [Tok.rstr, Tok.hash, Tok.body, Tok.bang],
        fun fuel => ?_⟩
      have := fix_skip_run (chLBr :: (letters ++ [chRBr])) pre rest fuel hbody
      simpa [Tok.rstr, Tok.str, Tok.hash, Tok.body, Tok.bang] using this
    · -- [L]!
      refine ⟨(chLBr :: (letters ++ [chRBr])).length + 1, by simp, by simp [Tok.rstr, Tok.hash, Tok.body, Tok.bang],
        fun fuel => ?_⟩
      have h1 := fix_skip_run (chLBr :: (letters ++ [chRBr])) pre (chBang :: rest) (fuel + 1) hbody
      have h2 := fix_bang_bracket pre rest letters false fuel hl1
      simp only [Bool.false_eq_true, if_false] at h2
      simp only [Tok.rstr, Tok.str, Tok.hash, Tok.body, Tok.bang, Bool.false_eq_true, if_false, if_true,
        List.nil_append, List.append_nil]
      have e : fuel + ((chLBr :: (letters ++ [chRBr])).length + 1) = fuel + 1 + (chLBr :: (letters ++ [chRBr])).length := by
        omega
      have e2 : (chLBr :: (letters ++ [chRBr]) ++ [chBang]) ++ rest = chLBr :: (letters ++ [chRBr]) ++ chBang :: rest := by
        simp
      have e3 : ([chBang] ++ chLBr :: (letters ++ [chRBr])) ++ rest = chBang :: (chLBr :: (letters ++ [chRBr]) ++ rest) := by
        simp
      have e4 : pre.length + ([chBang] ++ chLBr :: (letters ++ [chRBr])).length =
          pre.length + (chLBr :: (letters ++ [chRBr])).length + 1 := by simp; omega
      rw [e, e2, e3, e4, h1, h2]
    · -- #[L]
      refine ⟨1, Nat.le_refl _, by simp [Tok.rstr, Tok.hash, Tok.body, Tok.bang], fun fuel => ?_⟩
      have := fix_hash_bracket pre rest letters fuel hl2
      simp only [Tok.rstr, Tok.str, Tok.hash, Tok.body, Tok.bang, Bool.false_eq_true, if_false, if_true,
        List.nil_append, List.append_nil]
      have e2 : ([chHash] ++ chLBr :: (letters ++ [chRBr])) ++ rest = chHash :: chLBr :: (letters ++ chRBr :: rest) := by
        simp
      have e3 : (chLBr :: (letters ++ [chRBr]) ++ [chHash]) ++ rest = chLBr :: (letters ++ chRBr :: chHash :: rest) := by
        simp
      have e4 : pre.length + (chLBr :: (letters ++ [chRBr]) ++ [chHash]).length = pre.length + (letters.length + 3) := by
        simp
      rw [e2, e3, e4, this]
    · -- #[L]!
      refine ⟨2, by omega, by simp [Tok.rstr, Tok.hash, Tok.body, Tok.bang], fun fuel => ?_⟩
      have h1 := fix_hash_bracket pre (chBang :: rest) letters (fuel + 1) hl2
      have h2 := fix_bang_bracket pre rest letters true fuel hl1
      simp only [if_true] at h2
      simp only [Tok.rstr, Tok.str, Tok.hash, Tok.body, Tok.bang, if_true]
      have e2 : ([chHash] ++ (chLBr :: (letters ++ [chRBr]) ++ [chBang])) ++ rest =
          chHash :: chLBr :: (letters ++ chRBr :: chBang :: rest) := by simp
      have e3 : ([chBang] ++ (chLBr :: (letters ++ [chRBr]) ++ [chHash])) ++ rest =
          chBang :: ((chLBr :: (letters ++ [chRBr, chHash])) ++ rest) := by simp
      have e4 : pre.length + ([chBang] ++ (chLBr :: (letters ++ [chRBr]) ++ [chHash])).length =
          pre.length + (chLBr :: (letters ++ [chRBr, chHash])).length + 1 := by simp; omega
      have e5 : chLBr :: (letters ++ chRBr :: chHash :: chBang :: rest) =
          (chLBr :: (letters ++ [chRBr, chHash])) ++ chBang :: rest := by simp
      have e6 : pre.length + (letters.length + 3) = pre.length + (chLBr :: (letters ++ [chRBr, chHash])).length := by
        simp
      rw [e5, e6] at h1
      rw [show fuel + 2 = fuel + 1 + 1 from rfl, e2, e3, e4, h1, h2]

/-- first character of a reversed token: never `!` -/
theorem rstr_head (u : Tok) (hu : u.WF) (rest : Bytes) : ((u.rstr ++ rest).getD 0 0 == chBang) = false := by
  obtain ⟨neg, bracket, letters, oblig⟩ := u
  obtain ⟨hup, hne, hone⟩ := hu
  simp only at hup hne hone
  cases oblig
  · cases bracket
    · match letters, hne with
      | x :: ls, _ =>
        simp only [Tok.rstr, Tok.hash, Tok.body, Bool.false_eq_true, if_false, List.nil_append, List.cons_append,
          List.getD_cons_zero]
        exact (upper_ne x (hup x (by simp))).2.2.1
    · simp only [Tok.rstr, Tok.hash, Tok.body, Bool.false_eq_true, if_false, if_true, List.nil_append, List.cons_append,
        List.getD_cons_zero]
      decide
  · simp only [Tok.rstr, Tok.hash, if_true, List.cons_append, List.getD_cons_zero]
    decide

theorem patRStr_head (us : List Tok) (hus : ∀ u ∈ us, u.WF) : ((patRStr us).getD 0 0 == chBang) = false := by
  cases us with
  | nil => decide
  | cons u us => rw [patRStr_cons]; exact rstr_head u (hus u (by simp)) _

/-- the whole fix-up loop on a reversed token list -/
theorem fix_all (us : List Tok) : (∀ u ∈ us, u.WF) → ∀ (pre : Bytes) (fuel : Nat), (patRStr us).length + 1 ≤ fuel →
    fixLoop fuel (pre ++ patRStr us).toArray pre.length = some (pre ++ patStr us).toArray := by
  induction us with
  | nil =>
    intro _ pre fuel hf
    obtain ⟨fuel, rfl⟩ : ∃ f, fuel = f + 1 := ⟨fuel - 1, by omega⟩
    simp only [patRStr, patStr, List.map_nil, List.flatten_nil, List.append_nil]
    exact fixLoop_end _ _ _ (by simp)
  | cons u us ih =>
    intro hus pre fuel hf
    have hu := hus u (by simp)
    have hus' : ∀ u ∈ us, u.WF := fun v hv => hus v (List.mem_cons_of_mem _ hv)
    obtain ⟨n, hn1, hn2, hstep⟩ := fix_tok u hu pre (patRStr us) (patRStr_head us hus')
    rw [patRStr_cons, List.length_append] at hf
    obtain ⟨fuel, rfl⟩ : ∃ f, fuel = f + n := ⟨fuel - n, by omega⟩
    rw [patRStr_cons, patStr_cons, hstep]
    have e1 : pre ++ (u.str ++ patRStr us) = (pre ++ u.str) ++ patRStr us := by simp
    have e2 : pre.length + u.str.length = (pre ++ u.str).length := by simp
    have e3 : pre ++ (u.str ++ patStr us) = (pre ++ u.str) ++ patStr us := by simp
    rw [e1, e2, e3]
    exact ih hus' (pre ++ u.str) fuel (by omega)

/-! ## the complemented token list -/

/-- complement of a token: every letter complemented (order inside a class reversed, as the C code leaves it) -/
def Tok.comp (t : Tok) : Tok := { t with letters := (t.letters.map baseComplement).reverse }

theorem bc_punct : baseComplement chHash = chHash ∧ baseComplement chBang = chBang ∧
    baseComplement chLBr = chRBr ∧ baseComplement chRBr = chLBr := by decide

theorem upper_ofNat (c : UInt8) (h : isUpper c = true) : c.toNat - 65 < 26 ∧ c = UInt8.ofNat (65 + (c.toNat - 65)) := by
  unfold isUpper at h
  simp only [Bool.and_eq_true, decide_eq_true_eq] at h
  have h1 : 65 ≤ c.toNat := UInt8.le_iff_toNat_le.mp h.1
  have h2 : c.toNat ≤ 90 := UInt8.le_iff_toNat_le.mp h.2
  refine ⟨by omega, ?_⟩
  have : 65 + (c.toNat - 65) = c.toNat := by omega
  rw [this, UInt8.ofNat_toNat]

theorem bc_upper_table : ∀ l, l < 26 → isUpper (baseComplement (UInt8.ofNat (65 + l))) = true := by decide

theorem bc_upper (c : UInt8) (h : isUpper c = true) : isUpper (baseComplement c) = true := by
  obtain ⟨h1, h2⟩ := upper_ofNat c h
  rw [h2]
  exact bc_upper_table _ h1

theorem comp_wf (t : Tok) (ht : t.WF) : t.comp.WF := by
  obtain ⟨h1, h2, h3⟩ := ht
  refine ⟨?_, ?_, ?_⟩
  · intro c hc
    simp only [Tok.comp, List.mem_reverse, List.mem_map] at hc
    obtain ⟨a, ha, rfl⟩ := hc
    exact bc_upper a (h1 a ha)
  · intro h0
    simp only [Tok.comp, List.reverse_eq_nil_iff, List.map_eq_nil_iff] at h0
    exact h2 h0
  · intro hb
    simp only [Tok.comp, List.length_reverse, List.length_map]
    exact h3 hb

/-- complementing every character of a token and reversing gives the reversed form of the complemented token -/
theorem str_map_rev (t : Tok) : (t.str.map baseComplement).reverse = t.comp.rstr := by
  obtain ⟨neg, bracket, letters, oblig⟩ := t
  cases neg <;> cases bracket <;> cases oblig <;>
    simp [Tok.str, Tok.rstr, Tok.comp, Tok.bang, Tok.body, Tok.hash, bc_punct.1, bc_punct.2.1, bc_punct.2.2.1, bc_punct.2.2.2]

theorem rev_pat (ts : List Tok) : ((patStr ts).map baseComplement).reverse = patRStr (ts.reverse.map Tok.comp) := by
  induction ts with
  | nil => rfl
  | cons t ts ih =>
    rw [patStr_cons, List.map_append, List.reverse_append, ih, str_map_rev, List.reverse_cons, List.map_append,
      patRStr_append]
    simp [patRStr]

/-- **`ecoComplementPattern` on a pattern of the grammar**: the reversed list of complemented tokens -/
theorem complementString_pat (ts : List Tok) (hts : ∀ t ∈ ts, t.WF) :
    complementString (patStr ts) = some (patStr (ts.reverse.map Tok.comp)) := by
  unfold complementString
  simp only [rev_pat]
  have hus : ∀ u ∈ ts.reverse.map Tok.comp, u.WF := by
    intro u hu
    simp only [List.mem_map, List.mem_reverse] at hu
    obtain ⟨t, ht, rfl⟩ := hu
    exact comp_wf t (hts t ht)
  have := fix_all (ts.reverse.map Tok.comp) hus [] ((patRStr (ts.reverse.map Tok.comp)).length + 2) (by omega)
  simp only [List.nil_append, List.length_nil] at this
  rw [this]
  rfl

/-! ## the compiler on a pattern of the grammar -/

theorem str_ne_nil (t : Tok) (ht : t.WF) : t.body ≠ [] ∧ 1 ≤ t.str.length := by
  obtain ⟨neg, bracket, letters, oblig⟩ := t
  obtain ⟨_, hne, _⟩ := ht
  simp only at hne
  have hb : Tok.body ⟨neg, bracket, letters, oblig⟩ ≠ [] := by
    cases bracket
    · simpa [Tok.body] using hne
    · simp [Tok.body]
  refine ⟨hb, ?_⟩
  have := List.length_pos_iff.2 hb
  simp only [Tok.str, List.length_append]
  omega

/-- first character of a token: never `#` -/
theorem str_head (t : Tok) (ht : t.WF) (rest : Bytes) : ((t.str ++ rest).headD 0 == chHash) = false := by
  obtain ⟨neg, bracket, letters, oblig⟩ := t
  obtain ⟨hup, hne, _⟩ := ht
  simp only at hup hne
  cases neg
  · cases bracket
    · match letters, hne with
      | x :: ls, _ =>
        simp only [Tok.str, Tok.bang, Tok.body, Bool.false_eq_true, if_false, List.nil_append, List.cons_append,
          List.headD_cons]
        exact (upper_ne x (hup x (by simp))).2.2.2.1
    · simp only [Tok.str, Tok.bang, Tok.body, Bool.false_eq_true, if_false, if_true, List.nil_append, List.cons_append,
        List.headD_cons]
      decide
  · simp only [Tok.str, Tok.bang, if_true, List.cons_append, List.headD_cons]
    decide

theorem patStr_head (ts : List Tok) (hts : ∀ t ∈ ts, t.WF) : ((patStr ts).headD 0 == chHash) = false := by
  cases ts with
  | nil => decide
  | cons t ts => rw [patStr_cons]; exact str_head t (hts t (by simp)) _

theorem findRBr_run (run tail : Bytes) (hrun : ∀ c ∈ run, (c == chRBr) = false) :
    findRBr (run ++ chRBr :: tail) = some (run.length, chRBr :: tail) := by
  induction run with
  | nil => simp [findRBr]
  | cons c run ih =>
    simp only [List.cons_append, findRBr, hrun c (by simp), Bool.false_eq_true, if_false,
      ih (fun c' hc' => hrun c' (List.mem_cons_of_mem _ hc'))]
    simp

theorem skipOblig_hash (c : UInt8) (t : Tok) (rest : Bytes) (hr : (rest.headD 0 == chHash) = false) :
    skipOblig (c :: (t.hash ++ rest)) = t.hash.length := by
  unfold skipOblig Tok.hash
  cases t.oblig
  · simp only [List.drop_succ_cons, List.drop_zero, Bool.false_eq_true, if_false, List.nil_append, hr, List.length_nil]
  · simp [List.headD]

theorem split_tok (t : Tok) (ht : t.WF) (rest : Bytes) (hr : (rest.headD 0 == chHash) = false) :
    splitPattern (t.str ++ rest) = some (t.str.length - 1) := by
  have key : splitPattern (t.body ++ (t.hash ++ rest)) = some ((t.body ++ t.hash).length - 1) := by
    obtain ⟨hup, hne, hone⟩ := ht
    unfold Tok.body
    cases hb : t.bracket
    · have hl := hone hb
      match hlet : t.letters, hl with
      | [x], _ =>
        have hx := upper_ne x (hup x (by rw [hlet]; simp))
        simp only [Bool.false_eq_true, if_false, List.cons_append, List.nil_append, splitPattern, hx.1, hx.2.2.1,
          skipOblig_hash x t rest hr, List.length_cons]
        congr 1
    · simp only [if_true, List.cons_append, splitPattern, beq_self_eq_true]
      have : chLBr :: (t.letters ++ [chRBr] ++ (t.hash ++ rest)) = (chLBr :: t.letters) ++ chRBr :: (t.hash ++ rest) := by simp
      rw [this, findRBr_run (chLBr :: t.letters) (t.hash ++ rest) (by
        intro c hc
        rcases List.mem_cons.1 hc with rfl | hc
        · decide
        · exact (upper_ne c (hup c hc)).2.1)]
      simp only [skipOblig_hash chRBr t rest hr, List.length_cons, List.length_append, List.length_nil]
      congr 1
  unfold Tok.str Tok.bang
  cases t.neg
  · simp only [Bool.false_eq_true, if_false, List.nil_append, List.append_assoc]
    exact key
  · have hbl := List.length_pos_iff.2 (str_ne_nil t ht).1
    simp only [if_true, List.cons_append, List.nil_append, List.append_assoc, splitPattern]
    have h1 : (chBang == chLBr) = false := by decide
    simp only [h1, Bool.false_eq_true, if_false, beq_self_eq_true, if_true, key, Option.map_some, List.length_cons,
      List.length_append] at hbl ⊢
    congr 1
    omega

theorem patStr_length (ts : List Tok) (hts : ∀ t ∈ ts, t.WF) : ts.length ≤ (patStr ts).length := by
  induction ts with
  | nil => simp
  | cons t ts ih =>
    rw [patStr_cons, List.length_append, List.length_cons]
    have := (str_ne_nil t (hts t (by simp))).2
    have := ih (fun u hu => hts u (List.mem_cons_of_mem _ hu))
    omega

/-- the token loop of `lenPattern` / `EncodePattern` recovers the tokens -/
theorem tokens_pat (ts : List Tok) : (∀ t ∈ ts, t.WF) → ∀ fuel, ts.length + 1 ≤ fuel →
    tokens fuel (patStr ts) = some (ts.map Tok.str) := by
  induction ts with
  | nil =>
    intro _ fuel hf
    obtain ⟨fuel, rfl⟩ : ∃ f, fuel = f + 1 := ⟨fuel - 1, by simp at hf; omega⟩
    rfl
  | cons t ts ih =>
    intro hts fuel hf
    obtain ⟨fuel, rfl⟩ : ∃ f, fuel = f + 1 := ⟨fuel - 1, by omega⟩
    have ht := hts t (by simp)
    have hts' : ∀ u ∈ ts, u.WF := fun u hu => hts u (List.mem_cons_of_mem _ hu)
    have hlen := (str_ne_nil t ht).2
    rw [patStr_cons]
    generalize hl : t.str ++ patStr ts = l
    cases l with
    | nil =>
      have := congrArg List.length hl
      simp only [List.length_append, List.length_nil] at this
      omega
    | cons c l' =>
      rw [tokens]
      · rw [← hl, split_tok t ht _ (patStr_head ts hts')]
        have e : t.str.length - 1 + 1 = t.str.length := by omega
        simp only [e, List.drop_left, List.take_left, ih hts' fuel (by simp at hf; omega), Option.map_some, List.map_cons]
      · intro h; cases h

/-! ### code of a token -/

/-- the accepted-letter set and the obligatory flag of a token -/
def Tok.code (t : Tok) : Nat :=
  (if t.neg then valLetters Gen.apatDnaCode t.letters ^^^ Gen.apatPatMask else valLetters Gen.apatDnaCode t.letters) |||
    (if t.oblig then Gen.apatObliBit else 0)

theorem valLetters_append (code : List Nat) (ls tail : Bytes) (hls : ∀ c ∈ ls, isUpper c = true)
    (htail : ∀ c, tail.head? = some c → isUpper c = false) :
    valLetters code (ls ++ tail) = valLetters code ls := by
  induction ls with
  | nil =>
    cases tail with
    | nil => rfl
    | cons c tail =>
      have := htail c rfl
      simp [valLetters, this]
  | cons x ls ih =>
    simp only [List.cons_append, valLetters, hls x (by simp), if_true,
      ih (fun c hc => hls c (List.mem_cons_of_mem _ hc))]

theorem val_body (t : Tok) (ht : t.WF) :
    valPattern Gen.apatDnaCode (t.body ++ t.hash) = valLetters Gen.apatDnaCode t.letters := by
  obtain ⟨hup, hne, _⟩ := ht
  have hhash : ∀ c, t.hash.head? = some c → isUpper c = false := by
    intro c hc
    unfold Tok.hash at hc
    cases hob : t.oblig
    · rw [hob] at hc; simp at hc
    · rw [hob] at hc; simp at hc; subst hc; decide
  match hlet : t.letters, hne with
  | x :: ls, _ =>
    have hx := upper_ne x (hup x (by rw [hlet]; simp))
    rw [hlet] at hup
    unfold Tok.body
    cases t.bracket
    · simp only [Bool.false_eq_true, if_false, hlet, List.cons_append, valPattern, hx.1, hx.2.2.1]
      exact valLetters_append _ (x :: ls) _ hup hhash
    · simp only [if_true, hlet, List.cons_append, valPattern, beq_self_eq_true, hx.1, hx.2.2.1, Bool.false_eq_true,
        if_false, List.append_assoc]
      exact valLetters_append _ (x :: ls) _ hup (by
        intro c hc; simp at hc; subst hc; decide)

theorem val_tok (t : Tok) (ht : t.WF) : valPattern Gen.apatDnaCode t.str ||| obliBit t.str = t.code := by
  have hv : valPattern Gen.apatDnaCode t.str =
      if t.neg then valLetters Gen.apatDnaCode t.letters ^^^ Gen.apatPatMask else valLetters Gen.apatDnaCode t.letters := by
    unfold Tok.str Tok.bang
    cases t.neg
    · simp only [Bool.false_eq_true, if_false, List.nil_append]
      exact val_body t ht
    · have h1 : (chBang == chLBr) = false := by decide
      simp only [if_true, List.cons_append, List.nil_append, valPattern, h1, Bool.false_eq_true, if_false,
        beq_self_eq_true, val_body t ht]
  have ho : obliBit t.str = if t.oblig then Gen.apatObliBit else 0 := by
    obtain ⟨hup, hne, hone⟩ := ht
    unfold obliBit Tok.str Tok.hash
    cases hob : t.oblig
    · simp only [Bool.false_eq_true, if_false, List.append_nil]
      have hlast : ∃ pre z, t.bang ++ t.body = pre ++ [z] ∧ (z == chHash) = false := by
        unfold Tok.body
        cases hb : t.bracket
        · have hl := hone hb
          match hlet : t.letters, hl with
          | [x], _ =>
            exact ⟨t.bang, x, by simp, (upper_ne x (hup x (by rw [hlet]; simp))).2.2.2.1⟩
        · exact ⟨t.bang ++ chLBr :: t.letters, chRBr, by simp, by decide⟩
      obtain ⟨pre, z, hz, hzz⟩ := hlast
      rw [hz, List.getLast?_append]
      have hzne : z ≠ chHash := by simpa using hzz
      simp [hzne]
    · simp only [if_true]
      have : t.bang ++ (t.body ++ [chHash]) = (t.bang ++ t.body) ++ [chHash] := by simp
      rw [this, List.getLast?_append]
      simp
  rw [hv, ho]
  rfl

/-- **`EncodePattern` on a pattern of the grammar**: one code per token -/
theorem encode_pat (ts : List Tok) (hts : ∀ t ∈ ts, t.WF) (hne : ts ≠ []) :
    encodePattern (patStr ts) = some (ts.map Tok.code) := by
  unfold encodePattern
  rw [tokens_pat ts hts _ (by have := patStr_length ts hts; omega)]
  match ts, hne, hts with
  | t :: ts, _, hts =>
    simp only [List.map_cons, List.map_map]
    congr 2
    · exact val_tok t (hts t (by simp))
    · apply List.map_congr_left
      intro u hu
      exact val_tok u (hts u (List.mem_cons_of_mem _ hu))

/-! ### `CheckPattern` accepts the patterns of the grammar -/

theorem check_letters (ls : Bytes) : ∀ (prev : UInt8) (lev : Int) (rest : Bytes), (∀ c ∈ ls, isUpper c = true) → ls ≠ [] →
    ∃ p, (p == chLBr) = false ∧ checkLoop prev lev (ls ++ rest) = checkLoop p lev rest := by
  induction ls with
  | nil => intro _ _ _ _ h; exact absurd rfl h
  | cons x ls ih =>
    intro prev lev rest hup _
    have hx := upper_ne x (hup x (by simp))
    have hstep : checkLoop prev lev (x :: ls ++ rest) = checkLoop x lev (ls ++ rest) := by
      simp only [List.cons_append, checkLoop, hx.1, hx.2.1, hx.2.2.1, hx.2.2.2.1, Bool.false_eq_true, if_false,
        hup x (by simp), if_true]
    rw [hstep]
    cases ls with
    | nil => exact ⟨x, hx.1, rfl⟩
    | cons y ls => exact ih x lev rest (fun c hc => hup c (List.mem_cons_of_mem _ hc)) (by simp)

theorem check_hash (t : Tok) (p : UInt8) (rest : Bytes) (hp : (p == chLBr) = false) :
    ∃ p', checkLoop p 0 (t.hash ++ rest) = checkLoop p' 0 rest := by
  unfold Tok.hash
  cases t.oblig
  · exact ⟨p, rfl⟩
  · refine ⟨chHash, ?_⟩
    have h1 : (chHash == chLBr) = false := by decide
    have h2 : (chHash == chRBr) = false := by decide
    have h3 : (chHash == chBang) = false := by decide
    have h4 : ((0 : Int) != 0) = false := by decide
    simp only [if_true, List.cons_append, List.nil_append, checkLoop, h1, h2, h3, h4, hp, Bool.false_eq_true, if_false,
      beq_self_eq_true]

theorem check_tok (t : Tok) (ht : t.WF) (prev : UInt8) (rest : Bytes) :
    ∃ p, checkLoop prev 0 (t.str ++ rest) = checkLoop p 0 rest := by
  have hbody : ∀ prev, ∃ p, checkLoop prev 0 (t.body ++ (t.hash ++ rest)) = checkLoop p 0 rest := by
    intro prev
    obtain ⟨hup, hne, _⟩ := ht
    unfold Tok.body
    cases t.bracket
    · simp only [Bool.false_eq_true, if_false]
      obtain ⟨p, hp, h⟩ := check_letters t.letters prev 0 (t.hash ++ rest) hup hne
      obtain ⟨p', h'⟩ := check_hash t p rest hp
      exact ⟨p', by rw [h, h']⟩
    · simp only [if_true]
      match hlet : t.letters, hne with
      | x :: ls, _ =>
        have hx := upper_ne x (hup x (by rw [hlet]; simp))
        rw [hlet] at hup
        have h4 : ((0 : Int) != 0) = false := by decide
        have h1 : checkLoop prev 0 (chLBr :: (x :: ls ++ [chRBr]) ++ (t.hash ++ rest)) =
            checkLoop chLBr 1 ((x :: ls) ++ (chRBr :: (t.hash ++ rest))) := by
          simp only [List.cons_append, List.append_assoc, List.nil_append, checkLoop, beq_self_eq_true, if_true, h4,
            Bool.false_eq_true, if_false, List.headD_cons, hx.2.1]
          rfl
        obtain ⟨p, _, h2⟩ := check_letters (x :: ls) chLBr 1 (chRBr :: (t.hash ++ rest)) hup (by simp)
        have h5 : (chRBr == chLBr) = false := by decide
        have h6 : (((1 : Int) - 1) != 0) = false := by decide
        have h3 : checkLoop p 1 (chRBr :: (t.hash ++ rest)) = checkLoop chRBr 0 (t.hash ++ rest) := by
          simp only [checkLoop, h5, Bool.false_eq_true, if_false, beq_self_eq_true, if_true, h6]
          rfl
        obtain ⟨p', h'⟩ := check_hash t chRBr rest h5
        exact ⟨p', by rw [h1, h2, h3, h']⟩
  unfold Tok.str Tok.bang
  cases t.neg
  · simp only [Bool.false_eq_true, if_false, List.nil_append, List.append_assoc]
    exact hbody prev
  · simp only [if_true, List.cons_append, List.nil_append, List.append_assoc]
    obtain ⟨p, hp⟩ := hbody chBang
    refine ⟨p, ?_⟩
    rw [← hp]
    -- the character after `!` is the first of the body: `[` or a letter
    obtain ⟨hup, hne, _⟩ := ht
    have hnext : ∃ y tl, t.body ++ (t.hash ++ rest) = y :: tl ∧ y ≠ 0 ∧ (y == chRBr) = false := by
      unfold Tok.body
      cases t.bracket
      · match hlet : t.letters, hne with
        | x :: ls, _ =>
          have hx := upper_ne x (hup x (by rw [hlet]; simp))
          exact ⟨x, ls ++ (t.hash ++ rest), by simp, hx.2.2.2.2, hx.2.1⟩
      · exact ⟨chLBr, (t.letters ++ [chRBr]) ++ (t.hash ++ rest), by simp, by decide, by decide⟩
    obtain ⟨y, tl, hy, hy0, hyr⟩ := hnext
    rw [hy]
    have h1 : (chBang == chLBr) = false := by decide
    have h2 : (chBang == chRBr) = false := by decide
    have h4 : ((0 : Int) != 0) = false := by decide
    have hy0' : (y == 0) = false := by simpa using hy0
    simp only [checkLoop, h1, h2, h4, Bool.false_eq_true, if_false, beq_self_eq_true, if_true, List.headD_cons, hy0', hyr]

theorem check_all (ts : List Tok) : (∀ t ∈ ts, t.WF) → ∀ prev, checkLoop prev 0 (patStr ts) = true := by
  induction ts with
  | nil => intro _ _; rfl
  | cons t ts ih =>
    intro hts prev
    rw [patStr_cons]
    obtain ⟨p, hp⟩ := check_tok t (hts t (by simp)) prev (patStr ts)
    rw [hp]
    exact ih (fun u hu => hts u (List.mem_cons_of_mem _ hu)) p

/-- **`CheckPattern` accepts every pattern of the grammar** -/
theorem check_pat (ts : List Tok) (hts : ∀ t ∈ ts, t.WF) : checkPattern (patStr ts) = true := by
  unfold checkPattern
  rw [patStr_head ts hts]
  simp only [Bool.false_eq_true, if_false]
  exact check_all ts hts 0

/-! ### the code of a complemented token is the mirror of the code of the token -/

theorem code_table_lt : ∀ code ∈ Gen.apatDnaCode, code < 2 ^ 26 := by decide

theorem valLetters_lt (ls : Bytes) : valLetters Gen.apatDnaCode ls < 2 ^ 26 := by
  induction ls with
  | nil => simp [valLetters]
  | cons x ls ih =>
    simp only [valLetters]
    split
    · apply Nat.or_lt_two_pow _ ih
      rw [List.getD_eq_getElem?_getD]
      cases h : Gen.apatDnaCode[x.toNat - 65]? with
      | none => simp
      | some v => exact code_table_lt v (List.mem_of_getElem? h)
    · simp

theorem valLetters_bit (ls : Bytes) (c : Nat) (hls : ∀ l ∈ ls, isUpper l = true) :
    (valLetters Gen.apatDnaCode ls).testBit c = ls.any fun l => (Gen.apatDnaCode.getD (l.toNat - 65) 0).testBit c := by
  induction ls with
  | nil => simp [valLetters]
  | cons x ls ih =>
    simp only [valLetters, hls x (by simp), if_true, Nat.testBit_or, List.any_cons,
      ih (fun l hl => hls l (List.mem_cons_of_mem _ hl))]

/-- complementing a letter mirrors its class (decided over the generated tables) -/
theorem bc_mirror_table : ∀ l, l < 26 → ∀ c, c < 26 → c ≠ 20 →
    (Gen.apatDnaCode.getD ((baseComplement (UInt8.ofNat (65 + l))).toNat - 65) 0).testBit c =
      (Gen.apatDnaCode.getD l 0).testBit (compSym c) := by decide

theorem val_mirror (ls : Bytes) (hls : ∀ l ∈ ls, isUpper l = true) (c : Nat) (hc : c < 26) (hu : c ≠ 20) :
    (valLetters Gen.apatDnaCode ((ls.map baseComplement).reverse)).testBit c =
      (valLetters Gen.apatDnaCode ls).testBit (compSym c) := by
  rw [valLetters_bit _ _ (by
    intro l hl
    simp only [List.mem_reverse, List.mem_map] at hl
    obtain ⟨a, ha, rfl⟩ := hl
    exact bc_upper a (hls a ha)), valLetters_bit _ _ hls, List.any_reverse, List.any_map]
  induction ls with
  | nil => rfl
  | cons x ls ih =>
    simp only [List.any_cons, Function.comp]
    rw [ih (fun l hl => hls l (List.mem_cons_of_mem _ hl))]
    congr 1
    obtain ⟨h1, h2⟩ := upper_ofNat x (hls x (by simp))
    have := bc_mirror_table _ h1 c hc hu
    rw [← h2] at this
    exact this

theorem and_two_pow_ne (x n : Nat) : (x &&& 2 ^ n != 0) = x.testBit n := by
  have h : x &&& 2 ^ n = if x.testBit n then 2 ^ n else 0 := by
    apply Nat.eq_of_testBit_eq
    intro i
    rw [Nat.testBit_and, Nat.testBit_two_pow]
    by_cases hi : n = i
    · subst hi
      cases hb : x.testBit n
      · simp
      · simp only [decide_true, Bool.and_self, if_true, Nat.testBit_two_pow_self]
    · cases hb : x.testBit n
      · simp [hi]
      · simp only [hi, decide_false, Bool.and_false, if_true, Nat.testBit_two_pow_of_ne hi]
  rw [h]
  cases x.testBit n
  · simp
  · simp

theorem obli_eq : Gen.apatObliBit = 2 ^ 26 ∧ Gen.apatPatMask = 2 ^ 26 - 1 := by decide

theorem negval_lt (t : Tok) :
    (if t.neg then valLetters Gen.apatDnaCode t.letters ^^^ Gen.apatPatMask else valLetters Gen.apatDnaCode t.letters) < 2 ^ 26 := by
  split
  · exact Nat.xor_lt_two_pow (valLetters_lt _) (by rw [obli_eq.2]; decide)
  · exact valLetters_lt _

theorem obpart_bit (ob : Bool) (c : Nat) : (if ob then Gen.apatObliBit else 0).testBit c = (ob && decide (26 = c)) := by
  rw [obli_eq.1]
  cases ob
  · simp only [Bool.false_eq_true, if_false, Nat.zero_testBit, Bool.false_and]
  · simp only [if_true, Bool.true_and]
    exact Nat.testBit_two_pow

theorem oblig_code (t : Tok) : oblig t.code = t.oblig := by
  unfold oblig Tok.code
  rw [obli_eq.1, and_two_pow_ne, Nat.testBit_or, Nat.testBit_lt_two_pow (negval_lt t), ← obli_eq.1, obpart_bit]
  simp

theorem accepts_code (t : Tok) (c : Nat) (hc : c < 26) :
    accepts t.code c = ((valLetters Gen.apatDnaCode t.letters).testBit c ^^ t.neg) := by
  unfold accepts Tok.code
  have hne : ¬ (26 = c) := by omega
  rw [Nat.testBit_or, obpart_bit]
  simp only [hne, decide_false, Bool.and_false, Bool.or_false]
  cases t.neg
  · simp
  · simp only [if_true, Nat.testBit_xor, obli_eq.2, Nat.testBit_two_pow_sub_one, hc, decide_true]

/-- **the code of the complemented token is the mirror of the code of the token** -/
theorem code_mirror (t : Tok) (ht : t.WF) : MirrorCode t.code t.comp.code := by
  refine ⟨by rw [oblig_code, oblig_code]; rfl, ?_⟩
  intro c hc hu
  rw [accepts_code _ _ hc, accepts_code _ _ (compSym_lt c hc)]
  show ((valLetters Gen.apatDnaCode ((t.letters.map baseComplement).reverse)).testBit c ^^ t.neg) = _
  rw [val_mirror t.letters ht.1 c hc hu]

theorem mirror_list (ts : List Tok) (hts : ∀ t ∈ ts, t.WF) :
    MirrorList (ts.map Tok.code) ((ts.map Tok.comp).map Tok.code) := by
  induction ts with
  | nil => exact MirrorList.nil
  | cons t ts ih =>
    exact MirrorList.cons (code_mirror t (hts t (by simp))) (ih (fun u hu => hts u (List.mem_cons_of_mem _ hu)))

/-! ## `MakeApatPattern` and `ReverseComplement` on a pattern of the grammar -/

theorem pat_chars (ts : List Tok) (hts : ∀ t ∈ ts, t.WF) :
    ∀ c ∈ patStr ts, isUpper c = true ∨ c = chLBr ∨ c = chRBr ∨ c = chBang ∨ c = chHash := by
  intro c hc
  simp only [patStr, List.mem_flatten, List.mem_map] at hc
  obtain ⟨l, ⟨t, ht, rfl⟩, hc⟩ := hc
  have hup := (hts t ht).1
  simp only [Tok.str, Tok.bang, Tok.body, Tok.hash, List.mem_append] at hc
  rcases hc with hc | hc | hc
  · split at hc
    · simp at hc; exact Or.inr (Or.inr (Or.inr (Or.inl hc)))
    · simp at hc
  · split at hc
    · simp only [List.mem_cons, List.mem_append, List.not_mem_nil, or_false] at hc
      rcases hc with hc | hc | hc
      · exact Or.inr (Or.inl hc)
      · exact Or.inl (hup c hc)
      · exact Or.inr (Or.inr (Or.inl hc))
    · exact Or.inl (hup c hc)
  · split at hc
    · simp at hc; exact Or.inr (Or.inr (Or.inr (Or.inr hc)))
    · simp at hc

theorem pat_char_facts (c : UInt8) (h : isUpper c = true ∨ c = chLBr ∨ c = chRBr ∨ c = chBang ∨ c = chHash) :
    c ≠ 0 ∧ isLower c = false := by
  rcases h with h | rfl | rfl | rfl | rfl
  · refine ⟨(upper_ne c h).2.2.2.2, ?_⟩
    unfold isUpper at h
    unfold isLower
    simp only [Bool.and_eq_true, decide_eq_true_eq] at h
    have h2 : c.toNat ≤ 90 := UInt8.le_iff_toNat_le.mp h.2
    cases hb : decide (c ≥ 97) with
    | false => rfl
    | true =>
      have : 97 ≤ c.toNat := UInt8.le_iff_toNat_le.mp (of_decide_eq_true hb)
      omega
  all_goals exact ⟨by decide, by decide⟩

/-- **`MakeApatPattern` on a pattern of the grammar**: it compiles, one code per token -/
theorem compile_pat (ts : List Tok) (hts : ∀ t ∈ ts, t.WF) (hne : ts ≠ []) (e : Nat) (b : Bool) :
    compile (patStr ts) e b = .ok ⟨patStr ts, ts.map Tok.code, e, b⟩ := by
  have hc : cString (patStr ts) = patStr ts := by
    unfold cString
    have hall : ∀ c ∈ patStr ts, (c != 0) = true := by
      intro c hc
      have := (pat_char_facts c (pat_chars ts hts c hc)).1
      simpa using this
    generalize patStr ts = l at hall
    induction l with
    | nil => rfl
    | cons c l ih =>
      rw [List.takeWhile_cons_of_pos (p := fun x => x != 0) (hall c (by simp)),
        ih (fun c' hc' => hall c' (List.mem_cons_of_mem _ hc'))]
  have hu : upperSeq (patStr ts) = patStr ts := by
    unfold upperSeq
    conv => rhs; rw [← List.map_id (patStr ts)]
    apply List.map_congr_left
    intro c hc
    rw [(pat_char_facts c (pat_chars ts hts c hc)).2]
    rfl
  unfold compile
  simp only [hc, hu, check_pat ts hts, Bool.not_true, Bool.false_eq_true, if_false, encode_pat ts hts hne]

/-- **`ApatPattern.ReverseComplement` on a pattern of the grammar** succeeds, and the code list of the result is the
mirror (`MirrorList`) of the reversed code list of the pattern: the hypothesis of `match_revcomp` -/
theorem reverseComplement_pat (ts : List Tok) (hts : ∀ t ∈ ts, t.WF) (hne : ts ≠ []) (e : Nat) (b : Bool) :
    reverseComplement ⟨patStr ts, ts.map Tok.code, e, b⟩ =
      .ok ⟨patStr (ts.reverse.map Tok.comp), (ts.reverse.map Tok.comp).map Tok.code, e, b⟩ ∧
    MirrorList (ts.map Tok.code).reverse ((ts.reverse.map Tok.comp).map Tok.code) := by
  have hus : ∀ u ∈ ts.reverse.map Tok.comp, u.WF := by
    intro u hu
    simp only [List.mem_map, List.mem_reverse] at hu
    obtain ⟨t, ht, rfl⟩ := hu
    exact comp_wf t (hts t ht)
  have hne' : ts.reverse.map Tok.comp ≠ [] := by simpa using hne
  constructor
  · unfold reverseComplement
    simp only [complementString_pat ts hts, check_pat _ hus, Bool.not_true, Bool.false_eq_true, if_false,
      encode_pat _ hus hne', Pattern.patlen, List.length_map, List.length_reverse, Nat.lt_irrefl, gt_iff_lt]
  · rw [← List.map_reverse]
    exact mirror_list ts.reverse (fun t ht => hts t (List.mem_reverse.1 ht))

end ObiVerif.Apat
