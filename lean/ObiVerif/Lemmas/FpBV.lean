import ObiVerif.Lemmas.FpBits
/-!
# The `Nat`-modulo-`2^w` reading of the model coincides with Lean's machine words `BitVec w` (core Lean only)

`toBV` maps a model value to the bit-vector of its width.  The generic lemmas say that each exact `Nat`
operation used in the `u*_exact` theorems (sum, difference, product, `* 2^n mod 2^w`, `/ 2^n`, `land`, `lor`, `xor`,
complement, quotient, remainder, order, truncation) is the corresponding `BitVec` operation.
-/
namespace ObiVerif.Fp

def U64.toBV (u : U64) : BitVec 64 := BitVec.ofNat 64 u.toNat
def U128.toBV (u : U128) : BitVec 128 := BitVec.ofNat 128 u.toNat
def U256.toBV (u : U256) : BitVec 256 := BitVec.ofNat 256 u.toNat

theorem WW_eq_pow : W * W = 2 ^ 128 := by decide
theorem W4_eq_pow : W ^ 4 = 2 ^ 256 := by decide

theorem U64.toNat_lt' {u : U64} (h : u.WF) : u.toNat < 2 ^ 64 := W_eq_pow ▸ h
theorem U128.toNat_lt' {u : U128} (h : u.WF) : u.toNat < 2 ^ 128 := WW_eq_pow ▸ U128.toNat_lt h
theorem U256.toNat_lt' {u : U256} (h : u.WF) : u.toNat < 2 ^ 256 := W4_eq_pow ▸ U256.toNat_lt h

/-! ## generic: `BitVec.ofNat w` turns exact operations on naturals below `2^w` into the `BitVec` operations -/

theorem bv_toNat {w a : Nat} (h : a < 2 ^ w) : (BitVec.ofNat w a).toNat = a := by
  rw [BitVec.toNat_ofNat, Nat.mod_eq_of_lt h]

theorem bv_inj {w a b : Nat} (ha : a < 2 ^ w) (hb : b < 2 ^ w) : BitVec.ofNat w a = BitVec.ofNat w b ↔ a = b := by
  constructor
  · intro h
    have := congrArg BitVec.toNat h
    rwa [bv_toNat ha, bv_toNat hb] at this
  · intro h; rw [h]

theorem bv_sub {w a b : Nat} (ha : a < 2 ^ w) (hba : b ≤ a) :
    BitVec.ofNat w (a - b) = BitVec.ofNat w a - BitVec.ofNat w b := by
  have hb : b < 2 ^ w := Nat.lt_of_le_of_lt hba ha
  apply BitVec.eq_of_toNat_eq
  rw [BitVec.toNat_sub, bv_toNat ha, bv_toNat hb, bv_toNat (Nat.lt_of_le_of_lt (Nat.sub_le _ _) ha)]
  have e : 2 ^ w - b + a = (a - b) + 2 ^ w := by omega
  rw [e, Nat.add_mod_right, Nat.mod_eq_of_lt (Nat.lt_of_le_of_lt (Nat.sub_le _ _) ha)]

theorem bv_shl {w a : Nat} (n : Nat) (ha : a < 2 ^ w) :
    BitVec.ofNat w (a * 2 ^ n % 2 ^ w) = BitVec.ofNat w a <<< n := by
  apply BitVec.eq_of_toNat_eq
  rw [BitVec.toNat_shiftLeft, bv_toNat ha, bv_toNat (Nat.mod_lt _ (Nat.two_pow_pos w)), Nat.shiftLeft_eq]

theorem bv_shr {w a : Nat} (n : Nat) (ha : a < 2 ^ w) :
    BitVec.ofNat w (a / 2 ^ n) = BitVec.ofNat w a >>> n := by
  apply BitVec.eq_of_toNat_eq
  rw [BitVec.toNat_ushiftRight, bv_toNat ha, bv_toNat (Nat.lt_of_le_of_lt (Nat.div_le_self _ _) ha),
    Nat.shiftRight_eq_div_pow]

theorem bv_and {w a b : Nat} : BitVec.ofNat w (Nat.land a b) = BitVec.ofNat w a &&& BitVec.ofNat w b :=
  BitVec.ofNat_and

theorem bv_or {w a b : Nat} (ha : a < 2 ^ w) (hb : b < 2 ^ w) :
    BitVec.ofNat w (Nat.lor a b) = BitVec.ofNat w a ||| BitVec.ofNat w b := by
  apply BitVec.eq_of_toNat_eq
  show (BitVec.ofNat w (a ||| b)).toNat = _
  rw [BitVec.toNat_or, bv_toNat ha, bv_toNat hb, bv_toNat (Nat.or_lt_two_pow ha hb)]

theorem bv_xor {w a b : Nat} (ha : a < 2 ^ w) (hb : b < 2 ^ w) :
    BitVec.ofNat w (Nat.xor a b) = BitVec.ofNat w a ^^^ BitVec.ofNat w b := by
  apply BitVec.eq_of_toNat_eq
  show (BitVec.ofNat w (a ^^^ b)).toNat = _
  rw [BitVec.toNat_xor, bv_toNat ha, bv_toNat hb, bv_toNat (Nat.xor_lt_two_pow ha hb)]

theorem bv_not {w a : Nat} (ha : a < 2 ^ w) : BitVec.ofNat w (2 ^ w - 1 - a) = ~~~ BitVec.ofNat w a := by
  apply BitVec.eq_of_toNat_eq
  rw [BitVec.toNat_not, bv_toNat ha, bv_toNat (by omega)]

theorem bv_div {w a b : Nat} (ha : a < 2 ^ w) (hb : b < 2 ^ w) :
    BitVec.ofNat w (a / b) = BitVec.ofNat w a / BitVec.ofNat w b := by
  apply BitVec.eq_of_toNat_eq
  rw [BitVec.toNat_udiv, bv_toNat ha, bv_toNat hb, bv_toNat (Nat.lt_of_le_of_lt (Nat.div_le_self _ _) ha)]

theorem bv_mod {w a b : Nat} (ha : a < 2 ^ w) (hb : b < 2 ^ w) :
    BitVec.ofNat w (a % b) = BitVec.ofNat w a % BitVec.ofNat w b := by
  apply BitVec.eq_of_toNat_eq
  rw [BitVec.toNat_umod, bv_toNat ha, bv_toNat hb, bv_toNat (Nat.lt_of_le_of_lt (Nat.mod_le _ _) ha)]

theorem bv_ult {w a b : Nat} (ha : a < 2 ^ w) (hb : b < 2 ^ w) :
    (BitVec.ofNat w a).ult (BitVec.ofNat w b) = decide (a < b) := by
  unfold BitVec.ult; rw [bv_toNat ha, bv_toNat hb]

theorem bv_ule {w a b : Nat} (ha : a < 2 ^ w) (hb : b < 2 ^ w) :
    (BitVec.ofNat w a).ule (BitVec.ofNat w b) = decide (a ≤ b) := by
  unfold BitVec.ule; rw [bv_toNat ha, bv_toNat hb]

theorem bv_uaddOverflow {w a b : Nat} (ha : a < 2 ^ w) (hb : b < 2 ^ w) :
    (BitVec.ofNat w a).uaddOverflow (BitVec.ofNat w b) = decide (¬ a + b < 2 ^ w) := by
  unfold BitVec.uaddOverflow; rw [bv_toNat ha, bv_toNat hb]; simp
theorem bv_usubOverflow {w a b : Nat} (ha : a < 2 ^ w) (hb : b < 2 ^ w) :
    (BitVec.ofNat w a).usubOverflow (BitVec.ofNat w b) = decide (¬ b ≤ a) := by
  unfold BitVec.usubOverflow; rw [bv_toNat ha, bv_toNat hb]; simp
theorem bv_umulOverflow {w a b : Nat} (ha : a < 2 ^ w) (hb : b < 2 ^ w) :
    (BitVec.ofNat w a).umulOverflow (BitVec.ofNat w b) = decide (¬ a * b < 2 ^ w) := by
  unfold BitVec.umulOverflow; rw [bv_toNat ha, bv_toNat hb]; simp

/-- truncation to `k ≤ w` bits / zero extension: `setWidth` -/
theorem bv_setWidth {w a : Nat} (k : Nat) (ha : a < 2 ^ w) :
    BitVec.ofNat k (a % 2 ^ k) = (BitVec.ofNat w a).setWidth k := by
  apply BitVec.eq_of_toNat_eq
  rw [BitVec.toNat_setWidth, bv_toNat ha, BitVec.toNat_ofNat, Nat.mod_mod]

/-! ## the model values are the concatenation of their limbs as 64-bit machine words -/

theorem U128.toBV_eq_append (u : U128) (hu : u.WF) :
    u.toBV = (BitVec.ofNat 64 u.w1 ++ BitVec.ofNat 64 u.w0 : BitVec 128) := by
  obtain ⟨h1, h0⟩ := hu
  rw [W_eq_pow] at h1 h0
  apply BitVec.eq_of_toNat_eq
  rw [BitVec.toNat_append, bv_toNat h1, bv_toNat h0, ← Nat.shiftLeft_add_eq_or_of_lt h0,
    Nat.shiftLeft_eq]
  unfold U128.toBV
  rw [bv_toNat (U128.toNat_lt' ⟨W_eq_pow ▸ h1, W_eq_pow ▸ h0⟩)]
  unfold U128.toNat
  rw [W_eq_pow]

theorem U256.toBV_eq_append (u : U256) (hu : u.WF) :
    u.toBV = (BitVec.ofNat 64 u.w3 ++ BitVec.ofNat 64 u.w2 ++ BitVec.ofNat 64 u.w1 ++ BitVec.ofNat 64 u.w0 :
      BitVec 256) := by
  have hlt := U256.toNat_lt' hu
  obtain ⟨h3, h2, h1, h0⟩ := hu
  rw [W_eq_pow] at h3 h2 h1 h0
  apply BitVec.eq_of_toNat_eq
  rw [BitVec.toNat_append, BitVec.toNat_append, BitVec.toNat_append, bv_toNat h3, bv_toNat h2, bv_toNat h1,
    bv_toNat h0, ← Nat.shiftLeft_add_eq_or_of_lt h2, ← Nat.shiftLeft_add_eq_or_of_lt h1,
    ← Nat.shiftLeft_add_eq_or_of_lt h0, Nat.shiftLeft_eq, Nat.shiftLeft_eq, Nat.shiftLeft_eq]
  unfold U256.toBV
  rw [bv_toNat hlt]
  unfold U256.toNat
  rw [W_eq_pow]

end ObiVerif.Fp
