import ObiVerif.Lemmas.PECons
/-!
# Lemmas for C08: the score of the fast-mode path

In fast mode `PEAlign` aligns only `A[startA:]` against `B[:partLen]` (vote `shift > 0`, left scheme) or
`A[:partLen]` against `B[startB:]` (right scheme) and then *extends* the local path with the unaligned
ends (`extra5`, `extra3`).  Here: the score of the extended path **under the scheme of the whole reads**
is the score of the local path under the scheme of the sub-reads, because the added end runs are free
end gaps of that scheme.
-/
namespace ObiVerif.PEAlign
open ObiVerif.Align

/-! ## `scoreFrom` under translation and concatenation -/

theorem runD_shift (s s' : Nat → Nat → Int) (oi oj : Nat) (hs : ∀ x y, s' x y = s (oi + x) (oj + y)) :
    ∀ n i j, runD s' n i j = runD s n (oi + i) (oj + j)
  | 0, _, _ => rfl
  | n + 1, i, j => by
    simp only [runD, hs, runD_shift s s' oi oj hs n (i + 1) (j + 1)]
    rfl

/-- the score of a path on sub-reads is the score of the same steps on the whole reads, started at the
offset of the sub-reads -/
theorem scoreFrom_shift (s s' : Nat → Nat → Int) (cA cA' cB cB' : Nat → Int) (oi oj : Nat)
    (hs : ∀ x y, s' x y = s (oi + x) (oj + y)) (hA : ∀ y, cA' y = cA (oj + y)) (hB : ∀ x, cB' x = cB (oi + x)) :
    ∀ (p : Path) (i j : Nat), scoreFrom s' cA' cB' i j p = scoreFrom s cA cB (oi + i) (oj + j) p
  | [], _, _ => rfl
  | [_], _, _ => rfl
  | ind :: d :: rest, i, j => by
    simp only [scoreFrom, hA, hB, runD_shift s s' oi oj hs,
      scoreFrom_shift s s' cA cA' cB cB' oi oj hs hA hB rest]
    simp only [Nat.add_assoc]

theorem scoreFrom_append (s : Nat → Nat → Int) (cA cB : Nat → Int) : ∀ (q r : Path) (i j : Nat), wf q = true →
    scoreFrom s cA cB i j (q ++ r) = scoreFrom s cA cB i j q + scoreFrom s cA cB (i + usedA q) (j + usedB q) r
  | [], r, i, j, _ => by simp [scoreFrom, usedA, usedB]
  | [_], _, _, _, h => by simp [wf] at h
  | ind :: d :: q, r, i, j, h => by
    simp only [wf_cons, Bool.and_eq_true] at h
    simp only [List.cons_append, scoreFrom, usedA_cons, usedB_cons,
      scoreFrom_append s cA cB q r _ _ h.2]
    have e1 : i + (-ind).toNat + d.toNat + usedA q = i + ((-ind).toNat + d.toNat + usedA q) := by omega
    have e2 : j + ind.toNat + d.toNat + usedB q = j + (ind.toNat + d.toNat + usedB q) := by omega
    rw [e1, e2]
    omega

/-- cost of one indel run `e` (either sign) started at (i, j) -/
def runCost (cA cB : Nat → Int) (i j : Nat) (e : Int) : Int :=
  ((-e).toNat : Int) * cA j + (e.toNat : Int) * cB i

theorem scoreFrom_single (s : Nat → Nat → Int) (cA cB : Nat → Int) (i j : Nat) (e : Int) :
    scoreFrom s cA cB i j [e, 0] = runCost cA cB i j e := by
  simp [scoreFrom, runD, runCost]

/-- two runs of the same sign merged into one cost the same as the two runs one after the other -/
theorem runCost_merge (cA cB : Nat → Int) (i j : Nat) (a e : Int) (h : (0 ≤ a ∧ 0 ≤ e) ∨ (a ≤ 0 ∧ e ≤ 0)) :
    runCost cA cB i j (a + e) =
      runCost cA cB i j a + runCost cA cB (i + (-a).toNat) (j + a.toNat) e := by
  unfold runCost
  rcases h with ⟨h1, h2⟩ | ⟨h1, h2⟩
  · have z1 : (-(a + e)).toNat = 0 := by omega
    have z2 : (-a).toNat = 0 := by omega
    have z3 : (-e).toNat = 0 := by omega
    have z4 : (a + e).toNat = a.toNat + e.toNat := by omega
    simp only [z1, z2, z3, z4, Int.natCast_zero, Int.zero_mul, Nat.add_zero, Int.natCast_add, Int.add_mul]
    omega
  · have z1 : (a + e).toNat = 0 := by omega
    have z2 : a.toNat = 0 := by omega
    have z3 : e.toNat = 0 := by omega
    have z4 : (-(a + e)).toNat = (-a).toNat + (-e).toNat := by omega
    simp only [z1, z2, z3, z4, Int.natCast_zero, Int.zero_mul, Nat.add_zero, Int.natCast_add, Int.add_mul]
    omega

/-! ## the two extensions -/

theorem extend5_score (s : Nat → Nat → Int) (cA cB : Nat → Int) (e : Int) (p : Path) (hw : wf p = true)
    (hne : p ≠ []) (i j : Nat) :
    scoreFrom s cA cB i j (extend5 e p) =
      runCost cA cB i j e + scoreFrom s cA cB (i + (-e).toNat) (j + e.toNat) p := by
  match p, hw, hne with
  | [_], hw, _ => simp [wf] at hw
  | p0 :: d :: rest, hw, _ =>
    unfold extend5
    by_cases hs : p0 * e < 0
    · simp only [hs, if_true]
      simp [scoreFrom, runD, runCost]
    · simp only [hs, if_false]
      have hsign : (0 ≤ e ∧ 0 ≤ p0) ∨ (e ≤ 0 ∧ p0 ≤ 0) := by
        rcases same_sign_of_mul_nonneg p0 e hs with h | h
        · exact Or.inl ⟨h.2, h.1⟩
        · exact Or.inr ⟨h.2, h.1⟩
      have hm := runCost_merge cA cB i j e p0 hsign
      have hA : (-(p0 + e)).toNat = (-e).toNat + (-p0).toNat := by rcases hsign with h | h <;> omega
      have hB : (p0 + e).toNat = e.toNat + p0.toNat := by rcases hsign with h | h <;> omega
      have hc : p0 + e = e + p0 := by omega
      simp only [scoreFrom]
      have l1 : ((-(p0 + e)).toNat : Int) * cA j + ((p0 + e).toNat : Int) * cB i = runCost cA cB i j (e + p0) := by
        rw [hc]; rfl
      have l2 : ((-p0).toNat : Int) * cA (j + e.toNat) + (p0.toNat : Int) * cB (i + (-e).toNat)
          = runCost cA cB (i + (-e).toNat) (j + e.toNat) p0 := rfl
      rw [l1, hm, l2, hA, hB]
      simp only [Nat.add_assoc]
      omega

theorem extend3_score (s : Nat → Nat → Int) (cA cB : Nat → Int) (e : Int) (p : Path) (hw : wf p = true)
    (hne : p ≠ []) (i j : Nat) :
    scoreFrom s cA cB i j (extend3 e p) =
      scoreFrom s cA cB i j p + runCost cA cB (i + usedA p) (j + usedB p) e := by
  obtain ⟨init, prev, last, rfl, hwi, hl⟩ := wf_last_pair p hw hne
  have hrev : (init ++ [prev, last]).reverse = last :: prev :: init.reverse := by simp
  unfold extend3
  rw [hrev]
  simp only
  by_cases hc : last = 0 ∧ prev * e ≥ 0
  · simp only [hc, and_self, if_true, List.reverse_cons, List.reverse_reverse, List.append_assoc,
      List.cons_append, List.nil_append]
    have hc2 : ¬ prev * e < 0 := by omega
    obtain ⟨rfl, _⟩ := hc
    rw [scoreFrom_append _ _ _ _ _ _ _ hwi, scoreFrom_append _ _ _ _ _ _ _ hwi, scoreFrom_single, scoreFrom_single,
      usedA_append _ _ hwi, usedB_append _ _ hwi]
    have hm := runCost_merge cA cB (i + usedA init) (j + usedB init) prev e (same_sign_of_mul_nonneg prev e hc2)
    simp only [usedA, usedB, Int.toNat_zero, Nat.add_zero] at hm ⊢
    rw [hm]
    simp only [Nat.add_assoc]
    omega
  · simp only [hc, if_false]
    rw [scoreFrom_append _ _ _ _ _ _ _ hw, scoreFrom_single]

/-- score of the extended path: the local path started after the 5' run, plus the two end runs -/
theorem extend_score (s : Nat → Nat → Int) (cA cB : Nat → Int) (e5 e3 : Int) (p : Path) (hw : wf p = true)
    (hne : p ≠ []) :
    scoreOf s cA cB (extend3 e3 (extend5 e5 p)) =
      runCost cA cB 0 0 e5 + scoreFrom s cA cB (-e5).toNat e5.toNat p
        + runCost cA cB ((-e5).toNat + usedA p) (e5.toNat + usedB p) e3 := by
  obtain ⟨hw5, hne5, hA5, hB5⟩ := extend5_spec e5 p hw hne
  unfold scoreOf
  rw [extend3_score s cA cB e3 _ hw5 hne5, extend5_score s cA cB e5 p hw hne, hA5, hB5]
  simp only [Nat.zero_add]
  have e1 : usedA p + (-e5).toNat = (-e5).toNat + usedA p := by omega
  have e2 : usedB p + e5.toNat = e5.toNat + usedB p := by omega
  rw [e1, e2]

theorem diagScore_eq_runD (s : Nat → Nat → Int) : ∀ n i j, diagScore s n i j = runD s n i j
  | 0, _, _ => rfl
  | n + 1, i, j => by simp only [diagScore, runD, diagScore_eq_runD s n]


/-! ## the end runs are free under the scheme of the whole reads -/

theorem runCost_left5 (g : Int) (la n : Nat) : runCost (cALeft g) (cBLeft g la) 0 0 (-(n : Int)) = 0 := by
  have z : (-(n : Int)).toNat = 0 := by omega
  simp [runCost, cALeft, z]

theorem runCost_left3 (g : Int) (la j : Nat) (e : Int) (he : 0 ≤ e) : runCost (cALeft g) (cBLeft g la) la j e = 0 := by
  have z : (-e).toNat = 0 := by omega
  simp [runCost, cBLeft, z]

theorem runCost_right5 (g : Int) (lb : Nat) (e : Int) (he : 0 ≤ e) : runCost (cARight g lb) (cBRight g) 0 0 e = 0 := by
  have z : (-e).toNat = 0 := by omega
  simp [runCost, cBRight, z]

theorem runCost_right3 (g : Int) (lb i : Nat) (e : Int) (he : e ≤ 0) : runCost (cARight g lb) (cBRight g) i lb e = 0 := by
  have z : e.toNat = 0 := by omega
  simp [runCost, cARight, z]

/-- left scheme: `extra5 = -startA` bases of A in front (free: B has not started), `extra3 ≥ 0` bases of B
behind (free: A has ended) -/
theorem ext_left (s : Nat → Nat → Int) (g : Int) (la lb startA partLen : Nat) (hsa : startA ≤ la) (hpl : partLen ≤ lb)
    (p : Path) (hc : consumes p (la - startA) partLen) (hne : p ≠ []) :
    scoreOf s (cALeft g) (cBLeft g la) (extend3 ((lb : Int) - (partLen : Int)) (extend5 (-(startA : Int)) p)) =
      scoreFrom s (cALeft g) (cBLeft g la) startA 0 p := by
  obtain ⟨hw, hA, hB⟩ := hc
  rw [extend_score s _ _ _ _ p hw hne, runCost_left5]
  have z1 : (-(-(startA : Int))).toNat = startA := by omega
  have z2 : (-(startA : Int)).toNat = 0 := by omega
  rw [z1, z2, hA]
  have e1 : startA + (la - startA) = la := by omega
  rw [e1, runCost_left3 g la _ _ (by omega)]
  omega

/-- right scheme: `extra5 = startB` bases of B in front (free: A has not started), `extra3 ≤ 0` bases of A
behind (free: B has ended) -/
theorem ext_right (s : Nat → Nat → Int) (g : Int) (la lb startB partLen : Nat) (hsb : startB ≤ lb) (hpl : partLen ≤ la)
    (p : Path) (hc : consumes p partLen (lb - startB)) (hne : p ≠ []) :
    scoreOf s (cARight g lb) (cBRight g) (extend3 ((partLen : Int) - (la : Int)) (extend5 (startB : Int) p)) =
      scoreFrom s (cARight g lb) (cBRight g) 0 startB p := by
  obtain ⟨hw, hA, hB⟩ := hc
  rw [extend_score s _ _ _ _ p hw hne, runCost_right5 g lb _ (by omega)]
  have z1 : (-(startB : Int)).toNat = 0 := by omega
  have z2 : ((startB : Int)).toNat = startB := by omega
  rw [z1, z2, hB]
  have e1 : startB + (lb - startB) = lb := by omega
  rw [e1, runCost_right3 g lb _ _ (by omega)]
  omega

/-- the score of a path under the left scheme of the sub-reads `A[startA:]`, `B[:partLen]` is its score
under the left scheme of the whole reads, started at (startA, 0) -/
theorem local_left (s : Nat → Nat → Int) (g : Int) (la startA : Nat) (hsa : startA ≤ la) (p : Path) :
    scoreOf (fun i j => s (startA + i) j) (cALeft g) (cBLeft g (la - startA)) p =
      scoreFrom s (cALeft g) (cBLeft g la) startA 0 p := by
  unfold scoreOf
  rw [scoreFrom_shift s (fun i j => s (startA + i) j) (cALeft g) (cALeft g) (cBLeft g la) (cBLeft g (la - startA))
    startA 0 (by intro x y; simp) (by intro y; simp) (by
      intro x
      have : (x = la - startA) ↔ (startA + x = la) := by omega
      simp only [cBLeft, this])]
  simp only [Nat.add_zero]

theorem local_right (s : Nat → Nat → Int) (g : Int) (lb startB : Nat) (hsb : startB ≤ lb) (p : Path) :
    scoreOf (fun i j => s i (startB + j)) (cARight g (lb - startB)) (cBRight g) p =
      scoreFrom s (cARight g lb) (cBRight g) 0 startB p := by
  unfold scoreOf
  rw [scoreFrom_shift s (fun i j => s i (startB + j)) (cARight g lb) (cARight g (lb - startB)) (cBRight g) (cBRight g)
    0 startB (by intro x y; simp) (by
      intro y
      have : (y = lb - startB) ↔ (startB + y = lb) := by omega
      simp only [cARight, this]) (by intro x; simp)]
  simp only [Nat.add_zero]

/-- **fast mode, score**: for every vote result in range the reported score is the score recomputed
along the *extended* path under the end-gap-free scheme of the **whole** reads named by `isLeft`
(left when the vote shift is positive, right otherwise) -/
theorem fastFrom_score (s : Nat → Nat → Int) (g : Int) (la lb delta : Nat) (shift count : Int)
    (hla : 0 < la) (hlb : 0 < lb) (h1 : -(lb : Int) < shift) (h2 : shift < la)
    (h3 : 1 ≤ count → count + 3 ≤ la ∧ count + 3 ≤ lb) :
    ∃ r, peAlignFastFrom s g la lb delta shift count = some r ∧
      r.isLeft = decide (shift > 0) ∧
      r.score = (if shift > 0 then scoreOf s (cALeft g) (cBLeft g la) r.path
                 else scoreOf s (cARight g lb) (cBRight g) r.path) := by
  unfold peAlignFastFrom over
  by_cases hdp : count < 1 ∨ count + 3 < (if shift > 0 then (la : Int) - shift else (lb : Int) + shift)
  · simp only [hdp, if_true]
    by_cases hs : shift > 0
    · simp only [hs, if_true]
      have hsa : ¬ ((shift - (delta : Int)).toNat > la) := by omega
      simp only [hsa, if_false]
      obtain ⟨p, hf, hc, hS⟩ := fill_ok (fun i j => s ((shift - (delta : Int)).toNat + i) j) (cALeft g)
        (cBLeft g (la - (shift - (delta : Int)).toNat)) (la - (shift - (delta : Int)).toNat)
        (min (la - (shift - (delta : Int)).toNat) lb) (by omega) (by omega)
      unfold fillLeft
      rw [hf]
      refine ⟨_, rfl, by simp, ?_⟩
      simp only
      rw [ext_left s g la lb _ _ (by omega) (by omega) p hc (consumes_ne_nil _ _ _ hc (by omega)),
        ← local_left s g la _ (by omega), hS]
    · simp only [hs, if_false]
      have hsb : ¬ ((-shift - (delta : Int)).toNat > lb) := by omega
      simp only [hsb, if_false]
      obtain ⟨p, hf, hc, hS⟩ := fill_ok (fun i j => s i ((-shift - (delta : Int)).toNat + j))
        (cARight g (lb - (-shift - (delta : Int)).toNat)) (cBRight g)
        (min (lb - (-shift - (delta : Int)).toNat) la) (lb - (-shift - (delta : Int)).toNat) (by omega) (by omega)
      unfold fillRight
      rw [hf]
      refine ⟨_, rfl, by simp, ?_⟩
      simp only
      rw [ext_right s g la lb _ _ (by omega) (by omega) p hc (consumes_ne_nil _ _ _ hc (by omega)),
        ← local_right s g lb _ (by omega), hS]
  · simp only [hdp, if_false]
    by_cases hs : shift > 0
    · simp only [hs, if_true] at hdp ⊢
      have hsa : ¬ (shift.toNat > la) := by omega
      have hpl : ¬ (la - shift.toNat > lb) := by omega
      simp only [hsa, hpl, if_false]
      refine ⟨_, rfl, by simp, ?_⟩
      have hc : consumes [0, ((la - shift.toNat : Nat) : Int)] (la - shift.toNat) (la - shift.toNat) := by
        refine ⟨by simp [wf], by simp [usedA], by simp [usedB]⟩
      simp only
      rw [ext_left s g la lb _ _ (by omega) (by omega) _ hc (by simp), diagScore_eq_runD]
      simp [scoreFrom]
    · simp only [hs, if_false] at hdp ⊢
      have hsb : ¬ ((-shift).toNat > lb) := by omega
      have hpl : ¬ (lb - (-shift).toNat > la) := by omega
      simp only [hsb, hpl, if_false]
      refine ⟨_, rfl, by simp, ?_⟩
      have hc : consumes [0, ((lb - (-shift).toNat : Nat) : Int)] (lb - (-shift).toNat) (lb - (-shift).toNat) := by
        refine ⟨by simp [wf], by simp [usedA], by simp [usedB]⟩
      simp only
      rw [ext_right s g la lb _ _ (by omega) (by omega) _ hc (by simp), diagScore_eq_runD]
      simp [scoreFrom]

end ObiVerif.PEAlign
