import ObiVerif.Model.TaxSeq
import ObiVerif.Lemmas.Tax
/-!
# Lemmas on the sequence level predicates / workers (C14): every one reads the taxid of the sequence
through `resolve`, so a merged taxid (alias) and the taxid it resolves to are indistinguishable
-/
namespace ObiVerif.TaxSeq
open ObiVerif.Tax ObiVerif.TaxLoad

/-- what a taxid resolves to is a live node, which resolves to itself: `Taxon` is idempotent -/
theorem resolve_idem {t : Taxo} (ha : AliasOK t) {tid x : Nat} (h : resolve t tid = some x) :
    resolve t x = some x := by
  obtain ⟨m, hm⟩ := resolve_isNode ha h
  simp [resolve, hm]

theorem inClade_alias {t : Taxo} (ha : AliasOK t) {tid x : Nat} (h : resolve t tid = some x) (fuel c : Nat) :
    inClade t fuel c tid = inClade t fuel c x := by
  simp [inClade, h, resolve_idem ha h]

theorem anyClade_alias {t : Taxo} (ha : AliasOK t) {tid x : Nat} (h : resolve t tid = some x) (fuel : Nat) :
    ∀ cs : List Nat, anyClade t fuel tid cs = anyClade t fuel x cs := by
  intro cs
  induction cs with
  | nil => rfl
  | cons c cs ih => simp only [anyClade, inClade_alias ha h, ih]

theorem hasRank_alias {t : Taxo} (ha : AliasOK t) {tid x : Nat} (h : resolve t tid = some x) (fuel : Nat) (r : String) :
    hasRank t fuel r tid = hasRank t fuel r x := by
  simp [hasRank, h, resolve_idem ha h]

theorem allRanks_alias {t : Taxo} (ha : AliasOK t) {tid x : Nat} (h : resolve t tid = some x) (fuel : Nat) :
    ∀ rs : List String, allRanks t fuel tid rs = allRanks t fuel x rs := by
  intro rs
  induction rs with
  | nil => rfl
  | cons r rs ih => simp only [allRanks, hasRank_alias ha h, ih]

/-- resolving the clades first does not change `resolveAll` -/
theorem resolveAll_resolved {t : Taxo} (ha : AliasOK t) : ∀ (cs rs : List Nat), resolveAll t cs = .ok rs →
    resolveAll t rs = .ok rs := by
  intro cs
  induction cs with
  | nil => intro rs h; simp [resolveAll] at h; subst h; rfl
  | cons c cs ih =>
    intro rs h
    unfold resolveAll at h
    split at h
    · cases h
    · rename_i x hx
      split at h
      · rename_i r hr
        cases h
        simp [resolveAll, resolve_idem ha hx, ih r hr]
      · cases h

/-- `TaxonomicDistribution` does not see whether a key is a merged taxid or the taxid it resolves to -/
theorem taxDist_resolveKeys {t : Taxo} (ha : AliasOK t) : ∀ (kws acc : List (Nat × Nat)),
    taxDist t (resolveKeys t kws) acc = taxDist t kws acc := by
  intro kws
  induction kws with
  | nil => intro acc; rfl
  | cons kw r ih =>
    intro acc
    obtain ⟨k, w⟩ := kw
    cases hk : resolve t k with
    | none => simp [resolveKeys, taxDist, hk]
    | some x =>
      have := ih (addW acc x w)
      simp only [resolveKeys] at this
      simp [resolveKeys, taxDist, hk, resolve_idem ha hk, this]

end ObiVerif.TaxSeq
