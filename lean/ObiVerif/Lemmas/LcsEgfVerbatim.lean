import ObiVerif.Lemmas.LcsEgfMatrix
import ObiVerif.Lemmas.LcsVerbatimIndep
/-!
# C09, endgapfree = true: the verbatim anti-diagonal kernel refines the banded matrix `bandEGF`

Same plan as Lemmas/LcsVerbatim.lean (endgapfree = false) with the cell `bandCellE` / the matrix `cellME` of
Model/LcsEgf.lean: `evenBody_val_egf` / `oddBody_val_egf` (the value a loop body writes is `bandCellE` of the three
cells it reads), `EvenOKE` / `OddOKE` (the buffer row holds the in-matrix in-band cells of anti-diagonals `2y` /
`2y+1`), `diagStep_okE`, `outer_okE`, `runFrom_okE`, `fastLCS_egf_refines`. In this mode `pend` / `end` change; the
invariant carried for `end` is `0 ≤ end ≤ |A|`.
-/
namespace ObiVerif.Lcs

theorem choose_endp_cases (g : Geo) (i j : Int) (d u l : UInt64) (st : St) :
    (choose g i j d u l st).2.endp = st.endp ∨ (choose g i j d u l st).2.endp = j := by
  unfold choose; split <;> rename_i h <;> simp only [] <;> split <;> (try split) <;> simp_all

theorem evenBody_endp (g : Geo) (y x : Int) (p up lf : UInt64) (pend : Nat) (endp : Int) :
    (evenBody g y x p up lf pend endp).2.2 = endp ∨ (evenBody g y x p up lf pend endp).2.2 = y + x - g.extra := by
  unfold evenBody
  exact choose_endp_cases g _ _ _ _ _ ⟨#[], pend, endp⟩

theorem oddBody_endp (g : Geo) (y x : Int) (p up lf : UInt64) (pend : Nat) (endp : Int) :
    (oddBody g y x p up lf pend endp).2.2 = endp ∨
    (oddBody g y x p up lf pend endp).2.2 = y + x - g.extra - g.even + 1 := by
  unfold oddBody
  exact choose_endp_cases g _ _ _ _ _ ⟨#[], pend, endp⟩

/-! ## one loop body writes one `bandCellE` -/

theorem evenBody_val_egf {g : Geo} {A B : Seq} (hg : GeoW g A B) (hegf : g.egf = true) (y x : Int) (i j : Nat)
    (hx0 : 0 ≤ x) (hx1 : x ≤ g.even - 1)
    (hi : y - x + g.extra = (i : Int)) (hi1 : i ≤ B.length)
    (hj : y + x - g.extra = (j : Int)) (hj1 : j ≤ A.length) (p up lf : UInt64) (pend : Nat) (endp : Int) :
    (evenBody g y x p up lf pend endp).1 =
      bandCellE (gLo g) (gHi g) B.length i j (samenuc (A.getD (j - 1) 0) (B.getD (i - 1) 0)) p up lf := by
  obtain ⟨hA, hB, hlA, hlB, hle, hextra, heven, hwidth⟩ := hg
  have hb : ((j : Int) - (i : Int) = gLo g ∨ (j : Int) - (i : Int) = gHi g) ↔ (x = 0 ∨ x = g.even - 1) := by
    unfold gLo gHi; omega
  unfold evenBody
  simp only [hi, hj, choose_fst]
  by_cases h0 : i = 0
  · subst h0
    simp at hb
    simp [hegf, bandCellE, hb]
  · by_cases hj0 : j = 0
    · subst hj0
      simp at hb
      simp [h0, bandCellE, hb]
    · have hup : (j : Int) - (i : Int) < gHi g ↔ x < g.even - 1 := by unfold gHi; omega
      have hlf : gLo g < (j : Int) - (i : Int) ↔ 0 < x := by unfold gLo; omega
      have hi0 : 0 < i := by omega
      have hjt : ((j : Int) - 1).toNat = j - 1 := by omega
      have hit : ((i : Int) - 1).toNat = i - 1 := by omega
      have hil : ((i : Int) < g.lB) ↔ i < B.length := by rw [hlB]; omega
      by_cases c1 : x < g.even - 1 <;> by_cases c2 : 0 < x <;>
        simp [h0, hj0, hegf, bandCellE, hA, hB, hup, hlf, hb, c1, c2, hi0, hjt, hit, hil]

theorem oddBody_val_egf {g : Geo} {A B : Seq} (hg : GeoW g A B) (hegf : g.egf = true) (y x : Int) (i j : Nat)
    (hx0 : g.even ≤ x) (hx1 : x ≤ (g.width : Int) - 1)
    (hi : y - x + g.extra + g.even = (i : Int)) (hi1 : i ≤ B.length)
    (hj : y + x - g.extra - g.even + 1 = (j : Int)) (hj1 : j ≤ A.length) (p up lf : UInt64) (pend : Nat) (endp : Int) :
    (oddBody g y x p up lf pend endp).1 =
      bandCellE (gLo g) (gHi g) B.length i j (samenuc (A.getD (j - 1) 0) (B.getD (i - 1) 0)) p up lf := by
  obtain ⟨hA, hB, hlA, hlB, hle, hextra, heven, hwidth⟩ := hg
  have hb : ¬ ((j : Int) - (i : Int) = gLo g ∨ (j : Int) - (i : Int) = gHi g) := by
    unfold gLo gHi; omega
  unfold oddBody
  simp only [hi, hj, choose_fst]
  by_cases h0 : i = 0
  · subst h0
    simp at hb
    simp [hegf, bandCellE, hb]
  · by_cases hj0 : j = 0
    · subst hj0
      simp at hb
      simp [h0, bandCellE, hb]
    · have hup : (j : Int) - (i : Int) < gHi g := by unfold gHi; omega
      have hlf : gLo g < (j : Int) - (i : Int) := by unfold gLo; omega
      have hi0 : 0 < i := by omega
      have hjt : ((j : Int) - 1).toNat = j - 1 := by omega
      have hit : ((i : Int) - 1).toNat = i - 1 := by omega
      have hil : ((i : Int) < g.lB) ↔ i < B.length := by rw [hlB]; omega
      simp [h0, hj0, hegf, bandCellE, hA, hB, hup, hlf, hb, hi0, hjt, hit, hil]

/-! ## what `bandCellE` does not look at -/

theorem bandCellE_row0_irrel (lo hi : Int) (lB j : Nat) (m m' : Bool) (d u l d' u' l' : UInt64) :
    bandCellE lo hi lB 0 j m d u l = bandCellE lo hi lB 0 j m' d' u' l' := by simp [bandCellE]

theorem bandCellE_col0_irrel (lo hi : Int) (lB i : Nat) (m m' : Bool) (d u l d' u' l' : UInt64) :
    bandCellE lo hi lB i 0 m d u l = bandCellE lo hi lB i 0 m' d' u' l' := by
  by_cases h : i = 0 <;> simp [bandCellE, h]

theorem bandCellE_up_irrel (lo hi : Int) (lB i j : Nat) (m : Bool) (d u l u' : UInt64)
    (h : ¬ ((j : Int) - (i : Int) < hi)) :
    bandCellE lo hi lB i j m d u l = bandCellE lo hi lB i j m d u' l := by simp [bandCellE, h]

theorem bandCellE_left_irrel (lo hi : Int) (lB i j : Nat) (m : Bool) (d u l l' : UInt64)
    (h : ¬ ((j : Int) - (i : Int) > lo)) :
    bandCellE lo hi lB i j m d u l = bandCellE lo hi lB i j m d u l' := by simp [bandCellE, h]

/-! ## the invariant of the two buffer rows -/

def EvenOKE (g : Geo) (A B : Seq) (buf : Array UInt64) (off : Nat) (y : Int) : Prop :=
  ∀ (x : Int) (i j : Nat), 0 ≤ x → x ≤ g.even - 1 → y - x + g.extra = (i : Int) → i ≤ B.length →
    y + x - g.extra = (j : Int) → j ≤ A.length →
    buf.getD (off + x.toNat) 0 = cellME (gLo g) (gHi g) A B i j

def OddOKE (g : Geo) (A B : Seq) (buf : Array UInt64) (off : Nat) (y : Int) : Prop :=
  ∀ (x : Int) (i j : Nat), g.even ≤ x → x ≤ (g.width : Int) - 1 → y - x + g.extra + g.even = (i : Int) → i ≤ B.length →
    y + x - g.extra - g.even + 1 = (j : Int) → j ≤ A.length →
    buf.getD (off + x.toNat) 0 = cellME (gLo g) (gHi g) A B i j

def PartEE (g : Geo) (A B : Seq) (buf : Array UInt64) (off : Nat) (y k : Int) : Prop :=
  ∀ (x : Int) (i j : Nat), 0 ≤ x → x < k → x ≤ g.even - 1 → y - x + g.extra = (i : Int) → i ≤ B.length →
    y + x - g.extra = (j : Int) → j ≤ A.length →
    buf.getD (off + x.toNat) 0 = cellME (gLo g) (gHi g) A B i j

def PartOE (g : Geo) (A B : Seq) (buf : Array UInt64) (off : Nat) (y k : Int) : Prop :=
  ∀ (x : Int) (i j : Nat), g.even ≤ x → x < k → x ≤ (g.width : Int) - 1 → y - x + g.extra + g.even = (i : Int) → i ≤ B.length →
    y + x - g.extra - g.even + 1 = (j : Int) → j ≤ A.length →
    buf.getD (off + x.toNat) 0 = cellME (gLo g) (gHi g) A B i j

theorem evenVal_eqE {g : Geo} {A B : Seq} (hg : GeoW g A B) (buf : Array UInt64) (poff : Nat) (y x : Int) (i j : Nat)
    (hE : EvenOKE g A B buf poff (y - 1)) (hO : OddOKE g A B buf poff (y - 1))
    (hx0 : 0 ≤ x) (hx1 : x ≤ g.even - 1)
    (hi : y - x + g.extra = (i : Int)) (hi1 : i ≤ B.length)
    (hj : y + x - g.extra = (j : Int)) (hj1 : j ≤ A.length) :
    bandCellE (gLo g) (gHi g) B.length i j (samenuc (A.getD (j - 1) 0) (B.getD (i - 1) 0))
        (buf.getD (poff + x.toNat) 0) (buf.getD (poff + (x + g.even).toNat) 0)
        (buf.getD (poff + (x + g.even - 1).toNat) 0) = cellME (gLo g) (gHi g) A B i j := by
  obtain ⟨hA, hB, hlA, hlB, hle, hextra, heven, hwidth⟩ := hg
  cases i with
  | zero => rw [cellME_row0 _ _ _ _ _ hj1]; exact bandCellE_row0_irrel ..
  | succ i' =>
    cases j with
    | zero => rw [cellME_col0]; exact bandCellE_col0_irrel ..
    | succ j' =>
      rw [cellME_succ _ _ _ _ _ _ (by omega)]
      have hd := hE x i' j' hx0 hx1 (by omega) (by omega) (by omega) (by omega)
      rw [hd]
      simp only [Nat.add_sub_cancel]
      by_cases c1 : x < g.even - 1
      · have hu := hO (x + g.even) i' (j' + 1) (by omega) (by omega) (by omega) (by omega) (by omega) (by omega)
        rw [hu]
        by_cases c2 : 0 < x
        · have hl := hO (x + g.even - 1) (i' + 1) j' (by omega) (by omega) (by omega) (by omega) (by omega) (by omega)
          rw [hl]
        · exact bandCellE_left_irrel _ _ _ _ _ _ _ _ _ _ (by unfold gLo; omega)
      · rw [bandCellE_up_irrel _ _ _ _ _ _ _ _ _ (cellME (gLo g) (gHi g) A B i' (j' + 1)) (by unfold gHi; omega)]
        by_cases c2 : 0 < x
        · have hl := hO (x + g.even - 1) (i' + 1) j' (by omega) (by omega) (by omega) (by omega) (by omega) (by omega)
          rw [hl]
        · exact bandCellE_left_irrel _ _ _ _ _ _ _ _ _ _ (by unfold gLo; omega)

theorem oddVal_eqE {g : Geo} {A B : Seq} (hg : GeoW g A B) (buf : Array UInt64) (poff coff : Nat) (y x : Int) (i j : Nat)
    (hO : OddOKE g A B buf poff (y - 1)) (hE : EvenOKE g A B buf coff y)
    (hx0 : g.even ≤ x) (hx1 : x ≤ (g.width : Int) - 1)
    (hi : y - x + g.extra + g.even = (i : Int)) (hi1 : i ≤ B.length)
    (hj : y + x - g.extra - g.even + 1 = (j : Int)) (hj1 : j ≤ A.length) :
    bandCellE (gLo g) (gHi g) B.length i j (samenuc (A.getD (j - 1) 0) (B.getD (i - 1) 0))
        (buf.getD (poff + x.toNat) 0) (buf.getD (coff + (x - g.even + 1).toNat) 0)
        (buf.getD (coff + (x - g.even).toNat) 0) = cellME (gLo g) (gHi g) A B i j := by
  obtain ⟨hA, hB, hlA, hlB, hle, hextra, heven, hwidth⟩ := hg
  cases i with
  | zero => rw [cellME_row0 _ _ _ _ _ hj1]; exact bandCellE_row0_irrel ..
  | succ i' =>
    cases j with
    | zero => rw [cellME_col0]; exact bandCellE_col0_irrel ..
    | succ j' =>
      rw [cellME_succ _ _ _ _ _ _ (by omega)]
      have hd := hO x i' j' hx0 hx1 (by omega) (by omega) (by omega) (by omega)
      have hu := hE (x - g.even + 1) i' (j' + 1) (by omega) (by omega) (by omega) (by omega) (by omega) (by omega)
      have hl := hE (x - g.even) (i' + 1) j' (by omega) (by omega) (by omega) (by omega) (by omega) (by omega)
      rw [hd, hu, hl]
      simp only [Nat.add_sub_cancel]

theorem EvenOKE_frame {g : Geo} {A B : Seq} {buf : Array UInt64} {off : Nat} {y : Int} (w : Nat) (v : UInt64)
    (hw : w < off ∨ off + g.even.toNat ≤ w) (h : EvenOKE g A B buf off y) :
    EvenOKE g A B (buf.setIfInBounds w v) off y := by
  intro x i j h1 h2 h3 h4 h5 h6
  rw [getD_set_ne _ _ _ _ (by omega)]
  exact h x i j h1 h2 h3 h4 h5 h6

theorem OddOKE_frame {g : Geo} {A B : Seq} (hg : GeoW g A B) {buf : Array UInt64} {off : Nat} {y : Int} (w : Nat) (v : UInt64)
    (hw : w < off + g.even.toNat ∨ off + g.width ≤ w) (h : OddOKE g A B buf off y) :
    OddOKE g A B (buf.setIfInBounds w v) off y := by
  have := hg.hwidth
  intro x i j h1 h2 h3 h4 h5 h6
  rw [getD_set_ne _ _ _ _ (by omega)]
  exact h x i j h1 h2 h3 h4 h5 h6

/-! ## the two inner loops -/

theorem evenLoop_okE {g : Geo} {A B : Seq} (hg : GeoW g A B) (hegf : g.egf = true) (poff coff : Nat)
    (hdisj : poff + g.width ≤ coff ∨ coff + g.width ≤ poff) (y : Int) (st : St)
    (hsz : coff + g.width ≤ st.buf.size) (hen : 0 ≤ st.endp ∧ st.endp ≤ A.length)
    (hE : EvenOKE g A B st.buf poff (y - 1)) (hO : OddOKE g A B st.buf poff (y - 1)) :
    ∃ st', loopM ((imin3 (y + g.extra) (g.lA + g.extra - y) (g.even - 1) + 1) -
                  (imax3 (y - g.lB + g.extra) (g.extra - y) 0)).toNat
             (imax3 (y - g.lB + g.extra) (g.extra - y) 0) (evenCell g poff coff y) st = .ok st' ∧
      (0 ≤ st'.endp ∧ st'.endp ≤ A.length) ∧ st'.buf.size = st.buf.size ∧
      EvenOKE g A B st'.buf poff (y - 1) ∧ OddOKE g A B st'.buf poff (y - 1) ∧ EvenOKE g A B st'.buf coff y := by
  have hg' := hg
  obtain ⟨hA, hB, hlA, hlB, hle, hextra, heven, hwidth⟩ := hg
  generalize hxs : imax3 (y - g.lB + g.extra) (g.extra - y) 0 = xs
  generalize hxf : imin3 (y + g.extra) (g.lA + g.extra - y) (g.even - 1) + 1 = xf
  unfold imax3 at hxs
  unfold imin3 at hxf
  have := loopM_inv (fun k (s : St) => (0 ≤ s.endp ∧ s.endp ≤ A.length) ∧ s.buf.size = st.buf.size ∧
      EvenOKE g A B s.buf poff (y - 1) ∧ OddOKE g A B s.buf poff (y - 1) ∧ PartEE g A B s.buf coff y k)
    (evenCell g poff coff y) (xf - xs).toNat xs st
    ⟨hen, rfl, hE, hO, by intro x i j h1 h2 h3 h4 h5 h6 h7; omega⟩
    (by
      intro k s hk1 hk2 ⟨p2, p3, p4, p5, p6⟩
      have hi : y - k + g.extra = ((y - k + g.extra).toNat : Int) := by omega
      have hj : y + k - g.extra = ((y + k - g.extra).toNat : Int) := by omega
      have hcell := evenCell_eq_body hg' poff coff y k s _ _ (by omega) (by omega) hi (by omega) hj (by omega)
      rw [evenBody_val_egf hg' hegf y k _ _ (by omega) (by omega) hi (by omega) hj (by omega),
        evenVal_eqE hg' s.buf poff y k _ _ p4 p5 (by omega) (by omega) hi (by omega) hj (by omega)] at hcell
      refine ⟨_, hcell, ?_, by simp [p3], ?_, ?_, ?_⟩
      · simp only []
        rcases evenBody_endp g y k (s.buf.getD (poff + k.toNat) 0) (s.buf.getD (poff + (k + g.even).toNat) 0)
          (s.buf.getD (poff + (k + g.even - 1).toNat) 0) s.pend s.endp with h | h
        · rw [h]; exact p2
        · rw [h]; omega
      · exact EvenOKE_frame _ _ (by omega) p4
      · exact OddOKE_frame hg' _ _ (by omega) p5
      · intro x i j h1 h2 h3 h4 h5 h6 h7
        by_cases hxk : x = k
        · subst hxk
          have e1 : i = (y - x + g.extra).toNat := by omega
          have e2 : j = (y + x - g.extra).toNat := by omega
          subst e1 e2
          exact getD_set_eq _ _ _ (by omega)
        · simp only []
          rw [getD_set_ne _ _ _ _ (by omega)]
          exact p6 x i j h1 (by omega) h3 h4 h5 h6 h7)
  obtain ⟨st', h1, p2, p3, p4, p5, p6⟩ := this
  refine ⟨st', h1, p2, p3, p4, p5, ?_⟩
  intro x i j h1 h2 h3 h4 h5 h6
  exact p6 x i j h1 (by omega) h2 h3 h4 h5 h6

theorem oddLoop_okE {g : Geo} {A B : Seq} (hg : GeoW g A B) (hegf : g.egf = true) (poff coff : Nat)
    (hdisj : poff + g.width ≤ coff ∨ coff + g.width ≤ poff) (y : Int) (st : St)
    (hsz : coff + g.width ≤ st.buf.size) (hen : 0 ≤ st.endp ∧ st.endp ≤ A.length)
    (hO : OddOKE g A B st.buf poff (y - 1)) (hE : EvenOKE g A B st.buf coff y) :
    ∃ st', loopM ((imin3 (y + g.extra + g.even) (g.lA + g.extra - y + g.even - 1) ((g.width : Int) - 1) + 1) -
                  (imax3 (y - g.lB + g.extra + g.even) (g.extra - y + g.even - 1) g.even)).toNat
             (imax3 (y - g.lB + g.extra + g.even) (g.extra - y + g.even - 1) g.even) (oddCell g poff coff y) st = .ok st' ∧
      (0 ≤ st'.endp ∧ st'.endp ≤ A.length) ∧ st'.buf.size = st.buf.size ∧
      EvenOKE g A B st'.buf coff y ∧ OddOKE g A B st'.buf coff y := by
  have hg' := hg
  obtain ⟨hA, hB, hlA, hlB, hle, hextra, heven, hwidth⟩ := hg
  generalize hxs : imax3 (y - g.lB + g.extra + g.even) (g.extra - y + g.even - 1) g.even = xs
  generalize hxf : imin3 (y + g.extra + g.even) (g.lA + g.extra - y + g.even - 1) ((g.width : Int) - 1) + 1 = xf
  unfold imax3 at hxs
  unfold imin3 at hxf
  have := loopM_inv (fun k (s : St) => (0 ≤ s.endp ∧ s.endp ≤ A.length) ∧ s.buf.size = st.buf.size ∧
      OddOKE g A B s.buf poff (y - 1) ∧ EvenOKE g A B s.buf coff y ∧ PartOE g A B s.buf coff y k)
    (oddCell g poff coff y) (xf - xs).toNat xs st
    ⟨hen, rfl, hO, hE, by intro x i j h1 h2 h3 h4 h5 h6 h7; omega⟩
    (by
      intro k s hk1 hk2 ⟨p2, p3, p4, p5, p6⟩
      have hi : y - k + g.extra + g.even = ((y - k + g.extra + g.even).toNat : Int) := by omega
      have hj : y + k - g.extra - g.even + 1 = ((y + k - g.extra - g.even + 1).toNat : Int) := by omega
      have hcell := oddCell_eq_body hg' poff coff y k s _ _ (by omega) (by omega) hi (by omega) hj (by omega)
      rw [oddBody_val_egf hg' hegf y k _ _ (by omega) (by omega) hi (by omega) hj (by omega),
        oddVal_eqE hg' s.buf poff coff y k _ _ p4 p5 (by omega) (by omega) hi (by omega) hj (by omega)] at hcell
      refine ⟨_, hcell, ?_, by simp [p3], ?_, ?_, ?_⟩
      · simp only []
        rcases oddBody_endp g y k (s.buf.getD (poff + k.toNat) 0) (s.buf.getD (coff + (k - g.even + 1).toNat) 0)
          (s.buf.getD (coff + (k - g.even).toNat) 0) s.pend s.endp with h | h
        · rw [h]; exact p2
        · rw [h]; omega
      · exact OddOKE_frame hg' _ _ (by omega) p4
      · exact EvenOKE_frame _ _ (by omega) p5
      · intro x i j h1 h2 h3 h4 h5 h6 h7
        by_cases hxk : x = k
        · subst hxk
          have e1 : i = (y - x + g.extra + g.even).toNat := by omega
          have e2 : j = (y + x - g.extra - g.even + 1).toNat := by omega
          subst e1 e2
          exact getD_set_eq _ _ _ (by omega)
        · simp only []
          rw [getD_set_ne _ _ _ _ (by omega)]
          exact p6 x i j h1 (by omega) h3 h4 h5 h6 h7)
  obtain ⟨st', h1, p2, p3, p4, p5, p6⟩ := this
  refine ⟨st', h1, p2, p3, p5, ?_⟩
  intro x i j h1 h2 h3 h4 h5 h6
  exact p6 x i j h1 (by omega) h2 h3 h4 h5 h6

theorem diagStep_okE {g : Geo} {A B : Seq} (hg : GeoW g A B) (hegf : g.egf = true) (poff coff : Nat)
    (hdisj : poff + g.width ≤ coff ∨ coff + g.width ≤ poff) (y : Int) (st : St)
    (hsz : coff + g.width ≤ st.buf.size) (hen : 0 ≤ st.endp ∧ st.endp ≤ A.length)
    (hE : EvenOKE g A B st.buf poff (y - 1)) (hO : OddOKE g A B st.buf poff (y - 1)) :
    ∃ st', diagStep g poff coff y st = .ok st' ∧
      (0 ≤ st'.endp ∧ st'.endp ≤ A.length) ∧ st'.buf.size = st.buf.size ∧
      EvenOKE g A B st'.buf coff y ∧ OddOKE g A B st'.buf coff y := by
  obtain ⟨s1, h1, p2, p3, p4, p5, p6⟩ := evenLoop_okE hg hegf poff coff hdisj y st hsz hen hE hO
  obtain ⟨s2, h2, q2, q3, q4, q5⟩ := oddLoop_okE hg hegf poff coff hdisj y s1 (by omega) p2 p5 p6
  refine ⟨s2, ?_, q2, by omega, q4, q5⟩
  unfold diagStep
  simp only [h1, bind, Except.bind]
  exact h2

theorem outer_okE {g : Geo} {A B : Seq} (hg : GeoW g A B) (hegf : g.egf = true) :
    ∀ (n : Nat) (y : Int) (poff coff : Nat) (st : St),
      (poff + g.width ≤ coff ∨ coff + g.width ≤ poff) → poff + g.width ≤ st.buf.size → coff + g.width ≤ st.buf.size →
      (0 ≤ st.endp ∧ st.endp ≤ A.length) →
      EvenOKE g A B st.buf poff (y - 1) → OddOKE g A B st.buf poff (y - 1) →
      ∃ st' p', outer g n y poff coff st = .ok (st', p') ∧ (0 ≤ st'.endp ∧ st'.endp ≤ A.length) ∧
        st'.buf.size = st.buf.size ∧
        (p' = poff ∨ p' = coff) ∧ EvenOKE g A B st'.buf p' (y + n - 1) ∧ OddOKE g A B st'.buf p' (y + n - 1) := by
  intro n
  induction n with
  | zero =>
    intro y poff coff st _ _ _ hen hE hO
    exact ⟨st, poff, rfl, hen, rfl, .inl rfl, by simpa using hE, by simpa using hO⟩
  | succ n ih =>
    intro y poff coff st hd h1 h2 hen hE hO
    obtain ⟨s1, e1, p2, p3, p4, p5⟩ := diagStep_okE hg hegf poff coff hd y st h2 hen hE hO
    have hE' : EvenOKE g A B s1.buf coff (y + 1 - 1) := by simpa using p4
    have hO' : OddOKE g A B s1.buf coff (y + 1 - 1) := by simpa using p5
    obtain ⟨s2, p', e2, q1, q2, q3, q4, q5⟩ := ih (y + 1) coff poff s1 (by omega) (by omega) (by omega) p2 hE' hO'
    refine ⟨s2, p', ?_, q1, by omega, by omega, ?_, ?_⟩
    · simp only [outer, e1, e2]
    · have : y + ((n + 1 : Nat) : Int) - 1 = y + 1 + (n : Int) - 1 := by omega
      rw [this]; exact q4
    · have : y + ((n + 1 : Nat) : Int) - 1 = y + 1 + (n : Int) - 1 := by omega
      rw [this]; exact q5

end ObiVerif.Lcs
