import ObiVerif.Model.WriteReg
import ObiVerif.Lemmas.WriteProc
/-! # Lemmas on the dynamic registration model of C18 -/
namespace ObiVerif.WriteProc

/-- a failing task that is protected: its cover is held, or its writer is registered and has not finished -/
def Task.okb (t : Task) : Bool :=
  t.fails && (match t.st with | .idle => t.cover | .run _ w => decide (w ≠ .done))

def anyOk : List Task → Bool
  | [] => false
  | t :: r => t.okb || anyOk r

/-- a task that does not fail and is not reporting -/
def Task.goodb (t : Task) : Bool :=
  !t.fails && (match t.st with | .run _ .reporting => false | _ => true)

def allGoodT : List Task → Bool
  | [] => true
  | t :: r => t.goodb && allGoodT r

theorem Task.okb_holds {t : Task} (h : t.okb = true) : 1 ≤ t.holds := by
  obtain ⟨c, f, st⟩ := t
  cases st with
  | idle => cases c <;> cases f <;> simp_all [Task.okb, Task.holds]
  | run r w => cases c <;> cases f <;> cases r <;> cases w <;> simp_all [Task.okb, Task.holds]

theorem anyOk_holds {ts : List Task} (h : anyOk ts = true) : 1 ≤ holds ts := by
  induction ts with
  | nil => simp [anyOk] at h
  | cons t r ih =>
    simp only [anyOk, Bool.or_eq_true] at h
    simp only [holds]
    rcases h with h | h
    · have := Task.okb_holds h; omega
    · have := ih h; omega

/-- a step of a task changes the registrations it holds exactly as it says -/
theorem Task.lstep_holds (t : Task) :
    t.lstep.1.holds + (if t.lstep.2 = .unreg then 1 else 0) = t.holds + (if t.lstep.2 = .reg then 1 else 0) := by
  obtain ⟨c, f, st⟩ := t
  cases st with
  | idle => cases c <;> simp [Task.lstep, Task.holds]
  | run r w => cases c <;> cases r <;> cases w <;> simp [Task.lstep, Task.holds]

theorem Task.wstep_holds (t : Task) :
    t.wstep.1.holds + (if t.wstep.2 = .unreg then 1 else 0) = t.holds + (if t.wstep.2 = .reg then 1 else 0) := by
  obtain ⟨c, f, st⟩ := t
  cases st with
  | idle => cases c <;> simp [Task.wstep, Task.holds]
  | run r w => cases c <;> cases f <;> cases r <;> cases w <;> simp [Task.wstep, Task.holds]

theorem tstep_holds (wr : Bool) (ts : List Task) (i : Nat) :
    holds (tstep wr ts i).1 + (if (tstep wr ts i).2 = .unreg then 1 else 0) =
      holds ts + (if (tstep wr ts i).2 = .reg then 1 else 0) := by
  induction ts generalizing i with
  | nil => simp [tstep, holds]
  | cons t r ih =>
    cases i with
    | zero =>
      cases wr with
      | true => have := t.wstep_holds; simp only [tstep, holds, if_true] at this ⊢; omega
      | false => have := t.lstep_holds; simp only [tstep, holds, Bool.false_eq_true, if_false] at this ⊢; omega
    | succ j =>
      have := ih j
      show holds (t :: (tstep wr r j).1) + (if (tstep wr r j).2 = .unreg then 1 else 0) =
        holds (t :: r) + (if (tstep wr r j).2 = .reg then 1 else 0)
      simp only [holds]
      generalize (tstep wr r j).2 = a at this ⊢
      generalize holds (tstep wr r j).1 = x at this ⊢
      omega

theorem Task.lstep_okb {t : Task} (h : t.okb = true) : t.lstep.1.okb = true := by
  obtain ⟨c, f, st⟩ := t
  cases st with
  | idle => cases c <;> cases f <;> simp_all [Task.lstep, Task.okb]
  | run r w => cases c <;> cases f <;> cases r <;> cases w <;> simp_all [Task.lstep, Task.okb]

theorem Task.wstep_okb {t : Task} (h : t.okb = true) : t.wstep.1.okb = true := by
  obtain ⟨c, f, st⟩ := t
  cases st with
  | idle => cases c <;> cases f <;> simp_all [Task.wstep, Task.okb]
  | run r w => cases c <;> cases f <;> cases r <;> cases w <;> simp_all [Task.wstep, Task.okb]

theorem tstep_anyOk (wr : Bool) (ts : List Task) (i : Nat) (h : anyOk ts = true) : anyOk (tstep wr ts i).1 = true := by
  induction ts generalizing i with
  | nil => simp [anyOk] at h
  | cons t r ih =>
    simp only [anyOk, Bool.or_eq_true] at h
    cases i with
    | zero =>
      simp only [tstep, anyOk, Bool.or_eq_true]
      rcases h with h | h
      · left
        cases wr with
        | true => simpa using Task.wstep_okb h
        | false => simpa using Task.lstep_okb h
      · exact Or.inr h
    | succ j =>
      simp only [tstep, anyOk, Bool.or_eq_true]
      rcases h with h | h
      · exact Or.inl h
      · exact Or.inr (ih j h)

theorem Task.lstep_goodb {t : Task} (h : t.goodb = true) : t.lstep.1.goodb = true ∧ t.lstep.2 ≠ .exit1 := by
  obtain ⟨c, f, st⟩ := t
  cases st with
  | idle => cases c <;> cases f <;> simp_all [Task.lstep, Task.goodb]
  | run r w => cases c <;> cases f <;> cases r <;> cases w <;> simp_all [Task.lstep, Task.goodb]

theorem Task.wstep_goodb {t : Task} (h : t.goodb = true) : t.wstep.1.goodb = true ∧ t.wstep.2 ≠ .exit1 := by
  obtain ⟨c, f, st⟩ := t
  cases st with
  | idle => cases c <;> cases f <;> simp_all [Task.wstep, Task.goodb]
  | run r w => cases c <;> cases f <;> cases r <;> cases w <;> simp_all [Task.wstep, Task.goodb]

theorem tstep_allGoodT (wr : Bool) (ts : List Task) (i : Nat) (h : allGoodT ts = true) :
    allGoodT (tstep wr ts i).1 = true ∧ (tstep wr ts i).2 ≠ .exit1 := by
  induction ts generalizing i with
  | nil => simp [tstep, allGoodT]
  | cons t r ih =>
    simp only [allGoodT, Bool.and_eq_true] at h
    cases i with
    | zero =>
      simp only [tstep, allGoodT, Bool.and_eq_true]
      cases wr with
      | true => have := Task.wstep_goodb h.1; exact ⟨⟨by simpa using this.1, h.2⟩, by simpa using this.2⟩
      | false => have := Task.lstep_goodb h.1; exact ⟨⟨by simpa using this.1, h.2⟩, by simpa using this.2⟩
    | succ j =>
      have := ih j h.2
      simp only [tstep, allGoodT, Bool.and_eq_true]
      exact ⟨⟨h.1, this.1⟩, this.2⟩

/-- no task holds anything: every writer that exists has finished, no cover is pending -/
theorem holds_zero {ts : List Task} (h : holds ts = 0) : ∀ t ∈ ts, t.holds = 0 := by
  induction ts with
  | nil => intro t ht; cases ht
  | cons x r ih =>
    simp only [holds] at h
    intro t ht
    rcases List.mem_cons.mp ht with rfl | hm
    · omega
    · exact ih (by omega) t hm

theorem Task.holds_zero_iff (t : Task) :
    t.holds = 0 ↔ (t.st = .idle ∧ t.cover = false) ∨ (∃ r, t.st = .run r .done ∧ (t.cover = false ∨ r = true)) := by
  obtain ⟨c, f, st⟩ := t
  cases st with
  | idle => cases c <;> simp [Task.holds]
  | run r w => cases c <;> cases r <;> cases w <;> simp [Task.holds]

/-! ## the process -/

/-- the counter of the `WaitGroup` is the number of registrations held by the tasks -/
structure RegInv (p : DProc) : Prop where
  cnt : p.reg = holds p.ts

theorem dstepT_ts (p : DProc) (wr : Bool) (i : Nat) : (dstepT p wr i).ts = (tstep wr p.ts i).1 := by
  unfold dstepT; dsimp only; split <;> rfl

theorem dstepT_main (p : DProc) (wr : Bool) (i : Nat) : (dstepT p wr i).main = p.main := by
  unfold dstepT; dsimp only; split <;> rfl

theorem dstepT_exit (p : DProc) (wr : Bool) (i : Nat) :
    (dstepT p wr i).exit = if (tstep wr p.ts i).2 = .exit1 then some 1 else p.exit := by
  unfold dstepT; dsimp only; split <;> simp_all

theorem dstepT_reg (p : DProc) (wr : Bool) (i : Nat) :
    (dstepT p wr i).reg = match (tstep wr p.ts i).2 with
      | .nop => p.reg | .reg => p.reg + 1 | .unreg => p.reg - 1 | .exit1 => p.reg := by
  unfold dstepT; dsimp only
  split <;> rename_i h <;> simp only [h]

theorem dstepT_regInv {p : DProc} (h : RegInv p) (wr : Bool) (i : Nat) : RegInv (dstepT p wr i) := by
  have hh := tstep_holds wr p.ts i
  have hr := dstepT_reg p wr i
  refine ⟨?_⟩
  rw [dstepT_ts]
  rw [h.cnt] at hr
  generalize (tstep wr p.ts i).2 = a at hh hr
  cases a <;> simp at hh hr <;> omega

theorem dstep_regInv {p : DProc} (h : RegInv p) (t : DTid) : RegInv (dstep p t) := by
  unfold dstep
  split
  · exact h
  · cases t with
    | main =>
      simp only
      cases p.main with
      | waiting => simp only; split <;> exact ⟨h.cnt⟩
      | returned => exact ⟨h.cnt⟩
    | launcher i => exact dstepT_regInv h false i
    | writer i => exact dstepT_regInv h true i

structure SafeInv (p : DProc) : Prop where
  cnt : p.reg = holds p.ts
  ok : anyOk p.ts = true
  mn : p.main = .waiting
  ex : p.exit ≠ some 0

theorem dstepT_safeInv {p : DProc} (h : SafeInv p) (wr : Bool) (i : Nat) : SafeInv (dstepT p wr i) := by
  refine ⟨(dstepT_regInv ⟨h.cnt⟩ wr i).cnt, ?_, ?_, ?_⟩
  · rw [dstepT_ts]; exact tstep_anyOk wr p.ts i h.ok
  · rw [dstepT_main]; exact h.mn
  · rw [dstepT_exit]
    split
    · simp
    · exact h.ex

theorem dstep_safeInv {p : DProc} (h : SafeInv p) (t : DTid) : SafeInv (dstep p t) := by
  unfold dstep
  split
  · exact h
  · cases t with
    | main =>
      have hpos : p.reg ≠ 0 := by
        have := anyOk_holds h.ok
        rw [h.cnt]; omega
      simp only [h.mn, hpos, if_false]
      exact h
    | launcher i => exact dstepT_safeInv h false i
    | writer i => exact dstepT_safeInv h true i

structure GoodInvD (p : DProc) : Prop where
  good : allGoodT p.ts = true
  ex : p.exit ≠ some 1

theorem dstepT_goodInv {p : DProc} (h : GoodInvD p) (wr : Bool) (i : Nat) : GoodInvD (dstepT p wr i) := by
  have hg := tstep_allGoodT wr p.ts i h.good
  refine ⟨?_, ?_⟩
  · rw [dstepT_ts]; exact hg.1
  · rw [dstepT_exit, if_neg hg.2]; exact h.ex

theorem dstep_goodInv {p : DProc} (h : GoodInvD p) (t : DTid) : GoodInvD (dstep p t) := by
  unfold dstep
  split
  · exact h
  · cases t with
    | main =>
      simp only
      cases p.main with
      | waiting => simp only; split <;> exact ⟨h.good, h.ex⟩
      | returned => exact ⟨h.good, by simp⟩
    | launcher i => exact dstepT_goodInv h false i
    | writer i => exact dstepT_goodInv h true i

theorem init_anyOk (ks : List (Kind × Bool)) (h : ∃ k ∈ ks, k.2 = true ∧ k.1 ≠ .uncovered) :
    anyOk (ks.map fun k => Task.mk0 k.1 k.2) = true := by
  induction ks with
  | nil => obtain ⟨k, hk, _⟩ := h; cases hk
  | cons x r ih =>
    obtain ⟨k, hk, hf, hc⟩ := h
    simp only [List.map_cons, anyOk, Bool.or_eq_true]
    rcases List.mem_cons.mp hk with rfl | hm
    · left
      obtain ⟨kd, f⟩ := k
      cases kd <;> simp_all [Task.mk0, Task.okb]
    · exact Or.inr (ih ⟨k, hm, hf, hc⟩)

theorem init_allGoodT (ks : List (Kind × Bool)) (h : ∀ k ∈ ks, k.2 = false) :
    allGoodT (ks.map fun k => Task.mk0 k.1 k.2) = true := by
  induction ks with
  | nil => rfl
  | cons x r ih =>
    simp only [List.map_cons, allGoodT, Bool.and_eq_true]
    refine ⟨?_, ih fun k hk => h k (List.mem_cons_of_mem _ hk)⟩
    obtain ⟨kd, f⟩ := x
    have : f = false := h (kd, f) (List.mem_cons_self ..)
    subst this
    cases kd <;> simp [Task.mk0, Task.goodb]

end ObiVerif.WriteProc
