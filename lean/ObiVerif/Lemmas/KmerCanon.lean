import ObiVerif.Lemmas.Kmer4
/-!
# Lemmas on the canonical k-mer index (C19): the rolling words of `NormalizedKmerSlice` against a sliding
window of digits (`rollLoop_eq`), the masks of `NewKmerMap` in closed form (`newKmerMap_valid`)
-/
namespace ObiVerif.Kmer

theorem four_pow (n : Nat) : 2 ^ (2 * n) = 4 ^ n := by
  rw [Nat.pow_mul]

/-- `x & ((2^a - 1) << b)` keeps the `a` bits above position `b` -/
theorem and_shifted_mask (x a b : Nat) : x &&& ((2 ^ a - 1) * 2 ^ b) = (x / 2 ^ b % 2 ^ a) * 2 ^ b := by
  apply Nat.eq_of_testBit_eq
  intro i
  simp only [Nat.testBit_and, Nat.testBit_mul_two_pow, Nat.testBit_two_pow_sub_one, Nat.testBit_mod_two_pow,
    Nat.testBit_div_two_pow]
  by_cases h : b ≤ i
  · have : i - b + b = i := by omega
    simp [h, this, Bool.and_comm]
  · simp [h]

theorem lor_disjoint (hi lo n : Nat) (h : lo < 2 ^ n) : hi * 2 ^ n ||| lo = hi * 2 ^ n + lo := by
  have := Nat.two_pow_add_eq_or_of_lt h hi
  rw [Nat.mul_comm] at this
  exact this.symm

theorem lor_disjoint' (hi lo n : Nat) (h : lo < 2 ^ n) : lo ||| hi * 2 ^ n = hi * 2 ^ n + lo := by
  rw [Nat.or_comm]; exact lor_disjoint hi lo n h

/-- `^(^0 << n)` is `2^n - 1` when `n ≤ W` -/
theorem mask_eq (W n : Nat) (h : n ≤ W) : notW W (shl W (notW W 0) n) = 2 ^ n - 1 := by
  unfold notW shl
  have hp : 2 ^ n ≤ 2 ^ W := Nat.pow_le_pow_right (by decide) h
  have hn : 0 < 2 ^ n := Nat.two_pow_pos n
  have e : (2 ^ W - 1 - 0) * 2 ^ n = 2 ^ W * (2 ^ n - 1) + (2 ^ W - 2 ^ n) := by
    have h1 : 2 ^ W * (2 ^ n - 1) = 2 ^ W * 2 ^ n - 2 ^ W := by
      rw [Nat.mul_sub, Nat.mul_one]
    have h2 : (2 ^ W - 1 - 0) * 2 ^ n = 2 ^ W * 2 ^ n - 2 ^ n := by
      rw [Nat.sub_zero, Nat.sub_mul, Nat.one_mul]
    have h3 : 2 ^ W ≤ 2 ^ W * 2 ^ n := Nat.le_mul_of_pos_right _ hn
    omega
  rw [e, Nat.mul_add_mod, Nat.mod_eq_of_lt (by omega)]
  omega

/-! ## digit lists (most significant first) -/

def val (d : List Nat) : Nat := d.foldl (fun v c => v * 4 + c) 0

def Dig (d : List Nat) : Prop := ∀ c ∈ d, c < 4

theorem foldl_val (d : List Nat) (v : Nat) : d.foldl (fun v c => v * 4 + c) v = v * 4 ^ d.length + val d := by
  induction d generalizing v with
  | nil => simp [val]
  | cons a t ih =>
    simp only [List.foldl_cons, List.length_cons, val]
    rw [ih, ih (0 * 4 + a), Nat.pow_succ]
    simp [Nat.add_mul, Nat.mul_assoc, Nat.mul_comm, Nat.add_assoc]

theorem val_nil : val [] = 0 := rfl

theorem val_cons (a : Nat) (t : List Nat) : val (a :: t) = a * 4 ^ t.length + val t := by
  simp only [val, List.foldl_cons]
  rw [foldl_val]; simp [val]

theorem val_append (a b : List Nat) : val (a ++ b) = val a * 4 ^ b.length + val b := by
  simp only [val, List.foldl_append]
  rw [foldl_val]; rfl

theorem val_snoc (a : List Nat) (c : Nat) : val (a ++ [c]) = val a * 4 + c := by
  rw [val_append]; simp [val]

theorem val_lt (d : List Nat) (h : Dig d) : val d < 4 ^ d.length := by
  induction d with
  | nil => simp [val]
  | cons a t ih =>
    rw [val_cons, List.length_cons, Nat.pow_succ]
    have ha : a < 4 := h a (by simp)
    have := ih (fun c hc => h c (by simp [hc]))
    have h4 : a * 4 ^ t.length ≤ 3 * 4 ^ t.length := Nat.mul_le_mul_right _ (by omega)
    omega

theorem Dig.tail {d : List Nat} (h : Dig d) : Dig d.tail := fun c hc => h c (List.mem_of_mem_tail hc)

theorem Dig.snoc {d : List Nat} (h : Dig d) {c : Nat} (hc : c < 4) : Dig (d ++ [c]) := by
  intro x hx
  rcases List.mem_append.mp hx with h1 | h1
  · exact h x h1
  · simp at h1; omega

/-- reverse complement of a digit window -/
def rcDigits (d : List Nat) : List Nat := (d.map (3 - ·)).reverse

theorem rcDigits_length (d : List Nat) : (rcDigits d).length = d.length := by simp [rcDigits]

theorem rcDigits_dig (d : List Nat) : Dig (rcDigits d) := by
  intro c hc
  simp only [rcDigits, List.mem_reverse, List.mem_map] at hc
  obtain ⟨a, _, rfl⟩ := hc
  omega

theorem rcDigits_snoc (t : List Nat) (c : Nat) : rcDigits (t ++ [c]) = (3 - c) :: rcDigits t := by
  simp [rcDigits]

theorem rcDigits_cons (a : Nat) (t : List Nat) : rcDigits (a :: t) = rcDigits t ++ [3 - a] := by
  simp [rcDigits]

theorem rcDigits_rcDigits (d : List Nat) (h : Dig d) : rcDigits (rcDigits d) = d := by
  simp only [rcDigits, List.map_reverse, List.reverse_reverse, List.map_map]
  conv => rhs; rw [← List.map_id d]
  apply List.map_congr_left
  intro a ha
  have := h a ha
  show 3 - (3 - a) = id a
  simp only [id]; omega

/-- the central base is removed in sparse mode -/
def dropMid (sparse : Bool) (d : List Nat) : List Nat := if sparse then d.eraseIdx (d.length / 2) else d

/-- the canonical value of a window: the smaller of the window and its reverse complement -/
def canon (sparse : Bool) (d : List Nat) : Nat :=
  let f := val (dropMid sparse d)
  let r := val (dropMid sparse (rcDigits d))
  if f < r then f else r

theorem canon_eq_min (sparse : Bool) (d : List Nat) :
    canon sparse d = min (val (dropMid sparse d)) (val (dropMid sparse (rcDigits d))) := by
  simp only [canon, Nat.min_def]
  split <;> split <;> omega

/-- a base with exactly one reading, and its 2-bit code -/
def plain (b : UInt8) : Option Nat :=
  if (iupac b.toNat).length = 1 then some ((iupac b.toNat).headD 0) else none

/-- the window after one more digit (at most `k` digits are kept) -/
def slide (k : Nat) (t : List Nat) (c : Nat) : List Nat := (if t.length = k then t.tail else t) ++ [c]

/-- specification loop: a sliding window of plain digits, reset by any other byte -/
def specLoop (k : Nat) (sparse : Bool) : List Nat → List (Option Nat) → List Nat
  | _, [] => []
  | _, none :: r => specLoop k sparse [] r
  | t, some c :: r =>
    if (slide k t c).length = k then canon sparse (slide k t c) :: specLoop k sparse (slide k t c) r
    else specLoop k sparse (slide k t c) r

set_option maxRecDepth 100000 in
/-- table fact, decided over the 256 byte values with the generated tables: a byte with one reading has a
2-bit code, and the complementary byte has one reading, the complementary code -/
theorem plain_table : ∀ n, n < 256 → (iupac n).length = 1 →
    (iupac n).headD 0 < 4 ∧ (iupac (revcompnuc n)).length = 1 ∧
    (iupac (revcompnuc n)).headD 0 = 3 - (iupac n).headD 0 := by decide

/-- the closed form of the parameters computed by `NewKmerMap` (see `newKmerMap_valid`) -/
structure Valid (m : KmerMap) (sparse : Bool) : Prop where
  kpos : 1 ≤ m.kmersize
  fits : 2 * m.kmersize ≤ m.W
  mask : m.kmermask = 2 ^ (2 * m.kmersize) - 1
  dense : sparse = false → m.sparseAt = -1
  sp : sparse = true → m.kmersize % 2 = 1 ∧ m.sparseAt ≠ -1 ∧
    m.leftMask = (2 ^ (2 * (m.kmersize / 2)) - 1) * 2 ^ (2 * (m.kmersize / 2) + 2) ∧
    m.rightMask = 2 ^ (2 * (m.kmersize / 2)) - 1

/-- loop invariant of `NormalizedKmerSlice`: `t` is the window of the last plain digits -/
structure Inv (m : KmerMap) (st : Roll) (t : List Nat) : Prop where
  dig : Dig t
  len : t.length ≤ m.kmersize
  size : st.size = min t.length (m.kmersize - 1)
  cur : st.current = val t
  ccur : st.ccurrent = val (rcDigits t) * 4 ^ (m.kmersize - t.length)

theorem slide_length_lt {k : Nat} {t : List Nat} (c : Nat) (h : t.length < k) :
    slide k t c = t ++ [c] := by simp [slide, Nat.ne_of_lt h]

theorem slide_length_eq {k : Nat} {t : List Nat} (c : Nat) (h : t.length = k) :
    slide k t c = t.tail ++ [c] := by simp [slide, h]

theorem cur_step (W k : Nat) (t : List Nat) (c : Nat) (hk : 1 ≤ k) (hW : 2 * k ≤ W) (hd : Dig t)
    (hl : t.length ≤ k) (hc : c < 4) :
    (shl W (val t) 2 &&& (2 ^ (2 * k) - 1)) ||| c = val (slide k t c) := by
  have hdv : 2 ^ (2 * k) ∣ 2 ^ W := Nat.pow_dvd_pow 2 hW
  have e4 : (2:Nat) ^ (2 * k) = 4 ^ (k - 1) * 4 := by
    rw [four_pow, ← Nat.pow_succ]; congr 1; omega
  have h1 : shl W (val t) 2 &&& (2 ^ (2 * k) - 1) = (val t % 4 ^ (k - 1)) * 4 := by
    rw [Nat.and_two_pow_sub_one_eq_mod]
    unfold shl
    rw [Nat.mod_mod_of_dvd _ hdv, e4]
    show val t * 4 % (4 ^ (k - 1) * 4) = _
    rw [Nat.mul_mod_mul_right]
  rw [h1, lor_low2 _ _ (by omega) hc]
  have hvt := val_lt t hd
  by_cases hlt : t.length < k
  · rw [slide_length_lt c hlt, val_snoc]
    have : 4 ^ t.length ≤ 4 ^ (k - 1) := Nat.pow_le_pow_right (by decide) (by omega)
    rw [Nat.mod_eq_of_lt (by omega)]
  · have hle : t.length = k := by omega
    rw [slide_length_eq c hle, val_snoc]
    cases t with
    | nil => simp at hle; omega
    | cons a tl =>
      have htl : tl.length = k - 1 := by simp at hle; omega
      have hv2 := val_lt tl hd.tail
      simp only [List.tail_cons]
      rw [val_cons, htl, Nat.add_comm (a * 4 ^ (k - 1)), Nat.add_mul_mod_self_right,
        Nat.mod_eq_of_lt (by rw [← htl]; exact hv2)]

theorem shl_small (W x n m : Nat) (hx : x < 2 ^ m) (h : n + m ≤ W) : shl W x n = x * 2 ^ n := by
  unfold shl
  apply Nat.mod_eq_of_lt
  have h1 : x * 2 ^ n < 2 ^ m * 2 ^ n := Nat.mul_lt_mul_of_pos_right hx (Nat.two_pow_pos n)
  have h2 : 2 ^ m * 2 ^ n = 2 ^ (m + n) := (Nat.pow_add 2 m n).symm
  have h3 : 2 ^ (m + n) ≤ 2 ^ W := Nat.pow_le_pow_right (by decide) (by omega)
  omega

theorem ccur_step (W k : Nat) (t : List Nat) (c : Nat) (hk : 1 ≤ k) (hW : 2 * k ≤ W) (hd : Dig t)
    (hl : t.length ≤ k) :
    shr (val (rcDigits t) * 4 ^ (k - t.length)) 2 ||| shl W (3 - c) (2 * (k - 1))
      = val (rcDigits (slide k t c)) * 4 ^ (k - (slide k t c).length) := by
  have hcc : 3 - c < 2 ^ 2 := by show 3 - c < 4; omega
  rw [shl_small W (3 - c) (2 * (k - 1)) 2 hcc (by omega)]
  have hR := val_lt _ (rcDigits_dig t)
  rw [rcDigits_length] at hR
  by_cases hlt : t.length < k
  · obtain ⟨e, he⟩ : ∃ e, k - t.length = e + 1 := ⟨k - t.length - 1, by omega⟩
    have hk1 : k - 1 = t.length + e := by omega
    rw [slide_length_lt c hlt, rcDigits_snoc, val_cons, rcDigits_length, he]
    have hlen : k - (t ++ [c]).length = e := by simp; omega
    rw [hlen]
    have hs : shr (val (rcDigits t) * 4 ^ (e + 1)) 2 = val (rcDigits t) * 4 ^ e := by
      unfold shr
      rw [Nat.pow_succ, ← Nat.mul_assoc]
      exact Nat.mul_div_cancel _ (by decide)
    rw [hs]
    have hP : (2:Nat) ^ (2 * (k - 1)) = 4 ^ t.length * 4 ^ e := by
      rw [four_pow, hk1, Nat.pow_add]
    have hlo : val (rcDigits t) * 4 ^ e < 2 ^ (2 * (k - 1)) := by
      rw [hP]; exact Nat.mul_lt_mul_of_pos_right hR (Nat.pow_pos (by decide))
    rw [lor_disjoint' _ _ _ hlo, hP, Nat.add_mul, Nat.mul_assoc]
  · have hle : t.length = k := by omega
    cases t with
    | nil => simp at hle; omega
    | cons a tl =>
      have htl : tl.length = k - 1 := by simp at hle; omega
      have hR2 := val_lt _ (rcDigits_dig tl)
      rw [rcDigits_length, htl] at hR2
      rw [slide_length_eq c hle]
      simp only [List.tail_cons]
      have hlen : k - (tl ++ [c]).length = 0 := by simp; omega
      have hlen2 : k - (a :: tl).length = 0 := by omega
      rw [hlen, hlen2, rcDigits_cons, val_snoc, rcDigits_snoc, val_cons, rcDigits_length, htl]
      have hs : shr ((val (rcDigits tl) * 4 + (3 - a)) * 4 ^ 0) 2 = val (rcDigits tl) := by
        unfold shr
        show ((val (rcDigits tl) * 4 + (3 - a)) * 1) / 4 = _
        omega
      rw [hs]
      have hP : (2:Nat) ^ (2 * (k - 1)) = 4 ^ (k - 1) := four_pow _
      rw [lor_disjoint' _ _ _ (by rw [hP]; exact hR2), hP]
      simp

theorem sparse_val_aux (h : Nat) (hi lo : List Nat) (mid : Nat) (dhi : Dig hi) (dlo : Dig lo) (hm : mid < 4)
    (lhi : hi.length = h) (llo : lo.length = h) :
    shr (val (hi ++ mid :: lo) &&& ((2 ^ (2 * h) - 1) * 2 ^ (2 * h + 2))) 2
      ||| (val (hi ++ mid :: lo) &&& (2 ^ (2 * h) - 1)) = val (hi ++ lo) := by
  have hH := val_lt hi dhi
  have hL := val_lt lo dlo
  rw [lhi] at hH
  rw [llo] at hL
  have hP : 0 < 4 ^ h := Nat.pow_pos (by decide)
  have e1 : (2:Nat) ^ (2 * h + 2) = 4 ^ (h + 1) := by rw [← four_pow, Nat.mul_add]
  have e2 : (2:Nat) ^ (2 * h) = 4 ^ h := four_pow h
  have hx : val (hi ++ mid :: lo) = val hi * 4 ^ (h + 1) + (mid * 4 ^ h + val lo) := by
    rw [val_append, val_cons, List.length_cons, llo]
  have hr : mid * 4 ^ h + val lo < 4 ^ (h + 1) := by
    rw [Nat.pow_succ]
    have : mid * 4 ^ h ≤ 3 * 4 ^ h := Nat.mul_le_mul_right _ (by omega)
    omega
  have hx2 : val (hi ++ mid :: lo) = (val hi * 4 + mid) * 4 ^ h + val lo := by
    rw [hx, Nat.pow_succ, Nat.add_mul, Nat.mul_assoc, Nat.mul_comm (4 ^ h) 4, Nat.add_assoc]
  rw [and_shifted_mask, Nat.and_two_pow_sub_one_eq_mod, e1, e2]
  have d1 : val (hi ++ mid :: lo) / 4 ^ (h + 1) = val hi := by
    rw [hx, Nat.add_comm, Nat.add_mul_div_right _ _ (Nat.pow_pos (by decide)), Nat.div_eq_of_lt hr, Nat.zero_add]
  have d2 : val (hi ++ mid :: lo) % 4 ^ h = val lo := by
    rw [hx2, Nat.add_comm, Nat.add_mul_mod_self_right, Nat.mod_eq_of_lt hL]
  rw [d1, d2, Nat.mod_eq_of_lt hH]
  have hs : shr (val hi * 4 ^ (h + 1)) 2 = val hi * 4 ^ h := by
    unfold shr
    rw [Nat.pow_succ, ← Nat.mul_assoc]
    exact Nat.mul_div_cancel _ (by decide)
  rw [hs, ← e2, lor_disjoint _ _ _ (by rw [e2]; exact hL), e2, val_append, llo]

theorem sparse_val (d : List Nat) (hd : Dig d) (h : Nat) (hl : d.length = 2 * h + 1) :
    shr (val d &&& ((2 ^ (2 * h) - 1) * 2 ^ (2 * h + 2))) 2 ||| (val d &&& (2 ^ (2 * h) - 1))
      = val (d.eraseIdx h) := by
  have hlt : h < d.length := by omega
  have e : d = d.take h ++ d[h] :: d.drop (h + 1) := by
    rw [← List.drop_eq_getElem_cons hlt, List.take_append_drop]
  have e2 : d.eraseIdx h = d.take h ++ d.drop (h + 1) := List.eraseIdx_eq_take_drop_succ ..
  rw [e2]
  conv => lhs; rw [e]
  apply sparse_val_aux h
  · exact fun c hc => hd c (List.mem_of_mem_take hc)
  · exact fun c hc => hd c (List.mem_of_mem_drop hc)
  · exact hd _ (List.getElem_mem _)
  · simp; omega
  · simp; omega

theorem normalizedKmer_eq (m : KmerMap) (sparse : Bool) (hv : Valid m sparse) (t : List Nat) (hd : Dig t)
    (hl : t.length = m.kmersize) :
    normalizedKmer m (val t) (val (rcDigits t)) = canon sparse t := by
  cases sparse with
  | false =>
    have := hv.dense rfl
    simp [normalizedKmer, makeSparseAt, this, canon, dropMid]
  | true =>
    obtain ⟨hodd, hne, hL, hR⟩ := hv.sp rfl
    have hk : m.kmersize = 2 * (m.kmersize / 2) + 1 := by omega
    have h1 := sparse_val t hd (m.kmersize / 2) (by omega)
    have h2 := sparse_val (rcDigits t) (rcDigits_dig t) (m.kmersize / 2) (by rw [rcDigits_length]; omega)
    simp only [normalizedKmer, makeSparseAt, hne, if_false, hL, hR, h1, h2, canon, dropMid, if_true,
      rcDigits_length, hl]

theorem slide_length (k : Nat) (t : List Nat) (c : Nat) (hk : 1 ≤ k) (hl : t.length ≤ k) :
    (slide k t c).length = min (t.length + 1) k := by
  by_cases h : t.length = k
  · rw [slide_length_eq c h]; simp; omega
  · rw [slide_length_lt c (by omega)]; simp; omega

theorem slide_dig (k : Nat) (t : List Nat) (c : Nat) (hd : Dig t) (hc : c < 4) : Dig (slide k t c) := by
  unfold slide; split
  · exact hd.tail.snoc hc
  · exact hd.snoc hc

theorem rollStep_none (m : KmerMap) (st : Roll) (b : UInt8) (hp : plain b = none) :
    rollStep m st b = (⟨0, 0, 0⟩, none) := by
  have : (iupac b.toNat).length ≠ 1 := by
    intro h; simp [plain, h] at hp
  simp [rollStep, this]

theorem inv_zero (m : KmerMap) : Inv m ⟨0, 0, 0⟩ [] :=
  ⟨by intro c hc; simp at hc, by simp, by simp, rfl, by simp [rcDigits, val]⟩

theorem rollStep_plain (m : KmerMap) (sparse : Bool) (hv : Valid m sparse) (st : Roll) (t : List Nat)
    (hinv : Inv m st t) (b : UInt8) (c : Nat) (hp : plain b = some c) :
    ∃ st', rollStep m st b =
        (st', if (slide m.kmersize t c).length = m.kmersize then some (canon sparse (slide m.kmersize t c)) else none)
      ∧ Inv m st' (slide m.kmersize t c) := by
  have hlen1 : (iupac b.toNat).length = 1 := by
    by_cases h : (iupac b.toNat).length = 1
    · exact h
    · simp [plain, h] at hp
  have hc0 : (iupac b.toNat).headD 0 = c := by simpa [plain, hlen1] using hp
  obtain ⟨hc4, _, hcc⟩ := plain_table b.toNat b.toNat_lt hlen1
  rw [hc0] at hc4 hcc
  have hcur := cur_step m.W m.kmersize t c hv.kpos hv.fits hinv.dig hinv.len hc4
  have hccur := ccur_step m.W m.kmersize t c hv.kpos hv.fits hinv.dig hinv.len
  have hsl := slide_length m.kmersize t c hv.kpos hinv.len
  have hsd := slide_dig m.kmersize t c hinv.dig hc4
  have hkp := hv.kpos
  have hl := hinv.len
  have hsz := hinv.size
  by_cases he : (slide m.kmersize t c).length = m.kmersize
  · refine ⟨⟨val (slide m.kmersize t c), val (rcDigits (slide m.kmersize t c)), m.kmersize - 1⟩, ?_, ?_⟩
    · have hsize : st.size + 1 = m.kmersize := by omega
      have h0 : m.kmersize - (slide m.kmersize t c).length = 0 := by omega
      rw [h0] at hccur
      simp only [rollStep, hlen1, ne_eq, not_true_eq_false, if_false, hc0, hcc, hv.mask, hinv.cur, hinv.ccur,
        hcur, hccur, hsize, if_true, he, Nat.pow_zero, Nat.mul_one]
      rw [normalizedKmer_eq m sparse hv _ hsd he]
    · exact ⟨hsd, by omega, by simp only []; omega, rfl, by simp [he]⟩
  · refine ⟨⟨val (slide m.kmersize t c), val (rcDigits (slide m.kmersize t c)) *
        4 ^ (m.kmersize - (slide m.kmersize t c).length), st.size + 1⟩, ?_, ?_⟩
    · have hsize : ¬ st.size + 1 = m.kmersize := by omega
      simp only [rollStep, hlen1, ne_eq, not_true_eq_false, if_false, hc0, hcc, hv.mask, hinv.cur, hinv.ccur,
        hcur, hccur, hsize, he]
    · exact ⟨hsd, by omega, by simp only []; omega, rfl, rfl⟩

theorem rollLoop_eq (m : KmerMap) (sparse : Bool) (hv : Valid m sparse) (s : Bytes) :
    ∀ (st : Roll) (t : List Nat), Inv m st t →
      rollLoop m st s = specLoop m.kmersize sparse t (s.map plain) := by
  induction s with
  | nil => intros; rfl
  | cons b s ih =>
    intro st t hinv
    cases hp : plain b with
    | none =>
      simp only [rollLoop, rollStep_none m st b hp, List.map_cons, hp, specLoop]
      exact ih _ _ (inv_zero m)
    | some c =>
      obtain ⟨st', hs, hinv'⟩ := rollStep_plain m sparse hv st t hinv b c hp
      simp only [rollLoop, hs, List.map_cons, hp, specLoop]
      by_cases he : (slide m.kmersize t c).length = m.kmersize
      · simp only [he, if_true]
        rw [ih _ _ hinv']
      · simp only [he, if_false]
        rw [ih _ _ hinv']

/-- the k-mer size `NewKmerMap` actually uses: odd in sparse mode, even in dense mode -/
def effK (k : Nat) (sparse : Bool) : Nat :=
  if sparse then (if k % 2 = 0 then k + 1 else k) else (if k % 2 = 1 then k - 1 else k)

theorem shl_one (W n : Nat) (h : n < W) : shl W 1 n = 2 ^ n := by
  have := shl_small W 1 n 1 (by decide) (by omega)
  rw [this, Nat.one_mul]

theorem newKmerMap_valid (W k0 : Nat) (sparse : Bool) (h1 : 1 ≤ effK k0 sparse) (h2 : 2 * effK k0 sparse ≤ W) :
    ∃ m, newKmerMap W k0 sparse = .ok m ∧ Valid m sparse ∧ m.kmersize = effK k0 sparse ∧ m.W = W := by
  cases sparse with
  | false =>
    by_cases hp : k0 % 2 = 1
    · have e : effK k0 false = k0 - 1 := by simp [effK, hp]
      rw [e] at h1 h2 ⊢
      have hm := mask_eq W ((k0 - 1) * 2) (by omega)
      refine ⟨⟨W, k0 - 1, 2 ^ (2 * (k0 - 1)) - 1, 0, 0, -1⟩, ?_, ⟨h1, h2, rfl, fun _ => rfl, by simp⟩, rfl, rfl⟩
      simp [newKmerMap, hp, hm, Nat.mul_comm, pure, Except.pure]
    · have e : effK k0 false = k0 := by simp [effK, hp]
      rw [e] at h1 h2 ⊢
      have hm := mask_eq W (k0 * 2) (by omega)
      refine ⟨⟨W, k0, 2 ^ (2 * k0) - 1, 0, 0, -1⟩, ?_, ⟨h1, h2, rfl, fun _ => rfl, by simp⟩, rfl, rfl⟩
      simp [newKmerMap, hp, hm, Nat.mul_comm, pure, Except.pure]
  | true =>
    have key : ∀ k, k % 2 = 1 → 2 * k ≤ W →
        (do
          let sparseAt : Int := ((k / 2 : Nat) : Int)
          let kmermask := notW W (shl W (notW W 0) (k * 2))
          if sparseAt ≥ 0 then
            if sparseAt ≥ (k : Int) then
              (pure ⟨W, k, kmermask, 0, 0, -1⟩ : Except Unit KmerMap)
            else
              let sp := sparseAt.toNat
              let pos := k - 1 - sp
              let left := sp * 2
              let right := pos * 2
              let l ← subW (shl W 1 left) 1
              let r ← subW (shl W 1 right) 1
              pure ⟨W, k, kmermask, shl W l (right + 2), r, sparseAt⟩
          else
            pure ⟨W, k, kmermask, 0, 0, sparseAt⟩)
        = .ok ⟨W, k, 2 ^ (2 * k) - 1, (2 ^ (2 * (k / 2)) - 1) * 2 ^ (2 * (k / 2) + 2), 2 ^ (2 * (k / 2)) - 1,
              ((k / 2 : Nat) : Int)⟩ := by
      intro k hodd hW
      have hm := mask_eq W (k * 2) (by omega)
      have hpos : k - 1 - k / 2 = k / 2 := by omega
      have hs1 : shl W 1 (k / 2 * 2) = 2 ^ (2 * (k / 2)) := by
        rw [shl_one W _ (by omega), Nat.mul_comm]
      have hp1 : 1 ≤ 2 ^ (2 * (k / 2)) := Nat.two_pow_pos _
      have hl : shl W (2 ^ (2 * (k / 2)) - 1) (k / 2 * 2 + 2) = (2 ^ (2 * (k / 2)) - 1) * 2 ^ (2 * (k / 2) + 2) := by
        rw [shl_small W _ _ (2 * (k / 2)) (by omega) (by omega), Nat.mul_comm (k / 2) 2]
      have h0 : (0 : Int) ≤ ((k / 2 : Nat) : Int) := Int.natCast_nonneg _
      have h1 : ¬ ((k : Int) ≤ ((k / 2 : Nat) : Int)) := by omega
      simp only [ge_iff_le, h0, if_true, h1, if_false, Int.toNat_natCast, hpos, hs1, subW,
        Nat.not_lt.mpr hp1, bind, Except.bind, pure, Except.pure, hl, hm]
      rw [Nat.mul_comm k 2]
    by_cases hp : k0 % 2 = 0
    · have e : effK k0 true = k0 + 1 := by simp [effK, hp]
      rw [e] at h1 h2 ⊢
      have hk := key (k0 + 1) (by omega) h2
      refine ⟨⟨W, k0 + 1, 2 ^ (2 * (k0 + 1)) - 1, (2 ^ (2 * ((k0 + 1) / 2)) - 1) * 2 ^ (2 * ((k0 + 1) / 2) + 2), 2 ^ (2 * ((k0 + 1) / 2)) - 1, (((k0 + 1) / 2 : Nat) : Int)⟩, ?_, ⟨h1, h2, rfl, by simp, fun _ => ⟨by show (k0 + 1) % 2 = 1; omega, by show ((_ : Nat) : Int) ≠ -1; omega, rfl, rfl⟩⟩, rfl, rfl⟩
      simp only [newKmerMap, hp, Bool.and_self, beq_self_eq_true, if_true, Bool.not_true, Bool.false_and,
        Bool.false_eq_true, if_false]
      exact hk
    · have e : effK k0 true = k0 := by simp [effK, hp]
      rw [e] at h1 h2 ⊢
      have hk := key k0 (by omega) h2
      refine ⟨⟨W, k0, 2 ^ (2 * (k0)) - 1, (2 ^ (2 * ((k0) / 2)) - 1) * 2 ^ (2 * ((k0) / 2) + 2), 2 ^ (2 * ((k0) / 2)) - 1, (((k0) / 2 : Nat) : Int)⟩, ?_, ⟨h1, h2, rfl, by simp, fun _ => ⟨by show k0 % 2 = 1; omega, by show ((_ : Nat) : Int) ≠ -1; omega, rfl, rfl⟩⟩, rfl, rfl⟩
      have hp' : (k0 % 2 == 0) = false := by simpa using hp
      simp only [newKmerMap, hp', Bool.and_false, Bool.false_eq_true, if_false, Bool.not_true, Bool.false_and]
      exact hk
end ObiVerif.Kmer
