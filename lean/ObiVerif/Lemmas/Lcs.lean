import ObiVerif.Model.Lcs
/-! helper lemmas for C09 (structural layer of `D1Or0`, edit distance, packed cells, LCS recurrence) -/
namespace ObiVerif.Lcs

/-! ## prefix / suffix stripping -/

theorem stripPre_spec (a b : Seq) :
    ∃ p, a = p ++ (stripPre a b).1 ∧ b = p ++ (stripPre a b).2 ∧
      (∀ x y xs ys, (stripPre a b).1 = x :: xs → (stripPre a b).2 = y :: ys → x ≠ y) := by
  induction a generalizing b with
  | nil => exact ⟨[], by simp [stripPre], by simp [stripPre], by simp [stripPre]⟩
  | cons x xs ih =>
    cases b with
    | nil => exact ⟨[], by simp [stripPre], by simp [stripPre], by simp [stripPre]⟩
    | cons y ys =>
      by_cases h : x = y
      · subst h
        obtain ⟨p, h1, h2, h3⟩ := ih ys
        refine ⟨x :: p, ?_, ?_, ?_⟩ <;> simp only [stripPre, ↓reduceIte]
        · simpa using h1
        · simpa using h2
        · exact h3
      · refine ⟨[], ?_, ?_, ?_⟩ <;> simp only [stripPre, h, ↓reduceIte, List.nil_append]
        intro x' y' xs' ys' e1 e2
        simp at e1 e2
        rw [← e1.1, ← e2.1]; exact h

theorem stripPre_self (a : Seq) : stripPre a a = ([], []) := by
  induction a with
  | nil => simp [stripPre]
  | cons x xs ih => simp [stripPre, ih]

theorem stripPre_swap (a b : Seq) : stripPre b a = ((stripPre a b).2, (stripPre a b).1) := by
  induction a generalizing b with
  | nil => cases b <;> simp [stripPre]
  | cons x xs ih =>
    cases b with
    | nil => simp [stripPre]
    | cons y ys =>
      by_cases h : x = y
      · subst h; simp [stripPre, ih]
      · have h' : ¬ y = x := fun e => h e.symm
        simp [stripPre, h, h']

theorem stripSuf_spec (a b : Seq) :
    ∃ q, a = q ++ (stripSuf a b).1 ∧ b = q ++ (stripSuf a b).2 := by
  induction a generalizing b with
  | nil => exact ⟨[], by simp [stripSuf], by simp [stripSuf]⟩
  | cons x xs ih =>
    cases b with
    | nil => exact ⟨[], by simp [stripSuf], by simp [stripSuf]⟩
    | cons y ys =>
      by_cases h : (xs ≠ [] ∨ ys ≠ []) ∧ x = y
      · obtain ⟨q, h1, h2⟩ := ih ys
        refine ⟨x :: q, ?_, ?_⟩ <;> simp only [stripSuf, h, and_self, ↓reduceIte]
        · simpa using h1
        · simpa using h2
      · exact ⟨[], by simp [stripSuf, h], by simp [stripSuf, h]⟩

theorem stripSuf_cons_pos {x y : UInt8} {xs ys : Seq} (h : (xs ≠ [] ∨ ys ≠ []) ∧ x = y) :
    stripSuf (x :: xs) (y :: ys) = stripSuf xs ys := by rw [stripSuf, if_pos h]

theorem stripSuf_cons_neg {x y : UInt8} {xs ys : Seq} (h : ¬ ((xs ≠ [] ∨ ys ≠ []) ∧ x = y)) :
    stripSuf (x :: xs) (y :: ys) = (x :: xs, y :: ys) := by rw [stripSuf, if_neg h]

theorem stripSuf_swap (a b : Seq) : stripSuf b a = ((stripSuf a b).2, (stripSuf a b).1) := by
  induction a generalizing b with
  | nil => cases b <;> rfl
  | cons x xs ih =>
    cases b with
    | nil => rfl
    | cons y ys =>
      by_cases h : (xs ≠ [] ∨ ys ≠ []) ∧ x = y
      · have h' : (ys ≠ [] ∨ xs ≠ []) ∧ y = x := ⟨h.1.symm, h.2.symm⟩
        rw [stripSuf_cons_pos h, stripSuf_cons_pos h']; exact ih ys
      · have h' : ¬ ((ys ≠ [] ∨ xs ≠ []) ∧ y = x) := fun e => h ⟨e.1.symm, e.2.symm⟩
        rw [stripSuf_cons_neg h, stripSuf_cons_neg h']

/-! ## `d1F` : soundness of the verdict 1 -/

theorem len_le_one_cases (l : Seq) (h : l.length ≤ 1) : l = [] ∨ ∃ x, l = [x] := by
  match l, h with
  | [], _ => exact .inl rfl
  | [x], _ => exact .inr ⟨x, rfl⟩
  | _ :: _ :: _, h => simp at h

theorem d1Fin_bad {la lb lr : Nat} {s : Seq × Seq} (h : d1Bad la lb s = true) :
    d1Fin la lb lr s = ⟨-1, -1, 0, 0⟩ := by simp [d1Fin, h]

theorem d1Fin_good {la lb lr : Nat} {s : Seq × Seq} (h : d1Bad la lb s = false) :
    d1Fin la lb lr s = ⟨1, ((la - lr + max s.1.length s.2.length : Nat) : Int) - 1,
      if s.2.length ≤ s.1.length then s.1.headD 45 else 45,
      if s.1.length ≤ s.2.length then s.2.headD 45 else 45⟩ := by simp [d1Fin, h]

theorem d1Fin_sound (a b p q : Seq) (r s : Seq × Seq)
    (ha : a = p ++ r.1) (hb : b = p ++ r.2)
    (hne : ∀ x y xs ys, r.1 = x :: xs → r.2 = y :: ys → x ≠ y)
    (e1 : r.1 = s.1.reverse ++ q.reverse) (e2 : r.2 = s.2.reverse ++ q.reverse)
    (hnil : ¬ (r.1 = [] ∧ r.2 = []))
    (h : (d1Fin a.length b.length r.1.length s).verdict = 1) :
    ∃ n : Nat, (d1Fin a.length b.length r.1.length s).pos = (n : Int) ∧
      OneEdit a b n (d1Fin a.length b.length r.1.length s).a1 (d1Fin a.length b.length r.1.length s).a2 := by
  obtain ⟨s1, s2⟩ := s
  simp only at e1 e2
  have la : a.length = p.length + r.1.length := by have := congrArg List.length ha; simpa using this
  have lb : b.length = p.length + r.2.length := by have := congrArg List.length hb; simpa using this
  have l1 : r.1.length = s1.length + q.length := by have := congrArg List.length e1; simpa using this
  have l2 : r.2.length = s2.length + q.length := by have := congrArg List.length e2; simpa using this
  cases hbad : d1Bad a.length b.length (s1, s2) with
  | true => rw [d1Fin_bad hbad] at h; simp at h
  | false =>
  rw [d1Fin_good hbad]
  simp only
  unfold d1Bad at hbad
  simp only at hbad
  rcases Nat.lt_trichotomy a.length b.length with hlt | heq | hgt
  · -- insertion
    have hn1 : ¬ a.length = b.length := by omega
    have hn2 : ¬ a.length > b.length := by omega
    rw [if_neg hn1, if_neg hn2] at hbad
    have hb2 : s2.length ≤ 1 := by simpa using hbad
    have h1 : s1 = [] := by
      apply List.eq_nil_of_length_eq_zero; omega
    subst h1
    rcases len_le_one_cases _ hb2 with h2 | ⟨y, h2⟩
    · subst h2; simp at l1 l2; omega
    · subst h2
      simp at e1 e2
      refine ⟨p.length, ?_, ?_⟩
      · simp; rw [la, e1]; simp
      · simp
        exact .ins p q.reverse (by rw [ha, e1]) (by rw [hb, e2]) rfl rfl
  · rw [if_pos heq] at hbad
    have hb2 : s1.length ≤ 1 ∧ s2.length ≤ 1 := by
      simp at hbad; omega
    rcases len_le_one_cases _ hb2.1 with h1 | ⟨x, h1⟩ <;> rcases len_le_one_cases _ hb2.2 with h2 | ⟨y, h2⟩
    · exfalso
      subst h1; subst h2
      simp at e1 e2
      rcases hr : r.1 with _ | ⟨c, t⟩
      · exact hnil ⟨hr, by rw [e2, ← e1, hr]⟩
      · exact hne c c t t hr (by rw [e2, ← e1, hr]) rfl
    · subst h1; subst h2; simp at l1 l2; omega
    · subst h1; subst h2; simp at l1 l2; omega
    · subst h1; subst h2
      simp at e1 e2
      refine ⟨p.length, ?_, ?_⟩
      · simp; rw [la, e1]; simp
      · simp
        exact .subst p q.reverse (by rw [ha, e1]) (by rw [hb, e2]) (hne x y _ _ e1 e2) rfl
  · have hn1 : ¬ a.length = b.length := by omega
    rw [if_neg hn1, if_pos hgt] at hbad
    have hb1 : s1.length ≤ 1 := by simpa using hbad
    have h2 : s2 = [] := by
      apply List.eq_nil_of_length_eq_zero; omega
    subst h2
    rcases len_le_one_cases _ hb1 with h1 | ⟨x, h1⟩
    · subst h1; simp at l1 l2; omega
    · subst h1
      simp at e1 e2
      refine ⟨p.length, ?_, ?_⟩
      · simp; rw [la, e1]; simp
      · simp
        exact .del p q.reverse (by rw [ha, e1]) (by rw [hb, e2]) rfl rfl

theorem d1F_one_sound (a b : Seq) (h : (d1F a b).verdict = 1) :
    ∃ n : Nat, (d1F a b).pos = (n : Int) ∧ OneEdit a b n (d1F a b).a1 (d1F a b).a2 := by
  obtain ⟨p, ha, hb, hne⟩ := stripPre_spec a b
  obtain ⟨q, hq1, hq2⟩ := stripSuf_spec (stripPre a b).1.reverse (stripPre a b).2.reverse
  have e1 := congrArg List.reverse hq1
  have e2 := congrArg List.reverse hq2
  simp only [List.reverse_reverse, List.reverse_append] at e1 e2
  unfold d1F at h ⊢
  split at h
  · simp at h
  rename_i hlen
  rw [if_neg hlen]
  unfold d1Mid at h ⊢
  split at h
  · simp at h
  rename_i hnil
  rw [if_neg hnil]
  exact d1Fin_sound a b p q _ _ ha hb hne e1 e2 hnil h

theorem d1F_zero_iff (a b : Seq) : (d1F a b).verdict = 0 ↔ a = b := by
  constructor
  · intro h
    obtain ⟨p, ha, hb, _⟩ := stripPre_spec a b
    unfold d1F at h
    split at h
    · simp at h
    unfold d1Mid at h
    split at h
    · rename_i h0
      rw [h0.1] at ha; rw [h0.2] at hb
      rw [ha, hb]
    · exfalso
      unfold d1Fin at h
      split at h <;> simp at h
  · intro h
    subst h
    have : ¬ (a.length > a.length + 1 ∨ a.length > a.length + 1) := by omega
    unfold d1F
    rw [if_neg this]
    simp [d1Mid, stripPre_self]

theorem d1F_verdict_cases (a b : Seq) :
    (d1F a b).verdict = 0 ∨ (d1F a b).verdict = 1 ∨ d1F a b = ⟨-1, -1, 0, 0⟩ := by
  unfold d1F
  split
  · simp
  unfold d1Mid
  split
  · simp
  unfold d1Fin
  split <;> simp

theorem d1F_zero_out (a b : Seq) (h : (d1F a b).verdict = 0) : d1F a b = ⟨0, -1, 0, 0⟩ := by
  unfold d1F at h ⊢
  split at h
  · simp at h
  rename_i hlen
  rw [if_neg hlen]
  unfold d1Mid at h ⊢
  split at h
  · rename_i h0; rw [if_pos h0]
  · exfalso
    unfold d1Fin at h
    split at h <;> simp at h

/-! ## completeness of the verdict 1 -/

theorem stripPre_append (p u v : Seq) : stripPre (p ++ u) (p ++ v) = stripPre u v := by
  induction p with
  | nil => rfl
  | cons c p ih => simp [stripPre, ih]

theorem stripSuf_snoc_ne (t : Seq) (x y : UInt8) : stripSuf (t ++ [x]) (t ++ [y]) = ([x], [y]) := by
  induction t with
  | nil => simp [stripSuf]
  | cons c t ih =>
    have h : ((t ++ [x]) ≠ [] ∨ (t ++ [y]) ≠ []) ∧ c = c := ⟨.inl (by simp), rfl⟩
    simp only [List.cons_append]
    rw [stripSuf_cons_pos h, ih]

theorem stripSuf_snoc_del (t : Seq) (z : UInt8) : stripSuf (t ++ [z]) t = ([z], []) := by
  induction t with
  | nil => rfl
  | cons c t ih =>
    have h : ((t ++ [z]) ≠ [] ∨ t ≠ []) ∧ c = c := ⟨.inl (by simp), rfl⟩
    simp only [List.cons_append]
    rw [stripSuf_cons_pos h, ih]

theorem stripPre_del (x : UInt8) (w : Seq) : ∃ z w', stripPre (x :: w) w = (z :: w', w') := by
  induction w generalizing x with
  | nil => exact ⟨x, [], rfl⟩
  | cons y w ih =>
    by_cases h : x = y
    · subst h
      obtain ⟨z, w', e⟩ := ih x
      exact ⟨z, w', by simp [stripPre, e]⟩
    · exact ⟨x, y :: w, by simp [stripPre, h]⟩

theorem d1F_subst (p s : Seq) (x y : UInt8) (hne : x ≠ y) : (d1F (p ++ x :: s) (p ++ y :: s)).verdict = 1 := by
  have hl : ¬ ((p ++ x :: s).length > (p ++ y :: s).length + 1 ∨ (p ++ y :: s).length > (p ++ x :: s).length + 1) := by
    simp
  unfold d1F
  rw [if_neg hl, stripPre_append]
  have : stripPre (x :: s) (y :: s) = (x :: s, y :: s) := by simp [stripPre, hne]
  rw [this]
  unfold d1Mid
  simp only [List.reverse_cons]
  rw [stripSuf_snoc_ne]
  simp [d1Fin, d1Bad]

theorem d1F_del (p s : Seq) (x : UInt8) : (d1F (p ++ x :: s) (p ++ s)).verdict = 1 := by
  have hl : ¬ ((p ++ x :: s).length > (p ++ s).length + 1 ∨ (p ++ s).length > (p ++ x :: s).length + 1) := by
    simp; omega
  unfold d1F
  rw [if_neg hl, stripPre_append]
  obtain ⟨z, w', e⟩ := stripPre_del x s
  rw [e]
  unfold d1Mid
  simp only [List.reverse_cons]
  rw [stripSuf_snoc_del]
  simp [d1Fin, d1Bad]

/-! ## symmetry -/

theorem d1Bad_swap (la lb : Nat) (s : Seq × Seq) : d1Bad lb la (s.2, s.1) = d1Bad la lb s := by
  unfold d1Bad
  rcases Nat.lt_trichotomy la lb with h | h | h
  · have h1 : ¬ lb = la := by omega
    have h2 : lb > la := h
    have h3 : ¬ la = lb := by omega
    have h4 : ¬ la > lb := by omega
    simp only [if_neg h1, if_pos h2, if_neg h3, if_neg h4]
  · subst h
    simp only [if_true, or_comm]
  · have h1 : ¬ lb = la := by omega
    have h2 : ¬ lb > la := by omega
    have h3 : ¬ la = lb := by omega
    simp only [if_neg h1, if_neg h2, if_neg h3, if_pos h]

theorem d1F_symm (a b : Seq) :
    d1F b a = ⟨(d1F a b).verdict, (d1F a b).pos, (d1F a b).a2, (d1F a b).a1⟩ := by
  obtain ⟨p, ha, hb, _⟩ := stripPre_spec a b
  have la : a.length = p.length + (stripPre a b).1.length := by have := congrArg List.length ha; simpa using this
  have lb : b.length = p.length + (stripPre a b).2.length := by have := congrArg List.length hb; simpa using this
  unfold d1F
  by_cases hlen : a.length > b.length + 1 ∨ b.length > a.length + 1
  · rw [if_pos hlen, if_pos (Or.symm hlen)]
  · rw [if_neg hlen, if_neg (fun h => hlen (Or.symm h))]
    rw [stripPre_swap a b]
    unfold d1Mid
    simp only
    by_cases hnil : (stripPre a b).1 = [] ∧ (stripPre a b).2 = []
    · rw [if_pos hnil, if_pos (And.symm hnil)]
    · rw [if_neg hnil, if_neg (fun h => hnil (And.symm h))]
      rw [stripSuf_swap]
      generalize stripSuf (stripPre a b).1.reverse (stripPre a b).2.reverse = s
      unfold d1Fin
      rw [d1Bad_swap]
      cases d1Bad a.length b.length s with
      | true => simp
      | false =>
        simp only [Bool.false_eq_true, if_false, D1.mk.injEq, true_and, and_true]
        rw [Nat.max_comm]
        have : b.length - (stripPre a b).2.length = a.length - (stripPre a b).1.length := by omega
        rw [this]

/-! ## edit distance -/

theorem OneEdit.swap {a b : Seq} {n : Nat} {x y : UInt8} (h : OneEdit a b n x y) : OneEdit b a n y x := by
  cases h with
  | subst p s ha hb hne hp => exact .subst p s hb ha (fun e => hne e.symm) hp
  | del p s ha hb hy hp => exact .ins p s hb ha hy hp
  | ins p s ha hb hx hp => exact .del p s hb ha hx hp

theorem OneEdit.cons {a b : Seq} {n : Nat} {x y : UInt8} (c : UInt8) (h : OneEdit a b n x y) :
    OneEdit (c :: a) (c :: b) (n + 1) x y := by
  cases h with
  | subst p s ha hb hne hp => exact .subst (c :: p) s (by simp [ha]) (by simp [hb]) hne (by simp [hp])
  | del p s ha hb hy hp => exact .del (c :: p) s (by simp [ha]) (by simp [hb]) hy (by simp [hp])
  | ins p s ha hb hx hp => exact .ins (c :: p) s (by simp [ha]) (by simp [hb]) hx (by simp [hp])

theorem OneEdit.ne {a b : Seq} {n : Nat} {x y : UInt8} (h : OneEdit a b n x y) : a ≠ b := by
  intro e
  cases h with
  | subst p s ha hb hne hp =>
    rw [ha, hb] at e
    have := List.append_cancel_left e
    simp at this; exact hne this
  | del p s ha hb hy hp => have := congrArg List.length e; rw [ha, hb] at this; simp at this
  | ins p s ha hb hx hp => have := congrArg List.length e; rw [ha, hb] at this; simp at this

theorem lev_cons_cons (x y : UInt8) (as bs : Seq) :
    lev (x :: as) (y :: bs) =
      min (min (lev as bs + (if x = y then 0 else 1)) (lev as (y :: bs) + 1)) (lev (x :: as) bs + 1) := by
  rw [lev]

theorem lev_zero_iff (a b : Seq) : lev a b = 0 ↔ a = b := by
  induction a generalizing b with
  | nil => cases b <;> simp [lev]
  | cons x as ih =>
    cases b with
    | nil => simp [lev]
    | cons y bs =>
      rw [lev_cons_cons]
      constructor
      · intro h
        have h1 : lev as bs + (if x = y then 0 else 1) = 0 := by omega
        by_cases hxy : x = y
        · rw [if_pos hxy] at h1
          rw [hxy, (ih bs).1 (by omega)]
        · rw [if_neg hxy] at h1; omega
      · intro h
        injection h with h1 h2
        have := (ih bs).2 h2
        rw [if_pos h1, this]; omega

theorem lev_self (a : Seq) : lev a a = 0 := (lev_zero_iff a a).2 rfl

theorem lev_one_exists (a b : Seq) (h : lev a b = 1) : ∃ n x y, OneEdit a b n x y := by
  induction a generalizing b with
  | nil =>
    rw [lev] at h
    match b, h with
    | [y], _ => exact ⟨0, 45, y, .ins [] [] rfl rfl rfl rfl⟩
  | cons x as ih =>
    cases b with
    | nil =>
      rw [lev] at h
      have : as = [] := List.eq_nil_of_length_eq_zero (by omega)
      subst this
      exact ⟨0, x, 45, .del [] [] rfl rfl rfl rfl⟩
    | cons y bs =>
      rw [lev_cons_cons] at h
      have h3 : lev as bs + (if x = y then 0 else 1) = 1 ∨ lev as (y :: bs) = 0 ∨ lev (x :: as) bs = 0 := by omega
      rcases h3 with h1 | h1 | h1
      · by_cases hxy : x = y
        · rw [if_pos hxy] at h1
          obtain ⟨n, x', y', he⟩ := ih bs (by omega)
          subst hxy
          exact ⟨n + 1, x', y', he.cons x⟩
        · rw [if_neg hxy] at h1
          have := (lev_zero_iff as bs).1 (by omega)
          subst this
          exact ⟨0, x, y, .subst [] as rfl rfl hxy rfl⟩
      · have := (lev_zero_iff _ _).1 h1
        exact ⟨0, x, 45, .del [] (y :: bs) (by rw [this]; rfl) rfl rfl rfl⟩
      · have := (lev_zero_iff _ _).1 h1
        exact ⟨0, 45, y, .ins [] (x :: as) rfl (by rw [← this]; rfl) rfl rfl⟩

theorem lev_cons_le (c : UInt8) (as bs : Seq) : lev (c :: as) (c :: bs) ≤ lev as bs := by
  rw [lev_cons_cons, if_pos rfl]; omega

theorem lev_del_le (x : UInt8) (s : Seq) : lev (x :: s) s ≤ 1 := by
  cases s with
  | nil => simp [lev]
  | cons y bs =>
    rw [lev_cons_cons, lev_self]; omega

theorem lev_ins_le (y : UInt8) (s : Seq) : lev s (y :: s) ≤ 1 := by
  cases s with
  | nil => simp [lev]
  | cons x as =>
    rw [lev_cons_cons, lev_self]; omega

theorem lev_append_le (p u v : Seq) : lev (p ++ u) (p ++ v) ≤ lev u v := by
  induction p with
  | nil => exact Nat.le_refl _
  | cons c p ih => exact Nat.le_trans (lev_cons_le c _ _) ih

theorem OneEdit.lev_le {a b : Seq} {n : Nat} {x y : UInt8} (h : OneEdit a b n x y) : lev a b ≤ 1 := by
  cases h with
  | subst p s ha hb hne hp =>
    rw [ha, hb]
    refine Nat.le_trans (lev_append_le p _ _) ?_
    rw [lev_cons_cons, lev_self, if_neg hne]; omega
  | del p s ha hb hy hp => rw [ha, hb]; exact Nat.le_trans (lev_append_le p _ _) (lev_del_le x s)
  | ins p s ha hb hx hp => rw [ha, hb]; exact Nat.le_trans (lev_append_le p _ _) (lev_ins_le y s)

/-- edit distance exactly one = exactly one edit turns `a` into `b` -/
theorem lev_one_iff (a b : Seq) : lev a b = 1 ↔ ∃ n x y, OneEdit a b n x y := by
  constructor
  · exact lev_one_exists a b
  · rintro ⟨n, x, y, h⟩
    have h1 := h.lev_le
    have h2 : lev a b ≠ 0 := fun e => h.ne ((lev_zero_iff a b).1 e)
    omega

theorem d1F_complete {a b : Seq} {n : Nat} {x y : UInt8} (h : OneEdit a b n x y) : (d1F a b).verdict = 1 := by
  cases h with
  | subst p s ha hb hne hp => rw [ha, hb]; exact d1F_subst p s x y hne
  | del p s ha hb hy hp => rw [ha, hb]; exact d1F_del p s x
  | ins p s ha hb hx hp =>
    rw [d1F_symm b a, ha, hb]; exact d1F_del p s y

/-! ## the packed cell -/

theorem toNat_encode (s l : Nat) (o : Bool) (hs : s < 65536) (hl : l ≤ 65534) :
    (encodeValues s l o).toNat = (if o then 0 else 4294967296) + s * 65536 + (65534 - l) := by
  have hA : (UInt64.ofNat s <<< 16).toNat = s <<< 16 := by
    rw [UInt64.toNat_shiftLeft, UInt64.toNat_ofNat_of_lt' (by simp [UInt64.size]; omega)]
    have : (16 : UInt64).toNat % 64 = 16 := by decide
    rw [this, Nat.shiftLeft_eq]
    apply Nat.mod_eq_of_lt; omega
  have hB : ((~~~UInt64.ofNat l - 1) &&& mask).toNat = 65534 - l := by
    rw [UInt64.toNat_and, UInt64.toNat_sub, UInt64.toNat_not, UInt64.toNat_ofNat_of_lt' (by simp [UInt64.size]; omega)]
    have h1 : mask.toNat = 2 ^ 16 - 1 := by decide
    have h2 : (1 : UInt64).toNat = 1 := by decide
    rw [h1, h2, Nat.and_two_pow_sub_one_eq_mod]
    simp only [UInt64.size]
    omega
  have hAB : ((UInt64.ofNat s <<< 16) ||| ((~~~UInt64.ofNat l - 1) &&& mask)).toNat = s * 65536 + (65534 - l) := by
    rw [UInt64.toNat_or, hA, hB, ← Nat.shiftLeft_add_eq_or_of_lt (by omega), Nat.shiftLeft_eq]
  unfold encodeValues
  cases o with
  | true => simp only [Bool.not_true, Bool.false_eq_true, if_false, if_true]; rw [hAB]; omega
  | false =>
    simp only [Bool.not_false, if_true, Bool.false_eq_true, if_false]
    rw [UInt64.toNat_or, hAB]
    have h3 : inbit.toNat = 2 ^ 32 * 1 := by decide
    rw [h3, Nat.or_comm, ← Nat.two_pow_add_eq_or_of_lt (by omega)]
    omega

theorem lt_two_pow_of_le {r i : Nat} (hr : r < 2 ^ 32) (hi : 32 ≤ i) : r < 2 ^ i :=
  Nat.lt_of_lt_of_le hr (Nat.pow_le_pow_right (by decide) hi)

/-- clearing bit 32 of a word below 2^33 -/
theorem nat_clear_bit32 (r : Nat) (hr : r < 2 ^ 32) :
    r &&& (2 ^ 64 - (2 ^ 32 + 1)) = r ∧ (2 ^ 32 + r) &&& (2 ^ 64 - (2 ^ 32 + 1)) = r := by
  have hM : ∀ i, (2 ^ 64 - (2 ^ 32 + 1)).testBit i = (decide (i < 64) && !decide (32 = i)) := by
    intro i
    rw [Nat.testBit_two_pow_sub_succ (by decide), Nat.testBit_two_pow]
  constructor
  · apply Nat.eq_of_testBit_eq
    intro i
    rw [Nat.testBit_and, hM]
    by_cases h : i < 32
    · have h1 : i < 64 := by omega
      have h2 : ¬ 32 = i := by omega
      simp [h1, h2]
    · rw [Nat.testBit_lt_two_pow (lt_two_pow_of_le hr (by omega))]; simp
  · apply Nat.eq_of_testBit_eq
    intro i
    rw [Nat.testBit_and, hM]
    by_cases h : i < 32
    · have h1 : i < 64 := by omega
      have h2 : ¬ 32 = i := by omega
      rw [Nat.testBit_two_pow_add_gt h]
      simp [h1, h2]
    · by_cases h3 : i = 32
      · subst h3; simp [Nat.testBit_lt_two_pow hr]
      · have hlt : 2 ^ 32 + r < 2 ^ i := by
          have : 2 ^ 33 ≤ 2 ^ i := Nat.pow_le_pow_right (by decide) (by omega)
          omega
        rw [Nat.testBit_lt_two_pow hlt, Nat.testBit_lt_two_pow (lt_two_pow_of_le hr (by omega))]
        simp

/-- complementing the low 16 bits -/
theorem nat_xor_mask16 (y : Nat) (hy : y < 2 ^ 16) : (y ^^^ (2 ^ 16 - 1)) = 2 ^ 16 - (y + 1) := by
  apply Nat.eq_of_testBit_eq
  intro i
  rw [Nat.testBit_xor, Nat.testBit_two_pow_sub_one, Nat.testBit_two_pow_sub_succ hy]
  by_cases h : i < 16
  · simp [h]
  · have : y < 2 ^ i := Nat.lt_of_lt_of_le hy (Nat.pow_le_pow_right (by decide) (by omega))
    simp [h, Nat.testBit_lt_two_pow this]

theorem incpath_encode (s l : Nat) (o : Bool) (hs : s < 65536) (hl : l + 1 ≤ 65534) :
    incpath (encodeValues s l o) = encodeValues s (l + 1) o := by
  apply UInt64.toNat.inj
  have h1 := toNat_encode s l o hs (by omega)
  have h2 := toNat_encode s (l + 1) o hs hl
  unfold incpath
  rw [UInt64.toNat_sub_of_le _ _ (by rw [UInt64.le_iff_toNat_le, h1]; show 1 ≤ _; omega), h1, h2]
  show _ - 1 = _
  omega

theorem incscore_encode (s l : Nat) (o : Bool) (hs : s + 1 < 65536) (hl : l ≤ 65534) :
    incscore (encodeValues s l o) = encodeValues (s + 1) l o := by
  apply UInt64.toNat.inj
  have h1 := toNat_encode s l o (by omega) hl
  have h2 := toNat_encode (s + 1) l o hs hl
  unfold incscore
  rw [UInt64.toNat_add, h1, h2]
  have : (0x10000 : UInt64).toNat = 65536 := by decide
  rw [this]
  split <;> omega

theorem setout_encode (s l : Nat) (o : Bool) (hs : s < 65536) (hl : l ≤ 65534) :
    setout (encodeValues s l o) = encodeValues s l true := by
  apply UInt64.toNat.inj
  have h1 := toNat_encode s l o hs hl
  have h2 := toNat_encode s l true hs hl
  unfold setout
  have hm : (~~~inbit).toNat = 2 ^ 64 - (2 ^ 32 + 1) := by decide
  rw [UInt64.toNat_and, hm, h1, h2]
  have hr : s * 65536 + (65534 - l) < 2 ^ 32 := by omega
  have := nat_clear_bit32 _ hr
  cases o with
  | true => simp only [if_true, Nat.zero_add]; exact this.1
  | false =>
    simp only [Bool.false_eq_true, if_false, if_true, Nat.zero_add]
    rw [Nat.add_assoc]; exact this.2

theorem nat_and_bit32 (x : Nat) : x &&& 2 ^ 32 = if x.testBit 32 then 2 ^ 32 else 0 := by
  apply Nat.eq_of_testBit_eq
  intro i
  rw [Nat.testBit_and, Nat.testBit_two_pow]
  by_cases h : 32 = i
  · subst h
    cases hx : x.testBit 32 with
    | false => simp only [Bool.false_and, Bool.false_eq_true, if_false, Nat.zero_testBit]
    | true => simp only [Bool.true_and, if_true]; rw [Nat.testBit_two_pow]; rfl
  · have hd : decide (32 = i) = false := by simp [h]
    rw [hd, Bool.and_false]
    cases hx : x.testBit 32 with
    | false => simp only [Bool.false_eq_true, if_false, Nat.zero_testBit]
    | true => simp only [if_true]; rw [Nat.testBit_two_pow, hd]

theorem decode_encode (s l : Nat) (o : Bool) (hs : s < 65536) (hl : l ≤ 65534) :
    decodeValues (encodeValues s l o) = (s, l, o) := by
  have h1 := toNat_encode s l o hs hl
  have hmask : mask.toNat = 2 ^ 16 - 1 := by decide
  unfold decodeValues
  refine Prod.ext ?_ (Prod.ext ?_ ?_)
  · show ((encodeValues s l o >>> 16) &&& mask).toNat = s
    rw [UInt64.toNat_and, UInt64.toNat_shiftRight, hmask, Nat.and_two_pow_sub_one_eq_mod, h1]
    have : (16 : UInt64).toNat % 64 = 16 := by decide
    rw [this, Nat.shiftRight_eq_div_pow]
    cases o <;> simp <;> omega
  · show (((encodeValues s l o + 1) ^^^ mask) &&& mask).toNat = l
    rw [UInt64.toNat_and, UInt64.toNat_xor, UInt64.toNat_add, hmask, Nat.and_two_pow_sub_one_eq_mod,
      Nat.xor_mod_two_pow, h1]
    have h1' : (1 : UInt64).toNat = 1 := by decide
    rw [h1']
    have e : ((if o = true then 0 else 4294967296) + s * 65536 + (65534 - l) + 1) % 2 ^ 64 % 2 ^ 16 = 65535 - l := by
      cases o <;> simp <;> omega
    rw [e]
    have e2 : (2 ^ 16 - 1) % 2 ^ 16 = 2 ^ 16 - 1 := by decide
    rw [e2, nat_xor_mask16 _ (by omega)]
    omega
  · show ((encodeValues s l o &&& inbit) == 0) = o
    have hb : inbit.toNat = 2 ^ 32 := by decide
    have hr : s * 65536 + (65534 - l) < 2 ^ 32 := by omega
    have hz : (encodeValues s l o &&& inbit).toNat = if o then 0 else 2 ^ 32 := by
      rw [UInt64.toNat_and, hb, h1, nat_and_bit32]
      cases o with
      | true => simp only [if_true, Nat.zero_add]; rw [Nat.testBit_lt_two_pow hr]; rfl
      | false =>
        simp only [Bool.false_eq_true, if_false]
        rw [Nat.add_assoc, show (4294967296 : Nat) = 2 ^ 32 from rfl, Nat.testBit_two_pow_add_eq,
          Nat.testBit_lt_two_pow hr]; rfl
    cases o with
    | true =>
      have : encodeValues s l true &&& inbit = 0 := UInt64.toNat.inj (by rw [hz]; rfl)
      rw [this]; rfl
    | false =>
      have hne : ¬ (encodeValues s l false &&& inbit) = 0 := by
        intro e; rw [e] at hz; simp at hz
      simp [hne]

/-- order of two packed cells with the same flag: lexicographic on (score, shorter length first) -/
theorem encode_le_iff (s l s' l' : Nat) (o : Bool) (hs : s < 65536) (hs' : s' < 65536) (hl : l ≤ 65534) (hl' : l' ≤ 65534) :
    encodeValues s l o ≤ encodeValues s' l' o ↔ (s < s' ∨ (s = s' ∧ l' ≤ l)) := by
  rw [UInt64.le_iff_toNat_le, toNat_encode s l o hs hl, toNat_encode s' l' o hs' hl']
  omega

/-- an out-of-band cell is smaller than every in-band cell -/
theorem encode_out_lt_in (s l s' l' : Nat) (hs : s < 65536) (hs' : s' < 65536) (hl : l ≤ 65534) (hl' : l' ≤ 65534) :
    encodeValues s l true < encodeValues s' l' false := by
  rw [UInt64.lt_iff_toNat_lt, toNat_encode s l true hs hl, toNat_encode s' l' false hs' hl']
  simp only [if_true, Bool.false_eq_true, if_false]
  omega

/-! ## alignments and the textbook recurrence -/

theorem better_iff (p q : Nat × Nat) : better p q = true ↔ (p.1 > q.1 ∨ (p.1 = q.1 ∧ p.2 ≤ q.2)) := by
  simp [better]

theorem best2_cases (p q : Nat × Nat) : best2 p q = p ∨ best2 p q = q := by
  unfold best2; split <;> simp

theorem best2_left (p q : Nat × Nat) : better (best2 p q) p = true := by
  unfold best2; split
  · rw [better_iff]; omega
  · rename_i h
    rw [better_iff] at h ⊢; omega

theorem best2_right (p q : Nat × Nat) : better (best2 p q) q = true := by
  unfold best2; split
  · assumption
  · rw [better_iff]; omega

theorem better_trans {p q r : Nat × Nat} (h1 : better p q = true) (h2 : better q r = true) : better p r = true := by
  rw [better_iff] at *; omega

variable (m : UInt8 → UInt8 → Bool)

theorem Ali.nil_left : ∀ b : Seq, Ali m [] b 0 b.length
  | [] => .nil
  | y :: bs => .gapA y (Ali.nil_left bs)

theorem Ali.nil_right : ∀ a : Seq, Ali m a [] 0 a.length
  | [] => .nil
  | x :: as => .gapB x (Ali.nil_right as)

theorem Ali.of_nil_left {b : Seq} {s l : Nat} (h : Ali m [] b s l) : s = 0 ∧ l = b.length := by
  induction b generalizing s l with
  | nil => cases h; exact ⟨rfl, rfl⟩
  | cons y bs ih =>
    cases h with
    | gapA _ h' => have := ih h'; simp; omega

theorem Ali.of_nil_right {a : Seq} {s l : Nat} (h : Ali m a [] s l) : s = 0 ∧ l = a.length := by
  induction a generalizing s l with
  | nil => cases h; exact ⟨rfl, rfl⟩
  | cons x as ih =>
    cases h with
    | gapB _ h' => have := ih h'; simp; omega

/-- **the textbook recurrence computes the optimum**: `lcsDP` is achieved by an alignment, and no alignment has
a higher score, or the same score with fewer columns -/
theorem lcsDP_opt (a b : Seq) :
    Ali m a b (lcsDP m a b).1 (lcsDP m a b).2 ∧
      ∀ s l, Ali m a b s l → better (lcsDP m a b) (s, l) = true := by
  fun_induction lcsDP m a b with
  | case1 b =>
    refine ⟨Ali.nil_left m b, ?_⟩
    intro s l h
    have := Ali.of_nil_left m h
    rw [better_iff]; simp; omega
  | case2 x as =>
    refine ⟨Ali.nil_right m (x :: as), ?_⟩
    intro s l h
    have := Ali.of_nil_right m h
    rw [better_iff]; simp at this ⊢; omega
  | case3 x as y bs d u l ihd ihu ihl =>
    constructor
    · rcases best2_cases (best2 (d.1 + (if m x y then 1 else 0), d.2 + 1) (u.1, u.2 + 1)) (l.1, l.2 + 1) with h | h
      · rcases best2_cases (d.1 + (if m x y then 1 else 0), d.2 + 1) (u.1, u.2 + 1) with h' | h'
        · rw [h, h']; exact .pair x y ihd.1
        · rw [h, h']; exact .gapB x ihu.1
      · rw [h]; exact .gapA y ihl.1
    · intro s l' h
      cases h with
      | gapB _ h' =>
        have := ihu.2 _ _ h'
        refine better_trans (best2_left _ _) (better_trans (best2_right _ _) ?_)
        rw [better_iff] at this ⊢; simp at this ⊢; omega
      | gapA _ h' =>
        have := ihl.2 _ _ h'
        refine better_trans (best2_right _ _) ?_
        rw [better_iff] at this ⊢; simp at this ⊢; omega
      | pair _ _ h' =>
        have := ihd.2 _ _ h'
        refine better_trans (best2_left _ _) (better_trans (best2_left _ _) ?_)
        rw [better_iff] at this ⊢; simp at this ⊢; omega

theorem Ali.snocB {a b : Seq} {s l : Nat} (x : UInt8) (h : Ali m a b s l) : Ali m (a ++ [x]) b s (l + 1) := by
  induction h with
  | nil => exact .gapB x .nil
  | gapB x' _ ih => exact .gapB x' ih
  | gapA y' _ ih => exact .gapA y' ih
  | pair x' y' _ ih => exact .pair x' y' ih

theorem Ali.snocA {a b : Seq} {s l : Nat} (y : UInt8) (h : Ali m a b s l) : Ali m a (b ++ [y]) s (l + 1) := by
  induction h with
  | nil => exact .gapA y .nil
  | gapB x' _ ih => exact .gapB x' ih
  | gapA y' _ ih => exact .gapA y' ih
  | pair x' y' _ ih => exact .pair x' y' ih

theorem Ali.snocPair {a b : Seq} {s l : Nat} (x y : UInt8) (h : Ali m a b s l) :
    Ali m (a ++ [x]) (b ++ [y]) (s + (if m x y then 1 else 0)) (l + 1) := by
  induction h with
  | nil => have := Ali.pair (m := m) x y .nil; simpa using this
  | gapB x' _ ih => exact .gapB x' ih
  | gapA y' _ ih => exact .gapA y' ih
  | @pair x' y' a' b' s' l' _ ih =>
    have := Ali.pair (m := m) x' y' ih
    have e : s' + (if m x y then 1 else 0) + (if m x' y' then 1 else 0) = s' + (if m x' y' then 1 else 0) + (if m x y then 1 else 0) := by omega
    rw [e] at this; exact this

theorem Ali.reverse {a b : Seq} {s l : Nat} (h : Ali m a b s l) : Ali m a.reverse b.reverse s l := by
  induction h with
  | nil => exact .nil
  | gapB x _ ih => rw [List.reverse_cons]; exact ih.snocB m x
  | gapA y _ ih => rw [List.reverse_cons]; exact ih.snocA m y
  | pair x y _ ih => rw [List.reverse_cons, List.reverse_cons]; exact ih.snocPair m x y

theorem Ali.of_reverse {a b : Seq} {s l : Nat} (h : Ali m a.reverse b.reverse s l) : Ali m a b s l := by
  have := h.reverse m; simpa using this

theorem Ali.swap {a b : Seq} {s l : Nat} (h : Ali m a b s l) : Ali (fun x y => m y x) b a s l := by
  induction h with
  | nil => exact .nil
  | gapB x _ ih => exact .gapA x ih
  | gapA y _ ih => exact .gapB y ih
  | pair x y _ ih => exact .pair (m := fun x y => m y x) y x ih

theorem Ali.bounds {a b : Seq} {s l : Nat} (h : Ali m a b s l) :
    s ≤ a.length ∧ s ≤ b.length ∧ l ≤ a.length + b.length ∧ a.length ≤ l ∧ b.length ≤ l ∧ s ≤ l := by
  induction h with
  | nil => simp
  | gapB x _ ih => simp; omega
  | gapA y _ ih => simp; omega
  | pair x y _ ih => simp; split <;> omega

theorem samenuc_comm (x y : UInt8) : samenuc x y = samenuc y x := by
  unfold samenuc
  simp only
  by_cases h : 97 ≤ lowerAZ x ∧ lowerAZ x ≤ 122 ∧ 97 ≤ lowerAZ y ∧ lowerAZ y ≤ 122
  · have h' : 97 ≤ lowerAZ y ∧ lowerAZ y ≤ 122 ∧ 97 ≤ lowerAZ x ∧ lowerAZ x ≤ 122 := ⟨h.2.2.1, h.2.2.2, h.1, h.2.1⟩
    rw [if_pos h, if_pos h', Nat.and_comm]
  · have h' : ¬ (97 ≤ lowerAZ y ∧ lowerAZ y ≤ 122 ∧ 97 ≤ lowerAZ x ∧ lowerAZ x ≤ 122) :=
      fun e => h ⟨e.2.2.1, e.2.2.2, e.1, e.2.1⟩
    rw [if_neg h, if_neg h']
    by_cases e : lowerAZ x = lowerAZ y
    · rw [e]
    · have e' : ¬ lowerAZ y = lowerAZ x := fun h => e h.symm
      rw [beq_eq_false_iff_ne.2 e, beq_eq_false_iff_ne.2 e']

/-! ## soundness of the banded matrix -/

/-- what a cell may hold: a well-formed out-of-band word (no claim), or an in-band word whose (score, length)
is realised by an alignment of the two prefixes (given reversed) -/
def Good (pa pb : Seq) (v : UInt64) : Prop :=
  (∃ s l, v = encodeValues s l true ∧ s ≤ pa.length + pb.length ∧ l ≤ 30000 + (pa.length + pb.length)) ∨
  (∃ s l, v = encodeValues s l false ∧ Ali m pa pb s l)

theorem pick_mem (P : UInt64 → Prop) {a b c : UInt64} (ha : P a) (hb : P b) (hc : P c) : P (pick a b c).1 := by
  unfold pick; split
  · exact ha
  · split
    · exact hb
    · exact hc

theorem good_setout {pa pb : Seq} {v : UInt64} (hn : pa.length + pb.length ≤ 30000) (h : Good m pa pb v) :
    Good m pa pb (setout v) := by
  rcases h with ⟨s, l, rfl, hs, hl⟩ | ⟨s, l, rfl, ha⟩
  · rw [setout_encode s l true (by omega) (by omega)]; exact .inl ⟨s, l, rfl, hs, hl⟩
  · have := ha.bounds m
    rw [setout_encode s l false (by omega) (by omega)]; exact .inl ⟨s, l, rfl, by omega, by omega⟩

theorem good_outV (pa pb : Seq) : Good m pa pb outV := .inl ⟨0, 30000, rfl, by omega, by omega⟩

theorem good_diag {pa pb : Seq} {v : UInt64} (x y : UInt8) (hn : pa.length + pb.length + 2 ≤ 30000)
    (h : Good m pa pb v) :
    Good m (x :: pa) (y :: pb) (if m x y then incscore (incpath v) else incpath v) := by
  rcases h with ⟨s, l, rfl, hs, hl⟩ | ⟨s, l, rfl, ha⟩
  · rw [incpath_encode s l true (by omega) (by omega)]
    split
    · rw [incscore_encode s (l + 1) true (by omega) (by omega)]
      exact .inl ⟨s + 1, l + 1, rfl, by simp; omega, by simp; omega⟩
    · exact .inl ⟨s, l + 1, rfl, by simp; omega, by simp; omega⟩
  · have hb := ha.bounds m
    rw [incpath_encode s l false (by omega) (by omega)]
    have hp := Ali.pair (m := m) x y ha
    split
    · rename_i hm
      rw [incscore_encode s (l + 1) false (by omega) (by omega)]
      rw [if_pos hm] at hp
      exact .inr ⟨s + 1, l + 1, rfl, hp⟩
    · rename_i hm
      rw [if_neg hm] at hp
      exact .inr ⟨s, l + 1, rfl, hp⟩

theorem good_up {pa pb : Seq} {v : UInt64} (y : UInt8) (hn : pa.length + pb.length + 1 ≤ 30000)
    (h : Good m pa pb v) : Good m pa (y :: pb) (incpath v) := by
  rcases h with ⟨s, l, rfl, hs, hl⟩ | ⟨s, l, rfl, ha⟩
  · rw [incpath_encode s l true (by omega) (by omega)]
    exact .inl ⟨s, l + 1, rfl, by simp; omega, by simp; omega⟩
  · have hb := ha.bounds m
    rw [incpath_encode s l false (by omega) (by omega)]
    exact .inr ⟨s, l + 1, rfl, .gapA y ha⟩

theorem good_left {pa pb : Seq} {v : UInt64} (x : UInt8) (hn : pa.length + pb.length + 1 ≤ 30000)
    (h : Good m pa pb v) : Good m (x :: pa) pb (incpath v) := by
  rcases h with ⟨s, l, rfl, hs, hl⟩ | ⟨s, l, rfl, ha⟩
  · rw [incpath_encode s l true (by omega) (by omega)]
    exact .inl ⟨s, l + 1, rfl, by simp; omega, by simp; omega⟩
  · have hb := ha.bounds m
    rw [incpath_encode s l false (by omega) (by omega)]
    exact .inr ⟨s, l + 1, rfl, .gapB x ha⟩

theorem good_edge {pa pb : Seq} {v : UInt64} (c : Prop) [Decidable c] (hn : pa.length + pb.length ≤ 30000)
    (h : Good m pa pb v) : Good m pa pb (if c then setout v else v) := by
  split
  · exact good_setout m hn h
  · exact h

/-- interior cell -/
theorem bandCell_good (lo hi : Int) {pa pb : Seq} (x y : UInt8) {diag up left : UInt64} (i j : Nat)
    (hi' : i = pb.length + 1) (hj : j = pa.length + 1) (hn : pa.length + pb.length + 2 ≤ 30000)
    (hd : Good m pa pb diag) (hu : Good m (x :: pa) pb up) (hl : Good m pa (y :: pb) left) :
    Good m (x :: pa) (y :: pb) (bandCell lo hi i j (m x y) diag up left) := by
  have hi0 : ¬ i = 0 := by omega
  have hj0 : ¬ j = 0 := by omega
  unfold bandCell
  simp only [if_neg hi0, if_neg hj0]
  apply good_edge m _ (by simp; omega)
  apply pick_mem (Good m (x :: pa) (y :: pb))
  · exact good_diag m x y hn hd
  · split
    · exact good_up m y (by simp; omega) hu
    · exact good_outV m _ _
  · split
    · exact good_left m x (by simp; omega) hl
    · exact good_outV m _ _

theorem pick_row0 (j : Nat) (hj : j < 30000) :
    (pick notavailV notavailV (encodeValues 0 j false)).1 = encodeValues 0 j false := by
  have h : ¬ (encodeValues 0 j false ≤ notavailV) := by
    unfold notavailV
    rw [encode_le_iff 0 j 0 30000 false (by omega) (by omega) (by omega) (by omega)]; omega
  unfold pick
  have h1 : ¬ (notavailV ≥ notavailV ∧ notavailV ≥ encodeValues 0 j false) := fun e => h e.2
  rw [if_neg h1, if_neg h]

theorem pick_col0 (i : Nat) (hi : i < 30000) :
    (pick notavailV (encodeValues 0 i false) notavailV).1 = encodeValues 0 i false := by
  have h : ¬ (encodeValues 0 i false ≤ notavailV) := by
    unfold notavailV
    rw [encode_le_iff 0 i 0 30000 false (by omega) (by omega) (by omega) (by omega)]; omega
  have h' : notavailV ≤ encodeValues 0 i false := by
    unfold notavailV
    rw [encode_le_iff 0 30000 0 i false (by omega) (by omega) (by omega) (by omega)]; omega
  unfold pick
  have h1 : ¬ (notavailV ≥ encodeValues 0 i false ∧ notavailV ≥ notavailV) := fun e => h e.1
  rw [if_neg h1, if_pos h']

theorem bandCell_row0_good (lo hi : Int) (pa : Seq) (j : Nat) (hj : j = pa.length) (hn : pa.length < 30000) :
    Good m pa [] (bandCell lo hi 0 j false 0 0 0) := by
  unfold bandCell
  simp only [if_true]
  apply good_edge m _ (by simp; omega)
  rw [pick_row0 j (by omega), hj]
  exact .inr ⟨0, pa.length, rfl, Ali.nil_right m pa⟩

theorem bandCell_col0_good (lo hi : Int) (pb : Seq) (i : Nat) (hi' : i = pb.length) (h0 : i ≠ 0)
    (hn : pb.length < 30000) :
    Good m [] pb (bandCell lo hi i 0 false 0 0 0) := by
  unfold bandCell
  simp only [if_neg h0, if_true]
  apply good_edge m _ (by simp; omega)
  rw [pick_col0 i (by omega), hi']
  exact .inr ⟨0, pb.length, rfl, Ali.nil_left m pb⟩

/-- the cells of a row after the one of prefix `pa`, one per remaining symbol -/
def TailGood (G : Seq → UInt64 → Prop) : Seq → Seq → List UInt64 → Prop
  | _, [], r => r = []
  | pa, x :: as, v :: r => G (x :: pa) v ∧ TailGood G (x :: pa) as r
  | _, _ :: _, [] => False

/-- a row from the cell of prefix `pa` on -/
def RowGood (G : Seq → UInt64 → Prop) (pa as : Seq) : List UInt64 → Prop
  | v :: r => G pa v ∧ TailGood G pa as r
  | [] => False

theorem rowGo_good (lo hi : Int) (i : Nat) (y : UInt8) (pb : Seq) (hi' : i = pb.length + 1) :
    ∀ (as pa : Seq) (prev : List UInt64) (left : UInt64) (j : Nat), j = pa.length + 1 →
      pa.length + as.length + pb.length + 1 ≤ 30000 →
      RowGood (fun p v => Good samenuc p pb v) pa as prev → Good samenuc pa (y :: pb) left →
      TailGood (fun p v => Good samenuc p (y :: pb) v) pa as (bandRowGo lo hi i y j left as prev) := by
  intro as
  induction as with
  | nil =>
    intro pa prev left j _ _ _ _
    cases prev with
    | nil => simp [bandRowGo, TailGood]
    | cons d r => cases r <;> simp [bandRowGo, TailGood]
  | cons x as ih =>
    intro pa prev left j hj hn hprev hleft
    match prev, hprev with
    | diag :: up :: rest, ⟨hd, hu, hrest⟩ =>
      simp only [bandRowGo, TailGood]
      have hv := bandCell_good samenuc lo hi x y i j hi' hj (by simp at hn; omega) hd hu hleft
      refine ⟨hv, ?_⟩
      exact ih (x :: pa) (up :: rest) _ (j + 1) (by simp; omega) (by simp at hn ⊢; omega) ⟨hu, hrest⟩ hv

theorem row0_good (lo hi : Int) :
    ∀ (as pa : Seq) (j : Nat), j = pa.length → pa.length + as.length < 30000 →
      RowGood (fun p v => Good samenuc p [] v) pa as (bandRow0 lo hi j as) := by
  intro as
  induction as with
  | nil =>
    intro pa j hj hn
    exact ⟨bandCell_row0_good samenuc lo hi pa j hj (by simpa using hn), rfl⟩
  | cons x as ih =>
    intro pa j hj hn
    have h := ih (x :: pa) (j + 1) (by simp; omega) (by simp at hn ⊢; omega)
    refine ⟨bandCell_row0_good samenuc lo hi pa j hj (by omega), ?_⟩
    show TailGood _ pa (x :: as) (bandRow0 lo hi (j + 1) as)
    match hb : bandRow0 lo hi (j + 1) as, h with
    | v :: r, ⟨h1, h2⟩ => exact ⟨h1, h2⟩

theorem bandRow_good (lo hi : Int) (A : Seq) (i : Nat) (y : UInt8) (pb : Seq) (hi' : i = pb.length + 1)
    (hn : A.length + pb.length + 2 ≤ 30000) (prev : List UInt64)
    (h : RowGood (fun p v => Good samenuc p pb v) [] A prev) :
    RowGood (fun p v => Good samenuc p (y :: pb) v) [] A (bandRow lo hi A i y prev) := by
  have h0 : Good samenuc [] (y :: pb) (bandCell lo hi i 0 false 0 0 0) :=
    bandCell_col0_good samenuc lo hi (y :: pb) i (by simp; omega) (by omega) (by simp; omega)
  exact ⟨h0, rowGo_good lo hi i y pb hi' A [] prev _ 1 rfl (by simp; omega) h h0⟩

theorem bandRows_good (lo hi : Int) (A : Seq) :
    ∀ (bs pb : Seq) (i : Nat) (prev : List UInt64), i = pb.length + 1 →
      A.length + pb.length + bs.length + 1 ≤ 30000 →
      RowGood (fun p v => Good samenuc p pb v) [] A prev →
      RowGood (fun p v => Good samenuc p (bs.reverse ++ pb) v) [] A (bandRows lo hi A i bs prev) := by
  intro bs
  induction bs with
  | nil => intro pb i prev _ _ h; simpa [bandRows] using h
  | cons y bs ih =>
    intro pb i prev hi' hn h
    have h1 := bandRow_good lo hi A i y pb hi' (by simp at hn; omega) prev h
    have h2 := ih (y :: pb) (i + 1) _ (by simp; omega) (by simp at hn ⊢; omega) h1
    simp only [bandRows, List.reverse_cons, List.append_assoc, List.singleton_append]
    exact h2

theorem tailGood_last (G : Seq → UInt64 → Prop) :
    ∀ (as pa : Seq) (v : UInt64) (r : List UInt64), G pa v → TailGood G pa as r →
      G (as.reverse ++ pa) ((v :: r).getLastD 0) := by
  intro as
  induction as with
  | nil => intro pa v r hv hr; simp only [TailGood] at hr; subst hr; simpa using hv
  | cons x as ih =>
    intro pa v r hv hr
    match r, hr with
    | w :: r', ⟨hw, hr'⟩ =>
      have := ih (x :: pa) w r' hw hr'
      simp only [List.reverse_cons, List.append_assoc, List.singleton_append]
      simpa [List.getLastD] using this

theorem bandLast_good (lo hi : Int) (A B : Seq) (hn : A.length + B.length + 1 ≤ 30000) :
    Good samenuc A.reverse B.reverse ((bandLast lo hi A B).getLastD 0) := by
  have h0 := row0_good lo hi A [] 0 rfl (by simp; omega)
  have h1 := bandRows_good lo hi A B [] 1 _ rfl (by simp; omega) h0
  unfold bandLast
  match hb : bandRows lo hi A 1 B (bandRow0 lo hi 0 A), h1 with
  | v :: r, ⟨hv, hr⟩ =>
    have := tailGood_last (fun p v => Good samenuc p (B.reverse ++ []) v) A [] v r hv hr
    simpa using this

theorem Ali.samenuc_swap {a b : Seq} {s l : Nat} (h : Ali samenuc a b s l) : Ali samenuc b a s l := by
  have := h.swap samenuc
  have e : (fun x y => samenuc y x) = samenuc := by funext x y; exact samenuc_comm y x
  rw [e] at this; exact this

theorem bandResult_sound {A B : Seq} {v : UInt64} {s l : Nat} (hn : A.length + B.length + 1 ≤ 30000)
    (hg : Good samenuc A.reverse B.reverse v) (h : bandResult v = some (s, l)) : Ali samenuc A B s l := by
  unfold bandResult at h
  rcases hg with ⟨s', l', hv, hs, hl⟩ | ⟨s', l', hv, ha⟩
  · rw [hv, decode_encode s' l' true (by simp at hs; omega) (by simp at hl; omega)] at h
    simp at h
  · have hb := ha.bounds samenuc
    simp at hb
    rw [hv, decode_encode s' l' false (by omega) (by omega)] at h
    simp at h
    rw [← h.1, ← h.2]
    exact ha.of_reverse samenuc

theorem bandLCSAB_sound (A B : Seq) (e : Int) (s l : Nat) (hn : A.length + B.length + 1 ≤ 30000)
    (h : bandLCSAB A B e = some (s, l)) : Ali samenuc A B s l := by
  unfold bandLCSAB at h
  split at h
  · simp at h
  · exact bandResult_sound hn (bandLast_good _ _ A B hn) h

/-- an answer of the banded matrix is never spurious: it is realised by an alignment -/
theorem bandLCS_sound (a b : Seq) (e : Int) (s l : Nat) (hn : a.length + b.length + 1 ≤ 30000)
    (h : bandLCS a b e = some (s, l)) : Ali samenuc a b s l := by
  unfold bandLCS at h
  split at h
  · exact (bandLCSAB_sound b a e s l (by omega) h).samenuc_swap
  · exact bandLCSAB_sound a b e s l hn h

/-! ## generic row induction over the banded matrix -/

section gen
variable (G : Seq → Seq → UInt64 → Prop) (NA NB : Nat) (lo hi : Int)
variable (hcell : ∀ (pa pb : Seq) (x y : UInt8) (diag up left : UInt64), pa.length + 1 ≤ NA → pb.length + 1 ≤ NB →
    G pa pb diag → G (x :: pa) pb up → G pa (y :: pb) left →
    G (x :: pa) (y :: pb) (bandCell lo hi (pb.length + 1) (pa.length + 1) (samenuc x y) diag up left))
variable (hrow0 : ∀ pa : Seq, pa.length ≤ NA → G pa [] (bandCell lo hi 0 pa.length false 0 0 0))
variable (hcol0 : ∀ pb : Seq, pb.length ≤ NB → pb ≠ [] → G [] pb (bandCell lo hi pb.length 0 false 0 0 0))
include hcell

theorem rowGo_gen (y : UInt8) (pb : Seq) (hpb : pb.length + 1 ≤ NB) :
    ∀ (as pa : Seq) (prev : List UInt64) (left : UInt64), pa.length + as.length ≤ NA →
      RowGood (fun p v => G p pb v) pa as prev → G pa (y :: pb) left →
      TailGood (fun p v => G p (y :: pb) v) pa as (bandRowGo lo hi (pb.length + 1) y (pa.length + 1) left as prev) := by
  intro as
  induction as with
  | nil =>
    intro pa prev left _ _ _
    cases prev with
    | nil => simp [bandRowGo, TailGood]
    | cons d r => cases r <;> simp [bandRowGo, TailGood]
  | cons x as ih =>
    intro pa prev left hn hprev hleft
    match prev, hprev with
    | diag :: up :: rest, ⟨hd, hu, hrest⟩ =>
      simp only [bandRowGo, TailGood]
      have hv := hcell pa pb x y diag up left (by simp at hn; omega) hpb hd hu hleft
      refine ⟨hv, ?_⟩
      exact ih (x :: pa) (up :: rest) _ (by simp at hn ⊢; omega) ⟨hu, hrest⟩ hv

omit hcell in
include hrow0 in
theorem row0_gen :
    ∀ (as pa : Seq), pa.length + as.length ≤ NA →
      RowGood (fun p v => G p [] v) pa as (bandRow0 lo hi pa.length as) := by
  intro as
  induction as with
  | nil => intro pa hn; exact ⟨hrow0 pa (by simpa using hn), rfl⟩
  | cons x as ih =>
    intro pa hn
    have h := ih (x :: pa) (by simp at hn ⊢; omega)
    refine ⟨hrow0 pa (by omega), ?_⟩
    show TailGood _ pa (x :: as) (bandRow0 lo hi (pa.length + 1) as)
    match hb : bandRow0 lo hi (pa.length + 1) as, h with
    | v :: r, ⟨h1, h2⟩ => exact ⟨h1, h2⟩

include hcol0 in
theorem bandRows_gen (A : Seq) (hA : A.length ≤ NA) :
    ∀ (bs pb : Seq) (prev : List UInt64), pb.length + bs.length ≤ NB →
      RowGood (fun p v => G p pb v) [] A prev →
      RowGood (fun p v => G p (bs.reverse ++ pb) v) [] A (bandRows lo hi A (pb.length + 1) bs prev) := by
  intro bs
  induction bs with
  | nil => intro pb prev _ h; simpa [bandRows] using h
  | cons y bs ih =>
    intro pb prev hn h
    have h0 : G [] (y :: pb) (bandCell lo hi (pb.length + 1) 0 false 0 0 0) :=
      hcol0 (y :: pb) (by simp at hn ⊢; omega) (by simp)
    have h1 : RowGood (fun p v => G p (y :: pb) v) [] A (bandRow lo hi A (pb.length + 1) y prev) :=
      ⟨h0, rowGo_gen G NA NB lo hi hcell y pb (by simp at hn; omega) A [] prev _ (by simpa using hA) h h0⟩
    have h2 := ih (y :: pb) _ (by simp at hn ⊢; omega) h1
    simp only [bandRows, List.reverse_cons, List.append_assoc, List.singleton_append]
    exact h2

include hrow0 hcol0 in
theorem bandLast_gen (A B : Seq) (hA : A.length ≤ NA) (hB : B.length ≤ NB) :
    G A.reverse B.reverse ((bandLast lo hi A B).getLastD 0) := by
  have h0 := row0_gen G NA lo hi hrow0 A [] (by simpa using hA)
  have h1 := bandRows_gen G NA NB lo hi hcell hcol0 A hA B [] _ (by simpa using hB) h0
  unfold bandLast
  match hb : bandRows lo hi A 1 B (bandRow0 lo hi 0 A), h1 with
  | v :: r, ⟨hv, hr⟩ =>
    have := tailGood_last (fun p v => G p (B.reverse ++ []) v) A [] v r hv hr
    simpa using this

end gen

/-! ## exactness of the full band -/

def encP (p : Nat × Nat) : UInt64 := encodeValues p.1 p.2 false

theorem lcsDP_nil_right (m : UInt8 → UInt8 → Bool) (a : Seq) : lcsDP m a [] = (0, a.length) := by
  cases a <;> simp [lcsDP]

theorem lcsDP_cons_cons (m : UInt8 → UInt8 → Bool) (x y : UInt8) (as bs : Seq) :
    lcsDP m (x :: as) (y :: bs) =
      best2 (best2 ((lcsDP m as bs).1 + (if m x y then 1 else 0), (lcsDP m as bs).2 + 1)
        ((lcsDP m as (y :: bs)).1, (lcsDP m as (y :: bs)).2 + 1))
        ((lcsDP m (x :: as) bs).1, (lcsDP m (x :: as) bs).2 + 1) := by
  rw [lcsDP]

theorem lcsDP_bounds (m : UInt8 → UInt8 → Bool) (a b : Seq) :
    (lcsDP m a b).1 ≤ a.length ∧ (lcsDP m a b).1 ≤ b.length ∧ (lcsDP m a b).2 ≤ a.length + b.length := by
  have := (lcsDP_opt m a b).1.bounds m; omega

theorem pick_ge (a b c : UInt64) : a ≤ (pick a b c).1 ∧ b ≤ (pick a b c).1 ∧ c ≤ (pick a b c).1 := by
  unfold pick
  split
  · rename_i h; exact ⟨UInt64.le_refl _, h.1, h.2⟩
  · rename_i h
    split
    · rename_i h2
      refine ⟨?_, UInt64.le_refl _, h2⟩
      rcases UInt64.le_total a b with h3 | h3
      · exact h3
      · have : ¬ (c ≤ a) := fun h4 => h ⟨h3, h4⟩
        rcases UInt64.le_total c a with h5 | h5
        · exact absurd h5 this
        · exact UInt64.le_trans h5 h2
    · rename_i h2
      have hbc : b ≤ c := by
        rcases UInt64.le_total c b with h5 | h5
        · exact absurd h5 h2
        · exact h5
      refine ⟨?_, hbc, UInt64.le_refl _⟩
      rcases UInt64.le_total a c with h3 | h3
      · exact h3
      · exact absurd ⟨UInt64.le_trans hbc h3, h3⟩ h

theorem encP_mono {p q : Nat × Nat} (hp : p.1 < 65536 ∧ p.2 ≤ 65534) (hq : q.1 < 65536 ∧ q.2 ≤ 65534)
    (h : better p q = true) : encP q ≤ encP p := by
  unfold encP
  rw [encode_le_iff q.1 q.2 p.1 p.2 false hq.1 hp.1 hq.2 hp.2]
  rw [better_iff] at h; omega

theorem max3_unique {P R a b c : UInt64} (hP : P = a ∨ P = b ∨ P = c) (hR : R = a ∨ R = b ∨ R = c)
    (hPa : a ≤ P) (hPb : b ≤ P) (hPc : c ≤ P) (hRa : a ≤ R) (hRb : b ≤ R) (hRc : c ≤ R) : P = R := by
  apply UInt64.le_antisymm
  · rcases hP with h | h | h <;> rw [h] <;> assumption
  · rcases hR with h | h | h <;> rw [h] <;> assumption

theorem bandCell_exact (lo hi : Int) (pa pb : Seq) (x y : UInt8) (diag up left : UInt64)
    (hn : pa.length + pb.length + 2 ≤ 30000)
    (hlo : lo < ((pa.length + 1 : Nat) : Int) - ((pb.length + 1 : Nat) : Int))
    (hhi : ((pa.length + 1 : Nat) : Int) - ((pb.length + 1 : Nat) : Int) < hi)
    (hd : diag = encP (lcsDP samenuc pa pb)) (hu : up = encP (lcsDP samenuc (x :: pa) pb))
    (hl : left = encP (lcsDP samenuc pa (y :: pb))) :
    bandCell lo hi (pb.length + 1) (pa.length + 1) (samenuc x y) diag up left
      = encP (lcsDP samenuc (x :: pa) (y :: pb)) := by
  have bD := lcsDP_bounds samenuc pa pb
  have bL := lcsDP_bounds samenuc (x :: pa) pb
  have bU := lcsDP_bounds samenuc pa (y :: pb)
  simp only [List.length_cons] at bL bU
  generalize hD : lcsDP samenuc pa pb = D at *
  generalize hL : lcsDP samenuc (x :: pa) pb = L at *
  generalize hU : lcsDP samenuc pa (y :: pb) = U at *
  have hsd : (if samenuc x y then incscore (incpath diag) else incpath diag)
      = encP (D.1 + (if samenuc x y then 1 else 0), D.2 + 1) := by
    rw [hd]; unfold encP
    rw [incpath_encode D.1 D.2 false (by omega) (by omega)]
    split
    · rw [incscore_encode D.1 (D.2 + 1) false (by omega) (by omega)]
    · rfl
  have hsu : incpath up = encP (L.1, L.2 + 1) := by
    rw [hu]; unfold encP; rw [incpath_encode L.1 L.2 false (by omega) (by omega)]
  have hsl : incpath left = encP (U.1, U.2 + 1) := by
    rw [hl]; unfold encP; rw [incpath_encode U.1 U.2 false (by omega) (by omega)]
  have hi0 : ¬ pb.length + 1 = 0 := by omega
  have hj0 : ¬ pa.length + 1 = 0 := by omega
  have hedge : ¬ (((pa.length + 1 : Nat) : Int) - ((pb.length + 1 : Nat) : Int) = lo ∨
      ((pa.length + 1 : Nat) : Int) - ((pb.length + 1 : Nat) : Int) = hi) := by omega
  unfold bandCell
  simp only [if_neg hi0, if_neg hj0, if_neg hedge, if_pos hhi, if_pos hlo, hsd, hsu, hsl]
  rw [lcsDP_cons_cons, hD, hL, hU]
  generalize hDp : (D.1 + (if samenuc x y then 1 else 0), D.2 + 1) = Dp
  generalize hLp : (L.1, L.2 + 1) = Lp
  generalize hUp : (U.1, U.2 + 1) = Up
  have bDp : Dp.1 < 65536 ∧ Dp.2 ≤ 65534 := by rw [← hDp]; simp only; split <;> omega
  have bLp : Lp.1 < 65536 ∧ Lp.2 ≤ 65534 := by rw [← hLp]; simp only; omega
  have bUp : Up.1 < 65536 ∧ Up.2 ≤ 65534 := by rw [← hUp]; simp only; omega
  have bDU : (best2 Dp Up).1 < 65536 ∧ (best2 Dp Up).2 ≤ 65534 := by
    rcases best2_cases Dp Up with h | h <;> rw [h] <;> assumption
  have bR : (best2 (best2 Dp Up) Lp).1 < 65536 ∧ (best2 (best2 Dp Up) Lp).2 ≤ 65534 := by
    rcases best2_cases (best2 Dp Up) Lp with h | h <;> rw [h] <;> assumption
  have pg := pick_ge (encP Dp) (encP Lp) (encP Up)
  apply max3_unique (a := encP Dp) (b := encP Lp) (c := encP Up)
  · exact pick_mem (fun v => v = encP Dp ∨ v = encP Lp ∨ v = encP Up) (.inl rfl) (.inr (.inl rfl)) (.inr (.inr rfl))
  · rcases best2_cases (best2 Dp Up) Lp with h | h
    · rcases best2_cases Dp Up with h' | h'
      · rw [h, h']; exact .inl rfl
      · rw [h, h']; exact .inr (.inr rfl)
    · rw [h]; exact .inr (.inl rfl)
  · exact pg.1
  · exact pg.2.1
  · exact pg.2.2
  · exact encP_mono bR bDp (better_trans (best2_left _ _) (best2_left _ _))
  · exact encP_mono bR bLp (best2_right _ _)
  · exact encP_mono bR bUp (better_trans (best2_left _ _) (best2_right _ _))

theorem bandLast_exact (lo hi : Int) (A B : Seq) (hn : A.length + B.length + 1 ≤ 30000)
    (hlo : lo < -(B.length : Int)) (hhi : (A.length : Int) < hi) :
    (bandLast lo hi A B).getLastD 0 = encP (lcsDP samenuc A.reverse B.reverse) := by
  refine bandLast_gen (fun pa pb v => v = encP (lcsDP samenuc pa pb)) A.length B.length lo hi ?_ ?_ ?_ A B
    (Nat.le_refl _) (Nat.le_refl _)
  · intro pa pb x y diag up left hpa hpb hd hu hl
    exact bandCell_exact lo hi pa pb x y diag up left (by omega) (by omega) (by omega) hd hu hl
  · intro pa hpa
    rw [lcsDP_nil_right]
    have hedge : ¬ (((pa.length : Nat) : Int) - ((0 : Nat) : Int) = lo ∨ ((pa.length : Nat) : Int) - ((0 : Nat) : Int) = hi) := by
      omega
    unfold bandCell
    simp only [if_true, if_neg hedge]
    rw [pick_row0 _ (by omega)]; rfl
  · intro pb hpb hne
    have h0 : ¬ pb.length = 0 := fun e => hne (List.eq_nil_of_length_eq_zero e)
    have hedge : ¬ (((0 : Nat) : Int) - ((pb.length : Nat) : Int) = lo ∨ ((0 : Nat) : Int) - ((pb.length : Nat) : Int) = hi) := by
      omega
    have e : lcsDP samenuc [] pb = (0, pb.length) := by rw [lcsDP]
    rw [e]
    unfold bandCell
    simp only [if_neg h0, if_true, if_neg hedge]
    rw [pick_col0 _ (by omega)]; rfl

/-- the optimum is unique -/
theorem opt_unique (m : UInt8 → UInt8 → Bool) {a b : Seq} {p q : Nat × Nat}
    (hp : Ali m a b p.1 p.2) (hp' : ∀ s l, Ali m a b s l → better p (s, l) = true)
    (hq : Ali m a b q.1 q.2) (hq' : ∀ s l, Ali m a b s l → better q (s, l) = true) : p = q := by
  have h1 := hp' _ _ hq
  have h2 := hq' _ _ hp
  rw [better_iff] at h1 h2
  simp only at h1 h2
  exact Prod.ext (by omega) (by omega)

theorem lcsDP_reverse (m : UInt8 → UInt8 → Bool) (a b : Seq) : lcsDP m a.reverse b.reverse = lcsDP m a b := by
  have h1 := lcsDP_opt m a.reverse b.reverse
  have h2 := lcsDP_opt m a b
  exact opt_unique m (h1.1.of_reverse m) (fun s l h => h1.2 s l (h.reverse m)) h2.1 h2.2

theorem lcsDP_samenuc_swap (a b : Seq) : lcsDP samenuc b a = lcsDP samenuc a b := by
  have h1 := lcsDP_opt samenuc b a
  have h2 := lcsDP_opt samenuc a b
  exact opt_unique samenuc h1.1.samenuc_swap (fun s l h => h1.2 s l h.samenuc_swap) h2.1 h2.2

theorem bandLCSAB_exact_unbounded (A B : Seq) (hn : A.length + B.length + 1 ≤ 30000) :
    bandLCSAB A B (-1) = some (lcsDP samenuc A B) := by
  unfold bandLCSAB bandGeo
  have hc : ¬ ((A.length : Int) - (B.length : Int) > 2 * (A.length : Int)) := by omega
  simp only [show ((-1 : Int) == -1) = true from rfl, if_true, if_neg hc]
  rw [bandLast_exact _ _ A B hn (by omega) (by omega), lcsDP_reverse]
  have hb := lcsDP_bounds samenuc A B
  unfold bandResult encP
  rw [decode_encode _ _ false (by omega) (by omega)]
  simp

theorem bandLCS_exact_unbounded (a b : Seq) (hn : a.length + b.length + 1 ≤ 30000) :
    bandLCS a b (-1) = some (lcsDP samenuc a b) := by
  unfold bandLCS
  split
  · rw [bandLCSAB_exact_unbounded b a (by omega), lcsDP_samenuc_swap]
  · exact bandLCSAB_exact_unbounded a b hn

/-- the band covers the whole matrix -/
def wideBand (lA lB : Nat) (e : Int) : Prop :=
  (lA : Int) - (lB : Int) ≤ e ∧ (lB : Int) < 2 * (e - ((lA : Int) - (lB : Int)) + 1) ∧ (lA : Int) < 2 * (e + 1)

theorem bandLCSAB_exact_wide (A B : Seq) (e : Int) (hn : A.length + B.length + 1 ≤ 30000) (he : e ≠ -1)
    (hw : wideBand A.length B.length e) : bandLCSAB A B e = some (lcsDP samenuc A B) := by
  obtain ⟨h1, h2, h3⟩ := hw
  unfold bandLCSAB bandGeo
  have hc : ¬ ((A.length : Int) - (B.length : Int) > e) := by omega
  have he' : (e == -1) = false := by simpa using he
  simp only [he', Bool.false_eq_true, if_false, if_neg hc]
  rw [bandLast_exact _ _ A B hn (by omega) (by omega), lcsDP_reverse]
  have hb := lcsDP_bounds samenuc A B
  unfold bandResult encP
  rw [decode_encode _ _ false (by omega) (by omega)]
  simp

theorem bandLCS_exact_wide (a b : Seq) (e : Int) (hn : a.length + b.length + 1 ≤ 30000) (he : e ≠ -1)
    (hw : wideBand (max a.length b.length) (min a.length b.length) e) :
    bandLCS a b e = some (lcsDP samenuc a b) := by
  unfold bandLCS
  split
  · rename_i h
    have e1 : max a.length b.length = b.length := by omega
    have e2 : min a.length b.length = a.length := by omega
    rw [e1, e2] at hw
    rw [bandLCSAB_exact_wide b a e (by omega) he hw, lcsDP_samenuc_swap]
  · rename_i h
    have e1 : max a.length b.length = a.length := by omega
    have e2 : min a.length b.length = b.length := by omega
    rw [e1, e2] at hw
    exact bandLCSAB_exact_wide a b e hn he hw

end ObiVerif.Lcs
