import ObiVerif.Model.Lcs
/-! helper lemmas for C09 (structural layer of `D1Or0`, edit distance, packed cells, LCS recurrence) -/
namespace ObiVerif.Lcs

/-! ## prefix / suffix stripping -/

theorem stripPre_spec (a b : Seq) :
    ∃ p, a = p ++ (stripPre a b).1 ∧ b = p ++ (stripPre a b).2 ∧
      (∀ x y xs ys, (stripPre a b).1 = x :: xs → (stripPre a b).2 = y :: ys → x ≠ y) := by
  induction a generalizing b with
  | nil => exact ⟨[], by simp [stripPre], by simp [stripPre], by simp [stripPre]⟩
  | cons x xs ih =>
    cases b with
    | nil => exact ⟨[], by simp [stripPre], by simp [stripPre], by simp [stripPre]⟩
    | cons y ys =>
      by_cases h : x = y
      · subst h
        obtain ⟨p, h1, h2, h3⟩ := ih ys
        refine ⟨x :: p, ?_, ?_, ?_⟩ <;> simp only [stripPre, ↓reduceIte]
        · simpa using h1
        · simpa using h2
        · exact h3
      · refine ⟨[], ?_, ?_, ?_⟩ <;> simp only [stripPre, h, ↓reduceIte, List.nil_append]
        intro x' y' xs' ys' e1 e2
        simp at e1 e2
        rw [← e1.1, ← e2.1]; exact h

theorem stripPre_self (a : Seq) : stripPre a a = ([], []) := by
  induction a with
  | nil => simp [stripPre]
  | cons x xs ih => simp [stripPre, ih]

theorem stripPre_swap (a b : Seq) : stripPre b a = ((stripPre a b).2, (stripPre a b).1) := by
  induction a generalizing b with
  | nil => cases b <;> simp [stripPre]
  | cons x xs ih =>
    cases b with
    | nil => simp [stripPre]
    | cons y ys =>
      by_cases h : x = y
      · subst h; simp [stripPre, ih]
      · have h' : ¬ y = x := fun e => h e.symm
        simp [stripPre, h, h']

theorem stripSuf_spec (a b : Seq) :
    ∃ q, a = q ++ (stripSuf a b).1 ∧ b = q ++ (stripSuf a b).2 := by
  induction a generalizing b with
  | nil => exact ⟨[], by simp [stripSuf], by simp [stripSuf]⟩
  | cons x xs ih =>
    cases b with
    | nil => exact ⟨[], by simp [stripSuf], by simp [stripSuf]⟩
    | cons y ys =>
      by_cases h : (xs ≠ [] ∨ ys ≠ []) ∧ x = y
      · obtain ⟨q, h1, h2⟩ := ih ys
        refine ⟨x :: q, ?_, ?_⟩ <;> simp only [stripSuf, h, and_self, ↓reduceIte]
        · simpa using h1
        · simpa using h2
      · exact ⟨[], by simp [stripSuf, h], by simp [stripSuf, h]⟩

theorem stripSuf_cons_pos {x y : UInt8} {xs ys : Seq} (h : (xs ≠ [] ∨ ys ≠ []) ∧ x = y) :
    stripSuf (x :: xs) (y :: ys) = stripSuf xs ys := by rw [stripSuf, if_pos h]

theorem stripSuf_cons_neg {x y : UInt8} {xs ys : Seq} (h : ¬ ((xs ≠ [] ∨ ys ≠ []) ∧ x = y)) :
    stripSuf (x :: xs) (y :: ys) = (x :: xs, y :: ys) := by rw [stripSuf, if_neg h]

theorem stripSuf_swap (a b : Seq) : stripSuf b a = ((stripSuf a b).2, (stripSuf a b).1) := by
  induction a generalizing b with
  | nil => cases b <;> rfl
  | cons x xs ih =>
    cases b with
    | nil => rfl
    | cons y ys =>
      by_cases h : (xs ≠ [] ∨ ys ≠ []) ∧ x = y
      · have h' : (ys ≠ [] ∨ xs ≠ []) ∧ y = x := ⟨h.1.symm, h.2.symm⟩
        rw [stripSuf_cons_pos h, stripSuf_cons_pos h']; exact ih ys
      · have h' : ¬ ((ys ≠ [] ∨ xs ≠ []) ∧ y = x) := fun e => h ⟨e.1.symm, e.2.symm⟩
        rw [stripSuf_cons_neg h, stripSuf_cons_neg h']

/-! ## `d1F` : soundness of the verdict 1 -/

theorem len_le_one_cases (l : Seq) (h : l.length ≤ 1) : l = [] ∨ ∃ x, l = [x] := by
  match l, h with
  | [], _ => exact .inl rfl
  | [x], _ => exact .inr ⟨x, rfl⟩
  | _ :: _ :: _, h => simp at h

theorem d1Fin_bad {la lb lr : Nat} {s : Seq × Seq} (h : d1Bad la lb s = true) :
    d1Fin la lb lr s = ⟨-1, -1, 0, 0⟩ := by simp [d1Fin, h]

theorem d1Fin_good {la lb lr : Nat} {s : Seq × Seq} (h : d1Bad la lb s = false) :
    d1Fin la lb lr s = ⟨1, ((la - lr + max s.1.length s.2.length : Nat) : Int) - 1,
      if s.2.length ≤ s.1.length then s.1.headD 45 else 45,
      if s.1.length ≤ s.2.length then s.2.headD 45 else 45⟩ := by simp [d1Fin, h]

theorem d1Fin_sound (a b p q : Seq) (r s : Seq × Seq)
    (ha : a = p ++ r.1) (hb : b = p ++ r.2)
    (hne : ∀ x y xs ys, r.1 = x :: xs → r.2 = y :: ys → x ≠ y)
    (e1 : r.1 = s.1.reverse ++ q.reverse) (e2 : r.2 = s.2.reverse ++ q.reverse)
    (hnil : ¬ (r.1 = [] ∧ r.2 = []))
    (h : (d1Fin a.length b.length r.1.length s).verdict = 1) :
    ∃ n : Nat, (d1Fin a.length b.length r.1.length s).pos = (n : Int) ∧
      OneEdit a b n (d1Fin a.length b.length r.1.length s).a1 (d1Fin a.length b.length r.1.length s).a2 := by
  obtain ⟨s1, s2⟩ := s
  simp only at e1 e2
  have la : a.length = p.length + r.1.length := by have := congrArg List.length ha; simpa using this
  have lb : b.length = p.length + r.2.length := by have := congrArg List.length hb; simpa using this
  have l1 : r.1.length = s1.length + q.length := by have := congrArg List.length e1; simpa using this
  have l2 : r.2.length = s2.length + q.length := by have := congrArg List.length e2; simpa using this
  cases hbad : d1Bad a.length b.length (s1, s2) with
  | true => rw [d1Fin_bad hbad] at h; simp at h
  | false =>
  rw [d1Fin_good hbad]
  simp only
  unfold d1Bad at hbad
  simp only at hbad
  rcases Nat.lt_trichotomy a.length b.length with hlt | heq | hgt
  · -- insertion
    have hn1 : ¬ a.length = b.length := by omega
    have hn2 : ¬ a.length > b.length := by omega
    rw [if_neg hn1, if_neg hn2] at hbad
    have hb2 : s2.length ≤ 1 := by simpa using hbad
    have h1 : s1 = [] := by
      apply List.eq_nil_of_length_eq_zero; omega
    subst h1
    rcases len_le_one_cases _ hb2 with h2 | ⟨y, h2⟩
    · subst h2; simp at l1 l2; omega
    · subst h2
      simp at e1 e2
      refine ⟨p.length, ?_, ?_⟩
      · simp; rw [la, e1]; simp
      · simp
        exact .ins p q.reverse (by rw [ha, e1]) (by rw [hb, e2]) rfl rfl
  · rw [if_pos heq] at hbad
    have hb2 : s1.length ≤ 1 ∧ s2.length ≤ 1 := by
      simp at hbad; omega
    rcases len_le_one_cases _ hb2.1 with h1 | ⟨x, h1⟩ <;> rcases len_le_one_cases _ hb2.2 with h2 | ⟨y, h2⟩
    · exfalso
      subst h1; subst h2
      simp at e1 e2
      rcases hr : r.1 with _ | ⟨c, t⟩
      · exact hnil ⟨hr, by rw [e2, ← e1, hr]⟩
      · exact hne c c t t hr (by rw [e2, ← e1, hr]) rfl
    · subst h1; subst h2; simp at l1 l2; omega
    · subst h1; subst h2; simp at l1 l2; omega
    · subst h1; subst h2
      simp at e1 e2
      refine ⟨p.length, ?_, ?_⟩
      · simp; rw [la, e1]; simp
      · simp
        exact .subst p q.reverse (by rw [ha, e1]) (by rw [hb, e2]) (hne x y _ _ e1 e2) rfl
  · have hn1 : ¬ a.length = b.length := by omega
    rw [if_neg hn1, if_pos hgt] at hbad
    have hb1 : s1.length ≤ 1 := by simpa using hbad
    have h2 : s2 = [] := by
      apply List.eq_nil_of_length_eq_zero; omega
    subst h2
    rcases len_le_one_cases _ hb1 with h1 | ⟨x, h1⟩
    · subst h1; simp at l1 l2; omega
    · subst h1
      simp at e1 e2
      refine ⟨p.length, ?_, ?_⟩
      · simp; rw [la, e1]; simp
      · simp
        exact .del p q.reverse (by rw [ha, e1]) (by rw [hb, e2]) rfl rfl

theorem d1F_one_sound (a b : Seq) (h : (d1F a b).verdict = 1) :
    ∃ n : Nat, (d1F a b).pos = (n : Int) ∧ OneEdit a b n (d1F a b).a1 (d1F a b).a2 := by
  obtain ⟨p, ha, hb, hne⟩ := stripPre_spec a b
  obtain ⟨q, hq1, hq2⟩ := stripSuf_spec (stripPre a b).1.reverse (stripPre a b).2.reverse
  have e1 := congrArg List.reverse hq1
  have e2 := congrArg List.reverse hq2
  simp only [List.reverse_reverse, List.reverse_append] at e1 e2
  unfold d1F at h ⊢
  split at h
  · simp at h
  rename_i hlen
  rw [if_neg hlen]
  unfold d1Mid at h ⊢
  split at h
  · simp at h
  rename_i hnil
  rw [if_neg hnil]
  exact d1Fin_sound a b p q _ _ ha hb hne e1 e2 hnil h

theorem d1F_zero_iff (a b : Seq) : (d1F a b).verdict = 0 ↔ a = b := by
  constructor
  · intro h
    obtain ⟨p, ha, hb, _⟩ := stripPre_spec a b
    unfold d1F at h
    split at h
    · simp at h
    unfold d1Mid at h
    split at h
    · rename_i h0
      rw [h0.1] at ha; rw [h0.2] at hb
      rw [ha, hb]
    · exfalso
      unfold d1Fin at h
      split at h <;> simp at h
  · intro h
    subst h
    have : ¬ (a.length > a.length + 1 ∨ a.length > a.length + 1) := by omega
    unfold d1F
    rw [if_neg this]
    simp [d1Mid, stripPre_self]

theorem d1F_verdict_cases (a b : Seq) :
    (d1F a b).verdict = 0 ∨ (d1F a b).verdict = 1 ∨ d1F a b = ⟨-1, -1, 0, 0⟩ := by
  unfold d1F
  split
  · simp
  unfold d1Mid
  split
  · simp
  unfold d1Fin
  split <;> simp

theorem d1F_zero_out (a b : Seq) (h : (d1F a b).verdict = 0) : d1F a b = ⟨0, -1, 0, 0⟩ := by
  unfold d1F at h ⊢
  split at h
  · simp at h
  rename_i hlen
  rw [if_neg hlen]
  unfold d1Mid at h ⊢
  split at h
  · rename_i h0; rw [if_pos h0]
  · exfalso
    unfold d1Fin at h
    split at h <;> simp at h

/-! ## completeness of the verdict 1 -/

theorem stripPre_append (p u v : Seq) : stripPre (p ++ u) (p ++ v) = stripPre u v := by
  induction p with
  | nil => rfl
  | cons c p ih => simp [stripPre, ih]

theorem stripSuf_snoc_ne (t : Seq) (x y : UInt8) : stripSuf (t ++ [x]) (t ++ [y]) = ([x], [y]) := by
  induction t with
  | nil => simp [stripSuf]
  | cons c t ih =>
    have h : ((t ++ [x]) ≠ [] ∨ (t ++ [y]) ≠ []) ∧ c = c := ⟨.inl (by simp), rfl⟩
    simp only [List.cons_append]
    rw [stripSuf_cons_pos h, ih]

theorem stripSuf_snoc_del (t : Seq) (z : UInt8) : stripSuf (t ++ [z]) t = ([z], []) := by
  induction t with
  | nil => rfl
  | cons c t ih =>
    have h : ((t ++ [z]) ≠ [] ∨ t ≠ []) ∧ c = c := ⟨.inl (by simp), rfl⟩
    simp only [List.cons_append]
    rw [stripSuf_cons_pos h, ih]

theorem stripPre_del (x : UInt8) (w : Seq) : ∃ z w', stripPre (x :: w) w = (z :: w', w') := by
  induction w generalizing x with
  | nil => exact ⟨x, [], rfl⟩
  | cons y w ih =>
    by_cases h : x = y
    · subst h
      obtain ⟨z, w', e⟩ := ih x
      exact ⟨z, w', by simp [stripPre, e]⟩
    · exact ⟨x, y :: w, by simp [stripPre, h]⟩

theorem d1F_subst (p s : Seq) (x y : UInt8) (hne : x ≠ y) : (d1F (p ++ x :: s) (p ++ y :: s)).verdict = 1 := by
  have hl : ¬ ((p ++ x :: s).length > (p ++ y :: s).length + 1 ∨ (p ++ y :: s).length > (p ++ x :: s).length + 1) := by
    simp
  unfold d1F
  rw [if_neg hl, stripPre_append]
  have : stripPre (x :: s) (y :: s) = (x :: s, y :: s) := by simp [stripPre, hne]
  rw [this]
  unfold d1Mid
  simp only [List.reverse_cons]
  rw [stripSuf_snoc_ne]
  simp [d1Fin, d1Bad]

theorem d1F_del (p s : Seq) (x : UInt8) : (d1F (p ++ x :: s) (p ++ s)).verdict = 1 := by
  have hl : ¬ ((p ++ x :: s).length > (p ++ s).length + 1 ∨ (p ++ s).length > (p ++ x :: s).length + 1) := by
    simp; omega
  unfold d1F
  rw [if_neg hl, stripPre_append]
  obtain ⟨z, w', e⟩ := stripPre_del x s
  rw [e]
  unfold d1Mid
  simp only [List.reverse_cons]
  rw [stripSuf_snoc_del]
  simp [d1Fin, d1Bad]

/-! ## symmetry -/

theorem d1Bad_swap (la lb : Nat) (s : Seq × Seq) : d1Bad lb la (s.2, s.1) = d1Bad la lb s := by
  unfold d1Bad
  rcases Nat.lt_trichotomy la lb with h | h | h
  · have h1 : ¬ lb = la := by omega
    have h2 : lb > la := h
    have h3 : ¬ la = lb := by omega
    have h4 : ¬ la > lb := by omega
    simp only [if_neg h1, if_pos h2, if_neg h3, if_neg h4]
  · subst h
    simp only [if_true, or_comm]
  · have h1 : ¬ lb = la := by omega
    have h2 : ¬ lb > la := by omega
    have h3 : ¬ la = lb := by omega
    simp only [if_neg h1, if_neg h2, if_neg h3, if_pos h]

theorem d1F_symm (a b : Seq) :
    d1F b a = ⟨(d1F a b).verdict, (d1F a b).pos, (d1F a b).a2, (d1F a b).a1⟩ := by
  obtain ⟨p, ha, hb, _⟩ := stripPre_spec a b
  have la : a.length = p.length + (stripPre a b).1.length := by have := congrArg List.length ha; simpa using this
  have lb : b.length = p.length + (stripPre a b).2.length := by have := congrArg List.length hb; simpa using this
  unfold d1F
  by_cases hlen : a.length > b.length + 1 ∨ b.length > a.length + 1
  · rw [if_pos hlen, if_pos (Or.symm hlen)]
  · rw [if_neg hlen, if_neg (fun h => hlen (Or.symm h))]
    rw [stripPre_swap a b]
    unfold d1Mid
    simp only
    by_cases hnil : (stripPre a b).1 = [] ∧ (stripPre a b).2 = []
    · rw [if_pos hnil, if_pos (And.symm hnil)]
    · rw [if_neg hnil, if_neg (fun h => hnil (And.symm h))]
      rw [stripSuf_swap]
      generalize stripSuf (stripPre a b).1.reverse (stripPre a b).2.reverse = s
      unfold d1Fin
      rw [d1Bad_swap]
      cases d1Bad a.length b.length s with
      | true => simp
      | false =>
        simp only [Bool.false_eq_true, if_false, D1.mk.injEq, true_and, and_true]
        rw [Nat.max_comm]
        have : b.length - (stripPre a b).2.length = a.length - (stripPre a b).1.length := by omega
        rw [this]

/-! ## edit distance -/

theorem OneEdit.swap {a b : Seq} {n : Nat} {x y : UInt8} (h : OneEdit a b n x y) : OneEdit b a n y x := by
  cases h with
  | subst p s ha hb hne hp => exact .subst p s hb ha (fun e => hne e.symm) hp
  | del p s ha hb hy hp => exact .ins p s hb ha hy hp
  | ins p s ha hb hx hp => exact .del p s hb ha hx hp

theorem OneEdit.cons {a b : Seq} {n : Nat} {x y : UInt8} (c : UInt8) (h : OneEdit a b n x y) :
    OneEdit (c :: a) (c :: b) (n + 1) x y := by
  cases h with
  | subst p s ha hb hne hp => exact .subst (c :: p) s (by simp [ha]) (by simp [hb]) hne (by simp [hp])
  | del p s ha hb hy hp => exact .del (c :: p) s (by simp [ha]) (by simp [hb]) hy (by simp [hp])
  | ins p s ha hb hx hp => exact .ins (c :: p) s (by simp [ha]) (by simp [hb]) hx (by simp [hp])

theorem OneEdit.ne {a b : Seq} {n : Nat} {x y : UInt8} (h : OneEdit a b n x y) : a ≠ b := by
  intro e
  cases h with
  | subst p s ha hb hne hp =>
    rw [ha, hb] at e
    have := List.append_cancel_left e
    simp at this; exact hne this
  | del p s ha hb hy hp => have := congrArg List.length e; rw [ha, hb] at this; simp at this
  | ins p s ha hb hx hp => have := congrArg List.length e; rw [ha, hb] at this; simp at this

theorem lev_cons_cons (x y : UInt8) (as bs : Seq) :
    lev (x :: as) (y :: bs) =
      min (min (lev as bs + (if x = y then 0 else 1)) (lev as (y :: bs) + 1)) (lev (x :: as) bs + 1) := by
  rw [lev]

theorem lev_zero_iff (a b : Seq) : lev a b = 0 ↔ a = b := by
  induction a generalizing b with
  | nil => cases b <;> simp [lev]
  | cons x as ih =>
    cases b with
    | nil => simp [lev]
    | cons y bs =>
      rw [lev_cons_cons]
      constructor
      · intro h
        have h1 : lev as bs + (if x = y then 0 else 1) = 0 := by omega
        by_cases hxy : x = y
        · rw [if_pos hxy] at h1
          rw [hxy, (ih bs).1 (by omega)]
        · rw [if_neg hxy] at h1; omega
      · intro h
        injection h with h1 h2
        have := (ih bs).2 h2
        rw [if_pos h1, this]; omega

theorem lev_self (a : Seq) : lev a a = 0 := (lev_zero_iff a a).2 rfl

theorem lev_one_exists (a b : Seq) (h : lev a b = 1) : ∃ n x y, OneEdit a b n x y := by
  induction a generalizing b with
  | nil =>
    rw [lev] at h
    match b, h with
    | [y], _ => exact ⟨0, 45, y, .ins [] [] rfl rfl rfl rfl⟩
  | cons x as ih =>
    cases b with
    | nil =>
      rw [lev] at h
      have : as = [] := List.eq_nil_of_length_eq_zero (by omega)
      subst this
      exact ⟨0, x, 45, .del [] [] rfl rfl rfl rfl⟩
    | cons y bs =>
      rw [lev_cons_cons] at h
      have h3 : lev as bs + (if x = y then 0 else 1) = 1 ∨ lev as (y :: bs) = 0 ∨ lev (x :: as) bs = 0 := by omega
      rcases h3 with h1 | h1 | h1
      · by_cases hxy : x = y
        · rw [if_pos hxy] at h1
          obtain ⟨n, x', y', he⟩ := ih bs (by omega)
          subst hxy
          exact ⟨n + 1, x', y', he.cons x⟩
        · rw [if_neg hxy] at h1
          have := (lev_zero_iff as bs).1 (by omega)
          subst this
          exact ⟨0, x, y, .subst [] as rfl rfl hxy rfl⟩
      · have := (lev_zero_iff _ _).1 h1
        exact ⟨0, x, 45, .del [] (y :: bs) (by rw [this]; rfl) rfl rfl rfl⟩
      · have := (lev_zero_iff _ _).1 h1
        exact ⟨0, 45, y, .ins [] (x :: as) rfl (by rw [← this]; rfl) rfl rfl⟩

theorem lev_cons_le (c : UInt8) (as bs : Seq) : lev (c :: as) (c :: bs) ≤ lev as bs := by
  rw [lev_cons_cons, if_pos rfl]; omega

theorem lev_del_le (x : UInt8) (s : Seq) : lev (x :: s) s ≤ 1 := by
  cases s with
  | nil => simp [lev]
  | cons y bs =>
    rw [lev_cons_cons, lev_self]; omega

theorem lev_ins_le (y : UInt8) (s : Seq) : lev s (y :: s) ≤ 1 := by
  cases s with
  | nil => simp [lev]
  | cons x as =>
    rw [lev_cons_cons, lev_self]; omega

theorem lev_append_le (p u v : Seq) : lev (p ++ u) (p ++ v) ≤ lev u v := by
  induction p with
  | nil => exact Nat.le_refl _
  | cons c p ih => exact Nat.le_trans (lev_cons_le c _ _) ih

theorem OneEdit.lev_le {a b : Seq} {n : Nat} {x y : UInt8} (h : OneEdit a b n x y) : lev a b ≤ 1 := by
  cases h with
  | subst p s ha hb hne hp =>
    rw [ha, hb]
    refine Nat.le_trans (lev_append_le p _ _) ?_
    rw [lev_cons_cons, lev_self, if_neg hne]; omega
  | del p s ha hb hy hp => rw [ha, hb]; exact Nat.le_trans (lev_append_le p _ _) (lev_del_le x s)
  | ins p s ha hb hx hp => rw [ha, hb]; exact Nat.le_trans (lev_append_le p _ _) (lev_ins_le y s)

/-- edit distance exactly one = exactly one edit turns `a` into `b` -/
theorem lev_one_iff (a b : Seq) : lev a b = 1 ↔ ∃ n x y, OneEdit a b n x y := by
  constructor
  · exact lev_one_exists a b
  · rintro ⟨n, x, y, h⟩
    have h1 := h.lev_le
    have h2 : lev a b ≠ 0 := fun e => h.ne ((lev_zero_iff a b).1 e)
    omega

theorem d1F_complete {a b : Seq} {n : Nat} {x y : UInt8} (h : OneEdit a b n x y) : (d1F a b).verdict = 1 := by
  cases h with
  | subst p s ha hb hne hp => rw [ha, hb]; exact d1F_subst p s x y hne
  | del p s ha hb hy hp => rw [ha, hb]; exact d1F_del p s x
  | ins p s ha hb hx hp =>
    rw [d1F_symm b a, ha, hb]; exact d1F_del p s y

end ObiVerif.Lcs
