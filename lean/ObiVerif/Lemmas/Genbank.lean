import ObiVerif.Model.FlatFile
import ObiVerif.Lemmas.Chunk
import ObiVerif.Lemmas.Embl
import ObiVerif.Lemmas.FlatSplit
/-!
# GenBank record locality, and the chunk reader on flat files (GenBank and EMBL)

* Lines: `linesReadLine` / `linesScan` are two instances of `linesG`; cutting a text after an
  end-of-record line, or stripping the trailing `\n` / `\r\n` line ends of a piece, does not change the
  lines it is made of, except for blank lines at the end (`linesG_flatEnd`, `linesG_strip`).
* GenBank: after a successful `//` line the parser is in state `inHeader` with every accumulator reset
  but `id` and `seqB`, which are dead there: both are overwritten by the `LOCUS` line, the only way
  out of `inHeader` (`gbLine_state0`, `gbRecs_state0`).  Hence `parseGenbank_append_flatEnd`.
* `RegularEol`: every `\r` is followed by `\n` (lines end with `\n` or `\r\n`).  Under this hypothesis
  the parsed chunks of `ReadSeqFileChunk` carry the records of the one-chunk parse
  (`pieces_parse_embl`, `pieces_parse_genbank`).
-/
namespace ObiVerif.Parse
open ObiVerif.Chunk

/-! ## Lines -/

/-- `linesReadLine` (`g = id`) and `linesScan` (`g = dropCR`) -/
def linesG (g : Seq → Seq) (data : Seq) : List Seq :=
  match splitNl data [] with
  | (ls, last) => ls.map dropCR ++ (if last.isEmpty then [] else [g last])

theorem linesReadLine_eq (data : Seq) : linesReadLine data = linesG id data := rfl
theorem linesScan_eq (data : Seq) : linesScan data = linesG dropCR data := rfl

theorem linesG_append (g : Seq → Seq) (x' y : Seq) :
    linesG g (x' ++ 10 :: y) = linesG g (x' ++ [10]) ++ linesG g y := by
  obtain ⟨h1, h2⟩ := splitNl_append y x' []
  unfold linesG
  rw [h1]
  generalize splitNl (x' ++ [10]) [] = p at h2 ⊢
  obtain ⟨ls, last⟩ := p
  simp only at h2
  subst h2
  generalize splitNl y [] = q
  obtain ⟨ls2, last2⟩ := q
  simp

theorem splitNl_snoc_lf : ∀ (t cur : Seq),
    splitNl (t ++ [10]) cur = ((splitNl t cur).1 ++ [(splitNl t cur).2], []) := by
  intro t
  induction t with
  | nil => intro cur; simp [splitNl]
  | cons d t ih =>
    intro cur
    by_cases hd : d = 10
    · subst hd
      simp only [List.cons_append, splitNl, beq_self_eq_true, if_true]
      rw [ih []]
    · have : (d == 10) = false := by simpa using hd
      simp only [List.cons_append, splitNl, this]
      exact ih (d :: cur)

theorem splitNl_snoc_ne (c : UInt8) (hc : c ≠ 10) : ∀ (t cur : Seq),
    splitNl (t ++ [c]) cur = ((splitNl t cur).1, (splitNl t cur).2 ++ [c]) := by
  have hc' : (c == 10) = false := by simpa using hc
  intro t
  induction t with
  | nil => intro cur; simp [splitNl, hc']
  | cons d t ih =>
    intro cur
    by_cases hd : d = 10
    · subst hd
      simp only [List.cons_append, splitNl, beq_self_eq_true, if_true]
      rw [ih []]
    · have : (d == 10) = false := by simpa using hd
      simp only [List.cons_append, splitNl, this]
      exact ih (d :: cur)

theorem dropCR_snoc_cr (l : Seq) : dropCR (l ++ [13]) = l := by
  simp [dropCR]

theorem dropCR_snoc_ne (l : Seq) (c : UInt8) (hc : c ≠ 13) : dropCR (l ++ [c]) = l ++ [c] := by
  unfold dropCR
  rw [List.reverse_append]
  simp only [List.reverse_cons, List.reverse_nil, List.nil_append, List.singleton_append]
  split
  · rename_i r heq
    simp only [List.cons.injEq] at heq
    exact absurd heq.1 hc
  · rfl

/-- what `g` does to an unterminated last line that does not end with an end-of-line byte -/
def GoodLast (g : Seq → Seq) : Prop := ∀ (l : Seq) (c : UInt8), isEol c = false → g (l ++ [c]) = l ++ [c]

theorem not_eol_ne {c : UInt8} (hc : isEol c = false) : c ≠ 10 ∧ c ≠ 13 := by
  constructor <;> (intro h; subst h; revert hc; decide)

theorem goodLast_id : GoodLast id := fun _ _ _ => rfl
theorem goodLast_dropCR : GoodLast dropCR := fun l c hc => dropCR_snoc_ne l c (not_eol_ne hc).2

/-- a first `\n` or `\r\n` after a byte that is not an end-of-line byte only terminates the line -/
theorem linesG_snoc (g : Seq → Seq) (hg : GoodLast g) (t' : Seq) (c : UInt8) (hc : isEol c = false) :
    linesG g (t' ++ [c] ++ [10]) = linesG g (t' ++ [c]) ∧
    linesG g (t' ++ [c] ++ [13] ++ [10]) = linesG g (t' ++ [c]) := by
  obtain ⟨h10, h13⟩ := not_eol_ne hc
  have e0 : splitNl (t' ++ [c]) [] = ((splitNl t' []).1, (splitNl t' []).2 ++ [c]) := splitNl_snoc_ne c h10 t' []
  have e1 : splitNl (t' ++ [c] ++ [10]) [] = ((splitNl t' []).1 ++ [(splitNl t' []).2 ++ [c]], []) := by
    rw [splitNl_snoc_lf, e0]
  have e2 : splitNl (t' ++ [c] ++ [13] ++ [10]) [] =
      ((splitNl t' []).1 ++ [(splitNl t' []).2 ++ [c] ++ [13]], []) := by
    rw [splitNl_snoc_lf, splitNl_snoc_ne 13 (by decide), e0]
  generalize splitNl t' [] = p at e0 e1 e2
  obtain ⟨ls, last⟩ := p
  simp only at e0 e1 e2
  have hl : linesG g (t' ++ [c]) = ls.map dropCR ++ [last ++ [c]] := by
    unfold linesG
    rw [e0]
    simp [hg last c hc]
  constructor
  · rw [hl]
    unfold linesG
    rw [e1]
    simp [dropCR_snoc_ne last c h13]
  · rw [hl]
    unfold linesG
    rw [e2]
    have hd : dropCR (last ++ [c, 13]) = last ++ [c] := by
      have := dropCR_snoc_cr (last ++ [c]); simpa using this
    simp [hd]

/-- a run of `\n` / `\r\n` line ends -/
inductive RegLf : Seq → Prop
  | nil : RegLf []
  | lf {e : Seq} : RegLf e → RegLf (10 :: e)
  | crlf {e : Seq} : RegLf e → RegLf (13 :: 10 :: e)

theorem linesG_blank (g : Seq → Seq) {e : Seq} (h : RegLf e) : ∀ l ∈ linesG g e, l = [] := by
  induction h with
  | nil => intro l hl; simp [linesG, splitNl] at hl
  | @lf e _ ih =>
    intro l hl
    have : linesG g (10 :: e) = [[]] ++ linesG g e := linesG_append g [] e
    rw [this] at hl
    simp only [List.mem_append, List.mem_singleton] at hl
    rcases hl with rfl | hl
    · rfl
    · exact ih l hl
  | @crlf e _ ih =>
    intro l hl
    have : linesG g (13 :: 10 :: e) = [[]] ++ linesG g e := linesG_append g [13] e
    rw [this] at hl
    simp only [List.mem_append, List.mem_singleton] at hl
    rcases hl with rfl | hl
    · rfl
    · exact ih l hl

/-- a stripped text: empty, or ending with a byte that is not an end-of-line byte -/
def Stripped (t : Seq) : Prop := t = [] ∨ ∃ t' c, t = t' ++ [c] ∧ isEol c = false

/-- **stripping regular trailing line ends only removes blank lines** -/
theorem linesG_strip (g : Seq → Seq) (hg : GoodLast g) {t0 e : Seq} (ht : Stripped t0) (he : RegLf e) :
    ∃ bl, linesG g (t0 ++ e) = linesG g t0 ++ bl ∧ ∀ l ∈ bl, l = [] := by
  rcases ht with rfl | ⟨t', c, rfl, hc⟩
  · exact ⟨linesG g e, by simp [linesG, splitNl], linesG_blank g he⟩
  · obtain ⟨h1, h2⟩ := linesG_snoc g hg t' c hc
    cases he with
    | nil => exact ⟨[], by simp, by simp⟩
    | @lf e' he' =>
      refine ⟨linesG g e', ?_, linesG_blank g he'⟩
      rw [linesG_append, h1]
    | @crlf e' he' =>
      refine ⟨linesG g e', ?_, linesG_blank g he'⟩
      have : t' ++ [c] ++ 13 :: 10 :: e' = (t' ++ [c] ++ [13]) ++ 10 :: e' := by simp
      rw [this, linesG_append, h2]

theorem dropWhile_head {α : Type} (p : α → Bool) : ∀ (l : List α),
    l.dropWhile p = [] ∨ ∃ c r, l.dropWhile p = c :: r ∧ p c = false
  | [] => Or.inl rfl
  | a :: t => by
    by_cases h : p a = true
    · simp only [List.dropWhile_cons, h, if_true]; exact dropWhile_head p t
    · right
      have h' : p a = false := by simpa using h
      exact ⟨a, t, by simp [h'], h'⟩

theorem stripped_stripEol (t : Seq) : Stripped (stripEol t) := by
  unfold stripEol
  rcases dropWhile_head isEol t.reverse with h | ⟨c, r, h, hc⟩
  · left; rw [h]; rfl
  · right; exact ⟨r.reverse, c, by rw [h]; simp, hc⟩

/-- every `\r` is followed by `\n`: lines end with `\n` or `\r\n` -/
def regularEol : Seq → Bool
  | [] => true
  | c :: t => (c != 13 || t.head? == some 10) && regularEol t

theorem regularEol_suffix : ∀ (a b : Seq), regularEol (a ++ b) = true → regularEol b = true
  | [], _, h => h
  | c :: a, b, h => by
    simp only [List.cons_append, regularEol, Bool.and_eq_true] at h
    exact regularEol_suffix a b h.2

theorem regLf_of_regular : ∀ (n : Nat) (e : Seq), e.length ≤ n → AllEol e → regularEol e = true → RegLf e := by
  intro n
  induction n with
  | zero =>
    intro e hl _ _
    have : e = [] := List.eq_nil_of_length_eq_zero (by omega)
    subst this; exact RegLf.nil
  | succ n ih =>
    intro e hl hall hreg
    cases e with
    | nil => exact RegLf.nil
    | cons c t =>
      have hc : isEol c = true := hall c (by simp)
      have ht : AllEol t := fun x hx => hall x (by simp [hx])
      simp only [regularEol, Bool.and_eq_true, Bool.or_eq_true] at hreg
      obtain ⟨hhead, hregt⟩ := hreg
      simp only [List.length_cons] at hl
      rcases eol_cases' hc with rfl | rfl
      · exact RegLf.lf (ih t (by omega) ht hregt)
      · rcases hhead with hh | hh
        · exact absurd hh (by decide)
        · cases t with
          | nil => simp at hh
          | cons d t' =>
            have hd : d = 10 := by simpa using hh
            subst hd
            have ht' : AllEol t' := fun x hx => ht x (by simp [hx])
            simp only [regularEol, Bool.and_eq_true] at hregt
            simp only [List.length_cons] at hl
            exact RegLf.crlf (ih t' (by omega) ht' hregt.2)
where
  eol_cases' {c : UInt8} (h : isEol c = true) : c = 10 ∨ c = 13 := by simpa [isEol] using h

/-- the lines of a text with regular line ends are those of its stripped form plus blank lines -/
theorem linesG_stripEol (g : Seq → Seq) (hg : GoodLast g) (t : Seq) (hreg : regularEol t = true) :
    ∃ bl, linesG g t = linesG g (stripEol t) ++ bl ∧ ∀ l ∈ bl, l = [] := by
  obtain ⟨e, he, hall⟩ := stripEol_decomp t
  have hre : regularEol e = true := by
    rw [he] at hreg; exact regularEol_suffix _ _ hreg
  have := linesG_strip g hg (stripped_stripEol t) (regLf_of_regular e.length e (Nat.le_refl _) hall hre)
  rw [← he] at this
  exact this

/-- a text that ends with an end-of-record line: its lines end with `//`, also after stripping, and the
lines of what follows are independent of it -/
theorem linesG_flatEnd (g : Seq → Seq) (hg : GoodLast g) {a : Seq} (h : FlatEnd a) :
    ∃ L, linesG g a = L ++ [slashes] ∧ linesG g (stripEol a) = L ++ [slashes] ∧ stripEol a ≠ [] ∧
    ∀ b, linesG g (a ++ b) = L ++ [slashes] ++ linesG g b := by
  have hs : linesG g [47, 47] = [slashes] := by
    have h2 : g ([47] ++ [47]) = [47] ++ [47] := hg [47] 47 (by decide)
    have h3 : splitNl [47, 47] [] = ([], [47, 47]) := by decide
    unfold linesG
    rw [h3]
    simpa [slashes] using h2
  have hs1 : linesG g [47, 47, 10] = [slashes] := rfl
  have hs2 : linesG g [47, 47, 13, 10] = [slashes] := rfl
  obtain ⟨p, h | h⟩ := h
  · have hstrip : stripEol a = p ++ [10, 47, 47] := by
      rw [h]; simp [stripEol, isEol]
    refine ⟨linesG g (p ++ [10]), ?_, ?_, ?_, ?_⟩
    · rw [h, linesG_append g p [47, 47, 10], hs1]
    · rw [hstrip, linesG_append g p [47, 47], hs]
    · rw [hstrip]; simp
    · intro b
      have e1 : a ++ b = (p ++ [10, 47, 47]) ++ 10 :: b := by rw [h]; simp
      have e2 : (p ++ [10, 47, 47]) ++ [10] = p ++ 10 :: [47, 47, 10] := by simp
      rw [e1, linesG_append, e2, linesG_append, hs1]
  · have hstrip : stripEol a = p ++ [10, 47, 47] := by
      rw [h]; simp [stripEol, isEol]
    refine ⟨linesG g (p ++ [10]), ?_, ?_, ?_, ?_⟩
    · rw [h, linesG_append g p [47, 47, 13, 10], hs2]
    · rw [hstrip, linesG_append g p [47, 47], hs]
    · rw [hstrip]; simp
    · intro b
      have e1 : a ++ b = (p ++ [10, 47, 47, 13]) ++ 10 :: b := by rw [h]; simp
      have e2 : (p ++ [10, 47, 47, 13]) ++ [10] = p ++ 10 :: [47, 47, 13, 10] := by simp
      rw [e1, linesG_append, e2, linesG_append, hs2]

/-! ## The GenBank line machine -/

/-- the records of a run -/
def gbRecs (wf : Bool) (s : GbSt) (L : List Seq) : Except Fatal (List Rec) :=
  match gbRun wf s L with
  | .error e => .error e
  | .ok (_, rs) => .ok rs

theorem parseGenbank_eq (wf : Bool) (c : Seq) : parseGenbank wf c = gbRecs wf {} (linesG id c) := rfl

theorem gbRun_append (wf : Bool) : ∀ (L1 L2 : List Seq) (s : GbSt),
    gbRun wf s (L1 ++ L2) =
      match gbRun wf s L1 with
      | .error e => .error e
      | .ok (sa, r1) =>
        match gbRun wf sa L2 with
        | .error e => .error e
        | .ok (sb, r2) => .ok (sb, r1 ++ r2) := by
  intro L1
  induction L1 with
  | nil =>
    intro L2 s
    simp only [List.nil_append, gbRun]
    cases gbRun wf s L2 with
    | error e => rfl
    | ok p => obtain ⟨sb, r2⟩ := p; simp
  | cons l t ih =>
    intro L2 s
    simp only [List.cons_append, gbRun]
    cases gbLine wf s l with
    | error e => rfl
    | ok p =>
      obtain ⟨sa, r⟩ := p
      simp only
      rw [ih]
      cases gbRun wf sa t with
      | error e => rfl
      | ok p2 =>
        obtain ⟨sb, r1⟩ := p2
        simp only
        cases gbRun wf sb L2 with
        | error e => rfl
        | ok p3 => obtain ⟨sc, r2⟩ := p3; simp

theorem gbRecs_append (wf : Bool) (L1 L2 : List Seq) (s : GbSt) :
    gbRecs wf s (L1 ++ L2) =
      match gbRun wf s L1 with
      | .error e => .error e
      | .ok (sa, r1) =>
        match gbRecs wf sa L2 with
        | .error e => .error e
        | .ok r2 => .ok (r1 ++ r2) := by
  unfold gbRecs
  rw [gbRun_append]
  cases gbRun wf s L1 with
  | error e => rfl
  | ok p =>
    obtain ⟨sa, r1⟩ := p
    simp only
    cases gbRun wf sa L2 with
    | error e => rfl
    | ok p2 => rfl

theorem gbRecs_cons_ok {wf : Bool} {s sa : GbSt} {line : Seq} {o : Option Rec} (t : List Seq)
    (h : gbLine wf s line = .ok (sa, o)) :
    gbRecs wf s (line :: t) =
      match gbRecs wf sa t with
      | .error e => .error e
      | .ok rs => .ok (o.toList ++ rs) := by
  unfold gbRecs
  simp only [gbRun, h]
  cases gbRun wf sa t with
  | error e => rfl
  | ok p => rfl

theorem gbRecs_cons_err {wf : Bool} {s : GbSt} {line : Seq} {e : Fatal} (t : List Seq)
    (h : gbLine wf s line = .error e) : gbRecs wf s (line :: t) = .error e := by
  unfold gbRecs
  simp only [gbRun, h]

/-- **in state `inHeader` a line is fatal, ignored, or a `LOCUS` line** — uniformly in the rest of the
state; a `LOCUS` line overwrites `id` and `seqB` -/
theorem gbLine_state0 (wf : Bool) (line : Seq) :
    (∃ e, ∀ s : GbSt, s.state = 0 → gbLine wf s line = .error e) ∨
    (∀ s : GbSt, s.state = 0 → gbLine wf s line = .ok (s, none)) ∨
    (∃ i, ∀ s : GbSt, s.state = 0 →
      gbLine wf s line = .ok ({ s with id := i, seqB := [], state := 1 }, none)) := by
  by_cases hlen : line.length > 100
  · left; exact ⟨.fatal, fun s _ => by simp [gbLine, hlen]⟩
  by_cases h1 : hasPrefix gbLOCUS line = true
  · right; right; exact ⟨(line.drop 12).takeWhile (· != 32), fun s hs => by simp [gbLine, hlen, gbDispatch, h1, hs]⟩
  by_cases h2 : hasPrefix gbDEFINITION line = true
  · left; exact ⟨.fatal, fun s hs => by simp [gbLine, hlen, gbDispatch, h1, h2, hs]⟩
  by_cases h3 : hasPrefix gbSOURCE line = true
  · left; exact ⟨.fatal, fun s hs => by simp [gbLine, hlen, gbDispatch, h1, h2, h3, hs]⟩
  by_cases h4 : hasPrefix gbFEATURES line = true
  · left; exact ⟨.fatal, fun s hs => by simp [gbLine, hlen, gbDispatch, h1, h2, h3, h4, hs]⟩
  by_cases h5 : hasPrefix gbORIGIN line = true
  · left; exact ⟨.fatal, fun s hs => by simp [gbLine, hlen, gbDispatch, h1, h2, h3, h4, h5, hs]⟩
  by_cases h6 : hasPrefix gbCONTIG line = true
  · left; exact ⟨.fatal, fun s hs => by simp [gbLine, hlen, gbDispatch, h1, h2, h3, h4, h5, h6, hs]⟩
  by_cases h7 : (line == slashes) = true
  · left; exact ⟨.fatal, fun s hs => by simp [gbLine, hlen, gbDispatch, h1, h2, h3, h4, h5, h6, h7, hs]⟩
  · right; left
    intro s hs
    simp [gbLine, hlen, gbDispatch, h1, h2, h3, h4, h5, h6, h7, hs]

/-- two `inHeader` states that differ at most in the dead fields `id` and `seqB` -/
def Sim0 (s s' : GbSt) : Prop :=
  s.state = 0 ∧ s'.state = 0 ∧ s.sci = s'.sci ∧ s.defB = s'.defB ∧ s.featB = s'.featB ∧ s.taxid = s'.taxid

/-- such states produce the same records (and the same fatal outcome) on every list of lines -/
theorem gbRecs_state0 (wf : Bool) : ∀ (L : List Seq) (s s' : GbSt), Sim0 s s' → gbRecs wf s L = gbRecs wf s' L := by
  intro L
  induction L with
  | nil => intro s s' _; rfl
  | cons line t ih =>
    intro s s' hsim
    obtain ⟨hs, hs', h1, h2, h3, h4⟩ := hsim
    rcases gbLine_state0 wf line with ⟨e, he⟩ | hstay | ⟨i, hloc⟩
    · rw [gbRecs_cons_err t (he s hs), gbRecs_cons_err t (he s' hs')]
    · rw [gbRecs_cons_ok t (hstay s hs), gbRecs_cons_ok t (hstay s' hs'), ih s s' ⟨hs, hs', h1, h2, h3, h4⟩]
    · rw [gbRecs_cons_ok t (hloc s hs), gbRecs_cons_ok t (hloc s' hs')]
      have : ({ s with id := i, seqB := [], state := 1 } : GbSt) = { s' with id := i, seqB := [], state := 1 } := by
        cases s; cases s'; simp_all
      rw [this]

/-- after a successful `//` line every accumulator but the dead ones is reset (repaired parser) -/
theorem gbLine_slashes {wf : Bool} {s sa : GbSt} {o : Option Rec} (h : gbLine wf s slashes = .ok (sa, o)) :
    Sim0 sa {} := by
  have p1 : hasPrefix gbLOCUS slashes = false := by decide
  have p2 : hasPrefix gbDEFINITION slashes = false := by decide
  have p3 : hasPrefix gbCONT slashes = false := by decide
  have p4 : hasPrefix gbSOURCE slashes = false := by decide
  have p5 : hasPrefix gbFEATURES slashes = false := by decide
  have p6 : hasPrefix gbORIGIN slashes = false := by decide
  have p7 : hasPrefix gbCONTIG slashes = false := by decide
  have hl : ¬ slashes.length > 100 := by decide
  simp only [gbLine, hl, if_false, gbDispatch, p1, p2, p3, p4, p5, p6, p7, Bool.false_eq_true, beq_self_eq_true,
    if_true] at h
  split at h
  · split at h <;> simp at h
  · split at h
    · cases h
    · simp only [Except.ok.injEq, Prod.mk.injEq] at h
      obtain ⟨rfl, _⟩ := h
      exact ⟨rfl, rfl, rfl, rfl, rfl, rfl⟩

/-- a blank line emits nothing -/
theorem gbLine_blank {wf : Bool} {s sa : GbSt} {o : Option Rec} (h : gbLine wf s [] = .ok (sa, o)) : o = none := by
  have p1 : hasPrefix gbLOCUS [] = false := by decide
  have p2 : hasPrefix gbDEFINITION [] = false := by decide
  have p3 : hasPrefix gbCONT [] = false := by decide
  have p4 : hasPrefix gbSOURCE [] = false := by decide
  have p5 : hasPrefix gbFEATURES [] = false := by decide
  have p6 : hasPrefix gbORIGIN [] = false := by decide
  have p7 : hasPrefix gbCONTIG [] = false := by decide
  have p8 : hasPrefix gbXREF [] = false := by decide
  have p9 : (([] : Seq) == slashes) = false := by decide
  simp only [gbLine, List.length_nil, gbDispatch, p1, p2, p3, p4, p5, p6, p7, p8, p9, Bool.false_eq_true,
    if_false] at h
  repeat' split at h
  all_goals first
    | (simp only [Except.ok.injEq, Prod.mk.injEq] at h; exact h.2.symm)
    | (cases h; done)
    | (simp at h; done)

theorem gbRun_blanks (wf : Bool) : ∀ (bl : List Seq) (s sa : GbSt) (rs : List Rec), (∀ l ∈ bl, l = []) →
    gbRun wf s bl = .ok (sa, rs) → rs = [] := by
  intro bl
  induction bl with
  | nil => intro s sa rs _ h; simp only [gbRun, Except.ok.injEq, Prod.mk.injEq] at h; exact h.2.symm
  | cons l t ih =>
    intro s sa rs hbl h
    have hl : l = [] := hbl l (by simp)
    subst hl
    simp only [gbRun] at h
    cases hstep : gbLine wf s [] with
    | error e => rw [hstep] at h; cases h
    | ok p =>
      obtain ⟨sb, o⟩ := p
      rw [hstep] at h
      simp only at h
      cases hrun : gbRun wf sb t with
      | error e => rw [hrun] at h; cases h
      | ok p2 =>
        obtain ⟨sc, r2⟩ := p2
        rw [hrun] at h
        simp only [Except.ok.injEq, Prod.mk.injEq] at h
        rw [← h.2, gbLine_blank hstep, ih sb sc r2 (fun x hx => hbl x (by simp [hx])) hrun]
        rfl

/-- blank lines at the end do not change the records of a successful run -/
theorem gbRecs_blanks {wf : Bool} {s : GbSt} {L bl : List Seq} {rs : List Rec} (hbl : ∀ l ∈ bl, l = [])
    (h : gbRecs wf s (L ++ bl) = .ok rs) : gbRecs wf s L = .ok rs := by
  rw [gbRecs_append] at h
  unfold gbRecs at h ⊢
  cases h1 : gbRun wf s L with
  | error e => rw [h1] at h; cases h
  | ok p =>
    obtain ⟨sa, r1⟩ := p
    rw [h1] at h
    simp only at h ⊢
    cases h2 : gbRun wf sa bl with
    | error e => rw [h2] at h; cases h
    | ok p2 =>
      obtain ⟨sb, r2⟩ := p2
      rw [h2] at h
      simp only [Except.ok.injEq] at h
      rw [gbRun_blanks wf bl sa sb r2 hbl h2] at h
      simpa using h

/-- **GenBank record locality**: if `a` ends with an end-of-record line, parsing `a ++ b` as one chunk
gives the records of `a` followed by the records of `b`, and fails as `a` fails, else as `b` fails -/
theorem parseGenbank_append_flatEnd (wf : Bool) {a : Seq} (h : FlatEnd a) (b : Seq) :
    parseGenbank wf (a ++ b) =
      match parseGenbank wf a with
      | .error e => .error e
      | .ok ra =>
        match parseGenbank wf b with
        | .error e => .error e
        | .ok rb => .ok (ra ++ rb) := by
  obtain ⟨L, h1, _, _, h4⟩ := linesG_flatEnd id goodLast_id h
  simp only [parseGenbank_eq]
  rw [h4 b, h1, gbRecs_append]
  unfold gbRecs
  cases hA : gbRun wf {} (L ++ [slashes]) with
  | error e => rfl
  | ok p =>
    obtain ⟨sa, r1⟩ := p
    simp only
    have hsim : Sim0 sa {} := by
      rw [gbRun_append] at hA
      cases hL : gbRun wf {} L with
      | error e => rw [hL] at hA; cases hA
      | ok q =>
        obtain ⟨sl, rl⟩ := q
        rw [hL] at hA
        simp only [gbRun] at hA
        cases hstep : gbLine wf sl slashes with
        | error e => rw [hstep] at hA; cases hA
        | ok q2 =>
          obtain ⟨sb, o⟩ := q2
          rw [hstep] at hA
          simp only [Except.ok.injEq, Prod.mk.injEq] at hA
          rw [← hA.1]
          exact gbLine_slashes hstep
    have := gbRecs_state0 wf (linesG id b) sa {} hsim
    unfold gbRecs at this
    rw [this]

/-! ## The chunk reader on flat files -/

theorem regularEol_blank (g : Seq → Seq) {t : Seq} (ha : AllEol t) (hreg : regularEol t = true) :
    ∀ l ∈ linesG g t, l = [] :=
  linesG_blank g (regLf_of_regular t.length t (Nat.le_refl _) ha hreg)

/-- the emitted part of a cut, stripped, has the same lines -/
theorem parseGenbank_strip_flatEnd (wf : Bool) {a : Seq} (h : FlatEnd a) :
    parseGenbank wf (stripEol a) = parseGenbank wf a ∧ stripEol a ≠ [] := by
  obtain ⟨L, h1, h2, h3, _⟩ := linesG_flatEnd id goodLast_id h
  exact ⟨by simp only [parseGenbank_eq, h1, h2], h3⟩

/-- what the workers produce from the chunks of a GenBank text with regular line ends that the chunk
parser reads without error, taken in chunk order -/
theorem pieces_parse_genbank (wf : Bool) {cs : List Seq} {t : Seq} (hp : Pieces FlatCut cs t) :
    regularEol t = true → ∀ (rs : List Rec), parseGenbank wf t = .ok rs →
      ∃ rss : List (List Rec), cs.map (parseGenbank wf) = rss.map Except.ok ∧ rss.flatten = rs := by
  induction hp with
  | @nil t h0 =>
    intro hreg rs hrs
    refine ⟨[], rfl, ?_⟩
    rw [parseGenbank_eq] at hrs
    have := gbRecs_blanks (L := []) (regularEol_blank id h0 hreg) (by simpa using hrs)
    simp only [gbRecs, gbRun, Except.ok.injEq] at this
    simpa using this
  | @lastStripped t _ =>
    intro hreg rs hrs
    obtain ⟨bl, hl, hbl⟩ := linesG_stripEol id goodLast_id t hreg
    rw [parseGenbank_eq, hl] at hrs
    have := gbRecs_blanks hbl hrs
    exact ⟨[rs], by simp [parseGenbank_eq, this], by simp⟩
  | @lastRaw t _ =>
    intro _ rs hrs
    exact ⟨[rs], by simp [hrs], by simp⟩
  | @cut a b cs hcut _ _ ih =>
    intro hreg rs hrs
    rw [parseGenbank_append_flatEnd wf hcut b] at hrs
    obtain ⟨hstrip, _⟩ := parseGenbank_strip_flatEnd wf hcut
    cases ha : parseGenbank wf a with
    | error e => rw [ha] at hrs; cases hrs
    | ok ra =>
      rw [ha] at hrs
      simp only at hrs
      cases hb : parseGenbank wf b with
      | error e => rw [hb] at hrs; cases hrs
      | ok rb =>
        rw [hb] at hrs
        simp only [Except.ok.injEq] at hrs
        obtain ⟨rss, hmap, hflat⟩ := ih (regularEol_suffix a b hreg) rb hb
        refine ⟨ra :: rss, ?_, ?_⟩
        · simp [hstrip, ha, hmap]
        · simp [hflat, hrs]
  | @skip a b cs hcut hnil _ _ =>
    intro _ rs _
    exact absurd hnil (parseGenbank_strip_flatEnd wf hcut).2

theorem emLine_blank (wf : Bool) (s : EmSt) : emLine wf s [] = (s, none) := by
  have h1 : hasPrefix emID [] = false := by decide
  have h2 : hasPrefix emOS [] = false := by decide
  have h3 : hasPrefix emDE [] = false := by decide
  have h4 : hasPrefix emFH [] = false := by decide
  have h5 : (([] : Seq) == emFHalone) = false := by decide
  have h6 : hasPrefix emFT [] = false := by decide
  have h7 : hasPrefix emSEQ [] = false := by decide
  have h8 : (([] : Seq) == slashes) = false := by decide
  simp [emLine, h1, h2, h3, h4, h5, h6, h7, h8]

theorem emRun_blanks (wf : Bool) : ∀ (bl : List Seq) (s : EmSt), (∀ l ∈ bl, l = []) → emRun wf s bl = (s, []) := by
  intro bl
  induction bl with
  | nil => intro s _; rfl
  | cons l t ih =>
    intro s hbl
    have hl : l = [] := hbl l (by simp)
    subst hl
    simp only [emRun, emLine_blank, ih s (fun x hx => hbl x (by simp [hx]))]
    rfl

theorem emblRecs_blanks (wf : Bool) (L bl : List Seq) (hbl : ∀ l ∈ bl, l = []) :
    (emRun wf {} (L ++ bl)).2 = (emRun wf {} L).2 := by
  rw [emRun_append, emRun_blanks wf bl _ hbl]
  simp

theorem emblRecs_strip_flatEnd (wf : Bool) {a : Seq} (h : FlatEnd a) :
    emblRecs wf (stripEol a) = emblRecs wf a ∧ stripEol a ≠ [] := by
  obtain ⟨L, h1, h2, h3, _⟩ := linesG_flatEnd dropCR goodLast_dropCR h
  exact ⟨by simp only [emblRecs, linesScan_eq, h1, h2], h3⟩

/-- what the workers produce from the chunks of an EMBL text with regular line ends -/
theorem pieces_parse_embl (wf : Bool) {cs : List Seq} {t : Seq} (hp : Pieces FlatCut cs t) :
    regularEol t = true → (cs.map (emblRecs wf)).flatten = emblRecs wf t := by
  induction hp with
  | @nil t h0 =>
    intro hreg
    have := emblRecs_blanks wf [] (linesG dropCR t) (regularEol_blank dropCR h0 hreg)
    simp only [List.nil_append] at this
    simp only [emblRecs, linesScan_eq, this]
    rfl
  | @lastStripped t _ =>
    intro hreg
    obtain ⟨bl, hl, hbl⟩ := linesG_stripEol dropCR goodLast_dropCR t hreg
    simp only [List.map_cons, List.map_nil, List.flatten_cons, List.flatten_nil, List.append_nil]
    simp only [emblRecs, linesScan_eq, hl, emblRecs_blanks wf _ bl hbl]
  | @lastRaw t _ => intro _; simp
  | @cut a b cs hcut _ _ ih =>
    intro hreg
    simp only [List.map_cons, List.flatten_cons]
    rw [ih (regularEol_suffix a b hreg), (emblRecs_strip_flatEnd wf hcut).1, emblRecs_append wf hcut b]
  | @skip a b cs hcut hnil _ _ =>
    intro _
    exact absurd hnil (emblRecs_strip_flatEnd wf hcut).2

end ObiVerif.Parse
