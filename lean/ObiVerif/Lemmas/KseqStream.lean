import ObiVerif.Lemmas.Kseq
/-!
# The kseq buffered stream seen as the flat list of the bytes still to come

`restOf ks` = what is left in the buffer followed by what the `gzread` calls to come will deliver.  On a
clean stream (`Good`: full buffers, then one short one, `is_eof` set exactly when the short one has
been taken) every loop of kseq.h is a function of `restOf` alone, whatever the buffer size: the specs
below are the ones used by `KseqGo.lean` to compare kseq with the Go chunk parsers.
-/
namespace ObiVerif.Kseq

/-- the bytes delivered by a sequence of `gzread` results -/
def flat : List Rd → Bytes
  | [] => []
  | .full c r :: rs => c :: r ++ flat rs
  | .short b :: rs => b ++ flat rs
  | .fail :: rs => flat rs

/-- everything the reader can still see -/
def restOf (ks : KS) : Bytes := ks.cur ++ flat ks.next

/-- full buffers, then exactly one short one: a clean stream -/
def GoodNext : List Rd → Prop
  | [] => False
  | .full _ _ :: rs => GoodNext rs
  | .short _ :: rs => rs = []
  | .fail :: _ => False

def GoodS (e : Bool) (next : List Rd) : Prop := (e = true ∧ next = []) ∨ (e = false ∧ GoodNext next)

/-- `is_eof` is set exactly when the short `gzread` has been consumed -/
def Good (ks : KS) : Prop := GoodS ks.isEof ks.next

/-! ## `reads` on a clean stream -/

theorem reads_clean (bufsz : Nat) (hb : 1 ≤ bufsz) : ∀ (fuel : Nat) (d : Bytes), d.length < fuel →
    GoodNext (reads bufsz .clean fuel d) ∧ flat (reads bufsz .clean fuel d) = d := by
  intro fuel
  induction fuel with
  | zero => intro d h; omega
  | succ n ih =>
    intro d h
    simp only [reads]
    split
    · rename_i hc
      split
      · rename_i c r hcr
        have hlen : (d.drop bufsz).length < n := by
          simp only [List.length_drop]; omega
        obtain ⟨h1, h2⟩ := ih (d.drop bufsz) hlen
        refine ⟨h1, ?_⟩
        simp only [flat, h2]
        have := List.take_append_drop bufsz d
        rw [hcr] at this
        simpa using this
      · rename_i hnil
        exfalso
        have hl := congrArg List.length hnil
        simp only [List.length_take, List.length_nil] at hl
        omega
    · rename_i hc
      simp only [reduceCtorEq, if_false]
      exact ⟨rfl, by simp [flat]⟩

theorem initSt_good (bufsz : Nat) (hb : 1 ≤ bufsz) (junk : UInt8) (d : Bytes) :
    Good (initSt bufsz .clean junk d).ks ∧ restOf (initSt bufsz .clean junk d).ks = d := by
  obtain ⟨h1, h2⟩ := reads_clean bufsz hb (d.length + 1) d (Nat.lt_succ_self _)
  exact ⟨Or.inr ⟨rfl, h1⟩, by simp [restOf, initSt, h2]⟩

/-! ## `ks_getc` -/

theorem getc_cons {ks : KS} {c : UInt8} {t : Bytes} (hg : Good ks) (h : restOf ks = c :: t) :
    ∃ ks', getc ks = (some c, ks') ∧ Good ks' ∧ restOf ks' = t := by
  obtain ⟨cur, e, b, next⟩ := ks
  cases cur with
  | cons a r =>
    simp only [restOf, List.cons_append, List.cons.injEq] at h
    obtain ⟨rfl, h⟩ := h
    exact ⟨⟨r, e, b, next⟩, by simp [getc], hg, h⟩
  | nil =>
    rcases hg with ⟨he, hn⟩ | ⟨he, hn⟩
    · simp only at he hn
      subst hn
      simp [restOf, flat] at h
    · simp only at he hn
      subst he
      cases next with
      | nil => exact absurd hn (by simp [GoodNext])
      | cons rd rest =>
        cases rd with
        | full c' r' =>
          simp only [restOf, flat, List.nil_append, List.cons_append, List.cons.injEq] at h
          obtain ⟨rfl, h⟩ := h
          exact ⟨⟨r', false, c', rest⟩, by simp [getc], Or.inr ⟨rfl, hn⟩, h⟩
        | short bb =>
          have hr : rest = [] := hn
          subst hr
          cases bb with
          | nil => simp [restOf, flat] at h
          | cons c' r' =>
            simp only [restOf, flat, List.nil_append, List.append_nil, List.cons.injEq] at h
            obtain ⟨rfl, h⟩ := h
            exact ⟨⟨r', true, c', []⟩, by simp [getc], Or.inl ⟨rfl, rfl⟩, by simp [restOf, flat, h]⟩
        | fail => exact absurd hn (by simp [GoodNext])

theorem getc_nil {ks : KS} (hg : Good ks) (h : restOf ks = []) :
    ∃ ks', getc ks = (none, ks') ∧ Good ks' ∧ restOf ks' = [] ∧ ks'.isEof = true ∧ ks'.cur = [] := by
  obtain ⟨cur, e, b, next⟩ := ks
  cases cur with
  | cons a r => simp [restOf] at h
  | nil =>
    rcases hg with ⟨he, hn⟩ | ⟨he, hn⟩
    · simp only at he hn
      subst he; subst hn
      exact ⟨⟨[], true, b, []⟩, by simp [getc], Or.inl ⟨rfl, rfl⟩, by simp [restOf, flat], rfl, rfl⟩
    · simp only at he hn
      subst he
      cases next with
      | nil => exact absurd hn (by simp [GoodNext])
      | cons rd rest =>
        cases rd with
        | full c' r' => simp [restOf, flat] at h
        | short bb =>
          have hr : rest = [] := hn
          subst hr
          cases bb with
          | nil => exact ⟨⟨[], true, b, []⟩, by simp [getc], Or.inl ⟨rfl, rfl⟩, by simp [restOf, flat], rfl, rfl⟩
          | cons c' r' => simp [restOf, flat] at h
        | fail => exact absurd hn (by simp [GoodNext])

/-! ## one-step equations of the `ks_getc` loops -/

theorem skipToHeader_none {ks ks' : KS} (h : getc ks = (none, ks')) : skipToHeader ks = (none, ks') := by
  rw [skipToHeader]
  split
  · rename_i k heq; rw [h] at heq; cases heq; rfl
  · rename_i c k heq; rw [h] at heq; cases heq

theorem skipToHeader_some {ks ks' : KS} {c : UInt8} (h : getc ks = (some c, ks')) :
    skipToHeader ks = if c == 62 || c == 64 then (some c, ks') else skipToHeader ks' := by
  rw [skipToHeader]
  split
  · rename_i k heq; rw [h] at heq; cases heq
  · rename_i c k heq; rw [h] at heq; cases heq; rfl

theorem seqLoop_none {ks ks' : KS} (acc : Bytes) (h : getc ks = (none, ks')) :
    seqLoop ks acc = (none, acc, ks') := by
  rw [seqLoop]
  split
  · rename_i k heq; rw [h] at heq; cases heq; rfl
  · rename_i c k heq; rw [h] at heq; cases heq

theorem seqLoop_some {ks ks' : KS} {c : UInt8} (acc : Bytes) (h : getc ks = (some c, ks')) :
    seqLoop ks acc = if c == 62 || c == 43 || c == 64 then (some c, acc, ks')
      else if isGraph c then seqLoop ks' (acc ++ [c]) else seqLoop ks' acc := by
  rw [seqLoop]
  split
  · rename_i k heq; rw [h] at heq; cases heq
  · rename_i c k heq; rw [h] at heq; cases heq; rfl

theorem skipLine_none {ks ks' : KS} (h : getc ks = (none, ks')) : skipLine ks = (none, ks') := by
  rw [skipLine]
  split
  · rename_i k heq; rw [h] at heq; cases heq; rfl
  · rename_i c k heq; rw [h] at heq; cases heq

theorem skipLine_some {ks ks' : KS} {c : UInt8} (h : getc ks = (some c, ks')) :
    skipLine ks = if c == 10 then (some c, ks') else skipLine ks' := by
  rw [skipLine]
  split
  · rename_i k heq; rw [h] at heq; cases heq
  · rename_i c k heq; rw [h] at heq; cases heq; rfl

theorem qualLoop_none {ks ks' : KS} (n : Nat) (acc : Bytes) (h : getc ks = (none, ks')) :
    qualLoop n ks acc = (acc, ks') := by
  rw [qualLoop]
  split
  · rename_i k heq; rw [h] at heq; cases heq; rfl
  · rename_i c k heq; rw [h] at heq; cases heq

theorem qualLoop_some {ks ks' : KS} {c : UInt8} (n : Nat) (acc : Bytes) (h : getc ks = (some c, ks')) :
    qualLoop n ks acc = if acc.length < n then
      (if 33 ≤ c && c ≤ 127 then qualLoop n ks' (acc ++ [c]) else qualLoop n ks' acc) else (acc, ks') := by
  rw [qualLoop]
  split
  · rename_i k heq; rw [h] at heq; cases heq
  · rename_i c k heq; rw [h] at heq; cases heq; rfl

/-! ## the loops as functions of `restOf` -/

theorem skipToHeader_stop : ∀ (l : Bytes) (ks : KS) (h : UInt8) (t : Bytes), Good ks → restOf ks = l ++ h :: t →
    (∀ c ∈ l, (c == 62 || c == 64) = false) → (h == 62 || h == 64) = true →
    ∃ ks', skipToHeader ks = (some h, ks') ∧ Good ks' ∧ restOf ks' = t := by
  intro l
  induction l with
  | nil =>
    intro ks h t hg hr _ hh
    obtain ⟨ks', h1, h2, h3⟩ := getc_cons hg hr
    exact ⟨ks', by rw [skipToHeader_some h1, if_pos hh], h2, h3⟩
  | cons a l ih =>
    intro ks h t hg hr hl hh
    obtain ⟨ks1, h1, h2, h3⟩ := getc_cons hg hr
    have ha : (a == 62 || a == 64) = false := hl a (by simp)
    obtain ⟨ks', h4, h5, h6⟩ := ih ks1 h t h2 h3 (fun c hc => hl c (by simp [hc])) hh
    refine ⟨ks', ?_, h5, h6⟩
    rw [skipToHeader_some h1, ha]
    simpa using h4

theorem skipToHeader_end : ∀ (l : Bytes) (ks : KS), Good ks → restOf ks = l →
    (∀ c ∈ l, (c == 62 || c == 64) = false) →
    ∃ ks', skipToHeader ks = (none, ks') := by
  intro l
  induction l with
  | nil =>
    intro ks hg hr _
    obtain ⟨ks', h1, _⟩ := getc_nil hg hr
    exact ⟨ks', skipToHeader_none h1⟩
  | cons a l ih =>
    intro ks hg hr hl
    obtain ⟨ks1, h1, h2, h3⟩ := getc_cons hg hr
    have ha : (a == 62 || a == 64) = false := hl a (by simp)
    obtain ⟨ks', h4⟩ := ih ks1 h2 h3 (fun c hc => hl c (by simp [hc]))
    refine ⟨ks', ?_⟩
    rw [skipToHeader_some h1, ha]
    simpa using h4

/-- the bytes `seqLoop` does not stop on -/
def Plain (l : Bytes) : Prop := ∀ c ∈ l, (c == 62 || c == 43 || c == 64) = false

theorem Plain.append {a b : Bytes} (ha : Plain a) (hb : Plain b) : Plain (a ++ b) := by
  intro c hc
  rcases List.mem_append.mp hc with h | h
  · exact ha c h
  · exact hb c h

theorem seqLoop_stop : ∀ (l : Bytes) (ks : KS) (acc : Bytes) (s : UInt8) (t : Bytes), Good ks →
    restOf ks = l ++ s :: t → Plain l → (s == 62 || s == 43 || s == 64) = true →
    ∃ ks', seqLoop ks acc = (some s, acc ++ l.filter isGraph, ks') ∧ Good ks' ∧ restOf ks' = t := by
  intro l
  induction l with
  | nil =>
    intro ks acc s t hg hr _ hs
    obtain ⟨ks', h1, h2, h3⟩ := getc_cons hg hr
    exact ⟨ks', by rw [seqLoop_some acc h1, if_pos hs]; simp, h2, h3⟩
  | cons a l ih =>
    intro ks acc s t hg hr hl hs
    obtain ⟨ks1, h1, h2, h3⟩ := getc_cons hg hr
    have ha : (a == 62 || a == 43 || a == 64) = false := hl a (by simp)
    have hl' : Plain l := fun c hc => hl c (by simp [hc])
    rw [seqLoop_some acc h1, ha]
    by_cases hgr : isGraph a = true
    · obtain ⟨ks', h4, h5, h6⟩ := ih ks1 (acc ++ [a]) s t h2 h3 hl' hs
      refine ⟨ks', ?_, h5, h6⟩
      simp only [Bool.false_eq_true, if_false, hgr, if_true, h4, List.filter_cons]
      simp
    · obtain ⟨ks', h4, h5, h6⟩ := ih ks1 acc s t h2 h3 hl' hs
      refine ⟨ks', ?_, h5, h6⟩
      simp only [Bool.false_eq_true, if_false, hgr, h4, List.filter_cons]

theorem seqLoop_end : ∀ (l : Bytes) (ks : KS) (acc : Bytes), Good ks → restOf ks = l → Plain l →
    ∃ ks', seqLoop ks acc = (none, acc ++ l.filter isGraph, ks') ∧ Good ks' ∧ restOf ks' = [] ∧
      ks'.isEof = true ∧ ks'.cur = [] := by
  intro l
  induction l with
  | nil =>
    intro ks acc hg hr _
    obtain ⟨ks', h1, h2, h3, h4, h5⟩ := getc_nil hg hr
    exact ⟨ks', by rw [seqLoop_none acc h1]; simp, h2, h3, h4, h5⟩
  | cons a l ih =>
    intro ks acc hg hr hl
    obtain ⟨ks1, h1, h2, h3⟩ := getc_cons hg hr
    have ha : (a == 62 || a == 43 || a == 64) = false := hl a (by simp)
    have hl' : Plain l := fun c hc => hl c (by simp [hc])
    rw [seqLoop_some acc h1, ha]
    by_cases hgr : isGraph a = true
    · obtain ⟨ks', h4, h5⟩ := ih ks1 (acc ++ [a]) h2 h3 hl'
      refine ⟨ks', ?_, h5⟩
      simp only [Bool.false_eq_true, if_false, hgr, if_true, h4, List.filter_cons]
      simp
    · obtain ⟨ks', h4, h5⟩ := ih ks1 acc h2 h3 hl'
      refine ⟨ks', ?_, h5⟩
      simp only [Bool.false_eq_true, if_false, hgr, h4, List.filter_cons]

theorem skipLine_stop : ∀ (l : Bytes) (ks : KS) (t : Bytes), Good ks → restOf ks = l ++ 10 :: t →
    (∀ c ∈ l, c ≠ 10) → ∃ ks', skipLine ks = (some 10, ks') ∧ Good ks' ∧ restOf ks' = t := by
  intro l
  induction l with
  | nil =>
    intro ks t hg hr _
    obtain ⟨ks', h1, h2, h3⟩ := getc_cons hg hr
    exact ⟨ks', by rw [skipLine_some h1]; rfl, h2, h3⟩
  | cons a l ih =>
    intro ks t hg hr hl
    obtain ⟨ks1, h1, h2, h3⟩ := getc_cons hg hr
    have ha : (a == 10) = false := by simpa using hl a (by simp)
    obtain ⟨ks', h4, h5, h6⟩ := ih ks1 t h2 h3 (fun c hc => hl c (by simp [hc]))
    refine ⟨ks', ?_, h5, h6⟩
    rw [skipLine_some h1, ha]
    simpa using h4

/-- the bytes `qualLoop` keeps -/
def inQ (c : UInt8) : Bool := 33 ≤ c && c ≤ 127

/-- bytes that are not quality characters are skipped as long as the quality string is not complete -/
theorem qualLoop_skip : ∀ (e : Bytes) (n : Nat) (ks : KS) (acc : Bytes) (t : Bytes), Good ks → restOf ks = e ++ t →
    (∀ c ∈ e, inQ c = false) → acc.length < n →
    ∃ ks', qualLoop n ks acc = qualLoop n ks' acc ∧ Good ks' ∧ restOf ks' = t := by
  intro e
  induction e with
  | nil => intro n ks acc t hg hr _ _; exact ⟨ks, rfl, hg, hr⟩
  | cons a e ih =>
    intro n ks acc t hg hr he hn
    obtain ⟨ks1, h1, h2, h3⟩ := getc_cons hg hr
    have ha : (33 ≤ a && a ≤ 127) = false := he a (by simp)
    obtain ⟨ks', h4, h5, h6⟩ := ih n ks1 acc t h2 h3 (fun c hc => he c (by simp [hc])) hn
    refine ⟨ks', ?_, h5, h6⟩
    rw [qualLoop_some n acc h1, if_pos hn, ha]
    simpa using h4

/-- the quality characters are taken until the string is as long as the sequence; the loop then reads
one byte more and drops it -/
theorem qualLoop_take : ∀ (q : Bytes) (n : Nat) (ks : KS) (acc : Bytes) (y : Bytes), Good ks → restOf ks = q ++ y →
    (∀ c ∈ q, inQ c = true) → acc.length + q.length = n →
    ∃ ks', qualLoop n ks acc = (acc ++ q, ks') ∧ Good ks' ∧ restOf ks' = y.drop 1 := by
  intro q
  induction q with
  | nil =>
    intro n ks acc y hg hr _ hn
    have hn' : ¬ acc.length < n := by simp at hn; omega
    cases y with
    | nil =>
      obtain ⟨ks', h1, h2, h3, _⟩ := getc_nil hg hr
      exact ⟨ks', by rw [qualLoop_none n acc h1]; simp, h2, by simpa using h3⟩
    | cons c y' =>
      obtain ⟨ks', h1, h2, h3⟩ := getc_cons hg hr
      exact ⟨ks', by rw [qualLoop_some n acc h1, if_neg hn']; simp, h2, by simpa using h3⟩
  | cons a q ih =>
    intro n ks acc y hg hr hq hn
    obtain ⟨ks1, h1, h2, h3⟩ := getc_cons hg hr
    have ha : (33 ≤ a && a ≤ 127) = true := hq a (by simp)
    have hlt : acc.length < n := by simp at hn; omega
    obtain ⟨ks', h4, h5, h6⟩ := ih n ks1 (acc ++ [a]) y h2 h3 (fun c hc => hq c (by simp [hc]))
      (by simp at hn ⊢; omega)
    refine ⟨ks', ?_, h5, h6⟩
    rw [qualLoop_some n acc h1, if_pos hlt, ha]
    simpa using h4

end ObiVerif.Kseq
