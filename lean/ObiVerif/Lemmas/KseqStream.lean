import ObiVerif.Lemmas.Kseq
/-!
# The kseq buffered stream seen as the flat list of the bytes still to come

`restOf ks` = what is left in the buffer followed by what the `gzread` calls to come will deliver.  On a
clean stream (`Good`: full buffers, then one short one, `is_eof` set exactly when the short one has
been taken) every loop of kseq.h is a function of `restOf` alone, whatever the buffer size: the specs
below are the ones used by `KseqGo.lean` to compare kseq with the Go chunk parsers.
-/
namespace ObiVerif.Kseq

/-- the bytes delivered by a sequence of `gzread` results -/
def flat : List Rd → Bytes
  | [] => []
  | .full c r :: rs => c :: r ++ flat rs
  | .short b :: rs => b ++ flat rs
  | .fail :: rs => flat rs

/-- everything the reader can still see -/
def restOf (ks : KS) : Bytes := ks.cur ++ flat ks.next

/-- full buffers, then exactly one short one: a clean stream -/
def GoodNext : List Rd → Prop
  | [] => False
  | .full _ _ :: rs => GoodNext rs
  | .short _ :: rs => rs = []
  | .fail :: _ => False

def GoodS (e : Bool) (next : List Rd) : Prop := (e = true ∧ next = []) ∨ (e = false ∧ GoodNext next)

/-- `is_eof` is set exactly when the short `gzread` has been consumed -/
def Good (ks : KS) : Prop := GoodS ks.isEof ks.next

/-! ## `reads` on a clean stream -/

theorem reads_clean (bufsz : Nat) (hb : 1 ≤ bufsz) : ∀ (fuel : Nat) (d : Bytes), d.length < fuel →
    GoodNext (reads bufsz .clean fuel d) ∧ flat (reads bufsz .clean fuel d) = d := by
  intro fuel
  induction fuel with
  | zero => intro d h; omega
  | succ n ih =>
    intro d h
    simp only [reads]
    split
    · rename_i hc
      split
      · rename_i c r hcr
        have hlen : (d.drop bufsz).length < n := by
          simp only [List.length_drop]; omega
        obtain ⟨h1, h2⟩ := ih (d.drop bufsz) hlen
        refine ⟨h1, ?_⟩
        simp only [flat, h2]
        have := List.take_append_drop bufsz d
        rw [hcr] at this
        simpa using this
      · rename_i hnil
        exfalso
        have hl := congrArg List.length hnil
        simp only [List.length_take, List.length_nil] at hl
        omega
    · rename_i hc
      simp only [reduceCtorEq, if_false]
      exact ⟨rfl, by simp [flat]⟩

theorem initSt_good (bufsz : Nat) (hb : 1 ≤ bufsz) (junk : UInt8) (d : Bytes) :
    Good (initSt bufsz .clean junk d).ks ∧ restOf (initSt bufsz .clean junk d).ks = d := by
  obtain ⟨h1, h2⟩ := reads_clean bufsz hb (d.length + 1) d (Nat.lt_succ_self _)
  exact ⟨Or.inr ⟨rfl, h1⟩, by simp [restOf, initSt, h2]⟩

/-! ## `ks_getc` -/

theorem getc_cons {ks : KS} {c : UInt8} {t : Bytes} (hg : Good ks) (h : restOf ks = c :: t) :
    ∃ ks', getc ks = (some c, ks') ∧ Good ks' ∧ restOf ks' = t := by
  obtain ⟨cur, e, b, next⟩ := ks
  cases cur with
  | cons a r =>
    simp only [restOf, List.cons_append, List.cons.injEq] at h
    obtain ⟨rfl, h⟩ := h
    exact ⟨⟨r, e, b, next⟩, by simp [getc], hg, h⟩
  | nil =>
    rcases hg with ⟨he, hn⟩ | ⟨he, hn⟩
    · simp only at he hn
      subst hn
      simp [restOf, flat] at h
    · simp only at he hn
      subst he
      cases next with
      | nil => exact absurd hn (by simp [GoodNext])
      | cons rd rest =>
        cases rd with
        | full c' r' =>
          simp only [restOf, flat, List.nil_append, List.cons_append, List.cons.injEq] at h
          obtain ⟨rfl, h⟩ := h
          exact ⟨⟨r', false, c', rest⟩, by simp [getc], Or.inr ⟨rfl, hn⟩, h⟩
        | short bb =>
          have hr : rest = [] := hn
          subst hr
          cases bb with
          | nil => simp [restOf, flat] at h
          | cons c' r' =>
            simp only [restOf, flat, List.nil_append, List.append_nil, List.cons.injEq] at h
            obtain ⟨rfl, h⟩ := h
            exact ⟨⟨r', true, c', []⟩, by simp [getc], Or.inl ⟨rfl, rfl⟩, by simp [restOf, flat, h]⟩
        | fail => exact absurd hn (by simp [GoodNext])

theorem getc_nil {ks : KS} (hg : Good ks) (h : restOf ks = []) :
    ∃ ks', getc ks = (none, ks') ∧ Good ks' ∧ restOf ks' = [] ∧ ks'.isEof = true ∧ ks'.cur = [] := by
  obtain ⟨cur, e, b, next⟩ := ks
  cases cur with
  | cons a r => simp [restOf] at h
  | nil =>
    rcases hg with ⟨he, hn⟩ | ⟨he, hn⟩
    · simp only at he hn
      subst he; subst hn
      exact ⟨⟨[], true, b, []⟩, by simp [getc], Or.inl ⟨rfl, rfl⟩, by simp [restOf, flat], rfl, rfl⟩
    · simp only at he hn
      subst he
      cases next with
      | nil => exact absurd hn (by simp [GoodNext])
      | cons rd rest =>
        cases rd with
        | full c' r' => simp [restOf, flat] at h
        | short bb =>
          have hr : rest = [] := hn
          subst hr
          cases bb with
          | nil => exact ⟨⟨[], true, b, []⟩, by simp [getc], Or.inl ⟨rfl, rfl⟩, by simp [restOf, flat], rfl, rfl⟩
          | cons c' r' => simp [restOf, flat] at h
        | fail => exact absurd hn (by simp [GoodNext])

/-! ## one-step equations of the `ks_getc` loops -/

theorem skipToHeader_none {ks ks' : KS} (h : getc ks = (none, ks')) : skipToHeader ks = (none, ks') := by
  rw [skipToHeader]
  split
  · rename_i k heq; rw [h] at heq; cases heq; rfl
  · rename_i c k heq; rw [h] at heq; cases heq

theorem skipToHeader_some {ks ks' : KS} {c : UInt8} (h : getc ks = (some c, ks')) :
    skipToHeader ks = if c == 62 || c == 64 then (some c, ks') else skipToHeader ks' := by
  rw [skipToHeader]
  split
  · rename_i k heq; rw [h] at heq; cases heq
  · rename_i c k heq; rw [h] at heq; cases heq; rfl

theorem seqLoop_none {ks ks' : KS} (acc : Bytes) (h : getc ks = (none, ks')) :
    seqLoop ks acc = (none, acc, ks') := by
  rw [seqLoop]
  split
  · rename_i k heq; rw [h] at heq; cases heq; rfl
  · rename_i c k heq; rw [h] at heq; cases heq

theorem seqLoop_some {ks ks' : KS} {c : UInt8} (acc : Bytes) (h : getc ks = (some c, ks')) :
    seqLoop ks acc = if c == 62 || c == 43 || c == 64 then (some c, acc, ks')
      else if isGraph c then seqLoop ks' (acc ++ [c]) else seqLoop ks' acc := by
  rw [seqLoop]
  split
  · rename_i k heq; rw [h] at heq; cases heq
  · rename_i c k heq; rw [h] at heq; cases heq; rfl

theorem skipLine_none {ks ks' : KS} (h : getc ks = (none, ks')) : skipLine ks = (none, ks') := by
  rw [skipLine]
  split
  · rename_i k heq; rw [h] at heq; cases heq; rfl
  · rename_i c k heq; rw [h] at heq; cases heq

theorem skipLine_some {ks ks' : KS} {c : UInt8} (h : getc ks = (some c, ks')) :
    skipLine ks = if c == 10 then (some c, ks') else skipLine ks' := by
  rw [skipLine]
  split
  · rename_i k heq; rw [h] at heq; cases heq
  · rename_i c k heq; rw [h] at heq; cases heq; rfl

theorem qualLoop_none {ks ks' : KS} (n : Nat) (acc : Bytes) (h : getc ks = (none, ks')) :
    qualLoop n ks acc = (acc, ks') := by
  rw [qualLoop]
  split
  · rename_i k heq; rw [h] at heq; cases heq; rfl
  · rename_i c k heq; rw [h] at heq; cases heq

theorem qualLoop_some {ks ks' : KS} {c : UInt8} (n : Nat) (acc : Bytes) (h : getc ks = (some c, ks')) :
    qualLoop n ks acc = if acc.length < n then
      (if 33 ≤ c && c ≤ 127 then qualLoop n ks' (acc ++ [c]) else qualLoop n ks' acc) else (acc, ks') := by
  rw [qualLoop]
  split
  · rename_i k heq; rw [h] at heq; cases heq
  · rename_i c k heq; rw [h] at heq; cases heq; rfl

/-! ## the loops as functions of `restOf` -/

theorem skipToHeader_stop : ∀ (l : Bytes) (ks : KS) (h : UInt8) (t : Bytes), Good ks → restOf ks = l ++ h :: t →
    (∀ c ∈ l, (c == 62 || c == 64) = false) → (h == 62 || h == 64) = true →
    ∃ ks', skipToHeader ks = (some h, ks') ∧ Good ks' ∧ restOf ks' = t := by
  intro l
  induction l with
  | nil =>
    intro ks h t hg hr _ hh
    obtain ⟨ks', h1, h2, h3⟩ := getc_cons hg hr
    exact ⟨ks', by rw [skipToHeader_some h1, if_pos hh], h2, h3⟩
  | cons a l ih =>
    intro ks h t hg hr hl hh
    obtain ⟨ks1, h1, h2, h3⟩ := getc_cons hg hr
    have ha : (a == 62 || a == 64) = false := hl a (by simp)
    obtain ⟨ks', h4, h5, h6⟩ := ih ks1 h t h2 h3 (fun c hc => hl c (by simp [hc])) hh
    refine ⟨ks', ?_, h5, h6⟩
    rw [skipToHeader_some h1, ha]
    simpa using h4

theorem skipToHeader_end : ∀ (l : Bytes) (ks : KS), Good ks → restOf ks = l →
    (∀ c ∈ l, (c == 62 || c == 64) = false) →
    ∃ ks', skipToHeader ks = (none, ks') := by
  intro l
  induction l with
  | nil =>
    intro ks hg hr _
    obtain ⟨ks', h1, _⟩ := getc_nil hg hr
    exact ⟨ks', skipToHeader_none h1⟩
  | cons a l ih =>
    intro ks hg hr hl
    obtain ⟨ks1, h1, h2, h3⟩ := getc_cons hg hr
    have ha : (a == 62 || a == 64) = false := hl a (by simp)
    obtain ⟨ks', h4⟩ := ih ks1 h2 h3 (fun c hc => hl c (by simp [hc]))
    refine ⟨ks', ?_⟩
    rw [skipToHeader_some h1, ha]
    simpa using h4

/-- the bytes `seqLoop` does not stop on -/
def Plain (l : Bytes) : Prop := ∀ c ∈ l, (c == 62 || c == 43 || c == 64) = false

theorem Plain.append {a b : Bytes} (ha : Plain a) (hb : Plain b) : Plain (a ++ b) := by
  intro c hc
  rcases List.mem_append.mp hc with h | h
  · exact ha c h
  · exact hb c h

theorem seqLoop_stop : ∀ (l : Bytes) (ks : KS) (acc : Bytes) (s : UInt8) (t : Bytes), Good ks →
    restOf ks = l ++ s :: t → Plain l → (s == 62 || s == 43 || s == 64) = true →
    ∃ ks', seqLoop ks acc = (some s, acc ++ l.filter isGraph, ks') ∧ Good ks' ∧ restOf ks' = t := by
  intro l
  induction l with
  | nil =>
    intro ks acc s t hg hr _ hs
    obtain ⟨ks', h1, h2, h3⟩ := getc_cons hg hr
    exact ⟨ks', by rw [seqLoop_some acc h1, if_pos hs]; simp, h2, h3⟩
  | cons a l ih =>
    intro ks acc s t hg hr hl hs
    obtain ⟨ks1, h1, h2, h3⟩ := getc_cons hg hr
    have ha : (a == 62 || a == 43 || a == 64) = false := hl a (by simp)
    have hl' : Plain l := fun c hc => hl c (by simp [hc])
    rw [seqLoop_some acc h1, ha]
    by_cases hgr : isGraph a = true
    · obtain ⟨ks', h4, h5, h6⟩ := ih ks1 (acc ++ [a]) s t h2 h3 hl' hs
      refine ⟨ks', ?_, h5, h6⟩
      simp only [Bool.false_eq_true, if_false, hgr, if_true, h4, List.filter_cons]
      simp
    · obtain ⟨ks', h4, h5, h6⟩ := ih ks1 acc s t h2 h3 hl' hs
      refine ⟨ks', ?_, h5, h6⟩
      simp only [Bool.false_eq_true, if_false, hgr, h4, List.filter_cons]

theorem seqLoop_end : ∀ (l : Bytes) (ks : KS) (acc : Bytes), Good ks → restOf ks = l → Plain l →
    ∃ ks', seqLoop ks acc = (none, acc ++ l.filter isGraph, ks') ∧ Good ks' ∧ restOf ks' = [] ∧
      ks'.isEof = true ∧ ks'.cur = [] := by
  intro l
  induction l with
  | nil =>
    intro ks acc hg hr _
    obtain ⟨ks', h1, h2, h3, h4, h5⟩ := getc_nil hg hr
    exact ⟨ks', by rw [seqLoop_none acc h1]; simp, h2, h3, h4, h5⟩
  | cons a l ih =>
    intro ks acc hg hr hl
    obtain ⟨ks1, h1, h2, h3⟩ := getc_cons hg hr
    have ha : (a == 62 || a == 43 || a == 64) = false := hl a (by simp)
    have hl' : Plain l := fun c hc => hl c (by simp [hc])
    rw [seqLoop_some acc h1, ha]
    by_cases hgr : isGraph a = true
    · obtain ⟨ks', h4, h5⟩ := ih ks1 (acc ++ [a]) h2 h3 hl'
      refine ⟨ks', ?_, h5⟩
      simp only [Bool.false_eq_true, if_false, hgr, if_true, h4, List.filter_cons]
      simp
    · obtain ⟨ks', h4, h5⟩ := ih ks1 acc h2 h3 hl'
      refine ⟨ks', ?_, h5⟩
      simp only [Bool.false_eq_true, if_false, hgr, h4, List.filter_cons]

theorem skipLine_stop : ∀ (l : Bytes) (ks : KS) (t : Bytes), Good ks → restOf ks = l ++ 10 :: t →
    (∀ c ∈ l, c ≠ 10) → ∃ ks', skipLine ks = (some 10, ks') ∧ Good ks' ∧ restOf ks' = t := by
  intro l
  induction l with
  | nil =>
    intro ks t hg hr _
    obtain ⟨ks', h1, h2, h3⟩ := getc_cons hg hr
    exact ⟨ks', by rw [skipLine_some h1]; rfl, h2, h3⟩
  | cons a l ih =>
    intro ks t hg hr hl
    obtain ⟨ks1, h1, h2, h3⟩ := getc_cons hg hr
    have ha : (a == 10) = false := by simpa using hl a (by simp)
    obtain ⟨ks', h4, h5, h6⟩ := ih ks1 t h2 h3 (fun c hc => hl c (by simp [hc]))
    refine ⟨ks', ?_, h5, h6⟩
    rw [skipLine_some h1, ha]
    simpa using h4

/-- the bytes `qualLoop` keeps -/
def inQ (c : UInt8) : Bool := 33 ≤ c && c ≤ 127

/-- bytes that are not quality characters are skipped as long as the quality string is not complete -/
theorem qualLoop_skip : ∀ (e : Bytes) (n : Nat) (ks : KS) (acc : Bytes) (t : Bytes), Good ks → restOf ks = e ++ t →
    (∀ c ∈ e, inQ c = false) → acc.length < n →
    ∃ ks', qualLoop n ks acc = qualLoop n ks' acc ∧ Good ks' ∧ restOf ks' = t := by
  intro e
  induction e with
  | nil => intro n ks acc t hg hr _ _; exact ⟨ks, rfl, hg, hr⟩
  | cons a e ih =>
    intro n ks acc t hg hr he hn
    obtain ⟨ks1, h1, h2, h3⟩ := getc_cons hg hr
    have ha : (33 ≤ a && a ≤ 127) = false := he a (by simp)
    obtain ⟨ks', h4, h5, h6⟩ := ih n ks1 acc t h2 h3 (fun c hc => he c (by simp [hc])) hn
    refine ⟨ks', ?_, h5, h6⟩
    rw [qualLoop_some n acc h1, if_pos hn, ha]
    simpa using h4

/-- the quality characters are taken until the string is as long as the sequence; the loop then reads
one byte more and drops it -/
theorem qualLoop_take : ∀ (q : Bytes) (n : Nat) (ks : KS) (acc : Bytes) (y : Bytes), Good ks → restOf ks = q ++ y →
    (∀ c ∈ q, inQ c = true) → acc.length + q.length = n →
    ∃ ks', qualLoop n ks acc = (acc ++ q, ks') ∧ Good ks' ∧ restOf ks' = y.drop 1 := by
  intro q
  induction q with
  | nil =>
    intro n ks acc y hg hr _ hn
    have hn' : ¬ acc.length < n := by simp at hn; omega
    cases y with
    | nil =>
      obtain ⟨ks', h1, h2, h3, _⟩ := getc_nil hg hr
      exact ⟨ks', by rw [qualLoop_none n acc h1]; simp, h2, by simpa using h3⟩
    | cons c y' =>
      obtain ⟨ks', h1, h2, h3⟩ := getc_cons hg hr
      exact ⟨ks', by rw [qualLoop_some n acc h1, if_neg hn']; simp, h2, by simpa using h3⟩
  | cons a q ih =>
    intro n ks acc y hg hr hq hn
    obtain ⟨ks1, h1, h2, h3⟩ := getc_cons hg hr
    have ha : (33 ≤ a && a ≤ 127) = true := hq a (by simp)
    have hlt : acc.length < n := by simp at hn; omega
    obtain ⟨ks', h4, h5, h6⟩ := ih n ks1 (acc ++ [a]) y h2 h3 (fun c hc => hq c (by simp [hc]))
      (by simp at hn ⊢; omega)
    refine ⟨ks', ?_, h5, h6⟩
    rw [qualLoop_some n acc h1, if_pos hlt, ha]
    simpa using h4

/-! ## `ks_getuntil` -/

theorem tw_app_stop {α} (p : α → Bool) : ∀ (cur X : List α) (d : α) (r : List α), cur.dropWhile p = d :: r →
    (cur ++ X).takeWhile p = cur.takeWhile p ∧ (cur ++ X).dropWhile p = d :: (r ++ X) := by
  intro cur
  induction cur with
  | nil => intro X d r h; simp at h
  | cons a cur ih =>
    intro X d r h
    by_cases ha : p a = true
    · simp only [List.dropWhile_cons, ha, if_true] at h
      obtain ⟨h1, h2⟩ := ih X d r h
      simp [ha, h1, h2]
    · simp only [List.dropWhile_cons, ha] at h
      simp only [Bool.false_eq_true, if_false, List.cons.injEq] at h
      obtain ⟨rfl, rfl⟩ := h
      simp [ha]

theorem tw_app_all {α} (p : α → Bool) : ∀ (cur X : List α), cur.dropWhile p = [] →
    (cur ++ X).takeWhile p = cur ++ X.takeWhile p ∧ (cur ++ X).dropWhile p = X.dropWhile p ∧
      cur.takeWhile p = cur := by
  intro cur
  induction cur with
  | nil => intro X _; simp
  | cons a cur ih =>
    intro X h
    by_cases ha : p a = true
    · simp only [List.dropWhile_cons, ha, if_true] at h
      obtain ⟨h1, h2, h3⟩ := ih X h
      simp [ha, h1, h2, h3]
    · simp [ha] at h

/-- the delimiter is found: the string is what precedes it, whatever the buffer boundaries -/
theorem guLoop_found (sep : UInt8 → Bool) : ∀ (next : List Rd) (cur : Bytes) (e : Bool) (b : UInt8) (acc : Bytes)
    (s : UInt8) (t : Bytes), GoodS e next → (cur ++ flat next).dropWhile (fun c => !sep c) = s :: t →
    ∃ ks', guLoop sep next cur e b acc = (acc ++ (cur ++ flat next).takeWhile (fun c => !sep c), s, ks') ∧
      Good ks' ∧ restOf ks' = t := by
  intro next
  induction next with
  | nil =>
    intro cur e b acc s t hg h
    simp only [flat, List.append_nil] at h ⊢
    unfold guLoop
    simp only [h]
    exact ⟨_, rfl, hg, by simp [restOf, flat]⟩
  | cons rd rest ih =>
    intro cur e b acc s t hg h
    cases hd : cur.dropWhile (fun c => !sep c) with
    | cons d r =>
      obtain ⟨h1, h2⟩ := tw_app_stop (fun c => !sep c) cur (flat (rd :: rest)) d r hd
      rw [h2] at h
      simp only [List.cons.injEq] at h
      obtain ⟨rfl, rfl⟩ := h
      unfold guLoop
      simp only [hd, h1]
      exact ⟨_, rfl, hg, by simp [restOf]⟩
    | nil =>
      obtain ⟨h1, h2, h3⟩ := tw_app_all (fun c => !sep c) cur (flat (rd :: rest)) hd
      rcases hg with ⟨_, hn⟩ | ⟨he, hn⟩
      · cases hn
      · subst he
        cases rd with
        | fail => exact absurd hn (by simp [GoodNext])
        | short bb =>
          have hr : rest = [] := hn
          subst hr
          have hf : flat [Rd.short bb] = bb ++ flat [] := by simp [flat]
          rw [h2, hf] at h
          rw [hf] at h1
          obtain ⟨ks', h4, h5, h6⟩ := ih bb true (bb.headD b) (acc ++ cur) s t (Or.inl ⟨rfl, rfl⟩) h
          refine ⟨ks', ?_, h5, h6⟩
          unfold guLoop
          simp only [hd, h3, Bool.false_eq_true, if_false, h4, h1, hf, List.append_assoc]
        | full c r =>
          have hf : flat (Rd.full c r :: rest) = (c :: r) ++ flat rest := by simp [flat]
          rw [h2, hf] at h
          rw [hf] at h1
          obtain ⟨ks', h4, h5, h6⟩ := ih (c :: r) false c (acc ++ cur) s t (Or.inr ⟨rfl, hn⟩) h
          refine ⟨ks', ?_, h5, h6⟩
          unfold guLoop
          simp only [hd, h3, Bool.false_eq_true, if_false, h4, h1, hf, List.append_assoc]

theorem getuntil_found (sep : UInt8 → Bool) (ks : KS) (s : UInt8) (t : Bytes) (hg : Good ks)
    (h : (restOf ks).dropWhile (fun c => !sep c) = s :: t) :
    ∃ ks', getuntil sep ks = ⟨((restOf ks).takeWhile (fun c => !sep c)).length,
        (restOf ks).takeWhile (fun c => !sep c), s, ks'⟩ ∧ Good ks' ∧ restOf ks' = t := by
  obtain ⟨ks', h1, h2, h3⟩ := guLoop_found sep ks.next ks.cur ks.isEof ks.buf0 [] s t hg h
  refine ⟨ks', ?_, h2, h3⟩
  have hne : (ks.cur.isEmpty && ks.isEof) = false := by
    cases hc : ks.cur with
    | cons a r => simp
    | nil =>
      cases he : ks.isEof with
      | false => simp
      | true =>
        exfalso
        rcases hg with ⟨_, hn⟩ | ⟨he', _⟩
        · simp [restOf, hc, hn, flat] at h
        · rw [he] at he'; cases he'
  unfold getuntil
  simp only [hne, Bool.false_eq_true, if_false, h1, restOf, List.nil_append]

/-- first occurrence of a delimiter in a list -/
theorem tw_first {α} (p : α → Bool) : ∀ (l : List α) (s : α) (t : List α), (∀ c ∈ l, p c = true) → p s = false →
    (l ++ s :: t).takeWhile p = l ∧ (l ++ s :: t).dropWhile p = s :: t := by
  intro l
  induction l with
  | nil => intro s t _ hs; simp [hs]
  | cons a l ih =>
    intro s t hl hs
    have ha : p a = true := hl a (by simp)
    obtain ⟨h1, h2⟩ := ih s t (fun c hc => hl c (by simp [hc])) hs
    simp [ha, h1, h2]

/-! ## `kseq_read` after the name and the comment -/

/-- `kseq_read` from the sequence loop on, the name and the comment being known -/
def kseqTail (lc : UInt8) (nm cm : Bytes) (ks1 : KS) : Int × Rec × St :=
  let s := seqLoop ks1 []
  let lc2 := match s.1 with
    | some c => if c == 62 || c == 64 then c else lc
    | none => lc
  if s.1 != some 43 then ((s.2.1.length : Int), ⟨nm, cm, s.2.1, []⟩, ⟨lc2, s.2.2⟩) else
  let k := skipLine s.2.2
  match k.1 with
  | none => (-2, ⟨nm, cm, s.2.1, []⟩, ⟨lc2, k.2⟩)
  | some _ =>
    let q := qualLoop s.2.1.length k.2 []
    if s.2.1.length != q.1.length then (-2, ⟨nm, cm, s.2.1, q.1⟩, ⟨0, q.2⟩)
    else ((s.2.1.length : Int), ⟨nm, cm, s.2.1, q.1⟩, ⟨0, q.2⟩)

theorem kseqBody_eq (lc : UInt8) (ks : KS) (hg : ¬ (getuntil isSpace ks).ret < 0) :
    kseqBody lc ks = kseqTail lc (getuntil isSpace ks).str (cmOf (getuntil isSpace ks)).str
      (cmOf (getuntil isSpace ks)).ks := by
  simp only [kseqBody, hg, if_false, cmOf, kseqTail]
  rfl

theorem mem_of_dropWhile {α} (p : α → Bool) {l : List α} {x : α} (h : x ∈ l.dropWhile p) : x ∈ l := by
  have := List.takeWhile_append_dropWhile (p := p) (l := l)
  rw [← this]
  exact List.mem_append.mpr (Or.inr h)

/-- the header line: name = up to the first `isspace` byte, comment = what follows that byte up to the
first LF — whatever the buffer boundaries -/
theorem kseqBody_head (ks : KS) (W R : Bytes) (hg : Good ks) (hr : restOf ks = W ++ 10 :: R)
    (hW : ∀ c ∈ W, c ≠ 10) :
    ∃ ks1, Good ks1 ∧ restOf ks1 = R ∧ ∀ lc, kseqBody lc ks =
      kseqTail lc (W.takeWhile (fun c => !isSpace c)) (W.dropWhile (fun c => !isSpace c)).tail ks1 := by
  have h10 : (fun c => !isSpace c) 10 = false := by decide
  cases hd : W.dropWhile (fun c => !isSpace c) with
  | nil =>
    obtain ⟨h1, h2, h3⟩ := tw_app_all (fun c => !isSpace c) W (10 :: R) hd
    have h2' : (restOf ks).dropWhile (fun c => !isSpace c) = 10 :: R := by
      rw [hr, h2]; simp [h10]
    have h1' : (restOf ks).takeWhile (fun c => !isSpace c) = W := by
      rw [hr, h1]; simp [h10]
    obtain ⟨ks1, hgu, hg1, hr1⟩ := getuntil_found isSpace ks 10 R hg h2'
    refine ⟨ks1, hg1, hr1, fun lc => ?_⟩
    have hret : ¬ (getuntil isSpace ks).ret < 0 := by
      rw [hgu]; simp only; omega
    rw [kseqBody_eq lc ks hret, hgu, h1', h3]
    simp [cmOf]
  | cons s w' =>
    obtain ⟨h1, h2⟩ := tw_app_stop (fun c => !isSpace c) W (10 :: R) s w' hd
    rw [← hr] at h1 h2
    obtain ⟨ksg, hgu, hgg, hrg⟩ := getuntil_found isSpace ks s (w' ++ 10 :: R) hg h2
    have hsW : s ∈ W := mem_of_dropWhile _ (by rw [hd]; simp)
    have hw' : ∀ c ∈ w', c ≠ 10 := fun c hc => hW c (mem_of_dropWhile _ (by rw [hd]; simp [hc]))
    have hs10 : (s != 10) = true := by simpa using hW s hsW
    obtain ⟨t1, t2⟩ := tw_first (fun c => !(c == 10)) w' 10 R (fun c hc => by simpa using hw' c hc) (by decide)
    rw [← hrg] at t1 t2
    obtain ⟨ks1, hgu1, hg1, hr1⟩ := getuntil_found (fun c => c == 10) ksg 10 R hgg t2
    refine ⟨ks1, hg1, hr1, fun lc => ?_⟩
    have hret : ¬ (getuntil isSpace ks).ret < 0 := by
      rw [hgu]; simp only; omega
    rw [kseqBody_eq lc ks hret, hgu, h1]
    simp only [cmOf, hs10, if_true, hgu1, t1, List.tail_cons]

/-- FASTA, another record follows: the sequence loop stops on its `>` -/
theorem kseqTail_gt (lc : UInt8) (nm cm : Bytes) (ks1 : KS) (l Z : Bytes) (hg : Good ks1)
    (hr : restOf ks1 = l ++ 62 :: Z) (hl : Plain l) :
    ∃ ks', kseqTail lc nm cm ks1 = (((l.filter isGraph).length : Int), ⟨nm, cm, l.filter isGraph, []⟩, ⟨62, ks'⟩) ∧
      Good ks' ∧ restOf ks' = Z := by
  obtain ⟨ks', h1, h2, h3⟩ := seqLoop_stop l ks1 [] 62 Z hg hr hl (by decide)
  refine ⟨ks', ?_, h2, h3⟩
  simp only [kseqTail, h1, List.nil_append]
  rfl

/-- FASTA, last record: the sequence loop runs into the end of the stream -/
theorem kseqTail_eof (lc : UInt8) (nm cm : Bytes) (ks1 : KS) (l : Bytes) (hg : Good ks1)
    (hr : restOf ks1 = l) (hl : Plain l) :
    ∃ ks', kseqTail lc nm cm ks1 = (((l.filter isGraph).length : Int), ⟨nm, cm, l.filter isGraph, []⟩, ⟨lc, ks'⟩) ∧
      Good ks' ∧ restOf ks' = [] ∧ ks'.isEof = true ∧ ks'.cur = [] := by
  obtain ⟨ks', h1, h2⟩ := seqLoop_end l ks1 [] hg hr hl
  refine ⟨ks', ?_, h2⟩
  simp only [kseqTail, h1, List.nil_append]
  rfl

/-- FASTQ: sequence up to `+`, the rest of that line skipped, the quality string, one byte dropped -/
theorem kseqTail_plus (lc : UInt8) (nm cm : Bytes) (ks1 : KS) (l pl e q Y : Bytes) (hg : Good ks1)
    (hr : restOf ks1 = l ++ 43 :: (pl ++ 10 :: (e ++ (q ++ Y)))) (hl : Plain l) (hpl : ∀ c ∈ pl, c ≠ 10)
    (he : ∀ c ∈ e, inQ c = false) (hq : ∀ c ∈ q, inQ c = true) (hlen : q.length = (l.filter isGraph).length)
    (hpos : 0 < q.length) :
    ∃ ks', kseqTail lc nm cm ks1 = (((l.filter isGraph).length : Int), ⟨nm, cm, l.filter isGraph, q⟩, ⟨0, ks'⟩) ∧
      Good ks' ∧ restOf ks' = Y.drop 1 := by
  obtain ⟨ks2, h1, g2, r2⟩ := seqLoop_stop l ks1 [] 43 _ hg hr hl (by decide)
  obtain ⟨ks3, h2, g3, r3⟩ := skipLine_stop pl ks2 _ g2 r2 hpl
  obtain ⟨ks4, h3, g4, r4⟩ := qualLoop_skip e (l.filter isGraph).length ks3 [] _ g3 r3 he
    (by simp only [List.length_nil]; omega)
  obtain ⟨ks', h4, g5, r5⟩ := qualLoop_take q (l.filter isGraph).length ks4 [] Y g4 r4 hq
    (by simp only [List.length_nil]; omega)
  refine ⟨ks', ?_, g5, r5⟩
  simp only [List.nil_append] at h1 h4
  simp only [kseqTail, h1, h2, h3, h4, hlen]
  simp

/-! ## `kseq_read` and the loop of `_FastseqReader` -/

theorem kseqBody_end (lc : UInt8) (ks : KS) (hc : ks.cur = []) (he : ks.isEof = true) :
    (kseqBody lc ks).1 = -1 := by
  have : getuntil isSpace ks = ⟨-1, [], 0, ks⟩ := by
    simp [getuntil, hc, he]
  simp [kseqBody, this]

/-- `last_char = 0`: bytes are skipped up to the next `>` or `@` -/
theorem kseqRead_hdr (ks : KS) (e : Bytes) (h : UInt8) (R : Bytes) (hg : Good ks) (hr : restOf ks = e ++ h :: R)
    (he : ∀ c ∈ e, (c == 62 || c == 64) = false) (hh : (h == 62 || h == 64) = true) :
    ∃ ks1, Good ks1 ∧ restOf ks1 = R ∧ kseqRead ⟨0, ks⟩ = kseqBody h ks1 := by
  obtain ⟨ks1, h1, h2, h3⟩ := skipToHeader_stop e ks h R hg hr he hh
  refine ⟨ks1, h2, h3, ?_⟩
  simp [kseqRead, h1]

theorem kseqRead_end0 (ks : KS) (e : Bytes) (hg : Good ks) (hr : restOf ks = e)
    (he : ∀ c ∈ e, (c == 62 || c == 64) = false) : (kseqRead ⟨0, ks⟩).1 = -1 := by
  obtain ⟨ks1, h1⟩ := skipToHeader_end e ks hg hr he
  simp [kseqRead, h1]

theorem kseqRead_nz (lc : UInt8) (ks : KS) (h : lc ≠ 0) : kseqRead ⟨lc, ks⟩ = kseqBody lc ks := by
  have : (lc == 0) = false := by simpa using h
  simp [kseqRead, this]

theorem nextFastSek_of_pos (early : Bool) (st : St) (h : 0 < (kseqRead st).1) :
    nextFastSek .clean early st = (1, (kseqRead st).2.1, (kseqRead st).2.2) := by
  have : ¬ (kseqRead st).1 ≤ 0 := by omega
  simp [nextFastSek, this]

theorem nextFastSek_of_end (early : Bool) (st : St) (h : (kseqRead st).1 = -1) :
    (nextFastSek .clean early st).1 = 0 := by
  have he : errnum .clean early (kseqRead st).2.2.ks = .clean := by
    unfold errnum; split <;> rfl
  simp [nextFastSek, h, he]

/-- a record has been read: it is appended and the loop goes on from the new state -/
theorem readLoop_step (early : Bool) (st : St) (acc : List Rec) (h : 0 < (kseqRead st).1) :
    readLoop .clean early st acc = readLoop .clean early (kseqRead st).2.2 (acc ++ [(kseqRead st).2.1]) := by
  have hn := nextFastSek_of_pos early st h
  have hlt : size (kseqRead st).2.2.ks < size st.ks := kseqRead_pos_lt st h
  conv => lhs; rw [readLoop]
  simp only [hn]
  simp [hlt]

/-- `kseq_read` answers -1 on a clean stream: regular end -/
theorem readLoop_stop (early : Bool) (st : St) (acc : List Rec) (h : (kseqRead st).1 = -1) :
    readLoop .clean early st acc = (acc, .ok) := by
  have hn := nextFastSek_of_end early st h
  rw [readLoop]
  simp [hn]

/-- `kseq_read` answers 0 (a record without sequence) on a clean stream: `log.Fatalf` with code -4 -/
theorem readLoop_empty_seq (early : Bool) (st : St) (acc : List Rec) (h : (kseqRead st).1 = 0) :
    readLoop .clean early st acc = (acc, .fatal (-4)) := by
  have he : errnum .clean early (kseqRead st).2.2.ks = .clean := by
    unfold errnum; split <;> rfl
  have hn : (nextFastSek .clean early st).1 = -4 := by
    simp [nextFastSek, h, he]
  rw [readLoop]
  simp [hn]

/-- `kseq_read` answers -2 (quality string shorter than the sequence) on a clean stream: `log.Fatalf` -/
theorem readLoop_short_qual (early : Bool) (st : St) (acc : List Rec) (h : (kseqRead st).1 = -2) :
    readLoop .clean early st acc = (acc, .fatal (-2)) := by
  have he : errnum .clean early (kseqRead st).2.2.ks = .clean := by
    unfold errnum; split <;> rfl
  have hn : (nextFastSek .clean early st).1 = -2 := by
    simp [nextFastSek, h, he]
  rw [readLoop]
  simp [hn]

end ObiVerif.Kseq
