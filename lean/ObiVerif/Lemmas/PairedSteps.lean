import ObiVerif.Model.PairedSteps
import ObiVerif.Lemmas.Reseq
/-! # Safety invariant of the small-step model of a paired output (C04) -/
set_option Elab.async false
namespace ObiVerif.PairedSteps
open ObiVerif.Reseq

theorem fmtHeld_set_count (ws : List FPc) (i : Nat) (old new : FPc) (h : ws[i]? = some old) (k : Nat) :
    (fmtHeld (ws.set i new)).count k + (fmtHeld [old]).count k = (fmtHeld ws).count k + (fmtHeld [new]).count k := by
  induction ws generalizing i with
  | nil => simp at h
  | cons a t ih =>
    cases i with
    | zero =>
      simp at h; subst h
      cases a <;> cases new <;> simp [fmtHeld, List.count_cons] <;> omega
    | succ j =>
      have := ih j (by simpa using h)
      cases a <;> simp [fmtHeld, List.count_cons] at this ⊢ <;> omega

theorem pushHeld_set_count (ws : List FPc) (i : Nat) (old new : FPc) (h : ws[i]? = some old) (k : Nat) :
    (pushHeld (ws.set i new)).count k + (pushHeld [old]).count k = (pushHeld ws).count k + (pushHeld [new]).count k := by
  induction ws generalizing i with
  | nil => simp at h
  | cons a t ih =>
    cases i with
    | zero =>
      simp at h; subst h
      cases a <;> cases new <;> simp [pushHeld, List.count_cons] <;> omega
    | succ j =>
      have := ih j (by simpa using h)
      cases a <;> simp [pushHeld, List.count_cons] at this ⊢ <;> omega

theorem fmtHeld_all_done (ws : List FPc) (h : ∀ pc ∈ ws, pc = .done) : fmtHeld ws = [] := by
  induction ws with
  | nil => rfl
  | cons a t ih =>
    have ha := h a (by simp)
    subst ha
    simp [fmtHeld, ih (fun pc hpc => h pc (by simp [hpc]))]

theorem pushHeld_all_done (ws : List FPc) (h : ∀ pc ∈ ws, pc = .done) : pushHeld ws = [] := by
  induction ws with
  | nil => rfl
  | cons a t ih =>
    have ha := h a (by simp)
    subst ha
    simp [pushHeld, ih (fun pc hpc => h pc (by simp [hpc]))]

/-- a worker that is not done refutes "all done" -/
theorem not_all_done {ws : List FPc} {i : Nat} {pc : FPc} (h : ws[i]? = some pc) (hne : pc ≠ .done)
    (hall : ∀ q ∈ ws, q = .done) : False :=
  hne (hall pc (List.mem_of_getElem? h))

theorem mem_set {ws : List FPc} {i : Nat} {new pc : FPc} (h : pc ∈ ws.set i new) : pc ∈ ws ∨ pc = new :=
  List.mem_or_eq_of_mem_set h

abbrev runId (l : List Nat) : Wr :=
  run (fun l x => l ++ [x]) (fun l x => l ++ [x]) [] (l.map fun k => (k, k))

theorem recv_runId (l : List Nat) (k : Nat) : recv (runId l) k = runId (l ++ [k]) := by
  unfold recv runId run
  rw [List.map_append, List.foldl_append]
  rfl

/-- the safety invariant: conservation of the batches along the two stages, the writer goroutines are the re-sequencing
machine run on what they received, the protocol flags are consistent -/
structure Inv (src : List Nat) (N1 N2 : Nat) (s : St) : Prop where
  c1 : ∀ k, s.todo.count k + (fmtHeld s.ws1).count k + s.arrived1.count k = src.count k
  c2 : ∀ k, s.arrived1.count k =
    (pushHeld s.ws1).count k + (optL s.pw).count k + (fmtHeld s.ws2).count k + s.arrived2.count k
  c3 : ∀ k, s.arrived2.count k = (pushHeld s.ws2).count k + s.delivered.count k
  r1 : s.w1 = runId s.arrived1
  r2 : s.w2 = runId s.arrived2
  fsrc : s.srcDone = true → s.todo = []
  fw1 : ∀ pc ∈ s.ws1, pc = .done → s.srcDone = true
  fmid1 : s.mid1Closed = true → ∀ pc ∈ s.ws1, pc = .done
  fcl1 : s.closed1 = true → ∀ pc ∈ s.ws1, pc = .done
  fpw : s.pwDone = true → s.mid1Closed = true ∧ s.pw = none
  fmid2 : s.mid2Closed = true → s.pwDone = true
  fw2 : ∀ pc ∈ s.ws2, pc = .done → s.mid2Closed = true
  fcl2 : s.closed2 = true → ∀ pc ∈ s.ws2, pc = .done
  fout : s.outClosed = true → ∀ pc ∈ s.ws2, pc = .done
  len1 : s.ws1.length = N1
  len2 : s.ws2.length = N2

theorem fmtHeld_replicate (N : Nat) : fmtHeld (List.replicate N FPc.idle) = [] := by
  induction N with
  | zero => rfl
  | succ n ih => simp [List.replicate_succ, fmtHeld, ih]

theorem pushHeld_replicate (N : Nat) : pushHeld (List.replicate N FPc.idle) = [] := by
  induction N with
  | zero => rfl
  | succ n ih => simp [List.replicate_succ, pushHeld, ih]

theorem inv_init (src : List Nat) (N1 N2 : Nat) : Inv src N1 N2 (init src N1 N2) := by
  refine ⟨?_, ?_, ?_, rfl, rfl, ?_, ?_, ?_, ?_, ?_, ?_, ?_, ?_, ?_, ?_, ?_⟩
  · intro k; simp [init, fmtHeld_replicate]
  · intro k; simp [init, fmtHeld_replicate, pushHeld_replicate, optL]
  · intro k; simp [init, pushHeld_replicate]
  · intro h; simp [init] at h
  · intro pc hpc hd
    simp only [init, List.mem_replicate] at hpc
    rw [hpc.2] at hd; cases hd
  · intro h; simp [init] at h
  · intro h; simp [init] at h
  · intro h; simp [init] at h
  · intro h; simp [init] at h
  · intro pc hpc hd
    simp only [init, List.mem_replicate] at hpc
    rw [hpc.2] at hd; cases hd
  · intro h; simp [init] at h
  · intro h; simp [init] at h
  · simp [init]
  · simp [init]

theorem step_inv {src : List Nat} {N1 N2 : Nat} {s s' : St} (h : Inv src N1 N2 s) (st : Step s s') :
    Inv src N1 N2 s' := by
  cases st with
  | srcHand k t i ht hi =>
    have nd : ¬ ∀ pc ∈ s.ws1, pc = .done := not_all_done hi (by intro e; cases e)
    refine { h with c1 := ?_, c2 := ?_, fsrc := ?_, fw1 := ?_, fmid1 := ?_, fcl1 := ?_, fpw := ?_, len1 := ?_ }
    · intro j
      have := h.c1 j
      have hs := fmtHeld_set_count s.ws1 i _ (.fmt k) hi j
      simp only [ht, List.count_cons, fmtHeld, List.count_nil] at this hs ⊢
      omega
    · intro j
      have := h.c2 j
      have hs := pushHeld_set_count s.ws1 i _ (.fmt k) hi j
      simp only [pushHeld, List.count_nil] at hs
      simp only; omega
    · intro hd
      have := h.fsrc hd; rw [ht] at this; cases this
    · intro pc hpc hd
      rcases mem_set hpc with hm | rfl
      · exact h.fw1 pc hm hd
      · cases hd
    · intro hm; exact absurd (h.fmid1 hm) nd
    · intro hm; exact absurd (h.fcl1 hm) nd
    · intro hm; exact absurd (h.fmid1 (h.fpw hm).1) nd
    · simp [h.len1]
  | srcClose ht hd =>
    refine { h with fsrc := fun _ => ht, fw1 := fun _ _ _ => rfl }
  | f1Finish i hi hd =>
    refine { h with c1 := ?_, c2 := ?_, fw1 := fun _ _ _ => hd, fmid1 := ?_, fcl1 := ?_, fpw := ?_, len1 := ?_ }
    · intro j
      have := h.c1 j
      have hs := fmtHeld_set_count s.ws1 i _ .done hi j
      simp only [fmtHeld, List.count_nil] at hs
      simp only; omega
    · intro j
      have := h.c2 j
      have hs := pushHeld_set_count s.ws1 i _ .done hi j
      simp only [pushHeld, List.count_nil] at hs
      simp only; omega
    · intro hm; exact absurd (h.fmid1 hm) (not_all_done hi (by intro e; cases e))
    · intro hm; exact absurd (h.fcl1 hm) (not_all_done hi (by intro e; cases e))
    · intro hm; exact absurd (h.fmid1 (h.fpw hm).1) (not_all_done hi (by intro e; cases e))
    · simp [h.len1]
  | f1Chunk i k hi =>
    have nd : ¬ ∀ pc ∈ s.ws1, pc = .done := not_all_done hi (by intro e; cases e)
    refine { h with c1 := ?_, c2 := ?_, r1 := ?_, fw1 := ?_, fmid1 := ?_, fcl1 := ?_, fpw := ?_, len1 := ?_ }
    · intro j
      have := h.c1 j
      have hs := fmtHeld_set_count s.ws1 i _ (.push k) hi j
      simp only [fmtHeld, List.count_cons, List.count_nil, List.count_append] at hs ⊢
      omega
    · intro j
      have := h.c2 j
      have hs := pushHeld_set_count s.ws1 i _ (.push k) hi j
      simp only [pushHeld, List.count_cons, List.count_nil, List.count_append] at hs ⊢
      omega
    · show recv s.w1 k = runId (s.arrived1 ++ [k])
      rw [h.r1, recv_runId]
    · intro pc hpc hd
      rcases mem_set hpc with hm | rfl
      · exact h.fw1 pc hm hd
      · cases hd
    · intro hm; exact absurd (h.fmid1 hm) nd
    · intro hm; exact absurd (h.fcl1 hm) nd
    · intro hm; exact absurd (h.fmid1 (h.fpw hm).1) nd
    · simp [h.len1]
  | f1Push i k hi hpw hpd =>
    have nd : ¬ ∀ pc ∈ s.ws1, pc = .done := not_all_done hi (by intro e; cases e)
    refine { h with c1 := ?_, c2 := ?_, fw1 := ?_, fmid1 := ?_, fcl1 := ?_, fpw := ?_, len1 := ?_ }
    · intro j
      have := h.c1 j
      have hs := fmtHeld_set_count s.ws1 i _ .idle hi j
      simp only [fmtHeld, List.count_nil] at hs
      simp only; omega
    · intro j
      have := h.c2 j
      have hs := pushHeld_set_count s.ws1 i _ .idle hi j
      simp only [pushHeld, List.count_cons, List.count_nil, hpw, optL] at hs this ⊢
      omega
    · intro pc hpc hd
      rcases mem_set hpc with hm | rfl
      · exact h.fw1 pc hm hd
      · cases hd
    · intro hm; exact absurd (h.fmid1 hm) nd
    · intro hm; exact absurd (h.fcl1 hm) nd
    · intro hm; simp only at hm; rw [hpd] at hm; cases hm
    · simp [h.len1]
  | close1 hall hc =>
    refine { h with fcl1 := fun _ => hall }
  | mid1Close hall hc =>
    refine { h with fmid1 := fun _ => hall, fpw := ?_ }
    intro hm; exact ⟨rfl, (h.fpw hm).2⟩
  | pwHand k j hpw hj =>
    have nd : ¬ ∀ pc ∈ s.ws2, pc = .done := not_all_done hj (by intro e; cases e)
    refine { h with c2 := ?_, c3 := ?_, fpw := ?_, fw2 := ?_, fcl2 := ?_, fout := ?_, len2 := ?_ }
    · intro m
      have := h.c2 m
      have hs := fmtHeld_set_count s.ws2 j _ (.fmt k) hj m
      simp only [fmtHeld, List.count_cons, List.count_nil, hpw, optL] at hs this ⊢
      omega
    · intro m
      have := h.c3 m
      have hs := pushHeld_set_count s.ws2 j _ (.fmt k) hj m
      simp only [pushHeld, List.count_nil] at hs
      simp only; omega
    · intro hm; exact ⟨(h.fpw hm).1, rfl⟩
    · intro pc hpc hd
      rcases mem_set hpc with hm | rfl
      · exact h.fw2 pc hm hd
      · cases hd
    · intro hm; exact absurd (h.fcl2 hm) nd
    · intro hm; exact absurd (h.fout hm) nd
    · simp [h.len2]
  | pwFinish hpw hm1 hpd =>
    refine { h with fpw := fun _ => ⟨hm1, hpw⟩, fmid2 := fun _ => rfl }
  | mid2Close hpd hm2 =>
    refine { h with fmid2 := fun _ => hpd, fw2 := fun _ _ _ => rfl }
  | f2Finish j hj hm2 =>
    have nd : ¬ ∀ pc ∈ s.ws2, pc = .done := not_all_done hj (by intro e; cases e)
    refine { h with c2 := ?_, c3 := ?_, fw2 := fun _ _ _ => hm2, fcl2 := ?_, fout := ?_, len2 := ?_ }
    · intro m
      have := h.c2 m
      have hs := fmtHeld_set_count s.ws2 j _ .done hj m
      simp only [fmtHeld, List.count_nil] at hs
      simp only; omega
    · intro m
      have := h.c3 m
      have hs := pushHeld_set_count s.ws2 j _ .done hj m
      simp only [pushHeld, List.count_nil] at hs
      simp only; omega
    · intro hm; exact absurd (h.fcl2 hm) nd
    · intro hm; exact absurd (h.fout hm) nd
    · simp [h.len2]
  | f2Chunk j k hj =>
    have nd : ¬ ∀ pc ∈ s.ws2, pc = .done := not_all_done hj (by intro e; cases e)
    refine { h with c2 := ?_, c3 := ?_, r2 := ?_, fw2 := ?_, fcl2 := ?_, fout := ?_, len2 := ?_ }
    · intro m
      have := h.c2 m
      have hs := fmtHeld_set_count s.ws2 j _ (.push k) hj m
      simp only [fmtHeld, List.count_cons, List.count_nil, List.count_append] at hs ⊢
      omega
    · intro m
      have := h.c3 m
      have hs := pushHeld_set_count s.ws2 j _ (.push k) hj m
      simp only [pushHeld, List.count_cons, List.count_nil, List.count_append] at hs ⊢
      omega
    · show recv s.w2 k = runId (s.arrived2 ++ [k])
      rw [h.r2, recv_runId]
    · intro pc hpc hd
      rcases mem_set hpc with hm | rfl
      · exact h.fw2 pc hm hd
      · cases hd
    · intro hm; exact absurd (h.fcl2 hm) nd
    · intro hm; exact absurd (h.fout hm) nd
    · simp [h.len2]
  | f2Push j k hj =>
    have nd : ¬ ∀ pc ∈ s.ws2, pc = .done := not_all_done hj (by intro e; cases e)
    refine { h with c2 := ?_, c3 := ?_, fw2 := ?_, fcl2 := ?_, fout := ?_, len2 := ?_ }
    · intro m
      have := h.c2 m
      have hs := fmtHeld_set_count s.ws2 j _ .idle hj m
      simp only [fmtHeld, List.count_nil] at hs
      simp only; omega
    · intro m
      have := h.c3 m
      have hs := pushHeld_set_count s.ws2 j _ .idle hj m
      simp only [pushHeld, List.count_cons, List.count_nil, List.count_append] at hs ⊢
      omega
    · intro pc hpc hd
      rcases mem_set hpc with hm | rfl
      · exact h.fw2 pc hm hd
      · cases hd
    · intro hm; exact absurd (h.fcl2 hm) nd
    · intro hm; exact absurd (h.fout hm) nd
    · simp [h.len2]
  | close2 hall hc =>
    refine { h with fcl2 := fun _ => hall }
  | outClose hall hc =>
    refine { h with fout := fun _ => hall }

theorem reach_inv {src : List Nat} {N1 N2 : Nat} {s : St} (hr : Reach src N1 N2 s) : Inv src N1 N2 s := by
  induction hr with
  | init => exact inv_init src N1 N2
  | step _ st ih => exact step_inv ih st

/-- with at least one worker, "all workers done" means the source is exhausted -/
theorem all_done_todo {src : List Nat} {N1 N2 : Nat} {s : St} (h : Inv src N1 N2 s) (hN : 0 < N1)
    (hall : ∀ pc ∈ s.ws1, pc = .done) : s.todo = [] := by
  have hne : s.ws1 ≠ [] := by
    intro e; have := h.len1; rw [e] at this; simp at this; omega
  obtain ⟨pc, hpc⟩ := List.exists_mem_of_ne_nil _ hne
  exact h.fsrc (h.fw1 pc hpc (hall pc hpc))

theorem perm_of_count {l₁ l₂ : List Nat} (h : ∀ k, l₁.count k = l₂.count k) : l₁.Perm l₂ :=
  List.perm_iff_count.mpr h

/-- when file 1 is closed, writer goroutine 1 has received every batch exactly once -/
theorem arrived1_perm {src : List Nat} {N1 N2 : Nat} {s : St} (h : Inv src N1 N2 s) (hN : 0 < N1)
    (hall : ∀ pc ∈ s.ws1, pc = .done) : s.arrived1.Perm src := by
  apply perm_of_count
  intro k
  have := h.c1 k
  rw [all_done_todo h hN hall, fmtHeld_all_done _ hall] at this
  simpa using this

/-- when file 2 is closed, writer goroutine 2 has received every batch exactly once -/
theorem arrived2_perm {src : List Nat} {N1 N2 : Nat} {s : St} (h : Inv src N1 N2 s) (hN1 : 0 < N1) (hN2 : 0 < N2)
    (hall : ∀ pc ∈ s.ws2, pc = .done) : s.arrived2.Perm src := by
  have hne : s.ws2 ≠ [] := by
    intro e; have := h.len2; rw [e] at this; simp at this; omega
  obtain ⟨pc, hpc⟩ := List.exists_mem_of_ne_nil _ hne
  have hpd := h.fmid2 (h.fw2 pc hpc (hall pc hpc))
  obtain ⟨hm1, hpw⟩ := h.fpw hpd
  have hall1 := h.fmid1 hm1
  refine List.Perm.trans ?_ (arrived1_perm h hN1 hall1)
  apply perm_of_count
  intro k
  have := h.c2 k
  rw [pushHeld_all_done _ hall1, hpw, fmtHeld_all_done _ hall] at this
  simp [optL] at this
  exact this.symm

/-- the re-sequencing machine run on a permutation of `0..n-1` has written `0, 1, …, n-1` and holds nothing back -/
theorem runId_perm (l : List Nat) (n : Nat) (hp : l.Perm (List.range n)) :
    (runId l).acc = List.range n ∧ (runId l).next = n ∧ (runId l).pending = [] := by
  have h := run_perm (fun (l : List Nat) x => l ++ [x]) [] (fun k => k) n l hp
  simp only at h
  refine ⟨?_, h.2.1, h.2.2⟩
  have := h.1
  rw [foldl_snoc] at this
  simpa using this

end ObiVerif.PairedSteps
