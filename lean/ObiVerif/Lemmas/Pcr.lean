import ObiVerif.Model.Pcr
import ObiVerif.Props.C10
import ObiVerif.Lemmas.SeqOps
/-!
# Lemmas for C11 (in-silico PCR)

Built on the proved facts of C10 (`findAllIndex_exact`, `manberAll_exact`, `hits_sorted`, `manberSub_revcomp` …) and C07
(`subsequence_linear`, `circ_window`, `rc_subseq`, `rc_rc`, `revcompInPlace_eq_rc`).
-/
namespace ObiVerif.Pcr
open ObiVerif ObiVerif.Apat

theorem maxPatLen_eq : Gen.apatMaxPatLen = 64 := by decide

/-! ## C07 facts used here
(same statements and proofs as `subsequence_linear`, `revcompInPlace_eq_rc`, `rc_subseq`, `comp_involutive` of
`Props/C07.lean`, restated from `Lemmas/SeqOps.lean` so that this file only depends on the model and lemma files of C07) -/

open SeqOps in
theorem subsequence_linear (s : List UInt8) (a b : Nat) (hab : a < b) (hb : b ≤ s.length) :
    subsequence s a b false = .ok ((s.drop a).take (b - a), a) := by
  have h1 : Int.tmod (a : Int) (s.length : Int) = a := Int.tmod_eq_of_lt (by omega) (by omega)
  have h2 : Int.tmod ((b : Int) - 1) (s.length : Int) = b - 1 := Int.tmod_eq_of_lt (by omega) (by omega)
  have hs : s ≠ [] := List.ne_nil_of_length_pos (by omega)
  have e1 : ¬ b ≤ a := by omega
  have e3 : ¬ s.length ≤ a := by omega
  have e5 : ¬ s.length < b := by omega
  have e6 : ¬ (b : Int) < 0 := by omega
  unfold subsequence
  simp only [h1, h2]
  simp [e1, e3, e5, e6, hs, hab]

open SeqOps in
theorem revcompInPlace_eq_rc (s : List UInt8) : revcompInPlace s = rc s := by
  unfold revcompInPlace rc
  rw [rcLoop_eq_genLoop]
  exact genLoop_spec nucComplement s (s.length + 1) s.toArray s.length 0 (LoopInv.init _ _) (by omega)

open SeqOps in
theorem rc_subseq (s : List UInt8) (a b : Nat) (hab : a ≤ b) (hb : b ≤ s.length) :
    rc ((s.drop a).take (b - a)) = ((rc s).drop (s.length - b)).take (b - a) := by
  unfold rc
  rw [List.map_take, List.map_drop, List.reverse_take, List.reverse_drop, List.drop_take]
  simp only [List.length_drop, List.length_map]
  congr 1
  · omega
  · congr 1; omega

/-- the 15 IUPAC nucleotide symbols (lower case, `u` excluded: `obiseq` complements it to `a`) -/
def iupac : List UInt8 := [97, 99, 103, 116, 114, 121, 109, 107, 115, 119, 98, 100, 104, 118, 110]

theorem comp_involutive : ∀ b ∈ iupac, SeqOps.nucComplement (SeqOps.nucComplement b) = b := by decide
theorem comp_closed : ∀ b ∈ iupac, SeqOps.nucComplement b ∈ iupac := by decide

theorem rc_rc (s : List UInt8) (h : ∀ b ∈ s, b ∈ iupac) : SeqOps.rc (SeqOps.rc s) = s := by
  unfold SeqOps.rc
  rw [List.map_reverse, List.reverse_reverse, List.map_map]
  conv => rhs; rw [← List.map_id s]
  apply List.map_congr_left
  intro b hb
  exact comp_involutive b (h b hb)

theorem rc_length (s : List UInt8) : (SeqOps.rc s).length = s.length := by simp [SeqOps.rc]

/-- the encoded template (what `EncodeSequence` writes for a linear sequence) -/
def enc (seq : Bytes) : List Nat := seq.map encodeByte

@[simp] theorem enc_length (seq : Bytes) : (enc seq).length = seq.length := by simp [enc]

/-- the patterns `_Pcr` uses: compiled without indels, 1..63 positions (C10's domain) -/
structure POk (P : Pattern) : Prop where
  noIndel : P.hasIndel = false
  pos : 1 ≤ P.patlen
  le63 : P.patlen ≤ 63

/-- **a priming site**: the pattern lies at offset `i` of the encoded text, entirely inside it, with exactly `k`
mismatches, none at an obligatory position, `k` within the pattern's budget (C10's `hamCost`) -/
def MatchAt (P : Pattern) (data : List Nat) (i k : Nat) : Prop :=
  i + P.patlen ≤ data.length ∧ hamCost P.codes (data.drop i) = some k ∧ k ≤ P.maxerr

/-- the `[3]int` of a site -/
def hitOf (P : Pattern) (i k : Nat) : Hit := ((i : Int), (i : Int) + P.patlen, (k : Int))

theorem hitOf_inj (P : Pattern) {i k i' k' : Nat} (h : hitOf P i k = hitOf P i' k') : i = i' ∧ k = k' := by
  unfold hitOf at h
  simp only [Prod.mk.injEq] at h
  omega

/-- hits of `FindAllIndex` on a linear sequence = sites inside the window the API applies (C10 `findAllIndex_exact`) -/
theorem mem_fai_linear (P : Pattern) (hP : POk P) (seq : Bytes) (b l : Int) (h : Hit) :
    h ∈ findAllIndex P seq false b l ↔
      ∃ i k : Nat, h = hitOf P i k ∧ MatchAt P (enc seq) i k ∧ (if b < 0 then 0 else b).toNat ≤ i ∧
        i + P.patlen ≤ (if b < 0 then 0 else b).toNat + ((if l < 0 then (seq.length : Int) else l).toNat + 64) := by
  obtain ⟨s, e, k⟩ := h
  rw [Props.C10.findAllIndex_exact P seq b l (Or.inl hP.noIndel) hP.pos hP.le63 s e k]
  simp only [maxPatLen_eq]
  constructor
  · rintro ⟨i', k', rfl, rfl, rfl, hb, he, hc, hk⟩
    refine ⟨i', k', rfl, ⟨?_, hc, hk⟩, hb, ?_⟩
    · simp only [enc_length]; omega
    · omega
  · rintro ⟨i, k', heq, ⟨h1, hc, hk⟩, hb, he⟩
    unfold hitOf at heq
    simp only [Prod.mk.injEq] at heq
    obtain ⟨rfl, rfl, rfl⟩ := heq
    simp only [enc_length] at h1
    exact ⟨i, k', rfl, rfl, rfl, hb, by omega, hc, hk⟩

/-- the search over the whole sequence (`FindAllIndex(seq, 0, -1)`) reports every site -/
theorem mem_fai_all (P : Pattern) (hP : POk P) (seq : Bytes) (h : Hit) :
    h ∈ findAllIndex P seq false 0 (-1) ↔ ∃ i k : Nat, h = hitOf P i k ∧ MatchAt P (enc seq) i k := by
  rw [mem_fai_linear P hP]
  constructor
  · rintro ⟨i, k, h1, h2, _, _⟩; exact ⟨i, k, h1, h2⟩
  · rintro ⟨i, k, h1, h2⟩
    refine ⟨i, k, h1, h2, by simp, ?_⟩
    have := h2.1
    simp only [enc_length] at this
    simp
    omega

/-- the hit list is strictly increasing in the start position (C10 `hits_sorted`), in every mode -/
theorem fai_sorted (P : Pattern) (seq : Bytes) (circ : Bool) (b l : Int) :
    (findAllIndex P seq circ b l).Pairwise (fun x y => x.1 < y.1) := by
  unfold findAllIndex
  rw [List.pairwise_map]
  have hs := Props.C10.hits_sorted P (seqData seq circ) (if b < 0 then 0 else b).toNat
    ((if l < 0 then (seq.length : Int) else l).toNat + Gen.apatMaxPatLen)
  unfold manberAll
  split
  · exact hs.2.2
  · split
    · exact hs.2.1
    · exact hs.1

theorem fai_nodup (P : Pattern) (seq : Bytes) (circ : Bool) (b l : Int) : (findAllIndex P seq circ b l).Nodup := by
  rw [List.nodup_iff_pairwise_ne]
  refine (fai_sorted P seq circ b l).imp ?_
  intro x y hxy he
  rw [he] at hxy
  exact absurd hxy (Int.lt_irrefl _)

/-- the first hit has the smallest start, the last one the largest -/
theorem head_le_of_sorted {l : List Hit} (hs : l.Pairwise (fun x y => x.1 < y.1)) {f x : Hit}
    (hf : l.head? = some f) (hx : x ∈ l) : f.1 ≤ x.1 := by
  obtain ⟨ys, rfl⟩ := List.head?_eq_some_iff.mp hf
  rw [List.pairwise_cons] at hs
  rcases List.mem_cons.mp hx with rfl | hx
  · exact Int.le_refl _
  · exact Int.le_of_lt (hs.1 x hx)

theorem le_last_of_sorted {l : List Hit} (hs : l.Pairwise (fun x y => x.1 < y.1)) {z x : Hit}
    (hz : l.getLast? = some z) (hx : x ∈ l) : x.1 ≤ z.1 := by
  obtain ⟨ys, rfl⟩ := List.getLast?_eq_some_iff.mp hz
  rw [List.pairwise_append] at hs
  rcases List.mem_append.mp hx with hx | hx
  · exact Int.le_of_lt (hs.2.2 x hx z (by simp))
  · simp only [List.mem_singleton] at hx
    subst hx; exact Int.le_refl _

/-! ## the two nested loops -/

/-- an entry of one orientation block comes from a hit of the direct primer, a hit of the complemented primer in the
window, both starting inside the sequence, through `pairStep` (any topology) -/
theorem mem_block_iff (isFwd : Bool) (D C : Pattern) (wrapLen winLen : Int) (o : Opts) (seq : Bytes)
    (x : Except Bad Amplicon) :
    x ∈ block isFwd D C wrapLen winLen o seq ↔
      ∃ first last fm rm, (findAllIndex D seq o.circular 0 (-1)).head? = some first ∧
        (findAllIndex D seq o.circular 0 (-1)).getLast? = some last ∧
        fm ∈ findAllIndex D seq o.circular 0 (-1) ∧
        rm ∈ findAllIndex C seq o.circular (revWindow o seq.length winLen first last).1
          (revWindow o seq.length winLen first last).2 ∧
        fm.1 < (seq.length : Int) ∧ rm.1 < (seq.length : Int) ∧ pairStep isFwd o seq wrapLen fm rm = some x := by
  unfold block
  generalize findAllIndex D seq o.circular 0 (-1) = fms
  simp only []
  split
  · rename_i first last hh hl
    simp only [hh, hl]
    simp only [List.mem_flatMap, Option.some.injEq]
    constructor
    · rintro ⟨fm, hfm, hx⟩
      by_cases hlt : fm.1 < (seq.length : Int)
      · rw [if_pos hlt, List.mem_filterMap] at hx
        obtain ⟨rm, hrm, hstep⟩ := hx
        by_cases hlt2 : rm.1 < (seq.length : Int)
        · rw [if_pos hlt2] at hstep
          exact ⟨first, last, fm, rm, rfl, rfl, hfm, hrm, hlt, hlt2, hstep⟩
        · rw [if_neg hlt2] at hstep; cases hstep
      · rw [if_neg hlt] at hx; cases hx
    · rintro ⟨f', l', fm, rm, rfl, rfl, hfm, hrm, hlt, hlt2, hstep⟩
      refine ⟨fm, hfm, ?_⟩
      rw [if_pos hlt, List.mem_filterMap]
      exact ⟨rm, hrm, by rw [if_pos hlt2]; exact hstep⟩
  · rename_i hne
    constructor
    · intro h; cases h
    · rintro ⟨f', l', _, _, hf, hl, _⟩
      exact absurd hl (hne f' l' hf)

/-! ## linear templates: what one pair of sites yields -/

/-- segment `[a, b)` of the template -/
def seg (seq : Bytes) (a b : Nat) : Bytes := (seq.drop a).take (b - a)

/-- **the window the options ask for**, for a direct site at `i` (length `dl`) and a complemented site at `j` (length `cl`)
on a linear template of length `L`: the segment between the sites, or — with an extension `e` — the two sites and `e` more
symbols on each side, clipped at the ends of the template, or required to be complete (`fullExtension`) -/
def linBounds (o : Opts) (L i dl j cl : Nat) : Option (Nat × Nat) :=
  if o.hasExtension then
    if o.fullExtension then
      if o.extension.toNat ≤ i ∧ j + cl + o.extension.toNat ≤ L then some (i - o.extension.toNat, j + cl + o.extension.toNat)
      else none
    else some (i - o.extension.toNat, min (j + cl + o.extension.toNat) L)
  else some (i + dl, j)

/-- the record reported for a pair of sites: direct site `(i, ki)`, complemented site `(j, kj)`, window `[a, b)`.
Forward orientation: the direct primer is the forward primer. Reverse orientation: the direct primer is the reverse primer,
the amplicon and the match of the complemented forward primer are reverse-complemented. -/
def mkAmp (isFwd : Bool) (seq : Bytes) (i ki j kj dl cl a b : Nat) : Amplicon :=
  if isFwd then
    ⟨true, (a : Int) + 1, b, seg seq a b, seg seq i (i + dl), ki, SeqOps.rc (seg seq j (j + cl)), kj,
      ((i : Int), (i : Int) + dl, (ki : Int)), ((j : Int), (j : Int) + cl, (kj : Int))⟩
  else
    ⟨false, (a : Int) + 1, b, SeqOps.rc (seg seq a b), SeqOps.rc (seg seq j (j + cl)), kj, seg seq i (i + dl), ki,
      ((i : Int), (i : Int) + dl, (ki : Int)), ((j : Int), (j : Int) + cl, (kj : Int))⟩

theorem lengthOk_pos (o : Opts) (g : Int) (h : lengthOk o g = true) : 0 < g := by
  unfold lengthOk at h
  simp only [Bool.and_eq_true, decide_eq_true_eq] at h
  exact h.1.1

theorem lengthOk_nonpos (o : Opts) (g : Int) (h : g ≤ 0) : lengthOk o g = false := by
  cases hh : lengthOk o g with
  | false => rfl
  | true => have := lengthOk_pos o g hh; omega

theorem pairLength_linear (o : Opts) (hc : o.circular = false) (L w : Int) (i dl j cl : Nat) (ki kj : Int) :
    lengthOk o (pairLength o L w ((i : Int), (i : Int) + dl, ki) ((j : Int), (j : Int) + cl, kj)) =
      lengthOk o ((j : Int) - ((i : Int) + dl)) := by
  unfold pairLength
  simp only [hc, Bool.false_and, Bool.false_eq_true, if_false]
  split
  · rfl
  · rename_i h
    rw [lengthOk_nonpos o 0 (Int.le_refl _), lengthOk_nonpos o _ (by omega)]

theorem boundsOpt_linear (o : Opts) (hc : o.circular = false) (L i dl j cl : Nat) (ki kj : Int) :
    (if boundsOk o L (bounds o L ((i : Int), (i : Int) + dl, ki) ((j : Int), (j : Int) + cl, kj)) then
        some (bounds o L ((i : Int), (i : Int) + dl, ki) ((j : Int), (j : Int) + cl, kj)) else none) =
      (linBounds o L i dl j cl).map fun ab => ((ab.1 : Int), (ab.2 : Int)) := by
  by_cases he : o.extension > -1
  · have he' : (o.extension.toNat : Int) = o.extension := Int.toNat_of_nonneg (by omega)
    have hx : o.hasExtension = true := by simp [Opts.hasExtension, he]
    by_cases hf : o.fullExtension = true
    · simp only [bounds, boundsOk, linBounds, hx, hc, hf, Bool.not_true, Bool.and_false, Bool.false_eq_true, if_false,
        if_true, Bool.true_and, Bool.or_false, Bool.and_true, Bool.not_false, Bool.false_and]
      by_cases hin : o.extension.toNat ≤ i ∧ j + cl + o.extension.toNat ≤ L
      · rw [if_pos hin, if_pos (by simp only [Bool.and_eq_true, decide_eq_true_eq]; omega)]
        simp only [Option.map_some, Option.some.injEq, Prod.mk.injEq]
        omega
      · rw [if_neg hin, if_neg (by simp only [Bool.and_eq_true, decide_eq_true_eq]; omega)]
        rfl
    · have hf' : o.fullExtension = false := by simpa using hf
      simp only [bounds, boundsOk, linBounds, hx, hc, hf', Bool.not_true, Bool.and_false, Bool.false_eq_true, if_false,
        if_true, Bool.true_and, Bool.or_false, Bool.and_true, Bool.not_false, Bool.false_and]
      rw [if_pos (by
        simp only [Bool.and_eq_true, decide_eq_true_eq]
        constructor
        · split <;> omega
        · split <;> omega)]
      simp only [Option.map_some, Option.some.injEq, Prod.mk.injEq]
      constructor
      · split <;> omega
      · split <;> omega
  · have hx : o.hasExtension = false := by simp [Opts.hasExtension, he]
    simp only [bounds, boundsOk, linBounds, hx, Bool.false_and, Bool.false_eq_true, if_false, Bool.not_false, Bool.or_true, if_true,
      Option.map_some, Option.some.injEq, Prod.mk.injEq]
    exact ⟨by omega, trivial⟩

theorem linBounds_window (o : Opts) (L i dl j cl a b : Nat) (hlt : i + dl < j) (hj : j + cl ≤ L) (hcl : 1 ≤ cl)
    (h : linBounds o L i dl j cl = some (a, b)) : a < b ∧ b ≤ L := by
  unfold linBounds at h
  split at h
  · split at h
    · split at h
      · simp only [Option.some.injEq, Prod.mk.injEq] at h; omega
      · cases h
    · simp only [Option.some.injEq, Prod.mk.injEq] at h; omega
  · simp only [Option.some.injEq, Prod.mk.injEq] at h; omega

theorem subId_linear (L a b : Nat) (hab : a < b) (hb : b ≤ L) : subId L a b = ((a : Int) + 1, (b : Int)) := by
  unfold subId
  have h1 : Int.tmod (a : Int) (L : Int) = a := Int.tmod_eq_of_lt (by omega) (by omega)
  have h2 : Int.tmod ((b : Int) - 1) (L : Int) = b - 1 := Int.tmod_eq_of_lt (by omega) (by omega)
  simp only []
  have h3 : (a : Int) < (b : Int) - 1 + 1 := by omega
  rw [h1, h2, if_pos h3, Int.sub_add_cancel]

theorem cut_linear (seq : Bytes) (a b : Nat) (hab : a < b) (hb : b ≤ seq.length) :
    cut seq a b false = .ok (seg seq a b) := by
  unfold cut
  rw [subsequence_linear seq a b hab hb]
  rfl

theorem cutMatch_linear (seq : Bytes) (i dl : Nat) (k : Int) (bad : Bad) (hdl : 1 ≤ dl) (hb : i + dl ≤ seq.length) :
    cutMatch seq ((i : Int), (i : Int) + dl, k) false bad = .ok (seg seq i (i + dl)) := by
  unfold cutMatch
  have : ((i : Int) + (dl : Int)) = ((i + dl : Nat) : Int) := by omega
  simp only [this]
  rw [subsequence_linear seq i (i + dl) (by omega) hb]
  rfl

/-- what `pairStep` does with two sites of a linear template -/
theorem pairStep_linear (isFwd : Bool) (o : Opts) (hc : o.circular = false) (seq : Bytes) (w : Int)
    (i ki j kj dl cl : Nat) (hi : i + dl ≤ seq.length) (hj : j + cl ≤ seq.length) (hdl : 1 ≤ dl) (hcl : 1 ≤ cl) :
    pairStep isFwd o seq w ((i : Int), (i : Int) + dl, (ki : Int)) ((j : Int), (j : Int) + cl, (kj : Int)) =
      if lengthOk o ((j : Int) - ((i : Int) + dl)) then
        (linBounds o seq.length i dl j cl).map fun ab => .ok (mkAmp isFwd seq i ki j kj dl cl ab.1 ab.2)
      else none := by
  unfold pairStep
  simp only [pairLength_linear o hc]
  by_cases hl : lengthOk o ((j : Int) - ((i : Int) + dl)) = true
  · simp only [hl, if_true]
    have hpos := lengthOk_pos o _ hl
    have hb := boundsOpt_linear o hc seq.length i dl j cl ki kj
    cases hlb : linBounds o seq.length i dl j cl with
    | none =>
      rw [hlb] at hb
      simp only [Option.map_none] at hb ⊢
      split
      · rename_i hok; rw [if_pos hok] at hb; cases hb
      · rfl
    | some ab =>
      obtain ⟨a, b⟩ := ab
      rw [hlb] at hb
      simp only [Option.map_some] at hb ⊢
      have hwin := linBounds_window o seq.length i dl j cl a b (by omega) hj hcl hlb
      split at hb
      · rename_i hok
        simp only [Option.some.injEq] at hb
        rw [if_pos hok, hb]
        simp only [Option.some.injEq]
        cases isFwd with
        | true =>
          simp only [if_true, emitForward, hc, cut_linear seq a b hwin.1 hwin.2,
            cutMatch_linear seq i dl ki _ hdl hi, cutMatch_linear seq j cl kj _ hcl hj, subId_linear _ a b hwin.1 hwin.2,
            revcompInPlace_eq_rc, mkAmp, bind, Except.bind, pure, Except.pure]
        | false =>
          simp only [Bool.false_eq_true, if_false, emitReverse, hc, cut_linear seq a b hwin.1 hwin.2,
            cutMatch_linear seq i dl ki _ hdl hi, cutMatch_linear seq j cl kj _ hcl hj, subId_linear _ a b hwin.1 hwin.2,
            revcompInPlace_eq_rc, mkAmp, bind, Except.bind, pure, Except.pure]
      · cases hb
  · have hl' : lengthOk o ((j : Int) - ((i : Int) + dl)) = false := by simpa using hl
    simp only [hl', Bool.false_eq_true, if_false]

theorem lengthOk_max (o : Opts) (g : Int) (h : lengthOk o g = true) (hm : o.maxLength > 0) : g ≤ o.maxLength := by
  unfold lengthOk at h
  simp only [Bool.and_eq_true, Bool.or_eq_true, decide_eq_true_eq, beq_iff_eq] at h
  rcases h.2 with h0 | h0
  · omega
  · exact h0

/-- **one orientation block on a linear template**: its entries are exactly the records of the pairs (direct site,
complemented site downstream, at least one symbol apart, length within the bounds, window available); no entry is a
`log.Fatalf` or a panic.  `winLen` (the primer length used for the search window) only has to be non-negative. -/
theorem mem_block_linear (isFwd : Bool) (D C : Pattern) (hD : POk D) (hC : POk C) (w wl : Int) (hwl : 0 ≤ wl)
    (o : Opts) (hc : o.circular = false) (seq : Bytes) (x : Except Bad Amplicon) :
    x ∈ block isFwd D C w wl o seq ↔
      ∃ i ki j kj a b, MatchAt D (enc seq) i ki ∧ MatchAt C (enc seq) j kj ∧
        lengthOk o ((j : Int) - ((i : Int) + D.patlen)) = true ∧
        linBounds o seq.length i D.patlen j C.patlen = some (a, b) ∧
        x = .ok (mkAmp isFwd seq i ki j kj D.patlen C.patlen a b) := by
  rw [mem_block_iff]
  simp only [hc]
  constructor
  · rintro ⟨first, last, fm, rm, _, _, hfm, hrm, _, _, hstep⟩
    obtain ⟨i, ki, rfl, hmi⟩ := (mem_fai_all D hD seq fm).mp hfm
    obtain ⟨j, kj, rfl, hmj, _, _⟩ := (mem_fai_linear C hC seq _ _ rm).mp hrm
    have hi := hmi.1
    have hj := hmj.1
    simp only [enc_length] at hi hj
    unfold hitOf at hstep
    rw [pairStep_linear isFwd o hc seq w i ki j kj D.patlen C.patlen hi hj hD.pos hC.pos] at hstep
    split at hstep
    · rename_i hl
      cases hlb : linBounds o seq.length i D.patlen j C.patlen with
      | none => rw [hlb] at hstep; cases hstep
      | some ab =>
        obtain ⟨a, b⟩ := ab
        rw [hlb] at hstep
        simp only [Option.map_some, Option.some.injEq] at hstep
        exact ⟨i, ki, j, kj, a, b, hmi, hmj, hl, hlb, hstep.symm⟩
    · cases hstep
  · rintro ⟨i, ki, j, kj, a, b, hmi, hmj, hl, hlb, rfl⟩
    have hi := hmi.1
    have hj := hmj.1
    simp only [enc_length] at hi hj
    have hfm : hitOf D i ki ∈ findAllIndex D seq false 0 (-1) := (mem_fai_all D hD seq _).mpr ⟨i, ki, rfl, hmi⟩
    have hsorted := fai_sorted D seq false 0 (-1)
    cases hh : (findAllIndex D seq false 0 (-1)).head? with
    | none => rw [List.head?_eq_none_iff] at hh; rw [hh] at hfm; cases hfm
    | some first =>
      cases hla : (findAllIndex D seq false 0 (-1)).getLast? with
      | none => rw [List.getLast?_eq_none_iff] at hla; rw [hla] at hfm; cases hfm
      | some last =>
        have h1 := head_le_of_sorted hsorted hh hfm
        have h2 := le_last_of_sorted hsorted hla hfm
        obtain ⟨i0, k0, rfl, hm0⟩ := (mem_fai_all D hD seq first).mp (List.mem_of_mem_head? (by rw [hh]; rfl))
        obtain ⟨i1, k1, rfl, hm1⟩ := (mem_fai_all D hD seq last).mp (List.mem_of_getLast? hla)
        have hi0 := hm0.1
        have hi1 := hm1.1
        simp only [enc_length] at hi0 hi1
        have hpos := lengthOk_pos o _ hl
        have h1' : (i0 : Int) ≤ i := h1
        have hDp := hD.pos
        have hCp := hC.pos
        have h2' : (i : Int) ≤ i1 := h2
        refine ⟨hitOf D i0 k0, hitOf D i1 k1, hitOf D i ki, hitOf C j kj, rfl, rfl, hfm, ?_, ?_, ?_, ?_⟩
        · rw [mem_fai_linear C hC]
          refine ⟨j, kj, rfl, hmj, ?_, ?_⟩
          · unfold revWindow hitOf
            simp only [hc, Bool.false_eq_true, if_false]
            split <;> omega
          · unfold revWindow hitOf
            simp only [hc, Bool.false_eq_true, if_false]
            have hcl := hC.le63
            by_cases hm : o.maxLength > 0
            · have hmax := lengthOk_max o _ hl hm
              simp only [hm, if_true]
              rw [if_neg (by omega), if_neg (by omega)]
              omega
            · simp only [hm, if_false]
              rw [if_neg (by omega), if_neg (by omega)]
              omega
        · unfold hitOf; simp only; omega
        · unfold hitOf; simp only; omega
        · unfold hitOf
          rw [pairStep_linear isFwd o hc seq w i ki j kj D.patlen C.patlen hi hj hD.pos hC.pos, if_pos hl, hlb]
          rfl

/-! ## from the entries to the result of `_Pcr` -/

theorem mapM_id_ok {ε α : Type} (l : List (Except ε α)) (r : List α) : l.mapM id = .ok r ↔ l = r.map .ok := by
  induction l generalizing r with
  | nil =>
    simp only [List.mapM_nil, pure, Except.pure, Except.ok.injEq]
    constructor
    · rintro rfl; rfl
    · intro h; cases r with
      | nil => rfl
      | cons a t => cases h
  | cons x t ih =>
    rw [List.mapM_cons]
    cases x with
    | error e =>
      simp only [id, bind, Except.bind]
      constructor
      · intro h; cases h
      · intro h
        cases r with
        | nil => cases h
        | cons a r' => simp only [List.map_cons, List.cons.injEq] at h; cases h.1
    | ok a =>
      simp only [id, bind, Except.bind]
      cases ht : t.mapM id with
      | error e =>
        constructor
        · intro h; cases h
        · intro h
          cases r with
          | nil => cases h
          | cons a' r' =>
            simp only [List.map_cons, List.cons.injEq] at h
            have := (ih r').mpr h.2
            rw [ht] at this; cases this
      | ok r' =>
        simp only [pure, Except.pure, Except.ok.injEq]
        have := (ih r').mp ht
        constructor
        · rintro rfl; rw [this]; rfl
        · intro h
          cases r with
          | nil => cases h
          | cons a' r'' =>
            simp only [List.map_cons, List.cons.injEq, Except.ok.injEq] at h
            obtain ⟨rfl, h2⟩ := h
            have := (ih r'').mpr h2
            rw [ht] at this
            cases this; rfl

theorem mapM_id_total {ε α : Type} (l : List (Except ε α)) (h : ∀ x ∈ l, ∃ a, x = .ok a) : ∃ r, l.mapM id = .ok r := by
  induction l with
  | nil => exact ⟨[], rfl⟩
  | cons x t ih =>
    obtain ⟨a, rfl⟩ := h x (by simp)
    obtain ⟨r, hr⟩ := ih (fun y hy => h y (List.mem_cons_of_mem _ hy))
    exact ⟨a :: r, (mapM_id_ok _ _).mpr (by rw [(mapM_id_ok _ _).mp hr]; rfl)⟩

/-- the four patterns are in C10's domain -/
structure PrimersOk (P : Primers) : Prop where
  forward : POk P.forward
  cfwd : POk P.cfwd
  reverse : POk P.reverse
  crev : POk P.crev

theorem mem_pcr_iff (P : Primers) (o : Opts) (seq : Bytes) (l : List Amplicon) (h : pcr P o seq = .ok l) (a : Amplicon) :
    a ∈ l ↔ (.ok a : Except Bad Amplicon) ∈ block true P.forward P.crev P.forward.patlen P.reverse.patlen o seq ∨
      (.ok a : Except Bad Amplicon) ∈ block false P.reverse P.cfwd P.reverse.patlen P.reverse.patlen o seq := by
  unfold pcr at h
  have := (mapM_id_ok _ _).mp h
  unfold pcrRaw at this
  rw [← List.mem_append, this, List.mem_map]
  constructor
  · intro ha; exact ⟨a, ha, rfl⟩
  · rintro ⟨b, hb, he⟩; cases he; exact hb

/-! ## each pair of hits is reported once -/

theorem emitForward_prov (o : Opts) (seq : Bytes) (fm rm : Hit) (ft : Int × Int) (a : Amplicon)
    (h : emitForward o seq fm rm ft = .ok a) : a.hitD = fm ∧ a.hitC = rm ∧ a.isForward = true := by
  unfold emitForward at h
  simp only [bind, Except.bind, pure, Except.pure] at h
  split at h
  · cases h
  · split at h
    · cases h
    · split at h
      · cases h
      · cases h; exact ⟨rfl, rfl, rfl⟩

theorem emitReverse_prov (o : Opts) (seq : Bytes) (fm rm : Hit) (ft : Int × Int) (a : Amplicon)
    (h : emitReverse o seq fm rm ft = .ok a) : a.hitD = fm ∧ a.hitC = rm ∧ a.isForward = false := by
  unfold emitReverse at h
  simp only [bind, Except.bind, pure, Except.pure] at h
  split at h
  · cases h
  · split at h
    · cases h
    · split at h
      · cases h
      · cases h; exact ⟨rfl, rfl, rfl⟩

theorem pairStep_prov (isFwd : Bool) (o : Opts) (seq : Bytes) (w : Int) (fm rm : Hit) (a : Amplicon)
    (h : pairStep isFwd o seq w fm rm = some (.ok a)) : a.hitD = fm ∧ a.hitC = rm ∧ a.isForward = isFwd := by
  unfold pairStep at h
  simp only [] at h
  split at h
  · split at h
    · simp only [Option.some.injEq] at h
      cases isFwd with
      | true => simp only [if_true] at h; exact emitForward_prov o seq fm rm _ a h
      | false => simp only [Bool.false_eq_true, if_false] at h; exact emitReverse_prov o seq fm rm _ a h
    · cases h
  · cases h

/-- two entries of a block that are amplicons are different records (they differ in the hits they come from) -/
theorem block_pairwise (isFwd : Bool) (D C : Pattern) (w wl : Int) (o : Opts) (seq : Bytes) :
    (block isFwd D C w wl o seq).Pairwise
      (fun x y => ∀ a b, x = .ok a → y = .ok b → a ≠ b ∧ a.isForward = isFwd ∧ b.isForward = isFwd) := by
  unfold block
  have hs := fai_sorted D seq o.circular 0 (-1)
  generalize findAllIndex D seq o.circular 0 (-1) = fms at hs
  simp only []
  split
  · rename_i first last _ _
    have hr := fai_sorted C seq o.circular (revWindow o seq.length wl first last).1 (revWindow o seq.length wl first last).2
    generalize findAllIndex C seq o.circular (revWindow o seq.length wl first last).1
      (revWindow o seq.length wl first last).2 = rms at hr
    rw [List.pairwise_flatMap]
    constructor
    · intro fm _
      split
      · refine List.Pairwise.filterMap _ ?_ hr
        intro rm rm' hlt x hx y hy a b hxa hyb
        subst hxa hyb
        split at hx
        · split at hy
          · have p1 := pairStep_prov isFwd o seq w fm rm a hx
            have p2 := pairStep_prov isFwd o seq w fm rm' b hy
            refine ⟨?_, p1.2.2, p2.2.2⟩
            intro hab
            have : rm = rm' := by rw [← p1.2.1, ← p2.2.1, hab]
            rw [this] at hlt
            exact absurd hlt (Int.lt_irrefl _)
          · cases hy
        · cases hx
      · exact List.Pairwise.nil
    · refine hs.imp ?_
      intro fm fm' hlt x hx y hy a b hxa hyb
      subst hxa hyb
      split at hx
      · split at hy
        · rw [List.mem_filterMap] at hx hy
          obtain ⟨rm, _, hx⟩ := hx
          obtain ⟨rm', _, hy⟩ := hy
          split at hx
          · split at hy
            · have p1 := pairStep_prov isFwd o seq w fm rm a hx
              have p2 := pairStep_prov isFwd o seq w fm' rm' b hy
              refine ⟨?_, p1.2.2, p2.2.2⟩
              intro hab
              have : fm = fm' := by rw [← p1.1, ← p2.1, hab]
              rw [this] at hlt
              exact absurd hlt (Int.lt_irrefl _)
            · cases hy
          · cases hx
        · cases hy
      · cases hx
  · exact List.Pairwise.nil

/-- the list returned by `_Pcr` has no duplicates -/
theorem pcr_nodup_any (P : Primers) (o : Opts) (seq : Bytes) (l : List Amplicon) (h : pcr P o seq = .ok l) : l.Nodup := by
  unfold pcr at h
  have hl := (mapM_id_ok _ _).mp h
  have hp : (pcrRaw P o seq).Pairwise (fun x y => ∀ a b, x = .ok a → y = .ok b → a ≠ b) := by
    unfold pcrRaw
    rw [List.pairwise_append]
    refine ⟨(block_pairwise true _ _ _ _ o seq).imp ?_, (block_pairwise false _ _ _ _ o seq).imp ?_, ?_⟩
    · intro x y hxy a b ha hb; exact (hxy a b ha hb).1
    · intro x y hxy a b ha hb; exact (hxy a b ha hb).1
    · intro x hx y hy a b ha hb hab
      subst ha hb
      rw [mem_block_iff] at hx hy
      obtain ⟨_, _, fm, rm, _, _, _, _, _, _, h1⟩ := hx
      obtain ⟨_, _, fm', rm', _, _, _, _, _, _, h2⟩ := hy
      have p1 := pairStep_prov _ _ _ _ _ _ _ h1
      have p2 := pairStep_prov _ _ _ _ _ _ _ h2
      rw [hab] at p1
      rw [p1.2.2] at p2
      exact absurd p2.2.2 (by decide)
  rw [hl, List.pairwise_map] at hp
  rw [List.nodup_iff_pairwise_ne]
  exact hp.imp (fun hxy => hxy _ _ rfl rfl)

/-! ## strand symmetry (linear templates) -/

/-- `P'` is the complemented pattern of `P`: mirrored code list (what `complementPattern` computes; C10 checks it with
its oracle `rcpat.code` on every complemented pattern), same budget -/
structure Mirror (P P' : Pattern) : Prop where
  codes : MirrorList P.codes.reverse P'.codes
  maxerr : P'.maxerr = P.maxerr

theorem Mirror.patlen {P P' : Pattern} (h : Mirror P P') : P'.patlen = P.patlen := by
  unfold Pattern.patlen; simpa using h.codes.length_eq

theorem iupac_codes : ∀ b ∈ iupac, encodeByte (SeqOps.nucComplement b) = compSym (encodeByte b) ∧
    encodeByte b < 26 ∧ encodeByte b ≠ 20 := by decide

theorem enc_ok (seq : Bytes) (hs : ∀ b ∈ seq, b ∈ iupac) : ∀ c ∈ enc seq, c < 26 ∧ c ≠ 20 := by
  intro c hc
  unfold enc at hc
  rw [List.mem_map] at hc
  obtain ⟨b, hb, rfl⟩ := hc
  exact (iupac_codes b (hs b hb)).2

theorem enc_rc (seq : Bytes) (hs : ∀ b ∈ seq, b ∈ iupac) : enc (SeqOps.rc seq) = rcData (enc seq) := by
  unfold enc SeqOps.rc rcData
  rw [List.map_reverse, List.map_map, List.map_map]
  congr 1
  apply List.map_congr_left
  intro b hb
  exact (iupac_codes b (hs b hb)).1

theorem rc_iupac (seq : Bytes) (hs : ∀ b ∈ seq, b ∈ iupac) : ∀ b ∈ SeqOps.rc seq, b ∈ iupac := by
  intro b hb
  unfold SeqOps.rc at hb
  rw [List.mem_reverse, List.mem_map] at hb
  obtain ⟨a, ha, rfl⟩ := hb
  exact comp_closed a (hs a ha)

/-- a site of the complemented pattern on the template = a site of the pattern at the mirrored offset of the reverse
complement of the template (C10 `hamCost_rc`) -/
theorem site_mirror (P P' : Pattern) (hm : Mirror P P') (seq : Bytes) (hs : ∀ b ∈ seq, b ∈ iupac) (i k : Nat)
    (h : MatchAt P' (enc seq) i k) : MatchAt P (enc (SeqOps.rc seq)) (seq.length - i - P.patlen) k := by
  obtain ⟨h1, h2, h3⟩ := h
  rw [hm.patlen] at h1
  simp only [enc_length] at h1
  refine ⟨?_, ?_, by rw [← hm.maxerr]; exact h3⟩
  · simp only [enc_length, rc_length]; omega
  · rw [enc_rc seq hs, ← h2]
    have := hamCost_rc P.codes P'.codes (enc seq) hm.codes (enc_ok seq hs) i (by simpa [Pattern.patlen] using h1)
    rw [this]
    simp [Pattern.patlen]

/-- … and the other way round: a site of the pattern on the template = a site of the complemented pattern on the
reverse complement -/
theorem site_mirror' (P P' : Pattern) (hm : Mirror P P') (seq : Bytes) (hs : ∀ b ∈ seq, b ∈ iupac) (i k : Nat)
    (h : MatchAt P (enc seq) i k) : MatchAt P' (enc (SeqOps.rc seq)) (seq.length - i - P.patlen) k := by
  obtain ⟨h1, h2, h3⟩ := h
  simp only [enc_length] at h1
  refine ⟨?_, ?_, by rw [hm.maxerr]; exact h3⟩
  · simp only [enc_length, rc_length, hm.patlen]; omega
  · have hrs := rc_iupac seq hs
    have := hamCost_rc P.codes P'.codes (enc (SeqOps.rc seq)) hm.codes (enc_ok _ hrs) (seq.length - i - P.patlen)
      (by simp only [enc_length, rc_length, Pattern.patlen] at h1 ⊢; omega)
    rw [this, ← enc_rc _ hrs, rc_rc seq hs, ← h2]
    simp only [enc_length, rc_length]
    congr 2
    unfold Pattern.patlen at h1 ⊢
    omega

/-- mirror image of a hit on a template of length `L` -/
def mirrorHit (L : Int) (h : Hit) : Hit := (L - h.2.1, L - h.1, h.2.2)

/-- **the flipped record**: same nucleotides, same matched strings and error counts, the other direction; coordinates and
hits mirrored (`[a, b)` becomes `[L-b, L-a)`) -/
def flipAmp (L : Nat) (a : Amplicon) : Amplicon :=
  { a with isForward := !a.isForward, idFrom := (L : Int) - a.idTo + 1, idTo := (L : Int) - a.idFrom + 1,
           hitD := mirrorHit L a.hitC, hitC := mirrorHit L a.hitD }

theorem flipAmp_flipAmp (L : Nat) (a : Amplicon) : flipAmp L (flipAmp L a) = a := by
  obtain ⟨d, f, t, s, fm, fe, rm, re, ⟨h1, h2, h3⟩, ⟨c1, c2, c3⟩⟩ := a
  simp only [flipAmp, mirrorHit, Bool.not_not, Amplicon.mk.injEq, Prod.mk.injEq, true_and]
  exact ⟨by omega, by omega, ⟨by omega, by omega, trivial⟩, by omega, by omega, trivial⟩

theorem flipAmp_injective (L : Nat) : Function.Injective (flipAmp L) := by
  intro a b h
  rw [← flipAmp_flipAmp L a, ← flipAmp_flipAmp L b, h]

theorem seg_rc (seq : Bytes) (a b : Nat) (hab : a ≤ b) (hb : b ≤ seq.length) :
    seg (SeqOps.rc seq) (seq.length - b) (seq.length - a) = SeqOps.rc (seg seq a b) := by
  unfold seg
  rw [rc_subseq seq a b hab hb]
  congr 1
  omega

theorem seg_iupac (seq : Bytes) (hs : ∀ b ∈ seq, b ∈ iupac) (a b : Nat) : ∀ x ∈ seg seq a b, x ∈ iupac := by
  intro x hx
  exact hs x (List.mem_of_mem_drop (List.mem_of_mem_take hx))

theorem mkAmp_flip (d : Bool) (seq : Bytes) (hs : ∀ b ∈ seq, b ∈ iupac) (i ki j kj dl cl a b : Nat)
    (hi : i + dl ≤ seq.length) (hj : j + cl ≤ seq.length) (hab : a ≤ b) (hb : b ≤ seq.length) :
    flipAmp seq.length (mkAmp d seq i ki j kj dl cl a b) =
      mkAmp (!d) (SeqOps.rc seq) (seq.length - j - cl) kj (seq.length - i - dl) ki cl dl (seq.length - b) (seq.length - a) := by
  have e1 : seq.length - j - cl + cl = seq.length - j := by omega
  have e2 : seq.length - i - dl + dl = seq.length - i := by omega
  have e3 : seq.length - j - cl = seq.length - (j + cl) := by omega
  have e4 : seq.length - i - dl = seq.length - (i + dl) := by omega
  have s1 := seg_rc seq a b hab hb
  have s2 := seg_rc seq i (i + dl) (by omega) hi
  have s3 := seg_rc seq j (j + cl) (by omega) hj
  cases d with
  | true =>
    simp only [flipAmp, mkAmp, mirrorHit, if_true, Bool.not_true, Bool.false_eq_true, if_false, Amplicon.mk.injEq,
      Prod.mk.injEq, true_and, e1, e2]
    rw [e3, e4, s1, s2, s3, rc_rc _ (seg_iupac seq hs a b), rc_rc _ (seg_iupac seq hs i (i + dl))]
    exact ⟨by omega, by omega, rfl, rfl, rfl, ⟨by omega, by omega, trivial⟩, by omega, by omega, trivial⟩
  | false =>
    simp only [flipAmp, mkAmp, mirrorHit, if_true, Bool.not_false, Bool.false_eq_true, if_false, Amplicon.mk.injEq,
      Prod.mk.injEq, true_and, e1, e2]
    rw [e3, e4, s1, s2, s3, rc_rc _ (seg_iupac seq hs i (i + dl))]
    exact ⟨by omega, by omega, rfl, rfl, rfl, ⟨by omega, by omega, trivial⟩, by omega, by omega, trivial⟩

theorem linBounds_mirror (o : Opts) (L i dl j cl a b : Nat) (hlt : i + dl < j) (hj : j + cl ≤ L)
    (h : linBounds o L i dl j cl = some (a, b)) :
    linBounds o L (L - j - cl) cl (L - i - dl) dl = some (L - b, L - a) := by
  unfold linBounds at h ⊢
  split at h
  · rename_i hx
    rw [if_pos hx]
    split at h
    · rename_i hf
      rw [if_pos hf]
      split at h
      · rename_i hin
        simp only [Option.some.injEq, Prod.mk.injEq] at h
        rw [if_pos (by omega)]
        simp only [Option.some.injEq, Prod.mk.injEq]
        omega
      · cases h
    · rename_i hf
      rw [if_neg hf]
      simp only [Option.some.injEq, Prod.mk.injEq] at h ⊢
      omega
  · rename_i hx
    rw [if_neg hx]
    simp only [Option.some.injEq, Prod.mk.injEq] at h ⊢
    omega

/-- the four patterns are complements of each other as `OptionForwardPrimer` / `OptionReversePrimer` build them -/
structure PrimersMirror (P : Primers) : Prop where
  fwd : Mirror P.forward P.cfwd
  rev : Mirror P.reverse P.crev

/-- an amplicon of the template, flipped, is an amplicon of the reverse-complemented template -/
theorem flip_mem (P : Primers) (hP : PrimersOk P) (hM : PrimersMirror P) (o : Opts) (hc : o.circular = false)
    (seq : Bytes) (hs : ∀ b ∈ seq, b ∈ iupac) (l l' : List Amplicon)
    (h : pcr P o seq = .ok l) (h' : pcr P o (SeqOps.rc seq) = .ok l') (x : Amplicon) (hx : x ∈ l) :
    flipAmp seq.length x ∈ l' := by
  have hfl := hM.fwd.patlen
  have hrl := hM.rev.patlen
  rw [mem_pcr_iff P o _ l' h']
  rcases (mem_pcr_iff P o seq l h x).mp hx with hb | hb
  · right
    obtain ⟨i, ki, j, kj, a, b, h1, h2, h3, h4, h5⟩ :=
      (mem_block_linear true _ _ hP.forward hP.crev _ _ (Int.natCast_nonneg _) o hc seq _).mp hb
    cases h5
    have hi := h1.1
    have hj := h2.1
    simp only [enc_length] at hi hj
    have hpos := lengthOk_pos o _ h3
    have hw := linBounds_window o seq.length i _ j _ a b (by omega) hj hP.crev.pos h4
    rw [mkAmp_flip true seq hs i ki j kj _ _ a b hi hj (by omega) hw.2]
    refine (mem_block_linear false _ _ hP.reverse hP.cfwd _ _ (Int.natCast_nonneg _) o hc _ _).mpr
      ⟨seq.length - j - P.crev.patlen, kj, seq.length - i - P.forward.patlen, ki, seq.length - b, seq.length - a, ?_, ?_, ?_, ?_, ?_⟩
    · have := site_mirror P.reverse P.crev hM.rev seq hs j kj h2
      rw [hrl]; exact this
    · exact site_mirror' P.forward P.cfwd hM.fwd seq hs i ki h1
    · rw [← h3]; congr 1; rw [hrl] at hj ⊢; omega
    · rw [rc_length, hfl, ← hrl]
      exact linBounds_mirror o seq.length i _ j _ a b (by omega) hj h4
    · rw [hfl, ← hrl]; rfl
  · left
    obtain ⟨i, ki, j, kj, a, b, h1, h2, h3, h4, h5⟩ :=
      (mem_block_linear false _ _ hP.reverse hP.cfwd _ _ (Int.natCast_nonneg _) o hc seq _).mp hb
    cases h5
    have hi := h1.1
    have hj := h2.1
    simp only [enc_length] at hi hj
    have hpos := lengthOk_pos o _ h3
    have hw := linBounds_window o seq.length i _ j _ a b (by omega) hj hP.cfwd.pos h4
    rw [mkAmp_flip false seq hs i ki j kj _ _ a b hi hj (by omega) hw.2]
    refine (mem_block_linear true _ _ hP.forward hP.crev _ _ (Int.natCast_nonneg _) o hc _ _).mpr
      ⟨seq.length - j - P.cfwd.patlen, kj, seq.length - i - P.reverse.patlen, ki, seq.length - b, seq.length - a, ?_, ?_, ?_, ?_, ?_⟩
    · have := site_mirror P.forward P.cfwd hM.fwd seq hs j kj h2
      rw [hfl]; exact this
    · exact site_mirror' P.reverse P.crev hM.rev seq hs i ki h1
    · rw [← h3]; congr 1; rw [hfl] at hj ⊢; omega
    · rw [rc_length, hrl, ← hfl]
      exact linBounds_mirror o seq.length i _ j _ a b (by omega) hj h4
    · rw [hrl, ← hfl]; rfl

end ObiVerif.Pcr
