import ObiVerif.Lemmas.FpShift
import ObiVerif.Lemmas.FpArith
/-!
# Limb-wise `&`, `|`, `^`, `^x` are the bitwise operations on the whole value; carry forms of the 64-bit shifts
(core Lean only)
-/
namespace ObiVerif.Fp

/-! ## one limb boundary -/

theorem testBit_limb (a : Nat) {b : Nat} (hb : b < W) (j : Nat) :
    (a * W + b).testBit j = if j < 64 then b.testBit j else a.testBit (j - 64) := by
  rw [Nat.mul_comm, W_eq_pow]
  exact Nat.testBit_two_pow_mul_add a (W_eq_pow ▸ hb) j

/-- a bit-wise operation (given by its truth table `f`, with `f false false = false` implied by `hlt`)
acts limb by limb -/
theorem limb_bitop (op : Nat → Nat → Nat) (f : Bool → Bool → Bool)
    (htb : ∀ x y i, (op x y).testBit i = f (x.testBit i) (y.testBit i))
    (hlt : ∀ x y, x < W → y < W → op x y < W)
    (a c : Nat) {b d : Nat} (hb : b < W) (hd : d < W) :
    op (a * W + b) (c * W + d) = op a c * W + op b d := by
  apply Nat.eq_of_testBit_eq
  intro i
  rw [htb, testBit_limb a hb, testBit_limb c hd, testBit_limb _ (hlt b d hb hd)]
  by_cases h : i < 64
  · simp only [h, if_true, htb]
  · simp only [h, if_false, htb]

theorem land_lt_W {x y : Nat} (_hx : x < W) (hy : y < W) : Nat.land x y < W := by
  rw [W_eq_pow] at *; exact Nat.and_lt_two_pow x hy
theorem lor_lt_W {x y : Nat} (hx : x < W) (hy : y < W) : Nat.lor x y < W := by
  rw [W_eq_pow] at *; exact Nat.or_lt_two_pow hx hy
theorem xor_lt_W {x y : Nat} (hx : x < W) (hy : y < W) : Nat.xor x y < W := by
  rw [W_eq_pow] at *; exact Nat.xor_lt_two_pow hx hy

theorem land_limb (a c : Nat) {b d : Nat} (hb : b < W) (hd : d < W) :
    Nat.land (a * W + b) (c * W + d) = Nat.land a c * W + Nat.land b d :=
  limb_bitop Nat.land (· && ·) Nat.testBit_and (fun _ _ => land_lt_W) a c hb hd
theorem lor_limb (a c : Nat) {b d : Nat} (hb : b < W) (hd : d < W) :
    Nat.lor (a * W + b) (c * W + d) = Nat.lor a c * W + Nat.lor b d :=
  limb_bitop Nat.lor (· || ·) Nat.testBit_or (fun _ _ => lor_lt_W) a c hb hd
theorem xor_limb (a c : Nat) {b d : Nat} (hb : b < W) (hd : d < W) :
    Nat.xor (a * W + b) (c * W + d) = Nat.xor a c * W + Nat.xor b d :=
  limb_bitop Nat.xor (· ^^ ·) Nat.testBit_xor (fun _ _ => xor_lt_W) a c hb hd

theorem max_lt_W : 18446744073709551615 < W := by decide
theorem not64_lt_W (x : Nat) : not64 x < W := by unfold not64; simp only [W]; omega

/-! ## the three widths -/

theorem U128.and_spec (u v : U128) (hu : u.WF) (hv : v.WF) :
    (u.and v).WF ∧ (u.and v).toNat = Nat.land u.toNat v.toNat :=
  ⟨⟨land_lt_W hu.1 hv.1, land_lt_W hu.2 hv.2⟩, (land_limb _ _ hu.2 hv.2).symm⟩
theorem U128.or_spec (u v : U128) (hu : u.WF) (hv : v.WF) :
    (u.or v).WF ∧ (u.or v).toNat = Nat.lor u.toNat v.toNat :=
  ⟨⟨lor_lt_W hu.1 hv.1, lor_lt_W hu.2 hv.2⟩, (lor_limb _ _ hu.2 hv.2).symm⟩
theorem U128.xor_spec (u v : U128) (hu : u.WF) (hv : v.WF) :
    (u.xor v).WF ∧ (u.xor v).toNat = Nat.xor u.toNat v.toNat :=
  ⟨⟨xor_lt_W hu.1 hv.1, xor_lt_W hu.2 hv.2⟩, (xor_limb _ _ hu.2 hv.2).symm⟩
theorem U128.not_spec (u : U128) (hu : u.WF) :
    (u.not).WF ∧ (u.not).toNat = W * W - 1 - u.toNat := by
  obtain ⟨h1, h0⟩ := hu
  refine ⟨⟨not64_lt_W _, not64_lt_W _⟩, ?_⟩
  unfold U128.not U128.toNat not64
  simp only [W] at *
  omega

theorem U256.and_spec (u v : U256) (hu : u.WF) (hv : v.WF) :
    (u.and v).WF ∧ (u.and v).toNat = Nat.land u.toNat v.toNat := by
  obtain ⟨h3, h2, h1, h0⟩ := hu
  obtain ⟨k3, k2, k1, k0⟩ := hv
  refine ⟨⟨land_lt_W h3 k3, land_lt_W h2 k2, land_lt_W h1 k1, land_lt_W h0 k0⟩, ?_⟩
  unfold U256.toNat
  rw [land_limb _ _ h0 k0, land_limb _ _ h1 k1, land_limb _ _ h2 k2]
  rfl
theorem U256.or_spec (u v : U256) (hu : u.WF) (hv : v.WF) :
    (u.or v).WF ∧ (u.or v).toNat = Nat.lor u.toNat v.toNat := by
  obtain ⟨h3, h2, h1, h0⟩ := hu
  obtain ⟨k3, k2, k1, k0⟩ := hv
  refine ⟨⟨lor_lt_W h3 k3, lor_lt_W h2 k2, lor_lt_W h1 k1, lor_lt_W h0 k0⟩, ?_⟩
  unfold U256.toNat
  rw [lor_limb _ _ h0 k0, lor_limb _ _ h1 k1, lor_limb _ _ h2 k2]
  rfl
theorem U256.xor_spec (u v : U256) (hu : u.WF) (hv : v.WF) :
    (u.xor v).WF ∧ (u.xor v).toNat = Nat.xor u.toNat v.toNat := by
  obtain ⟨h3, h2, h1, h0⟩ := hu
  obtain ⟨k3, k2, k1, k0⟩ := hv
  refine ⟨⟨xor_lt_W h3 k3, xor_lt_W h2 k2, xor_lt_W h1 k1, xor_lt_W h0 k0⟩, ?_⟩
  unfold U256.toNat
  rw [xor_limb _ _ h0 k0, xor_limb _ _ h1 k1, xor_limb _ _ h2 k2]
  rfl
theorem U256.not_spec (u : U256) (hu : u.WF) :
    (u.not).WF ∧ (u.not).toNat = W ^ 4 - 1 - u.toNat := by
  obtain ⟨h3, h2, h1, h0⟩ := hu
  refine ⟨⟨not64_lt_W _, not64_lt_W _, not64_lt_W _, not64_lt_W _⟩, ?_⟩
  unfold U256.not U256.toNat not64
  simp only [W] at *
  omega

/-! ## carry forms `LeftShift64(n, carryIn)` / `RightShift64(n, carryIn)` for an ARBITRARY carry-in word -/

/-- `n < 64`: the low `n` bits of `carryIn` enter from the right, the high `n` bits of `w` leave as carry:
`value + carry * 2^64 = w * 2^n + carryIn mod 2^n` -/
theorem leftShift64_small_any {w n c : Nat} (hn : n < 64) (hw : w < W) :
    (leftShift64 w n c).1 + (leftShift64 w n c).2 * W = w * 2 ^ n + c % 2 ^ n ∧
      (leftShift64 w n c).1 < W ∧ (leftShift64 w n c).2 < 2 ^ n := by
  have e : leftShift64 w n c = leftShift64 w n (c % 2 ^ n) := by
    unfold leftShift64
    by_cases h0 : n = 0
    · simp [h0]
    · rw [if_neg h0, if_pos hn, if_neg h0, if_pos hn, land_low, land_low, Nat.mod_mod]
  rw [e]
  exact leftShift64_small hn hw (Nat.mod_lt _ (Nat.two_pow_pos n))

/-- `n < 64`: the high `n` bits of `carryIn` enter from the left, the low `n` bits of `w` leave (left-aligned)
as carry -/
theorem rightShift64_small_any {w n c : Nat} (hn : n < 64) (hw : w < W) (hc : c < W) :
    (rightShift64 w n c).1 = w / 2 ^ n + c / 2 ^ (64 - n) * 2 ^ (64 - n) ∧
      (rightShift64 w n c).2 = w % 2 ^ n * 2 ^ (64 - n) := by
  by_cases h0 : n = 0
  · subst h0
    have : c / 2 ^ 64 = 0 := Nat.div_eq_of_lt (W_eq_pow ▸ hc)
    simp [rightShift64, this, Nat.mod_one]
  · have e : rightShift64 w n c = rightShift64 w n (c / 2 ^ (64 - n) * 2 ^ (64 - n)) := by
      unfold rightShift64
      have hle : c / 2 ^ (64 - n) * 2 ^ (64 - n) ≤ c := Nat.div_mul_le_self _ _
      rw [if_neg h0, if_pos hn, if_neg h0, if_pos hn, land_high c (64 - n) (by omega) hc,
        land_high _ (64 - n) (by omega) (Nat.lt_of_le_of_lt hle hc), Nat.mul_div_cancel _ (Nat.two_pow_pos _)]
    rw [e]
    have hle : c / 2 ^ (64 - n) * 2 ^ (64 - n) ≤ c := Nat.div_mul_le_self _ _
    exact rightShift64_small hn hw (Nat.lt_of_le_of_lt hle hc) (Nat.mul_mod_left _ _)

/-- unified reading of `LeftShift64` for `n < 128`: the pair `carry:value` is the 128-bit register holding
`w * 2^n + (carryIn mod 2^n)` (bits moved beyond 2^128 are discarded) -/
theorem leftShift64_unified {w n c : Nat} (hn : n < 128) (hw : w < W) (hc : c < W) :
    (leftShift64 w n c).1 + (leftShift64 w n c).2 * W = (w * 2 ^ n + c % 2 ^ n) % (W * W) := by
  by_cases h : n < 64
  · have s := leftShift64_small_any (c := c) h hw
    rw [s.1]
    symm
    apply Nat.mod_eq_of_lt
    have hp : 0 < 2 ^ n := Nat.two_pow_pos n
    have h1 : c % 2 ^ n < 2 ^ n := Nat.mod_lt _ hp
    have h2 : (w + 1) * 2 ^ n ≤ W * 2 ^ n := Nat.mul_le_mul_right _ hw
    have h3 : W * 2 ^ n ≤ W * W := by
      apply Nat.mul_le_mul_left
      rw [W_eq_pow]
      exact Nat.pow_le_pow_right (by decide) (by omega)
    rw [Nat.add_mul, Nat.one_mul] at h2
    omega
  · rw [leftShift64_mid hw (by omega) hn]
    have hcn : c % 2 ^ n = c := by
      apply Nat.mod_eq_of_lt
      apply Nat.lt_of_lt_of_le hc
      rw [W_eq_pow]
      exact Nat.pow_le_pow_right (by decide) (by omega)
    rw [hcn, two_pow_ge_64 (by omega : 64 ≤ n), ← Nat.mul_assoc]
    generalize w * 2 ^ (n - 64) = a
    simp only [W] at *
    omega

/-- unified reading of `RightShift64` for `n < 128`: the pair `value:carry` is the 128-bit register `w:0` shifted
right by `n`, with the high `n` bits (all 64 when `n ≥ 64`) of `carryIn` put in place in the high word -/
theorem rightShift64_unified {w n c : Nat} (hn : n < 128) (hw : w < W) (hc : c < W) :
    (rightShift64 w n c).1 * W + (rightShift64 w n c).2 =
      w * W / 2 ^ n + c / 2 ^ (64 - n) * 2 ^ (64 - n) * W := by
  by_cases h : n < 64
  · have s := rightShift64_small_any h hw hc
    rw [s.1, s.2]
    have hpq := two_pow_split (Nat.le_of_lt h)
    have hp : 0 < 2 ^ n := Nat.two_pow_pos n
    have hw' := Nat.div_add_mod w (2 ^ n)
    generalize c / 2 ^ (64 - n) * 2 ^ (64 - n) = C
    generalize 2 ^ n = p at *
    generalize 2 ^ (64 - n) = q at *
    have e : w * W / p = w * q := by
      rw [← hpq, Nat.mul_left_comm, Nat.mul_div_cancel_left _ hp]
    rw [e, ← hpq]
    generalize w / p = a at *
    generalize w % p = b at *
    subst hw'
    grind
  · rw [rightShift64_mid (by omega) hn]
    have e0 : 64 - n = 0 := by omega
    rw [e0, Nat.pow_zero, Nat.div_one, Nat.mul_one, two_pow_ge_64 (by omega : 64 ≤ n),
      Nat.mul_div_mul_right _ _ W_pos]
    simp only []
    omega

/-! ## the five comparison predicates, derived from a three-way `Cmp` result -/

/-- value of an exact three-way comparison -/
def cmp3 (a b : Nat) : Int := if a < b then -1 else if a = b then 0 else 1

theorem cmp3_eq (a b : Nat) : (cmp3 a b == 0) = true ↔ a = b := by
  unfold cmp3; repeat' split
  all_goals simp <;> omega
theorem cmp3_lt (a b : Nat) : decide (cmp3 a b < 0) = true ↔ a < b := by
  unfold cmp3; repeat' split
  all_goals simp <;> omega
theorem cmp3_gt (a b : Nat) : decide (cmp3 a b > 0) = true ↔ b < a := by
  unfold cmp3; repeat' split
  all_goals simp <;> omega
theorem cmp3_le (a b : Nat) : (!decide (cmp3 a b > 0)) = true ↔ a ≤ b := by
  unfold cmp3; repeat' split
  all_goals simp <;> omega
theorem cmp3_ge (a b : Nat) : (!decide (cmp3 a b < 0)) = true ↔ b ≤ a := by
  unfold cmp3; repeat' split
  all_goals simp <;> omega

theorem U64.cmp_eq_cmp3 (u v : U64) : u.cmp v = cmp3 u.toNat v.toNat := by
  unfold U64.cmp cmp3 U64.toNat
  repeat' split
  all_goals first | rfl | omega
theorem U128.cmp_eq_cmp3 (u v : U128) (hu : u.WF) (hv : v.WF) : u.cmp v = cmp3 u.toNat v.toNat :=
  U128.cmp_spec u v hu hv
theorem U256.cmp_eq_cmp3 (u v : U256) (hu : u.WF) (hv : v.WF) : u.cmp v = cmp3 u.toNat v.toNat :=
  U256.cmp_spec u v hu hv

end ObiVerif.Fp
