import ObiVerif.Model.WriteKind
import ObiVerif.Lemmas.WriteErr
import ObiVerif.Lemmas.Reseq
/-!
# Lemmas: the value-carrying writer model erases to the Bool model (C18)

`erase` forgets the error values (`err.isSome`, `cerr.isSome`).  `Flush`, the loop of `Write` and `Write`
commute with the erasure for every error value.  A `Write` on a `bufio.Writer` whose `err` is set is the
identity, so "stop at the first fatal error" (value model with `chk = fun _ => true`) and "keep going"
(Bool model) reach the same final state.  `run_rel` transports a simulation through the re-sequencing
machine for EVERY arrival history (no permutation hypothesis).
-/
namespace ObiVerif.WriteErr
open ObiVerif.Reseq

variable {ε : Type}

/-! ## erasure -/

def SinkE.erase (s : SinkE ε) : Sink := ⟨s.limit, s.got, s.cerr.isSome⟩

def BWE.erase (b : BWE ε) : BW := ⟨b.size, b.buf, b.err.isSome, b.sink.erase⟩

@[simp] theorem BWE.erase_size (b : BWE ε) : b.erase.size = b.size := rfl
@[simp] theorem BWE.erase_buf (b : BWE ε) : b.erase.buf = b.buf := rfl
@[simp] theorem BWE.erase_err (b : BWE ε) : b.erase.err = b.err.isSome := rfl
@[simp] theorem BWE.erase_sink (b : BWE ε) : b.erase.sink = b.sink.erase := rfl
@[simp] theorem SinkE.erase_got (s : SinkE ε) : s.erase.got = s.got := rfl
@[simp] theorem SinkE.erase_limit (s : SinkE ε) : s.erase.limit = s.limit := rfl
@[simp] theorem SinkE.erase_closeFails (s : SinkE ε) : s.erase.closeFails = s.cerr.isSome := rfl

theorem SinkE.write_erase (s : SinkE ε) (p : Bytes) :
    (s.write p).1.erase = (s.erase.write p).1 ∧ (s.write p).2.1 = (s.erase.write p).2.1 ∧
    (s.write p).2.2.isSome = (s.erase.write p).2.2 := by
  unfold SinkE.write Sink.write SinkE.erase
  simp only
  split <;> simp [*]

theorem SinkE.write_cerr (s : SinkE ε) (p : Bytes) : (s.write p).1.cerr = s.cerr := by
  unfold SinkE.write
  simp only
  split <;> rfl

theorem SinkE.write_werr (s : SinkE ε) (p : Bytes) : (s.write p).1.werr = s.werr := by
  unfold SinkE.write
  simp only
  split <;> rfl

theorem BW.eq_of {a b : BW} (h1 : a.size = b.size) (h2 : a.buf = b.buf) (h3 : a.err = b.err)
    (h4 : a.sink = b.sink) : a = b := by
  cases a; cases b; simp_all

/-- `Flush` commutes with the erasure -/
theorem flush_erase (b : BWE ε) : b.flush.erase = b.erase.flush := by
  obtain ⟨h1, h2, h3⟩ := SinkE.write_erase b.sink b.buf
  unfold BWE.flush BW.flush
  by_cases he : b.err.isSome = true
  · have he' : b.erase.err = true := he
    rw [if_pos he, if_pos he']
  · have he' : ¬ b.erase.err = true := he
    rw [if_neg he, if_neg he']
    by_cases hl : b.buf.length = 0
    · have hl' : b.erase.buf.length = 0 := hl
      rw [if_pos hl, if_pos hl']
    · have hl' : ¬ b.erase.buf.length = 0 := hl
      rw [if_neg hl, if_neg hl']
      show (if (b.sink.write b.buf).2.2.isSome = true then
          ({ b with buf := b.buf.drop (b.sink.write b.buf).2.1, err := (b.sink.write b.buf).2.2,
                    sink := (b.sink.write b.buf).1 } : BWE ε)
        else { b with buf := [], sink := (b.sink.write b.buf).1 }).erase =
        if (b.sink.erase.write b.buf).2.2 = true then
          { b.erase with buf := b.buf.drop (b.sink.erase.write b.buf).2.1, err := true,
                         sink := (b.sink.erase.write b.buf).1 }
        else { b.erase with buf := [], sink := (b.sink.erase.write b.buf).1 }
      rw [← h3, ← h2, ← h1]
      by_cases hw : (b.sink.write b.buf).2.2.isSome = true
      · rw [if_pos hw, if_pos hw]
        exact BW.eq_of rfl rfl hw rfl
      · rw [if_neg hw, if_neg hw]
        rfl

/-- erasure of the pair (writer, rest of `p`) of the loop of `Write` -/
def eraseP (r : BWE ε × Bytes) : BW × Bytes := (r.1.erase, r.2)

/-- the loop of `Write` commutes with the erasure, for every fuel -/
theorem writeLoop_erase (fuel : Nat) (b : BWE ε) (p : Bytes) :
    eraseP (BWE.writeLoop fuel b p) = BW.writeLoop fuel b.erase p := by
  induction fuel generalizing b p with
  | zero => rfl
  | succ f ih =>
    rw [BWE.writeLoop, BW.writeLoop]
    by_cases hcond : (decide (p.length > b.size - b.buf.length) && !b.err.isSome) = true
    · have hcond' : (decide (p.length > b.erase.size - b.erase.buf.length) && !b.erase.err) = true := hcond
      rw [if_pos hcond, if_pos hcond']
      by_cases hl : b.buf.length = 0
      · have hl' : b.erase.buf.length = 0 := hl
        rw [if_pos hl, if_pos hl']
        obtain ⟨h1, h2, h3⟩ := SinkE.write_erase b.sink p
        show eraseP (BWE.writeLoop f { b with err := (b.sink.write p).2.2, sink := (b.sink.write p).1 }
            (p.drop (b.sink.write p).2.1)) =
          BW.writeLoop f { b.erase with err := (b.sink.erase.write p).2.2, sink := (b.sink.erase.write p).1 }
            (p.drop (b.sink.erase.write p).2.1)
        rw [ih, ← h1, ← h2, ← h3]
        rfl
      · have hl' : ¬ b.erase.buf.length = 0 := hl
        rw [if_neg hl, if_neg hl']
        show eraseP (BWE.writeLoop f
            (BWE.flush { b with buf := b.buf ++ p.take (min p.length (b.size - b.buf.length)) })
            (p.drop (min p.length (b.size - b.buf.length)))) =
          BW.writeLoop f
            (BW.flush { b.erase with buf := b.buf ++ p.take (min p.length (b.size - b.buf.length)) })
            (p.drop (min p.length (b.size - b.buf.length)))
        rw [ih, flush_erase]
        rfl
    · have hcond' : ¬ (decide (p.length > b.erase.size - b.erase.buf.length) && !b.erase.err) = true := hcond
      rw [if_neg hcond, if_neg hcond']
      rfl

/-- `Write` commutes with the erasure: the Bool model is the value model with the error values forgotten -/
theorem write_erase (b : BWE ε) (p : Bytes) : (b.write p).erase = b.erase.write p := by
  rw [write_eq, ← writeLoop_erase]
  unfold BWE.write eraseP fin
  generalize BWE.writeLoop (p.length + 2) b p = r
  obtain ⟨b', p'⟩ := r
  show (if b'.err.isSome = true then b' else { b' with buf := b'.buf ++ p' }).erase =
    if b'.erase.err = true then b'.erase else { b'.erase with buf := b'.erase.buf ++ p' }
  by_cases he : b'.err.isSome = true
  · rw [if_pos he, if_pos (show b'.erase.err = true from he)]
  · rw [if_neg he, if_neg (show ¬ b'.erase.err = true from he)]
    rfl

/-! ## after a first error `bufio.Writer` does nothing -/

theorem flush_err_id (b : BW) (he : b.err = true) : b.flush = b := by
  unfold BW.flush; simp [he]

/-- a `Write` on a writer whose sticky `err` is set changes nothing -/
theorem write_err_id (b : BW) (p : Bytes) (he : b.err = true) : b.write p = b := by
  rw [write_eq, writeLoop_err _ _ _ he]
  unfold fin; simp [he]

/-! ## simulation: the checking writer (every error fatal) against the Bool model -/

/-- the value-model goroutine state `s` and the Bool-model writer `b` agree: same `bufio.Writer` up to the
error values, and the goroutine is dead exactly when an error has been seen -/
def Sim (s : WE ε) (b : BW) : Prop := s.bw.erase = b ∧ s.dead = s.bw.err.isSome

theorem sim_init (size limit : Nat) (werr : Nat → ε) (cerr : Option ε) :
    Sim (initE size limit werr cerr) ⟨size, [], false, ⟨limit, [], cerr.isSome⟩⟩ := ⟨rfl, rfl⟩

/-- one checked `Write`, every error fatal -/
theorem checkedWrite_sim {s : WE ε} {b : BW} (h : Sim s b) (t : Bytes) :
    Sim (checkedWrite (fun _ => true) s t) (b.write t) := by
  obtain ⟨h1, h2⟩ := h
  unfold checkedWrite
  cases hd : s.dead with
  | true =>
    simp only [if_true]
    have he : b.err = true := by rw [← h1, BWE.erase_err, ← h2, hd]
    rw [write_err_id b t he]
    exact ⟨h1, h2⟩
  | false =>
    simp only [Bool.false_eq_true, if_false]
    refine ⟨?_, ?_⟩
    · show (s.bw.write t).erase = b.write t
      rw [write_erase, h1]
    · show (match (s.bw.write t).err with | some _ => true | none => false) = (s.bw.write t).err.isSome
      cases (s.bw.write t).err <;> rfl

theorem emitRawE_sim {s : WE ε} {b : BW} (h : Sim s b) (t : Bytes) :
    Sim (emitRawE (fun _ => true) s t) (emitRaw b t) := checkedWrite_sim h t

def SimJ (s : JE ε) (j : JS) : Prop := Sim s.w j.bw ∧ s.started = j.started

theorem emitJsonE_sim {s : JE ε} {j : JS} (h : SimJ s j) (t : Bytes) :
    SimJ (emitJsonE (fun _ => true) s t) (emitJson j t) := by
  obtain ⟨h1, h2⟩ := h
  unfold emitJsonE emitJson
  rw [← h2]
  by_cases ht : t.isEmpty = true
  · simp only [ht, if_true]; exact ⟨h1, h2⟩
  · simp only [ht]
    cases hs : s.started with
    | true =>
      simp only [if_true]
      exact ⟨checkedWrite_sim (checkedWrite_sim h1 sepJson) t, rfl⟩
    | false =>
      simp only [Bool.false_eq_true, if_false]
      exact ⟨checkedWrite_sim h1 t, rfl⟩

theorem foldl_emitRawE_sim (l : List Bytes) {s : WE ε} {b : BW} (h : Sim s b) :
    Sim (l.foldl (emitRawE (fun _ => true)) s) (l.foldl emitRaw b) := by
  induction l generalizing s b with
  | nil => exact h
  | cons t ts ih => exact ih (emitRawE_sim h t)

theorem foldl_emitJsonE_sim (l : List Bytes) {s : JE ε} {j : JS} (h : SimJ s j) :
    SimJ (l.foldl (emitJsonE (fun _ => true)) s) (l.foldl emitJson j) := by
  induction l generalizing s j with
  | nil => exact h
  | cons t ts ih => exact ih (emitJsonE_sim h t)

/-- `Close`, every error fatal: same outcome, same bytes in the sink -/
theorem closeWE_sim {s : WE ε} {b : BW} (h : Sim s b) (own : Bool) :
    closeWE (fun _ => true) own s = closeWO own b := by
  obtain ⟨h1, h2⟩ := h
  unfold closeWE closeWO
  cases hd : s.dead with
  | true =>
    have he : b.err = true := by rw [← h1, BWE.erase_err, ← h2, hd]
    simp only [if_true]
    rw [flush_err_id b he, he, ← h1]
    rfl
  | false =>
    simp only [Bool.false_eq_true, if_false]
    rw [← h1, ← flush_erase]
    generalize s.bw.flush = c
    obtain ⟨sz, bf, er, sk⟩ := c
    cases er with
    | some x => simp [BWE.erase]
    | none => cases own <;> cases hc : sk.cerr <;> simp [BWE.erase, SinkE.erase, hc]

/-! ## simulations go through the re-sequencing machine, for every arrival history -/

section rel
variable {σ σ' α : Type} (R : σ → σ' → Prop) (f : σ → α → σ) (f' : σ' → α → σ')

/-- two machine states with the same counter, the same pending map and related accumulators -/
def RelWS (s : WS σ α) (s' : WS σ' α) : Prop := s.next = s'.next ∧ s.pending = s'.pending ∧ R s.acc s'.acc

theorem drain_rel (hf : ∀ a b x, R a b → R (f a x) (f' b x)) (s : WS σ α) (s' : WS σ' α)
    (h : RelWS R s s') : RelWS R (drain f s) (drain f' s') := by
  induction s using drain.induct (fD := f) generalizing s' with
  | case1 s hnone =>
    obtain ⟨hn, hp, hr⟩ := h
    have hnone' : lookupK s'.next s'.pending = none := by rw [← hn, ← hp]; exact hnone
    have e1 : drain f s = s := by
      rw [drain]; split
      · rfl
      · rename_i x heq; rw [hnone] at heq; cases heq
    have e2 : drain f' s' = s' := by
      rw [drain]; split
      · rfl
      · rename_i x heq; rw [hnone'] at heq; cases heq
    rw [e1, e2]; exact ⟨hn, hp, hr⟩
  | case2 s x hsome ih =>
    obtain ⟨hn, hp, hr⟩ := h
    have hsome' : lookupK s'.next s'.pending = some x := by rw [← hn, ← hp]; exact hsome
    have e1 : drain f s = drain f { next := s.next + 1, pending := eraseK s.next s.pending, acc := f s.acc x } := by
      rw [drain]; split
      · rename_i heq; rw [hsome] at heq; cases heq
      · rename_i y heq; rw [hsome] at heq; cases heq; rfl
    have e2 : drain f' s' =
        drain f' { next := s'.next + 1, pending := eraseK s'.next s'.pending, acc := f' s'.acc x } := by
      rw [drain]; split
      · rename_i heq; rw [hsome'] at heq; cases heq
      · rename_i y heq; rw [hsome'] at heq; cases heq; rfl
    rw [e1, e2]
    apply ih
    exact ⟨by simp only [hn], by simp only [hn, hp], hf _ _ _ hr⟩

theorem step_rel (hf : ∀ a b x, R a b → R (f a x) (f' b x)) (s : WS σ α) (s' : WS σ' α)
    (h : RelWS R s s') (a : Nat × α) : RelWS R (step f f s a) (step f' f' s' a) := by
  obtain ⟨hn, hp, hr⟩ := h
  unfold step
  rw [← hn]
  by_cases hk : a.1 = s.next
  · rw [if_pos hk, if_pos hk]
    apply drain_rel R f f' hf
    exact ⟨rfl, hp, hf _ _ _ hr⟩
  · rw [if_neg hk, if_neg hk]
    exact ⟨rfl, by simp only [hp], hr⟩

/-- a simulation between two emit functions is carried by `run`, whatever the arrival history -/
theorem run_rel (hf : ∀ a b x, R a b → R (f a x) (f' b x)) (i : σ) (i' : σ') (hi : R i i')
    (arr : List (Nat × α)) : R (run f f i arr).acc (run f' f' i' arr).acc := by
  unfold run
  have : ∀ (s : WS σ α) (s' : WS σ' α), RelWS R s s' →
      RelWS R (arr.foldl (step f f) s) (arr.foldl (step f' f') s') := by
    induction arr with
    | nil => intro s s' h; exact h
    | cons a t ih => intro s s' h; exact ih _ _ (step_rel R f f' hf s s' h a)
  exact (this _ _ ⟨rfl, rfl, hi⟩).2.2

end rel

end ObiVerif.WriteErr
