import ObiVerif.Lemmas.Tax
/-! a concrete well-formed taxonomy used by the non-vacuity examples of `Props/C14.lean` -/
namespace ObiVerif.Tax

def exNode : Nat → Option Node
  | 1 => some ⟨1, "no rank"⟩
  | 2 => some ⟨1, "genus"⟩
  | 3 => some ⟨2, "species"⟩
  | 4 => some ⟨2, "species"⟩
  | 5 => some ⟨1, "family"⟩
  | _ => none

def exT : Taxo := addAliases { ids := [1, 2, 3, 4, 5], node := exNode, alias := fun _ => none } [(9, 3), (10, 9)]

def exDepth : Nat → Nat
  | 1 => 0
  | 2 => 1
  | 5 => 1
  | _ => 2

theorem exT_node : exT.node = exNode := addAliases_node _ _

theorem exT_wf : WF exT 1 exDepth := by
  refine ⟨⟨⟨1, "no rank"⟩, by rw [exT_node]; rfl, rfl⟩, ?_, ?_, ?_⟩ <;>
  · intro x n h
    rw [exT_node] at *
    unfold exNode at h
    split at h <;> cases h <;> simp [exNode, exDepth]

theorem exT_fuel : FuelOK exT 6 := by
  apply fuelOK_of_depth exT_wf
  intro x n _
  unfold exDepth; split <;> omega

theorem exT_aliasOK : AliasOK exT :=
  addAliases_aliasOK (by intro o n h; cases h) _

theorem exT_ids : exT.ids = [1, 2, 3, 4, 5] := rfl

/-- the keys of the `nodes` map are exactly the nodes -/
theorem exT_ids_nodes : ∀ x, x ∈ exT.ids ↔ (exT.node x).isSome := by
  intro x
  rw [exT_node, exT_ids]
  unfold exNode
  split <;> simp
  rename_i h1 h2 h3 h4 h5
  exact ⟨h1, h2, h3, h4, h5⟩

end ObiVerif.Tax
