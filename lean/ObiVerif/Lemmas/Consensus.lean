import ObiVerif.Model.Consensus
import ObiVerif.Lemmas.DeBruijn
import ObiVerif.Lemmas.DeBruijnGraph
/-!
# Lemmas on the glue of obiconsensus (C19): the k-mer size loop of `BuildConsensus` ends
-/
set_option Elab.async false
namespace ObiVerif.DeBruijn
open ObiVerif.Kmer

theorem cons_foldl_max_ge (l : List Nat) (a : Nat) : a ≤ l.foldl max a ∧ ∀ x ∈ l, x ≤ l.foldl max a := by
  induction l generalizing a with
  | nil => simp
  | cons y t ih =>
    have h := ih (max a y)
    refine ⟨by have := h.1; simp only [List.foldl_cons]; omega, ?_⟩
    intro x hx
    simp only [List.foldl_cons]
    rcases List.mem_cons.1 hx with rfl | hx
    · have := h.1; omega
    · exact h.2 x hx

theorem length_le_maxLen (reads : List (Bytes × Nat)) (r : Bytes × Nat) (hr : r ∈ reads) :
    r.1.length ≤ maxLen reads :=
  (cons_foldl_max_ge (reads.map fun r => r.1.length) 0).2 _ (List.mem_map.2 ⟨r, hr, rfl⟩)

theorem pushes_k (reads : List (Bytes × Nat)) (g : Graph) :
    (reads.foldl (fun g r => g.push r.1 r.2) g).k = g.k := by
  induction reads generalizing g with
  | nil => rfl
  | cons r t ih => rw [List.foldl_cons, ih, (push_k g r.1 r.2).1]

theorem graphOf_k (k : Nat) (reads : List (Bytes × Nat)) : (graphOf k reads).k = k := by
  unfold graphOf; rw [pushes_k]; rfl

/-- reads shorter than `k` leave the graph as it is (`if len(s) < graph.kmersize { return }`) -/
theorem pushes_short (reads : List (Bytes × Nat)) (g : Graph) (h : ∀ r ∈ reads, r.1.length < g.k) :
    reads.foldl (fun g r => g.push r.1 r.2) g = g := by
  induction reads generalizing g with
  | nil => rfl
  | cons r t ih =>
    have h1 : g.push r.1 r.2 = g := by simp [Graph.push, h r (by simp)]
    rw [List.foldl_cons, h1]
    exact ih g (fun r' hr' => h r' (by simp [hr']))

/-- beyond the longest read the graph is empty -/
theorem graphOf_empty (k : Nat) (reads : List (Bytes × Nat)) (h : maxLen reads < k) :
    (graphOf k reads).nodes = [] := by
  unfold graphOf
  rw [pushes_short reads (makeGraph k) (fun r hr => by
    have := length_le_maxLen reads r hr
    show r.1.length < k
    omega)]
  rfl

theorem hasCycle_nil (g : Graph) (h : g.nodes = []) : g.hasCycle = some false := by
  simp [Graph.hasCycle, h, dfsAll]

/-- **The loop of `BuildConsensus` ends**, whatever the reads and the starting size: with `f + 1` trials allowed
and `maxLen < k + f` it stops at a size `k'` with `k ≤ k' ≤ k + f`, the graph returned is the graph of the reads
at `k'`, `HasCycle` answered false on it and true at every size tried before. -/
theorem kLoop_gen (reads : List (Bytes × Nat)) (f k : Nat) (h : maxLen reads < k + f) :
    ∃ k', kLoop reads (f + 1) k = some (k', graphOf k' reads) ∧ k ≤ k' ∧ k' ≤ k + f ∧
      (graphOf k' reads).hasCycle = some false ∧
      ∀ j, k ≤ j → j < k' → (graphOf j reads).hasCycle = some true := by
  induction f generalizing k with
  | zero =>
    have he := hasCycle_nil _ (graphOf_empty k reads (by omega))
    exact ⟨k, by simp [kLoop, he], Nat.le_refl _, by omega, he, fun j h1 h2 => by omega⟩
  | succ f ih =>
    rcases hasCycle_spec (graphOf k reads) with ⟨h1, _⟩ | ⟨h1, _⟩
    · obtain ⟨k', e, hk1, hk2, hc, hall⟩ := ih (k + 1) (by omega)
      refine ⟨k', ?_, by omega, by omega, hc, ?_⟩
      · rw [kLoop]; simp only [h1]; exact e
      · intro j hj1 hj2
        by_cases hj : j = k
        · subst hj; exact h1
        · exact hall j (by omega) hj2
    · exact ⟨k, by rw [kLoop]; simp only [h1], Nat.le_refl _, by omega, h1, fun j h1 h2 => by omega⟩

theorem kLoop_spec (reads : List (Bytes × Nat)) (k0 : Nat) :
    ∃ k, kLoop reads (loopFuel reads k0) k0 = some (k, graphOf k reads) ∧ k0 ≤ k ∧ k ≤ max k0 (maxLen reads + 1) ∧
      (graphOf k reads).hasCycle = some false ∧
      ∀ j, k0 ≤ j → j < k → (graphOf j reads).hasCycle = some true := by
  obtain ⟨k, e, h1, h2, h3, h4⟩ := kLoop_gen reads (maxLen reads + 1 - k0) k0 (by omega)
  exact ⟨k, e, h1, by omega, h3, h4⟩

theorem decodeNode_length (n x : Nat) (acc : List UInt8) : (decodeNode n x acc).length = n + acc.length := by
  induction n generalizing x acc with
  | zero => simp [decodeNode]
  | succ n ih => rw [decodeNode, ih]; simp; omega

theorem decodePath_ne_nil (g : Graph) (hk : 1 ≤ g.k) (x : Nat) (t : List Nat) : (g.decodePath (x :: t)).isEmpty = false := by
  have := decodeNode_length g.k x []
  cases h : decodeNode g.k x [] with
  | nil => rw [h] at this; simp at this; omega
  | cons a b => simp [Graph.decodePath, h]

end ObiVerif.DeBruijn
