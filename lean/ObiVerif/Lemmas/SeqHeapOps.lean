import ObiVerif.Lemmas.SeqHeap
import ObiVerif.Lemmas.SeqOps
/-!
# Frames of the composite heap actions and of every operation (C07, heap model)
-/
namespace ObiVerif.SeqHeap
open ObiVerif.SeqOps

/-! ## `old := cell c; cell c = nil; RecycleSlice(&old)` -/

theorem detachRecycle_frame {h : Heap} (hI : Inv h) {c : Nat} (hc : Fld h c) :
    Frame h (h.detachRecycle c) (· = c) ∧ (h.detachRecycle c).content c = [] := by
  have hcl : c < h.ncell := hI.cellLt c (fld_owner hc)
  -- the intermediate heap: the slice has moved to the fresh variable `h.ncell`
  let h1 : Heap := { h with cells := upd (upd h.cells h.ncell (h.cells c)) c none, ncell := h.ncell + 1 }
  have hcells : ∀ d, d < h.ncell → d ≠ c → h1.cells d = h.cells d := by
    intro d hd hdc
    show upd (upd h.cells h.ncell (h.cells c)) c none d = h.cells d
    rw [upd_ne _ _ hdc, upd_ne _ _ (by omega)]
  have hcc : h1.cells c = none := upd_same _ _ _
  have hcn : h1.cells h.ncell = h.cells c := by
    show upd (upd h.cells h.ncell (h.cells c)) c none h.ncell = h.cells c
    rw [upd_ne _ _ (by omega), upd_same]
  have hown : ∀ d s, Owner h d → h1.cells d = some s → d ≠ c ∧ h.cells d = some s := by
    intro d s hd hs
    have hdl := hI.cellLt d hd
    by_cases e : d = c
    · rw [e, hcc] at hs; cases hs
    · rw [hcells d hdl e] at hs; exact ⟨e, hs⟩
  have hI1 : Inv h1 := by
    refine ⟨hI.poolNotFld, hI.poolNodup, ?_, hI.disj, ?_, ?_, ?_, ?_⟩
    · intro c1 c2 s t o1 o2 hs ht heq
      exact hI.sep c1 c2 s t o1 o2 (hown c1 s o1 hs).2 (hown c2 t o2 ht).2 heq
    · intro d hd; have := hI.cellLt d hd; show d < h.ncell + 1; omega
    · intro d hd
      have hd' : h.ncell + 1 ≤ d := hd
      show upd (upd h.cells h.ncell (h.cells c)) c none d = none
      rw [upd_ne _ _ (by omega), upd_ne _ _ (by omega)]; exact hI.cellFresh d (by omega)
    · intro d s hd hs; exact hI.bufLt d s hd (hown d s hd hs).2
    · intro d s hd hs; exact hI.lenLe d s hd (hown d s (fld_owner hd) hs).2
  have f1 : Frame h h1 (· = c) := by
    refine ⟨hI1, rfl, ?_, by show h.ncell ≤ h.ncell + 1; omega⟩
    intro d hd hdc
    exact content_eq_of (h := h) (hcells d (hI.cellLt d (fld_owner hd)) hdc) (fun _ _ => rfl)
  have hloose : Loose h1 h.ncell := by
    refine ⟨?_, by show h.ncell < h.ncell + 1; omega, ?_⟩
    · intro ho; have := hI.cellLt h.ncell ho; omega
    · intro s hs
      rw [hcn] at hs
      refine ⟨hI.bufLt c s (fld_owner hc) hs, ?_⟩
      intro c' t ho ht heq
      obtain ⟨hne, ht'⟩ := hown c' t ho ht
      exact hne (hI.sep c' c t s ho (fld_owner hc) ht' hs heq)
  obtain ⟨f2, hc2, _, _, _, _⟩ := recycle_loose hI1 hloose
  refine ⟨(f1.trans f2).weaken (by intro d; simp), ?_⟩
  show (h1.recycleSlice h.ncell).content c = []
  unfold Heap.content
  rw [hc2 c (by omega), hcc]

/-! ## scratch buffers -/

theorem scratch_frame {h : Heap} (hI : Inv h) (n : Nat) (fill : UInt8) (k : Nat) :
    Frame h (h.scratch n fill k) (fun _ => False) := by
  have g := getSlice_spec hI n k
  have f0 := getSpec_frame g
  unfold Heap.scratch
  generalize h.getSlice n k = r at g f0 ⊢
  let h1 : Heap := { r.1 with bufs := upd r.1.bufs r.2.buf (writeAt (r.1.bufs r.2.buf) 0 (List.replicate n fill)),
                              cells := upd r.1.cells r.1.ncell (some ⟨r.2.buf, n⟩), ncell := r.1.ncell + 1 }
  have hcells : ∀ d, Owner r.1 d → h1.cells d = r.1.cells d := by
    intro d hd
    have := g.inv.cellLt d hd
    exact upd_ne _ _ (by omega)
  have hI1 : Inv h1 := by
    refine ⟨g.inv.poolNotFld, g.inv.poolNodup, ?_, g.inv.disj, ?_, ?_, ?_, ?_⟩
    · intro c1 c2 s t o1 o2 hs ht heq
      rw [hcells c1 o1] at hs; rw [hcells c2 o2] at ht
      exact g.inv.sep c1 c2 s t o1 o2 hs ht heq
    · intro d hd; have := g.inv.cellLt d hd; show d < r.1.ncell + 1; omega
    · intro d hd
      have hd' : r.1.ncell + 1 ≤ d := hd
      show upd r.1.cells r.1.ncell _ d = none
      rw [upd_ne _ _ (by omega)]; exact g.inv.cellFresh d (by omega)
    · intro d s hd hs; rw [hcells d hd] at hs; exact g.inv.bufLt d s hd hs
    · intro d s hd hs
      rw [hcells d (fld_owner hd)] at hs
      show s.len ≤ (upd r.1.bufs r.2.buf _ s.buf).length
      rw [upd_ne _ _ (g.detached d s (fld_owner hd) hs)]
      exact g.inv.lenLe d s hd hs
  have f1 : Frame r.1 h1 (fun _ => False) := by
    refine ⟨hI1, rfl, ?_, by show r.1.ncell ≤ r.1.ncell + 1; omega⟩
    intro d hd _
    refine content_eq_of (h := r.1) (hcells d (fld_owner hd)) ?_
    intro s hs
    exact upd_ne _ _ (g.detached d s (fld_owner hd) hs)
  have hloose : Loose h1 r.1.ncell := by
    refine ⟨?_, by show r.1.ncell < r.1.ncell + 1; omega, ?_⟩
    · intro ho; have := g.inv.cellLt r.1.ncell ho; omega
    · intro s hs
      have : h1.cells r.1.ncell = some ⟨r.2.buf, n⟩ := upd_same _ _ _
      rw [this] at hs; cases hs
      refine ⟨g.bufNew, ?_⟩
      intro c' t ho ht
      rw [hcells c' ho] at ht
      exact g.detached c' t ho ht
  have f2 := (recycle_loose hI1 hloose).1
  exact ((f0.trans f1).trans f2).weaken (by intro d hd; rcases hd with (hd | hd) | hd <;> exact hd)

/-! ## `append`, assignment of a slice made by the caller -/

theorem assignFresh_frame {h : Heap} (hI : Inv h) {c : Nat} (hc : Fld h c) (data : Bytes) (g : Nat) :
    Frame h (h.assignFresh c data g) (· = c) ∧ (h.assignFresh c data g).content c = data := by
  have a := assign_frame hI hc h.nbuf data.length (h.nbuf + 1) (data ++ List.replicate g 0)
    (by omega) (by omega) (by simp)
    (fun c' s ho _ hs => by have := hI.bufLt c' s ho hs; omega)
  refine ⟨a.1, ?_⟩
  have := a.2
  rw [List.take_left'] at this
  · exact this
  · rfl

theorem appendCell_frame {h : Heap} (hI : Inv h) {c : Nat} (hc : Fld h c) (data : Bytes) (g : Nat) :
    Frame h (h.appendCell c data g) (· = c) ∧ (h.appendCell c data g).content c = h.content c ++ data := by
  unfold Heap.appendCell
  cases hs : h.cells c with
  | none =>
    simp only []
    have hc0 : h.content c = [] := by simp [Heap.content, hs]
    split
    · rename_i he
      refine ⟨Frame.refl hI _, ?_⟩
      rw [hc0]; simp at he; simp [he]
    · have a := assignFresh_frame hI hc data g
      rw [hc0]; exact a
  | some s =>
    simp only []
    have hl := hI.lenLe c s hc hs
    have hc0 : h.content c = (h.bufs s.buf).take s.len := by simp [Heap.content, hs]
    split
    · rename_i hfit
      have a := assign_frame hI hc s.buf (s.len + data.length) h.nbuf (writeAt (h.bufs s.buf) s.len data)
        (hI.bufLt c s (fld_owner hc) hs) (Nat.le_refl _)
        (by rw [writeAt_length _ _ _ hfit]; exact hfit)
        (fun c' t ho hne ht heq => hne (hI.sep c' c t s ho (fld_owner hc) ht hs heq))
      refine ⟨a.1, ?_⟩
      have := a.2
      rw [writeAt_take_append _ _ _ hl] at this
      rw [hc0]; exact this
    · have a := assign_frame hI hc h.nbuf (s.len + data.length) (h.nbuf + 1)
        ((h.bufs s.buf).take s.len ++ data ++ List.replicate g 0)
        (by omega) (by omega) (by simp; omega)
        (fun c' t ho _ ht => by have := hI.bufLt c' t ho ht; omega)
      refine ⟨a.1, ?_⟩
      have := a.2
      have e2 : ((h.bufs s.buf).take s.len ++ data ++ List.replicate g 0).take (s.len + data.length) =
          (h.bufs s.buf).take s.len ++ data := by
        have e : s.len + data.length = ((h.bufs s.buf).take s.len ++ data).length := by simp; omega
        rw [e, List.take_left']
        rfl
      rw [e2] at this
      rw [hc0]; exact this

/-! ## `RecycleSlice(&cell x); cell x = nil` on a variable that belongs to nobody -/

theorem rstep_loose {h : Heap} (hI : Inv h) {x : Nat} (hx : Loose h x) :
    Frame h (h.rstep x) (fun _ => False) ∧ (∀ y, y ≠ x → Loose h y → Loose (h.rstep x) y) := by
  obtain ⟨f, hcells, hown, _, hnb, hnc⟩ := recycle_loose hI hx
  have hxF : ¬ Fld h x := fun hf => hx.1 (Or.inr hf)
  let h1 := h.recycleSlice x
  have hI1 := f.inv
  have hc' : ∀ d s, (h.rstep x).cells d = some s → d ≠ x ∧ h1.cells d = some s := by
    intro d s hs
    change upd h1.cells x none d = some s at hs
    by_cases e : d = x
    · rw [e, upd_same] at hs; cases hs
    · rw [upd_ne _ _ e] at hs; exact ⟨e, hs⟩
  have hI2 : Inv (h.rstep x) := by
    refine ⟨hI1.poolNotFld, hI1.poolNodup, ?_, hI1.disj, hI1.cellLt, ?_, ?_, ?_⟩
    · intro c1 c2 s t o1 o2 hs ht heq
      exact hI1.sep c1 c2 s t o1 o2 (hc' c1 s hs).2 (hc' c2 t ht).2 heq
    · intro d hd
      show upd h1.cells x none d = none
      by_cases e : d = x
      · rw [e, upd_same]
      · rw [upd_ne _ _ e]; exact hI1.cellFresh d hd
    · intro d s hd hs; exact hI1.bufLt d s hd (hc' d s hs).2
    · intro d s hd hs; exact hI1.lenLe d s hd (hc' d s hs).2
  refine ⟨⟨hI2, f.objs, ?_, f.ncell⟩, ?_⟩
  · intro d hd hn
    rw [← f.same d hd hn]
    have e : d ≠ x := fun e => hxF (e ▸ hd)
    exact content_eq_of (h := h1) (upd_ne _ _ e) (fun _ _ => rfl)
  · intro y hyx ⟨hy1, hy2, hy3⟩
    refine ⟨?_, by show y < h1.ncell; rw [hnc]; exact hy2, ?_⟩
    · intro ho
      rcases hown y ho with e | ho'
      · exact hyx e
      · exact hy1 ho'
    · intro s hs
      obtain ⟨_, hs1⟩ := hc' y s hs
      rw [hcells y hyx] at hs1
      obtain ⟨hb, hd⟩ := hy3 s hs1
      refine ⟨by show s.buf < h1.nbuf; rw [hnb]; exact hb, ?_⟩
      intro c' t ho ht
      obtain ⟨hne, ht1⟩ := hc' c' t ht
      rw [hcells c' hne] at ht1
      rcases hown c' ho with e | ho'
      · exact absurd e hne
      · exact hd c' t ho' ht1

/-! ## objects -/

/-- frame of an action on the object whose fields start at `base` -/
abbrev TF (h0 h : Heap) (base : Nat) : Prop := Frame h0 h (fun d => base ≤ d ∧ d < base + 3)

theorem TF.step {h0 h h2 : Heap} {base i : Nat} (f : TF h0 h base) (g : Frame h h2 (· = base + i)) (hi : i < 3) :
    TF h0 h2 base :=
  (f.trans g).weaken (by intro d hd; rcases hd with hd | hd; exact hd; subst hd; omega)

theorem fld_of {h : Heap} {a : String} {oa : HObj} (ha : h.objs a = some oa) (i : Nat) (hi : i < 3) :
    Fld h (oa.base + i) := ⟨a, oa, ha, by omega, by omega⟩

theorem view_of_frame {h h' : Heap} {a : String} {oa : HObj} (hI : Inv h) (ha : h.objs a = some oa)
    (f : TF h h' oa.base) (n : String) (hn : n ≠ a) : h'.view n = h.view n := by
  unfold Heap.view
  rw [f.objs]
  cases ho : h.objs n with
  | none => rfl
  | some o =>
    have hd := hI.disj n a o oa ho ha hn
    simp only [Option.map_some]
    rw [f.same o.base ⟨n, o, ho, by omega, by omega⟩ (by omega),
      f.same (o.base + 1) ⟨n, o, ho, by omega, by omega⟩ (by omega),
      f.same (o.base + 2) ⟨n, o, ho, by omega, by omega⟩ (by omega)]

theorem newObj_spec {h : Heap} (hI : Inv h) {b : String} (_hb : h.objs b = none) (ann : Ann) :
    Inv (h.newObj b ann) ∧ (h.newObj b ann).objs b = some ⟨h.ncell, ann⟩ ∧
      (∀ n, n ≠ b → (h.newObj b ann).view n = h.view n) := by
  have hobj : ∀ n o, (h.newObj b ann).objs n = some o → (n = b ∧ o = ⟨h.ncell, ann⟩) ∨ (n ≠ b ∧ h.objs n = some o) := by
    intro n o ho
    change (if n = b then some ⟨h.ncell, ann⟩ else h.objs n) = some o at ho
    by_cases e : n = b
    · rw [if_pos e] at ho; cases ho; exact Or.inl ⟨e, rfl⟩
    · rw [if_neg e] at ho; exact Or.inr ⟨e, ho⟩
  have hfld : ∀ d, Fld (h.newObj b ann) d → Fld h d ∨ (h.ncell ≤ d ∧ d < h.ncell + 3) := by
    rintro d ⟨n, o, ho, h1, h2⟩
    rcases hobj n o ho with ⟨_, e⟩ | ⟨_, ho'⟩
    · subst e; exact Or.inr ⟨h1, h2⟩
    · exact Or.inl ⟨n, o, ho', h1, h2⟩
  have hown : ∀ d s, Owner (h.newObj b ann) d → h.cells d = some s → Owner h d := by
    intro d s hd hs
    rcases hd with hd | hd
    · exact Or.inl hd
    · rcases hfld d hd with hf | ⟨h1, _⟩
      · exact Or.inr hf
      · rw [hI.cellFresh d h1] at hs; cases hs
  refine ⟨⟨?_, hI.poolNodup, ?_, ?_, ?_, ?_, ?_, ?_⟩, by show (if b = b then _ else _) = _; simp, ?_⟩
  · intro c hc hf
    rcases hfld c hf with hf | ⟨h1, _⟩
    · exact hI.poolNotFld c hc hf
    · have := hI.cellLt c (Or.inl hc); omega
  · intro c d s t oc od hs ht heq
    exact hI.sep c d s t (hown c s oc hs) (hown d t od ht) hs ht heq
  · intro n m o o' ho ho' hnm
    rcases hobj n o ho with ⟨e1, e2⟩ | ⟨e1, h1⟩ <;> rcases hobj m o' ho' with ⟨e3, e4⟩ | ⟨e3, h3⟩
    · exact absurd (e1.trans e3.symm) hnm
    · subst e2
      have := hI.cellLt (o'.base + 2) (Or.inr ⟨m, o', h3, by omega, by omega⟩)
      right; show o'.base + 3 ≤ h.ncell; omega
    · subst e4
      have := hI.cellLt (o.base + 2) (Or.inr ⟨n, o, h1, by omega, by omega⟩)
      left; show o.base + 3 ≤ h.ncell; omega
    · exact hI.disj n m o o' h1 h3 hnm
  · intro c hc
    show c < h.ncell + 3
    rcases hc with hc | hc
    · have := hI.cellLt c (Or.inl hc); omega
    · rcases hfld c hc with hf | ⟨_, h2⟩
      · have := hI.cellLt c (Or.inr hf); omega
      · exact h2
  · intro c hc
    have hc' : h.ncell + 3 ≤ c := hc
    exact hI.cellFresh c (by omega)
  · intro c s hc hs; exact hI.bufLt c s (hown c s hc hs) hs
  · intro c s hc hs
    rcases hfld c hc with hf | ⟨h1, _⟩
    · exact hI.lenLe c s hf hs
    · have hs' : h.cells c = some s := hs
      rw [hI.cellFresh c h1] at hs'; cases hs'
  · intro n hn
    unfold Heap.view
    show Option.map _ (if n = b then _ else h.objs n) = _
    rw [if_neg hn]
    rfl

theorem revcompInPlace_length (l : Bytes) : (revcompInPlace l).length = l.length := by
  unfold revcompInPlace
  rw [rcLoop_eq_genLoop, genLoop_spec nucComplement l (l.length + 1) l.toArray l.length 0 (LoopInv.init _ _) (by omega)]
  simp

theorem reverseInPlace_length (l : Bytes) : (reverseInPlace l).length = l.length := by
  unfold reverseInPlace
  rw [revLoop_eq_genLoop, genLoop_spec id l (l.length + 1) l.toArray l.length 0 (LoopInv.init _ _) (by omega)]
  simp

theorem rcInPlace_tf {h0 h : Heap} {base : Nat} (f : TF h0 h base) (hF : ∀ i, i < 3 → Fld h0 (base + i)) :
    TF h0 (h.rcInPlace base) base := by
  unfold Heap.rcInPlace
  have g1 := (mapContent_frame f.inv ((f.fld _).mpr (hF 0 (by omega))) revcompInPlace revcompInPlace_length).1
  have f1 : TF h0 (h.mapContent base revcompInPlace) base := TF.step (i := 0) f g1 (by omega)
  simp only []
  split
  · exact TF.step (i := 1) f1 (mapContent_frame f1.inv ((f1.fld _).mpr (hF 1 (by omega))) reverseInPlace reverseInPlace_length).1 (by omega)
  · exact f1

theorem setQualities_tf {h0 h : Heap} {base : Nat} (f : TF h0 h base) (hF : ∀ i, i < 3 → Fld h0 (base + i))
    (q : Bytes) (k : Nat) : TF h0 (h.setQualities base q k) base := by
  unfold Heap.setQualities
  have hf1 := hF 1 (by omega)
  simp only []
  split
  · have f1 : TF h0 (h.detachRecycle (base + 1)) base :=
      TF.step (i := 1) f (detachRecycle_frame f.inv ((f.fld _).mpr hf1)).1 (by omega)
    exact TF.step (i := 1) f1 (storeCopy_frame f1.inv ((f1.fld _).mpr hf1) q k).1 (by omega)
  · exact TF.step (i := 1) f (storeCopy_frame f.inv ((f.fld _).mpr hf1) q k).1 (by omega)

theorem setFeatures_tf {h0 h : Heap} {base : Nat} (f : TF h0 h base) (hF : ∀ i, i < 3 → Fld h0 (base + i))
    (x : Bytes) (g : Nat) : TF h0 (h.setFeatures base x g) base := by
  have hf2 := hF 2 (by omega)
  have key : ∀ big : Bool, TF h0 ((if big then h.detachRecycle (base + 2) else h).assignFresh (base + 2) x g) base := by
    intro big
    cases big
    · exact TF.step (i := 2) f (assignFresh_frame f.inv ((f.fld _).mpr hf2) x g).1 (by omega)
    · have f1 : TF h0 (h.detachRecycle (base + 2)) base :=
        TF.step (i := 2) f (detachRecycle_frame f.inv ((f.fld _).mpr hf2)).1 (by omega)
      exact TF.step (i := 2) f1 (assignFresh_frame f1.inv ((f1.fld _).mpr hf2) x g).1 (by omega)
  exact key _

/-- `Copy`: invariant kept, the new object is bound, nothing else moves -/
theorem copyObj_spec {h : Heap} (hI : Inv h) {b : String} (hb : h.objs b = none) (oa : HObj) (ch : Nat → Nat) :
    TF (h.newObj b oa.ann) (h.copyObj oa b ch) h.ncell ∧
      (∀ i, i < 3 → Fld (h.newObj b oa.ann) (h.ncell + i)) := by
  obtain ⟨hI0, hob, _⟩ := newObj_spec hI hb oa.ann
  have hF : ∀ i, i < 3 → Fld (h.newObj b oa.ann) (h.ncell + i) := fun i hi => fld_of hob i hi
  refine ⟨?_, hF⟩
  unfold Heap.copyObj
  simp only []
  have f0 : TF (h.newObj b oa.ann) (h.newObj b oa.ann) h.ncell := Frame.refl hI0 _
  have f1 := TF.step (i := 0) f0 (storeCopy_frame f0.inv ((f0.fld _).mpr (hF 0 (by omega))) ((h.newObj b oa.ann).content oa.base) (ch 0)).1 (by omega)
  have f2 := TF.step (i := 1) f1 (storeCopy_frame f1.inv ((f1.fld _).mpr (hF 1 (by omega))) (((h.newObj b oa.ann).storeCopy (h.ncell + 0) ((h.newObj b oa.ann).content oa.base) (ch 0)).content (oa.base + 1)) (ch 1)).1 (by omega)
  exact TF.step (i := 2) f2 (storeCopy_frame f2.inv ((f2.fld _).mpr (hF 2 (by omega))) _ (ch 2)).1 (by omega)

end ObiVerif.SeqHeap
