import ObiVerif.Lemmas.PcrMore
import ObiVerif.Lemmas.PcrEnds
import ObiVerif.Lemmas.PcrFrag
import ObiVerif.Model.PcrGlue
set_option Elab.async false
/-! helper lemmas of `Props/C11Glue.lean` (the command line of `obipcr` down to the kernel) -/
namespace ObiVerif.Pcr
open ObiVerif ObiVerif.Apat

theorem foldl_keep {α : Type} (f : α → Arg → α) (args : List Arg) (x : α) (h : ∀ a ∈ args, ∀ y, f y a = y) :
    args.foldl f x = x := by
  induction args generalizing x with
  | nil => rfl
  | cons a rest ih =>
    rw [List.foldl_cons, h a (by simp) x]
    exact ih x (fun b hb => h b (List.mem_cons_of_mem _ hb))

/-- the records the command reports for one template, in the coordinates of the template (a record of a piece is moved by the
start of the piece, as the harness does with the two coordinates of the id) -/
def recordsOf (r : Option (Except Bad (List ((Nat × Nat) × List Amplicon)))) : List Amplicon :=
  match r with
  | some (.ok cuts) => cuts.flatMap fun c => c.2.map (shiftAmp c.1.1)
  | _ => []

theorem zip_self_map {α β : Type} (l : List α) (g : α → β) : l.zip (l.map g) = l.map fun p => (p, g p) := by
  induction l with
  | nil => rfl
  | cons a r ih => simp [ih]

theorem shiftAmp_zero (x : Amplicon) : shiftAmp 0 x = x := by
  obtain ⟨d, f1, t1, s, fm, fe, rm, re, ⟨h1, h2, h3⟩, ⟨c1, c2, c3⟩⟩ := x
  simp [shiftAmp, shiftHit]

/-- a template that is not cut: searched once, whole -/
theorem cliRun_whole (P : Primers) (hP : PrimersOk P) (lf lr : Nat) (mn mx delta : Int) (full frag : Bool) (t : Bytes)
    (hp : cliPieces mx lf lr delta false frag t.length = some none) :
    cliRun P lf lr mn mx delta full false frag t = some (.ok [((0, t.length), pcrL P (cliOpts mn mx delta full false) t)]) := by
  unfold cliRun
  rw [hp]
  simp only [pcrCuts, cutsOf, pcrSliceE, List.map_cons, List.map_nil, List.drop_zero, Nat.sub_zero, List.take_length]
  have hpc := pcrL_spec P hP (cliOpts mn mx delta full false) rfl t
  simp [List.mapM_cons, List.mapM_nil, pcrE_none, hpc, Except.map, bind, Except.bind, pure, Except.pure]

theorem mapM_all_ok {α β : Type} (f : α → Except Bad β) (g : α → β) (l : List α) (h : ∀ a ∈ l, f a = .ok (g a)) :
    l.mapM f = .ok (l.map g) := by
  induction l with
  | nil => rfl
  | cons a rest ih =>
    have h1 := h a (by simp)
    have h2 := ih (fun b hb => h b (List.mem_cons_of_mem _ hb))
    simp [List.mapM_cons, h1, h2, bind, Except.bind, pure, Except.pure]

/-- a template that is cut: every marked piece through the patched `_Pcr` -/
theorem cliRun_pieces (P : Primers) (hP : PrimersOk P) (lf lr : Nat) (mn mx delta : Int) (full : Bool) (t : Bytes)
    (ps : List (Nat × Nat)) (hp : cliPieces mx lf lr delta false true t.length = some (some ps)) :
    cliRun P lf lr mn mx delta full false true t =
      some (.ok (ps.map fun p => (p, pcrLE (pieceEnds t.length p) P (cliOpts mn mx delta full false) (seg t p.1 p.2)))) := by
  unfold cliRun
  rw [hp]
  simp only [pcrCuts, cutsOf, pcrSliceE, List.map_map, List.mapM_map, Function.comp_def]
  rw [mapM_all_ok _ (fun p : Nat × Nat => pcrLE (pieceEnds t.length p) P (cliOpts mn mx delta full false) (seg t p.1 p.2))]
  · simp only [Except.map]
    congr 2
    rw [List.map_id', zip_self_map]
  · intro p _
    exact pcrLE_spec _ P hP _ rfl _

end ObiVerif.Pcr
