import ObiVerif.Model.Getopt
/-!
# Lemmas on the model of the command-line tokenizer (C16)
-/
namespace ObiVerif.Getopt

/-- what is recorded about the options met so far: assignments and unknown names -/
def St.accounted (st : St) : Nat := st.events.length + st.unknown.length

theorem matchesOf_mem (decls : List Decl) (entry key : String) (h : key ∈ matchesOf decls entry) :
    key ∈ decls.flatMap Decl.keys := by
  unfold matchesOf at h
  simp only at h
  split at h
  · rename_i hc
    simp only [List.mem_cons, List.not_mem_nil, or_false] at h
    subst h
    simpa using hc
  · exact (List.mem_filter.mp h).1

/-- a key the table declares has a declaration -/
theorem declOf_isSome (decls : List Decl) (key : String) (h : key ∈ decls.flatMap Decl.keys) :
    (declOf decls key).isSome := by
  obtain ⟨d, hd, hk⟩ := List.mem_flatMap.mp h
  unfold declOf
  rw [List.find?_isSome]
  exact ⟨d, hd, by simpa using hk⟩

/-- an exact name or alias is never taken for an abbreviation of a longer one -/
theorem matchesOf_exact (decls : List Decl) (key : String) (h : key ∈ decls.flatMap Decl.keys) :
    matchesOf decls key = [key] := by
  unfold matchesOf
  simp only
  rw [if_pos (by simpa using h)]

theorem save_nonempty (d : Decl) (alias val : String) (es : List Event) (h : save d alias val = .ok es) :
    es ≠ [] := by
  unfold save at h
  split at h
  · cases h; simp
  · cases h; simp
  · cases h; simp
  · split at h
    · cases h; simp
    · cases h
  · split at h
    · split at h
      · rename_i x y _ _
        split at h
        · rename_i hxy
          cases h
          intro e
          have hl := congrArg List.length e
          simp only [List.length_map, List.length_range, List.length_nil] at hl
          omega
        · cases h
      · cases h
    · split at h
      · cases h; simp
      · cases h
  · split at h
    · cases h; simp
    · cases h
  · split at h
    · cases h; simp
    · cases h

theorem add_accounted (st : St) (es : List Event) : (st.add es).accounted = st.accounted + es.length := by
  simp [St.add, St.accounted]; omega

/-- **one option occurrence is never dropped**: when `handlePair` does not fail, it has recorded an
assignment of a declared option or the name of an unknown option -/
theorem handlePair_accounts (decls : List Decl) (word entry : String) (arg : Option String) (rest : List String)
    (st st' : St) (rest' : List String) (h : handlePair decls word entry arg rest st = .ok (st', rest')) :
    st.accounted < st'.accounted := by
  unfold handlePair at h
  split at h
  · cases h; simp [St.accounted]
  · rename_i key hm
    have hkey : key ∈ decls.flatMap Decl.keys := matchesOf_mem decls entry key (by rw [hm]; simp)
    have hsome := declOf_isSome decls key hkey
    split at h
    · rename_i hnone; rw [hnone] at hsome; cases hsome
    · rename_i d _
      split at h
      · split at h
        · rename_i es hs
          cases h
          rw [add_accounted]
          have := save_nonempty d key _ es hs
          have : 0 < es.length := List.length_pos_iff.mpr this
          omega
        · cases h
      · simp only at h
        split at h
        · rename_i hflag
          cases h
          rw [add_accounted]
          simp [saveNone, hflag]
        · split at h
          · cases h
          · split at h
            · cases h
            · split at h
              · rename_i es hs
                cases h
                rw [add_accounted, add_accounted]
                have := save_nonempty d key _ es hs
                have : 0 < es.length := List.length_pos_iff.mpr this
                omega
              · cases h
  · cases h

theorem handlePair_mono (decls : List Decl) (word entry : String) (arg : Option String) (rest : List String)
    (st st' : St) (rest' : List String) (h : handlePair decls word entry arg rest st = .ok (st', rest')) :
    st.unknown.length ≤ st'.unknown.length ∧ (matchesOf decls entry = [] → st'.unknown = st.unknown ++ [entry]) := by
  unfold handlePair at h
  split at h
  · cases h; simp
  · rename_i key hm
    refine ⟨?_, fun e => by rw [e] at hm; cases hm⟩
    split at h
    · cases h; exact Nat.le_refl _
    · split at h
      · split at h
        · cases h; simp [St.add]
        · cases h
      · simp only at h
        split at h
        · cases h; simp [St.add]
        · split at h
          · cases h
          · split at h
            · cases h
            · split at h
              · cases h; simp [St.add]
              · cases h
  · cases h

/-- a word with several bundled options: as many records as options -/
theorem handlePairs_accounts (decls : List Decl) (word : String) :
    ∀ (ps : List (String × Option String)) (rest : List String) (st st' : St) (rest' : List String),
      handlePairs decls word ps rest st = .ok (st', rest') → st.accounted + ps.length ≤ st'.accounted := by
  intro ps
  induction ps with
  | nil => intro rest st st' rest' h; simp [handlePairs] at h; obtain ⟨rfl, _⟩ := h; simp
  | cons p t ih =>
    obtain ⟨entry, arg⟩ := p
    intro rest st st' rest' h
    unfold handlePairs at h
    split at h
    · rename_i st1 rest1 h1
      have := handlePair_accounts decls word entry arg rest st st1 rest1 h1
      have := ih rest1 st1 st' rest' h
      simp only [List.length_cons]; omega
    · cases h

/-! ## spellings -/

/-- `--` ends the options: what follows is text, whatever it looks like -/
theorem loop_terminator (decls : List Decl) (fuel : Nat) (rest : List String) (st : St) :
    loop decls (fuel + 1) ("--" :: rest) st = .ok { st with text := st.text ++ rest } := by
  simp [loop, classify]

/-- bundled short flags: one option per letter, the argument goes to the last one -/
theorem pairsOf_short (a b c : Char) (arg : Option String) :
    pairsOf (.short [a, b, c] arg) =
      [(String.singleton a, none), (String.singleton b, none), (String.singleton c, arg)] := by
  simp [pairsOf]

theorem pairsOf_long (n : String) (arg : Option String) : pairsOf (.long n arg) = [(n, arg)] := rfl

/-- an abbreviation that only one declared name or alias starts with stands for it -/
theorem matchesOf_abbrev (decls : List Decl) (entry key : String)
    (hne : entry ∉ decls.flatMap Decl.keys)
    (huniq : (decls.flatMap Decl.keys).filter (fun k => entry.toList.isPrefixOf k.toList) = [key]) :
    matchesOf decls entry = [key] := by
  unfold matchesOf
  simp only
  rw [if_neg (by simpa using hne)]
  exact huniq

end ObiVerif.Getopt
