import ObiVerif.Model.WriteProc
/-! # Lemmas on the process model of C18 -/
namespace ObiVerif.WriteProc

/-- number of writers still registered -/
def notDone : List W → Nat
  | [] => 0
  | x :: t => (if x.1 = .done then 0 else 1) + notDone t

/-- some failing writer has not released its pipe -/
def aliveFail : List W → Bool
  | [] => false
  | x :: t => (x.2 && decide (x.1 ≠ .done)) || aliveFail t

/-- no writer fails, none is reporting -/
def allGood : List W → Bool
  | [] => true
  | x :: t => (!x.2 && decide (x.1 ≠ .reporting)) && allGood t

theorem aliveFail_pos {ws : List W} (h : aliveFail ws = true) : 1 ≤ notDone ws := by
  induction ws with
  | nil => simp [aliveFail] at h
  | cons x t ih =>
    simp only [aliveFail, Bool.or_eq_true, Bool.and_eq_true, decide_eq_true_eq] at h
    simp only [notDone]
    rcases h with h | h
    · simp [h.2]
    · have := ih h; omega

/-- the code (`early = false`): a step of a writer releases exactly the pipes it says it releases -/
theorem wstep_notDone (ws : List W) (i : Nat) :
    notDone (wstep false ws i).1 + (if (wstep false ws i).2 = .unreg then 1 else 0) = notDone ws := by
  induction ws generalizing i with
  | nil => simp [wstep, notDone]
  | cons x t ih =>
    cases i with
    | zero =>
      obtain ⟨st, b⟩ := x
      cases st <;> cases b <;> simp [wstep, notDone] <;> omega
    | succ j =>
      have := ih j
      simp only [wstep, notDone]
      by_cases hu : (wstep false t j).2 = .unreg <;> simp [hu] at this ⊢ <;> omega

/-- the code: a failing writer never releases its pipe -/
theorem wstep_aliveFail (ws : List W) (i : Nat) (h : aliveFail ws = true) :
    aliveFail (wstep false ws i).1 = true := by
  induction ws generalizing i with
  | nil => simp [aliveFail] at h
  | cons x t ih =>
    cases i with
    | zero =>
      obtain ⟨st, b⟩ := x
      cases st <;> cases b <;> simp_all [wstep, aliveFail]
    | succ j =>
      simp only [aliveFail, Bool.or_eq_true] at h
      simp only [wstep, aliveFail, Bool.or_eq_true]
      rcases h with h | h
      · exact Or.inl h
      · exact Or.inr (ih j h)

theorem wstep_allGood (early : Bool) (ws : List W) (i : Nat) (h : allGood ws = true) :
    allGood (wstep early ws i).1 = true ∧ (wstep early ws i).2 ≠ .exit1 := by
  induction ws generalizing i with
  | nil => simp [wstep, allGood]
  | cons x t ih =>
    cases i with
    | zero =>
      obtain ⟨st, b⟩ := x
      cases st <;> cases b <;> simp_all [wstep, allGood]
    | succ j =>
      simp only [allGood, Bool.and_eq_true] at h
      have := ih j h.2
      simp only [wstep, allGood, Bool.and_eq_true]
      exact ⟨⟨h.1, this.1⟩, this.2⟩

theorem init_notDone (fails : List Bool) : notDone (fails.map fun f => ((.busy, f) : W)) = fails.length := by
  induction fails with
  | nil => rfl
  | cons f t ih => simp only [List.map_cons, notDone, List.length_cons, ih]; simp; omega

theorem init_aliveFail (fails : List Bool) (h : true ∈ fails) :
    aliveFail (fails.map fun f => ((.busy, f) : W)) = true := by
  induction fails with
  | nil => simp at h
  | cons f t ih =>
    simp only [List.map_cons, aliveFail, Bool.or_eq_true]
    rcases List.mem_cons.mp h with h | h
    · left; simp [← h]
    · right; exact ih h

theorem init_allGood (fails : List Bool) (h : ∀ f ∈ fails, f = false) :
    allGood (fails.map fun f => ((.busy, f) : W)) = true := by
  induction fails with
  | nil => rfl
  | cons f t ih =>
    simp only [List.map_cons, allGood, Bool.and_eq_true]
    refine ⟨?_, ih fun g hg => h g (List.mem_cons_of_mem _ hg)⟩
    simp [h f (List.mem_cons_self ..)]

/-- invariant of the code when some output fails: main is still waiting -/
structure FailInv (p : Proc) : Prop where
  alive : aliveFail p.ws = true
  reg : p.reg = notDone p.ws
  main : p.main = .waiting
  exit : p.exit ≠ some 0

theorem step_failInv (p : Proc) (t : Tid) (h : FailInv p) : FailInv (step false p t) := by
  unfold step
  by_cases hx : p.exit.isSome = true
  · rw [if_pos hx]; exact h
  · rw [if_neg hx]
    have hpos := aliveFail_pos h.alive
    cases t with
    | main =>
      simp only [h.main]
      have : ¬ p.reg = 0 := by rw [h.reg]; omega
      rw [if_neg this]; exact h
    | writer i =>
      have h1 := wstep_notDone p.ws i
      have h2 := wstep_aliveFail p.ws i h.alive
      simp only
      cases ha : (wstep false p.ws i).2 with
      | nop =>
        simp only [ha] at h1 ⊢
        exact ⟨h2, by show p.reg = notDone (wstep false p.ws i).1; rw [h.reg]; simpa using h1.symm, h.main, h.exit⟩
      | unreg =>
        simp only [ha] at h1 ⊢
        exact ⟨h2, by show p.reg - 1 = notDone (wstep false p.ws i).1; rw [h.reg]; simp at h1; omega, h.main, h.exit⟩
      | exit1 =>
        simp only [ha] at h1 ⊢
        exact ⟨h2, by show p.reg = notDone (wstep false p.ws i).1; rw [h.reg]; simpa using h1.symm, h.main, by simp⟩

/-- invariant when no output fails (any order of release and report): nobody calls `os.Exit(1)` -/
structure GoodInv (p : Proc) : Prop where
  good : allGood p.ws = true
  exit : p.exit ≠ some 1

theorem step_goodInv (early : Bool) (p : Proc) (t : Tid) (h : GoodInv p) : GoodInv (step early p t) := by
  unfold step
  by_cases hx : p.exit.isSome = true
  · rw [if_pos hx]; exact h
  · rw [if_neg hx]
    cases t with
    | main =>
      simp only
      cases p.main with
      | waiting => simp only; split <;> exact ⟨h.good, h.exit⟩
      | returned => exact ⟨h.good, by simp⟩
    | writer i =>
      have h1 := wstep_allGood early p.ws i h.good
      simp only
      cases ha : (wstep early p.ws i).2 with
      | nop => exact ⟨h1.1, h.exit⟩
      | unreg => exact ⟨h1.1, h.exit⟩
      | exit1 => exact absurd ha h1.2

theorem foldl_inv {I : Proc → Prop} {early : Bool} (hs : ∀ p t, I p → I (step early p t)) (sched : List Tid)
    (p : Proc) (h : I p) : I (sched.foldl (step early) p) := by
  induction sched generalizing p with
  | nil => exact h
  | cons t ts ih => exact ih _ (hs p t h)

/-- the registry counts exactly the writers that have not released their pipe (the code's order) -/
theorem step_regInv (p : Proc) (t : Tid) (h : p.reg = notDone p.ws) :
    (step false p t).reg = notDone (step false p t).ws := by
  unfold step
  by_cases hx : p.exit.isSome = true
  · rw [if_pos hx]; exact h
  · rw [if_neg hx]
    cases t with
    | main =>
      simp only
      cases p.main with
      | waiting => simp only; split <;> exact h
      | returned => exact h
    | writer i =>
      have h1 := wstep_notDone p.ws i
      simp only
      cases ha : (wstep false p.ws i).2 with
      | nop =>
        simp only [ha] at h1 ⊢
        show p.reg = notDone (wstep false p.ws i).1
        rw [h]; simpa using h1.symm
      | unreg =>
        simp only [ha] at h1 ⊢
        show p.reg - 1 = notDone (wstep false p.ws i).1
        rw [h]; simp at h1; omega
      | exit1 =>
        simp only [ha] at h1 ⊢
        show p.reg = notDone (wstep false p.ws i).1
        rw [h]; simpa using h1.symm

/-- a writer that has not released its pipe can move -/
theorem notDone_can_move (early : Bool) (ws : List W) (h : 1 ≤ notDone ws) :
    ∃ i, (wstep early ws i).1 ≠ ws ∨ (wstep early ws i).2 = .exit1 := by
  induction ws with
  | nil => simp [notDone] at h
  | cons x t ih =>
    obtain ⟨st, b⟩ := x
    cases st with
    | busy => exact ⟨0, Or.inl (by cases b <;> simp [wstep])⟩
    | reporting => exact ⟨0, Or.inr (by simp [wstep])⟩
    | done =>
      have : 1 ≤ notDone t := by simpa [notDone] using h
      obtain ⟨i, hi⟩ := ih this
      refine ⟨i + 1, ?_⟩
      rcases hi with hi | hi
      · left; simp only [wstep]; intro hc; exact hi (List.cons.inj hc).2
      · right; simpa [wstep] using hi

end ObiVerif.WriteProc
