import ObiVerif.Lemmas.CleanFuel
/-!
# Closed form of the weights of `reweightSequences` (property C13)

`rfunc(node)` hands `round(node.Weight * father.Count / swf)` to every father of `node`, where `swf` is the sum of the
counts of the fathers of `node`.  A node fires once all its sons have fired, so the weight it hands over is its FINAL
weight.  Hence the weights are a solution `W` of

    W k = count k + Σ_{i} (number of edges i → k) * round(W i * count k / swf i)            (`IsWeightSolution`)

This file proves

* `Fired.step` : the invariant of ANY run of firings in which a row fires after all its sons (`Fired pre s`: after
  firing the rows `pre`, `Weight j = count j + Σ_{i ∈ pre} given i (W i) j`, `AddedSons j` = number of edges from
  `pre` to `j`, or 0 when `j` has fired);
* `Fired.guard_iff` : in such a state the condition of the Go loop (`SonCount == AddedSons`) on a row that has not
  fired holds exactly when all its sons have fired;
* `fireAll_fired`, `fireAll_weight` : every complete firing order that respects the sons gives `W` (the result does
  not depend on the iteration order);
* `Forward.reweight_spec` : the loop of the model (`leafPass`, then `innerPass` until nothing fires) computes `W`;
* `specW` : the solution, by recursion on the row number, for forward graphs; `weightSolution_unique` : uniqueness
  for any graph whose edges strictly increase a rank (row number, or count).
-/
namespace ObiVerif.Clean

/-! ## generic sums -/

theorem sum_map_zero {α : Type} (l : List α) (f : α → Nat) (h : ∀ x ∈ l, f x = 0) : (l.map f).sum = 0 := by
  induction l with
  | nil => rfl
  | cons x xs ih =>
    rw [List.map_cons, List.sum_cons, h x List.mem_cons_self, ih (fun y hy => h y (List.mem_cons_of_mem _ hy))]

theorem sum_map_eq_zero {α : Type} (l : List α) (f : α → Nat) (h : (l.map f).sum = 0) : ∀ x ∈ l, f x = 0 := by
  induction l with
  | nil => intro x hx; cases hx
  | cons y ys ih =>
    rw [List.map_cons, List.sum_cons] at h
    intro x hx
    rcases List.mem_cons.1 hx with rfl | hx
    · omega
    · exact ih (by omega) x hx

theorem sum_map_congr {α : Type} (l : List α) (f g : α → Nat) (h : ∀ x ∈ l, f x = g x) :
    (l.map f).sum = (l.map g).sum := by
  induction l with
  | nil => rfl
  | cons x xs ih =>
    rw [List.map_cons, List.map_cons, List.sum_cons, List.sum_cons, h x List.mem_cons_self,
      ih (fun y hy => h y (List.mem_cons_of_mem _ hy))]

/-- a sum over `0 .. n-1` splits into the sum over a duplicate-free sub-list and the sum over the rest -/
theorem sum_range_split (n : Nat) (pre : List Nat) (hnd : pre.Nodup) (hlt : ∀ i ∈ pre, i < n) (f : Nat → Nat) :
    ((List.range n).map f).sum =
      (pre.map f).sum + (((List.range n).filter (fun i => !decide (i ∈ pre))).map f).sum := by
  have hp := List.filter_append_perm (fun i => decide (i ∈ pre)) (List.range n)
  have hpre : ((List.range n).filter (fun i => decide (i ∈ pre))).Perm pre := by
    rw [List.perm_ext_iff_of_nodup (List.nodup_range.sublist List.filter_sublist) hnd]
    intro a
    simp only [List.mem_filter, List.mem_range, decide_eq_true_eq]
    exact ⟨fun h => h.2, fun h => ⟨hlt a h, h⟩⟩
  rw [← (hp.map f).sum_nat, List.map_append, List.sum_append_nat, (hpre.map f).sum_nat]

/-! ## what `rfunc` does to the weights -/

theorem foldl_rw_weight (c : Edge → Nat) (es : List Edge) (s : RW) :
    (es.foldl (fun s e => ({ weight := s.weight.modify e.father (· + c e),
                             added := s.added.modify e.father (· + 1) } : RW)) s).weight
      = es.foldl (fun a e => a.modify e.father (· + c e)) s.weight := by
  induction es generalizing s with
  | nil => rfl
  | cons e es ih => simp only [List.foldl_cons]; rw [ih]

theorem foldl_modify_val_get (v : Nat → Nat) (es : List Edge) (a : Array Nat) (j : Nat) :
    (es.foldl (fun a e => a.modify e.father (· + v e.father)) a)[j]?
      = a[j]?.map (· + (es.map (·.father)).count j * v j) := by
  induction es generalizing a with
  | nil =>
    simp only [List.foldl_nil, List.map_nil, List.count_nil, Nat.zero_mul, Nat.add_zero]
    generalize a[j]? = o; cases o <;> rfl
  | cons e es ih =>
    simp only [List.foldl_cons, List.map_cons, List.count_cons]
    rw [ih, Array.getElem?_modify]
    by_cases h : e.father = j
    · subst h
      cases a[e.father]? with
      | none => simp
      | some w => simp [Nat.add_mul]; omega
    · have : (e.father == j) = false := by simpa using h
      simp [h, this]

theorem foldl_modify_val_size (v : Nat → Nat) (es : List Edge) (a : Array Nat) :
    (es.foldl (fun a e => a.modify e.father (· + v e.father)) a).size = a.size := by
  induction es generalizing a with
  | nil => rfl
  | cons e es ih => simp only [List.foldl_cons]; rw [ih, Array.size_modify]

theorem rfunc_weight_eq (counts : Array Nat) (edges : Array (List Edge)) (k : Nat) (s : RW) :
    (rfunc counts edges k s).weight =
      (edges.getD k []).foldl (fun a e => a.modify e.father
        (· + share counts edges k (s.weight.getD k 0) e.father)) s.weight := by
  unfold rfunc
  exact foldl_rw_weight (fun e => share counts edges k (s.weight.getD k 0) e.father) _ _

theorem rfunc_weight_size (counts : Array Nat) (edges : Array (List Edge)) (k : Nat) (s : RW) :
    (rfunc counts edges k s).weight.size = s.weight.size := by
  rw [rfunc_weight_eq, foldl_modify_val_size (share counts edges k (s.weight.getD k 0))]

/-- `rfunc(k)` adds `given k (Weight k) j` to the weight of every row `j` -/
theorem rfunc_weight_getD (counts : Array Nat) (edges : Array (List Edge)) (k : Nat) (s : RW) (j : Nat)
    (hj : j < s.weight.size) :
    (rfunc counts edges k s).weight.getD j 0 = s.weight.getD j 0 + given counts edges k (s.weight.getD k 0) j := by
  have e : s.weight.getD j 0 = s.weight[j] := by simp [Array.getD_eq_getD_getElem?, hj]
  rw [rfunc_weight_eq, Array.getD_eq_getD_getElem? (i := j),
    foldl_modify_val_get (share counts edges k (s.weight.getD k 0)), Array.getElem?_eq_getElem hj, e]
  rfl

/-! ## the recursive definition and its solutions -/

/-- `W` solves the recursive definition of the weights on the rows `0 .. n-1` -/
def IsWeightSolution (n : Nat) (counts : Array Nat) (edges : Array (List Edge)) (W : Nat → Nat) : Prop :=
  ∀ k, k < n → W k = counts.getD k 0 + ((List.range n).map (fun i => given counts edges i (W i) k)).sum

/-- uniqueness: on a graph whose edges strictly increase some rank (no cycle), two solutions agree -/
theorem weightSolution_unique (n : Nat) (counts : Array Nat) (edges : Array (List Edge)) (rank : Nat → Nat)
    (hr : ∀ i, i < n → ∀ f ∈ fathers edges i, rank i < rank f) (W1 W2 : Nat → Nat)
    (h1 : IsWeightSolution n counts edges W1) (h2 : IsWeightSolution n counts edges W2) :
    ∀ k, k < n → W1 k = W2 k := by
  have key : ∀ r k, rank k < r → k < n → W1 k = W2 k := by
    intro r
    induction r with
    | zero => intro k hk; omega
    | succ r ih =>
      intro k hk hkn
      rw [h1 k hkn, h2 k hkn]
      congr 1
      apply sum_map_congr
      intro i hi
      have hin : i < n := List.mem_range.1 hi
      unfold given
      by_cases hm : k ∈ fathers edges i
      · rw [ih i (by have := hr i hin k hm; omega) hin]
      · rw [List.count_eq_zero.2 hm]; simp
  intro k hk
  exact key (rank k + 1) k (Nat.lt_succ_self _) hk

theorem specTable_length (counts : Array Nat) (edges : Array (List Edge)) (m : Nat) :
    (specTable counts edges m).length = m := by
  induction m with
  | zero => rfl
  | succ m ih => simp [specTable, ih]

theorem specTable_getD (counts : Array Nat) (edges : Array (List Edge)) (m i : Nat) (hi : i < m) :
    (specTable counts edges m).getD i 0 = specW counts edges i := by
  induction m with
  | zero => omega
  | succ m ih =>
    by_cases him : i = m
    · subst him; rfl
    · have hlt : i < m := by omega
      rw [← ih hlt]
      show ((specTable counts edges m) ++ [_]).getD i 0 = _
      rw [List.getD_eq_getElem?_getD, List.getD_eq_getElem?_getD,
        List.getElem?_append_left (by rw [specTable_length]; exact hlt)]

theorem specW_eq (counts : Array Nat) (edges : Array (List Edge)) (k : Nat) :
    specW counts edges k = counts.getD k 0 + ((List.range k).map (fun i => given counts edges i (specW counts edges i) k)).sum := by
  have : specW counts edges k = counts.getD k 0 +
      ((List.range k).map (fun i => given counts edges i ((specTable counts edges k).getD i 0) k)).sum := by
    unfold specW
    show ((specTable counts edges k) ++ [_]).getD k 0 = _
    rw [List.getD_eq_getElem?_getD, List.getElem?_append_right (by rw [specTable_length]; exact Nat.le_refl k),
      specTable_length]
    simp
  rw [this]
  congr 1
  apply sum_map_congr
  intro i hi
  rw [specTable_getD _ _ _ _ (List.mem_range.1 hi)]

theorem specWeights_eq (counts : Array Nat) (edges : Array (List Edge)) :
    specWeights counts edges = (List.range counts.size).map (specW counts edges) := by
  unfold specWeights
  apply List.ext_getElem?
  intro i
  by_cases hi : i < counts.size
  · rw [List.getElem?_map, List.getElem?_range hi, Option.map_some, ← specTable_getD counts edges counts.size i hi,
      List.getD_eq_getElem?_getD, List.getElem?_eq_getElem (by rw [specTable_length]; exact hi)]
    rfl
  · rw [List.getElem?_eq_none (by rw [specTable_length]; omega), List.getElem?_eq_none (by simp; omega)]

/-- on a graph whose edges all point further down, `specW` solves the recursive definition -/
theorem specW_solution (n : Nat) (counts : Array Nat) (edges : Array (List Edge))
    (hf : ∀ i f, i < n → f ∈ fathers edges i → i < f) : IsWeightSolution n counts edges (specW counts edges) := by
  intro k hk
  rw [specW_eq]
  congr 1
  rw [sum_range_split n (List.range k) List.nodup_range (fun i hi => by have := List.mem_range.1 hi; omega)]
  rw [sum_map_zero ((List.range n).filter (fun i => !decide (i ∈ List.range k)))]
  · rfl
  · intro i hi
    obtain ⟨hin, hnk⟩ := List.mem_filter.1 hi
    have hin' := List.mem_range.1 hin
    have hki : ¬ i < k := by simpa using hnk
    unfold given
    have : (fathers edges i).count k = 0 := by
      rw [List.count_eq_zero]
      intro hm
      have := hf i k hin' hm
      omega
    rw [this]; simp

/-! ## the invariant of a run of firings -/

/-- state `s` is what is reached after firing exactly the rows `pre`, each after all its sons -/
structure Fired (n : Nat) (counts : Array Nat) (edges : Array (List Edge)) (W : Nat → Nat) (pre : List Nat) (s : RW) :
    Prop where
  wsize : s.weight.size = n
  asize : s.added.size = n
  nodup : pre.Nodup
  lt : ∀ i ∈ pre, i < n
  closed : ∀ i, i < n → ∀ f ∈ fathers edges i, f ∈ pre → i ∈ pre
  weight : ∀ j, j < n → s.weight.getD j 0 = counts.getD j 0 + (pre.map (fun i => given counts edges i (W i) j)).sum
  added : ∀ j, j < n → s.added.getD j 0 = if j ∈ pre then 0 else (pre.map (fun i => (fathers edges i).count j)).sum

/-- the initial state of `reweightSequences` : `Weight = Count`, `AddedSons = 0`, nothing fired -/
theorem Fired.init (counts : Array Nat) (edges : Array (List Edge)) (W : Nat → Nat) :
    Fired counts.size counts edges W [] { weight := counts, added := Array.replicate counts.size 0 } where
  wsize := rfl
  asize := by simp
  nodup := List.nodup_nil
  lt := fun i hi => by cases hi
  closed := fun i _ f _ hf => by cases hf
  weight := fun j _ => by simp
  added := fun j hj => by simp [Array.getD_eq_getD_getElem?, hj]

theorem Fired.init' {n : Nat} (counts : Array Nat) (hn : counts.size = n) (edges : Array (List Edge)) (W : Nat → Nat) :
    Fired n counts edges W [] { weight := counts, added := Array.replicate counts.size 0 } := by
  subst hn; exact Fired.init counts edges W

section
variable {n : Nat} {counts : Array Nat} {edges : Array (List Edge)} {W : Nat → Nat}

/-- the sons of `k` have all fired ⇒ the rows that have not fired give nothing to `k` -/
theorem rest_gives_nothing (pre : List Nat) (k : Nat)
    (hsons : ∀ i, i < n → k ∈ fathers edges i → i ∈ pre) (g : Nat → Nat) :
    (((List.range n).filter (fun i => !decide (i ∈ pre))).map (fun i => (fathers edges i).count k * g i)).sum = 0 := by
  apply sum_map_zero
  intro i hi
  obtain ⟨hin, hnp⟩ := List.mem_filter.1 hi
  have hnp' : i ∉ pre := by simpa using hnp
  have : (fathers edges i).count k = 0 := by
    rw [List.count_eq_zero]
    intro hm
    exact hnp' (hsons i (List.mem_range.1 hin) hm)
  rw [this]; simp

/-- a row that has not fired and whose sons have all fired holds its final weight -/
theorem Fired.weight_final {pre : List Nat} {s : RW} (h : Fired n counts edges W pre s)
    (hW : IsWeightSolution n counts edges W) (k : Nat) (hk : k < n)
    (hsons : ∀ i, i < n → k ∈ fathers edges i → i ∈ pre) : s.weight.getD k 0 = W k := by
  rw [h.weight k hk, hW k hk, sum_range_split n pre h.nodup h.lt]
  have := rest_gives_nothing (n := n) (edges := edges) pre k hsons
    (fun i => share counts edges i (W i) k)
  unfold given
  rw [this]
  rfl

/-- **the step**: firing a row that has not fired and whose sons have all fired keeps the invariant -/
theorem Fired.step {pre : List Nat} {s : RW} (h : Fired n counts edges W pre s)
    (hW : IsWeightSolution n counts edges W) (k : Nat) (hk : k < n) (hnot : k ∉ pre)
    (hsons : ∀ i, i < n → k ∈ fathers edges i → i ∈ pre) :
    Fired n counts edges W (k :: pre) (rfunc counts edges k s) where
  wsize := by rw [rfunc_weight_size, h.wsize]
  asize := by rw [rfunc_added, addStep_size, h.asize]
  nodup := List.nodup_cons.2 ⟨hnot, h.nodup⟩
  lt := fun i hi => by
    rcases List.mem_cons.1 hi with rfl | hi
    · exact hk
    · exact h.lt i hi
  closed := fun i hi f hf hfp => by
    rcases List.mem_cons.1 hfp with rfl | hfp
    · exact List.mem_cons_of_mem _ (hsons i hi hf)
    · exact List.mem_cons_of_mem _ (h.closed i hi f hf hfp)
  weight := fun j hj => by
    rw [rfunc_weight_getD _ _ _ _ _ (by rw [h.wsize]; exact hj), h.weight_final hW k hk hsons, h.weight j hj,
      List.map_cons, List.sum_cons]
    omega
  added := fun j hj => by
    rw [rfunc_added, addStep_getD _ _ _ _ (by rw [h.asize]; exact hj)]
    have hkk : k ∉ fathers edges k := fun hm => hnot (hsons k hk hm)
    by_cases hkj : k = j
    · subst hkj
      rw [if_pos rfl, if_pos List.mem_cons_self, List.count_eq_zero.2 hkk]
    · rw [if_neg hkj, h.added j hj]
      by_cases hjp : j ∈ pre
      · rw [if_pos hjp, if_pos (List.mem_cons_of_mem _ hjp)]
        have : j ∉ fathers edges k := fun hm => hnot (h.closed k hk j hm hjp)
        rw [List.count_eq_zero.2 this]
      · have : j ∉ k :: pre := by
          intro hm
          rcases List.mem_cons.1 hm with rfl | hm
          · exact hkj rfl
          · exact hjp hm
        rw [if_neg hjp, if_neg this, List.map_cons, List.sum_cons]
        omega

/-- **the guard of the Go loop**: in a state reached by firing `pre`, for a row `k` that has not fired,
`SonCount == AddedSons` holds exactly when all the sons of `k` have fired -/
theorem Fired.guard_iff {pre : List Nat} {s : RW} (h : Fired n counts edges W pre s) (sons : Array Nat)
    (hs : ∀ j, j < n → sons.getD j 0 = ((List.range n).flatMap (fathers edges)).count j)
    (k : Nat) (hk : k < n) (hnot : k ∉ pre) :
    sons.getD k 0 = s.added.getD k 0 ↔ ∀ i, i < n → k ∈ fathers edges i → i ∈ pre := by
  have hsum : sons.getD k 0 = ((List.range n).map (fun i => (fathers edges i).count k)).sum := by
    rw [hs k hk, List.count_flatMap]; rfl
  rw [hsum, h.added k hk, if_neg hnot, sum_range_split n pre h.nodup h.lt]
  constructor
  · intro heq i hi hm
    refine Classical.byContradiction fun hnp => ?_
    have hz := sum_map_eq_zero _ _ (by omega : (((List.range n).filter (fun i => !decide (i ∈ pre))).map
      (fun i => (fathers edges i).count k)).sum = 0) i
      (List.mem_filter.2 ⟨List.mem_range.2 hi, by simpa using hnp⟩)
    exact List.count_eq_zero.1 hz hm
  · intro hsons
    have := rest_gives_nothing (n := n) (edges := edges) pre k hsons (fun _ => 1)
    simp only [Nat.mul_one] at this
    omega

/-- a row that HAS fired and has sons does not satisfy the guard again (`AddedSons` was reset to 0) -/
theorem Fired.fired_guard_false {pre : List Nat} {s : RW} (h : Fired n counts edges W pre s) (sons : Array Nat)
    (k : Nat) (hk : k < n) (hin : k ∈ pre) : ¬ (sons.getD k 0 > 0 ∧ sons.getD k 0 = s.added.getD k 0) := by
  rw [h.added k hk, if_pos hin]
  omega
end

/-! ## every firing order that respects the sons gives the same weights -/

/-- fire the rows `ks`, in that order -/
def fireAll (counts : Array Nat) (edges : Array (List Edge)) (ks : List Nat) (s : RW) : RW :=
  ks.foldl (fun s k => rfunc counts edges k s) s

/-- `ks` is a firing order (after the rows `pre`): every row is fired at most once, after all its sons -/
def FiringOrder (n : Nat) (edges : Array (List Edge)) : List Nat → List Nat → Prop
  | _, [] => True
  | pre, k :: rest =>
    k < n ∧ k ∉ pre ∧ (∀ i, i < n → k ∈ fathers edges i → i ∈ pre) ∧ FiringOrder n edges (k :: pre) rest

instance FiringOrder.dec (n : Nat) (edges : Array (List Edge)) : ∀ pre ks, Decidable (FiringOrder n edges pre ks)
  | _, [] => isTrue trivial
  | pre, k :: rest => by
    unfold FiringOrder
    have := FiringOrder.dec n edges (k :: pre) rest
    exact inferInstance

theorem fireAll_fired {n : Nat} {counts : Array Nat} {edges : Array (List Edge)} {W : Nat → Nat}
    (hW : IsWeightSolution n counts edges W) (ks : List Nat) :
    ∀ (pre : List Nat) (s : RW), Fired n counts edges W pre s → FiringOrder n edges pre ks →
      Fired n counts edges W (ks.reverse ++ pre) (fireAll counts edges ks s) := by
  induction ks with
  | nil => intro pre s h _; exact h
  | cons k rest ih =>
    intro pre s h ho
    obtain ⟨hk, hnot, hsons, hrest⟩ := ho
    have := ih (k :: pre) _ (h.step hW k hk hnot hsons) hrest
    rw [List.reverse_cons, List.append_assoc]
    exact this

/-- the same condition, in terms of the GUARD of the Go loop: each row of `ks` satisfies `SonCount == AddedSons` when
its turn comes -/
def GuardedRun (counts : Array Nat) (edges : Array (List Edge)) (sons : Array Nat) : RW → List Nat → Prop
  | _, [] => True
  | s, k :: rest => sons.getD k 0 = s.added.getD k 0 ∧ GuardedRun counts edges sons (rfunc counts edges k s) rest

theorem guardedRun_firingOrder {n : Nat} {counts : Array Nat} {edges : Array (List Edge)} {W : Nat → Nat}
    (hW : IsWeightSolution n counts edges W) (sons : Array Nat)
    (hs : ∀ j, j < n → sons.getD j 0 = ((List.range n).flatMap (fathers edges)).count j) (ks : List Nat) :
    ∀ (pre : List Nat) (s : RW), Fired n counts edges W pre s → (pre.reverse ++ ks).Nodup → (∀ k ∈ ks, k < n) →
      (GuardedRun counts edges sons s ks ↔ FiringOrder n edges pre ks) := by
  induction ks with
  | nil => intro pre s _ _ _; exact ⟨fun _ => trivial, fun _ => trivial⟩
  | cons k rest ih =>
    intro pre s h hnd hlt
    have hk : k < n := hlt k List.mem_cons_self
    have hnot : k ∉ pre := by
      intro hm
      have := (List.nodup_append.1 hnd).2.2 k (List.mem_reverse.2 hm) k List.mem_cons_self
      exact this rfl
    have hg := h.guard_iff sons hs k hk hnot
    have hnd' : ((k :: pre).reverse ++ rest).Nodup := by
      rw [List.reverse_cons, List.append_assoc]; exact hnd
    constructor
    · rintro ⟨g, gr⟩
      have hsons := hg.1 g
      exact ⟨hk, hnot, hsons,
        (ih (k :: pre) _ (h.step hW k hk hnot hsons) hnd' (fun x hx => hlt x (List.mem_cons_of_mem _ hx))).1 gr⟩
    · rintro ⟨_, _, hsons, hrest⟩
      exact ⟨hg.2 hsons,
        (ih (k :: pre) _ (h.step hW k hk hnot hsons) hnd' (fun x hx => hlt x (List.mem_cons_of_mem _ hx))).2 hrest⟩

/-- a complete run: the weights are `W` -/
theorem Fired.complete {n : Nat} {counts : Array Nat} {edges : Array (List Edge)} {W : Nat → Nat} {pre : List Nat} {s : RW}
    (h : Fired n counts edges W pre s) (hW : IsWeightSolution n counts edges W) (hall : ∀ i, i < n → i ∈ pre) :
    ∀ j, j < n → s.weight.getD j 0 = W j := by
  intro j hj
  have hp : pre.Perm (List.range n) := by
    rw [List.perm_ext_iff_of_nodup h.nodup List.nodup_range]
    intro a
    exact ⟨fun ha => List.mem_range.2 (h.lt a ha), fun ha => hall a (List.mem_range.1 ha)⟩
  rw [h.weight j hj, hW j hj, ((hp.map (fun i => given counts edges i (W i) j)).sum_nat)]

theorem fireAll_weight {n : Nat} {counts : Array Nat} {edges : Array (List Edge)} {W : Nat → Nat}
    (hW : IsWeightSolution n counts edges W) (hn : counts.size = n) (ks : List Nat)
    (ho : FiringOrder n edges [] ks) (hall : ∀ i, i < n → i ∈ ks) :
    ∀ j, j < n → (fireAll counts edges ks { weight := counts, added := Array.replicate counts.size 0 }).weight.getD j 0 = W j := by
  subst hn
  have := fireAll_fired hW ks [] _ (Fired.init counts edges W) ho
  exact this.complete hW (fun i hi => by simp [hall i hi])

/-! ## the loop of the model computes `W` -/

section
variable {n : Nat} {edges : Array (List Edge)} {sons : Array Nat} (F : Forward n edges sons)
include F

theorem Forward.leafPass_fired (counts : Array Nat) (hn : counts.size = n) (W : Nat → Nat)
    (hW : IsWeightSolution n counts edges W) :
    ∃ pre, Fired n counts edges W pre
        (leafPass counts edges sons { weight := counts, added := Array.replicate counts.size 0 }) ∧
      ∀ i, i ∈ pre ↔ i < n ∧ sons.getD i 0 = 0 := by
  unfold leafPass
  have h0 := Fired.init counts edges W
  rw [hn] at h0 ⊢
  refine foldl_range_inv _ (fun k (s : RW) => ∃ pre, Fired n counts edges W pre s ∧ ∀ i, i ∈ pre ↔ i < k ∧ sons.getD i 0 = 0)
    _ n ⟨[], h0, fun i => by simp⟩ ?_
  intro k s hk ⟨pre, hf, hm⟩
  by_cases hleaf : (sons.getD k 0 == 0) = true
  · rw [if_pos hleaf]
    have hl : sons.getD k 0 = 0 := by simpa using hleaf
    refine ⟨k :: pre, hf.step hW k hk (fun h => by have := (hm k).1 h; omega) ?_, fun i => ?_⟩
    · intro i hi hmem
      have := F.leaf_count_zero i k hi hk hl
      exact absurd hmem (List.count_eq_zero.1 this)
    · rw [List.mem_cons, hm i]
      constructor
      · rintro (rfl | ⟨a, b⟩)
        · exact ⟨Nat.lt_succ_self _, hl⟩
        · exact ⟨by omega, b⟩
      · rintro ⟨a, b⟩
        by_cases hik : i = k
        · exact .inl hik
        · exact .inr ⟨by omega, b⟩
  · rw [if_neg hleaf]
    have hl : sons.getD k 0 ≠ 0 := by simpa using hleaf
    refine ⟨pre, hf, fun i => ?_⟩
    rw [hm i]
    constructor
    · rintro ⟨a, b⟩; exact ⟨by omega, b⟩
    · rintro ⟨a, b⟩
      have : i ≠ k := fun e => hl (e ▸ b)
      exact ⟨by omega, b⟩

theorem Forward.innerPass_fired (counts : Array Nat) (hn : counts.size = n) (W : Nat → Nat)
    (hW : IsWeightSolution n counts edges W) (s : RW) (pre : List Nat) (hf : Fired n counts edges W pre s)
    (hm : ∀ i, i ∈ pre ↔ i < n ∧ sons.getD i 0 = 0) :
    ∃ pre', Fired n counts edges W pre' (innerPass counts edges sons s).1 ∧ ∀ i, i < n → i ∈ pre' := by
  unfold innerPass
  rw [hn]
  have := foldl_range_inv
    (fun (acc : RW × Bool) k =>
      if sons.getD k 0 > 0 ∧ sons.getD k 0 == acc.1.added.getD k 0 then (rfunc counts edges k acc.1, true) else acc)
    (fun k (acc : RW × Bool) => ∃ pre', Fired n counts edges W pre' acc.1 ∧
      ∀ i, i ∈ pre' ↔ i < n ∧ (sons.getD i 0 = 0 ∨ i < k))
    (s, false) n ⟨pre, hf, fun i => by rw [hm i]; simp⟩ ?_
  · obtain ⟨pre', hf', hm'⟩ := this
    exact ⟨pre', hf', fun i hi => (hm' i).2 ⟨hi, .inr hi⟩⟩
  intro k acc hk ⟨pre', hf', hm'⟩
  by_cases hpos : sons.getD k 0 > 0
  · have hnot : k ∉ pre' := fun h => by have := (hm' k).1 h; omega
    have hsons : ∀ i, i < n → k ∈ fathers edges i → i ∈ pre' := fun i hi hmem =>
      (hm' i).2 ⟨hi, .inr (F.fwd i k hi hmem)⟩
    have hg := (hf'.guard_iff sons F.sons_eq k hk hnot).2 hsons
    rw [if_pos ⟨hpos, by rw [hg]; simp⟩]
    refine ⟨k :: pre', hf'.step hW k hk hnot hsons, fun i => ?_⟩
    rw [List.mem_cons, hm' i]
    constructor
    · rintro (rfl | ⟨a, b⟩)
      · exact ⟨hk, .inr (Nat.lt_succ_self _)⟩
      · exact ⟨a, b.elim .inl (fun h => .inr (by omega))⟩
    · rintro ⟨a, b⟩
      by_cases hik : i = k
      · exact .inl hik
      · exact .inr ⟨a, b.elim .inl (fun h => .inr (by omega))⟩
  · rw [if_neg (fun h => hpos h.1)]
    refine ⟨pre', hf', fun i => ?_⟩
    rw [hm' i]
    constructor
    · rintro ⟨a, b⟩; exact ⟨a, b.elim .inl (fun h => .inr (by omega))⟩
    · rintro ⟨a, b⟩
      refine ⟨a, b.elim .inl (fun h => ?_)⟩
      by_cases hik : i = k
      · subst hik; exact .inl (by omega)
      · exact .inr (by omega)

/-- **`reweightSequences` computes the solution of the recursive definition** -/
theorem Forward.reweight_spec (counts : Array Nat) (hn : counts.size = n) (W : Nat → Nat)
    (hW : IsWeightSolution n counts edges W) :
    ∃ w : Array Nat, reweight counts edges sons = some w ∧ w.size = n ∧ ∀ j, j < n → w.getD j 0 = W j := by
  obtain ⟨pre, hf, hm⟩ := F.leafPass_fired counts hn W hW
  obtain ⟨pre', hf', hall⟩ := F.innerPass_fired counts hn W hW _ pre hf hm
  exact ⟨_, F.reweight_eq counts hn, hf'.wsize, hf'.complete hW hall⟩
end

/-! ## paths: a graph whose edges strictly increase a rank has no cycle -/

/-- `Reach edges i j` : there is a non-empty path of son → father edges from `i` to `j` -/
inductive Reach (edges : Array (List Edge)) : Nat → Nat → Prop
  | edge {i f : Nat} : f ∈ fathers edges i → Reach edges i f
  | trans {i j k : Nat} : Reach edges i j → Reach edges j k → Reach edges i k

theorem Reach.rank_lt {edges : Array (List Edge)} (rank : Nat → Nat)
    (hr : ∀ i, ∀ f ∈ fathers edges i, rank i < rank f) {i j : Nat} (h : Reach edges i j) : rank i < rank j := by
  induction h with
  | edge hm => exact hr _ _ hm
  | trans _ _ ih1 ih2 => exact Nat.lt_trans ih1 ih2

/-! ## the weights `finish` writes are those of `reweight` on the first-phase graph -/

theorem finish_weight (cfg : Config) (ns : Array Node) (es1 es2 : List (List Edge)) (sons1 sons2 : List Nat)
    (outs : List Out) (h : finish cfg ns es1 sons1 es2 sons2 = .ok outs) :
    ∃ weight : Array Nat, reweight (ns.toList.map (·.count)).toArray es1.toArray sons1.toArray = some weight ∧
      ∀ (k : Nat) (o : Out), outs[k]? = some o → k < ns.size ∧ o.weight = weight.getD k 0 := by
  unfold finish at h
  simp only at h
  split at h
  · cases h
  · rename_i weight hw
    injection h with h
    refine ⟨weight, hw, fun k o hk => ?_⟩
    rw [← h, List.getElem?_map] at hk
    by_cases hkn : k < ns.size
    · rw [List.getElem?_range hkn] at hk
      simp only [Option.map_some, Option.some.injEq] at hk
      exact ⟨hkn, by rw [← hk]⟩
    · rw [List.getElem?_eq_none (by simp; omega)] at hk
      simp at hk

end ObiVerif.Clean
