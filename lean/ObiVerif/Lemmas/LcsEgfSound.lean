import ObiVerif.Lemmas.LcsEgfMatrix
/-!
# C09, endgapfree = true: soundness of the banded matrix `bandEGF`

Every in-band cell `(i, j)` of the matrix holds the (score, length) of an end-gap-free alignment of the prefixes:
`A.take j = pre ++ mid ++ suf` with `suf = []` unless `i = |B|` (the last row, where the horizontal moves are free),
and `mid` aligned with `B.take i` (`EPre`). Hence the answer of `bandEGF` is realised by an end-gap-free alignment
of the whole sequences (`bandEGF_sound`), and is therefore never better than the end-gap-free optimum. Induction over
the cells with the recurrence of Lemmas/LcsEgfMatrix.lean; packed-cell arithmetic as in Lemmas/Lcs.lean.
-/
namespace ObiVerif.Lcs

variable (m : UInt8 → UInt8 → Bool)

theorem take_succ_getD (l : Seq) (j : Nat) (h : j < l.length) : l.take (j + 1) = l.take j ++ [l.getD j 0] := by
  rw [List.take_add_one]; simp [List.getD, List.getElem?_eq_getElem h]

/-- an end-gap-free alignment of the prefixes `A.take j`, `B.take i`: a free prefix `pre` of `A`, a factor `mid`
aligned with `B.take i`, and — only once all of `B` is consumed — a free suffix `suf` -/
def EPre (A B : Seq) (i j s l : Nat) : Prop :=
  ∃ pre mid suf : Seq, A.take j = pre ++ mid ++ suf ∧ (i < B.length → suf = []) ∧ Ali m mid (B.take i) s l

theorem EPre.bounds {A B : Seq} {i j s l : Nat} (h : EPre m A B i j s l) (hi : i ≤ B.length) (hj : j ≤ A.length) :
    s ≤ i ∧ s ≤ j ∧ l ≤ i + j ∧ s ≤ l := by
  obtain ⟨pre, mid, suf, h1, _, h3⟩ := h
  have hb := h3.bounds m
  have e1 : (A.take j).length = j := by simp; omega
  have e2 : (B.take i).length = i := by simp; omega
  rw [h1] at e1
  simp at e1
  rw [e2] at hb
  omega

/-- whole sequences: `EPre` at the last cell is `EgfAli` -/
theorem EPre.toEgf {A B : Seq} {s l : Nat} (h : EPre m A B B.length A.length s l) : EgfAli m A B s l := by
  obtain ⟨pre, mid, suf, h1, _, h3⟩ := h
  rw [List.take_length] at h1 h3
  exact ⟨pre, mid, suf, h1, h3⟩

def GoodE (A B : Seq) (i j : Nat) (v : UInt64) : Prop :=
  (∃ s l, v = encodeValues s l true ∧ s ≤ i + j ∧ l ≤ 30000 + (i + j)) ∨
  (∃ s l, v = encodeValues s l false ∧ EPre m A B i j s l)

theorem goodE_setout {A B : Seq} {i j : Nat} {v : UInt64} (hi : i ≤ B.length) (hj : j ≤ A.length)
    (hn : i + j ≤ 30000) (h : GoodE m A B i j v) : GoodE m A B i j (setout v) := by
  rcases h with ⟨s, l, rfl, hs, hl⟩ | ⟨s, l, rfl, ha⟩
  · rw [setout_encode s l true (by omega) (by omega)]; exact .inl ⟨s, l, rfl, hs, hl⟩
  · have := ha.bounds m hi hj
    rw [setout_encode s l false (by omega) (by omega)]; exact .inl ⟨s, l, rfl, by omega, by omega⟩

theorem goodE_outV (A B : Seq) (i j : Nat) : GoodE m A B i j outV := .inl ⟨0, 30000, rfl, by omega, by omega⟩

theorem goodE_edge {A B : Seq} {i j : Nat} {v : UInt64} (c : Prop) [Decidable c] (hi : i ≤ B.length) (hj : j ≤ A.length)
    (hn : i + j ≤ 30000) (h : GoodE m A B i j v) : GoodE m A B i j (if c then setout v else v) := by
  split
  · exact goodE_setout m hi hj hn h
  · exact h

theorem goodE_diag {A B : Seq} {i j : Nat} {v : UInt64} (hi : i < B.length) (hj : j < A.length)
    (hn : i + j + 2 ≤ 30000) (h : GoodE m A B i j v) :
    GoodE m A B (i + 1) (j + 1)
      (if m (A.getD j 0) (B.getD i 0) then incscore (incpath v) else incpath v) := by
  rcases h with ⟨s, l, rfl, hs, hl⟩ | ⟨s, l, rfl, ha⟩
  · rw [incpath_encode s l true (by omega) (by omega)]
    split
    · rw [incscore_encode s (l + 1) true (by omega) (by omega)]
      exact .inl ⟨s + 1, l + 1, rfl, by omega, by omega⟩
    · exact .inl ⟨s, l + 1, rfl, by omega, by omega⟩
  · have hb := ha.bounds m (by omega) (by omega)
    obtain ⟨pre, mid, suf, h1, h2, h3⟩ := ha
    have hs0 := h2 hi
    subst hs0
    have hp := Ali.snocPair m (A.getD j 0) (B.getD i 0) h3
    rw [← take_succ_getD B i hi] at hp
    have hE : ∀ s', Ali m (mid ++ [A.getD j 0]) (B.take (i + 1)) s' (l + 1) → EPre m A B (i + 1) (j + 1) s' (l + 1) :=
      fun s' h => ⟨pre, mid ++ [A.getD j 0], [], by rw [take_succ_getD A j hj, h1]; simp, fun _ => rfl, h⟩
    rw [incpath_encode s l false (by omega) (by omega)]
    split
    · rename_i hm
      rw [incscore_encode s (l + 1) false (by omega) (by omega)]
      rw [if_pos hm] at hp
      exact .inr ⟨s + 1, l + 1, rfl, hE _ hp⟩
    · rename_i hm
      rw [if_neg hm] at hp
      exact .inr ⟨s, l + 1, rfl, hE _ hp⟩

theorem goodE_up {A B : Seq} {i j : Nat} {v : UInt64} (hi : i < B.length) (hj : j ≤ A.length)
    (hn : i + j + 1 ≤ 30000) (h : GoodE m A B i j v) : GoodE m A B (i + 1) j (incpath v) := by
  rcases h with ⟨s, l, rfl, hs, hl⟩ | ⟨s, l, rfl, ha⟩
  · rw [incpath_encode s l true (by omega) (by omega)]
    exact .inl ⟨s, l + 1, rfl, by omega, by omega⟩
  · have hb := ha.bounds m (by omega) hj
    obtain ⟨pre, mid, suf, h1, h2, h3⟩ := ha
    have hs0 := h2 hi
    subst hs0
    have hp := Ali.snocA m (B.getD i 0) h3
    rw [← take_succ_getD B i hi] at hp
    rw [incpath_encode s l false (by omega) (by omega)]
    exact .inr ⟨s, l + 1, rfl, pre, mid, [], h1, fun _ => rfl, hp⟩

theorem goodE_left {A B : Seq} {i j : Nat} {v : UInt64} (hi : i ≤ B.length) (hj : j < A.length)
    (hn : i + j + 1 ≤ 30000) (h : GoodE m A B i j v) :
    GoodE m A B i (j + 1) (if i < B.length then incpath v else v) := by
  rcases h with ⟨s, l, rfl, hs, hl⟩ | ⟨s, l, rfl, ha⟩
  · split
    · rw [incpath_encode s l true (by omega) (by omega)]
      exact .inl ⟨s, l + 1, rfl, by omega, by omega⟩
    · exact .inl ⟨s, l, rfl, by omega, by omega⟩
  · have hb := ha.bounds m hi (by omega)
    obtain ⟨pre, mid, suf, h1, h2, h3⟩ := ha
    split
    · rename_i hlt
      have hs0 := h2 hlt
      subst hs0
      rw [incpath_encode s l false (by omega) (by omega)]
      exact .inr ⟨s, l + 1, rfl, pre, mid ++ [A.getD j 0], [], by rw [take_succ_getD A j hj, h1]; simp,
        fun _ => rfl, Ali.snocB m (A.getD j 0) h3⟩
    · rename_i hge
      exact .inr ⟨s, l, rfl, pre, mid, suf ++ [A.getD j 0], by rw [take_succ_getD A j hj, h1]; simp,
        fun h => absurd h hge, h3⟩

theorem goodE_row0 (A B : Seq) (j : Nat) : GoodE m A B 0 j (encodeValues 0 0 false) :=
  .inr ⟨0, 0, rfl, A.take j, [], [], by simp, fun _ => rfl, by simpa using (Ali.nil : Ali m [] [] 0 0)⟩

theorem goodE_col0 (A B : Seq) (i : Nat) (hi : i ≤ B.length) : GoodE m A B i 0 (encodeValues 0 i false) := by
  have h := Ali.nil_left m (B.take i)
  have e2 : (B.take i).length = i := by simp; omega
  rw [e2] at h
  exact .inr ⟨0, i, rfl, [], [], [], by simp, fun _ => rfl, h⟩

/-- interior cell -/
theorem bandCellE_good (lo hi : Int) (A B : Seq) (i j : Nat) (hi' : i < B.length) (hj : j < A.length)
    (hn : i + j + 2 ≤ 30000) {diag up left : UInt64}
    (hd : GoodE m A B i j diag) (hu : GoodE m A B i (j + 1) up) (hl : GoodE m A B (i + 1) j left) :
    GoodE m A B (i + 1) (j + 1)
      (bandCellE lo hi B.length (i + 1) (j + 1) (m (A.getD j 0) (B.getD i 0)) diag up left) := by
  have hi0 : ¬ i + 1 = 0 := by omega
  have hj0 : ¬ j + 1 = 0 := by omega
  unfold bandCellE
  simp only [if_neg hi0, if_neg hj0]
  apply goodE_edge m _ (by omega) (by omega) (by omega)
  apply pick_mem (GoodE m A B (i + 1) (j + 1))
  · exact goodE_diag m hi' hj hn hd
  · split
    · exact goodE_up m hi' (by omega) (by omega) hu
    · exact goodE_outV m _ _ _ _
  · split
    · exact goodE_left m (by omega) hj (by omega) hl
    · exact goodE_outV m _ _ _ _

/-- every cell of the banded matrix (endgapfree = true) is `GoodE` -/
theorem cellME_good (lo hi : Int) (A B : Seq) (hn : A.length + B.length + 1 ≤ 30000) :
    ∀ i, i ≤ B.length → ∀ j, j ≤ A.length → GoodE samenuc A B i j (cellME lo hi A B i j) := by
  intro i
  induction i with
  | zero =>
    intro _ j hj
    rw [cellME_row0 _ _ _ _ _ hj]
    unfold bandCellE
    simp only [if_true]
    apply goodE_edge samenuc _ (by omega) hj (by omega)
    rw [pick_row0 0 (by omega)]
    exact goodE_row0 samenuc A B j
  | succ i ih =>
    intro hiB j
    induction j with
    | zero =>
      intro _
      rw [cellME_col0]
      unfold bandCellE
      simp only [if_neg (Nat.succ_ne_zero i), if_true]
      apply goodE_edge samenuc _ hiB (by omega) (by omega)
      rw [pick_col0 (i + 1) (by omega)]
      exact goodE_col0 samenuc A B (i + 1) hiB
    | succ j ihj =>
      intro hj
      rw [cellME_succ _ _ _ _ _ _ (by omega)]
      exact bandCellE_good samenuc lo hi A B i j (by omega) (by omega) (by omega)
        (ih (by omega) j (by omega)) (ih (by omega) (j + 1) hj) (ihj (by omega))

theorem bandEGFAB_sound (A B : Seq) (e : Int) (s l : Nat) (hn : A.length + B.length + 1 ≤ 30000)
    (h : bandEGFAB A B e = some (s, l)) : EgfAli samenuc A B s l := by
  unfold bandEGFAB at h
  split at h
  · simp at h
  · rename_i g _
    rw [bandLastE_getLastD] at h
    have hg := cellME_good g.1 g.2 A B hn B.length (by omega) A.length (by omega)
    unfold bandResult at h
    rcases hg with ⟨s', l', hv, hs, hl⟩ | ⟨s', l', hv, ha⟩
    · rw [hv, decode_encode s' l' true (by omega) (by omega)] at h
      simp at h
    · have hb := ha.bounds samenuc (by omega) (by omega)
      rw [hv, decode_encode s' l' false (by omega) (by omega)] at h
      simp at h
      rw [← h.1, ← h.2]
      exact ha.toEgf samenuc

/-- the shorter sequence of the pair (the second one when the lengths are equal) is the one whose end gaps are free -/
def egfLong (a b : Seq) : Seq := if a.length < b.length then b else a
def egfShort (a b : Seq) : Seq := if a.length < b.length then a else b

/-- an answer of the banded matrix (endgapfree = true) is never spurious: it is the score and the length of an
alignment of a FACTOR of the longer sequence with the whole of the shorter one -/
theorem bandEGF_sound (a b : Seq) (e : Int) (s l : Nat) (hn : a.length + b.length + 1 ≤ 30000)
    (h : bandEGF a b e = some (s, l)) : EgfAli samenuc (egfLong a b) (egfShort a b) s l := by
  unfold bandEGF at h
  unfold egfLong egfShort
  by_cases c : a.length < b.length
  · rw [if_pos c] at h ⊢
    rw [if_pos c]
    exact bandEGFAB_sound b a e s l (by omega) h
  · rw [if_neg c] at h ⊢
    rw [if_neg c]
    exact bandEGFAB_sound a b e s l hn h

end ObiVerif.Lcs
