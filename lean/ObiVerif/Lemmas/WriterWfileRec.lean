import ObiVerif.Model.WriterWfile
import ObiVerif.Lemmas.WriterWfile
/-!
# C04: the `Write` calls that reach the file through `bufio.Writer` (recording file `RecDev`), lemmas
-/
set_option Elab.async false  -- one elaboration thread: each Lean thread reserves 1 GiB of address space (builds run under `ulimit -v`)
namespace ObiVerif.WriterWfile
open ObiVerif.Reseq ObiVerif.WriteErr

/-! ## the recording file: the `Write` calls that reach it -/

abbrev RecInv := GInv RecDev.got (fun _ => False) (fun _ => True)

theorem recLaw : DevLaw RecDev.write RecDev.got (fun _ => False) (fun _ => True) := by
  refine ⟨?_, ?_, ?_, ?_⟩
  · intro s p; simp [RecDev.write, RecDev.got]
  · intro s p _ h
    rcases h with h | h
    · simp [RecDev.write] at h
    · simp [RecDev.write] at h
  · intro s p h; exact h
  · intro s p _; trivial

theorem recInit (size : Nat) : RecInv (⟨size, [], false, ⟨[]⟩⟩ : GW RecDev) [] :=
  ⟨List.prefix_refl _, fun _ => rfl, fun h => (by cases h), trivial⟩

theorem closeRec_flatten {b : GW RecDev} {e : Bytes} (h : RecInv b e) : (closeRec b).flatten = e := by
  obtain ⟨hi, hbuf⟩ := gflush_inv recLaw h
  unfold closeRec
  generalize b.flush RecDev.write = b' at hi hbuf
  have he : b'.err = false := by
    cases hb : b'.err with
    | false => rfl
    | true => exact absurd (hi.bad hb) id
  have h1 := hi.ok he
  rw [hbuf he, List.append_nil] at h1
  exact h1

/-- the `Write` calls received by the file, concatenated, are the output of the plain writer: whatever the sizes
of the chunks and of the buffer, `bufio.Writer` neither loses, nor duplicates, nor reorders a byte -/
theorem callsRaw_flatten (size : Nat) (arr : List (Nat × Bytes)) :
    (callsRaw size arr).flatten = Writer.writeRaw arr := by
  unfold callsRaw Writer.writeRaw
  exact closeRec_flatten (run_sim RecInv (emitRawG RecDev.write) Writer.emitRaw
    (fun s t a hst => gwrite_inv recLaw hst a) _ [] (recInit size) arr).2.2

theorem callsJson_flatten (size : Nat) (arr : List (Nat × Bytes)) :
    (callsJson size arr).flatten = Writer.writeJson arr := by
  unfold callsJson Writer.writeJson
  simp only
  have h0 : RecInv ((⟨size, [], false, ⟨[]⟩⟩ : GW RecDev).write RecDev.write openJson) Writer.openJson := by
    have := gwrite_inv recLaw (recInit size) openJson
    rw [List.nil_append] at this
    exact this
  have h := (run_sim (fun (s : JG RecDev) (m : Writer.JS) => s.started = m.some ∧ RecInv s.bw m.out)
    (emitJsonG RecDev.write) Writer.emitJson (fun s t a hst => gemitJson_sim recLaw s t a hst.1 hst.2)
    ⟨_, false⟩ ⟨Writer.openJson, false⟩ ⟨rfl, h0⟩ arr).2.2
  exact closeRec_flatten (gwrite_inv recLaw h.2 closeJson)

end ObiVerif.WriterWfile
