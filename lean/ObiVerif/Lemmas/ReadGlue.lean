import ObiVerif.Model.ReadGlue
set_option Elab.async false
/-! helper lemmas for `Props/C17Glue.lean`: invariants of the transition system of `ReadSequencesBatchFromFiles` -/
namespace ObiVerif.ReadGlue
open ObiVerif.ReadErr

variable {β : Type}

/-- a fault is still to come: the process is dead, a faulted file waits in the channel, or a reader is inside one -/
def Pending (s : St β) : Prop :=
  s.dead = true ∨ (∃ f ∈ s.queue, f.faulted = true) ∨ (∃ rest, RState.reading rest .fatal ∈ s.readers)

theorem faulted_stream {bs : List β} {fin : Outcome} (h : (FileRes.stream bs fin).faulted = true) : fin = .fatal := by
  cases fin <;> simp_all [FileRes.faulted]

theorem step_pending {a b : St β} (h : Step a b) (hp : Pending a) : Pending b := by
  cases h with
  | takeBad f q l t c out hf => exact Or.inl rfl
  | take bs fin q l t c out =>
    rcases hp with hd | ⟨f, hf, hff⟩ | ⟨rest, hr⟩
    · cases hd
    · rcases List.mem_cons.mp hf with rfl | hq
      · have := faulted_stream hff
        subst this
        exact Or.inr (Or.inr ⟨bs, by simp⟩)
      · exact Or.inr (Or.inl ⟨f, hq, hff⟩)
    · refine Or.inr (Or.inr ⟨rest, ?_⟩)
      simp only [List.mem_append, List.mem_cons] at hr ⊢
      rcases hr with h | h | h
      · exact Or.inl h
      · cases h
      · exact Or.inr (Or.inr h)
  | push b0 rest fin q l t c out =>
    rcases hp with hd | ⟨f, hf, hff⟩ | ⟨rest', hr⟩
    · cases hd
    · exact Or.inr (Or.inl ⟨f, hf, hff⟩)
    · simp only [List.mem_append, List.mem_cons] at hr
      rcases hr with h | h | h
      · exact Or.inr (Or.inr ⟨rest', by simp [h]⟩)
      · injection h with h1 h2
        subst h2
        exact Or.inr (Or.inr ⟨rest, by simp⟩)
      · exact Or.inr (Or.inr ⟨rest', by simp [h]⟩)
  | fileEnd q l t c out =>
    rcases hp with hd | ⟨f, hf, hff⟩ | ⟨rest', hr⟩
    · cases hd
    · exact Or.inr (Or.inl ⟨f, hf, hff⟩)
    · simp only [List.mem_append, List.mem_cons] at hr
      rcases hr with h | h | h
      · exact Or.inr (Or.inr ⟨rest', by simp [h]⟩)
      · cases h
      · exact Or.inr (Or.inr ⟨rest', by simp [h]⟩)
  | die rest q l t c out => exact Or.inl rfl
  | finish l t c out =>
    rcases hp with hd | ⟨f, hf, hff⟩ | ⟨rest', hr⟩
    · cases hd
    · cases hf
    · simp only [List.mem_append, List.mem_cons] at hr
      rcases hr with h | h | h
      · exact Or.inr (Or.inr ⟨rest', by simp [h]⟩)
      · cases h
      · exact Or.inr (Or.inr ⟨rest', by simp [h]⟩)

theorem reach_pending {files : List (FileRes β)} {n : Nat} {s : St β} (h : Reach (init files n) s)
    (hf : ∃ f ∈ files, f.faulted = true) : Pending s := by
  induction h with
  | start => exact Or.inr (Or.inl hf)
  | next _ hs ih => exact step_pending hs ih

/-- the number of reader goroutines does not change -/
theorem step_readers_length {a b : St β} (h : Step a b) : b.readers.length = a.readers.length := by
  cases h <;> simp

theorem reach_readers_length {files : List (FileRes β)} {n : Nat} {s : St β} (h : Reach (init files n) s) :
    s.readers.length = n := by
  induction h with
  | start => simp [init]
  | next _ hs ih => rw [step_readers_length hs, ih]

/-- a reader leaves only when the channel of file names is empty -/
def DoneQueue (s : St β) : Prop := (∃ r ∈ s.readers, r.isDone = true) → s.queue = []

theorem step_doneQueue {a b : St β} (h : Step a b) (hp : DoneQueue a) : DoneQueue b := by
  cases h with
  | takeBad f q l t c out hf =>
    intro hd
    have := hp hd
    cases this
  | take bs fin q l t c out =>
    intro ⟨r, hr, hd⟩
    have : (FileRes.stream bs fin :: q) = [] := by
      apply hp
      simp only [List.mem_append, List.mem_cons] at hr
      rcases hr with h | h | h
      · exact ⟨r, by simp [h], hd⟩
      · subst h; cases hd
      · exact ⟨r, by simp [h], hd⟩
    cases this
  | push b0 rest fin q l t c out =>
    intro ⟨r, hr, hd⟩
    apply hp
    simp only [List.mem_append, List.mem_cons] at hr
    rcases hr with h | h | h
    · exact ⟨r, by simp [h], hd⟩
    · subst h; cases hd
    · exact ⟨r, by simp [h], hd⟩
  | fileEnd q l t c out =>
    intro ⟨r, hr, hd⟩
    apply hp
    simp only [List.mem_append, List.mem_cons] at hr
    rcases hr with h | h | h
    · exact ⟨r, by simp [h], hd⟩
    · subst h; cases hd
    · exact ⟨r, by simp [h], hd⟩
  | die rest q l t c out => exact hp
  | finish l t c out => intro _; rfl

theorem reach_doneQueue {files : List (FileRes β)} {n : Nat} {s : St β} (h : Reach (init files n) s) : DoneQueue s := by
  induction h with
  | start =>
    intro ⟨r, hr, hd⟩
    simp only [init, List.mem_replicate] at hr
    rw [hr.2] at hd
    cases hd
  | next _ hs ih => exact step_doneQueue hs ih

/-! ### no fault: the process never dies -/

def Clean (s : St β) : Prop :=
  s.dead = false ∧ (∀ f ∈ s.queue, f.faulted = false) ∧ (∀ rest fin, RState.reading rest fin ∈ s.readers → fin = .ok)

theorem step_clean {a b : St β} (h : Step a b) (hp : Clean a) : Clean b := by
  obtain ⟨_, hq, hr⟩ := hp
  cases h with
  | takeBad f q l t c out hf =>
    have := hq f (by simp)
    rcases hf with rfl | rfl <;> cases this
  | take bs fin q l t c out =>
    refine ⟨rfl, fun f hf => hq f (by simp [hf]), ?_⟩
    intro rest fin' hm
    simp only [List.mem_append, List.mem_cons] at hm
    rcases hm with h | h | h
    · exact hr rest fin' (by simp [h])
    · injection h with h1 h2
      subst h2
      have := hq (.stream bs fin') (by simp)
      cases fin' <;> simp_all [FileRes.faulted]
    · exact hr rest fin' (by simp [h])
  | push b0 rest fin q l t c out =>
    refine ⟨rfl, hq, ?_⟩
    intro rest' fin' hm
    simp only [List.mem_append, List.mem_cons] at hm
    rcases hm with h | h | h
    · exact hr rest' fin' (by simp [h])
    · injection h with h1 h2
      subst h2
      exact hr (b0 :: rest) fin' (by simp)
    · exact hr rest' fin' (by simp [h])
  | fileEnd q l t c out =>
    refine ⟨rfl, hq, ?_⟩
    intro rest' fin' hm
    simp only [List.mem_append, List.mem_cons] at hm
    rcases hm with h | h | h
    · exact hr rest' fin' (by simp [h])
    · cases h
    · exact hr rest' fin' (by simp [h])
  | die rest q l t c out =>
    have := hr rest .fatal (by simp)
    cases this
  | finish l t c out =>
    refine ⟨rfl, hq, ?_⟩
    intro rest' fin' hm
    simp only [List.mem_append, List.mem_cons] at hm
    rcases hm with h | h | h
    · exact hr rest' fin' (by simp [h])
    · cases h
    · exact hr rest' fin' (by simp [h])

theorem reach_clean {files : List (FileRes β)} {n : Nat} {s : St β} (h : Reach (init files n) s)
    (hf : ∀ f ∈ files, f.faulted = false) : Clean s := by
  induction h with
  | start =>
    refine ⟨rfl, hf, ?_⟩
    intro rest fin hm
    simp [init, List.mem_replicate] at hm
  | next _ hs ih => exact step_clean hs ih

/-! ### nothing lost, nothing twice -/

def restOf : RState β → List β
  | .reading rest _ => rest
  | _ => []

/-- the batches pushed, those the readers still hold and those of the files still in the channel -/
def pool (s : St β) : List β :=
  s.out.map Prod.snd ++ ((s.readers.map restOf).flatten ++ (s.queue.map FileRes.batches).flatten)

theorem step_pool {a b : St β} (h : Step a b) : (pool b).Perm (pool a) := by
  classical
  cases h with
  | takeBad f q l t c out hf =>
    rcases hf with rfl | rfl <;> simp [pool, FileRes.batches]
  | take bs fin q l t c out =>
    apply List.perm_iff_count.mpr
    intro x
    simp [pool, restOf, FileRes.batches, List.count_append]
    omega
  | push b0 rest fin q l t c out =>
    apply List.perm_iff_count.mpr
    intro x
    simp [pool, restOf, List.count_append, List.count_cons]
    omega
  | fileEnd q l t c out => simp [pool, restOf]
  | die rest q l t c out => simp [pool]
  | finish l t c out => simp [pool, restOf]

theorem reach_pool {files : List (FileRes β)} {n : Nat} {s : St β} (h : Reach (init files n) s) :
    (pool s).Perm (files.map FileRes.batches).flatten := by
  induction h with
  | start =>
    have : ∀ n : Nat, (List.replicate n ([] : List β)).flatten = [] := by
      intro n
      induction n with
      | zero => rfl
      | succ k ih => simp [List.replicate_succ, ih]
    simp [pool, init, restOf, this]
  | next _ hs ih => exact (step_pool hs).trans ih

theorem restOf_done {rs : List (RState β)} (h : ∀ r ∈ rs, r.isDone = true) : (rs.map restOf).flatten = [] := by
  induction rs with
  | nil => rfl
  | cons r rs ih =>
    have h1 := h r (by simp)
    have h2 := ih (fun r' hr' => h r' (by simp [hr']))
    cases r <;> simp_all [restOf, RState.isDone]

/-- the new order numbers are 0, 1, 2, … in the order of the pushes -/
def Numbered (s : St β) : Prop := s.out.map Prod.fst = List.range s.counter

theorem step_numbered {a b : St β} (h : Step a b) (hp : Numbered a) : Numbered b := by
  cases h with
  | push b0 rest fin q l t c out =>
    simp only [Numbered] at hp ⊢
    simp [hp, List.range_succ]
  | _ => exact hp

theorem reach_numbered {files : List (FileRes β)} {n : Nat} {s : St β} (h : Reach (init files n) s) : Numbered s := by
  induction h with
  | start => simp [Numbered, init]
  | next _ hs ih => exact step_numbered hs ih

/-! ### one reader (the default: the order of the input is kept) -/

def Seq1 (files : List (FileRes β)) (s : St β) : Prop :=
  ∃ r, s.readers = [r] ∧
    s.out.map Prod.snd ++ (restOf r ++ (s.queue.map FileRes.batches).flatten) = (files.map FileRes.batches).flatten

theorem single_split {x r : RState β} {l t : List (RState β)} (h : l ++ x :: t = [r]) : l = [] ∧ t = [] ∧ x = r := by
  cases l with
  | nil => simp at h; exact ⟨rfl, h.2, h.1⟩
  | cons a l => simp at h

theorem step_seq1 {files : List (FileRes β)} {a b : St β} (h : Step a b) (hc : Clean a) (hp : Seq1 files a) :
    Seq1 files b := by
  obtain ⟨r, hr, he⟩ := hp
  cases h with
  | takeBad f q l t c out hf =>
    have := hc.2.1 f (by simp)
    rcases hf with rfl | rfl <;> cases this
  | take bs fin q l t c out =>
    obtain ⟨rfl, rfl, rfl⟩ := single_split hr
    exact ⟨_, rfl, by simpa [restOf, FileRes.batches] using he⟩
  | push b0 rest fin q l t c out =>
    obtain ⟨rfl, rfl, rfl⟩ := single_split hr
    exact ⟨_, rfl, by simpa [restOf] using he⟩
  | fileEnd q l t c out =>
    obtain ⟨rfl, rfl, rfl⟩ := single_split hr
    exact ⟨_, rfl, by simpa [restOf] using he⟩
  | die rest q l t c out => exact ⟨r, hr, he⟩
  | finish l t c out =>
    obtain ⟨rfl, rfl, rfl⟩ := single_split hr
    exact ⟨_, rfl, by simpa [restOf] using he⟩

theorem reach_seq1 {files : List (FileRes β)} {s : St β} (h : Reach (init files 1) s)
    (hf : ∀ f ∈ files, f.faulted = false) : Seq1 files s := by
  induction h with
  | start => exact ⟨.idle, rfl, by simp [init, restOf]⟩
  | next hr hs ih => exact step_seq1 hs (reach_clean hr hf) ih

/-! ### progress and termination -/

theorem step_measure {a b : St β} (h : Step a b) : measure b < measure a := by
  cases h with
  | takeBad f q l t c out hf => simp [measure]; omega
  | take bs fin q l t c out => simp [measure, FileRes.batches, List.sum_append]; omega
  | push b0 rest fin q l t c out => simp [measure, List.sum_append]
  | fileEnd q l t c out => simp [measure, List.sum_append]
  | die rest q l t c out => simp [measure]; omega
  | finish l t c out => simp [measure, List.sum_append]

/-- a live process in which some reader has not left can move: no deadlock -/
theorem progress (s : St β) (hd : s.dead = false) (hr : ∃ r ∈ s.readers, r.isDone = false) : ∃ s', Step s s' := by
  obtain ⟨r, hm, hnd⟩ := hr
  obtain ⟨l, t, hlt⟩ := List.append_of_mem hm
  obtain ⟨q, rs, c, out, dead⟩ := s
  simp only at hd hlt
  subst hd hlt
  cases r with
  | done => cases hnd
  | idle =>
    cases q with
    | nil => exact ⟨_, Step.finish l t c out⟩
    | cons f q =>
      cases f with
      | openErr => exact ⟨_, Step.takeBad _ q l t c out (Or.inl rfl)⟩
      | openFatal => exact ⟨_, Step.takeBad _ q l t c out (Or.inr rfl)⟩
      | stream bs fin => exact ⟨_, Step.take bs fin q l t c out⟩
  | reading rest fin =>
    cases rest with
    | cons b0 rest => exact ⟨_, Step.push b0 rest fin q l t c out⟩
    | nil =>
      cases fin with
      | ok => exact ⟨_, Step.fileEnd q l t c out⟩
      | fatal => exact ⟨_, Step.die [] q l t c out⟩

/-! ### the executable scheduler takes real steps and stops only at the end -/

theorem stepAt_sound {early : Bool} {i : Nat} {s s' : St β} (h : stepAt early i s = some s') : Step s s' := by
  obtain ⟨q, rs, c, out, dead⟩ := s
  unfold stepAt at h
  simp only at h
  cases dead with
  | true => simp at h
  | false =>
    simp only [Bool.false_eq_true, if_false] at h
    have hrs : rs = rs.take i ++ rs.drop i := (List.take_append_drop i rs).symm
    generalize rs.take i = l at h hrs
    generalize rs.drop i = d at h hrs
    subst hrs
    cases d with
    | nil => simp at h
    | cons x t =>
      cases x with
      | done => simp at h
      | idle =>
        cases q with
        | nil => simp at h; subst h; exact Step.finish l t c out
        | cons f q =>
          cases f with
          | openErr => simp at h; subst h; exact Step.takeBad _ q l t c out (Or.inl rfl)
          | openFatal => simp at h; subst h; exact Step.takeBad _ q l t c out (Or.inr rfl)
          | stream bs fin => simp at h; subst h; exact Step.take bs fin q l t c out
      | reading rest fin =>
        cases rest with
        | nil =>
          cases fin with
          | ok => simp at h; subst h; exact Step.fileEnd q l t c out
          | fatal => simp at h; subst h; exact Step.die [] q l t c out
        | cons b0 rest =>
          simp only at h
          split at h
          · rename_i hc
            simp at h; subst h
            have : fin = .fatal := by
              cases fin <;> simp_all
            subst this
            exact Step.die (b0 :: rest) q l t c out
          · simp at h; subst h; exact Step.push b0 rest fin q l t c out

theorem stepAt_none {early : Bool} {i : Nat} {s : St β} (hd : s.dead = false) (hi : i < s.readers.length)
    (h : stepAt early i s = none) : (s.readers[i]).isDone = true := by
  obtain ⟨q, rs, c, out, dead⟩ := s
  simp only at hd hi ⊢
  subst hd
  unfold stepAt at h
  simp only [Bool.false_eq_true, if_false] at h
  have hdrop : rs.drop i = rs[i] :: rs.drop (i + 1) := List.drop_eq_getElem_cons hi
  rw [hdrop] at h
  generalize rs[i] = x at h ⊢
  cases x with
  | done => rfl
  | idle => cases q with
    | nil => simp at h
    | cons f q => cases f <;> simp at h
  | reading rest fin =>
    cases rest with
    | nil => cases fin <;> simp at h
    | cons b0 rest =>
      simp only at h
      split at h <;> simp at h

theorem firstMove_sound {early : Bool} {s s' : St β} {k : Nat} (h : firstMove early s k = some s') : Step s s' := by
  induction k with
  | zero => simp [firstMove] at h
  | succ k ih =>
    unfold firstMove at h
    split at h
    · rename_i s'' hs
      injection h with h; subst h
      exact stepAt_sound hs
    · exact ih h

theorem firstMove_none {early : Bool} {s : St β} {k : Nat} (h : firstMove early s k = none) :
    ∀ j, j < k → stepAt early j s = none := by
  induction k with
  | zero => intro j hj; omega
  | succ k ih =>
    unfold firstMove at h
    split at h
    · cases h
    · rename_i hk
      intro j hj
      by_cases hjk : j = k
      · subst hjk; exact hk
      · exact ih h j (by omega)

theorem pick_sound {early : Bool} {s s' : St β} {i : Nat} (h : pick early s i = some s') : Step s s' := by
  unfold pick at h
  split at h
  · rename_i s'' hs
    injection h with h; subst h
    exact stepAt_sound hs
  · exact firstMove_sound h

theorem pick_none {early : Bool} {s : St β} {i : Nat} (hd : s.dead = false) (h : pick early s i = none) :
    ∀ r ∈ s.readers, r.isDone = true := by
  unfold pick at h
  split at h
  · cases h
  · intro r hr
    obtain ⟨j, hj, rfl⟩ := List.getElem_of_mem hr
    exact stepAt_none hd hj (firstMove_none h j hj)

/-- the end of an execution: the process is dead or every reader has left -/
def Ended (s : St β) : Prop := s.dead = true ∨ ∀ r ∈ s.readers, r.isDone = true

theorem run_reach {early : Bool} (s0 : St β) (fuel : Nat) (sched : List Nat) (s : St β) (h : Reach s0 s) :
    Reach s0 (run early fuel sched s) := by
  induction fuel generalizing sched s with
  | zero => exact h
  | succ k ih =>
    unfold run
    split
    · exact h
    · rename_i s' hs
      exact ih _ _ (Reach.next h (pick_sound hs))

theorem run_ended {early : Bool} (fuel : Nat) (sched : List Nat) (s : St β) (hm : measure s ≤ fuel) :
    Ended (run early fuel sched s) := by
  induction fuel generalizing sched s with
  | zero =>
    unfold run
    cases hd : s.dead with
    | true => exact Or.inl hd
    | false => simp [measure, hd] at hm
  | succ k ih =>
    unfold run
    split
    · rename_i hp
      cases hd : s.dead with
      | true => exact Or.inl hd
      | false => exact Or.inr (pick_none hd hp)
    · rename_i s' hs
      have := step_measure (pick_sound hs)
      exact ih _ _ (by omega)

end ObiVerif.ReadGlue
