import ObiVerif.Model.Sniff
import ObiVerif.Lemmas.FastaContent
import ObiVerif.Lemmas.FastqContent
import ObiVerif.Lemmas.EmblContent
import ObiVerif.Lemmas.GenbankContent
/-!
# Format sniffing: every well-formed file is dispatched to its own parser (property C01)

`sniffFile` (Model/Sniff.lean) = `Buf` (magic numbers, byte-order mark) + the five OBITools detectors on the
3072-byte window `mimetype` hands over.  For the rendered files of the four grammars (`faFileText`, `fqFileText`,
`flatFileText` of `GbEntry` / `EmEntry` lines) the answer is the file's own format, whatever the length of the
first record: EMBL and GenBank are decided by the first 5 / 12 bytes; FASTQ by the title line, the
sequence line and the `+` that follows — or by a window that ends inside the sequence line or just after its
line feed (patches `C01-fastq-sniff-long-read`, `C01-fastq-sniff-window-edge`); FASTA by the first 2 bytes.  The
GenBank detector is asked BEFORE the FASTQ and FASTA ones and its second expression
`^[^ ]* +Genetic Sequence Data Bank *\n` is not anchored to a line: the FASTA / FASTQ theorems carry the
hypothesis `NoBanner` (the window does not match it).
-/
namespace ObiVerif.Sniff
open ObiVerif.Chunk ObiVerif.Parse

def zeros : Seq := List.replicate limit 0

/-- the window of a text that starts with a short prefix `p` -/
theorem window_append (p x : Seq) (h : p.length ≤ limit) :
    window (p ++ x) = p ++ (x ++ zeros).take (limit - p.length) := by
  unfold window
  rw [List.append_assoc, List.take_append, List.take_of_length_le h]
  rfl

/-! ## `Buf`: no decompressor, no byte-order mark -/

/-- first bytes that are neither a magic number nor the start of a byte-order mark -/
def PlainStart (b : UInt8) : Prop := b ≠ 0x1f ∧ b ≠ 0x28 ∧ b ≠ 0xfd ∧ b ≠ 0x42 ∧ b ≠ 0xEF

instance (b : UInt8) : Decidable (PlainStart b) := by unfold PlainStart; infer_instance

theorem magic_plain (b : UInt8) (t : Seq) (h : PlainStart b) : magic (b :: t) = .plain := by
  obtain ⟨h1, h2, h3, h4, _⟩ := h
  unfold magic
  cases t with
  | nil => simp
  | cons c t =>
    have e1 : ((b :: c :: t).take 2 == [0x1f, 0x8b]) = false := by simp [h1]
    have e2 : ((b :: c :: t).take 4 == [0x28, 0xb5, 0x2f, 0xfd]) = false := by
      match t with
      | [] => simp
      | [_] => simp
      | _ :: _ :: _ => simp [h2]
    have e3 : ((b :: c :: t).take 6 == [0xfd, 0x37, 0x7a, 0x58, 0x5a, 0x00]) = false := by
      match t with
      | [] => simp
      | [_] => simp
      | [_, _] => simp
      | [_, _, _] => simp
      | _ :: _ :: _ :: _ :: _ => simp [h3]
    have e4 : ((b :: c :: t).take 3 == [0x42, 0x5a, 0x68]) = false := by
      match t with
      | [] => simp
      | _ :: _ => simp [h4]
    simp only [e1, e2, e3, e4]
    simp

theorem stripBOM_plain (b : UInt8) (t : Seq) (h : PlainStart b) : stripBOM (b :: t) = b :: t := by
  have hb : b ≠ 0xEF := h.2.2.2.2
  unfold stripBOM
  have : ((b :: t).take 3 == [0xEF, 0xBB, 0xBF]) = false := by
    match t with
    | [] => simp
    | [_] => simp
    | _ :: _ :: _ => simp [hb]
  rw [this]; rfl

/-- a file that starts with a plain byte reaches the detectors unchanged -/
theorem sniffFile_plain (b : UInt8) (t : Seq) (h : PlainStart b) : sniffFile (b :: t) = some (guess (b :: t)) := by
  unfold sniffFile
  rw [magic_plain b t h, stripBOM_plain b t h]
  simp

/-- the same file behind a UTF-8 byte-order mark: the mark is dropped -/
theorem sniffFile_bom (d : Seq) : sniffFile (0xEF :: 0xBB :: 0xBF :: d) = some (guess d) := by
  have hm : magic (0xEF :: 0xBB :: 0xBF :: d) = .plain := by
    unfold magic
    match d with
    | [] => simp
    | [_] => simp
    | [_, _] => simp
    | _ :: _ :: _ :: _ => simp
  unfold sniffFile
  rw [hm]
  simp [stripBOM]

/-! ## FASTA: `^>[^ ]` -/

/-- the window does not match the banner of a GenBank release file, `^[^ ]* +Genetic Sequence Data Bank *\n`
(the run `[^ ]*` may span several lines: the first blank of the window is not followed by the banner) -/
def NoBanner (d : Seq) : Prop := gsdbDetect (window d) = false

instance (d : Seq) : Decidable (NoBanner d) := by unfold NoBanner; infer_instance

theorem guess_fasta (c : UInt8) (x : Seq) (hc : c ≠ 32) (hb : NoBanner (62 :: c :: x)) : guess (62 :: c :: x) = .fasta := by
  unfold NoBanner at hb
  unfold guess
  have hw : window (62 :: c :: x) = 62 :: c :: (x ++ zeros).take (limit - 2) :=
    window_append [62, c] x (by show 2 ≤ 3072; omega)
  rw [hw] at hb ⊢
  unfold guessRaw genbankDetect
  rw [hb]
  simp [emID, gbLOCUS, ecopcrKey, hasPrefix, fastqDetect, fastqDetectWith, fastaDetect, hc]

theorem titleOK_head {h : Seq} (hh : TitleOK h) : ∃ c t, h = c :: t ∧ c ≠ 32 ∧ NoEol t := by
  obtain ⟨c, t, rfl, hc, ht⟩ := hh
  refine ⟨c, t, rfl, ?_, ht⟩
  intro h32; subst h32; revert hc; decide

/-- every file of the FASTA grammar is dispatched to the FASTA reader -/
theorem guess_faFileText (r0 : FaSrc) (rest : List (Seq × FaSrc)) (tail : Seq) (h0 : r0.OK)
    (hb : NoBanner (faFileText r0 rest tail)) :
    guess (faFileText r0 rest tail) = .fasta ∧
    ∃ t, faFileText r0 rest tail = 62 :: t := by
  obtain ⟨c, t, ht, hc, _⟩ := titleOK_head h0.1
  have : faFileText r0 rest tail = 62 :: c :: (t ++ r0.eol ++ r0.first ++ moreText r0.more ++ restText rest ++ tail) := by
    simp [faFileText, FaSrc.text, FaSrc.body, ht]
  exact ⟨by rw [this] at hb ⊢; exact guess_fasta c _ hc hb, _, this⟩

/-! ## FASTQ: `^@[^ ].*\n([^ ]+\n\+|[^ \n]*\n?$)` -/

/-- a run of bytes that are neither blank nor line feed -/
def Solid (s : Seq) : Prop := ∀ c ∈ s, c ≠ 32 ∧ c ≠ 10

theorem lineToEnd_cons (c : UInt8) (u : Seq) (h : c ≠ 32 ∧ c ≠ 10) : lineToEnd (c :: u) = lineToEnd u := by
  unfold lineToEnd
  simp [h.1, h.2]

theorem scanPlus_cons (c : UInt8) (u : Seq) (b : Bool) (h : c ≠ 32 ∧ c ≠ 10) : scanPlus (c :: u) b = scanPlus u true := by
  simp [scanPlus, h.1, h.2]

/-- what follows the title line, cut anywhere by the end of the window: a solid run (sequence line and the CRs
of its line end), the line feed, the `+`.  Whatever the cut, one of the two alternatives fires. -/
theorem tail_detect (w : Seq) : ∀ (s : Seq) (b : Bool) (m : Nat), Solid s → (s ≠ [] ∨ b = true) →
    (scanPlus ((s ++ 10 :: 43 :: w).take m) b || lineToEnd ((s ++ 10 :: 43 :: w).take m)) = true
  | _, _, 0, _, _ => by simp [lineToEnd]
  | [], b, 1, _, _ => by simp [lineToEnd]
  | [], b, m + 2, _, hb => by
    have hb' : b = true := by rcases hb with h | h; exact absurd rfl h; exact h
    subst hb'
    simp [scanPlus]
  | c :: s, b, m + 1, hs, _ => by
    have hc := hs c (by simp)
    have ih := tail_detect w s true m (fun x hx => hs x (by simp [hx])) (Or.inr rfl)
    simp only [List.cons_append, List.take_succ_cons, scanPlus_cons c _ b hc, lineToEnd_cons c _ hc]
    exact ih

theorem dropWhile_to_lf (a u : Seq) (ha : ∀ c ∈ a, c ≠ 10) : (a ++ 10 :: u).dropWhile (· != 10) = 10 :: u := by
  induction a with
  | nil => simp
  | cons c a ih =>
    have hc : c ≠ 10 := ha c (by simp)
    simp only [List.cons_append, List.dropWhile_cons]
    simp [hc, ih (fun x hx => ha x (by simp [hx]))]

/-- line end `LF`, `CR LF`, `CR CR LF` … -/
def LfEol (e : Seq) : Prop := ∃ k, e = List.replicate k 13 ++ [10]

theorem solid_replicate_cr (k : Nat) : Solid (List.replicate k 13) := by
  intro c hc
  rw [List.mem_replicate] at hc
  rw [hc.2]; decide

theorem seqBytes_solid {l : Seq} (h : SeqBytes l) : Solid l := by
  intro c hc
  have := h c hc
  constructor <;> (intro e; subst e; revert this; decide)

/-- the FASTQ detector on a window `@` title-line `LF` … : decided by what follows the title line -/
theorem fastqDetect_title (c : UInt8) (a u : Seq) (hc : c ≠ 32) (ha : ∀ x ∈ a, x ≠ 10) :
    fastqDetect (64 :: c :: (a ++ 10 :: u)) = (scanPlus u false || lineToEnd u) := by
  simp [fastqDetect, fastqDetectWith, hc, dropWhile_to_lf a u ha]

theorem guess_fastq_shape (c : UInt8) (a s w : Seq) (hc : c ≠ 32) (ha : ∀ x ∈ a, x ≠ 10) (hs : Solid s) (hne : s ≠ [])
    (hwin : a.length + 3 ≤ limit) (hb : NoBanner (64 :: c :: (a ++ 10 :: (s ++ 10 :: 43 :: w)))) :
    guess (64 :: c :: (a ++ 10 :: (s ++ 10 :: 43 :: w))) = .fastq := by
  unfold NoBanner at hb
  unfold guess
  have hw : window (64 :: c :: (a ++ 10 :: (s ++ 10 :: 43 :: w))) =
      64 :: c :: (a ++ 10 :: ((s ++ 10 :: 43 :: (w ++ zeros)).take (limit - (a.length + 3)))) := by
    have := window_append (64 :: c :: (a ++ [10])) (s ++ 10 :: 43 :: w) (by simp; omega)
    simp only [List.cons_append, List.append_assoc, List.nil_append, List.length_cons, List.length_append,
      List.length_nil] at this
    simpa [Nat.add_assoc] using this
  rw [hw] at hb ⊢
  have hd := fastqDetect_title c a ((s ++ 10 :: 43 :: (w ++ zeros)).take (limit - (a.length + 3))) hc ha
  rw [tail_detect (w ++ zeros) s false _ hs (Or.inl hne)] at hd
  unfold guessRaw genbankDetect
  rw [hb, hd]
  simp [emID, gbLOCUS, ecopcrKey, hasPrefix]

/-- hypotheses of the FASTQ dispatch theorem on the first record: `LF` / `CR LF` line ends after the title and the
sequence line, and a title line that ends inside the detector window -/
def FqSniffOK (r : FqSrc) : Prop := LfEol r.e1 ∧ LfEol r.e2 ∧ 1 + r.title.length + r.e1.length ≤ limit

/-- every file of the FASTQ grammar whose first title line ends inside the window is dispatched to the FASTQ
reader, **whatever the length of the first read** -/
theorem guess_fqFileText (r0 : FqSrc) (rest : List (Seq × FqSrc)) (tail : Seq) (h0 : r0.OK) (hs : FqSniffOK r0)
    (hb : NoBanner (fqFileText r0 rest tail)) :
    guess (fqFileText r0 rest tail) = .fastq ∧ ∃ t, fqFileText r0 rest tail = 64 :: t := by
  obtain ⟨c, t, ht, hc, hne⟩ := titleOK_head h0.1
  obtain ⟨⟨k1, hk1⟩, ⟨k2, hk2⟩, hwin⟩ := hs
  have hsq : SeqLineOK r0.sq := h0.2.2.1
  have hfile : fqFileText r0 rest tail =
      64 :: c :: ((t ++ List.replicate k1 13) ++ 10 :: ((r0.sq ++ List.replicate k2 13) ++ 10 :: 43 ::
        (r0.plus ++ r0.e3 ++ r0.qual ++ fqRestText rest ++ tail))) := by
    simp [fqFileText, FqSrc.text, FqSrc.body, ht, hk1, hk2]
  refine ⟨?_, _, hfile⟩
  rw [hfile] at hb ⊢
  refine guess_fastq_shape c _ _ _ hc ?_ ?_ ?_ ?_ hb
  · intro x hx
    rcases List.mem_append.mp hx with h | h
    · exact (not_eol_ne (hne x h)).1
    · rw [List.mem_replicate] at h; rw [h.2]; decide
  · intro x hx
    rcases List.mem_append.mp hx with h | h
    · exact seqBytes_solid hsq.2 x h
    · exact solid_replicate_cr k2 x h
  · intro h
    exact hsq.1 (List.append_eq_nil_iff.mp h).1
  · rw [ht, hk1] at hwin
    simp only [List.length_cons, List.length_append, List.length_replicate, List.length_nil] at hwin ⊢
    omega

/-- **what patch `C01-fastq-sniff-window-edge` repairs**: a window that ends just after the line feed of the
sequence line (the `+` is the first byte outside) was refused by the previous expression `[^ \n]+$` -/
theorem fastqDetectOld_window_edge (c : UInt8) (a s : Seq) (hc : c ≠ 32) (ha : ∀ x ∈ a, x ≠ 10) (hs : Solid s) :
    fastqDetectOld (64 :: c :: (a ++ 10 :: (s ++ [10]))) = false ∧
    fastqDetect (64 :: c :: (a ++ 10 :: (s ++ [10]))) = true := by
  have hscan : ∀ (s : Seq) (b : Bool), Solid s → scanPlus (s ++ [10]) b = false := by
    intro s
    induction s with
    | nil => intro b _; simp [scanPlus]
    | cons x s ih =>
      intro b hs
      rw [List.cons_append, scanPlus_cons x _ b (hs x (by simp))]
      exact ih true (fun y hy => hs y (by simp [hy]))
  have hlte : ∀ (s : Seq), Solid s → lineToEnd (s ++ [10]) = true := by
    intro s
    induction s with
    | nil => intro _; simp [lineToEnd]
    | cons x s ih =>
      intro hs
      rw [List.cons_append, lineToEnd_cons x _ (hs x (by simp))]
      exact ih (fun y hy => hs y (by simp [hy]))
  constructor
  · simp [fastqDetectOld, fastqDetectWith, dropWhile_to_lf a _ ha, hscan s false hs, lineToEndOld]
  · rw [fastqDetect_title c a _ hc ha, hlte s hs]; simp

/-! ## GenBank: prefix `LOCUS       `; EMBL: prefix `ID   ` -/

theorem guess_genbank (x : Seq) : guess (gbLOCUS ++ x) = .genbank := by
  unfold guess
  rw [window_append gbLOCUS x (by decide)]
  have hp : hasPrefix gbLOCUS (gbLOCUS ++ (x ++ zeros).take (limit - gbLOCUS.length)) = true := hasPrefix_self _ _
  generalize (x ++ zeros).take (limit - gbLOCUS.length) = y at hp
  unfold guessRaw genbankDetect
  rw [hp]
  simp [gbLOCUS, emID, hasPrefix]

theorem guess_embl (x : Seq) : guess (emID ++ x) = .embl := by
  unfold guess
  rw [window_append emID x (by decide)]
  unfold guessRaw
  rw [hasPrefix_self]
  rfl

/-- first line of a rendered flat file -/
theorem flatFileText_head (crlf : Nat → Bool) (l : Seq) (ls : List Seq) (closed : Bool) :
    ∃ r, flatFileText crlf (l :: ls) closed = l ++ r ∧ (r = [] ∨ ∃ c t, r = c :: t ∧ isEol c = true) := by
  unfold flatFileText
  cases closed with
  | true =>
    simp only [if_true, withEols, renderLines]
    refine ⟨eolOf (crlf 0) ++ renderLines (withEols crlf (0 + 1) ls), by simp, Or.inr ?_⟩
    cases crlf 0 <;> simp [eolOf, isEol]
  | false =>
    simp only [Bool.false_eq_true, if_false, withEols]
    cases ls with
    | nil => exact ⟨[], by simp [withEols, renderOpen], Or.inl rfl⟩
    | cons m ls =>
      simp only [withEols, renderOpen]
      refine ⟨eolOf (crlf 0) ++ renderOpen ((m, crlf (0 + 1)) :: withEols crlf (0 + 1 + 1) ls), by simp, Or.inr ?_⟩
      cases crlf 0 <;> simp [eolOf, isEol]

/-- every rendered GenBank file is dispatched to the GenBank reader -/
theorem guess_genbank_file (e : GbEntry) (es : List GbEntry) (crlf : Nat → Bool) (closed : Bool) :
    guess (flatFileText crlf ((e :: es).flatMap GbEntry.lines) closed) = .genbank ∧
    ∃ t, flatFileText crlf ((e :: es).flatMap GbEntry.lines) closed = 76 :: t := by
  have hl : (e :: es).flatMap GbEntry.lines = (gbLOCUS ++ e.locusRest) :: ((e.lines.drop 1) ++ es.flatMap GbEntry.lines) := by
    simp [List.flatMap_cons, GbEntry.lines]
  obtain ⟨r, hr, _⟩ := flatFileText_head crlf (gbLOCUS ++ e.locusRest) ((e.lines.drop 1) ++ es.flatMap GbEntry.lines) closed
  rw [hl, hr, List.append_assoc]
  exact ⟨guess_genbank _, _, rfl⟩

/-- every rendered EMBL file is dispatched to the EMBL reader (the `ID   ` prefix is asked first) -/
theorem guess_embl_file (e : EmEntry) (es : List EmEntry) (crlf : Nat → Bool) (closed : Bool) :
    guess (flatFileText crlf ((e :: es).flatMap EmEntry.lines) closed) = .embl ∧
    ∃ t, flatFileText crlf ((e :: es).flatMap EmEntry.lines) closed = 73 :: t := by
  have hl : (e :: es).flatMap EmEntry.lines = (emID ++ e.idRest) :: ((e.lines.drop 1) ++ es.flatMap EmEntry.lines) := by
    simp [List.flatMap_cons, EmEntry.lines]
  obtain ⟨r, hr, _⟩ := flatFileText_head crlf (emID ++ e.idRest) ((e.lines.drop 1) ++ es.flatMap EmEntry.lines) closed
  rw [hl, hr, List.append_assoc]
  exact ⟨guess_embl _, 68 :: 32 :: 32 :: 32 :: (e.idRest ++ r), by simp [emID]⟩

end ObiVerif.Sniff
