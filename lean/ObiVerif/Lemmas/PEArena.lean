import ObiVerif.Model.PEArena
import ObiVerif.Lemmas.PEBackV
import ObiVerif.Lemmas.PEFastV
/-!
# C08: the arena-level functions (flat matrices + path buffer) equal the list-path versions, for every
content of the arena — no hypothesis on the reads
-/
namespace ObiVerif.PEAlign
open ObiVerif.Align

theorem fillLeftB_eq (s : Nat → Nat → Int) (g : Int) (la lb : Nat) (ar : Arena) :
    (fillLeftB s g la lb ar).map (fun x => (x.1, x.2.m)) = fillLeftA s g la lb ar.m := by
  unfold fillLeftB fillLeftA
  cases fillLeftV s g la lb ar.m with
  | none => rfl
  | some x =>
    obtain ⟨sc, m⟩ := x
    simp only
    have h := backtrackBuf_eq (pathAt m.pm la) la lb ar.path
    cases hb : backtrackBuf (pathAt m.pm la) la lb ar.path with
    | none => rw [hb] at h; simp only [Option.map_none] at h; rw [← h]; rfl
    | some y => rw [hb] at h; simp only [Option.map_some] at h; rw [← h]; rfl

theorem fillRightB_eq (s : Nat → Nat → Int) (g : Int) (la lb : Nat) (ar : Arena) :
    (fillRightB s g la lb ar).map (fun x => (x.1, x.2.m)) = fillRightA s g la lb ar.m := by
  unfold fillRightB fillRightA
  cases fillRightV s g la lb ar.m with
  | none => rfl
  | some x =>
    obtain ⟨sc, m⟩ := x
    simp only
    have h := backtrackBuf_eq (pathAt m.pm la) la lb ar.path
    cases hb : backtrackBuf (pathAt m.pm la) la lb ar.path with
    | none => rw [hb] at h; simp only [Option.map_none] at h; rw [← h]; rfl
    | some y => rw [hb] at h; simp only [Option.map_some] at h; rw [← h]; rfl

theorem peAlignExactB_eq (s : Nat → Nat → Int) (g : Int) (la lb : Nat) (ar : Arena) :
    (peAlignExactB s g la lb ar).map (fun x => (x.1, x.2.m)) = peAlignExactA s g la lb ar.m := by
  have hR := fillRightB_eq s g la lb ar
  unfold peAlignExactB peAlignExactA
  cases hb : fillRightB s g la lb ar with
  | none => rw [hb] at hR; simp only [Option.map_none] at hR; rw [← hR]; rfl
  | some x =>
    obtain ⟨r, ar1⟩ := x
    rw [hb] at hR; simp only [Option.map_some] at hR; rw [← hR]
    simp only
    cases fillLeftV s g la lb ar1.m with
    | none => rfl
    | some y =>
      obtain ⟨scoreL, m2⟩ := y
      simp only
      by_cases hgt : scoreL > r.score
      · simp only [hgt, if_true]
        have h := backtrackBuf_eq (pathAt m2.pm la) la lb ar1.path
        cases hb2 : backtrackBuf (pathAt m2.pm la) la lb ar1.path with
        | none => rw [hb2] at h; simp only [Option.map_none] at h; rw [← h]; rfl
        | some z => rw [hb2] at h; simp only [Option.map_some] at h; rw [← h]; rfl
      · simp only [hgt, if_false, Option.map_some]

theorem peAlignFastFromB_eq (s : Nat → Nat → Int) (g : Int) (la lb delta : Nat) (shift count : Int) (ar : Arena) :
    (peAlignFastFromB s g la lb delta shift count ar).map (fun x => (x.1, x.2.m))
      = peAlignFastFromA s g la lb delta shift count ar.m := by
  unfold peAlignFastFromB peAlignFastFromA
  by_cases hdp : count < 1 ∨ count + 3 < over la lb shift
  · simp only [hdp, if_true]
    by_cases hs : shift > 0
    · simp only [hs, if_true]
      by_cases hsa : (shift - (delta : Int)).toNat > la
      · simp only [hsa, if_true]; rfl
      · simp only [hsa, if_false]
        have h := fillLeftB_eq (fun i j => s ((shift - (delta : Int)).toNat + i) j) g
          (la - (shift - (delta : Int)).toNat) (min (la - (shift - (delta : Int)).toNat) lb) ar
        rw [← h]
        cases fillLeftB (fun i j => s ((shift - (delta : Int)).toNat + i) j) g
          (la - (shift - (delta : Int)).toNat) (min (la - (shift - (delta : Int)).toNat) lb) ar with
        | none => rfl
        | some x => rfl
    · simp only [hs, if_false]
      by_cases hsb : (-shift - (delta : Int)).toNat > lb
      · simp only [hsb, if_true]; rfl
      · simp only [hsb, if_false]
        have h := fillRightB_eq (fun i j => s i ((-shift - (delta : Int)).toNat + j)) g
          (min (lb - (-shift - (delta : Int)).toNat) la) (lb - (-shift - (delta : Int)).toNat) ar
        rw [← h]
        cases fillRightB (fun i j => s i ((-shift - (delta : Int)).toNat + j)) g
          (min (lb - (-shift - (delta : Int)).toNat) la) (lb - (-shift - (delta : Int)).toNat) ar with
        | none => rfl
        | some x => rfl
  · simp only [hdp, if_false]
    by_cases hs : shift > 0
    · simp only [hs, if_true]
      by_cases hsa : shift.toNat > la
      · simp [hsa]
      · simp only [hsa, if_false]
        by_cases hpl : la - shift.toNat > lb
        · simp [hpl]
        · simp [hpl]
    · simp only [hs, if_false]
      by_cases hsb : (-shift).toNat > lb
      · simp [hsb]
      · simp only [hsb, if_false]
        by_cases hpl : lb - (-shift).toNat > la
        · simp [hpl]
        · simp [hpl]

end ObiVerif.PEAlign
