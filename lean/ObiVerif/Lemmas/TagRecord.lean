import ObiVerif.Lemmas.TagSelect
/-!
# Shape of the index recorded by `IndexSequence` (C15): strictly decreasing distances along the lineage, the
distance 0 always recorded; the exact-match table of obitag2
-/
namespace ObiVerif.Tag
open ObiVerif.Tax

/-! ## the recorded keys -/

/-- the recorded distances are strictly decreasing in insertion order (root first): no entry of the Go map is
overwritten, `find?` on the list is the map lookup -/
theorem ixRecord_keys_decreasing : ∀ (as : List Nat) (ds : List (Option Nat)) (old : Nat),
    (ixRecord as ds old).Pairwise (fun e e' => e'.1 < e.1) := by
  intro as
  induction as with
  | nil => intro ds old; simp [ixRecord]
  | cons a as ih =>
    intro ds old
    cases ds with
    | nil => simp [ixRecord]
    | cons d ds =>
      cases d with
      | none => simp only [ixRecord]; exact ih ds old
      | some d =>
        simp only [ixRecord]
        by_cases hlt : d < old
        · simp only [hlt, if_true]
          exact List.pairwise_cons.2 ⟨fun e he => ixRecord_keys_lt as ds d e he, ih ds d⟩
        · simp only [hlt, if_false]
          exact ih ds old

/-- the recorded taxa are read along the lineage, in order (a sub-list of `pseq`) -/
theorem ixRecord_sublist : ∀ (as : List Nat) (ds : List (Option Nat)) (old : Nat),
    ((ixRecord as ds old).map (·.2)).Sublist as := by
  intro as
  induction as with
  | nil => intro ds old; simp [ixRecord]
  | cons a as ih =>
    intro ds old
    cases ds with
    | nil => simp [ixRecord]
    | cons d ds =>
      cases d with
      | none => simp only [ixRecord]; exact (ih ds old).cons a
      | some d =>
        simp only [ixRecord]
        by_cases hlt : d < old
        · simp only [hlt, if_true, List.map_cons]
          exact (ih ds d).cons_cons a
        · simp only [hlt, if_false]
          exact (ih ds old).cons a

/-- a level whose running minimum is 0 makes the key 0 recorded -/
theorem ixRecord_has_zero : ∀ (as : List Nat) (ds : List (Option Nat)) (old : Nat), 0 < old →
    ds.length ≤ as.length → some 0 ∈ ds → ∃ a, (0, a) ∈ ixRecord as ds old := by
  intro as
  induction as with
  | nil =>
    intro ds old _ hl hm
    cases ds with
    | nil => simp at hm
    | cons d ds => simp at hl
  | cons a as ih =>
    intro ds old hold hl hm
    cases ds with
    | nil => simp at hm
    | cons d ds =>
      have hl' : ds.length ≤ as.length := by simpa using hl
      cases d with
      | none =>
        simp only [ixRecord]
        have : some 0 ∈ ds := by simpa using hm
        exact ih ds old hold hl' this
      | some d =>
        simp only [ixRecord]
        by_cases hlt : d < old
        · simp only [hlt, if_true]
          by_cases hd : d = 0
          · subst hd; exact ⟨a, List.mem_cons_self⟩
          · have : some 0 ∈ ds := by
              rcases List.mem_cons.1 hm with h | h
              · cases h; exact absurd rfl hd
              · exact h
            obtain ⟨a', ha'⟩ := ih ds d (by omega) hl' this
            exact ⟨a', List.mem_cons_of_mem _ ha'⟩
        · simp only [hlt, if_false]
          have : some 0 ∈ ds := by
            rcases List.mem_cons.1 hm with h | h
            · cases h; omega
            · exact h
          exact ih ds old hold hl' this

theorem ixOuter_length (thr : Nat → Nat → Nat → Int) (lseq : Nat) (c : Nat → Cand) (anc : Nat → Nat) (ow : List Nat) :
    ∀ (as : List Nat) (st : IxState), (ixOuter thr lseq c anc ow as st).length = as.length := by
  intro as
  induction as with
  | nil => intro st; rfl
  | cons a as ih => intro st; simp [ixOuter, ih]

/-- a reference at distance 0 whose LCA with the indexed sequence is on the lineage brings the running minimum to 0 -/
theorem ixOuter_zero (lseq : Nat) (c : Nat → Cand) (anc : Nat → Nat) (ow : List Nat)
    (hs : SortedByCw c ow) (hq : QGramBound lseq c ow) :
    ∀ (as pre : List Nat) (st : IxState),
      IsMin c anc ow pre st.mini → (st.mini = none → st.wordmin ≤ 0) →
      (∃ j ∈ ow, anc j ∈ as ∧ (c j).dist = 0) →
      some 0 ∈ ixOuter thrNew lseq c anc ow as st := by
  intro as
  induction as with
  | nil => intro pre st _ _ h; obtain ⟨j, _, hj, _⟩ := h; simp at hj
  | cons a as ih =>
    intro pre st hmin hw h
    obtain ⟨r1, r2⟩ := ixInner_spec lseq c anc a ow st hw hs hq
    have hmin' := isMin_step c anc ow pre a st.mini hmin
    rw [← r1] at hmin'
    obtain ⟨j, hj, hin, hd⟩ := h
    unfold ixOuter
    simp only
    by_cases ha : anc j = a
    · -- the level of j: the minimum is 0
      have hseen : anc j ∈ pre ++ [a] := by simp [ha]
      cases hmi : (ixInner thrNew lseq c anc a ow st).mini with
      | none => rw [hmi] at hmin'; exact absurd hseen (hmin' j hj)
      | some d =>
        rw [hmi] at hmin'
        have := hmin'.1 j hj hseen
        have hd0 : d = 0 := by omega
        subst hd0
        exact List.mem_cons_self
    · have hin' : anc j ∈ as := by
        rcases List.mem_cons.1 hin with h | h
        · exact absurd h ha
        · exact h
      exact List.mem_cons_of_mem _ (ih (pre ++ [a]) _ hmin' r2 ⟨j, hj, hin', hd⟩)

/-- **the index always holds the distance 0** when a reference at distance 0 (the indexed sequence itself) has its
LCA on the lineage and the sequence is not empty -/
theorem indexCore_has_zero (lseq : Nat) (c : Nat → Cand) (anc : Nat → Nat) (ow pseq : List Nat)
    (hs : SortedByCw c ow) (hq : QGramBound lseq c ow) (hl : 0 < lseq)
    (h : ∃ j ∈ ow, anc j ∈ pseq ∧ (c j).dist = 0) : ∃ a, idxGet (indexCore lseq c anc ow pseq) 0 = some a := by
  have hz := ixOuter_zero lseq c anc ow hs hq pseq [] { mini := none, wordmin := 0 }
    (by intro j _; simp) (by intro _; exact Int.le_refl 0) h
  obtain ⟨a, ha⟩ := ixRecord_has_zero pseq _ lseq hl (by rw [ixOuter_length]; exact Nat.le_refl _) hz
  exact idxGet_of_mem (e := (0, a)) ha

variable {t : Taxo} {root : Nat} {depth : Nat → Nat} {fuel : Nat}

/-- `indexSequence` in terms of `indexCore`, and the LCA of the indexed taxon with itself is on its lineage -/
theorem indexSequence_has_zero (wf : WF t root depth) (hf : FuelOK t fuel)
    (taxids : List Nat) (htax : ∀ x ∈ taxids, ∃ n, t.node x = some n)
    (seqidx lseq : Nat) (hidx : seqidx < taxids.length) (c : Nat → Cand) (ow : List Nat)
    (hperm : ∀ j, j ∈ ow ↔ j < taxids.length)
    (hs : SortedByCw c ow) (hq : QGramBound lseq c ow) (hself : (c seqidx).dist = 0) (hl : 0 < lseq) :
    ∃ idx a, indexSequence t fuel taxids seqidx lseq c ow = .ok idx ∧ idxGet idx 0 = some a := by
  have hgetD : ∀ j, j < taxids.length → ∃ n, t.node (taxids.getD j 0) = some n := by
    intro j hj
    apply htax
    rw [List.getD_eq_getElem?_getD, List.getElem?_eq_getElem hj]
    simp
  obtain ⟨ns, hns⟩ := hgetD seqidx hidx
  obtain ⟨zs, hz1, _, hz3⟩ := lcaAll_ok wf hf hns taxids htax
  obtain ⟨p, hp1, hp⟩ := path_total wf hf hns
  have hmem : zs.getD seqidx 0 ∈ p.reverse := by
    have h1 := ((lca_eq_ok wf hf hns hns (hz3 seqidx hidx)).2 (zs.getD seqidx 0)).1 (Anc.refl _)
    have := IsPath.mem_of_anc h1.1 hp
    simpa using this
  obtain ⟨a, ha⟩ := indexCore_has_zero lseq c (fun j => zs.getD j 0) ow p.reverse hs hq hl
    ⟨seqidx, (hperm seqidx).2 hidx, hmem, hself⟩
  exact ⟨_, a, by simp only [indexSequence, hz1, hp1], ha⟩

/-- the keys and taxa of the index built by `indexSequence` : strictly decreasing distances, taxa in lineage order
(root side first), each recorded distance below the length of the sequence -/
theorem indexSequence_shape {taxids : List Nat} {b lseq : Nat} {c : Nat → Cand} {ow : List Nat}
    {idx : List (Nat × Nat)} (h : indexSequence t fuel taxids b lseq c ow = .ok idx) :
    idx.Pairwise (fun e e' => e'.1 < e.1) ∧ (∀ e ∈ idx, e.1 < lseq) ∧
    ∃ p, Tax.path t fuel (taxids.getD b 0) = .ok p ∧ (idx.map (·.2)).Sublist p.reverse := by
  unfold indexSequence at h
  simp only at h
  cases h1 : lcaAll t fuel (taxids.getD b 0) taxids with
  | error e => rw [h1] at h; cases h
  | ok zs =>
    rw [h1] at h
    simp only at h
    cases h2 : Tax.path t fuel (taxids.getD b 0) with
    | error e => rw [h2] at h; cases h
    | ok p =>
      rw [h2] at h
      simp only at h
      cases h
      exact ⟨ixRecord_keys_decreasing _ _ _, fun e he => ixRecord_keys_lt _ _ _ e he, p, rfl, ixRecord_sublist _ _ _⟩

/-! ## the exact-match table of obitag2 -/

theorem lcaChain_of_fold : ∀ (ys : List Nat) (x z : Nat), lcaFold t fuel x ys = .ok z → lcaChain t fuel x ys = .ok z := by
  intro ys
  induction ys with
  | nil => intro x z h; exact h
  | cons y ys ih =>
    intro x z h
    unfold lcaFold at h
    unfold lcaChain
    cases hl : Tax.lca t fuel x y with
    | error e => rw [hl] at h; cases h
    | ok u => rw [hl] at h; exact ih u z h

/-- **the exact-match table is the LCA table**: for a query whose bytes are those of at least one reference, the
entry is built without error and its taxon is the one whose ancestors are exactly the common ancestors of the taxa
of ALL the references holding these bytes; `bestmatch` is the first of them, the weight the sum of their counts -/
theorem exactEntry_lca (wf : WF t root depth) (hf : FuelOK t fuel) (same : Nat → Bool) (taxids counts : List Nat)
    (htax : ∀ x ∈ taxids, ∃ n, t.node x = some n) (i0 : Nat) (hi0 : i0 < taxids.length) (hs0 : same i0 = true) :
    ∃ z i w, exactEntry t fuel same taxids counts = some (.ok (z, i, w)) ∧
      i < taxids.length ∧ same i = true ∧ (∀ j, j < i → same j = false) ∧
      ∀ a, Anc t a z ↔ ∀ j, j < taxids.length → same j = true → Anc t a (taxids.getD j 0) := by
  have hgetD : ∀ j, j < taxids.length → ∃ n, t.node (taxids.getD j 0) = some n := by
    intro j hj
    apply htax
    rw [List.getD_eq_getElem?_getD, List.getElem?_eq_getElem hj]
    simp
  have hmemF : ∀ j, j ∈ (List.range taxids.length).filter same ↔ (j < taxids.length ∧ same j = true) := by
    intro j; simp [List.mem_filter]
  unfold exactEntry
  cases hfl : (List.range taxids.length).filter same with
  | nil =>
    have := (hmemF i0).2 ⟨hi0, hs0⟩
    rw [hfl] at this; simp at this
  | cons i is =>
    have hi : i < taxids.length ∧ same i = true := (hmemF i).1 (by rw [hfl]; exact List.mem_cons_self)
    have his : ∀ j ∈ is, j < taxids.length ∧ same j = true :=
      fun j hj => (hmemF j).1 (by rw [hfl]; exact List.mem_cons_of_mem _ hj)
    obtain ⟨ni, hni⟩ := hgetD i hi.1
    obtain ⟨z, nz, hz, _, _, hc⟩ := lcaFold_ok wf hf (is.map fun j => taxids.getD j 0) (taxids.getD i 0) ni hni
      (by intro y hy; simp only [List.mem_map] at hy; obtain ⟨j, hj, rfl⟩ := hy; exact hgetD j (his j hj).1)
    simp only
    rw [lcaChain_of_fold _ _ _ hz]
    refine ⟨z, i, _, rfl, hi.1, hi.2, ?_, ?_⟩
    · -- i is the first
      intro j hj
      have hsorted : ((List.range taxids.length).filter same).Pairwise (· < ·) :=
        List.Pairwise.filter _ List.pairwise_lt_range
      rw [hfl] at hsorted
      have hlt := (List.pairwise_cons.1 hsorted).1
      cases hsj : same j with
      | false => rfl
      | true =>
        have hjm : j ∈ i :: is := by rw [← hfl]; exact (hmemF j).2 ⟨by omega, hsj⟩
        rcases List.mem_cons.1 hjm with e | hjm
        · omega
        · have := hlt j hjm; omega
    · intro a
      rw [hc a]
      constructor
      · rintro ⟨h1, h2⟩ j hj hsj
        have hjm : j ∈ i :: is := by rw [← hfl]; exact (hmemF j).2 ⟨hj, hsj⟩
        rcases List.mem_cons.1 hjm with e | hjm
        · subst e; exact h1
        · exact h2 _ (List.mem_map.2 ⟨j, hjm, rfl⟩)
      · intro h
        refine ⟨h i hi.1 hi.2, ?_⟩
        intro y hy
        obtain ⟨j, hj, rfl⟩ := List.mem_map.1 hy
        exact h j (his j hj).1 (his j hj).2

theorem exactEntry_none (t : Taxo) (fuel : Nat) (same : Nat → Bool) (taxids counts : List Nat) :
    exactEntry t fuel same taxids counts = none ↔ ∀ j, j < taxids.length → same j = false := by
  unfold exactEntry
  cases hfl : (List.range taxids.length).filter same with
  | nil =>
    simp only [true_iff]
    intro j hj
    have := List.filter_eq_nil_iff.1 hfl j (by simpa using hj)
    simpa using this
  | cons i is =>
    simp only [reduceCtorEq, false_iff]
    intro h
    have : i ∈ (List.range taxids.length).filter same := by rw [hfl]; exact List.mem_cons_self
    simp only [List.mem_filter, List.mem_range] at this
    rw [h i this.1] at this
    simp at this

end ObiVerif.Tag
