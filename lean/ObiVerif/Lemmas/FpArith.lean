import ObiVerif.Lemmas.FpBasic
/-!
# 128-bit add64 / sub / mul64 / cmp and 256-bit add / sub / cmp agree with exact arithmetic (core Lean only)

Kept in `Lemmas/` because the proofs of `Uint128.QuoRem` and `Uint256.Div` (`Lemmas/FpDiv.lean`) use them;
`Props/C20.lean` re-exports them as `u128_*_exact` / `u256_*_exact`.
-/
namespace ObiVerif.Fp

/-! ## 128 bits -/

theorem U128.add64_spec (u : U128) (v : Nat) (hu : u.WF) :
    U128.add64 u v = if u.toNat + v < W * W then .ok (U128.ofNat (u.toNat + v)) else .error () := by
  obtain ⟨h1, h0⟩ := hu
  unfold U128.add64 bitsAdd64 U128.toNat U128.ofNat
  simp only [W] at *
  by_cases h : u.w1 * 18446744073709551616 + u.w0 + v < 18446744073709551616 * 18446744073709551616
  · have : ¬ (((u.w1 + 0 + (u.w0 + v + 0) / 18446744073709551616) / 18446744073709551616 != 0) = true) := by
      simp; omega
    rw [if_neg this, if_pos h]; congr 2 <;> omega
  · have : (((u.w1 + 0 + (u.w0 + v + 0) / 18446744073709551616) / 18446744073709551616 != 0) = true) := by
      simp; omega
    rw [if_pos this, if_neg h]

theorem U128.sub_spec (u v : U128) (hu : u.WF) (hv : v.WF) :
    U128.sub u v = if v.toNat ≤ u.toNat then .ok (U128.ofNat (u.toNat - v.toNat)) else .error () := by
  obtain ⟨h1, h0⟩ := hu
  obtain ⟨k1, k0⟩ := hv
  unfold U128.sub bitsSub64 U128.toNat U128.ofNat
  simp only [W] at *
  by_cases a : v.w0 + 0 ≤ u.w0 <;> simp only [a, if_true, if_false]
  · by_cases b : v.w1 + 0 ≤ u.w1 <;> simp only [b, if_true, if_false]
    · have h : v.w1 * 18446744073709551616 + v.w0 ≤ u.w1 * 18446744073709551616 + u.w0 := by omega
      rw [if_pos h]; simp; constructor <;> omega
    · have h : ¬ v.w1 * 18446744073709551616 + v.w0 ≤ u.w1 * 18446744073709551616 + u.w0 := by omega
      rw [if_neg h]; simp
  · by_cases b : v.w1 + 1 ≤ u.w1 <;> simp only [b, if_true, if_false]
    · have h : v.w1 * 18446744073709551616 + v.w0 ≤ u.w1 * 18446744073709551616 + u.w0 := by omega
      rw [if_pos h]; simp; constructor <;> omega
    · have h : ¬ v.w1 * 18446744073709551616 + v.w0 ≤ u.w1 * 18446744073709551616 + u.w0 := by omega
      rw [if_neg h]; simp

theorem U128.mul64_spec (u : U128) (v : Nat) (hu : u.WF) (hv : v < W) :
    U128.mul64 u v = if u.toNat * v < W * W then .ok (U128.ofNat (u.toNat * v)) else .error () := by
  obtain ⟨h1, h0⟩ := hu
  unfold U128.mul64 bitsMul64 bitsAdd64 U128.toNat U128.ofNat
  have b0 := mul_limb_le h0 hv
  have b1 := mul_limb_le h1 hv
  rw [Nat.add_mul, Nat.mul_right_comm]
  generalize u.w0 * v = p0 at *
  generalize u.w1 * v = p1 at *
  simp only [W] at *
  by_cases h : p1 * 18446744073709551616 + p0 < 18446744073709551616 * 18446744073709551616
  · rw [if_pos h, if_neg (by simp; omega)]; congr 2 <;> omega
  · rw [if_neg h, if_pos (by simp; omega)]

theorem U128.cmp_spec (u v : U128) (hu : u.WF) (hv : v.WF) :
    U128.cmp u v = if u.toNat < v.toNat then -1 else if u.toNat = v.toNat then 0 else 1 := by
  obtain ⟨h1, h0⟩ := hu
  obtain ⟨k1, k0⟩ := hv
  unfold U128.cmp U128.toNat
  simp only [W] at *
  repeat' split
  all_goals first | rfl | omega

/-! ## 256 bits -/

theorem U256.add_spec (u v : U256) (hu : u.WF) (hv : v.WF) :
    U256.add u v = if u.toNat + v.toNat < W ^ 4 then .ok (U256.ofNat (u.toNat + v.toNat)) else .error () := by
  obtain ⟨h3, h2, h1, h0⟩ := hu
  obtain ⟨k3, k2, k1, k0⟩ := hv
  unfold U256.add bitsAdd64 U256.toNat U256.ofNat
  simp only [W] at *
  generalize hc0 : (u.w0 + v.w0 + 0) / 18446744073709551616 = c0
  generalize hc1 : (u.w1 + v.w1 + c0) / 18446744073709551616 = c1
  generalize hc2 : (u.w2 + v.w2 + c1) / 18446744073709551616 = c2
  generalize hc3 : (u.w3 + v.w3 + c2) / 18446744073709551616 = c3
  by_cases h : c3 = 0
  · have : ¬ ((c3 != 0) = true) := by simp [h]
    rw [if_neg this, if_pos (by omega)]; congr 2 <;> omega
  · have : ((c3 != 0) = true) := by simp [h]
    rw [if_pos this, if_neg (by omega)]

theorem U256.sub_spec (u v : U256) (hu : u.WF) (hv : v.WF) :
    U256.sub u v = if v.toNat ≤ u.toNat then .ok (U256.ofNat (u.toNat - v.toNat)) else .error () := by
  obtain ⟨h3, h2, h1, h0⟩ := hu
  obtain ⟨k3, k2, k1, k0⟩ := hv
  unfold U256.sub U256.toNat U256.ofNat
  have s0 := bitsSub64_spec h0 k0 (Nat.zero_le 1)
  generalize bitsSub64 u.w0 v.w0 0 = r0 at *
  obtain ⟨d0, b0⟩ := r0
  have s1 := bitsSub64_spec h1 k1 s0.2.1
  simp only [] at s1 ⊢
  generalize bitsSub64 u.w1 v.w1 b0 = r1 at *
  obtain ⟨d1, b1⟩ := r1
  have s2 := bitsSub64_spec h2 k2 s1.2.1
  simp only [] at s2 ⊢
  generalize bitsSub64 u.w2 v.w2 b1 = r2 at *
  obtain ⟨d2, b2⟩ := r2
  have s3 := bitsSub64_spec h3 k3 s2.2.1
  simp only [] at s3 ⊢
  generalize bitsSub64 u.w3 v.w3 b2 = r3 at *
  obtain ⟨d3, b3⟩ := r3
  simp only [W] at *
  by_cases h : b3 = 0
  · have : ¬ ((b3 != 0) = true) := by simp [h]
    rw [if_neg this, if_pos (by omega)]; congr 2 <;> omega
  · have : ((b3 != 0) = true) := by simp [h]
    rw [if_pos this, if_neg (by omega)]

theorem U256.cmp_spec (u v : U256) (hu : u.WF) (hv : v.WF) :
    U256.cmp u v = if u.toNat < v.toNat then -1 else if u.toNat = v.toNat then 0 else 1 := by
  obtain ⟨h3, h2, h1, h0⟩ := hu
  obtain ⟨k3, k2, k1, k0⟩ := hv
  unfold U256.cmp U256.toNat
  simp only [W] at *
  repeat' split
  all_goals first | rfl | omega

end ObiVerif.Fp
