import ObiVerif.Lemmas.FpBasic
/-!
# 256-bit add / sub / cmp agree with exact arithmetic (core Lean only)

Kept in `Lemmas/` because the proof of `Uint256.Div` (`Lemmas/FpDiv.lean`) uses them; `Props/C20.lean`
re-exports them as `u256_add_exact`, `u256_sub_exact`, `u256_cmp_exact`.
-/
namespace ObiVerif.Fp

theorem U256.add_spec (u v : U256) (hu : u.WF) (hv : v.WF) :
    U256.add u v = if u.toNat + v.toNat < W ^ 4 then .ok (U256.ofNat (u.toNat + v.toNat)) else .error () := by
  obtain ⟨h3, h2, h1, h0⟩ := hu
  obtain ⟨k3, k2, k1, k0⟩ := hv
  unfold U256.add bitsAdd64 U256.toNat U256.ofNat
  simp only [W] at *
  generalize hc0 : (u.w0 + v.w0 + 0) / 18446744073709551616 = c0
  generalize hc1 : (u.w1 + v.w1 + c0) / 18446744073709551616 = c1
  generalize hc2 : (u.w2 + v.w2 + c1) / 18446744073709551616 = c2
  generalize hc3 : (u.w3 + v.w3 + c2) / 18446744073709551616 = c3
  by_cases h : c3 = 0
  · have : ¬ ((c3 != 0) = true) := by simp [h]
    rw [if_neg this, if_pos (by omega)]; congr 2 <;> omega
  · have : ((c3 != 0) = true) := by simp [h]
    rw [if_pos this, if_neg (by omega)]

theorem U256.sub_spec (u v : U256) (hu : u.WF) (hv : v.WF) :
    U256.sub u v = if v.toNat ≤ u.toNat then .ok (U256.ofNat (u.toNat - v.toNat)) else .error () := by
  obtain ⟨h3, h2, h1, h0⟩ := hu
  obtain ⟨k3, k2, k1, k0⟩ := hv
  unfold U256.sub U256.toNat U256.ofNat
  have s0 := bitsSub64_spec h0 k0 (Nat.zero_le 1)
  generalize bitsSub64 u.w0 v.w0 0 = r0 at *
  obtain ⟨d0, b0⟩ := r0
  have s1 := bitsSub64_spec h1 k1 s0.2.1
  simp only [] at s1 ⊢
  generalize bitsSub64 u.w1 v.w1 b0 = r1 at *
  obtain ⟨d1, b1⟩ := r1
  have s2 := bitsSub64_spec h2 k2 s1.2.1
  simp only [] at s2 ⊢
  generalize bitsSub64 u.w2 v.w2 b1 = r2 at *
  obtain ⟨d2, b2⟩ := r2
  have s3 := bitsSub64_spec h3 k3 s2.2.1
  simp only [] at s3 ⊢
  generalize bitsSub64 u.w3 v.w3 b2 = r3 at *
  obtain ⟨d3, b3⟩ := r3
  simp only [W] at *
  by_cases h : b3 = 0
  · have : ¬ ((b3 != 0) = true) := by simp [h]
    rw [if_neg this, if_pos (by omega)]; congr 2 <;> omega
  · have : ((b3 != 0) = true) := by simp [h]
    rw [if_pos this, if_neg (by omega)]

theorem U256.cmp_spec (u v : U256) (hu : u.WF) (hv : v.WF) :
    U256.cmp u v = if u.toNat < v.toNat then -1 else if u.toNat = v.toNat then 0 else 1 := by
  obtain ⟨h3, h2, h1, h0⟩ := hu
  obtain ⟨k3, k2, k1, k0⟩ := hv
  unfold U256.cmp U256.toNat
  simp only [W] at *
  repeat' split
  all_goals first | rfl | omega

end ObiVerif.Fp
