import ObiVerif.Lemmas.SeqHeapOps
/-!
# Every operation keeps the heap invariant and changes only its target (C07, heap model)
-/
namespace ObiVerif.SeqHeap
open ObiVerif.SeqOps

theorem view_of_frame0 {h h' : Heap} (f : Frame h h' (fun _ => False)) (n : String) : h'.view n = h.view n := by
  unfold Heap.view
  rw [f.objs]
  cases ho : h.objs n with
  | none => rfl
  | some o =>
    simp only [Option.map_some]
    rw [f.same o.base ⟨n, o, ho, by omega, by omega⟩ (fun x => x),
      f.same (o.base + 1) ⟨n, o, ho, by omega, by omega⟩ (fun x => x),
      f.same (o.base + 2) ⟨n, o, ho, by omega, by omega⟩ (fun x => x)]

/-- unbinding a name keeps the invariant -/
theorem unbind_inv {h : Heap} (hI : Inv h) (a : String) : Inv (h.unbind a) := by
  have hobj : ∀ n o, (h.unbind a).objs n = some o → n ≠ a ∧ h.objs n = some o := by
    intro n o ho
    change (if n = a then none else h.objs n) = some o at ho
    by_cases e : n = a
    · rw [if_pos e] at ho; cases ho
    · rw [if_neg e] at ho; exact ⟨e, ho⟩
  have hfld : ∀ d, Fld (h.unbind a) d → Fld h d := by
    rintro d ⟨n, o, ho, h1, h2⟩
    exact ⟨n, o, (hobj n o ho).2, h1, h2⟩
  have hown : ∀ d, Owner (h.unbind a) d → Owner h d := by
    intro d hd
    rcases hd with hd | hd
    · exact Or.inl hd
    · exact Or.inr (hfld d hd)
  refine ⟨fun c hc hf => hI.poolNotFld c hc (hfld c hf), hI.poolNodup, ?_, ?_, fun c hc => hI.cellLt c (hown c hc),
    hI.cellFresh, fun c s hc hs => hI.bufLt c s (hown c hc) hs, fun c s hc hs => hI.lenLe c s (hfld c hc) hs⟩
  · intro c d s t oc od hs ht heq; exact hI.sep c d s t (hown c oc) (hown d od) hs ht heq
  · intro n m o o' ho ho' hnm; exact hI.disj n m o o' (hobj n o ho).2 (hobj m o' ho').2 hnm

/-- `Recycle()` (as it is now: the three slices move to local variables, which go to the pool) -/
theorem recycleObj_spec {h : Heap} (hI : Inv h) {a : String} {oa : HObj} (ha : h.objs a = some oa) :
    Inv (h.recycleObj a oa.base) ∧ (∀ n, n ≠ a → (h.recycleObj a oa.base).view n = h.view n) ∧
      (h.recycleObj a oa.base).objs a = none := by
  have hF : ∀ i, i < 3 → Fld h (oa.base + i) := fun i hi => fld_of ha i hi
  have f0 : TF h h oa.base := Frame.refl hI _
  have f1 : TF h (h.detachRecycle oa.base) oa.base :=
    TF.step (i := 0) f0 (detachRecycle_frame f0.inv ((f0.fld _).mpr (hF 0 (by omega)))).1 (by omega)
  have f2 : TF h ((h.detachRecycle oa.base).detachRecycle (oa.base + 2)) oa.base :=
    TF.step (i := 2) f1 (detachRecycle_frame f1.inv ((f1.fld _).mpr (hF 2 (by omega)))).1 (by omega)
  have f3 : TF h (((h.detachRecycle oa.base).detachRecycle (oa.base + 2)).detachRecycle (oa.base + 1)) oa.base :=
    TF.step (i := 1) f2 (detachRecycle_frame f2.inv ((f2.fld _).mpr (hF 1 (by omega)))).1 (by omega)
  refine ⟨unbind_inv f3.inv a, ?_, ?_⟩
  · intro n hn
    rw [← view_of_frame hI ha f3 n hn]
    unfold Heap.view Heap.recycleObj Heap.unbind
    show Option.map _ (if n = a then none else _) = _
    rw [if_neg hn]; rfl
  · show (if a = a then none else _) = none
    simp

/-- `Recycle()` as it was before the repair of the race (`Heap.recycleObjOld`) -/
theorem recycleObjOld_spec {h : Heap} (hI : Inv h) {a : String} {oa : HObj} (ha : h.objs a = some oa) :
    Inv (h.recycleObjOld a oa.base) ∧ (∀ n, n ≠ a → (h.recycleObjOld a oa.base).view n = h.view n) ∧
      (h.recycleObjOld a oa.base).objs a = none := by
  let h0 : Heap := { h with objs := fun n => if n = a then none else h.objs n }
  have hobj : ∀ n o, h0.objs n = some o → n ≠ a ∧ h.objs n = some o := by
    intro n o ho
    change (if n = a then none else h.objs n) = some o at ho
    by_cases e : n = a
    · rw [if_pos e] at ho; cases ho
    · rw [if_neg e] at ho; exact ⟨e, ho⟩
  have hfld : ∀ d, Fld h0 d → Fld h d ∧ ¬ (oa.base ≤ d ∧ d < oa.base + 3) := by
    rintro d ⟨n, o, ho, h1, h2⟩
    obtain ⟨hn, ho'⟩ := hobj n o ho
    refine ⟨⟨n, o, ho', h1, h2⟩, ?_⟩
    have := hI.disj n a o oa ho' ha hn
    omega
  have hown : ∀ d, Owner h0 d → Owner h d := by
    intro d hd
    rcases hd with hd | hd
    · exact Or.inl hd
    · exact Or.inr (hfld d hd).1
  have hI0 : Inv h0 := by
    refine ⟨fun c hc hf => hI.poolNotFld c hc (hfld c hf).1, hI.poolNodup, ?_, ?_, fun c hc => hI.cellLt c (hown c hc),
      hI.cellFresh, fun c s hc hs => hI.bufLt c s (hown c hc) hs, fun c s hc hs => hI.lenLe c s (hfld c hc).1 hs⟩
    · intro c d s t oc od hs ht heq; exact hI.sep c d s t (hown c oc) (hown d od) hs ht heq
    · intro n m o o' ho ho' hnm; exact hI.disj n m o o' (hobj n o ho).2 (hobj m o' ho').2 hnm
  have hloose : ∀ i, i < 3 → Loose h0 (oa.base + i) := by
    intro i hi
    have hF : Fld h (oa.base + i) := fld_of ha i hi
    refine ⟨?_, hI.cellLt _ (fld_owner hF), ?_⟩
    · intro ho
      rcases ho with ho | ho
      · exact hI.poolNotFld _ ho hF
      · exact (hfld _ ho).2 ⟨by omega, by omega⟩
    · intro s hs
      refine ⟨hI.bufLt _ s (fld_owner hF) hs, ?_⟩
      intro c' t ho ht heq
      have e := hI.sep c' (oa.base + i) t s (hown c' ho) (fld_owner hF) ht hs heq
      rcases ho with ho | ho
      · exact hI.poolNotFld _ (e ▸ ho) hF
      · exact (hfld _ ho).2 (by omega)
  obtain ⟨f1, l1⟩ := rstep_loose hI0 (hloose 0 (by omega))
  obtain ⟨f2, l2⟩ := rstep_loose f1.inv (l1 (oa.base + 2) (by omega) (hloose 2 (by omega)))
  have l21 := l2 (oa.base + 1) (by omega) (l1 (oa.base + 1) (by omega) (hloose 1 (by omega)))
  obtain ⟨f3, _⟩ := rstep_loose f2.inv l21
  have f : Frame h0 (h.recycleObjOld a oa.base) (fun _ => False) :=
    ((f1.trans f2).trans f3).weaken (by intro d hd; rcases hd with (hd | hd) | hd <;> exact hd)
  refine ⟨f.inv, ?_, ?_⟩
  · intro n hn
    rw [view_of_frame0 f n]
    unfold Heap.view
    show Option.map _ (if n = a then none else h.objs n) = _
    rw [if_neg hn]; rfl
  · rw [f.objs]; show (if a = a then none else h.objs a) = none; simp

theorem sub_prefix_tf {h0 : Heap} {nb : Nat} (f0 : TF h0 h0 nb) (hF : ∀ i, i < 3 → Fld h0 (nb + i))
    (src fr e k0 k1 : Nat) :
    TF h0 (if (h0.storeCopy nb (win (h0.content src) fr e) k0).content (src + 1) ≠ [] then
        (h0.storeCopy nb (win (h0.content src) fr e) k0).storeCopy (nb + 1)
          (win ((h0.storeCopy nb (win (h0.content src) fr e) k0).content (src + 1)) fr e) k1
      else h0.storeCopy nb (win (h0.content src) fr e) k0) nb := by
  have f1 := TF.step (i := 0) f0 (storeCopy_frame f0.inv ((f0.fld _).mpr (hF 0 (by omega))) (win (h0.content src) fr e) k0).1 (by omega)
  split
  · exact TF.step (i := 1) f1 (storeCopy_frame f1.inv ((f1.fld _).mpr (hF 1 (by omega))) _ k1).1 (by omega)
  · exact f1

/-- Every operation, whatever the pool decides, keeps the invariant and leaves every object other than
its target exactly as it was (bases, qualities, features, annotations). -/
theorem step_ok {h h' : Heap} {ch : Nat → Nat} {op : HOp} (hI : Inv h) (hs : step h ch op = .ok h') :
    Inv h' ∧ ∀ n, some n ≠ op.target → h'.view n = h.view n := by
  cases op with
  | new a s q =>
    simp only [step] at hs
    split at hs
    · cases hs
    · rename_i hb
      split at hs
      · cases hs
      · obtain ⟨hI0, hob, hv⟩ := newObj_spec hI hb []
        have hF : ∀ i, i < 3 → Fld (h.newObj a []) (h.ncell + i) := fun i hi => fld_of hob i hi
        have f0 : TF (h.newObj a []) (h.newObj a []) h.ncell := Frame.refl hI0 _
        have f1 := TF.step (i := 0) f0 (storeCopy_frame f0.inv ((f0.fld _).mpr (hF 0 (by omega))) (s.map lower) (ch 0)).1 (by omega)
        have fin : ∀ h2, TF (h.newObj a []) h2 h.ncell → Inv h2 ∧ ∀ n, some n ≠ (HOp.new a s q).target → h2.view n = h.view n := by
          intro h2 f2
          refine ⟨f2.inv, ?_⟩
          intro n hn
          have hna : n ≠ a := fun e => hn (by rw [e]; rfl)
          rw [view_of_frame (oa := ⟨h.ncell, []⟩) hI0 hob f2 n hna, hv n hna]
        split at hs
        · cases hs; exact fin _ (setQualities_tf f1 hF _ _)
        · cases hs; exact fin _ f1
  | copy a b =>
    simp only [step] at hs
    split at hs
    · rename_i oa ha hb
      cases hs
      obtain ⟨hI0, hob, hv⟩ := newObj_spec hI hb oa.ann
      obtain ⟨f, _⟩ := copyObj_spec hI hb oa ch
      refine ⟨f.inv, ?_⟩
      intro n hn
      have hnb : n ≠ b := fun e => hn (by rw [e]; rfl)
      rw [view_of_frame (oa := ⟨h.ncell, oa.ann⟩) hI0 hob f n hnb, hv n hnb]
    · cases hs
  | rc a b =>
    simp only [step] at hs
    split at hs
    · rename_i oa ha hb
      cases hs
      obtain ⟨hI0, hob, hv⟩ := newObj_spec hI hb oa.ann
      obtain ⟨f, hF⟩ := copyObj_spec hI hb oa ch
      have f2 := rcInPlace_tf f hF
      refine ⟨f2.inv, ?_⟩
      intro n hn
      have hnb : n ≠ b := fun e => hn (by rw [e]; rfl)
      rw [view_of_frame (oa := ⟨h.ncell, oa.ann⟩) hI0 hob f2 n hnb, hv n hnb]
    · cases hs
  | rci a =>
    simp only [step] at hs
    split at hs
    · rename_i oa ha
      cases hs
      have f2 := rcInPlace_tf (Frame.refl hI _ : TF h h oa.base) (fun i hi => fld_of ha i hi)
      exact ⟨f2.inv, fun n hn => view_of_frame hI ha f2 n (fun e => hn (by rw [e]; rfl))⟩
    · cases hs
  | sub a b f t c =>
    simp only [step] at hs
    split at hs
    · rename_i oa ha hb
      split at hs
      · cases hs
      · cases hs; exact ⟨hI, fun _ _ => rfl⟩
      · rename_i fr to hw
        obtain ⟨hI0, hob, hv⟩ := newObj_spec hI hb oa.ann
        have hF : ∀ i, i < 3 → Fld (h.newObj b oa.ann) (h.ncell + i) := fun i hi => fld_of hob i hi
        have fin : ∀ h2, TF (h.newObj b oa.ann) h2 h.ncell → Inv h2 ∧ ∀ n, some n ≠ (HOp.sub a b f t c).target → h2.view n = h.view n := by
          intro h2 f2
          refine ⟨f2.inv, ?_⟩
          intro n hn
          have hnb : n ≠ b := fun e => hn (by rw [e]; rfl)
          rw [view_of_frame (oa := ⟨h.ncell, oa.ann⟩) hI0 hob f2 n hnb, hv n hnb]
        have opt : ∀ (hx : Heap) (p : Prop) [Decidable p] (g : Heap), TF (h.newObj b oa.ann) hx h.ncell →
            (TF (h.newObj b oa.ann) hx h.ncell → TF (h.newObj b oa.ann) g h.ncell) →
            TF (h.newObj b oa.ann) (if p then g else hx) h.ncell := by
          intro hx p _ g fx fg
          split
          · exact fg fx
          · exact fx
        have f0 : TF (h.newObj b oa.ann) (h.newObj b oa.ann) h.ncell := Frame.refl hI0 _
        have f2 := fun e => sub_prefix_tf f0 hF oa.base fr e (ch 0) (ch 1)
        split at hs
        · cases hs; exact fin _ (f2 _)
        · cases hs
          apply fin
          have fe := f2 (h.content oa.base).length
          refine opt _ _ _ (TF.step (i := 0) fe (appendCell_frame fe.inv ((fe.fld _).mpr (hF 0 (by omega))) _ (ch 8)).1 (by omega)) ?_
          exact (fun fx => TF.step (i := 1) fx (appendCell_frame fx.inv ((fx.fld _).mpr (hF 1 (by omega))) _ (ch 9)).1 (by omega))
    · cases hs
  | set a p v =>
    simp only [step] at hs
    split at hs
    · rename_i oa ha
      cases hs
      have g := (mapContent_frame hI (fld_of ha 0 (by omega)) (fun l => if p < l.length then l.set p v else l)
        (by intro l; split <;> simp)).1
      have f2 : TF h _ oa.base := TF.step (i := 0) (Frame.refl hI _) g (by omega)
      exact ⟨f2.inv, fun n hn => view_of_frame hI ha f2 n (fun e => hn (by rw [e]; rfl))⟩
    · cases hs
  | recycle a =>
    simp only [step] at hs
    split at hs
    · rename_i oa ha
      cases hs
      obtain ⟨i1, i2, _⟩ := recycleObj_spec hI ha
      exact ⟨i1, fun n hn => i2 n (fun e => hn (by rw [e]; rfl))⟩
    · cases hs
  | mapset a key k v =>
    simp only [step] at hs
    split at hs
    · rename_i oa ha
      cases hs
      have hobj : ∀ n o, (if n = a then some (⟨oa.base, annSet oa.ann key k v⟩ : HObj) else h.objs n) = some o →
          ∃ o', h.objs n = some o' ∧ o'.base = o.base := by
        intro n o ho
        by_cases e : n = a
        · rw [if_pos e] at ho; cases ho; exact ⟨oa, e ▸ ha, rfl⟩
        · rw [if_neg e] at ho; exact ⟨o, ho, rfl⟩
      have hfld : ∀ d, Fld { h with objs := fun n => if n = a then some ⟨oa.base, annSet oa.ann key k v⟩ else h.objs n } d → Fld h d := by
        rintro d ⟨n, o, ho, h1, h2⟩
        obtain ⟨o', ho', e⟩ := hobj n o ho
        exact ⟨n, o', ho', by omega, by omega⟩
      have hown : ∀ d, Owner { h with objs := fun n => if n = a then some ⟨oa.base, annSet oa.ann key k v⟩ else h.objs n } d → Owner h d := by
        intro d hd
        rcases hd with hd | hd
        · exact Or.inl hd
        · exact Or.inr (hfld d hd)
      refine ⟨⟨fun c hc hf => hI.poolNotFld c hc (hfld c hf), hI.poolNodup, ?_, ?_, fun c hc => hI.cellLt c (hown c hc),
        hI.cellFresh, fun c s hc hs => hI.bufLt c s (hown c hc) hs, fun c s hc hs => hI.lenLe c s (hfld c hc) hs⟩, ?_⟩
      · intro c d s t oc od hs ht heq; exact hI.sep c d s t (hown c oc) (hown d od) hs ht heq
      · intro n m o o' ho ho' hnm
        obtain ⟨p1, hp1, e1⟩ := hobj n o ho
        obtain ⟨p2, hp2, e2⟩ := hobj m o' ho'
        have := hI.disj n m p1 p2 hp1 hp2 hnm
        omega
      · intro n hn
        have hna : n ≠ a := fun e => hn (by rw [e]; rfl)
        unfold Heap.view
        show Option.map _ (if n = a then _ else h.objs n) = _
        rw [if_neg hna]; rfl
    · cases hs
  | setqual a q =>
    simp only [step] at hs
    split at hs
    · rename_i oa ha
      split at hs
      · cases hs
      · cases hs
        have f2 := setQualities_tf (Frame.refl hI _ : TF h h oa.base) (fun i hi => fld_of ha i hi) q (ch 0)
        exact ⟨f2.inv, fun n hn => view_of_frame hI ha f2 n (fun e => hn (by rw [e]; rfl))⟩
    · cases hs
  | setfeat a x g =>
    simp only [step] at hs
    split at hs
    · rename_i oa ha
      cases hs
      have f2 := setFeatures_tf (Frame.refl hI _ : TF h h oa.base) (fun i hi => fld_of ha i hi) x g
      exact ⟨f2.inv, fun n hn => view_of_frame hI ha f2 n (fun e => hn (by rw [e]; rfl))⟩
    · cases hs
  | scratch n fill =>
    simp only [step] at hs
    cases hs
    have f := scratch_frame hI n fill (ch 0)
    exact ⟨f.inv, fun m _ => view_of_frame0 f m⟩

end ObiVerif.SeqHeap
