import ObiVerif.Model.Summary
import ObiVerif.Lemmas.Command
/-! # obisummary field by field: `Update` adds the record's contribution, `Add` adds the contributions of a share (C05 glue pass) -/
set_option Elab.async false
namespace ObiVerif.Summary
open ObiVerif.Command

theorem mergeCounters_nil (a : Counters) : mergeCounters a [] = a := rfl

theorem mergeCounters_single (a : Counters) (k n : Nat) : mergeCounters a [(k, n)] = addKey k n a := rfl

theorem mergeCounters_nil_mid (a : Counters) (l : List (Nat × Nat)) :
    mergeCounters a (mergeCounters [] l) = mergeCounters a l := by
  rw [mergeCounters_assoc]; rfl

theorem foldl_cond_addKey (p : Nat × Nat → Bool) (l : List (Nat × Nat)) (a : Counters) :
    l.foldl (fun m kv => if p kv then addKey kv.1 1 m else m) a
      = mergeCounters a ((l.filter p).map fun kv => (kv.1, 1)) := by
  induction l generalizing a with
  | nil => rfl
  | cons x t ih =>
    simp only [List.foldl_cons, List.filter_cons]
    cases h : p x
    · simp only [Bool.false_eq_true, if_false]; exact ih a
    · simp only [if_true, List.map_cons]; rw [ih]; rfl

theorem countUpdate_eq (m : Counters) (l : List (Nat × Nat)) :
    countUpdate m l = mergeCounters m (l.map fun kv => (kv.1, 1)) := by
  unfold countUpdate
  induction l generalizing m with
  | nil => rfl
  | cons x t ih => simp only [List.foldl_cons, List.map_cons]; rw [ih]; rfl

theorem plusOnes_eq (m : Counters) (keys : List Nat) : plusOnes m keys = mergeCounters m (ones keys) := by
  unfold plusOnes ones
  induction keys generalizing m with
  | nil => rfl
  | cons x t ih => simp only [List.foldl_cons, List.map_cons]; rw [ih]; rfl

/-- `Update` adds exactly the contribution of the record, to every field -/
theorem update_eq (d : DataSummary) (s : SRec) : update d s = plusRecs d [s] := by
  obtain ⟨count, len, merged, status, sample, hs, hw, sc, mp, vc⟩ := s
  cases merged <;> cases sample <;> cases hs <;> cases hw <;>
    simp only [update, plusRecs, itSamples, itVariants, itSingletons, itBad, foldl_cond_addKey, countUpdate_eq,
      plusOnes_eq, b2n] <;>
    simp [itSamples, itVariants, itSingletons, itBad, mergeCounters_nil, mergeCounters_single] <;>
    (split <;> simp [mergeCounters_nil, mergeCounters_single])

theorem plusRecs_nil (d : DataSummary) : plusRecs d [] = d := by
  cases d; simp [plusRecs, mergeCounters_nil]

theorem plusRecs_append (d : DataSummary) (l m : List SRec) :
    plusRecs (plusRecs d l) m = plusRecs d (l ++ m) := by
  simp [plusRecs, List.map_append, List.sum_append, Nat.add_assoc, List.flatMap_append, mergeCounters_append]

theorem foldl_update (l : List SRec) (d : DataSummary) : l.foldl update d = plusRecs d l := by
  induction l generalizing d with
  | nil => exact (plusRecs_nil d).symm
  | cons s t ih => rw [List.foldl_cons, ih, update_eq, plusRecs_append]; rfl

theorem worker_fold (share : List (List SRec)) (d : DataSummary) :
    share.foldl (fun d batch => batch.foldl update d) d = plusRecs d share.flatten := by
  induction share generalizing d with
  | nil => exact (plusRecs_nil d).symm
  | cons b t ih => rw [List.foldl_cons, ih, foldl_update, plusRecs_append, List.flatten_cons]

theorem workerSummary_eq (share : List (List SRec)) : workerSummary share = plusRecs empty share.flatten :=
  worker_fold share empty

/-- `Add` of a summary accumulated from scratch = adding the contributions of its records: true because EVERY field of
`Add` adds the same field of its argument -/
theorem add_plusRecs (a : DataSummary) (l : List SRec) : add a (plusRecs empty l) = plusRecs a l := by
  simp [add, plusRecs, empty, mergeCounters_nil_mid]

theorem merge_fold (ws : List (List (List SRec))) (d : DataSummary) (l : List SRec) :
    (ws.map workerSummary).foldl add (plusRecs d l) = plusRecs d (l ++ ws.flatten.flatten) := by
  induction ws generalizing l with
  | nil => simp
  | cons w t ih =>
    rw [List.map_cons, List.foldl_cons, workerSummary_eq, add_plusRecs, plusRecs_append, ih]
    simp [List.append_assoc]

theorem sum_perm {a b : List Nat} (h : a.Perm b) : a.sum = b.sum := by
  induction h with
  | nil => rfl
  | cons x _ ih => simp [ih]
  | swap x y l => simp only [List.sum_cons]; omega
  | trans _ _ ih1 ih2 => exact ih1.trans ih2

theorem plusRecs_perm (d : DataSummary) {l m : List SRec} (h : l.Perm m) : plusRecs d l = plusRecs d m := by
  simp only [plusRecs]
  rw [sum_perm (h.map (·.count)), sum_perm (h.map (·.len)), sum_perm (h.map fun s => b2n s.merged.isSome),
    sum_perm (h.map fun s => b2n s.hasStatus), sum_perm (h.map fun s => b2n s.hasWeight), h.length_eq,
    mergeCounters_perm d.tags (h.flatMap_right fun s => ones s.scalars),
    mergeCounters_perm d.map_tags (h.flatMap_right fun s => ones s.maps),
    mergeCounters_perm d.vector_tags (h.flatMap_right fun s => ones s.vectors),
    mergeCounters_perm d.samples (h.flatMap_right itSamples),
    mergeCounters_perm d.sample_variants (h.flatMap_right itVariants),
    mergeCounters_perm d.sample_singletons (h.flatMap_right itSingletons),
    mergeCounters_perm d.sample_obiclean_bad (h.flatMap_right itBad)]

end ObiVerif.Summary
