import ObiVerif.Model.UniqGlue
import ObiVerif.Lemmas.Uniq
import ObiVerif.Lemmas.UniqIdem
set_option Elab.async false
/-!
# Lemmas on the merge kernel with descriptors (`Model/UniqGlue.lean`) and on `OptionStatOn`

`contribD na d r v` is what record `r` contributes to the weight of value `v` in `merged_<d.name>`: the weight its
own `merged_<d.name>` map gives to `v` when it carries one, otherwise `d.weight r` if its value of attribute `d.key`
(or `na`) is `v`, 0 if not.  The proofs follow `Lemmas/UniqMerge.lean` (key `k` ↦ descriptor `d`).
-/
namespace ObiVerif.Uniq

/-! ## `statsOnD`, `contribD` -/

/-- the contribution of record `r` to the weight of value `v` in `merged_<d.name>` -/
def contribD (na : String) (d : Desc) (r : Rec) (v : String) : Nat := weight (statsOnD na d r).2 v

theorem contribD_some {na : String} {d : Desc} {r : Rec} {m : Stats} (h : r.merged.lookup d.name = some m)
    (v : String) : contribD na d r v = weight m v := by
  simp [contribD, statsOnD, h]

theorem contribD_none {na : String} {d : Desc} {r : Rec} (h : r.merged.lookup d.name = none) (v : String) :
    contribD na d r v = if r.value d.key na = v then d.weight r else 0 := by
  simp [contribD, statsOnD, h, addW, weight]

/-- sum of the contributions of a list of records -/
def contribSumD (na : String) (d : Desc) (l : List Rec) (v : String) : Nat :=
  (l.map fun r => contribD na d r v).sum

theorem contribSumD_append (na : String) (d : Desc) (a b : List Rec) (v : String) :
    contribSumD na d (a ++ b) v = contribSumD na d a v + contribSumD na d b v := by
  simp [contribSumD]

theorem contribSumD_cons (na : String) (d : Desc) (a : Rec) (b : List Rec) (v : String) :
    contribSumD na d (a :: b) v = contribD na d a v + contribSumD na d b v := by
  simp [contribSumD]

theorem contribSumD_perm (na : String) (d : Desc) {a b : List Rec} (h : a.Perm b) (v : String) :
    contribSumD na d a v = contribSumD na d b v :=
  (h.map fun r => contribD na d r v).sum_nat

/-- a `StatsOnDescriptions` map filled by `OptionStatOn`: distinct keys, every descriptor under its `Name` -/
def DescsOK (descs : List (String × Desc)) : Prop :=
  (descs.map (·.1)).Nodup ∧ ∀ e ∈ descs, e.1 = e.2.name

/-- `desc.Weight` reads the annotations and `count` only -/
theorem weight_congr (d : Desc) {r r' : Rec} (h2 : r'.attrs = r.attrs) (h3 : r'.cnt = r.cnt) :
    d.weight r' = d.weight r := by
  unfold Desc.weight Rec.count
  rw [h2, h3]

/-- the record has a `count` annotation if the weight of `d` is read from it (`<key>:count`) -/
def WOK (d : Desc) (r : Rec) : Prop := d.wattr = some "count" → r.cnt.isSome

theorem WOK_of_cnt (d : Desc) {r : Rec} (h : r.cnt.isSome) : WOK d r := fun _ => h

/-- `SetCount(Count())` of the singleton branch does not change the weight (counts ≥ 1, `WOK`) -/
theorem weight_setCount (d : Desc) (r : Rec) (hc : 1 ≤ r.count) (hw : WOK d r) :
    d.weight { r with cnt := some (setCount r.count) } = d.weight r := by
  have hs : setCount r.count = r.count := by unfold setCount; split <;> omega
  unfold Desc.weight
  cases hd : d.wattr with
  | none => simpa [Rec.count] using hs
  | some w =>
    by_cases hwc : w = "count"
    · subst hwc
      have := hw hd
      obtain ⟨n, hn⟩ := Option.isSome_iff_exists.mp this
      simpa [Rec.count, hn] using hs
    · simp [hwc]

theorem statsOnD_frame (na : String) (d : Desc) (r : Rec) :
    (statsOnD na d r).1.attrs = r.attrs ∧ (statsOnD na d r).1.cnt = r.cnt ∧
    (statsOnD na d r).1.seq = r.seq ∧ (statsOnD na d r).1.id = r.id := by
  unfold statsOnD; split <;> simp

theorem statsOnD_lookup (na : String) (d : Desc) (r : Rec) :
    (statsOnD na d r).1.merged.lookup d.name = some (statsOnD na d r).2 := by
  unfold statsOnD; split
  · next m h => simpa using h
  · simp [lookup_setKey]

theorem statsOnD_lookup_ne (na : String) (d : Desc) (r : Rec) {k' : String} (h : d.name ≠ k') :
    (statsOnD na d r).1.merged.lookup k' = r.merged.lookup k' := by
  unfold statsOnD; split
  · rfl
  · simp [lookup_setKey, h]

theorem statsOnD_congr (na : String) (d : Desc) {r r' : Rec}
    (h1 : r'.merged.lookup d.name = r.merged.lookup d.name)
    (h2 : r'.attrs = r.attrs) (h3 : d.weight r' = d.weight r) : (statsOnD na d r').2 = (statsOnD na d r).2 := by
  unfold statsOnD
  rw [h1]
  split
  · rfl
  · simp [Rec.value, h2, h3]

theorem contribD_congr (na : String) (d : Desc) {r r' : Rec}
    (h1 : r'.merged.lookup d.name = r.merged.lookup d.name)
    (h2 : r'.attrs = r.attrs) (h3 : d.weight r' = d.weight r) (v : String) :
    contribD na d r' v = contribD na d r v := by
  simp [contribD, statsOnD_congr na d h1 h2 h3]

/-! ## `mergeKeyD` -/

theorem mergeKeyD_frame (na : String) (tm r : Rec) (e : String × Desc) :
    (mergeKeyD na tm r e).attrs = r.attrs ∧ (mergeKeyD na tm r e).cnt = r.cnt ∧
    (mergeKeyD na tm r e).seq = r.seq ∧ (mergeKeyD na tm r e).id = r.id := by
  have h := statsOnD_frame na e.2 r
  unfold mergeKeyD statsPlusOneD
  split <;> simp [h]

theorem mergeKeyD_lookup (na : String) (tm r : Rec) (e : String × Desc) (he : e.1 = e.2.name) :
    ∃ m, (mergeKeyD na tm r e).merged.lookup e.2.name = some m ∧
      ∀ v, weight m v = contribD na e.2 r v + contribD na e.2 tm v := by
  unfold mergeKeyD
  split
  · next h =>
    refine ⟨mergeStats (statsOnD na e.2 r).2 (statsOnD na e.2 tm).2, by simp [lookup_setKey, he], fun v => ?_⟩
    simp [weight_mergeStats, contribD]
  · next h =>
    rw [he] at h
    have hn : tm.merged.lookup e.2.name = none := lookup_none_of_not_hasStats h
    refine ⟨addW (statsOnD na e.2 r).2 (tm.value e.2.key na) (e.2.weight tm),
      by simp [statsPlusOneD, lookup_setKey], fun v => ?_⟩
    rw [weight_addW, contribD_none hn]; rfl

theorem mergeKeyD_lookup_ne (na : String) (tm r : Rec) (e : String × Desc) (he : e.1 = e.2.name) {k' : String}
    (h : e.2.name ≠ k') : (mergeKeyD na tm r e).merged.lookup k' = r.merged.lookup k' := by
  unfold mergeKeyD statsPlusOneD
  split <;> simp [lookup_setKey, he, h, statsOnD_lookup_ne na e.2 r h]

theorem DescsOK.tail {e0 : String × Desc} {es : List (String × Desc)} (h : DescsOK (e0 :: es)) :
    DescsOK es ∧ e0.1 = e0.2.name ∧ e0.2.name ∉ es.map (·.1) ∧ ∀ e ∈ es, e0.2.name ≠ e.2.name := by
  obtain ⟨hnd, hk⟩ := h
  have hnd' := List.nodup_cons.mp (show (e0.1 :: es.map (·.1)).Nodup from hnd)
  have h0 := hk e0 (by simp)
  refine ⟨⟨hnd'.2, fun e he => hk e (List.mem_cons_of_mem _ he)⟩, h0, h0 ▸ hnd'.1, ?_⟩
  intro e he hne
  apply hnd'.1
  rw [h0, hne, ← hk e (List.mem_cons_of_mem _ he)]
  exact List.mem_map.mpr ⟨e, he, rfl⟩

/-- the loop over the descriptors in `BioSequence.Merge` -/
theorem foldKeysD (na : String) (tm : Rec) (descs : List (String × Desc)) (hok : DescsOK descs) (r : Rec) :
    let r1 := descs.foldl (mergeKeyD na tm) r
    (r1.attrs = r.attrs ∧ r1.cnt = r.cnt ∧ r1.seq = r.seq ∧ r1.id = r.id) ∧
    (∀ e ∈ descs, ∃ m, r1.merged.lookup e.2.name = some m ∧
        ∀ v, weight m v = contribD na e.2 r v + contribD na e.2 tm v) ∧
    (∀ k, k ∉ descs.map (·.1) → r1.merged.lookup k = r.merged.lookup k) := by
  induction descs generalizing r with
  | nil => simp
  | cons e0 es ih =>
    obtain ⟨hok', h0, hnot, hne⟩ := hok.tail
    obtain ⟨⟨a1, a2, a3, a4⟩, b, c⟩ := ih hok' (mergeKeyD na tm r e0)
    obtain ⟨f1, f2, f3, f4⟩ := mergeKeyD_frame na tm r e0
    simp only [List.foldl_cons]
    refine ⟨⟨a1.trans f1, a2.trans f2, a3.trans f3, a4.trans f4⟩, ?_, ?_⟩
    · intro e he
      rcases List.mem_cons.mp he with rfl | he
      · obtain ⟨m, hm, hw⟩ := mergeKeyD_lookup na tm r e h0
        exact ⟨m, (c _ hnot).trans hm, hw⟩
      · obtain ⟨m, hm, hw⟩ := b e he
        refine ⟨m, hm, fun v => ?_⟩
        rw [hw v, contribD_congr na e.2 (mergeKeyD_lookup_ne na tm r e0 h0 (hne e he)) f1
          (weight_congr e.2 f1 f2)]
    · intro k hk
      have hk' : k ≠ e0.1 ∧ k ∉ es.map (·.1) := by simpa [List.mem_cons, not_or] using hk
      rw [c k hk'.2]
      exact mergeKeyD_lookup_ne na tm r e0 h0 (fun e => hk'.1 (h0 ▸ e.symm))

/-! ## `mergeIntoD` -/

theorem mergeIntoD_spec (na : String) (descs : List (String × Desc)) (hok : DescsOK descs) (r tm : Rec) :
    let out := mergeIntoD na descs r tm
    out.seq = r.seq ∧ out.id = r.id ∧ out.count = setCount (r.count + tm.count) ∧
    out.attrs = r.attrs.filter (fun kv => tm.attrs.lookup kv.1 == some kv.2) ∧
    (∀ e ∈ descs, ∃ m, out.merged.lookup e.2.name = some m ∧
        ∀ v, weight m v = contribD na e.2 r v + contribD na e.2 tm v) ∧
    (∀ k, k ∉ descs.map (·.1) → out.merged.lookup k = r.merged.lookup k) ∧
    out.cnt.isSome := by
  obtain ⟨⟨a1, _, a3, a4⟩, b, c⟩ := foldKeysD na tm descs hok r
  simp only [mergeIntoD]
  exact ⟨a3, a4, by simp [Rec.count], by rw [a1], b, c, rfl⟩

theorem foldMergeD_spec (na : String) (descs : List (String × Desc)) (hok : DescsOK descs) (rs : List Rec)
    (r : Rec) (hc : 1 ≤ r.count) :
    let out := rs.foldl (mergeIntoD na descs) r
    out.seq = r.seq ∧ out.id = r.id ∧ out.count = r.count + total rs ∧
    out.attrs = r.attrs.filter (fun kv => rs.all fun t => t.attrs.lookup kv.1 == some kv.2) ∧
    (∀ e ∈ descs, ∀ v, contribD na e.2 out v = contribD na e.2 r v + contribSumD na e.2 rs v) ∧
    (∀ e ∈ descs, rs ≠ [] → (out.merged.lookup e.2.name).isSome) ∧
    (∀ k, k ∉ descs.map (·.1) → out.merged.lookup k = r.merged.lookup k) ∧
    (rs ≠ [] → out.cnt.isSome) := by
  induction rs generalizing r with
  | nil => simp [total, contribSumD, filter_const_true]
  | cons t ts ih =>
    obtain ⟨s1, s2, s3, s4, s5, s6, s7⟩ := mergeIntoD_spec na descs hok r t
    have hc' : 1 ≤ (mergeIntoD na descs r t).count := by
      rw [s3, setCount_pos (by omega)]; omega
    obtain ⟨i1, i2, i3, i4, i5, i6, i7, i8⟩ := ih (mergeIntoD na descs r t) hc'
    simp only [List.foldl_cons]
    refine ⟨i1.trans s1, i2.trans s2, ?_, ?_, ?_, ?_, ?_, ?_⟩
    · rw [i3, s3, setCount_pos (by omega)]; simp [total]; omega
    · rw [i4, s4, List.filter_filter]
      apply List.filter_congr
      intro kv _
      simp only [List.all_cons, Bool.and_comm]
    · intro e he v
      obtain ⟨m, hm, hw⟩ := s5 e he
      rw [i5 e he v, contribD_some hm, hw v]
      simp [contribSumD]; omega
    · intro e he _
      by_cases hts : ts = []
      · subst hts
        obtain ⟨m, hm, _⟩ := s5 e he
        simp [hm]
      · exact i6 e he hts
    · intro k hk
      rw [i7 k hk, s6 k hk]
    · intro _
      by_cases hts : ts = []
      · subst hts; exact s7
      · exact i8 hts

/-! ## `mergeClassD` -/

theorem foldStatsOnD (na : String) (descs : List (String × Desc)) (hok : DescsOK descs) (r : Rec) :
    let r1 := descs.foldl (fun r e => (statsOnD na e.2 r).1) r
    (r1.attrs = r.attrs ∧ r1.cnt = r.cnt ∧ r1.seq = r.seq ∧ r1.id = r.id) ∧
    (∀ e ∈ descs, ∀ v, contribD na e.2 r1 v = contribD na e.2 r v) ∧
    (∀ e ∈ descs, (r1.merged.lookup e.2.name).isSome) ∧
    (∀ k, k ∉ descs.map (·.1) → r1.merged.lookup k = r.merged.lookup k) := by
  induction descs generalizing r with
  | nil => simp
  | cons e0 es ih =>
    obtain ⟨hok', h0, hnot, hne⟩ := hok.tail
    obtain ⟨⟨a1, a2, a3, a4⟩, b, c, d⟩ := ih hok' (statsOnD na e0.2 r).1
    obtain ⟨f1, f2, f3, f4⟩ := statsOnD_frame na e0.2 r
    simp only [List.foldl_cons]
    refine ⟨⟨a1.trans f1, a2.trans f2, a3.trans f3, a4.trans f4⟩, ?_, ?_, ?_⟩
    · intro e he v
      rcases List.mem_cons.mp he with rfl | he
      · rw [contribD_congr na e.2 (d _ hnot) a1 (weight_congr e.2 a1 a2),
          contribD_some (statsOnD_lookup na e.2 r)]; rfl
      · rw [b e he v]
        exact contribD_congr na e.2 (statsOnD_lookup_ne na e0.2 r (hne e he)) f1 (weight_congr e.2 f1 f2) v
    · intro e he
      rcases List.mem_cons.mp he with rfl | he
      · rw [d _ hnot, statsOnD_lookup]; rfl
      · exact c e he
    · intro k hk
      have hk' : k ≠ e0.1 ∧ k ∉ es.map (·.1) := by simpa [List.mem_cons, not_or] using hk
      rw [d k hk'.2]
      exact statsOnD_lookup_ne na e0.2 r (fun e => hk'.1 (h0 ▸ e.symm))

/-- what `BioSequenceSlice.Merge` with descriptors makes of a class `r :: rs` (any size ≥ 1) -/
theorem mergeClassD_spec' (na : String) (descs : List (String × Desc)) (hok : DescsOK descs) (r : Rec)
    (rs : List Rec) (hc : 1 ≤ r.count) (hw : ∀ e ∈ descs, WOK e.2 r) :
    ∃ out, mergeClassD na descs (r :: rs) = some out ∧
      out.seq = r.seq ∧ out.id = r.id ∧ out.count = total (r :: rs) ∧
      out.attrs = r.attrs.filter (fun kv => rs.all fun t => t.attrs.lookup kv.1 == some kv.2) ∧
      (∀ e ∈ descs, ∃ m, out.merged.lookup e.2.name = some m ∧
        ∀ v, weight m v = contribSumD na e.2 (r :: rs) v) ∧
      (∀ k, k ∉ descs.map (·.1) → out.merged.lookup k = r.merged.lookup k) ∧
      out.cnt.isSome := by
  cases rs with
  | nil =>
    refine ⟨_, rfl, ?_⟩
    obtain ⟨⟨a1, a2, a3, a4⟩, b, c, d⟩ :=
      foldStatsOnD na descs hok { r with cnt := some (setCount r.count) }
    refine ⟨a3, a4, ?_, ?_, ?_, d, ?_⟩
    · rw [count_of_cnt a2]
      show setCount r.count = total [r]
      rw [setCount_pos hc]; simp [total]
    · rw [a1]; simp [filter_const_true]
    · intro e he
      obtain ⟨m, hm⟩ := Option.isSome_iff_exists.mp (c e he)
      refine ⟨m, hm, fun v => ?_⟩
      have e' : contribD na e.2 { r with cnt := some (setCount r.count) } v = contribD na e.2 r v :=
        contribD_congr na e.2 (r := r) (r' := { r with cnt := some (setCount r.count) }) rfl rfl
          (weight_setCount e.2 r hc (hw e he)) v
      rw [← contribD_some (na := na) hm v, b e he v, e']; simp [contribSumD]
    · rw [a2]; rfl
  | cons t ts =>
    refine ⟨_, rfl, ?_⟩
    obtain ⟨i1, i2, i3, i4, i5, i6, i7, i8⟩ := foldMergeD_spec na descs hok (t :: ts) r hc
    refine ⟨i1, i2, ?_, i4, ?_, i7, i8 (by simp)⟩
    · rw [i3]; simp [total]
    · intro e he
      obtain ⟨m, hm⟩ := Option.isSome_iff_exists.mp (i6 e he (by simp))
      refine ⟨m, hm, fun v => ?_⟩
      rw [← contribD_some (na := na) hm v, i5 e he v]
      simp [contribSumD]

theorem mergeClassD_spec (na : String) (descs : List (String × Desc)) (hok : DescsOK descs) (r : Rec)
    (rs : List Rec) (hc : 1 ≤ r.count) (hw : ∀ e ∈ descs, WOK e.2 r) :
    ∃ out, mergeClassD na descs (r :: rs) = some out ∧
      out.seq = r.seq ∧ out.id = r.id ∧ out.count = total (r :: rs) ∧
      out.attrs = r.attrs.filter (fun kv => rs.all fun t => t.attrs.lookup kv.1 == some kv.2) ∧
      (∀ e ∈ descs, ∃ m, out.merged.lookup e.2.name = some m ∧
        ∀ v, weight m v = contribSumD na e.2 (r :: rs) v) ∧
      (∀ k, k ∉ descs.map (·.1) → out.merged.lookup k = r.merged.lookup k) := by
  obtain ⟨out, h1, h2, h3, h4, h5, h6, h7, _⟩ := mergeClassD_spec' na descs hok r rs hc hw
  exact ⟨out, h1, h2, h3, h4, h5, h6, h7⟩

/-! ## plain descriptors: `Model/Uniq.lean` is the special case -/

/-- the descriptors of plain keys (no colon): `Name = Key = k`, weight `Count()` -/
def plainDescs (stats : List String) : List (String × Desc) := stats.map fun k => (k, ⟨k, k, none⟩)

theorem statsOnD_plain (na k : String) (r : Rec) : statsOnD na ⟨k, k, none⟩ r = statsOn na k r := rfl

theorem mergeKeyD_plain (na : String) (tm r : Rec) (k : String) :
    mergeKeyD na tm r (k, ⟨k, k, none⟩) = mergeKey na tm r k := rfl

theorem mergeIntoD_plain (na : String) (stats : List String) (r tm : Rec) :
    mergeIntoD na (plainDescs stats) r tm = mergeInto na stats r tm := by
  unfold mergeIntoD mergeInto plainDescs
  rw [List.foldl_map]
  rfl

theorem mergeClassD_plain (na : String) (stats : List String) (t : List Rec) :
    mergeClassD na (plainDescs stats) t = mergeClass na stats t := by
  match t with
  | [] => rfl
  | [r] =>
    simp only [mergeClassD, mergeClass, plainDescs]
    rw [List.foldl_map]
    rfl
  | r :: t :: ts =>
    simp only [mergeClassD, mergeClass]
    have : mergeIntoD na (plainDescs stats) = mergeInto na stats := by
      funext r tm; exact mergeIntoD_plain na stats r tm
    rw [this]

theorem base_plain (o : Opts) : (OptsD.base ⟨o.cats, plainDescs o.stats, o.na, o.noSingleton⟩) = o := by
  cases o
  simp [OptsD.base, plainDescs, List.map_map, Function.comp_def]

theorem uniqD_plain (h : Seq → Nat) (o : Opts) (input : List Rec) :
    uniqD h ⟨o.cats, plainDescs o.stats, o.na, o.noSingleton⟩ input = uniq h o input := by
  unfold uniqD uniq
  rw [base_plain]
  have : mergeClassD o.na (plainDescs o.stats) = mergeClass o.na o.stats := by
    funext t; exact mergeClassD_plain o.na o.stats t
  simp only [this]

/-! ## `MakeStatsOnDescription` -/

theorem splitColon_plain : ∀ (l : List Char), ':' ∉ l → splitColon l = (l, none)
  | [], _ => rfl
  | c :: t, h => by
    have h' : ¬ c = ':' ∧ ':' ∉ t := by
      constructor
      · intro e; exact h (by simp [e])
      · intro e; exact h (List.mem_cons_of_mem _ e)
    simp [splitColon, h'.1, splitColon_plain t h'.2]

theorem makeDesc_name (k : String) : (makeDesc k).name = k := rfl

theorem makeDesc_plain (k : String) (h : ':' ∉ k.toList) : makeDesc k = ⟨k, k, none⟩ := by
  simp [makeDesc, splitColon_plain k.toList h, String.ofList_toList]

/-! ## `setKey`, `OptionStatOn` -/

theorem mem_setKey {β : Type} (l : List (String × β)) (k : String) (x : β) (e : String × β)
    (h : e ∈ setKey l k x) : e = (k, x) ∨ e ∈ l := by
  induction l with
  | nil => simpa [setKey] using h
  | cons a t ih =>
    obtain ⟨a1, a2⟩ := a
    simp only [setKey] at h
    split at h
    · rcases List.mem_cons.mp h with h | h
      · exact Or.inl h
      · exact Or.inr (List.mem_cons_of_mem _ h)
    · rcases List.mem_cons.mp h with h | h
      · exact Or.inr (h ▸ List.mem_cons_self)
      · rcases ih h with h | h
        · exact Or.inl h
        · exact Or.inr (List.mem_cons_of_mem _ h)

theorem keys_setKey {β : Type} (l : List (String × β)) (k : String) (x : β) :
    (setKey l k x).map (·.1) = if k ∈ l.map (·.1) then l.map (·.1) else l.map (·.1) ++ [k] := by
  induction l with
  | nil => simp [setKey]
  | cons a t ih =>
    obtain ⟨a1, a2⟩ := a
    simp only [setKey]
    by_cases h : a1 = k
    · subst h; simp
    · have h' : ¬ k = a1 := fun e => h e.symm
      simp only [h, if_false, List.map_cons, ih, List.mem_cons, h', false_or]
      split <;> simp

theorem setKey_append_new {β : Type} (l : List (String × β)) (k : String) (x : β) (h : k ∉ l.map (·.1)) :
    setKey l k x = l ++ [(k, x)] := by
  induction l with
  | nil => rfl
  | cons a t ih =>
    obtain ⟨a1, a2⟩ := a
    have h' : ¬ a1 = k ∧ k ∉ t.map (·.1) := by
      constructor
      · intro e; exact h (by simp [e])
      · intro e; exact h (List.mem_cons_of_mem _ e)
    simp [setKey, h'.1, ih h'.2]

theorem DescsOK.setKey {m : List (String × Desc)} (h : DescsOK m) (d : Desc) : DescsOK (setKey m d.name d) := by
  obtain ⟨hnd, hk⟩ := h
  constructor
  · rw [keys_setKey]
    split
    · exact hnd
    · next hn =>
      rw [List.nodup_append]
      refine ⟨hnd, by simp, ?_⟩
      intro a ha b hb
      simp only [List.mem_singleton] at hb
      subst hb
      intro e; exact hn (e ▸ ha)
  · intro e he
    rcases mem_setKey m d.name d e he with rfl | he
    · rfl
    · exact hk e he

theorem optionStatOn_inv (keys : List String) : ∀ (m : List (String × Desc)), DescsOK m →
    (∀ e ∈ m, e.2 = makeDesc e.1) →
    DescsOK (optionStatOn m keys) ∧ (∀ e ∈ optionStatOn m keys, e.2 = makeDesc e.1) ∧
    (∀ k, k ∈ (optionStatOn m keys).map (·.1) ↔ k ∈ m.map (·.1) ∨ k ∈ keys) := by
  induction keys with
  | nil => intro m h1 h2; exact ⟨h1, h2, by simp [optionStatOn]⟩
  | cons k0 ks ih =>
    intro m h1 h2
    have h1' : DescsOK (setKey m (makeDesc k0).name (makeDesc k0)) := h1.setKey (makeDesc k0)
    have h2' : ∀ e ∈ setKey m (makeDesc k0).name (makeDesc k0), e.2 = makeDesc e.1 := by
      intro e he
      rcases mem_setKey _ _ _ e he with rfl | he
      · rfl
      · exact h2 e he
    obtain ⟨a, b, c⟩ := ih _ h1' h2'
    refine ⟨a, b, fun k => ?_⟩
    have := c k
    simp only [optionStatOn, List.foldl_cons] at this ⊢
    rw [this, keys_setKey, makeDesc_name]
    by_cases hk : k0 ∈ m.map (·.1)
    · simp only [hk, if_true, List.mem_cons]
      constructor
      · rintro (h | h)
        · exact Or.inl h
        · exact Or.inr (Or.inr h)
      · rintro (h | h | h)
        · exact Or.inl h
        · exact Or.inl (h ▸ hk)
        · exact Or.inr h
    · simp only [hk, if_false, List.mem_append, List.mem_cons, List.not_mem_nil, or_false]
      constructor
      · rintro ((h | h) | h)
        · exact Or.inl h
        · exact Or.inr (Or.inl h)
        · exact Or.inr (Or.inr h)
      · rintro (h | h | h)
        · exact Or.inl (Or.inl h)
        · exact Or.inl (Or.inr h)
        · exact Or.inr h

theorem DescsOK.nil : DescsOK [] := ⟨List.nodup_nil, fun _ h => by simp at h⟩

theorem optionStatOn_spec (keys : List String) :
    DescsOK (optionStatOn [] keys) ∧ (∀ e ∈ optionStatOn [] keys, e.2 = makeDesc e.1) ∧
    (∀ k, k ∈ (optionStatOn [] keys).map (·.1) ↔ k ∈ keys) := by
  obtain ⟨a, b, c⟩ := optionStatOn_inv keys [] DescsOK.nil (fun _ h => by simp at h)
  exact ⟨a, b, fun k => by simpa using c k⟩

theorem optionStatOn_plain_aux (keys : List String) : ∀ (m : List (String × Desc)),
    (∀ k ∈ keys, ':' ∉ k.toList) → keys.Nodup → (∀ k ∈ keys, k ∉ m.map (·.1)) →
    optionStatOn m keys = m ++ plainDescs keys := by
  induction keys with
  | nil => intro m _ _ _; simp [optionStatOn, plainDescs]
  | cons k0 ks ih =>
    intro m h hnd hm
    have hnd' := List.nodup_cons.mp hnd
    have e0 : setKey m (makeDesc k0).name (makeDesc k0) = m ++ [(k0, ⟨k0, k0, none⟩)] := by
      rw [makeDesc_plain k0 (h k0 (by simp))]
      exact setKey_append_new m k0 _ (hm k0 (by simp))
    have := ih (m ++ [(k0, ⟨k0, k0, none⟩)]) (fun k hk => h k (List.mem_cons_of_mem _ hk)) hnd'.2 (by
      intro k hk
      simp only [List.map_append, List.mem_append, List.map_cons, List.map_nil, List.mem_singleton, not_or]
      exact ⟨hm k (List.mem_cons_of_mem _ hk), fun e => hnd'.1 (e ▸ hk)⟩)
    simp only [optionStatOn, List.foldl_cons] at this ⊢
    rw [e0, this]
    simp [plainDescs]

theorem optionStatOn_plain (keys : List String) (h : ∀ k ∈ keys, ':' ∉ k.toList) (hnd : keys.Nodup) :
    optionStatOn [] keys = plainDescs keys := by
  simpa using optionStatOn_plain_aux keys [] h hnd (by simp)

/-! ## the outputs of `uniqD` -/

theorem mem_uniqD {h : Seq → Nat} {o : OptsD} {input : List Rec} {out : Rec} :
    out ∈ uniqD h o input ↔
      ∃ t ∈ terminals h o.base input, dropped o.base t = false ∧ mergeClassD o.na o.descs t = some out := by
  simp only [uniqD, List.mem_filterMap, List.mem_filter, Bool.not_eq_eq_eq_not, Bool.not_true]
  constructor
  · rintro ⟨t, ⟨h1, h2⟩, h3⟩; exact ⟨t, h1, h2, h3⟩
  · rintro ⟨t, h1, h2, h3⟩; exact ⟨t, ⟨h1, h2⟩, h3⟩

/-- a batch that reaches the merge stage is the whole class of the key of its merged record, and the merged record
has the count and the `merged_` maps of that class (`terminal_output` with descriptors) -/
theorem terminal_outputD (h : Seq → Nat) (o : OptsD) (input : List Rec) (hok : DescsOK o.descs)
    (hc : ∀ r ∈ input, 1 ≤ r.count) (hwf : ∀ r ∈ input, r.WF)
    (hw : ∀ r ∈ input, ∀ e ∈ o.descs, WOK e.2 r) (t : List Rec) (ht : t ∈ terminals h o.base input) :
    ∃ out, mergeClassD o.na o.descs t = some out ∧ t = classOf o.base input (key o.base out) ∧ t ≠ [] ∧
      (∃ x ∈ t, out.id = x.id ∧ out.seq = x.seq) ∧
      out.count = total t ∧
      (∀ e ∈ o.descs, ∃ m, out.merged.lookup e.2.name = some m ∧
        ∀ v, weight m v = contribSumD o.na e.2 t v) ∧
      (∀ kv, kv ∈ out.attrs ↔ ∀ r ∈ t, r.attrs.lookup kv.1 = some kv.2) ∧
      out.WF ∧ out.cnt.isSome := by
  obtain ⟨hcls, _, _, _⟩ := terminals_classes h o.base input
  obtain ⟨x, hx, et⟩ := hcls t ht
  have hmem : ∀ a ∈ t, a ∈ input ∧ key o.base a = key o.base x := by
    intro a ha
    rw [et] at ha
    simpa using List.mem_filter.mp ha
  cases t with
  | nil => simp at hx
  | cons r rs =>
    have hr := hmem r (by simp)
    obtain ⟨out, hout, s1, s2, s3, s4, s5, _, s7⟩ :=
      mergeClassD_spec' o.na o.descs hok r rs (hc r hr.1) (hw r hr.1)
    have hkey : key o.base out = key o.base r := by
      rw [key_eq_iff]
      refine ⟨s1, fun c _ => ?_⟩
      show (out.attrs.lookup c).getD o.na = (r.attrs.lookup c).getD o.na
      rw [s4]
      apply value_filter r.attrs (hwf r hr.1) rs c o.na
      intro t' ht'
      have h1 := (hmem t' (List.mem_cons_of_mem _ ht')).2
      rw [← hr.2, key_eq_iff] at h1
      exact h1.2 c ‹_›
    have ecls : r :: rs = classOf o.base input (key o.base out) := by
      rw [hkey, hr.2]; exact et
    refine ⟨out, hout, ecls, by simp, ⟨r, by simp, s2, s1⟩, s3, s5, ?_, ?_, s7⟩
    · intro kv
      rw [s4]
      simp only [List.mem_filter, List.all_eq_true, beq_iff_eq, List.mem_cons, forall_eq_or_imp]
      rw [lookup_iff_mem_of_nodup r.attrs (hwf r hr.1)]
    · show (out.attrs.map (·.1)).Nodup
      rw [s4]
      exact List.Nodup.sublist (List.Sublist.map _ List.filter_sublist) (hwf r hr.1)

/-! ## what an output record of `uniqD` is; keys; a dereplicated part summarises its input -/

structure InputOKD (o : OptsD) (input : List Rec) : Prop where
  descs_ok : DescsOK o.descs
  counts : ∀ r ∈ input, 1 ≤ r.count
  wf : ∀ r ∈ input, r.WF
  wok : ∀ r ∈ input, ∀ e ∈ o.descs, WOK e.2 r

theorem InputOKD.append {o : OptsD} {a b : List Rec} (ha : InputOKD o a) (hb : InputOKD o b) :
    InputOKD o (a ++ b) :=
  ⟨ha.descs_ok,
   fun r hr => (List.mem_append.mp hr).elim (ha.counts r) (hb.counts r),
   fun r hr => (List.mem_append.mp hr).elim (ha.wf r) (hb.wf r),
   fun r hr => (List.mem_append.mp hr).elim (ha.wok r) (hb.wok r)⟩

structure IsOutputD (o : OptsD) (input : List Rec) (out : Rec) : Prop where
  rep : ∃ x ∈ classOf o.base input (key o.base out), out.id = x.id ∧ out.seq = x.seq
  count : out.count = total (classOf o.base input (key o.base out))
  merged : ∀ e ∈ o.descs, ∃ m, out.merged.lookup e.2.name = some m ∧
    ∀ v, weight m v = contribSumD o.na e.2 (classOf o.base input (key o.base out)) v
  attrs : ∀ kv, kv ∈ out.attrs ↔ ∀ r ∈ classOf o.base input (key o.base out), r.attrs.lookup kv.1 = some kv.2
  wf : out.WF
  cnt : out.cnt.isSome

theorem terminal_isOutputD (h : Seq → Nat) (o : OptsD) (input : List Rec) (ok : InputOKD o input) (t : List Rec)
    (ht : t ∈ terminals h o.base input) :
    ∃ out, mergeClassD o.na o.descs t = some out ∧ IsOutputD o input out ∧
      t = classOf o.base input (key o.base out) := by
  obtain ⟨out, hm, ecls, _, hrep, hcnt, hmg, hat, hwf, hcs⟩ :=
    terminal_outputD h o input ok.descs_ok ok.counts ok.wf ok.wok t ht
  refine ⟨out, hm, ⟨?_, ?_, ?_, ?_, hwf, hcs⟩, ecls⟩
  · rw [← ecls]; exact hrep
  · rw [← ecls]; exact hcnt
  · rw [← ecls]; exact hmg
  · rw [← ecls]; exact hat

theorem uniqD_isOutputD (h : Seq → Nat) (o : OptsD) (input : List Rec) (ok : InputOKD o input) :
    ∀ out ∈ uniqD h o input, IsOutputD o input out := by
  intro out hout
  obtain ⟨t, ht, _, hm⟩ := mem_uniqD.mp hout
  obtain ⟨out', hm', hio, _⟩ := terminal_isOutputD h o input ok t ht
  rw [hm] at hm'
  cases hm'
  exact hio

/-- without `--no-singleton`: exactly one output record per distinct key of the input -/
theorem uniqD_keys (h : Seq → Nat) (o : OptsD) (input : List Rec) (ok : InputOKD o input)
    (hns : o.noSingleton = false) :
    ((uniqD h o input).map (key o.base)).Nodup ∧
    ∀ κ, κ ∈ (uniqD h o input).map (key o.base) ↔ κ ∈ input.map (key o.base) := by
  obtain ⟨_, hcover, hsep, _⟩ := terminals_classes h o.base input
  constructor
  · unfold List.Nodup uniqD
    rw [List.pairwise_map, List.pairwise_filterMap]
    refine List.Pairwise.imp_of_mem ?_ (List.Pairwise.filter _ hsep)
    intro t t' ht ht' hh b hb b' hb' ek
    have ht := (List.mem_filter.mp ht).1
    have ht' := (List.mem_filter.mp ht').1
    obtain ⟨out, hm, hio, ecls⟩ := terminal_isOutputD h o input ok t ht
    obtain ⟨out', hm', hio', ecls'⟩ := terminal_isOutputD h o input ok t' ht'
    rw [hb] at hm; cases hm
    rw [hb'] at hm'; cases hm'
    obtain ⟨x, hx, _⟩ := hio.rep
    obtain ⟨x', hx', _⟩ := hio'.rep
    have k1 : key o.base x = key o.base b := by simpa [classOf] using (List.mem_filter.mp hx).2
    have k2 : key o.base x' = key o.base b' := by simpa [classOf] using (List.mem_filter.mp hx').2
    rw [← ecls] at hx
    rw [← ecls'] at hx'
    exact hh x hx x' hx' (by rw [k1, k2, ek])
  · intro κ
    simp only [List.mem_map]
    constructor
    · rintro ⟨out, hout, rfl⟩
      obtain ⟨x, hx, _⟩ := (uniqD_isOutputD h o input ok out hout).rep
      have := List.mem_filter.mp hx
      exact ⟨x, this.1, by simpa [classOf] using this.2⟩
    · rintro ⟨x, hx, rfl⟩
      have ht := hcover x hx
      obtain ⟨out, hm, _, ecls⟩ := terminal_isOutputD h o input ok _ ht
      have hnd : dropped o.base (input.filter fun r => decide (key o.base r = key o.base x)) = false :=
        not_dropped_of_all (o := o.base) hns _
      refine ⟨out, mem_uniqD.mpr ⟨_, ht, hnd, hm⟩, ?_⟩
      have hxt : x ∈ input.filter (fun r => decide (key o.base r = key o.base x)) := by simp [hx]
      rw [ecls] at hxt
      exact (of_decide_eq_true (List.mem_filter.mp hxt).2).symm

/-- the outputs of a dereplication satisfy the input hypotheses again -/
theorem uniqD_inputOKD (h : Seq → Nat) (o : OptsD) (xs : List Rec) (ok : InputOKD o xs) :
    InputOKD o (uniqD h o xs) := by
  refine ⟨ok.descs_ok, ?_, ?_, ?_⟩
  · intro r hr
    have hio := uniqD_isOutputD h o xs ok r hr
    obtain ⟨x, hx, _⟩ := hio.rep
    have h1x := ok.counts x (List.mem_filter.mp hx).1
    have := count_le_total _ x hx
    rw [hio.count]; omega
  · intro r hr; exact (uniqD_isOutputD h o xs ok r hr).wf
  · intro r hr e _; exact WOK_of_cnt e.2 (uniqD_isOutputD h o xs ok r hr).cnt

/-- the class of a key among the outputs of a first dereplication summarises the class among its inputs -/
theorem class_summaryD (h1 : Seq → Nat) (o : OptsD) (xs : List Rec) (okx : InputOKD o xs)
    (hns : o.noSingleton = false) (κ : Seq × List String) :
    total (classOf o.base (uniqD h1 o xs) κ) = total (classOf o.base xs κ) ∧
    (∀ e ∈ o.descs, ∀ v, contribSumD o.na e.2 (classOf o.base (uniqD h1 o xs) κ) v =
      contribSumD o.na e.2 (classOf o.base xs κ) v) ∧
    (∀ a b, (∀ r ∈ classOf o.base (uniqD h1 o xs) κ, r.attrs.lookup a = some b) ↔
      (∀ r ∈ classOf o.base xs κ, r.attrs.lookup a = some b)) ∧
    (∀ u ∈ classOf o.base (uniqD h1 o xs) κ, ∃ x ∈ classOf o.base xs κ, u.id = x.id ∧ u.seq = x.seq) := by
  obtain ⟨hnd, hkeys⟩ := uniqD_keys h1 o xs okx hns
  rcases filter_key_nodup (key o.base) κ (uniqD h1 o xs) hnd with h0 | ⟨u, hu, hk, he⟩
  · have hx : classOf o.base xs κ = [] := by
      unfold classOf
      rw [List.filter_eq_nil_iff]
      intro x hx hkx
      have : κ ∈ (uniqD h1 o xs).map (key o.base) :=
        (hkeys κ).mpr (List.mem_map.mpr ⟨x, hx, of_decide_eq_true hkx⟩)
      obtain ⟨u, hu, hku⟩ := List.mem_map.mp this
      have : u ∈ (uniqD h1 o xs).filter (fun u => decide (key o.base u = κ)) := by simp [hu, hku]
      rw [h0] at this
      simp at this
    have h0' : classOf o.base (uniqD h1 o xs) κ = [] := h0
    rw [h0', hx]
    simp [contribSumD]
  · have he' : classOf o.base (uniqD h1 o xs) κ = [u] := he
    have hio := uniqD_isOutputD h1 o xs okx u hu
    rw [he']
    subst hk
    refine ⟨?_, ?_, ?_, ?_⟩
    · rw [← hio.count]; simp [total]
    · intro e he v
      obtain ⟨m, hm, hw⟩ := hio.merged e he
      rw [← hw v]
      simp [contribSumD, contribD_some hm]
    · intro a b
      have := hio.attrs (a, b)
      rw [← this]
      simp only [List.mem_singleton, forall_eq]
      exact lookup_iff_mem_of_nodup u.attrs hio.wf a b
    · intro u' hu'
      simp only [List.mem_singleton] at hu'
      subst hu'
      exact hio.rep

/-- the observable of an output record of `uniqD`: key (sequence and category values), count, the requested
`merged_<Name>` maps as weight functions, the set of kept annotations -/
def ObsEqD (o : OptsD) (a b : Rec) : Prop :=
  a.seq = b.seq ∧ key o.base a = key o.base b ∧ a.count = b.count ∧
  (∀ e ∈ o.descs, ∀ v, mweight a e.2.name v = mweight b e.2.name v) ∧
  (∀ kv, kv ∈ a.attrs ↔ kv ∈ b.attrs)

theorem obsEqD_of_isOutputD (o : OptsD) (input : List Rec) (a b : Rec) (ha : IsOutputD o input a)
    (hb : IsOutputD o input b) (hk : key o.base a = key o.base b) : ObsEqD o a b := by
  refine ⟨?_, hk, ?_, ?_, ?_⟩
  · have := congrArg Prod.fst hk
    simpa [key] using this
  · rw [ha.count, hb.count, hk]
  · intro e he v
    obtain ⟨m, hm1, hw1⟩ := ha.merged e he
    obtain ⟨m', hm2, hw2⟩ := hb.merged e he
    simp only [mweight, hm1, hm2, Option.getD_some]
    rw [hw1 v, hw2 v, hk]
  · intro kv
    rw [ha.attrs kv, hb.attrs kv, hk]

/-- an output for the two dereplicated parts put together is an output for the two raw parts put together -/
theorem isOutputD_lift (h1 h2 : Seq → Nat) (o : OptsD) (xs ys : List Rec) (okx : InputOKD o xs)
    (oky : InputOKD o ys) (hns : o.noSingleton = false) (out2 : Rec)
    (hio : IsOutputD o (uniqD h1 o xs ++ uniqD h2 o ys) out2) : IsOutputD o (xs ++ ys) out2 := by
  obtain ⟨s1, s2, s3, s4⟩ := class_summaryD h1 o xs okx hns (key o.base out2)
  obtain ⟨t1, t2, t3, t4⟩ := class_summaryD h2 o ys oky hns (key o.base out2)
  refine ⟨?_, ?_, ?_, ?_, hio.wf, hio.cnt⟩
  · obtain ⟨x, hx, hid, hsq⟩ := hio.rep
    rw [classOf_append] at hx
    rw [classOf_append]
    rcases List.mem_append.mp hx with hx | hx
    · obtain ⟨y, hy, e1, e2⟩ := s4 x hx
      exact ⟨y, List.mem_append_left _ hy, by rw [hid, e1], by rw [hsq, e2]⟩
    · obtain ⟨y, hy, e1, e2⟩ := t4 x hx
      exact ⟨y, List.mem_append_right _ hy, by rw [hid, e1], by rw [hsq, e2]⟩
  · rw [hio.count, classOf_append, classOf_append, total_append, total_append, s1, t1]
  · intro e he
    obtain ⟨m, hm, hw⟩ := hio.merged e he
    refine ⟨m, hm, fun v => ?_⟩
    rw [hw v, classOf_append, classOf_append, contribSumD_append, contribSumD_append, s2 e he v, t2 e he v]
  · intro kv
    rw [hio.attrs kv, classOf_append, classOf_append]
    simp only [List.mem_append]
    constructor
    · intro hh r hr
      rcases hr with hr | hr
      · exact (s3 kv.1 kv.2).mp (fun r' hr' => hh r' (Or.inl hr')) r hr
      · exact (t3 kv.1 kv.2).mp (fun r' hr' => hh r' (Or.inr hr')) r hr
    · intro hh r hr
      rcases hr with hr | hr
      · exact (s3 kv.1 kv.2).mpr (fun r' hr' => hh r' (Or.inl hr')) r hr
      · exact (t3 kv.1 kv.2).mpr (fun r' hr' => hh r' (Or.inr hr')) r hr

/-! ## fixtures of the examples and counterexamples of `Props/C06G.lean` -/

def gR0 : Rec := { id := "a", seq := [97], cnt := none, attrs := [("s", "x"), ("w", "2")], merged := [] }
def gTm : Rec := { id := "b", seq := [97], cnt := some 2, attrs := [], merged := [("s:w", [("x", 3), ("y", 4)])] }
def gR0c : Rec := { id := "a", seq := [97], cnt := some 2, attrs := [("s", "x")], merged := [] }
def gTmc : Rec :=
  { id := "b", seq := [97], cnt := some 7, attrs := [], merged := [("s:count", [("x", 3), ("y", 4)])] }
def gA : Rec := { id := "a", seq := [97], cnt := none, attrs := [("s", "x")], merged := [] }
def gB : Rec := { id := "b", seq := [97], cnt := some 3, attrs := [("s", "x")], merged := [] }

/-- a plain and a weighted descriptor on the same attribute -/
def gDescs : List (String × Desc) := optionStatOn [] ["s", "s:w"]
def g0 : Rec := { id := "a", seq := [97], cnt := none, attrs := [("s", "x"), ("w", "2")], merged := [] }
def g1 : Rec := { id := "b", seq := [97], cnt := some 3, attrs := [("s", "y"), ("w", "5")], merged := [] }
def g2 : Rec := { id := "c", seq := [99], cnt := none, attrs := [("s", "x")], merged := [] }
def g3 : Rec := { id := "d", seq := [97], cnt := some 2, attrs := [("s", "x"), ("w", "7")], merged := [] }
def gIn : List Rec := [g0, g1, g2, g3]
def gO : OptsD := ⟨[], gDescs, "NA", false⟩

theorem gDescs_eq : gDescs = [("s", ⟨"s", "s", none⟩), ("s:w", ⟨"s:w", "s", some "w"⟩)] := by decide

theorem gWOK : ∀ r : Rec, ∀ e ∈ gDescs, WOK e.2 r := by
  intro r e he
  rw [gDescs_eq] at he
  intro hw
  rcases List.mem_cons.mp he with rfl | he
  · simp at hw
  · rcases List.mem_cons.mp he with rfl | he
    · exact absurd hw (by decide)
    · simp at he

theorem gOK : InputOKD gO gIn :=
  ⟨(optionStatOn_spec _).1, by decide, by simp [gIn, Rec.WF, g0, g1, g2, g3], fun r _ => gWOK r⟩

end ObiVerif.Uniq
