import ObiVerif.Model.Apat
import ObiVerif.Model.SeqOps
/-!
# Specification and lemmas for the `obiapat` matcher model (C10)

* specification: `accepts`, `oblig`, `hamCost` (Hamming distance with obligatory positions), `fits`
* bit-level lemmas on `CreateS` (`maskOf_bit`, `smat_bit`, `omask_bit`) and on one step of the
  substitution automaton (`subStep_bit`)
* the automaton invariant `Rep` and its preservation (`subLevels_rep`)
* exactness of the text loop (`errScan_mem`, `manberSub_mem`)
-/
namespace ObiVerif.Apat

/-! ## specification -/

/-- pattern position `code` accepts sequence symbol `c` (a letter index 0..25) -/
def accepts (code c : Nat) : Bool := code.testBit c
/-- the position is obligatory (`#`): no substitution allowed there -/
def oblig (code : Nat) : Bool := code &&& Gen.apatObliBit != 0

/-- addition on `Option Nat` with `none` = infinity -/
def oadd : Option Nat → Option Nat → Option Nat
  | some a, some b => some (a + b)
  | _, _ => none

/-- cost of aligning one pattern position with one symbol: 0 = match, 1 = substitution, none = forbidden -/
def pen (a c : Nat) : Option Nat := if accepts a c then some 0 else if oblig a then none else some 1

/-- Hamming distance of the pattern `p` against the first `p.length` symbols of `w`
(`none`: `w` is too short, or an obligatory position does not match) -/
def hamCost : List Nat → List Nat → Option Nat
  | [], _ => some 0
  | _ :: _, [] => none
  | a :: p, c :: w => oadd (pen a c) (hamCost p w)

/-- `p` matches a prefix of `w` with at most `e` substitutions, none at an obligatory position -/
def fits : List Nat → List Nat → Nat → Bool
  | [], _, _ => true
  | _ :: _, [], _ => false
  | a :: q, c :: w, e =>
    if accepts a c then fits q w e
    else !oblig a && (match e with | 0 => false | e' + 1 => fits q w e')

/-! ## bit-level lemmas -/

theorem one_shl_bit (k b : Nat) : ((1#64 <<< k).getLsbD b) = (decide (b = k) && decide (b < 64)) := by
  simp only [BitVec.getLsbD_shiftLeft]
  by_cases h : b = k
  · subst h; simp
  · by_cases h2 : b < k
    · simp [h, h2]
    · have : b - k ≠ 0 := by omega
      simp [h, h2, BitVec.getLsbD_one, this]

theorem maskOf_bit (f : Nat → Bool) (l : List Nat) (k b : Nat) (hb : b < 64) :
    (maskOf f l (1#64 <<< k)).getLsbD b = (decide (k ≤ b) && (match l[b - k]? with | some c => f c | none => false)) := by
  induction l generalizing k with
  | nil => simp [maskOf]
  | cons c rest ih =>
    simp only [maskOf, BitVec.getLsbD_or]
    have hs : (1#64 <<< k) <<< 1 = 1#64 <<< (k + 1) := (BitVec.shiftLeft_add _ k 1).symm
    rw [hs, ih (k + 1)]
    have h0 : ((if f c = true then 1#64 <<< k else 0).getLsbD b) = (f c && decide (b = k)) := by
      by_cases hf : f c
      · rw [if_pos hf, one_shl_bit]; simp [hf, hb]
      · rw [if_neg hf]; simp [hf]
    rw [h0]
    by_cases h : b = k
    · subst h
      have : ¬ (b + 1 ≤ b) := by omega
      simp [this]
    · by_cases h2 : k ≤ b
      · have h3 : k + 1 ≤ b := by omega
        have h4 : b - k = (b - (k + 1)) + 1 := by omega
        rw [h4]
        simp [h, h2, h3]
      · have h3 : ¬ (k + 1 ≤ b) := by omega
        simp [h, h2, h3]

/-- bit `m - j` of `smat[c]` says whether pattern position `j-1` accepts `c` -/
theorem smat_bit (codes : List Nat) (c j : Nat) (hm : codes.length ≤ 64) (hj1 : 1 ≤ j) (hjm : j ≤ codes.length) :
    (smatWord codes c).getLsbD (codes.length - j) = accepts (codes.getD (j - 1) 0) c := by
  unfold smatWord
  have h1 : (1 : W) = 1#64 <<< 0 := by simp
  rw [h1, maskOf_bit _ _ _ _ (by omega)]
  simp only [Nat.zero_le, decide_true, Bool.true_and, Nat.sub_zero]
  rw [List.getElem?_reverse (by omega)]
  have : codes.length - 1 - (codes.length - j) = j - 1 := by omega
  rw [this]
  have hlt : j - 1 < codes.length := by omega
  simp [List.getD, List.getElem?_eq_getElem hlt, accepts]

theorem omask_bit (codes : List Nat) (j : Nat) (hm : codes.length ≤ 64) (hj1 : 1 ≤ j) (hjm : j ≤ codes.length) :
    (omaskWord codes).getLsbD (codes.length - j) = oblig (codes.getD (j - 1) 0) := by
  unfold omaskWord
  have h1 : (1 : W) = 1#64 <<< 0 := by simp
  rw [h1, maskOf_bit _ _ _ _ (by omega)]
  simp only [Nat.zero_le, decide_true, Bool.true_and, Nat.sub_zero]
  rw [List.getElem?_reverse (by omega)]
  have : codes.length - 1 - (codes.length - j) = j - 1 := by omega
  rw [this]
  have hlt : j - 1 < codes.length := by omega
  simp [List.getD, List.getElem?_eq_getElem hlt, oblig]

/-- the S-matrix entry used for symbol `c < 26` -/
theorem smat_getD (codes : List Nat) (c : Nat) (hc : c < 26) : (smat codes).getD c 0 = smatWord codes c := by
  unfold smat
  have : Gen.apatAlphaLen = 26 := by decide
  rw [this]
  simp [List.getD, hc]

/-! ## one step of the substitution automaton -/

/-- new word of one error level: `pr[3] = ((pr[0] >> 1) & cmask) | (((pr[3] | smask) >> 1) & sindx)` -/
def subStep (smask cmask sindx prev r : W) : W :=
  ((prev >>> 1) &&& cmask) ||| (((r ||| smask) >>> 1) &&& sindx)

theorem subLevels_cons (smask cmask sindx prev r : W) (rs : List W) :
    subLevels smask cmask sindx prev (r :: rs) =
      subStep smask cmask sindx prev r :: subLevels smask cmask sindx (r ||| smask) rs := rfl

theorem subStep_bit (smask cmask sindx prev r : W) (i : Nat) :
    (subStep smask cmask sindx prev r).getLsbD i =
      ((prev.getLsbD (i + 1) && cmask.getLsbD i) ||
       ((r.getLsbD (i + 1) || smask.getLsbD (i + 1)) && sindx.getLsbD i)) := by
  unfold subStep
  simp only [BitVec.getLsbD_or, BitVec.getLsbD_and, BitVec.getLsbD_ushiftRight]
  have : 1 + i = i + 1 := by omega
  rw [this]

theorem fits_mono (q w : List Nat) (e : Nat) (h : fits q w e = true) : fits q w (e + 1) = true := by
  induction q generalizing w e with
  | nil => simp [fits]
  | cons a q ih =>
    cases w with
    | nil => simp [fits] at h
    | cons c w =>
      simp only [fits] at h ⊢
      by_cases ha : accepts a c
      · simp only [ha, if_true] at h ⊢; exact ih w e h
      · simp only [ha] at h ⊢
        cases e with
        | zero => simp at h
        | succ e' =>
          simp only [Bool.false_eq_true, if_false, Bool.and_eq_true] at h ⊢
          exact ⟨h.1, ih w e' h.2⟩

theorem take_reverse_succ (codes : List Nat) (j : Nat) (hj1 : 1 ≤ j) (hjm : j ≤ codes.length) :
    (codes.take j).reverse = codes.getD (j - 1) 0 :: (codes.take (j - 1)).reverse := by
  obtain ⟨k, rfl⟩ : ∃ k, j = k + 1 := ⟨j - 1, by omega⟩
  have hlt : k < codes.length := by omega
  rw [List.take_add_one, List.reverse_append]
  simp [List.getD, List.getElem?_eq_getElem hlt]

/-- the automaton invariant for one level: after reading the text whose reversal is `seen`,
bit `m - j` of the word of level `e` says that `p[0..j)` matches the last `j` symbols read with at most
`e` substitutions, none at an obligatory position -/
def Rep (codes seen : List Nat) (e : Nat) (r : W) : Prop :=
  ∀ j, 1 ≤ j → j ≤ codes.length → r.getLsbD (codes.length - j) = fits ((codes.take j).reverse) seen e

/-- what the level below hands over (`pr[0]`): nothing for level 0, its old word with `smask` otherwise -/
def PrevOk (codes seen : List Nat) (e : Nat) (prev : W) : Prop :=
  (e = 0 ∧ prev = 0) ∨ (∃ e' r', e = e' + 1 ∧ Rep codes seen e' r' ∧ prev = r' ||| (1#64 <<< codes.length))

/-- bit `m-(j-1)` of an invariant word with `smask` or-ed in: the state for the prefix of length `j-1`
(the empty prefix always matches) -/
theorem rep_prev_bit (codes seen : List Nat) (e : Nat) (r : W) (hr : Rep codes seen e r)
    (hm : codes.length ≤ 63) (j : Nat) (hj1 : 1 ≤ j) (hjm : j ≤ codes.length) :
    (r.getLsbD (codes.length - j + 1) || (1#64 <<< codes.length).getLsbD (codes.length - j + 1)) =
      fits ((codes.take (j - 1)).reverse) seen e := by
  rw [one_shl_bit]
  by_cases h1 : j = 1
  · subst h1
    have : codes.length - 1 + 1 = codes.length := by omega
    simp [this, fits]; omega
  · have h2 : codes.length - j + 1 = codes.length - (j - 1) := by omega
    have h3 : ¬ (codes.length - (j - 1) = codes.length) := by omega
    rw [h2, hr (j - 1) (by omega) (by omega)]
    simp [h3]

theorem subStep_rep (codes seen : List Nat) (c e : Nat) (prev r : W) (hm : codes.length ≤ 63)
    (hr : Rep codes seen e r) (hp : PrevOk codes seen e prev) :
    Rep codes (c :: seen) e
      (subStep (1#64 <<< codes.length) (~~~ omaskWord codes) (smatWord codes c) prev r) := by
  intro j hj1 hjm
  rw [subStep_bit, rep_prev_bit codes seen e r hr hm j hj1 hjm, take_reverse_succ codes j hj1 hjm]
  have hlt : codes.length - j < 64 := by omega
  rw [smat_bit codes c j (by omega) hj1 hjm]
  simp only [BitVec.getLsbD_not, hlt, decide_true, Bool.true_and, omask_bit codes j (by omega) hj1 hjm]
  simp only [fits]
  generalize codes.getD (j - 1) 0 = a
  rcases hp with ⟨he, hprev⟩ | ⟨e', r', he, hr', hprev⟩
  · subst he; subst hprev
    by_cases ha : accepts a c <;> simp [ha]
  · subst he; subst hprev
    rw [BitVec.getLsbD_or, rep_prev_bit codes seen e' r' hr' hm j hj1 hjm]
    by_cases ha : accepts a c
    · simp only [ha, Bool.and_true, if_true]
      by_cases hf : fits ((codes.take (j - 1)).reverse) seen e'
      · rw [fits_mono _ _ _ hf]; simp
      · simp [hf]
    · simp [ha, Bool.and_comm]

/-! ## all error levels, the text loop -/

/-- the list of level words represents levels `e0, e0+1, …` -/
def RepAll (codes seen : List Nat) (e0 : Nat) (rs : List W) : Prop :=
  ∀ k r, rs[k]? = some r → Rep codes seen (e0 + k) r

theorem subLevels_length (smask cmask sindx : W) (rs : List W) (prev : W) :
    (subLevels smask cmask sindx prev rs).length = rs.length := by
  induction rs generalizing prev with
  | nil => rfl
  | cons r rs ih => simp [subLevels_cons, ih]

theorem subLevels_rep (codes seen : List Nat) (c : Nat) (hm : codes.length ≤ 63) (rs : List W) (e0 : Nat) (prev : W)
    (hr : RepAll codes seen e0 rs) (hp : PrevOk codes seen e0 prev) :
    RepAll codes (c :: seen) e0
      (subLevels (1#64 <<< codes.length) (~~~ omaskWord codes) (smatWord codes c) prev rs) := by
  induction rs generalizing e0 prev with
  | nil => intro k r h; simp [subLevels] at h
  | cons r0 rs ih =>
    have h0 : Rep codes seen e0 r0 := by have := hr 0 r0 (by simp); simpa using this
    intro k r h
    rw [subLevels_cons] at h
    cases k with
    | zero =>
      simp only [List.getElem?_cons_zero, Option.some.injEq] at h
      subst h
      exact subStep_rep codes seen c e0 prev r0 hm h0 hp
    | succ k =>
      simp only [List.getElem?_cons_succ] at h
      have hr' : RepAll codes seen (e0 + 1) rs := by
        intro k' r' h'
        have := hr (k' + 1) r' (by simpa using h')
        have e : e0 + (k' + 1) = e0 + 1 + k' := by omega
        rwa [e] at this
      have := ih (e0 + 1) (r0 ||| (1#64 <<< codes.length)) hr' (Or.inr ⟨e0, r0, rfl, h0, rfl⟩) k r h
      have e : e0 + (k + 1) = e0 + 1 + k := by omega
      rwa [e]

/-- state of the level words after reading `cs` -/
def runLevels (levels : W → List W → List W) (sm : List W) : List W → List Nat → List W
  | rs, [] => rs
  | rs, c :: cs => runLevels levels sm (levels (sm.getD c 0) rs) cs

theorem errScan_mem (m : Nat) (levels : W → List W → List W) (sm : List W) (pos : Nat) (rs : List W) (cs : List Nat)
    (i : Int) (k : Nat) :
    (i, k) ∈ errScan m levels sm pos rs cs ↔
      ∃ t, t < cs.length ∧ i = ((pos + t : Nat) : Int) - m + 1 ∧
        firstHit (runLevels levels sm rs (cs.take (t + 1))) 0 = some k := by
  induction cs generalizing pos rs with
  | nil => simp [errScan]
  | cons c cs ih =>
    simp only [errScan]
    have key : (i, k) ∈ errScan m levels sm (pos + 1) (levels (sm.getD c 0) rs) cs ↔
        ∃ t, t < (c :: cs).length ∧ t ≠ 0 ∧ i = ((pos + t : Nat) : Int) - m + 1 ∧
          firstHit (runLevels levels sm rs ((c :: cs).take (t + 1))) 0 = some k := by
      rw [ih]
      constructor
      · rintro ⟨t, ht, hi, hf⟩
        refine ⟨t + 1, by simp; omega, by omega, ?_, ?_⟩
        · rw [hi]; congr 2; omega
        · simpa [runLevels] using hf
      · rintro ⟨t, ht, ht0, hi, hf⟩
        obtain ⟨t', rfl⟩ : ∃ t', t = t' + 1 := ⟨t - 1, by omega⟩
        refine ⟨t', by simp at ht; omega, ?_, ?_⟩
        · rw [hi]; congr 2; omega
        · simpa [runLevels] using hf
    have head : ∀ e, firstHit (levels (sm.getD c 0) rs) 0 = some e →
        ((i, k) = (((pos : Nat) : Int) - m + 1, e) ↔
          (i = ((pos + 0 : Nat) : Int) - m + 1 ∧ firstHit (runLevels levels sm rs ((c :: cs).take (0 + 1))) 0 = some k)) := by
      intro e he
      simp only [List.take_succ_cons, List.take_zero, runLevels, he, Prod.mk.injEq, Nat.add_zero, Option.some.injEq]
      constructor
      · rintro ⟨a, b⟩; exact ⟨a, b.symm⟩
      · rintro ⟨a, b⟩; exact ⟨a, b.symm⟩
    cases hfh : firstHit (levels (sm.getD c 0) rs) 0 with
    | none =>
      simp only []
      rw [key]
      constructor
      · rintro ⟨t, ht, _, hi, hf⟩; exact ⟨t, ht, hi, hf⟩
      · rintro ⟨t, ht, hi, hf⟩
        refine ⟨t, ht, ?_, hi, hf⟩
        intro h0; subst h0
        simp only [Nat.zero_add, List.take_succ_cons, List.take_zero, runLevels] at hf
        rw [hfh] at hf; cases hf
    | some e =>
      simp only [List.mem_cons]
      rw [key, head e hfh]
      constructor
      · rintro (⟨hi, hf⟩ | ⟨t, ht, _, hi, hf⟩)
        · exact ⟨0, by simp, hi, hf⟩
        · exact ⟨t, ht, hi, hf⟩
      · rintro ⟨t, ht, hi, hf⟩
        by_cases h0 : t = 0
        · subst h0; exact Or.inl ⟨hi, hf⟩
        · exact Or.inr ⟨t, ht, h0, hi, hf⟩

/-- `firstHit` returns the least level whose word has bit 0 -/
theorem firstHit_spec (P : Nat → Bool) (rs : List W) (e0 e : Nat)
    (h : ∀ k r, rs[k]? = some r → r.getLsbD 0 = P (e0 + k)) :
    firstHit rs e0 = some e ↔
      e0 ≤ e ∧ e < e0 + rs.length ∧ P e = true ∧ ∀ e', e0 ≤ e' → e' < e → P e' = false := by
  induction rs generalizing e0 with
  | nil =>
    simp only [firstHit, List.length_nil, Nat.add_zero]
    constructor
    · intro h; cases h
    · rintro ⟨h1, h2, _⟩; omega
  | cons r rs ih =>
    have h0 : r.getLsbD 0 = P e0 := by simpa using h 0 r (by simp)
    have hs : ∀ k r', rs[k]? = some r' → r'.getLsbD 0 = P (e0 + 1 + k) := by
      intro k r' hk
      have := h (k + 1) r' (by simpa using hk)
      have e : e0 + (k + 1) = e0 + 1 + k := by omega
      rwa [e] at this
    simp only [firstHit, h0]
    by_cases hp : P e0 = true
    · simp only [hp, if_true, Option.some.injEq]
      constructor
      · intro he; subst he
        exact ⟨Nat.le_refl _, by simp, hp, fun e' h1 h2 => by omega⟩
      · rintro ⟨h1, _, _, h4⟩
        by_cases hee : e0 = e
        · exact hee
        · have := h4 e0 (Nat.le_refl _) (by omega); rw [hp] at this; cases this
    · simp only [hp, Bool.false_eq_true, if_false]
      rw [ih (e0 + 1) hs]
      simp only [List.length_cons]
      constructor
      · rintro ⟨h1, h2, h3, h4⟩
        refine ⟨by omega, by omega, h3, ?_⟩
        intro e' h5 h6
        by_cases hee : e' = e0
        · subst hee; simpa using hp
        · exact h4 e' (by omega) h6
      · rintro ⟨h1, h2, h3, h4⟩
        have hne : e0 ≠ e := by intro hh; subst hh; exact hp h3
        exact ⟨by omega, by omega, h3, fun e' h5 h6 => h4 e' (by omega) h6⟩

/-- the invariant is preserved by the text loop of `ManberSub` -/
theorem runLevels_rep (codes : List Nat) (hm : codes.length ≤ 63) (cs seen : List Nat) (rs : List W)
    (hcs : ∀ c ∈ cs, c < 26) (hr : RepAll codes seen 0 rs) :
    RepAll codes (cs.reverse ++ seen) 0
      (runLevels (fun sindx => subLevels (1#64 <<< codes.length) (~~~ omaskWord codes) sindx 0) (smat codes) rs cs) := by
  induction cs generalizing seen rs with
  | nil => simpa [runLevels] using hr
  | cons c cs ih =>
    simp only [runLevels, List.reverse_cons, List.append_assoc, List.singleton_append]
    apply ih
    · intro c' hc'; exact hcs c' (List.mem_cons_of_mem _ hc')
    · rw [smat_getD codes c (hcs c (by simp))]
      exact subLevels_rep codes seen c hm rs 0 0 hr (Or.inl ⟨rfl, rfl⟩)

theorem runLevels_length (codes : List Nat) (cs : List Nat) (rs : List W) :
    (runLevels (fun sindx => subLevels (1#64 <<< codes.length) (~~~ omaskWord codes) sindx 0) (smat codes) rs cs).length
      = rs.length := by
  induction cs generalizing rs with
  | nil => rfl
  | cons c cs ih => simp only [runLevels]; rw [ih, subLevels_length]

/-- the initial words (`smask` at every level) satisfy the invariant for the empty text -/
theorem init_rep (codes : List Nat) (n : Nat) :
    RepAll codes [] 0 (List.replicate n (1#64 <<< codes.length)) := by
  intro k r h
  have hr : r = 1#64 <<< codes.length := by
    rw [List.getElem?_replicate] at h
    split at h <;> simp_all
  subst hr
  intro j hj1 hjm
  rw [one_shl_bit, take_reverse_succ codes j hj1 hjm]
  have : ¬ (codes.length - j = codes.length) := by omega
  simp [this, fits]

/-! ## Hamming cost -/

theorem oadd_comm (a b : Option Nat) : oadd a b = oadd b a := by
  cases a <;> cases b <;> simp [oadd, Nat.add_comm]

theorem oadd_assoc (a b c : Option Nat) : oadd (oadd a b) c = oadd a (oadd b c) := by
  cases a <;> cases b <;> cases c <;> simp [oadd, Nat.add_assoc]

theorem fits_iff_hamCost (q w : List Nat) (e : Nat) :
    fits q w e = true ↔ ∃ d, hamCost q w = some d ∧ d ≤ e := by
  induction q generalizing w e with
  | nil => simp [fits, hamCost]
  | cons a q ih =>
    cases w with
    | nil => simp [fits, hamCost]
    | cons c w =>
      simp only [fits, hamCost, pen]
      by_cases ha : accepts a c
      · simp only [ha, if_true]
        rw [ih]
        constructor
        · rintro ⟨d, h1, h2⟩; exact ⟨d, by simp [h1, oadd], h2⟩
        · rintro ⟨d, h1, h2⟩
          cases hh : hamCost q w with
          | none => simp [hh, oadd] at h1
          | some d' => simp [hh, oadd] at h1; exact ⟨d', rfl, by omega⟩
      · simp only [ha, Bool.false_eq_true, if_false]
        by_cases ho : oblig a
        · simp [ho, oadd]
        · simp only [ho, Bool.not_false, Bool.true_and, Bool.false_eq_true, if_false]
          cases e with
          | zero =>
            simp only [Bool.false_eq_true, false_iff]
            rintro ⟨d, h1, h2⟩
            cases hh : hamCost q w with
            | none => simp [hh, oadd] at h1
            | some d' => simp [hh, oadd] at h1; omega
          | succ e' =>
            simp only []
            rw [ih]
            constructor
            · rintro ⟨d, h1, h2⟩; exact ⟨1 + d, by simp [h1, oadd], by omega⟩
            · rintro ⟨d, h1, h2⟩
              cases hh : hamCost q w with
              | none => simp [hh, oadd] at h1
              | some d' => simp [hh, oadd] at h1; exact ⟨d', rfl, by omega⟩

/-- least budget = the Hamming cost -/
theorem least_fits (q w : List Nat) (k : Nat) :
    (fits q w k = true ∧ ∀ e', 0 ≤ e' → e' < k → fits q w e' = false) ↔ hamCost q w = some k := by
  constructor
  · rintro ⟨h1, h2⟩
    obtain ⟨d, hd, hdk⟩ := (fits_iff_hamCost q w k).1 h1
    by_cases hlt : d < k
    · have := h2 d (Nat.zero_le _) hlt
      have h3 : fits q w d = true := (fits_iff_hamCost q w d).2 ⟨d, hd, Nat.le_refl _⟩
      rw [h3] at this; cases this
    · have : d = k := by omega
      rw [← this]; exact hd
  · intro h
    refine ⟨(fits_iff_hamCost q w k).2 ⟨k, h, Nat.le_refl _⟩, ?_⟩
    intro e' _ hlt
    cases hf : fits q w e' with
    | false => rfl
    | true =>
      obtain ⟨d, hd, hde⟩ := (fits_iff_hamCost q w e').1 hf
      rw [h] at hd; cases hd; omega

theorem hamCost_short (q w : List Nat) (h : w.length < q.length) : hamCost q w = none := by
  induction q generalizing w with
  | nil => simp at h
  | cons a q ih =>
    cases w with
    | nil => rfl
    | cons c w =>
      simp only [hamCost]
      rw [ih w (by simpa using h)]
      cases pen a c <;> rfl

theorem hamCost_append_right (q w rest : List Nat) (h : q.length ≤ w.length) :
    hamCost q (w ++ rest) = hamCost q w := by
  induction q generalizing w with
  | nil => rfl
  | cons a q ih =>
    cases w with
    | nil => simp at h
    | cons c w => simp only [List.cons_append, hamCost]; rw [ih w (by simpa using h)]

theorem hamCost_snoc (p w : List Nat) (a c : Nat) (h : p.length = w.length) :
    hamCost (p ++ [a]) (w ++ [c]) = oadd (hamCost p w) (pen a c) := by
  induction p generalizing w with
  | nil =>
    cases w with
    | nil => simp [hamCost, oadd_comm]
    | cons _ _ => simp at h
  | cons b p ih =>
    cases w with
    | nil => simp at h
    | cons d w =>
      simp only [List.cons_append, hamCost]
      rw [ih w (by simpa using h), oadd_assoc]

theorem hamCost_reverse (p w : List Nat) (h : p.length = w.length) :
    hamCost p.reverse w.reverse = hamCost p w := by
  induction p generalizing w with
  | nil => cases w <;> simp [hamCost]
  | cons a p ih =>
    cases w with
    | nil => simp at h
    | cons c w =>
      simp only [List.reverse_cons, hamCost]
      rw [hamCost_snoc _ _ _ _ (by simpa using h), ih w (by simpa using h), oadd_comm]

/-! ## exactness of `ManberSub` -/

theorem window_length (data : List Nat) (begin length : Nat) :
    (window data begin length).length = min (begin + length) data.length - begin := by
  unfold window
  simp only [List.length_take, List.length_drop]
  omega

/-- the Hamming cost read by the automaton (reversed pattern against the reversed text read so far) is the cost of
the pattern against the text at the start position of the window that ends at the current position -/
theorem hamCost_window (codes data : List Nat) (begin length t k : Nat) (ht : t < (window data begin length).length) :
    hamCost codes.reverse (((window data begin length).take (t + 1)).reverse) = some k ↔
      codes.length ≤ t + 1 ∧ hamCost codes (data.drop (begin + (t + 1 - codes.length))) = some k := by
  have hwl := window_length data begin length
  by_cases hshort : t + 1 < codes.length
  · rw [hamCost_short _ _ (by simp; omega)]
    constructor
    · intro h; cases h
    · rintro ⟨h, _⟩; omega
  · have hle : codes.length ≤ t + 1 := by omega
    generalize hd : t + 1 - codes.length = d
    have hu : (window data begin length).take (t + 1) = (data.drop begin).take (t + 1) := by
      unfold window
      rw [List.take_take]
      congr 1
      omega
    rw [hu]
    -- split the text read so far
    have hsplit : (data.drop begin).take (t + 1) =
        ((data.drop begin).take (t + 1)).take d ++ ((data.drop begin).take (t + 1)).drop d :=
      (List.take_append_drop d _).symm
    have hlen : (((data.drop begin).take (t + 1)).drop d).length = codes.length := by
      simp only [List.length_drop, List.length_take]
      omega
    rw [hsplit, List.reverse_append,
      hamCost_append_right _ _ _ (by simp only [List.length_reverse]; omega),
      hamCost_reverse _ _ hlen.symm]
    -- the last `m` symbols read are a prefix of `data.drop (begin + d)`
    have hpre : data.drop (begin + d) =
        ((data.drop begin).take (t + 1)).drop d ++ (data.drop begin).drop (t + 1) := by
      rw [List.drop_take, ← List.drop_drop]
      have : (List.drop d (List.drop begin data)).drop (t + 1 - d) = List.drop (t + 1) (List.drop begin data) := by
        rw [List.drop_drop]; congr 1; omega
      rw [← this, List.take_append_drop]
    rw [hpre, hamCost_append_right _ _ _ (by omega)]
    constructor
    · intro h; exact ⟨hle, h⟩
    · rintro ⟨_, h⟩; exact h

/-- **the substitution automaton is exact**: `(i, k)` is pushed on the hit stacks iff the pattern lies at position `i`
inside the scanned window, its Hamming distance to the text there is `k` (no mismatch at an obligatory position) and `k`
is within the budget. -/
theorem manberSub_mem (P : Pattern) (data : List Nat) (begin length : Nat)
    (hm1 : 1 ≤ P.patlen) (hm : P.patlen ≤ 63) (hd : ∀ c ∈ data, c < 26) (i : Int) (k : Nat) :
    (i, k) ∈ manberSub P data begin length ↔
      ∃ i' : Nat, i = (i' : Int) ∧ begin ≤ i' ∧ i' + P.patlen ≤ min (begin + length) data.length ∧
        hamCost P.codes (data.drop i') = some k ∧ k ≤ P.maxerr := by
  unfold manberSub Pattern.patlen at *
  simp only []
  rw [errScan_mem]
  have hwl := window_length data begin length
  have hwin : ∀ c ∈ window data begin length, c < 26 := by
    intro c hc
    unfold window at hc
    exact hd c (List.mem_of_mem_drop (List.mem_of_mem_take hc))
  have hfirst : ∀ t, t < (window data begin length).length →
      (firstHit (runLevels (fun sindx => subLevels (1#64 <<< P.codes.length) (~~~ omaskWord P.codes) sindx 0) (smat P.codes)
          (List.replicate (P.maxerr + 1) (1#64 <<< P.codes.length)) ((window data begin length).take (t + 1))) 0 = some k ↔
        hamCost P.codes.reverse (((window data begin length).take (t + 1)).reverse) = some k ∧ k ≤ P.maxerr) := by
    intro t _
    have hrep := runLevels_rep P.codes hm ((window data begin length).take (t + 1)) []
      (List.replicate (P.maxerr + 1) (1#64 <<< P.codes.length))
      (fun c hc => hwin c (List.mem_of_mem_take hc)) (init_rep P.codes _)
    rw [firstHit_spec (fun e => fits P.codes.reverse (((window data begin length).take (t + 1)).reverse) e)]
    · rw [runLevels_length, List.length_replicate]
      constructor
      · rintro ⟨_, h2, h3, h4⟩
        exact ⟨(least_fits _ _ _).1 ⟨h3, fun e' h5 h6 => h4 e' h5 h6⟩, by omega⟩
      · rintro ⟨h1, h2⟩
        have := (least_fits _ _ _).2 h1
        exact ⟨Nat.zero_le _, by omega, this.1, this.2⟩
    · intro e r hr
      have := hrep e r hr P.codes.length hm1 (Nat.le_refl _)
      simpa using this
  constructor
  · rintro ⟨t, ht, hi, hf⟩
    obtain ⟨hc, hk⟩ := (hfirst t ht).1 hf
    obtain ⟨hle, hc⟩ := (hamCost_window P.codes data begin length t k ht).1 hc
    refine ⟨begin + (t + 1 - P.codes.length), ?_, by omega, by omega, hc, hk⟩
    rw [hi]; omega
  · rintro ⟨i', hi, hb, he, hc, hk⟩
    have ht : i' + P.codes.length - 1 - begin < (window data begin length).length := by omega
    refine ⟨i' + P.codes.length - 1 - begin, ht, by rw [hi]; omega, ?_⟩
    rw [hfirst _ ht]
    refine ⟨?_, hk⟩
    rw [hamCost_window P.codes data begin length _ k ht]
    refine ⟨by omega, ?_⟩
    have : begin + (i' + P.codes.length - 1 - begin + 1 - P.codes.length) = i' := by omega
    rw [this]; exact hc

/-! ## `ManberNoErr` is the one-level substitution automaton; order of the hits -/

theorem noErrScan_eq (m : Nat) (smask cmask : W) (sm : List W) (pos : Nat) (r : W) (cs : List Nat) :
    noErrScan m smask sm pos (r ||| smask) cs =
      errScan m (fun sindx => subLevels smask cmask sindx 0) sm pos [r] cs := by
  induction cs generalizing pos r with
  | nil => rfl
  | cons c cs ih =>
    simp only [noErrScan, errScan, subLevels]
    have hstep : (0 : W) >>> 1 &&& cmask ||| (r ||| smask) >>> 1 &&& sm.getD c 0 = ((r ||| smask) >>> 1) &&& sm.getD c 0 := by
      simp
    rw [hstep, ih]
    generalize ((r ||| smask) >>> 1) &&& sm.getD c 0 = x
    simp only [firstHit]
    cases hb : x.getLsbD 0 <;> simp only [Bool.false_eq_true, if_false, if_true]

theorem manberNoErr_eq_sub (P : Pattern) (data : List Nat) (begin length : Nat) :
    manberNoErr P data begin length = manberSub { P with maxerr := 0 } data begin length := by
  unfold manberNoErr manberSub Pattern.patlen
  simp only [Nat.zero_add, List.replicate_one]
  have : (1#64 <<< P.codes.length : W) = (1#64 <<< P.codes.length) ||| (1#64 <<< P.codes.length) := by simp
  conv => lhs; arg 5; rw [this]
  exact noErrScan_eq _ _ (~~~ omaskWord P.codes) _ _ _ _

/-- hits are pushed in strictly increasing order of position (so each position is reported at most once) -/
theorem errScan_sorted (m : Nat) (levels : W → List W → List W) (sm : List W) (pos : Nat) (rs : List W) (cs : List Nat) :
    (errScan m levels sm pos rs cs).Pairwise (fun a b => a.1 < b.1) := by
  induction cs generalizing pos rs with
  | nil => simp [errScan]
  | cons c cs ih =>
    simp only [errScan]
    have hrest : ∀ x ∈ errScan m levels sm (pos + 1) (levels (sm.getD c 0) rs) cs, ((pos : Nat) : Int) - m + 1 < x.1 := by
      rintro ⟨i, k⟩ hx
      obtain ⟨t, _, hi, _⟩ := (errScan_mem _ _ _ _ _ _ _ _).1 hx
      simp only [hi]; omega
    cases firstHit (levels (sm.getD c 0) rs) 0 with
    | none => exact ih _ _
    | some e => exact List.pairwise_cons.2 ⟨fun x hx => hrest x hx, ih _ _⟩

/-! ## reverse-complement symmetry -/

/-- complement of a sequence symbol (letter index 0..25) as `obiseq` computes it on the stored lower-case byte -/
def compSym (c : Nat) : Nat := (SeqOps.nucComplement (UInt8.ofNat (97 + c))).toNat - 97

/-- reverse complement of an encoded sequence -/
def rcData (d : List Nat) : List Nat := (d.map compSym).reverse

/-- `a'` is the complement of pattern position `a`: same obligatory flag, accepts exactly the complements
(symbol `u` = 20 excepted: `obiseq` complements it to `a`, but no pattern class contains `u` itself) -/
def MirrorCode (a a' : Nat) : Prop :=
  oblig a' = oblig a ∧ ∀ c, c < 26 → c ≠ 20 → accepts a' c = accepts a (compSym c)

/-- position-wise complement relation between two code lists -/
inductive MirrorList : List Nat → List Nat → Prop
  | nil : MirrorList [] []
  | cons {a a' : Nat} {q q' : List Nat} : MirrorCode a a' → MirrorList q q' → MirrorList (a :: q) (a' :: q')

theorem compSym_lt : ∀ c, c < 26 → compSym c < 26 := by decide

theorem pen_mirror (a a' c : Nat) (h : MirrorCode a a') (hc : c < 26) (hu : c ≠ 20) : pen a' c = pen a (compSym c) := by
  unfold pen; rw [h.1, h.2 c hc hu]

theorem hamCost_mirror (q q' w : List Nat) (h : MirrorList q q') (hw : ∀ c ∈ w, c < 26 ∧ c ≠ 20) :
    hamCost q' w = hamCost q (w.map compSym) := by
  induction h generalizing w with
  | nil => rfl
  | cons hab _ ih =>
    cases w with
    | nil => rfl
    | cons c w =>
      simp only [List.map_cons, hamCost]
      rw [pen_mirror _ _ _ hab (hw c (by simp)).1 (hw c (by simp)).2, ih w (fun c' hc' => hw c' (List.mem_cons_of_mem _ hc'))]

/-- the window of `rc d` that mirrors the window `[i, i+m)` of `d` -/
theorem rcData_window (d : List Nat) (i m : Nat) (h : i + m ≤ d.length) :
    ((rcData d).drop (d.length - i - m)).take m = rcData ((d.drop i).take m) := by
  unfold rcData
  have hsplit : d = d.take i ++ ((d.drop i).take m ++ (d.drop i).drop m) := by
    rw [List.take_append_drop, List.take_append_drop]
  have hlen : ((d.drop i).drop m).length = d.length - i - m := by simp; omega
  conv => lhs; rw [hsplit]
  simp only [List.map_append, List.reverse_append, List.append_assoc]
  rw [List.drop_left' (by simp; omega)]
  rw [List.take_left' (by simp; omega)]

theorem MirrorList.length_eq {q q' : List Nat} (h : MirrorList q q') : q'.length = q.length := by
  induction h with
  | nil => rfl
  | cons _ _ ih => simp [ih]

theorem hamCost_take (q w : List Nat) : hamCost q (w.take q.length) = hamCost q w := by
  by_cases h : q.length ≤ w.length
  · conv => rhs; rw [← List.take_append_drop q.length w]
    rw [hamCost_append_right _ _ _ (by simp; omega)]
  · rw [List.take_of_length_le (by omega)]

/-- Hamming cost of the mirrored pattern at position `i` of `d` = cost of the pattern at the mirrored position of `rc d` -/
theorem hamCost_rc (codes codes' d : List Nat) (hmir : MirrorList codes.reverse codes')
    (hd : ∀ c ∈ d, c < 26 ∧ c ≠ 20) (i : Nat) (h : i + codes.length ≤ d.length) :
    hamCost codes' (d.drop i) = hamCost codes ((rcData d).drop (d.length - i - codes.length)) := by
  have hl : codes'.length = codes.length := by simpa using hmir.length_eq
  rw [← hamCost_take codes' (d.drop i), hl,
    hamCost_mirror _ _ _ hmir (fun c hc => hd c (List.mem_of_mem_drop (List.mem_of_mem_take hc))),
    ← hamCost_take codes ((rcData d).drop _), rcData_window d i codes.length h]
  unfold rcData
  have hlen : codes.length = (((d.drop i).take codes.length).map compSym).length := by simp; omega
  rw [← hamCost_reverse _ _ (by simpa using hlen), List.reverse_reverse]

theorem rcData_length (d : List Nat) : (rcData d).length = d.length := by simp [rcData]

theorem rcData_lt (d : List Nat) (hd : ∀ c ∈ d, c < 26) : ∀ c ∈ rcData d, c < 26 := by
  intro c hc
  unfold rcData at hc
  rw [List.mem_reverse, List.mem_map] at hc
  obtain ⟨a, ha, rfl⟩ := hc
  exact compSym_lt a (hd a ha)

/-- **strand symmetry of the substitution matcher** (whole-sequence search): the mirrored pattern `P'` hits `d` at `i`
with `k` errors iff the pattern `P` hits the reverse complement of `d` at the mirrored position with `k` errors -/
theorem manberSub_revcomp (P P' : Pattern) (d : List Nat) (hmir : MirrorList P.codes.reverse P'.codes)
    (he : P'.maxerr = P.maxerr) (hm1 : 1 ≤ P.patlen) (hm : P.patlen ≤ 63)
    (hd : ∀ c ∈ d, c < 26 ∧ c ≠ 20) (i : Int) (k : Nat) :
    (i, k) ∈ manberSub P' d 0 d.length ↔
      ∃ i' : Nat, i = (i' : Int) ∧ i' + P.patlen ≤ d.length ∧
        (((d.length - i' - P.patlen : Nat) : Int), k) ∈ manberSub P (rcData d) 0 d.length := by
  have hl : P'.patlen = P.patlen := by unfold Pattern.patlen; simpa using hmir.length_eq
  rw [manberSub_mem P' d 0 d.length (by omega) (by omega) (fun c hc => (hd c hc).1)]
  simp only [Nat.zero_add, Nat.min_self, Nat.zero_le, true_and, hl, he]
  constructor
  · rintro ⟨i', hi, hle, hc, hk⟩
    refine ⟨i', hi, hle, ?_⟩
    rw [manberSub_mem P (rcData d) 0 d.length hm1 hm (rcData_lt d (fun c hc => (hd c hc).1))]
    refine ⟨d.length - i' - P.patlen, rfl, Nat.zero_le _, ?_, ?_, hk⟩
    · rw [rcData_length]; simp only [Nat.zero_add, Nat.min_self]; omega
    · rw [← hc]; unfold Pattern.patlen at *; exact (hamCost_rc P.codes P'.codes d hmir hd i' hle).symm
  · rintro ⟨i', hi, hle, hmem⟩
    rw [manberSub_mem P (rcData d) 0 d.length hm1 hm (rcData_lt d (fun c hc => (hd c hc).1))] at hmem
    obtain ⟨i'', hi'', _, _, hc, hk⟩ := hmem
    have : i'' = d.length - i' - P.patlen := by omega
    subst this
    refine ⟨i', hi, hle, ?_, hk⟩
    rw [← hc]; unfold Pattern.patlen at *; exact hamCost_rc P.codes P'.codes d hmir hd i' hle

/-! ## Go layer: `FilterBestMatch` keeps reported hits; `AllMatches` does not panic on a linear sequence -/


theorem filterStep_inv (S : Hit → Prop) (st : List Hit × Hit) (m : Hit)
    (h1 : ∀ h ∈ st.1, S h) (h2 : S st.2 ∨ st.2.2.2 ≥ 10000) (hm : S m) :
    (∀ h ∈ (filterStep st m).1, S h) ∧ (S (filterStep st m).2 ∨ (filterStep st m).2.2.2 ≥ 10000) := by
  obtain ⟨filtered, best⟩ := st
  unfold filterStep
  simp only
  split
  · split
    · exact ⟨h1, Or.inl hm⟩
    · exact ⟨h1, h2⟩
  · split
    · rename_i hb
      refine ⟨?_, Or.inl hm⟩
      intro h hh
      rcases List.mem_cons.1 hh with rfl | hh
      · rcases h2 with h2 | h2
        · exact h2
        · simp only at h2 hb; omega
      · exact h1 h hh
    · exact ⟨h1, Or.inl hm⟩

theorem filterFold_inv (S : Hit → Prop) (l : List Hit) (st : List Hit × Hit)
    (h1 : ∀ h ∈ st.1, S h) (h2 : S st.2 ∨ st.2.2.2 ≥ 10000) (hl : ∀ h ∈ l, S h) :
    (∀ h ∈ (l.foldl filterStep st).1, S h) ∧ (S (l.foldl filterStep st).2 ∨ (l.foldl filterStep st).2.2.2 ≥ 10000) := by
  induction l generalizing st with
  | nil => exact ⟨h1, h2⟩
  | cons m l ih =>
    simp only [List.foldl_cons]
    have := filterStep_inv S st m h1 h2 (hl m (by simp))
    exact ih _ this.1 this.2 (fun h hh => hl h (List.mem_cons_of_mem _ hh))

/-- `FilterBestMatch` keeps a subset of the hits of `FindAllIndex` -/
theorem filterBest_subset (res : List Hit) : ∀ h ∈ filterBest res, h ∈ res := by
  intro h hh
  unfold filterBest at hh
  have inv := filterFold_inv (fun x => x ∈ res) res ([], (0, 0, 10000)) (by simp) (Or.inr (by simp)) (fun h hh => hh)
  generalize res.foldl filterStep ([], (0, 0, 10000)) = r at hh inv
  obtain ⟨filtered, best⟩ := r
  simp only [List.mem_reverse] at hh
  split at hh
  · rename_i hb
    rcases List.mem_cons.1 hh with rfl | hh
    · rcases inv.2 with h2 | h2
      · exact h2
      · simp only at h2 hb; omega
    · exact inv.1 h hh
  · exact inv.1 h hh


theorem mapM_option_ne_none {α β : Type} (f : α → Option β) (l : List α) (h : ∀ x ∈ l, f x ≠ none) : l.mapM f ≠ none := by
  induction l with
  | nil => simp
  | cons a l ih =>
    have ha := h a (by simp)
    have hl := ih (fun x hx => h x (List.mem_cons_of_mem _ hx))
    cases hfa : f a with
    | none => exact absurd hfa ha
    | some b =>
      cases hml : l.mapM f with
      | none => exact absurd hml hl
      | some bs => simp [List.mapM_cons, hfa, hml]

theorem errScan_bound (m : Nat) (levels : W → List W → List W) (sm : List W) (pos : Nat) (rs : List W) (cs : List Nat)
    (i : Int) (k : Nat) (h : (i, k) ∈ errScan m levels sm pos rs cs) : i + m ≤ ((pos + cs.length : Nat) : Int) ∧ 1 ≤ cs.length := by
  obtain ⟨t, ht, hi, _⟩ := (errScan_mem _ _ _ _ _ _ _ _).1 h
  rw [hi]; omega

/-- every raw hit ends inside the buffer -/
theorem manberAll_bound (P : Pattern) (data : List Nat) (begin length : Nat) (i : Int) (k : Nat)
    (h : (i, k) ∈ manberAll P data begin length) : i + P.patlen ≤ (data.length : Int) := by
  have hw := window_length data begin length
  unfold manberAll at h
  split at h
  · rw [manberNoErr_eq_sub] at h
    have := errScan_bound _ _ _ _ _ _ _ _ h
    simp only [Pattern.patlen] at this ⊢
    omega
  · split at h
    · have := errScan_bound _ _ _ _ _ _ _ _ h
      simp only [Pattern.patlen] at this ⊢
      omega
    · have := errScan_bound _ _ _ _ _ _ _ _ h
      simp only [Pattern.patlen] at this ⊢
      omega

theorem findAllIndex_bound (P : Pattern) (seq : Bytes) (begin length : Int) (h : Hit)
    (hh : h ∈ findAllIndex P seq false begin length) :
    h.1 + P.patlen ≤ (seq.length : Int) ∧ 0 ≤ h.2.2 := by
  unfold findAllIndex seqData at hh
  simp only [Bool.false_eq_true, if_false, List.mem_map, Prod.exists] at hh
  obtain ⟨a, b, hmem, rfl⟩ := hh
  have := manberAll_bound P _ _ _ a b hmem
  simp only [List.length_map] at this
  exact ⟨this, by simp⟩

theorem locatePattern_ne_none (pat frg : Bytes) (h : pat ≠ []) : locatePattern pat frg ≠ none := by
  cases pat with
  | nil => exact absurd rfl h
  | cons a p => simp [locatePattern]

theorem allMatchStep_aux (P : Pattern) (seq : Bytes) (start end_ : Int)
    (hs : goSlice seq start end_ ≠ none) (hp : P.cpat.take P.patlen ≠ []) :
    (match goSlice seq start end_ with
      | none => none
      | some frg =>
        match locatePattern (P.cpat.take P.patlen) frg with
        | none => none
        | some (pb, pe, score) => some ((start + pb, start + pe, score) : Hit)) ≠ none := by
  cases hg : goSlice seq start end_ with
  | none => exact absurd hg hs
  | some frg =>
    simp only
    cases hloc : locatePattern (P.cpat.take P.patlen) frg with
    | none => exact absurd hloc (locatePattern_ne_none _ _ hp)
    | some r => obtain ⟨pb, pe, score⟩ := r; simp

theorem allMatchStep_ne_none (P : Pattern) (seq : Bytes) (h : Hit) (hm1 : 1 ≤ P.patlen) (hc : P.patlen ≤ P.cpat.length)
    (hb : h.1 + P.patlen ≤ (seq.length : Int)) (hk : 0 ≤ h.2.2) : allMatchStep P seq h ≠ none := by
  have hp : P.cpat.take P.patlen ≠ [] := by
    intro h0
    have := congrArg List.length h0
    rw [List.length_take, List.length_nil] at this
    omega
  unfold allMatchStep
  split
  · apply allMatchStep_aux P seq _ _ _ hp
    unfold goSlice
    have : (0 ≤ max (h.1 - h.2.2 * 2) 0 && max (h.1 - h.2.2 * 2) 0 ≤ min (max (h.1 - h.2.2 * 2) 0 + ↑P.patlen + 4 * h.2.2) ↑seq.length
        && min (max (h.1 - h.2.2 * 2) 0 + ↑P.patlen + 4 * h.2.2) ↑seq.length ≤ ↑seq.length) = true := by
      simp only [Bool.and_eq_true, decide_eq_true_eq]
      omega
    simp [this]
  · simp

/-- **`AllMatches` on a linear sequence never panics** (D32 repaired: the re-alignment fragment may be as short as, or
shorter than, the pattern; D19 repaired spans are returned as computed) -/
theorem allMatches_no_panic (P : Pattern) (seq : Bytes) (begin length : Int)
    (hm1 : 1 ≤ P.patlen) (hc : P.patlen ≤ P.cpat.length) :
    allMatches P seq false begin length ≠ .panic := by
  unfold allMatches
  have : (filterBestMatch P seq false begin length).mapM (allMatchStep P seq) ≠ none := by
    apply mapM_option_ne_none
    intro h hh
    have hin := filterBest_subset _ h hh
    have hb := findAllIndex_bound P seq begin length h hin
    exact allMatchStep_ne_none P seq h hm1 hc hb.1 hb.2
  cases hm : (filterBestMatch P seq false begin length).mapM (allMatchStep P seq) with
  | none => exact absurd hm this
  | some l => simp

end ObiVerif.Apat
