import ObiVerif.Model.ReseqSteps
import ObiVerif.Lemmas.Reseq
/-! # Safety invariant, deadlock freedom and termination of the small-step re-sequencing stage (C03) -/
namespace ObiVerif.ReseqSteps

theorem held_set_count (ws : List WPc) (i : Nat) (old new : WPc) (h : ws[i]? = some old) (k : Nat) :
    (held (ws.set i new)).count k + (held [old]).count k = (held ws).count k + (held [new]).count k := by
  induction ws generalizing i with
  | nil => simp at h
  | cons a t ih =>
    cases i with
    | zero =>
      simp at h; subst h
      cases a <;> cases new <;> simp [held, List.count_cons] <;> omega
    | succ j =>
      have := ih j (by simpa using h)
      cases a <;> simp [held, List.count_cons] at this ⊢ <;> omega

theorem held_set_length (ws : List WPc) (i : Nat) (old new : WPc) (h : ws[i]? = some old) :
    (held (ws.set i new)).length + (held [old]).length = (held ws).length + (held [new]).length := by
  induction ws generalizing i with
  | nil => simp at h
  | cons a t ih =>
    cases i with
    | zero =>
      simp at h; subst h
      cases a <;> cases new <;> simp [held]
    | succ j =>
      have := ih j (by simpa using h)
      cases a <;> simp [held] at this ⊢ <;> omega

theorem notDone_set (ws : List WPc) (i : Nat) (old new : WPc) (h : ws[i]? = some old) :
    notDone (ws.set i new) + notDone [old] = notDone ws + notDone [new] := by
  induction ws generalizing i with
  | nil => simp at h
  | cons a t ih =>
    cases i with
    | zero =>
      simp at h; subst h
      cases a <;> cases new <;> simp [notDone] <;> omega
    | succ j =>
      have := ih j (by simpa using h)
      cases a <;> simp [notDone] at this ⊢ <;> omega

theorem mem_of_getElem? {ws : List WPc} {i : Nat} {pc : WPc} (h : ws[i]? = some pc) : pc ∈ ws :=
  List.mem_of_getElem? h

theorem held_all_done (ws : List WPc) (h : ∀ pc ∈ ws, pc = .done) : held ws = [] := by
  induction ws with
  | nil => rfl
  | cons a t ih =>
    have ha := h a (by simp)
    subst ha
    simp [held, ih (fun pc hpc => h pc (by simp [hpc]))]


/-- the invariant, generalised by the batches `plus` (taken out of the system by the step under way, not
yet put back) and `minus` (already put at their new place, not yet removed from the old one) -/
structure GInv (n N : Nat) (plus minus : List Nat) (s : St) : Prop where
  cons : ∀ k, cnt s k + plus.count k = (if k < n then 1 else 0) + minus.count k
  hist : s.delivered ++ s.cout = List.range (s.next + minus.length)
  turn : ∀ k, s.spc = .send k → k = s.next
  pend : s.spc = .recv → s.next ∉ s.pending
  pdone : s.spc = .done → s.pending = []
  fin : s.inClosed = true → s.todo = [] ∧ s.cin = []
  fw : ∀ pc ∈ s.ws, pc = .done → s.inClosed = true
  fmid : s.midClosed = true → (∀ pc ∈ s.ws, pc = .done) ∧ s.cmid = []
  fs : s.spc = .done → s.midClosed = true
  fout : s.outClosed = true → s.spc = .done ∧ s.cout = []
  len : s.ws.length = N
  arr : ∀ k, s.arrived.count k + minus.count k =
    s.pending.count k + (sheld s.spc).count k + s.cout.count k + s.delivered.count k

/-- **Safety invariant**: every batch `0..n-1` is at exactly one place of the system (no loss, no
duplicate); what has been sent downstream is `0,1,…,next-1` in that order; the protocol flags are
consistent (a channel is closed only when nothing is or will be in it) -/
abbrev Inv (n N : Nat) (s : St) : Prop := GInv n N [] [] s

theorem inv_init (n N : Nat) (src : List Nat) (hp : src.Perm (List.range n)) : Inv n N (init src N) := by
  refine ⟨?_, rfl, ?_, ?_, ?_, ?_, ?_, ?_, ?_, ?_, ?_, ?_⟩
  · intro k
    have hh : held (List.replicate N WPc.idle) = [] := by
      induction N with
      | zero => rfl
      | succ m ih => simp [List.replicate_succ, held, ih]
    simp [cnt, init, hh, sheld, hp.count_eq, List.count_range]
  · intro k h; cases h
  · intro _; simp [init]
  · intro h; cases h
  · intro h; cases h
  · intro pc hpc hd
    simp [init] at hpc
    rw [hpc.2] at hd; cases hd
  · intro h; cases h
  · intro h; cases h
  · intro h; cases h
  · simp [init]
  · intro k; simp [init, sheld]

theorem sorterGot_inv {n N : Nat} (s0 : St) (k : Nat) (h : GInv n N [k] [] s0) (hr : s0.spc = .recv) :
    Inv n N (sorterGot s0 k) := by
  unfold sorterGot
  split
  · rename_i hk
    refine { h with cons := ?_, turn := ?_, pend := ?_, pdone := ?_, fs := ?_, fout := ?_, arr := ?_ }
    · intro j
      have := h.cons j
      simp only [cnt, hr, sheld, List.count_cons, List.count_append, List.count_nil] at this ⊢
      simp only [beq_iff_eq] at this ⊢
      omega
    · intro k' hk'; cases hk'; exact hk
    · intro hh; cases hh
    · intro hh; cases hh
    · intro hh; cases hh
    · intro ho
      have := (h.fout ho).1
      rw [hr] at this; cases this
    · intro j
      have := h.arr j
      simp only [hr, sheld, List.count_cons, List.count_append, List.count_nil] at this ⊢
      simp only [beq_iff_eq] at this ⊢
      omega
  · rename_i hk
    refine { h with cons := ?_, pend := ?_, pdone := ?_, arr := ?_ }
    · intro j
      have := h.cons j
      simp only [cnt, List.count_cons, List.count_append, List.count_nil] at this ⊢
      simp only [beq_iff_eq] at this ⊢
      omega
    · intro hh
      have := h.pend hr
      simp only [List.mem_cons, not_or]
      exact ⟨fun e => hk e.symm, this⟩
    · intro hh
      show k :: s0.pending = []
      rw [hr] at hh; cases hh
    · intro j
      have := h.arr j
      simp only [List.count_cons, List.count_append, List.count_nil] at this ⊢
      simp only [beq_iff_eq] at this ⊢
      omega

theorem count_erase_add (l : List Nat) (a j : Nat) (h : a ∈ l) :
    (l.erase a).count j + (if a = j then 1 else 0) = l.count j := by
  by_cases e : a = j
  · subst e
    have := List.count_erase_self (a := a) (l := l)
    have hp : 0 < l.count a := List.count_pos_iff.mpr h
    simp only [if_true]; omega
  · have := List.count_erase_of_ne (a := j) (b := a) (l := l) (fun h' => e h'.symm)
    simp only [e, if_false]; omega

theorem afterSend_inv {n N : Nat} (s1 : St) (k : Nat) (h : GInv n N [] [k] s1) (hs : s1.spc = .send k) :
    Inv n N (afterSend s1) := by
  have hk : k = s1.next := h.turn k hs
  have hcnt : ∀ j, j ∈ s1.pending → s1.next < j := by
    intro j hj
    -- `j` is in `pending`, hence not among what has been sent (`range (next+1)`)
    have hc := h.cons j
    have hp : 0 < s1.pending.count j := List.count_pos_iff.mpr hj
    have hh : (s1.delivered ++ s1.cout).count j = if j < s1.next + 1 then 1 else 0 := by
      rw [h.hist]; simp [List.count_range]
    simp only [cnt, hs, sheld, List.count_append, List.count_cons, List.count_nil, beq_iff_eq] at hc hh
    have hG : (if j < n then 1 else 0) ≤ 1 := by split <;> omega
    by_cases hlt : j < s1.next + 1
    · simp only [hlt, if_true] at hh
      omega
    · omega
  unfold afterSend
  split
  · rename_i hm
    refine { h with cons := ?_, hist := ?_, turn := ?_, pend := ?_, pdone := ?_, fs := ?_, fout := ?_, arr := ?_ }
    · intro j
      have := h.cons j
      have he := count_erase_add s1.pending (s1.next + 1) j hm
      simp only [cnt, hs, sheld, List.count_cons, List.count_append, List.count_nil, beq_iff_eq] at this ⊢
      omega
    · have := h.hist; simpa using this
    · intro k' hk'; cases hk'; rfl
    · intro hh; cases hh
    · intro hh; cases hh
    · intro hh; cases hh
    · intro ho
      have := (h.fout ho).1
      rw [hs] at this; cases this
    · intro j
      have := h.arr j
      have he := count_erase_add s1.pending (s1.next + 1) j hm
      simp only [hs, sheld, List.count_cons, List.count_append, List.count_nil, beq_iff_eq] at this ⊢
      omega
  · rename_i hm
    refine { h with cons := ?_, hist := ?_, turn := ?_, pend := ?_, pdone := ?_, fs := ?_, fout := ?_, arr := ?_ }
    · intro j
      have := h.cons j
      simp only [cnt, hs, sheld, List.count_cons, List.count_append, List.count_nil, beq_iff_eq] at this ⊢
      omega
    · have := h.hist; simpa using this
    · intro k' hk'; cases hk'
    · intro _; exact hm
    · intro hh; cases hh
    · intro hh; cases hh
    · intro ho
      have := (h.fout ho).1
      rw [hs] at this; cases this
    · intro j
      have := h.arr j
      simp only [hs, sheld, List.count_cons, List.count_append, List.count_nil, beq_iff_eq] at this ⊢
      omega

/-- when the sorter sees its input closed nothing is left in the `received` map -/
theorem pending_nil_at_close {n N : Nat} (hN : 0 < N) (s : St) (h : Inv n N s) (hr : s.spc = .recv)
    (hm : s.midClosed = true) : s.pending = [] := by
  obtain ⟨hall, hcm⟩ := h.fmid hm
  have hne : s.ws ≠ [] := by
    intro e; have := h.len; rw [e] at this; simp at this; omega
  obtain ⟨pc, hpc⟩ := List.exists_mem_of_ne_nil _ hne
  obtain ⟨ht, hci⟩ := h.fin (h.fw pc hpc (hall pc hpc))
  have hh := held_all_done s.ws hall
  have hist : ∀ j, (s.delivered ++ s.cout).count j = if j < s.next then 1 else 0 := by
    intro j; rw [h.hist]; simp [List.count_range]
  have hnext : n ≤ s.next := by
    apply Nat.le_of_not_lt
    intro hlt
    have hc := h.cons s.next
    have hp : s.pending.count s.next = 0 := List.count_eq_zero.mpr (h.pend hr)
    have := hist s.next
    simp only [cnt, ht, hci, hh, hcm, hr, sheld, hp, List.count_nil, List.count_append, hlt] at hc this
    simp at this hc
    omega
  apply List.eq_nil_iff_forall_not_mem.mpr
  intro j hj
  have hp : 0 < s.pending.count j := List.count_pos_iff.mpr hj
  have hc := h.cons j
  have := hist j
  simp only [cnt, ht, hci, hh, hcm, hr, sheld, List.count_nil, List.count_append] at hc this
  simp at hc
  by_cases hjn : j < n
  · have : j < s.next := by omega
    simp only [this, if_true] at *
    simp only [hjn, if_true] at hc
    omega
  · simp only [hjn, if_false] at hc
    omega

theorem step_inv {cap n N : Nat} (hN : 0 < N) {s s' : St} (h : Inv n N s) (st : Step cap s s') :
    Inv n N s' := by
  cases st with
  | prodSend k t h1 _ =>
    refine { h with cons := ?_, fin := ?_ }
    · intro j
      have := h.cons j
      simp only [cnt, h1, List.count_cons, List.count_append, List.count_nil] at this ⊢
      omega
    · intro hc
      have := (h.fin hc).1
      simp [h1] at this
  | prodHand k t i h1 _ h3 =>
    refine { h with cons := ?_, fin := ?_, fw := ?_, fmid := ?_, len := ?_ }
    · intro j
      have := h.cons j
      have hs := held_set_count s.ws i _ (.hold k) h3 j
      simp only [cnt, h1, List.count_cons, List.count_nil, held] at this hs ⊢
      omega
    · intro hc
      have := (h.fin hc).1
      simp [h1] at this
    · intro pc hpc hd
      rcases List.mem_or_eq_of_mem_set hpc with hm | he
      · exact h.fw pc hm hd
      · subst he; cases hd
    · intro hm
      have := (h.fmid hm).1 _ (mem_of_getElem? h3)
      cases this
    · simpa using h.len
  | inClose h1 h2 _ =>
    refine { h with fin := ?_, fw := ?_ }
    · intro _; exact ⟨h1, h2⟩
    · intro _ _ _; rfl
  | wRecv i k t h1 h2 =>
    refine { h with cons := ?_, fin := ?_, fw := ?_, fmid := ?_, len := ?_ }
    · intro j
      have := h.cons j
      have hs := held_set_count s.ws i _ (.hold k) h1 j
      simp only [cnt, h2, List.count_cons, List.count_nil, held] at this hs ⊢
      omega
    · intro hc
      have := (h.fin hc).2
      simp [h2] at this
    · intro pc hpc hd
      rcases List.mem_or_eq_of_mem_set hpc with hm | he
      · exact h.fw pc hm hd
      · subst he; cases hd
    · intro hm
      have := (h.fmid hm).1 _ (mem_of_getElem? h1)
      cases this
    · simpa using h.len
  | wFinish i h1 _ h3 =>
    refine { h with cons := ?_, fw := ?_, fmid := ?_, len := ?_ }
    · intro j
      have := h.cons j
      have hs := held_set_count s.ws i _ .done h1 j
      simp only [cnt, List.count_nil, held] at this hs ⊢
      omega
    · intro _ _ _; exact h3
    · intro hm
      have := (h.fmid hm).1 _ (mem_of_getElem? h1)
      cases this
    · simpa using h.len
  | wSend i k h1 _ =>
    refine { h with cons := ?_, fw := ?_, fmid := ?_, len := ?_ }
    · intro j
      have := h.cons j
      have hs := held_set_count s.ws i _ .idle h1 j
      simp only [cnt, List.count_cons, List.count_append, List.count_nil, held] at this hs ⊢
      omega
    · intro pc hpc hd
      rcases List.mem_or_eq_of_mem_set hpc with hm | he
      · exact h.fw pc hm hd
      · subst he; cases hd
    · intro hm
      have := (h.fmid hm).1 _ (mem_of_getElem? h1)
      cases this
    · simpa using h.len
  | wHand i k h1 _ h3 =>
    refine sorterGot_inv { s with ws := s.ws.set i .idle } k ?_ h3
    refine { h with cons := ?_, fw := ?_, fmid := ?_, len := ?_ }
    · intro j
      have := h.cons j
      have hs := held_set_count s.ws i _ .idle h1 j
      simp only [cnt, List.count_cons, List.count_nil, held] at this hs ⊢
      omega
    · intro pc hpc hd
      rcases List.mem_or_eq_of_mem_set hpc with hm | he
      · exact h.fw pc hm hd
      · subst he; cases hd
    · intro hm
      have := (h.fmid hm).1 _ (mem_of_getElem? h1)
      cases this
    · simpa using h.len
  | midClose h1 h2 _ =>
    refine { h with fmid := ?_, fs := ?_ }
    · intro _; exact ⟨h1, h2⟩
    · intro _; rfl
  | sRecv k t h1 h2 =>
    refine sorterGot_inv { s with cmid := t } k ?_ h1
    refine { h with cons := ?_, fmid := ?_ }
    · intro j
      have := h.cons j
      simp only [cnt, h2, List.count_cons, List.count_append, List.count_nil] at this ⊢
      omega
    · intro hm
      have := (h.fmid hm).2
      simp [h2] at this
  | sFinish h1 _ h3 =>
    have hp := pending_nil_at_close hN s h h1 h3
    refine { h with cons := ?_, turn := ?_, pend := ?_, pdone := ?_, fs := ?_, fout := ?_, arr := ?_ }
    · intro j
      have := h.cons j
      simp only [cnt, h1, sheld] at this ⊢
      exact this
    · intro k hk; cases hk
    · intro hh; cases hh
    · intro _; exact hp
    · intro _; exact h3
    · intro ho; exact ⟨rfl, (h.fout ho).2⟩
    · intro j
      have := h.arr j
      simp only [h1, sheld] at this ⊢
      exact this
  | sSend k h1 _ =>
    have hk := h.turn k h1
    refine afterSend_inv { s with cout := s.cout ++ [k] } k ?_ h1
    refine { h with cons := ?_, hist := ?_, fout := ?_, arr := ?_ }
    · intro j
      have := h.cons j
      simp only [cnt, List.count_cons, List.count_append, List.count_nil] at this ⊢
      omega
    · have := h.hist
      simp only [List.length_nil, Nat.add_zero, List.length_cons] at this ⊢
      rw [← List.append_assoc, this, hk, List.range_succ]
    · intro ho
      have := (h.fout ho).1
      rw [h1] at this; cases this
    · intro j
      have := h.arr j
      simp only [List.count_cons, List.count_append, List.count_nil] at this ⊢
      omega
  | sHand k h1 h2 =>
    have hk := h.turn k h1
    refine afterSend_inv { s with delivered := s.delivered ++ [k] } k ?_ h1
    refine { h with cons := ?_, hist := ?_, arr := ?_ }
    · intro j
      have := h.cons j
      simp only [cnt, List.count_cons, List.count_append, List.count_nil] at this ⊢
      omega
    · have := h.hist
      simp only [List.length_nil, Nat.add_zero, List.length_cons, h2, List.append_nil] at this ⊢
      rw [this, hk, List.range_succ]
    · intro j
      have := h.arr j
      simp only [List.count_cons, List.count_append, List.count_nil] at this ⊢
      omega
  | outClose h1 h2 _ =>
    refine { h with fout := ?_ }
    intro _; exact ⟨h1, h2⟩
  | cRecv k t h1 =>
    refine { h with cons := ?_, hist := ?_, fout := ?_, arr := ?_ }
    · intro j
      have := h.cons j
      simp only [cnt, h1, List.count_cons, List.count_append, List.count_nil] at this ⊢
      omega
    · have := h.hist
      simp only [h1] at this
      simpa using this
    · intro ho
      have := (h.fout ho).2
      simp [h1] at this
    · intro j
      have := h.arr j
      simp only [h1, List.count_cons, List.count_append, List.count_nil] at this ⊢
      omega

theorem reach_inv {cap n N : Nat} (hN : 0 < N) {src : List Nat} (hp : src.Perm (List.range n)) {s : St}
    (hr : Reach cap src N s) : Inv n N s := by
  induction hr with
  | init => exact inv_init n N src hp
  | step _ st ih => exact step_inv hN ih st

/-! ## Result of a finished run -/

theorem final_result {n N : Nat} (hN : 0 < N) (s : St) (h : Inv n N s) (hf : Final s) :
    s.delivered = List.range n ∧ s.arrived.Perm (List.range n) ∧ s.todo = [] ∧ s.cin = [] ∧
    s.cmid = [] ∧ s.pending = [] ∧ held s.ws = [] := by
  obtain ⟨ho, hco⟩ := hf
  have hsd := (h.fout ho).1
  have hm := h.fs hsd
  obtain ⟨hall, hcm⟩ := h.fmid hm
  have hne : s.ws ≠ [] := by
    intro e; have := h.len; rw [e] at this; simp at this; omega
  obtain ⟨pc, hpc⟩ := List.exists_mem_of_ne_nil _ hne
  obtain ⟨ht, hci⟩ := h.fin (h.fw pc hpc (hall pc hpc))
  have hh := held_all_done s.ws hall
  have hp := h.pdone hsd
  have hd : s.delivered = List.range s.next := by
    have := h.hist; simpa [hco] using this
  have hcount : ∀ j, s.delivered.count j = if j < n then 1 else 0 := by
    intro j
    have := h.cons j
    simpa [cnt, ht, hci, hh, hcm, hp, hsd, sheld, hco] using this
  have hnext : s.next = n := by
    have h1 : ∀ j, (if j < s.next then 1 else 0) = if j < n then 1 else 0 := by
      intro j; rw [← hcount j, hd]; simp [List.count_range]
    apply Nat.le_antisymm
    · apply Nat.le_of_not_lt; intro hlt
      have := h1 n; simp [hlt] at this
    · apply Nat.le_of_not_lt; intro hlt
      have := h1 s.next; simp [hlt] at this
  refine ⟨by rw [hd, hnext], ?_, ht, hci, hcm, hp, hh⟩
  apply List.perm_iff_count.mpr
  intro j
  have := h.arr j
  simp only [hp, hsd, sheld, hco, List.count_nil] at this
  rw [List.count_range, ← hcount j]; omega

/-! ## Progress: no deadlock -/

/-- in every state that is not final some goroutine can take a step (whatever `cap`, 0 included) -/
theorem progress (cap : Nat) (s : St) (hnf : ¬ Final s) : ∃ s', Step cap s s' := by
  cases hco : s.cout with
  | cons k t => exact ⟨_, Step.cRecv s k t hco⟩
  | nil =>
    cases ho : s.outClosed with
    | true => exact absurd ⟨ho, hco⟩ hnf
    | false =>
      cases hs : s.spc with
      | send k => exact ⟨_, Step.sHand s k hs hco⟩
      | done => exact ⟨_, Step.outClose s hs hco ho⟩
      | recv =>
        cases hcm : s.cmid with
        | cons k t => exact ⟨_, Step.sRecv s k t hs hcm⟩
        | nil =>
          cases hmc : s.midClosed with
          | true => exact ⟨_, Step.sFinish s hs hcm hmc⟩
          | false =>
            by_cases hall : ∀ pc ∈ s.ws, pc = .done
            · exact ⟨_, Step.midClose s hall hcm hmc⟩
            · have : ∃ pc, pc ∈ s.ws ∧ pc ≠ .done := by
                apply Classical.byContradiction
                intro hne
                apply hall
                intro pc hpc
                apply Classical.byContradiction
                intro hnd
                exact hne ⟨pc, hpc, hnd⟩
              obtain ⟨pc, hpc, hnd⟩ := this
              obtain ⟨i, hi⟩ := List.getElem?_of_mem hpc
              cases pc with
              | done => exact absurd rfl hnd
              | hold k => exact ⟨_, Step.wHand s i k hi hcm hs⟩
              | idle =>
                cases hci : s.cin with
                | cons k t => exact ⟨_, Step.wRecv s i k t hi hci⟩
                | nil =>
                  cases hic : s.inClosed with
                  | true => exact ⟨_, Step.wFinish s i hi hci hic⟩
                  | false =>
                    cases htd : s.todo with
                    | cons k t => exact ⟨_, Step.prodHand s k t i htd hci hi⟩
                    | nil => exact ⟨_, Step.inClose s htd hci hic⟩

/-! ## Termination: the ranking function decreases at every step -/

theorem rank_sorterGot (s0 : St) (k : Nat) (hr : s0.spc = .recv) :
    rank (sorterGot s0 k) + 1 ≤ rank s0 + 5 := by
  unfold sorterGot
  split <;> simp [rank, hr, sheld] <;> omega

theorem rank_afterSend (s1 : St) (k : Nat) (hs : s1.spc = .send k) :
    rank (afterSend s1) + 3 ≤ rank s1 := by
  unfold afterSend
  split
  · rename_i hm
    have := List.length_erase_of_mem hm
    have hp : 0 < s1.pending.length := List.length_pos_of_mem hm
    simp [rank, hs, sheld, this]; omega
  · simp [rank, hs, sheld]; omega

theorem step_rank {cap : Nat} {s s' : St} (st : Step cap s s') : rank s' < rank s := by
  cases st with
  | prodSend k t h1 _ => simp [rank, h1]; omega
  | prodHand k t i h1 _ h3 =>
    have a := held_set_length s.ws i _ (.hold k) h3
    have b := notDone_set s.ws i _ (.hold k) h3
    simp [rank, h1, held, notDone] at a b ⊢; omega
  | inClose _ _ h3 => simp [rank, h3, b2n]
  | wRecv i k t h1 h2 =>
    have a := held_set_length s.ws i _ (.hold k) h1
    have b := notDone_set s.ws i _ (.hold k) h1
    simp [rank, h2, held, notDone] at a b ⊢; omega
  | wFinish i h1 _ _ =>
    have a := held_set_length s.ws i _ .done h1
    have b := notDone_set s.ws i _ .done h1
    simp [rank, held, notDone] at a b ⊢; omega
  | wSend i k h1 _ =>
    have a := held_set_length s.ws i _ .idle h1
    have b := notDone_set s.ws i _ .idle h1
    simp [rank, held, notDone] at a b ⊢; omega
  | wHand i k h1 _ h3 =>
    have a := held_set_length s.ws i _ .idle h1
    have b := notDone_set s.ws i _ .idle h1
    have c := rank_sorterGot { s with ws := s.ws.set i .idle } k h3
    simp [rank, held, notDone] at a b c ⊢; omega
  | midClose _ _ h3 => simp [rank, h3, b2n]
  | sRecv k t h1 h2 =>
    have c := rank_sorterGot { s with cmid := t } k h1
    simp [rank, h2] at c ⊢; omega
  | sFinish h1 _ _ => simp [rank, h1, sheld]
  | sSend k h1 _ =>
    have c := rank_afterSend { s with cout := s.cout ++ [k] } k h1
    simp [rank, h1, sheld] at c ⊢; omega
  | sHand k h1 _ =>
    have c := rank_afterSend { s with delivered := s.delivered ++ [k] } k h1
    simp [rank, h1, sheld] at c ⊢; omega
  | outClose _ _ h3 => simp [rank, h3, b2n]
  | cRecv k t h1 => simp [rank, h1]

/-- an execution of `m` steps -/
inductive Run (cap : Nat) : St → St → Nat → Prop where
  | refl (s : St) : Run cap s s 0
  | step {s s' s'' : St} {m : Nat} : Step cap s s' → Run cap s' s'' m → Run cap s s'' (m + 1)

theorem run_bounded {cap : Nat} {s s' : St} {m : Nat} (r : Run cap s s' m) : m + rank s' ≤ rank s := by
  induction r with
  | refl s => simp
  | step st _ ih => have := step_rank st; omega

theorem run_reach {cap : Nat} {src : List Nat} {N : Nat} {s s' : St} {m : Nat} (hr : Reach cap src N s)
    (r : Run cap s s' m) : Reach cap src N s' := by
  induction r with
  | refl s => exact hr
  | step st _ ih => exact ih (Reach.step hr st)

/-- from every state a final state is reached by running the system (any scheduling: see `progress`) -/
theorem exists_final_run (cap : Nat) : ∀ (r : Nat) (s : St), rank s ≤ r → ∃ s' m, Run cap s s' m ∧ Final s' := by
  intro r
  induction r with
  | zero =>
    intro s hr
    by_cases hf : Final s
    · exact ⟨s, 0, Run.refl s, hf⟩
    · obtain ⟨s', st⟩ := progress cap s hf
      have := step_rank st; omega
  | succ r ih =>
    intro s hr
    by_cases hf : Final s
    · exact ⟨s, 0, Run.refl s, hf⟩
    · obtain ⟨s', st⟩ := progress cap s hf
      have := step_rank st
      obtain ⟨s'', m, run, hf''⟩ := ih s' (by omega)
      exact ⟨s'', m + 1, Run.step st run, hf''⟩

theorem notDone_replicate (N : Nat) : notDone (List.replicate N WPc.idle) = N := by
  induction N with
  | zero => rfl
  | succ m ih => simp [List.replicate_succ, notDone, ih]

theorem held_replicate (N : Nat) : held (List.replicate N WPc.idle) = [] := by
  induction N with
  | zero => rfl
  | succ m ih => simp [List.replicate_succ, held, ih]

theorem rank_init (src : List Nat) (N : Nat) : rank (init src N) = 8 * src.length + N + 4 := by
  have hh := held_replicate N
  have hn := notDone_replicate N
  simp [rank, init, hh, hn, sheld, b2n]; omega

end ObiVerif.ReseqSteps
