import ObiVerif.Model.TagStored
import ObiVerif.Lemmas.TagSetup
set_option Elab.async false
/-!
# Stored `obitag_ref_index` attributes: `obirefidx` recomputes, `obitag` trusts (C15, glue pass)

Lemmas on `Model/TagStored.lean`, composed from the set-up lemmas of `Lemmas/TagSetup.lean`.
-/
namespace ObiVerif.Tag

open ObiVerif.Kmer (Bytes)
open ObiVerif.Lcs (Err)

/-- the records of the kept list with annotations are the kept list of `Model/TagSetup.lean` -/
theorem keptI_plain (t : Tax.Taxo) (recs : List RefRecI) :
    plain (keptI t recs) = (plain recs).filter (known t) := by
  unfold plain keptI
  rw [List.filter_map]
  rfl

theorem keptI_getElem?_base (t : Tax.Taxo) (recs : List RefRecI) (b : Nat) :
    ((keptI t recs)[b]?).map (·.base) = ((plain recs).filter (known t))[b]? := by
  rw [← keptI_plain]
  unfold plain
  rw [List.getElem?_map]

/-- the output record of `IndexReferenceDB` for kept reference `b`, in terms of the kept list alone -/
theorem refidxOutI_eq (t : Tax.Taxo) (fuel : Nat) (recs : List RefRecI) (b : Nat) (ow : List Nat) :
    refidxOutI t fuel recs b ow =
      (((plain recs).filter (known t))[b]?).map fun r =>
        (r, indexSequenceV t fuel (((plain recs).filter (known t)).filterMap (fun r => Tax.resolve t r.tid)) b
          (refFn ((plain recs).filter (known t))) ow) := by
  unfold refidxOutI
  rw [refidxIndex_eq, ← keptI_getElem?_base, Option.map_map]
  rfl

/-- the worker of `CLIAssignTaxonomy` on records carrying stored indices, last record of the file known: the search on
the kept list, a stored index used as is, a missing one built on the kept list -/
theorem cliAssign1I_eq (t : Tax.Taxo) (fuel : Nat) (nm rk : Nat → Text) (recs : List RefRecI) (q : Bytes)
    (o : List Nat) (ows : Nat → List Nat)
    (hlast : ((((plain recs)).getLast?).map (fun r => !known t r)).getD false = false) :
    cliAssign1I t fuel nm rk recs q o ows =
      (match findClosestsV .tag1 q (refFn ((plain recs).filter (known t))) o with
        | .error _ => .bad .panic
        | .ok fc => identifyText t fuel fc (fun b =>
            match storedFn (keptI t recs) b with
            | some ix => .ok ix
            | none => freshIndex t fuel nm rk (plain recs) b (ows b))) := by
  have hn : hasNil (tag1Setup t (plain recs)).taxa = false := by rw [tag1Setup_hasNil, hlast]
  unfold cliAssign1I identifyTextVCI freshIndex
  simp only
  rw [tag1Setup_aligned, tag1Setup_refs, findClosestsVC_aligned]
  have hix : ∀ b, indexSequenceVT t fuel (tag1Setup t (plain recs)).taxa b (refFn ((plain recs).filter (known t)))
      (fun i => Kmer.count4mer (refFn ((plain recs).filter (known t)) i)) (ows b) =
      indexSequenceV t fuel (((plain recs).filter (known t)).filterMap (fun r => Tax.resolve t r.tid)) b
        (refFn ((plain recs).filter (known t))) (ows b) := by
    intro b
    rw [indexSequenceVT_noNil _ _ _ _ _ _ hn, tag1Setup_taxaIds]
  simp only [hix]
  rfl

/-- every stored index is the one `IndexSequence` builds on the kept list of THIS data base -/
def StoredFresh (t : Tax.Taxo) (fuel : Nat) (nm rk : Nat → Text) (recs : List RefRecI) (ows : Nat → List Nat) : Prop :=
  ∀ b ix, storedFn (keptI t recs) b = some ix → freshIndex t fuel nm rk (plain recs) b (ows b) = .ok ix

/-- stored indices built on the same reference list change nothing -/
theorem cliAssign1I_fresh (t : Tax.Taxo) (fuel : Nat) (nm rk : Nat → Text) (recs : List RefRecI) (q : Bytes)
    (o : List Nat) (ows : Nat → List Nat)
    (hlast : ((((plain recs)).getLast?).map (fun r => !known t r)).getD false = false)
    (hs : StoredFresh t fuel nm rk recs ows) :
    cliAssign1I t fuel nm rk recs q o ows = cliAssign1 t fuel nm rk (plain recs) q o ows := by
  rw [cliAssign1I_eq t fuel nm rk recs q o ows hlast, cliAssign1_eq t fuel nm rk (plain recs) q o ows hlast]
  have hf : (fun b => match storedFn (keptI t recs) b with
      | some ix => (Except.ok ix : Tax.Res TIndex)
      | none => freshIndex t fuel nm rk (plain recs) b (ows b)) =
      fun b => freshIndex t fuel nm rk (plain recs) b (ows b) := by
    funext b
    cases h : storedFn (keptI t recs) b with
    | none => rfl
    | some ix => exact (hs b ix h).symm
  rw [hf]
  rfl

/-- test data: a reference of taxon 3 at distance 1 of `suA` (taxon 4) -/
def suX : RefRec := ⟨[97,99,103,116,99,99], some 3⟩

end ObiVerif.Tag
