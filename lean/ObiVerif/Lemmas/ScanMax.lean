import ObiVerif.Model.FlatFile
import ObiVerif.Lemmas.Chunk
import ObiVerif.Lemmas.Embl
/-!
# The 65536-byte token limit of `bufio.Scanner` in `EmblChunkParser` (property C01)

`linesScanMax max` = the lines the scanner hands over before `Scan()` returns false; `shortLines max`
= every line is shorter than `max`.  Under `shortLines` the limit is invisible (`linesScanMax_short`),
and `shortLines` is inherited by every chunk `ReadSeqFileChunk` cuts out of the file (`pieces_short`).
Without it the scan stops at the first long line and the rest of the chunk is dropped silently
(`linesScanMax_stops`).
-/
namespace ObiVerif.Parse
open ObiVerif.Chunk

theorem shortRun_lt (max : Nat) : ∀ (b : Seq) (n : Nat), shortRun max b n = true → n < max := by
  intro b
  induction b with
  | nil => intro n h; simpa [shortRun] using h
  | cons c t ih =>
    intro n h
    by_cases hc : c = 10
    · subst hc
      simp only [shortRun, beq_self_eq_true, if_true, Bool.and_eq_true, decide_eq_true_eq] at h
      exact h.1
    · have : (c == 10) = false := by simpa using hc
      simp only [shortRun, this] at h
      have := ih (n + 1) h
      omega

theorem shortRun_mono (max : Nat) : ∀ (b : Seq) (m k : Nat), k ≤ m → shortRun max b m = true → shortRun max b k = true := by
  intro b
  induction b with
  | nil => intro m k hk h; simp only [shortRun, decide_eq_true_eq] at h ⊢; omega
  | cons c t ih =>
    intro m k hk h
    by_cases hc : c = 10
    · subst hc
      simp only [shortRun, beq_self_eq_true, if_true, Bool.and_eq_true, decide_eq_true_eq] at h ⊢
      exact ⟨by omega, h.2⟩
    · have : (c == 10) = false := by simpa using hc
      simp only [shortRun, this] at h ⊢
      exact ih (m + 1) (k + 1) (by omega) h

theorem shortRun_append (max : Nat) : ∀ (a b : Seq) (n : Nat), shortRun max (a ++ b) n = true →
    shortRun max a n = true ∧ shortRun max b 0 = true := by
  intro a
  induction a with
  | nil =>
    intro b n h
    simp only [List.nil_append] at h
    exact ⟨by simpa [shortRun] using shortRun_lt max b n h, shortRun_mono max b n 0 (by omega) h⟩
  | cons c t ih =>
    intro b n h
    by_cases hc : c = 10
    · subst hc
      simp only [List.cons_append, shortRun, beq_self_eq_true, if_true, Bool.and_eq_true, decide_eq_true_eq] at h ⊢
      obtain ⟨h1, h2⟩ := ih b 0 h.2
      exact ⟨⟨h.1, h1⟩, h2⟩
    · have : (c == 10) = false := by simpa using hc
      simp only [List.cons_append, shortRun, this] at h ⊢
      exact ih b (n + 1) h

theorem shortLines_append {max : Nat} {a b : Seq} (h : shortLines max (a ++ b) = true) :
    shortLines max a = true ∧ shortLines max b = true := shortRun_append max a b 0 h

theorem shortLines_stripEol {max : Nat} {a : Seq} (h : shortLines max a = true) : shortLines max (stripEol a) = true := by
  obtain ⟨e, he, _⟩ := stripEol_decomp a
  rw [he] at h
  exact (shortLines_append h).1

/-- every chunk of a file without long lines is without long lines -/
theorem pieces_short {Cut : Seq → Seq → Prop} {max : Nat} {cs : List Seq} {t : Seq} (hp : Pieces Cut cs t) :
    shortLines max t = true → ∀ c ∈ cs, shortLines max c = true := by
  induction hp with
  | nil _ => intro _ c hc; cases hc
  | @lastStripped t _ =>
    intro h c hc
    simp only [List.mem_cons, List.not_mem_nil, or_false] at hc
    subst hc
    exact shortLines_stripEol h
  | @lastRaw t _ =>
    intro h c hc
    simp only [List.mem_cons, List.not_mem_nil, or_false] at hc
    subst hc
    exact h
  | @cut a b cs _ _ _ ih =>
    intro h c hc
    obtain ⟨ha, hb⟩ := shortLines_append h
    simp only [List.mem_cons] at hc
    rcases hc with rfl | hc
    · exact shortLines_stripEol ha
    · exact ih hb c hc
  | @skip a b cs _ _ _ ih =>
    intro h c hc
    exact ih (shortLines_append h).2 c hc

/-- `shortRun` in terms of the lines `splitNl` produces -/
theorem shortRun_splitNl (max : Nat) : ∀ (data cur : Seq),
    shortRun max data cur.length =
      ((splitNl data cur).1.all (fun l => decide (l.length < max)) && decide ((splitNl data cur).2.length < max)) := by
  intro data
  induction data with
  | nil => intro cur; simp [shortRun, splitNl]
  | cons c t ih =>
    intro cur
    by_cases hc : c = 10
    · subst hc
      have := ih []
      simp only [List.length_nil] at this
      simp only [shortRun, splitNl, beq_self_eq_true, if_true, this]
      generalize splitNl t [] = p
      obtain ⟨ls, last⟩ := p
      simp [Bool.and_assoc]
    · have h10 : (c == 10) = false := by simpa using hc
      have := ih (c :: cur)
      simp only [List.length_cons] at this
      simp only [shortRun, splitNl, h10, this]
      rfl

/-- without long lines the token limit is invisible -/
theorem linesScanMax_short (max : Nat) (data : Seq) (h : shortLines max data = true) :
    linesScanMax max data = linesScan data := by
  have := shortRun_splitNl max data []
  simp only [List.length_nil] at this
  unfold shortLines at h
  rw [this] at h
  unfold linesScanMax linesScan
  generalize splitNl data [] = p at h
  obtain ⟨ls, last⟩ := p
  simp only [Bool.and_eq_true, decide_eq_true_eq] at h
  obtain ⟨h1, h2⟩ := h
  have h3 : ¬ (max ≤ last.length) := by omega
  simp [h1, h3]

/-- the scan ends with `ErrTooLong` exactly when some line has `max` bytes or more -/
theorem scanErr_eq (max : Nat) (hmax : 0 < max) (data : Seq) : scanErr max data = !shortLines max data := by
  have := shortRun_splitNl max data []
  simp only [List.length_nil] at this
  unfold shortLines scanErr
  rw [this]
  generalize splitNl data [] = p
  obtain ⟨ls, last⟩ := p
  simp only [Bool.not_and]
  congr 1
  cases last with
  | nil => simp; omega
  | cons a t =>
    simp only [List.isEmpty_cons, Bool.not_false, Bool.true_and, List.length_cons]
    by_cases h : t.length + 1 < max
    · have : ¬ (max ≤ t.length + 1) := by omega
      simp [h, this]
    · have : max ≤ t.length + 1 := by omega
      simp [h, this]

theorem scanErr_short (max : Nat) (data : Seq) (h : shortLines max data = true) : scanErr max data = false := by
  have := shortRun_splitNl max data []
  simp only [List.length_nil] at this
  unfold shortLines at h
  rw [this] at h
  unfold scanErr
  generalize splitNl data [] = p at h
  obtain ⟨ls, last⟩ := p
  simp only [Bool.and_eq_true, decide_eq_true_eq] at h
  obtain ⟨h1, h2⟩ := h
  have h3 : ¬ (max ≤ last.length) := by omega
  simp [h1, h3]

theorem parseEmblMax_short (max : Nat) (wf : Bool) (c : Seq) (h : shortLines max c = true) :
    parseEmblMax max wf c = .ok (emblRecs wf c) := by
  unfold parseEmblMax emblRecs
  rw [linesScanMax_short max c h, scanErr_short max c h]
  simp

/-- **fatal exactly on a chunk with a line of `max` bytes or more** (never a panic) -/
theorem parseEmblMax_fatal_iff (max : Nat) (hmax : 0 < max) (wf : Bool) (c : Seq) :
    (parseEmblMax max wf c = .error .fatal ↔ shortLines max c = false) ∧
    (shortLines max c = false → parseEmblMax max wf c = .error .fatal) ∧
    parseEmblMax max wf c ≠ .error .panic := by
  unfold parseEmblMax
  rw [scanErr_eq max hmax c]
  cases shortLines max c <;> simp

/-- `shortLines` of a text cut after a `\n` -/
theorem shortRun_append_nl (max : Nat) (y : Seq) : ∀ (p : Seq) (n : Nat),
    shortRun max (p ++ 10 :: y) n = (shortRun max (p ++ [10]) n && shortRun max y 0) := by
  intro p
  induction p with
  | nil =>
    intro n
    simp only [List.nil_append, shortRun, beq_self_eq_true, if_true]
    by_cases h : n < max
    · have : 0 < max := by omega
      simp [h, this]
    · simp [h]
  | cons c t ih =>
    intro n
    by_cases hc : c = 10
    · subst hc
      simp only [List.cons_append, shortRun, beq_self_eq_true, if_true, ih 0, Bool.and_assoc]
    · have : (c == 10) = false := by simpa using hc
      simp only [List.cons_append, shortRun, this]
      exact ih (n + 1)

theorem shortLines_append_nl (max : Nat) (p y : Seq) :
    shortLines max (p ++ 10 :: y) = (shortLines max (p ++ [10]) && shortLines max y) :=
  shortRun_append_nl max y p 0

/-- `EmblChunkParser` on a chunk without a line of 65536 bytes or more -/
theorem parseEmbl_eq_short (wf : Bool) (c : Seq) (h : shortLines maxScanTok c = true) :
    parseEmbl wf c = .ok (emblRecs wf c) := parseEmblMax_short maxScanTok wf c h

theorem splitNl_noNl : ∀ (l cur : Seq), (∀ c ∈ l, c ≠ 10) → splitNl l cur = ([], cur.reverse ++ l) := by
  intro l
  induction l with
  | nil => intro cur _; simp [splitNl]
  | cons c t ih =>
    intro cur h
    have hc : (c == 10) = false := by simpa using h c (by simp)
    simp only [splitNl, hc]
    rw [ih (c :: cur) (fun x hx => h x (by simp [hx]))]
    simp

/-- **the scan stops at the first long line**: `pre` is empty or ends with `\n` and has no long line,
`l` is a line (no `\n`) of `max` bytes or more: whatever follows, the scanner hands over exactly the
lines of `pre`; the long line and everything after it in the chunk are dropped without an error. -/
theorem linesScanMax_stops (max : Nat) (pre l rest : Seq) (hpre : pre = [] ∨ ∃ p, pre = p ++ [10])
    (hshort : shortLines max pre = true) (hl : ∀ c ∈ l, c ≠ 10) (hlen : max ≤ l.length)
    (hrest : rest = [] ∨ ∃ r, rest = 10 :: r) :
    linesScanMax max (pre ++ l ++ rest) = linesScan pre := by
  -- lines of `l ++ rest`: the first one is `l`
  have htail : ∃ ls last, splitNl (l ++ rest) [] = (ls, last) ∧
      ((ls = [] ∧ last = l) ∨ ∃ ls', ls = l :: ls') := by
    rcases hrest with rfl | ⟨r, rfl⟩
    · refine ⟨[], l, ?_, Or.inl ⟨rfl, rfl⟩⟩
      rw [List.append_nil, splitNl_noNl l [] hl]; simp
    · obtain ⟨h1, _⟩ := splitNl_append r l []
      have h2 : splitNl (l ++ [10]) [] = ([l], []) := by
        have : ∀ (l cur : Seq), (∀ c ∈ l, c ≠ 10) → splitNl (l ++ [10]) cur = ([cur.reverse ++ l], []) := by
          intro l
          induction l with
          | nil => intro cur _; simp [splitNl]
          | cons c t ih =>
            intro cur h
            have hc : (c == 10) = false := by simpa using h c (by simp)
            simp only [List.cons_append, splitNl, hc]
            rw [ih (c :: cur) (fun x hx => h x (by simp [hx]))]
            simp
        simpa using this l [] hl
      rw [h2] at h1
      exact ⟨_, _, h1, Or.inr ⟨_, rfl⟩⟩
  obtain ⟨ls, last, hsp, hcase⟩ := htail
  have hshort' := hshort
  unfold shortLines at hshort'
  rw [show (0 : Nat) = ([] : Seq).length from rfl, shortRun_splitNl max pre []] at hshort'
  rcases hpre with rfl | ⟨p, rfl⟩
  · simp only [List.nil_append]
    unfold linesScanMax linesScan
    rw [hsp]
    rcases hcase with ⟨rfl, rfl⟩ | ⟨ls', rfl⟩
    · have : ¬ (last.length < max) := by omega
      simp [splitNl, hlen]
    · have : ¬ (l.length < max) := by omega
      simp [splitNl, this]
  · have hsplit : p ++ [10] ++ l ++ rest = p ++ 10 :: (l ++ rest) := by simp
    rw [hsplit]
    obtain ⟨h1, h2⟩ := splitNl_append (l ++ rest) p []
    unfold linesScanMax linesScan
    rw [h1, hsp]
    generalize splitNl (p ++ [10]) [] = q at h2 hshort' ⊢
    obtain ⟨ls0, last0⟩ := q
    simp only at h2
    subst h2
    simp only [Bool.and_eq_true, decide_eq_true_eq] at hshort'
    obtain ⟨h3, _⟩ := hshort'
    have hall : ∀ x ∈ ls0, decide (x.length < max) = true := by
      intro x hx; exact List.all_eq_true.mp h3 x hx
    rcases hcase with ⟨rfl, rfl⟩ | ⟨ls', rfl⟩
    · simp only [List.append_nil, h3, if_true]
      have : max ≤ last.length := hlen
      simp [this]
    · have hl' : ¬ (l.length < max) := by omega
      have hnot : (ls0 ++ l :: ls').all (fun x => decide (x.length < max)) = false := by
        simp [List.all_append, hl']
      simp only [hnot]
      rw [List.takeWhile_append_of_pos hall]
      simp [List.takeWhile_cons, hl']

/-- a text that ends with `\n` and has no long line: the scanner hands over its lines, then goes on
with what follows as a fresh scanner would -/
theorem linesScanMax_append (max : Nat) (p y : Seq) (h : shortLines max (p ++ [10]) = true) :
    linesScanMax max (p ++ 10 :: y) = linesScan (p ++ [10]) ++ linesScanMax max y := by
  obtain ⟨h1, h2⟩ := splitNl_append y p []
  unfold shortLines at h
  rw [show (0 : Nat) = ([] : Seq).length from rfl, shortRun_splitNl max (p ++ [10]) []] at h
  unfold linesScanMax linesScan
  rw [h1]
  generalize splitNl (p ++ [10]) [] = q at h2 h ⊢
  obtain ⟨ls0, last0⟩ := q
  simp only at h2
  subst h2
  simp only [Bool.and_eq_true, decide_eq_true_eq] at h
  obtain ⟨h3, _⟩ := h
  have hall : ∀ x ∈ ls0, decide (x.length < max) = true := fun x hx => List.all_eq_true.mp h3 x hx
  generalize splitNl y [] = r
  obtain ⟨lsy, lasty⟩ := r
  simp only [List.all_append, h3, Bool.true_and, List.isEmpty_nil, if_true, List.append_nil]
  by_cases hy : lsy.all (fun l => decide (l.length < max)) = true
  · simp only [hy, if_true, List.map_append, List.append_assoc]
  · simp only [hy]
    rw [List.takeWhile_append_of_pos hall]
    simp

theorem flatEnd_snoc {a : Seq} (h : FlatEnd a) : ∃ p, a = p ++ [10] := by
  obtain ⟨p, h | h⟩ := h
  · exact ⟨p ++ [10, 47, 47], by rw [h]; simp⟩
  · exact ⟨p ++ [10, 47, 47, 13], by rw [h]; simp⟩

/-- **EMBL record locality with the real scanner**: `a` ends with an end-of-record line and has no
over-long line; then for EVERY `b` the records of `a ++ b` are the records of `a` followed by what the
parser returns on `b` alone -/
theorem parseEmblMax_append (max : Nat) (wf : Bool) {a : Seq} (h : FlatEnd a) (hs : shortLines max a = true) (b : Seq) :
    (emRun wf {} (linesScanMax max (a ++ b))).2 = emblRecs wf a ++ (emRun wf {} (linesScanMax max b)).2 := by
  obtain ⟨L, h1, _⟩ := linesScan_flatEnd h
  obtain ⟨p, rfl⟩ := flatEnd_snoc h
  have : p ++ [10] ++ b = p ++ 10 :: b := by simp
  rw [this, linesScanMax_append max p b hs]
  unfold emblRecs
  rw [h1, emRun_append, emRun_append]
  simp only [emRun, emLine_slashes]

/-- **EMBL record locality, repaired parser, no hypothesis on the lines**: `a` ends with an end-of-record
line; for EVERY `b` the chunk `a ++ b` fails as `a` fails, else as `b` fails, else yields the records of `a`
followed by those of `b` -/
theorem parseEmblMax_append_any (max : Nat) (hmax : 0 < max) (wf : Bool) {a : Seq} (h : FlatEnd a) (b : Seq) :
    parseEmblMax max wf (a ++ b) =
      match parseEmblMax max wf a with
      | .error e => .error e
      | .ok ra =>
        match parseEmblMax max wf b with
        | .error e => .error e
        | .ok rb => .ok (ra ++ rb) := by
  obtain ⟨p, hp⟩ := flatEnd_snoc h
  have hsl : shortLines max (a ++ b) = (shortLines max a && shortLines max b) := by
    rw [hp]
    have : p ++ [10] ++ b = p ++ 10 :: b := by simp
    rw [this, shortLines_append_nl]
  cases ha : shortLines max a with
  | false =>
    have h1 := ((parseEmblMax_fatal_iff max hmax wf a).2.1) ha
    have h2 := ((parseEmblMax_fatal_iff max hmax wf (a ++ b)).2.1) (by rw [hsl, ha]; rfl)
    rw [h1, h2]
  | true =>
    rw [parseEmblMax_short max wf a ha]
    simp only
    have hlist := parseEmblMax_append max wf h ha b
    unfold parseEmblMax
    rw [scanErr_eq max hmax (a ++ b), scanErr_eq max hmax b, hsl, ha, Bool.true_and]
    cases shortLines max b with
    | false => simp
    | true => simp [hlist]

end ObiVerif.Parse
