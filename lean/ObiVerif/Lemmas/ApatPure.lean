import ObiVerif.Lemmas.ApatComplete
import ObiVerif.Lemmas.ApatIupacSeq
/-!
# Pure IUPAC patterns (letters only): what `AllMatches` / `BestMatch` are documented for (C10, round 2)

A pattern string made of upper-case letters only compiles to one position per letter, carrying the `sDnaCode` class of the
letter, without obligatory position; the string handed to `LocatePattern` is the pattern itself.  When no letter is `X`,
`_samenuc` agrees with every acceptance of the compiled classes (`Compat`, the hypothesis of the completeness theorems), and
on a sequence of bases `a c g t` the two comparisons coincide (`CompatEq`).
-/
namespace ObiVerif.Apat
open ObiVerif

def letterTok (c : UInt8) : Tok := ⟨false, false, [c], false⟩

/-- the compiled form of a letters-only pattern -/
def letterPattern (ls : Bytes) (e : Nat) (b : Bool) : Pattern :=
  ⟨ls, ls.map fun c => Gen.apatDnaCode.getD (c.toNat - 65) 0, e, b⟩

theorem patStr_letters (ls : Bytes) : patStr (ls.map letterTok) = ls := by
  induction ls with
  | nil => rfl
  | cons c ls ih =>
    rw [List.map_cons, patStr_cons, ih]
    simp [letterTok, Tok.str, Tok.bang, Tok.body, Tok.hash]

theorem code_letterTok (c : UInt8) (hc : isUpper c = true) :
    (letterTok c).code = Gen.apatDnaCode.getD (c.toNat - 65) 0 := by
  simp [letterTok, Tok.code, valLetters, hc]

theorem letterTok_wf (c : UInt8) (hc : isUpper c = true) : (letterTok c).WF := by
  refine ⟨?_, by simp [letterTok], fun _ => rfl⟩
  intro x hx
  simp only [letterTok, List.mem_singleton] at hx
  rw [hx]; exact hc

/-- **a letters-only pattern compiles to the classes of its letters** -/
theorem compile_letters (ls : Bytes) (hup : ∀ c ∈ ls, isUpper c = true) (hne : ls ≠ []) (e : Nat) (b : Bool) :
    compile ls e b = .ok (letterPattern ls e b) := by
  have hts : ∀ t ∈ ls.map letterTok, t.WF := by
    intro t ht
    rw [List.mem_map] at ht
    obtain ⟨c, hc, rfl⟩ := ht
    exact letterTok_wf c (hup c hc)
  have hne' : ls.map letterTok ≠ [] := by
    intro h; apply hne; simpa using h
  have := compile_pat (ls.map letterTok) hts hne' e b
  rw [patStr_letters] at this
  rw [this]
  unfold letterPattern
  congr 2
  rw [List.map_map]
  apply List.map_congr_left
  intro c hc
  exact code_letterTok c (hup c hc)

theorem letterPattern_patlen (ls : Bytes) (e : Nat) (b : Bool) : (letterPattern ls e b).patlen = ls.length := by
  simp [letterPattern, Pattern.patlen]

theorem letterPattern_locPat (ls : Bytes) (e : Nat) (b : Bool) : (letterPattern ls e b).locPat = ls := by
  unfold Pattern.locPat
  rw [letterPattern_patlen]
  simp [letterPattern]

/-- no class of `sDnaCode` carries the obligatory bit -/
theorem dnaCode_not_oblig : ∀ l, l < 26 → oblig (Gen.apatDnaCode.getD l 0) = false := by decide

theorem upper_idx (c : UInt8) (hc : isUpper c = true) : c.toNat - 65 < 26 := by
  unfold isUpper at hc
  simp only [Bool.and_eq_true, decide_eq_true_eq] at hc
  have h2 : c.toNat ≤ 90 := UInt8.le_iff_toNat_le.mp hc.2
  omega

/-- a letters-only pattern has no obligatory position -/
theorem letterPattern_no_oblig (ls : Bytes) (hup : ∀ c ∈ ls, isUpper c = true) (e : Nat) (b : Bool) :
    ∀ a ∈ (letterPattern ls e b).codes, oblig a = false := by
  intro a ha
  simp only [letterPattern, List.mem_map] at ha
  obtain ⟨c, hc, rfl⟩ := ha
  exact dnaCode_not_oblig _ (upper_idx c (hup c hc))

theorem letterPattern_code (ls : Bytes) (e : Nat) (b : Bool) (j : Nat) (hj : j < ls.length) :
    (letterPattern ls e b).codes.getD j 0 = Gen.apatDnaCode.getD ((ls.getD j 0).toNat - 65) 0 := by
  simp only [letterPattern]
  have h1 : ls.getD j 0 = ls[j] := by
    rw [List.getD_eq_getElem?_getD, List.getElem?_eq_getElem hj]; rfl
  rw [h1, List.getD_eq_getElem?_getD, List.getElem?_map, List.getElem?_eq_getElem hj]
  rfl

theorem getD_mem (ls : Bytes) (j : Nat) (hj : j < ls.length) : ls.getD j 0 ∈ ls := by
  rw [List.getD_eq_getElem?_getD, List.getElem?_eq_getElem hj]
  exact List.getElem_mem hj

/-- **`Compat` for letters-only patterns without `X`**: whenever a compiled position accepts a sequence byte, `_samenuc`
says that the pattern letter and the byte are the same nucleotide -/
theorem letterPattern_compat (ls : Bytes) (hup : ∀ c ∈ ls, isUpper c = true) (hx : ∀ c ∈ ls, c ≠ 88) (e : Nat) (b : Bool) :
    Compat (letterPattern ls e b) := by
  refine ⟨by rw [letterPattern_locPat, letterPattern_patlen], ?_⟩
  intro j hj c hacc
  rw [letterPattern_patlen] at hj
  rw [letterPattern_locPat]
  rw [letterPattern_code ls e b j hj] at hacc
  have hm := getD_mem ls j hj
  exact accepts_imp_samenuc _ (hup _ hm) (hx _ hm) c hacc

/-- **on a sequence of bases the two comparisons coincide** (letters-only pattern; `X` allowed here only in one direction,
so it is excluded too) -/
theorem letterPattern_compatEq (ls : Bytes) (hup : ∀ c ∈ ls, isUpper c = true) (hx : ∀ c ∈ ls, c ≠ 88) (e : Nat) (b : Bool)
    (seq : Bytes) (hseq : ∀ c ∈ seq, isBaseByte c = true) : CompatEq (letterPattern ls e b) seq := by
  refine ⟨by rw [letterPattern_locPat, letterPattern_patlen], ?_⟩
  intro j hj c hc
  rw [letterPattern_patlen] at hj
  rw [letterPattern_locPat, letterPattern_code ls e b j hj]
  have hm := getD_mem ls j hj
  exact ⟨accepts_imp_samenuc _ (hup _ hm) (hx _ hm) c, samenuc_imp_accepts _ (hup _ hm) c (hseq c hc)⟩

end ObiVerif.Apat
