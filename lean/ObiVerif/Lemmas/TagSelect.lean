import ObiVerif.Lemmas.TagSel
/-!
# The selection loop on well-formed indices (C15): text layer = numeric closed form; when the loop spins;
an index holding the distance 0 is never read through the fallback branches
-/
namespace ObiVerif.Tag
open ObiVerif.Tax

/-! ## numeric lookups -/

theorem lookDown_none_get {idx : List (Nat × Nat)} : ∀ n, lookDown idx n = none → ∀ j, j ≤ n → idxGet idx j = none := by
  intro n
  induction n with
  | zero => intro h j hj; have : j = 0 := by omega
            subst this; exact h
  | succ n ih =>
    intro h j hj
    unfold lookDown at h
    cases hg : idxGet idx (n + 1) with
    | some t => rw [hg] at h; cases h
    | none =>
      rw [hg] at h
      by_cases e : j = n + 1
      · subst e; exact hg
      · exact ih h j (by omega)

theorem lookDown_none_of {idx : List (Nat × Nat)} : ∀ n, (∀ j, j ≤ n → idxGet idx j = none) → lookDown idx n = none := by
  intro n
  induction n with
  | zero => intro h; exact h 0 (Nat.le_refl _)
  | succ n ih =>
    intro h
    unfold lookDown
    rw [h (n + 1) (Nat.le_refl _)]
    exact ih (fun j hj => h j (by omega))

theorem lookDown_of_get {idx : List (Nat × Nat)} {n a : Nat} (h : idxGet idx n = some a) : lookDown idx n = some a := by
  cases n with
  | zero => exact h
  | succ n => unfold lookDown; rw [h]

theorem lookUp_none_get {idx : List (Nat × Nat)} : ∀ f k, lookUp idx f k = none →
    ∀ j, k ≤ j → j < k + f → idxGet idx j = none := by
  intro f
  induction f with
  | zero => intro k _ j h1 h2; omega
  | succ f ih =>
    intro k h j h1 h2
    unfold lookUp at h
    cases hg : idxGet idx k with
    | some t => rw [hg] at h; cases h
    | none =>
      rw [hg] at h
      by_cases e : j = k
      · subst e; exact hg
      · exact ih (k + 1) h j (by omega) (by omega)

theorem lookUp_none_of {idx : List (Nat × Nat)} : ∀ f k, (∀ j, k ≤ j → j < k + f → idxGet idx j = none) →
    lookUp idx f k = none := by
  intro f
  induction f with
  | zero => intro k _; rfl
  | succ f ih =>
    intro k h
    unfold lookUp
    rw [h k (Nat.le_refl _) (by omega)]
    exact ih (k + 1) (fun j h1 h2 => h j (by omega) (by omega))

theorem idxGet_of_mem {idx : List (Nat × Nat)} {e : Nat × Nat} (he : e ∈ idx) : ∃ a, idxGet idx e.1 = some a := by
  unfold idxGet
  cases hf : idx.find? (fun e' => e'.1 = e.1) with
  | some x => exact ⟨x.2, rfl⟩
  | none =>
    have := List.find?_eq_none.1 hf e he
    simp at this

/-! ## when the loop spins -/

/-- the selection either yields an entry or spins; no other outcome on a well-formed index -/
theorem selectEntry_cases (idx : List (Nat × Nat)) (D : Nat) :
    (∃ m, selectEntry idx D = .ok m) ∨ selectEntry idx D = .error .hang := by
  unfold selectEntry
  cases lookDown idx D with
  | some t => exact Or.inl ⟨t, rfl⟩
  | none =>
    cases lookUp idx 1001 0 with
    | some t => exact Or.inl ⟨t, rfl⟩
    | none =>
      cases idxGet idx 1001 with
      | some t => exact Or.inl ⟨t, rfl⟩
      | none => exact Or.inr rfl

/-- **exactly when the Go loop spins** (well-formed index): no recorded distance is `≤ max(D, 1001)` — none at or
below the observed distance (downward scan), none in `0 … 1000` (upward scan), and not the key 1001 (downward scan
of the second iteration) -/
theorem selectEntry_hang_iff (idx : List (Nat × Nat)) (D : Nat) :
    selectEntry idx D = .error .hang ↔ ∀ e ∈ idx, max D 1001 < e.1 := by
  constructor
  · intro h e he
    unfold selectEntry at h
    cases h1 : lookDown idx D with
    | some t => rw [h1] at h; cases h
    | none =>
      rw [h1] at h
      cases h2 : lookUp idx 1001 0 with
      | some t => rw [h2] at h; cases h
      | none =>
        rw [h2] at h
        cases h3 : idxGet idx 1001 with
        | some t => rw [h3] at h; cases h
        | none =>
          obtain ⟨a, ha⟩ := idxGet_of_mem he
          have g1 := lookDown_none_get D h1
          have g2 := lookUp_none_get 1001 0 h2
          by_cases c1 : e.1 ≤ D
          · rw [g1 e.1 c1] at ha; cases ha
          · by_cases c2 : e.1 < 1001
            · rw [g2 e.1 (Nat.zero_le _) (by omega)] at ha; cases ha
            · by_cases c3 : e.1 = 1001
              · rw [c3, h3] at ha; cases ha
              · omega
  · intro h
    have hnone : ∀ j, j ≤ max D 1001 → idxGet idx j = none := by
      intro j hj
      cases hg : idxGet idx j with
      | none => rfl
      | some m =>
        have := h _ (idxGet_some hg)
        simp only at this
        omega
    unfold selectEntry
    rw [lookDown_none_of D (fun j hj => hnone j (by omega)),
      lookUp_none_of 1001 0 (fun j _ hj => hnone j (by omega)), hnone 1001 (by omega)]

/-- **an index holding the distance 0 is never read through the fallback branches**: the downward scan succeeds
for every observed distance, the loop ends in its first iteration -/
theorem selectEntry_of_zero (idx : List (Nat × Nat)) (a : Nat) (h0 : idxGet idx 0 = some a) (D : Nat) :
    ∃ m, lookDown idx D = some m ∧ selectEntry idx D = .ok m := by
  cases h1 : lookDown idx D with
  | none =>
    have := lookDown_none_get D h1 0 (Nat.zero_le _)
    rw [this] at h0; cases h0
  | some m => exact ⟨m, rfl, by simp [selectEntry, h1]⟩

/-! ## text layer = numeric closed form on well-formed indices -/

theorem getT_text (nm rk : Nat → Text) (idx : List (Nat × Nat)) (k : Nat) :
    getT (textIndex nm rk idx) k = (idxGet idx k).map (fun a => fmtEntry a (nm a) (rk a)) := by
  unfold getT textIndex idxGet
  rw [List.find?_map]
  simp only [Option.map_map]
  rfl

theorem lookDownT_text (nm rk : Nat → Text) (idx : List (Nat × Nat)) : ∀ n,
    (lookDownT (textIndex nm rk idx) n = none ∧ lookDown idx n = none) ∨
    ∃ k a, lookDownT (textIndex nm rk idx) n = some (k, fmtEntry a (nm a) (rk a)) ∧ lookDown idx n = some a := by
  intro n
  induction n with
  | zero =>
    unfold lookDownT lookDown
    rw [getT_text]
    cases idxGet idx 0 with
    | none => left; exact ⟨rfl, rfl⟩
    | some a => right; exact ⟨0, a, rfl, rfl⟩
  | succ n ih =>
    unfold lookDownT lookDown
    rw [getT_text]
    cases idxGet idx (n + 1) with
    | none => simpa using ih
    | some a => right; exact ⟨n + 1, a, rfl, rfl⟩

theorem lookUpT_text (nm rk : Nat → Text) (idx : List (Nat × Nat)) : ∀ f d,
    (lookUpT (textIndex nm rk idx) f d = none ∧ lookUp idx f d = none) ∨
    ∃ k a, lookUpT (textIndex nm rk idx) f d = some (k, fmtEntry a (nm a) (rk a)) ∧ lookUp idx f d = some a := by
  intro f
  induction f with
  | zero => intro d; left; exact ⟨rfl, rfl⟩
  | succ f ih =>
    intro d
    unfold lookUpT lookUp
    rw [getT_text]
    cases idxGet idx d with
    | none => simpa using ih (d + 1)
    | some a => right; exact ⟨d, a, rfl, rfl⟩

/-- reading a found well-formed entry: `Atoi` and `taxo.Taxon` give the recorded taxon back -/
theorem read_found (t : Taxo) (nm rk : Nat → Text) (a : Nat) (n : Node) (hn : t.node a = some n) :
    (match parseTaxid (part0 (fmtEntry a (nm a) (rk a))) with
      | .taxid n =>
        match Tax.resolve t n with
        | some x => (Except.ok x : Tax.Res Nat)
        | none => .error .panic
      | _ => .error .panic) = .ok a := by
  rw [parse_fmtEntry]
  simp [Tax.resolve, hn]

/-- **refinement**: on an index whose entries are the text `taxid@name@rank` of taxa of the taxonomy (what
`IndexSequence` writes), the verbatim loop on the text, `Atoi` and `taxo.Taxon` compute `selectEntry` — for EVERY
observed distance, fallback branches and non-termination included, whatever the names and ranks -/
theorem selectText_wellformed (t : Taxo) (nm rk : Nat → Text) (idx : List (Nat × Nat))
    (hnodes : ∀ e ∈ idx, ∃ n, t.node e.2 = some n) (D : Nat) :
    selectText t (textIndex nm rk idx) D = selectEntry idx D := by
  have hnode : ∀ a, (∃ e ∈ idx, e.2 = a) → ∃ n, t.node a = some n := by
    rintro a ⟨e, he, rfl⟩; exact hnodes e he
  unfold selectText
  rw [show (4 : Nat) = 1 + 3 from rfl, selLoop_eq_spec]
  unfold selSpec selectEntry
  rw [getT_text]
  cases hg : idxGet idx D with
  | some a =>
    obtain ⟨n, hn⟩ := hnode a (idxGet_mem hg)
    simp only [Option.map_some, lookDown_of_get hg]
    rw [if_pos (part0_fmtEntry_ne _ _ _)]
    exact read_found t nm rk a n hn
  | none =>
    simp only [Option.map_none]
    rcases lookDownT_text nm rk idx D with ⟨e1, e2⟩ | ⟨k, a, e1, e2⟩
    · rw [e1, e2]
      simp only
      rcases lookUpT_text nm rk idx 1001 0 with ⟨u1, u2⟩ | ⟨k, a, u1, u2⟩
      · rw [u1, u2]
        simp only
        have hlow : lookDown idx 1000 = none :=
          lookDown_none_of 1000 (fun j hj => lookUp_none_get 1001 0 u2 j (Nat.zero_le _) (by omega))
        rcases lookDownT_text nm rk idx 1001 with ⟨d1, d2⟩ | ⟨k, a, d1, d2⟩
        · rw [d1]
          have : idxGet idx 1001 = none := lookDown_none_get 1001 d2 1001 (Nat.le_refl _)
          rw [this]
        · rw [d1]
          simp only
          have hget : idxGet idx 1001 = some a := by
            have := d2
            unfold lookDown at this
            cases hg1 : idxGet idx 1001 with
            | some x => rw [hg1] at this; simpa using this
            | none => rw [hg1, hlow] at this; cases this
          obtain ⟨n, hn⟩ := hnode a (idxGet_mem hget)
          rw [hget, if_pos (part0_fmtEntry_ne _ _ _)]
          exact read_found t nm rk a n hn
      · rw [u1, u2]
        simp only
        obtain ⟨n, hn⟩ := hnode a (lookUp_mem u2)
        rw [if_pos (part0_fmtEntry_ne _ _ _)]
        exact read_found t nm rk a n hn
    · rw [e1, e2]
      simp only
      obtain ⟨n, hn⟩ := hnode a (lookDown_mem e2)
      rw [if_pos (part0_fmtEntry_ne _ _ _)]
      exact read_found t nm rk a n hn

/-! ## `Identify` on the text of the indices = `Identify` on the numeric indices -/

theorem selectAllG_eq (index : Nat → Tax.Res (List (Nat × Nat))) (d : Nat) :
    ∀ bs, selectAllG selectEntry index d bs = selectAll index d bs := by
  intro bs
  induction bs with
  | nil => rfl
  | cons b bs ih =>
    unfold selectAllG selectAll; rw [ih]
    cases index b with
    | error e => rfl
    | ok idx =>
      cases selectEntry idx d with
      | error e => rfl
      | ok m => cases selectAll index d bs <;> rfl

theorem identifyG_eq (t : Taxo) (fuel : Nat) (fc : FCOut) (index : Nat → Tax.Res (List (Nat × Nat))) :
    identifyG selectEntry t fuel fc index = identify t fuel fc index := by
  unfold identifyG identify
  cases fc with
  | panic => rfl
  | ok maxe bestId bestmatch idxs =>
    simp only [selectAllG_eq]
    by_cases hc : bestId.2 ≠ 0 ∧ 2 * bestId.1 ≥ bestId.2
    · rw [if_pos hc, if_pos hc]
      cases selectAll index maxe idxs with
      | error e => rfl
      | ok ms =>
        cases consensus t fuel none ms with
        | error e => rfl
        | ok r => cases r <;> rfl
    · rw [if_neg hc, if_neg hc]
      cases t.node 1 <;> rfl

theorem selectAllG_congr {ι κ : Type} (sel : ι → Nat → Tax.Res Nat) (sel' : κ → Nat → Tax.Res Nat)
    (index : Nat → Tax.Res ι) (index' : Nat → Tax.Res κ) (d : Nat)
    (R : ι → κ → Prop) (hsel : ∀ i k, R i k → sel i d = sel' k d) :
    ∀ bs, (∀ b ∈ bs, (∃ e, index b = .error e ∧ index' b = .error e) ∨
        (∃ i k, index b = .ok i ∧ index' b = .ok k ∧ R i k)) →
      selectAllG sel index d bs = selectAllG sel' index' d bs := by
  intro bs
  induction bs with
  | nil => intro _; rfl
  | cons b bs ih =>
    intro h
    unfold selectAllG
    rw [ih (fun b' hb' => h b' (List.mem_cons_of_mem _ hb'))]
    rcases h b List.mem_cons_self with ⟨e, h1, h2⟩ | ⟨i, k, h1, h2, hr⟩
    · rw [h1, h2]
    · rw [h1, h2]
      simp only
      rw [hsel i k hr]

/-- **refinement of `Identify`**: run on the TEXT of indices that are well-formed (numeric index `index b`, every
recorded taxon a node of the taxonomy), `Identify` with the verbatim selection loop is `identify` -/
theorem identifyText_eq (t : Taxo) (fuel : Nat) (fc : FCOut) (nm rk : Nat → Text)
    (index : Nat → Tax.Res (List (Nat × Nat)))
    (hwf : ∀ b idx, index b = .ok idx → ∀ e ∈ idx, ∃ n, t.node e.2 = some n) :
    identifyText t fuel fc (fun b => (index b).map (textIndex nm rk)) = identify t fuel fc index := by
  rw [← identifyG_eq]
  unfold identifyText identifyG
  cases fc with
  | panic => rfl
  | ok maxe bestId bestmatch idxs =>
    simp only
    have : selectAllG (selectText t) (fun b => (index b).map (textIndex nm rk)) maxe idxs =
        selectAllG selectEntry index maxe idxs := by
      apply selectAllG_congr (selectText t) selectEntry _ _ maxe
        (fun T idx => T = textIndex nm rk idx ∧ ∀ e ∈ idx, ∃ n, t.node e.2 = some n)
      · rintro T idx ⟨rfl, hn⟩
        exact selectText_wellformed t nm rk idx hn maxe
      · intro b _
        cases hb : index b with
        | error e => left; exact ⟨e, by simp [Except.map], rfl⟩
        | ok idx => right; exact ⟨_, idx, by simp [Except.map], rfl, rfl, hwf b idx hb⟩
    rw [this]

/-! ## `FindClosests` with `D1Or0` as a parameter -/

theorem fcCompareK_d1or0 (v : Variant) (lq : Nat) (c : Cand) (m : Option Nat) :
    fcCompareK d1or0 v lq c m = fcCompare v lq c m := by
  cases m <;> rfl

theorem fcLoopK_d1or0 (wm : Nat → Nat → Nat → Nat) (v : Variant) (lq : Nat) (c : Nat → Cand) :
    ∀ (o : List Nat) (st : FCState), fcLoopK d1or0 wm v lq c o st = fcLoop wm v lq c o st := by
  intro o
  induction o with
  | nil => intro st; rfl
  | cons i rest ih =>
    intro st
    unfold fcLoopK fcLoop
    rw [fcCompareK_d1or0]
    by_cases h : (c i).cw < st.wordmin
    · rw [if_pos h, if_pos h]
    · rw [if_neg h, if_neg h]
      cases fcCompare v lq (c i) st.maxe with
      | none => exact ih st
      | some r => obtain ⟨a, b, d⟩ := r; exact ih _

/-- with the reading of `D1Or0` that holds on `a c g t`, the parametrised loop is `findClosests` -/
theorem findClosestsK_d1or0 (v : Variant) (lq : Nat) (c : Nat → Cand) (o : List Nat) :
    findClosestsK d1or0 v lq c o = findClosests v lq c o := by
  cases o with
  | nil => rfl
  | cons o0 rest =>
    unfold findClosestsK findClosests findClosestsWith
    simp only [fcLoopK_d1or0]
    generalize fcLoop wmNew v lq c (o0 :: rest)
      { maxe := none, wordmin := 0, bestidxs := [], bestId := (0, 1), bestmatch := o0 } = st
    cases st.maxe <;> cases st.bestidxs <;> rfl

end ObiVerif.Tag
