import ObiVerif.Lemmas.Uniq
set_option Elab.async false
/-! # helper lemmas for `Props/C06I.lean` (idempotence of obiuniq) -/
namespace ObiVerif.Uniq

theorem filter_key_nodup {α κ : Type} [DecidableEq κ] (f : α → κ) (k : κ) : ∀ l : List α, (l.map f).Nodup →
    l.filter (fun u => decide (f u = k)) = [] ∨
      ∃ u ∈ l, f u = k ∧ l.filter (fun u => decide (f u = k)) = [u]
  | [], _ => Or.inl rfl
  | a :: t, hnd => by
    simp only [List.map_cons, List.nodup_cons] at hnd
    by_cases h : f a = k
    · refine Or.inr ⟨a, by simp, h, ?_⟩
      have : t.filter (fun u => decide (f u = k)) = [] := by
        rw [List.filter_eq_nil_iff]
        intro u hu hk
        exact hnd.1 (List.mem_map.mpr ⟨u, hu, by rw [of_decide_eq_true hk, h]⟩)
      simp [h, this]
    · rcases filter_key_nodup f k t hnd.2 with h0 | ⟨u, hu, hk, he⟩
      · exact Or.inl (by simp [h, h0])
      · exact Or.inr ⟨u, List.mem_cons_of_mem _ hu, hk, by simp [h, he]⟩

theorem classOf_append (o : Opts) (a b : List Rec) (κ : Seq × List String) :
    classOf o (a ++ b) κ = classOf o a κ ++ classOf o b κ := by
  unfold classOf; exact List.filter_append ..

theorem contribSum_append (na k : String) (a b : List Rec) (v : String) :
    contribSum na k (a ++ b) v = contribSum na k a v + contribSum na k b v := by
  simp [contribSum, List.map_append, List.sum_append]

theorem count_le_total : ∀ (l : List Rec) (x : Rec), x ∈ l → x.count ≤ total l
  | [], _, h => by simp at h
  | a :: t, x, h => by
    have e : total (a :: t) = a.count + total t := by simp [total]
    rcases List.mem_cons.mp h with rfl | h
    · omega
    · have := count_le_total t x h; omega

end ObiVerif.Uniq
