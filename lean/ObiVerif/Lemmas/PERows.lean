import ObiVerif.Lemmas.PECons
/-!
# Lemmas for C08: the CONTENT of the two gapped rows of `_BuildAlignment`, consensus column by column

`columns p i j` lists, for every alignment column of the path, the position of the base of A and the
position of the base of B it shows (`none` = gap).  The rows built by `_BuildAlignment` are exactly the
reads read through these positions; every base of each read occurs once, in order.  Restriction to the
non-gap columns is by the **path mask**, never by comparing with the gap byte (the quality rows use the
gap byte 0, which is also a legal quality).
-/
namespace ObiVerif.PEAlign
open ObiVerif.Align

abbrev Col := Option Nat × Option Nat

def colsA : Nat → Nat → List Col
  | 0, _ => []
  | n + 1, i => (some i, none) :: colsA n (i + 1)

def colsB : Nat → Nat → List Col
  | 0, _ => []
  | n + 1, j => (none, some j) :: colsB n (j + 1)

def colsD : Nat → Nat → Nat → List Col
  | 0, _, _ => []
  | n + 1, i, j => (some i, some j) :: colsD n (i + 1) (j + 1)

/-- the alignment columns of a path started at positions (i, j): `-ind` bases of A alone (gap in B) or
`ind` bases of B alone (gap in A), then `d` columns with a base of each read -/
def columns : Path → Nat → Nat → List Col
  | ind :: d :: rest, i, j =>
    colsA (-ind).toNat i ++ colsB ind.toNat j ++ colsD d.toNat (i + (-ind).toNat) (j + ind.toNat)
      ++ columns rest (i + (-ind).toNat + d.toNat) (j + ind.toNat + d.toNat)
  | _, _, _ => []

/-- what a row shows at a column: the base at that position, or the gap symbol -/
def cellOf (x : Bytes) (gap : UInt8) : Option Nat → UInt8
  | some i => x.getD i gap
  | none => gap

/-! ## pieces -/

theorem take_drop_cons (x : Bytes) (gap : UInt8) (a n : Nat) (h : a + (n + 1) ≤ x.length) :
    (x.drop a).take (n + 1) = x.getD a gap :: (x.drop (a + 1)).take n := by
  rw [List.drop_eq_getElem_cons (by omega), List.take_succ_cons, List.getD_eq_getElem?_getD,
    List.getElem?_eq_getElem (by omega)]
  rfl

theorem colsA_rowA (x : Bytes) (gap : UInt8) : ∀ n a, a + n ≤ x.length →
    (colsA n a).map (fun c => cellOf x gap c.1) = (x.drop a).take n
  | 0, _, _ => by simp [colsA]
  | n + 1, a, h => by
    rw [take_drop_cons x gap a n h]
    simp only [colsA, List.map_cons]
    rw [colsA_rowA x gap n (a + 1) (by omega)]
    rfl

theorem colsA_rowB (x : Bytes) (gap : UInt8) : ∀ n a, (colsA n a).map (fun c => cellOf x gap c.2) = List.replicate n gap
  | 0, _ => rfl
  | n + 1, a => by
    simp only [colsA, List.map_cons, List.replicate_succ]
    rw [colsA_rowB x gap n]
    rfl

theorem colsB_rowB (x : Bytes) (gap : UInt8) : ∀ n a, a + n ≤ x.length →
    (colsB n a).map (fun c => cellOf x gap c.2) = (x.drop a).take n
  | 0, _, _ => by simp [colsB]
  | n + 1, a, h => by
    rw [take_drop_cons x gap a n h]
    simp only [colsB, List.map_cons]
    rw [colsB_rowB x gap n (a + 1) (by omega)]
    rfl

theorem colsB_rowA (x : Bytes) (gap : UInt8) : ∀ n a, (colsB n a).map (fun c => cellOf x gap c.1) = List.replicate n gap
  | 0, _ => rfl
  | n + 1, a => by
    simp only [colsB, List.map_cons, List.replicate_succ]
    rw [colsB_rowA x gap n]
    rfl

theorem colsD_rowA (x : Bytes) (gap : UInt8) : ∀ n a j, a + n ≤ x.length →
    (colsD n a j).map (fun c => cellOf x gap c.1) = (x.drop a).take n
  | 0, _, _, _ => by simp [colsD]
  | n + 1, a, j, h => by
    rw [take_drop_cons x gap a n h]
    simp only [colsD, List.map_cons]
    rw [colsD_rowA x gap n (a + 1) (j + 1) (by omega)]
    rfl

theorem colsD_rowB (x : Bytes) (gap : UInt8) : ∀ n i a, a + n ≤ x.length →
    (colsD n i a).map (fun c => cellOf x gap c.2) = (x.drop a).take n
  | 0, _, _, _ => by simp [colsD]
  | n + 1, i, a, h => by
    rw [take_drop_cons x gap a n h]
    simp only [colsD, List.map_cons]
    rw [colsD_rowB x gap n (i + 1) (a + 1) (by omega)]
    rfl

theorem slice_some (x : Bytes) (a n : Nat) (h : a + n ≤ x.length) : slice x a n = some ((x.drop a).take n) := by
  simp [slice, h]

/-! ## the rows -/

/-- **content of the gapped rows**: row A is read A seen through the A-positions of the path columns
(gap symbol where the path has a gap in A), row B likewise -/
theorem buildAlignment_rows (a b : Bytes) (gap : UInt8) : ∀ (p : Path) (posA posB : Nat), wf p = true →
    posA + usedA p ≤ a.length → posB + usedB p ≤ b.length →
    buildAlignment a b gap p posA posB =
      some ((columns p posA posB).map (fun c => cellOf a gap c.1),
            (columns p posA posB).map (fun c => cellOf b gap c.2))
  | [], _, _, _, _, _ => rfl
  | [_], _, _, h, _, _ => by simp [wf] at h
  | ind :: d :: rest, posA, posB, hw, hA, hB => by
    simp only [wf_cons, Bool.and_eq_true, decide_eq_true_eq] at hw
    rw [usedA_cons] at hA
    rw [usedB_cons] at hB
    have ih := buildAlignment_rows a b gap rest (posA + (-ind).toNat + d.toNat) (posB + ind.toNat + d.toNat)
      hw.2 (by omega) (by omega)
    simp only [buildAlignment, slice_some a posA (-ind).toNat (by omega), slice_some b posB ind.toNat (by omega),
      slice_some a (posA + (-ind).toNat) d.toNat (by omega), slice_some b (posB + ind.toNat) d.toNat (by omega), ih,
      columns, List.map_append,
      colsA_rowA a gap _ _ (by omega : posA + (-ind).toNat ≤ a.length), colsA_rowB, colsB_rowA,
      colsB_rowB b gap _ _ (by omega : posB + ind.toNat ≤ b.length),
      colsD_rowA a gap _ _ _ (by omega : posA + (-ind).toNat + d.toNat ≤ a.length),
      colsD_rowB b gap _ _ _ (by omega : posB + ind.toNat + d.toNat ≤ b.length)]

/-! ## every base once, in order; gaps exactly where the path says -/

theorem colsA_fst : ∀ n i, (colsA n i).filterMap (·.1) = List.range' i n
  | 0, _ => rfl
  | n + 1, i => by simp [colsA, colsA_fst n, List.range'_succ]

theorem colsA_snd : ∀ n i, (colsA n i).filterMap (·.2) = []
  | 0, _ => rfl
  | n + 1, i => by simp [colsA, colsA_snd n]

theorem colsB_snd : ∀ n i, (colsB n i).filterMap (·.2) = List.range' i n
  | 0, _ => rfl
  | n + 1, i => by simp [colsB, colsB_snd n, List.range'_succ]

theorem colsB_fst : ∀ n i, (colsB n i).filterMap (·.1) = []
  | 0, _ => rfl
  | n + 1, i => by simp [colsB, colsB_fst n]

theorem colsD_fst : ∀ n i j, (colsD n i j).filterMap (·.1) = List.range' i n
  | 0, _, _ => rfl
  | n + 1, i, j => by simp [colsD, colsD_fst n, List.range'_succ]

theorem colsD_snd : ∀ n i j, (colsD n i j).filterMap (·.2) = List.range' j n
  | 0, _, _ => rfl
  | n + 1, i, j => by simp [colsD, colsD_snd n, List.range'_succ]

theorem colsA_length : ∀ n i, (colsA n i).length = n
  | 0, _ => rfl
  | n + 1, i => by simp [colsA, colsA_length n]

theorem colsB_length : ∀ n i, (colsB n i).length = n
  | 0, _ => rfl
  | n + 1, i => by simp [colsB, colsB_length n]

theorem colsD_length : ∀ n i j, (colsD n i j).length = n
  | 0, _, _ => rfl
  | n + 1, i, j => by simp [colsD, colsD_length n]

/-- the A-positions shown by the columns are `i, i+1, …`: every base of A used by the path, once, in order -/
theorem columns_A : ∀ (p : Path) (i j : Nat), wf p = true → (columns p i j).filterMap (·.1) = List.range' i (usedA p)
  | [], _, _, _ => rfl
  | [_], _, _, h => by simp [wf] at h
  | ind :: d :: rest, i, j, hw => by
    simp only [wf_cons, Bool.and_eq_true] at hw
    simp only [columns, List.filterMap_append, colsA_fst, colsB_fst, colsD_fst, columns_A rest _ _ hw.2, usedA_cons,
      List.append_nil]
    rw [List.range'_append_1, Nat.add_assoc i, List.range'_append_1]

theorem columns_B : ∀ (p : Path) (i j : Nat), wf p = true → (columns p i j).filterMap (·.2) = List.range' j (usedB p)
  | [], _, _, _ => rfl
  | [_], _, _, h => by simp [wf] at h
  | ind :: d :: rest, i, j, hw => by
    simp only [wf_cons, Bool.and_eq_true] at hw
    simp only [columns, List.filterMap_append, colsA_snd, colsB_snd, colsD_snd, columns_B rest _ _ hw.2, usedB_cons,
      List.nil_append]
    rw [List.range'_append_1, Nat.add_assoc j, List.range'_append_1]

theorem columns_length : ∀ (p : Path) (i j : Nat), wf p = true → (columns p i j).length = ncols p
  | [], _, _, _ => rfl
  | [_], _, _, h => by simp [wf] at h
  | ind :: d :: rest, i, j, hw => by
    simp only [wf_cons, Bool.and_eq_true] at hw
    simp only [columns, List.length_append, colsA_length, colsB_length, colsD_length, columns_length rest _ _ hw.2,
      ncols_cons]
    omega

/-- the symbols of a row at the columns where the path shows a base of that read -/
def keep : Bytes → List (Option Nat) → Bytes
  | x :: xs, some _ :: os => x :: keep xs os
  | _ :: xs, none :: os => keep xs os
  | _, _ => []

theorem keep_row (x : Bytes) (gap : UInt8) : ∀ (idx : List (Option Nat)),
    keep (idx.map (cellOf x gap)) idx = (idx.filterMap id).map (fun i => x.getD i gap)
  | [] => rfl
  | some i :: t => by simp [keep, cellOf, keep_row x gap t]
  | none :: t => by simp [keep, keep_row x gap t]

theorem map_getD_range' (x : Bytes) (gap : UInt8) : ∀ n a, a + n ≤ x.length →
    (List.range' a n).map (fun i => x.getD i gap) = (x.drop a).take n
  | 0, _, _ => by simp
  | n + 1, a, h => by
    rw [take_drop_cons x gap a n h, List.range'_succ]
    simp only [List.map_cons, map_getD_range' x gap n (a + 1) (by omega)]

/-- **row A restricted to its non-gap columns is read A, row B restricted to its non-gap columns is read B;
the other columns hold the gap symbol** — for the base rows (gap ' ') and the quality rows (gap 0) alike -/
theorem rows_restrict (a b : Bytes) (gap : UInt8) (p : Path) (hp : consumes p a.length b.length) :
    ∃ ra rb, buildAlignment a b gap p 0 0 = some (ra, rb) ∧
      ra.length = ncols p ∧ rb.length = ncols p ∧
      keep ra ((columns p 0 0).map (·.1)) = a ∧ keep rb ((columns p 0 0).map (·.2)) = b ∧
      (∀ k, k < ncols p → ((columns p 0 0).getD k (none, none)).1 = none → ra.getD k 0 = gap) ∧
      (∀ k, k < ncols p → ((columns p 0 0).getD k (none, none)).2 = none → rb.getD k 0 = gap) := by
  obtain ⟨hw, hA, hB⟩ := hp
  have hr := buildAlignment_rows a b gap p 0 0 hw (by omega) (by omega)
  have hlen := columns_length p 0 0 hw
  refine ⟨_, _, hr, by simp [hlen], by simp [hlen], ?_, ?_, ?_, ?_⟩
  · have e : (columns p 0 0).map (fun c => cellOf a gap c.1) = ((columns p 0 0).map (·.1)).map (cellOf a gap) := by
      simp [List.map_map]
    rw [e, keep_row]
    have : ((columns p 0 0).map (·.1)).filterMap id = (columns p 0 0).filterMap (·.1) := by
      simp [List.filterMap_map]
    rw [this, columns_A p 0 0 hw, hA, map_getD_range' a gap _ 0 (by omega)]
    simp
  · have e : (columns p 0 0).map (fun c => cellOf b gap c.2) = ((columns p 0 0).map (·.2)).map (cellOf b gap) := by
      simp [List.map_map]
    rw [e, keep_row]
    have : ((columns p 0 0).map (·.2)).filterMap id = (columns p 0 0).filterMap (·.2) := by
      simp [List.filterMap_map]
    rw [this, columns_B p 0 0 hw, hB, map_getD_range' b gap _ 0 (by omega)]
    simp
  · intro k hk hnone
    rw [List.getD_eq_getElem?_getD] at hnone ⊢
    rw [List.getElem?_map]
    rw [List.getElem?_eq_getElem (by omega)] at hnone ⊢
    simp only [Option.getD_some, Option.map_some] at hnone ⊢
    rw [hnone]; rfl
  · intro k hk hnone
    rw [List.getD_eq_getElem?_getD] at hnone ⊢
    rw [List.getElem?_map]
    rw [List.getElem?_eq_getElem (by omega)] at hnone ⊢
    simp only [Option.getD_some, Option.map_some] at hnone ⊢
    rw [hnone]; rfl

/-! ## consensus, column by column, in terms of the original reads -/

theorem getD_map_lt {α β : Type} (f : α → β) (l : List α) (k : Nat) (d : α) (e : β) (h : k < l.length) :
    (l.map f).getD k e = f (l.getD k d) := by
  rw [List.getD_eq_getElem?_getD, List.getD_eq_getElem?_getD, List.getElem?_map, List.getElem?_eq_getElem h]
  rfl

/-- **consensus correctness about the real rows**: column `k` of the consensus is `consBase` of the base
and quality of A at that column (' ' with quality 0 where the path has a gap in A) and the base and
quality of B at that column -/
theorem consensus_column_real (adj : UInt8 → UInt8) (a qa b qb : Bytes) (p : Path)
    (hqa : qa.length = a.length) (hqb : qb.length = b.length) (hp : consumes p a.length b.length) :
    ∃ c, consensus adj a qa b qb p = some c ∧ c.seq.length = ncols p ∧ c.qual.length = ncols p ∧
      ∀ k, k < ncols p →
        c.seq.getD k 0 =
          consBase (cellOf a 32 ((columns p 0 0).getD k (none, none)).1) (cellOf qa 0 ((columns p 0 0).getD k (none, none)).1)
                   (cellOf b 32 ((columns p 0 0).getD k (none, none)).2) (cellOf qb 0 ((columns p 0 0).getD k (none, none)).2) := by
  obtain ⟨hw, hA, hB⟩ := hp
  have h1 := buildAlignment_rows a b 32 p 0 0 hw (by omega) (by omega)
  have h2 := buildAlignment_rows qa qb 0 p 0 0 hw (by omega) (by omega)
  have hlen := columns_length p 0 0 hw
  obtain ⟨c1, c2, c3⟩ := consLoop_spec adj
    ((columns p 0 0).map (fun c => cellOf a 32 c.1)) ((columns p 0 0).map (fun c => cellOf b 32 c.2))
    ((columns p 0 0).map (fun c => cellOf qa 0 c.1)) ((columns p 0 0).map (fun c => cellOf qb 0 c.2)) 0 0
    (by simp) (by simp) (by simp)
  have hc : consensus adj a qa b qb p = some
      ⟨(consLoop adj 0 0 ((columns p 0 0).map (fun c => cellOf a 32 c.1)) ((columns p 0 0).map (fun c => cellOf b 32 c.2))
          ((columns p 0 0).map (fun c => cellOf qa 0 c.1)) ((columns p 0 0).map (fun c => cellOf qb 0 c.2))).1,
       (consLoop adj 0 0 ((columns p 0 0).map (fun c => cellOf a 32 c.1)) ((columns p 0 0).map (fun c => cellOf b 32 c.2))
          ((columns p 0 0).map (fun c => cellOf qa 0 c.1)) ((columns p 0 0).map (fun c => cellOf qb 0 c.2))).2.1,
       (consLoop adj 0 0 ((columns p 0 0).map (fun c => cellOf a 32 c.1)) ((columns p 0 0).map (fun c => cellOf b 32 c.2))
          ((columns p 0 0).map (fun c => cellOf qa 0 c.1)) ((columns p 0 0).map (fun c => cellOf qb 0 c.2))).2.2⟩ := by
    simp only [consensus, h1, h2]
  rw [List.length_map, hlen] at c1 c2 c3
  refine ⟨_, hc, c1, c2, ?_⟩
  intro k hk
  have := c3 k hk
  simp only at this ⊢
  rw [this, getD_map_lt _ _ k (none, none) _ (by omega), getD_map_lt _ _ k (none, none) _ (by omega),
    getD_map_lt _ _ k (none, none) _ (by omega), getD_map_lt _ _ k (none, none) _ (by omega)]

/-- the consensus depends on the path only through its columns -/
theorem consensus_congr (adj : UInt8 → UInt8) (a qa b qb : Bytes) (p q : Path)
    (hqa : qa.length = a.length) (hqb : qb.length = b.length)
    (hp : consumes p a.length b.length) (hq : consumes q a.length b.length)
    (hc : columns p 0 0 = columns q 0 0) : consensus adj a qa b qb p = consensus adj a qa b qb q := by
  simp only [consensus,
    buildAlignment_rows a b 32 p 0 0 hp.1 (by have := hp.2.1; omega) (by have := hp.2.2; omega),
    buildAlignment_rows qa qb 0 p 0 0 hp.1 (by have := hp.2.1; omega) (by have := hp.2.2; omega),
    buildAlignment_rows a b 32 q 0 0 hq.1 (by have := hq.2.1; omega) (by have := hq.2.2; omega),
    buildAlignment_rows qa qb 0 q 0 0 hq.1 (by have := hq.2.1; omega) (by have := hq.2.2; omega), hc]

end ObiVerif.PEAlign
