import ObiVerif.Model.HeaderFast
/-!
# The fast versions of `Model/HeaderFast.lean` compute the functions of `Model/Header.lean` / `Model/Json.lean`

`parseFastaF = parseFasta`, `parseFastqF = parseFastq` (simulation: a fast state stands for the machine state with
every buffer reversed), `encStrBodyF = encStrBody`, `decStrBodyF = decStrBody` (accumulator lemmas), `fold60F = fold60`.
Core Lean only.
-/
set_option Elab.async false
namespace ObiVerif.HeaderFast
open ObiVerif.Header
open ObiVerif.Json (encStrBody decStrBody escByte decU unesc prep JVal JList JMems encVal encElems encMems decVal decElems decMems decodeObj encodeObj)

/-! ## FASTA machine -/

theorem faStepF_sim (s : FSt) (c : UInt8) : (faStepF s c).map FSt.abs = faStep s.abs c := by
  obtain ⟨state, idR, defR, seqR, qualR, ident, defn, prev, outR⟩ := s
  match state with
  | 0 => simp only [faStepF, faStep, FSt.abs]; split <;> rfl
  | 1 => simp only [faStepF, faStep, FSt.abs]; split <;> simp [Except.map, FSt.abs]
  | 2 =>
    simp only [faStepF, faStep, FSt.abs]
    by_cases h1 : isSep c = true <;> by_cases h2 : isEol c = true <;> simp [h1, h2, Except.map, FSt.abs]
  | 3 =>
    simp only [faStepF, faStep, FSt.abs]
    by_cases h1 : isEol c = true <;> by_cases h2 : isSpace c = true <;> simp [h1, h2, Except.map, FSt.abs]
  | 4 =>
    simp only [faStepF, faStep, FSt.abs]
    by_cases h1 : isEol c = true <;> simp [h1, Except.map, FSt.abs]
  | 5 =>
    simp only [faStepF, faStep, FSt.abs]
    by_cases h1 : isEol c = true <;> by_cases h2 : seqOK (lower c) = true <;> simp [h1, h2, Except.map, FSt.abs]
  | 6 =>
    simp only [faStepF, faStep, FSt.abs]
    by_cases h0 : c = 62
    · by_cases hp : prev = 13 ∨ prev = 10 <;> by_cases hs : seqR = [] <;> simp [h0, hp, hs, Except.map, FSt.abs]
    · by_cases h1 : isSep c = true <;> by_cases h2 : seqOK (lower c) = true <;> simp [h0, h1, h2, Except.map, FSt.abs]
  | n + 7 => simp [faStepF, faStep, FSt.abs, Except.map, FSt.abs]

theorem goFa_sim (t : Bytes) : ∀ s : FSt, (goFa s t).map FSt.abs = t.foldlM faStep s.abs := by
  induction t with
  | nil => intro s; simp [goFa, Except.map, pure, Except.pure]
  | cons c t ih =>
    intro s
    have h := faStepF_sim s c
    rw [List.foldlM_cons, ← h, goFa]
    cases hs : faStepF s c with
    | error e => simp [Except.map, bind, Except.bind]
    | ok s' => simp only [Except.map, bind, Except.bind]; exact ih s'

theorem parseFastaF_eq (text : Bytes) : parseFastaF text = parseFasta text := by
  match text with
  | [] => rfl
  | [c] => rfl
  | c :: d :: t =>
    simp only [parseFastaF, parseFasta]
    by_cases h1 : c ≠ 62
    · simp [h1]
    · by_cases h2 : d = 32
      · simp [h1, h2]
      · simp only [h1, h2, if_false]
        have h := goFa_sim (c :: d :: t) ({} : FSt)
        have h0 : ({} : FSt).abs = ({} : PSt) := rfl
        rw [h0] at h
        rw [← h]
        cases hg : goFa ({} : FSt) (c :: d :: t) with
        | error e => simp [Except.map, bind, Except.bind]
        | ok st =>
          simp only [Except.map, bind, Except.bind, FSt.abs, pure, Except.pure]
          by_cases h6 : st.state = 6 <;> by_cases hs : st.seqR = [] <;> simp [h6, hs]

/-! ## FASTQ machine -/

theorem storeQF_sim (sh : UInt8) (s : FSt) : (storeQF sh s).map FSt.abs = storeQ sh s.abs := by
  obtain ⟨state, idR, defR, seqR, qualR, ident, defn, prev, outR⟩ := s
  cases outR with
  | nil => simp [storeQF, storeQ, FSt.abs, Except.map, FSt.abs]
  | cons last rest =>
    simp only [storeQF, storeQ, FSt.abs, List.reverse_reverse]
    by_cases h1 : qualR = [] <;> by_cases h2 : qualR.length ≠ last.seq.length <;> simp [h1, h2, Except.map, FSt.abs]

theorem fqStepF_sim (sh : UInt8) (wq : Bool) (s : FSt) (c : UInt8) :
    (fqStepF sh wq s c).map FSt.abs = fqStep sh wq s.abs c := by
  match hst : s.state with
  | 10 =>
    by_cases h1 : isEol c = true
    · cases wq with
      | false =>
        obtain ⟨state, idR, defR, seqR, qualR, ident, defn, prev, outR⟩ := s
        simp only at hst; subst hst
        simp [fqStepF, fqStep, FSt.abs, h1, Except.map, bind, Except.bind, pure, Except.pure]
      | true =>
        have hq := storeQF_sim sh s
        have e1 : fqStepF sh true s c = (match storeQF sh s with
            | .error e => .error e
            | .ok st => .ok { st with state := 11, prev := c }) := by
          simp [fqStepF, hst, h1]
          cases storeQF sh s <;> rfl
        have e2 : fqStep sh true s.abs c = (storeQ sh s.abs >>= fun st => pure { st with state := 11, prev := c }) := by
          have : s.abs.state = 10 := by simp [FSt.abs, hst]
          simp [fqStep, this, h1]
        rw [e1, e2, ← hq]
        cases storeQF sh s with
        | error e => simp [Except.map, bind, Except.bind]
        | ok st => simp [Except.map, bind, Except.bind, pure, Except.pure, FSt.abs]
    · obtain ⟨state, idR, defR, seqR, qualR, ident, defn, prev, outR⟩ := s
      simp only at hst; subst hst
      simp [fqStepF, fqStep, FSt.abs, h1, Except.map, FSt.abs]
  | 0 =>
    obtain ⟨state, idR, defR, seqR, qualR, ident, defn, prev, outR⟩ := s
    simp only at hst; subst hst
    simp only [fqStepF, fqStep, FSt.abs]; split <;> rfl
  | 1 =>
    obtain ⟨state, idR, defR, seqR, qualR, ident, defn, prev, outR⟩ := s
    simp only at hst; subst hst
    simp only [fqStepF, fqStep, FSt.abs]; split <;> simp [Except.map, FSt.abs]
  | 2 =>
    obtain ⟨state, idR, defR, seqR, qualR, ident, defn, prev, outR⟩ := s
    simp only at hst; subst hst
    simp only [fqStepF, fqStep, FSt.abs]
    by_cases h1 : isSep c = true <;> by_cases h2 : isEol c = true <;> simp [h1, h2, Except.map, FSt.abs]
  | 3 =>
    obtain ⟨state, idR, defR, seqR, qualR, ident, defn, prev, outR⟩ := s
    simp only at hst; subst hst
    simp only [fqStepF, fqStep, FSt.abs]
    by_cases h1 : isEol c = true <;> by_cases h2 : isSpace c = true <;> simp [h1, h2, Except.map, FSt.abs]
  | 4 =>
    obtain ⟨state, idR, defR, seqR, qualR, ident, defn, prev, outR⟩ := s
    simp only at hst; subst hst
    simp only [fqStepF, fqStep, FSt.abs]
    by_cases h1 : isEol c = true <;> simp [h1, Except.map, FSt.abs]
  | 5 =>
    obtain ⟨state, idR, defR, seqR, qualR, ident, defn, prev, outR⟩ := s
    simp only at hst; subst hst
    simp only [fqStepF, fqStep, FSt.abs]
    by_cases h1 : isEol c = true <;> simp [h1, Except.map, FSt.abs]
  | 6 =>
    obtain ⟨state, idR, defR, seqR, qualR, ident, defn, prev, outR⟩ := s
    simp only at hst; subst hst
    simp only [fqStepF, fqStep, FSt.abs]
    by_cases h1 : isEol c = true
    · by_cases hs : seqR = [] <;> simp [h1, hs, Except.map, FSt.abs]
    · by_cases h2 : seqOK (lower c) = true <;> simp [h1, h2, Except.map, FSt.abs]
  | 7 =>
    obtain ⟨state, idR, defR, seqR, qualR, ident, defn, prev, outR⟩ := s
    simp only at hst; subst hst
    simp only [fqStepF, fqStep, FSt.abs]
    by_cases h2 : c = 43
    · subst h2; simp [isEol, Except.map, FSt.abs]
    · by_cases h1 : isEol c = true <;> simp [h1, h2, Except.map, FSt.abs]
  | 8 =>
    obtain ⟨state, idR, defR, seqR, qualR, ident, defn, prev, outR⟩ := s
    simp only at hst; subst hst
    simp only [fqStepF, fqStep, FSt.abs]
    by_cases h1 : isEol c = true <;> simp [h1, Except.map, FSt.abs]
  | 9 =>
    obtain ⟨state, idR, defR, seqR, qualR, ident, defn, prev, outR⟩ := s
    simp only at hst; subst hst
    simp only [fqStepF, fqStep, FSt.abs]
    by_cases h1 : isEol c = true <;> simp [h1, Except.map, FSt.abs]
  | 11 =>
    obtain ⟨state, idR, defR, seqR, qualR, ident, defn, prev, outR⟩ := s
    simp only at hst; subst hst
    simp only [fqStepF, fqStep, FSt.abs]
    by_cases h2 : c = 64
    · subst h2; simp [isEol, Except.map, FSt.abs]
    · by_cases h1 : isEol c = true <;> simp [h1, h2, Except.map, FSt.abs]
  | n + 12 =>
    obtain ⟨state, idR, defR, seqR, qualR, ident, defn, prev, outR⟩ := s
    simp only at hst; subst hst
    simp [fqStepF, fqStep, FSt.abs, Except.map, FSt.abs]

theorem goFq_sim (sh : UInt8) (wq : Bool) (t : Bytes) :
    ∀ s : FSt, (goFq sh wq s t).map FSt.abs = t.foldlM (fqStep sh wq) s.abs := by
  induction t with
  | nil => intro s; simp [goFq, Except.map, pure, Except.pure]
  | cons c t ih =>
    intro s
    have h := fqStepF_sim sh wq s c
    rw [List.foldlM_cons, ← h, goFq]
    cases hs : fqStepF sh wq s c with
    | error e => simp [Except.map, bind, Except.bind]
    | ok s' => simp only [Except.map, bind, Except.bind]; exact ih s'

theorem parseFastqF_eq (sh : UInt8) (wq : Bool) (text : Bytes) : parseFastqF sh wq text = parseFastq sh wq text := by
  simp only [parseFastqF, parseFastq]
  have h := goFq_sim sh wq text ({} : FSt)
  have h0 : ({} : FSt).abs = ({} : PSt) := rfl
  rw [h0] at h
  rw [← h]
  cases hg : goFq sh wq ({} : FSt) text with
  | error e => simp [Except.map, bind, Except.bind]
  | ok st =>
    simp only [Except.map, bind, Except.bind]
    have hout : (st.abs.out ≠ [] ∧ st.abs.state = 10) ↔ (st.outR ≠ [] ∧ st.state = 10) := by
      simp [FSt.abs]
    by_cases hc : st.outR ≠ [] ∧ st.state = 10
    · have hc' := hout.mpr hc
      rw [if_pos hc, if_pos hc']
      cases wq with
      | false => simp [pure, Except.pure, FSt.abs]
      | true =>
        have hq := storeQF_sim sh st
        simp only [if_true]
        rw [← hq]
        cases storeQF sh st with
        | error e => simp [Except.map]
        | ok s2 => simp [Except.map, pure, Except.pure, FSt.abs]
    · have hc' : ¬ (st.abs.out ≠ [] ∧ st.abs.state = 10) := fun x => hc (hout.mp x)
      rw [if_neg hc, if_neg hc']
      simp [pure, Except.pure, FSt.abs]

/-! ## JSON string bodies -/

theorem encStrBodyRev_aux : ∀ (n : Nat) (s : Bytes), s.length ≤ n → ∀ acc, encStrBodyRev acc s = (encStrBody s).reverse ++ acc := by
  intro n
  induction n with
  | zero =>
    intro s hs acc
    match s, hs with
    | [], _ => simp [encStrBodyRev, encStrBody]
  | succ n ih =>
    intro s hs acc
    match s, hs with
    | [], _ => simp [encStrBodyRev, encStrBody]
    | [c], _ => simp [encStrBodyRev, encStrBody]
    | [c, d], _ => simp [encStrBodyRev, encStrBody]
    | c :: d :: e :: t', hs =>
      by_cases h : c = 0xE2 ∧ d = 0x80 ∧ (e = 0xA8 ∨ e = 0xA9)
      · rw [encStrBodyRev, encStrBody, if_pos h, if_pos h, ih t' (by simp at hs; omega)]
        simp
      · rw [encStrBodyRev, encStrBody, if_neg h, if_neg h, ih (d :: e :: t') (by simp at hs ⊢; omega)]
        simp

theorem encStrBodyRev_eq (s : Bytes) (acc : Bytes) : encStrBodyRev acc s = (encStrBody s).reverse ++ acc :=
  encStrBodyRev_aux s.length s (Nat.le_refl _) acc

theorem encStrBodyF_eq (s : Bytes) : encStrBodyF s = encStrBody s := by
  simp [encStrBodyF, encStrBodyRev_eq]

theorem decStrBodyRev_aux : ∀ (n : Nat) (s : Bytes), s.length ≤ n → ∀ acc,
    decStrBodyRev acc s = (decStrBody s).map (fun p => (acc.reverse ++ p.1, p.2)) := by
  intro n
  induction n with
  | zero =>
    intro s hs acc
    match s, hs with
    | [], _ => simp [decStrBodyRev, decStrBody]
  | succ n ih =>
    intro s hs acc
    match s, hs with
    | [], _ => simp [decStrBodyRev, decStrBody]
    | c :: t, hs =>
      have ht : t.length ≤ n := by simp at hs; omega
      rw [decStrBodyRev.eq_def acc (c :: t), decStrBody.eq_def (c :: t)]
      simp only
      by_cases h34 : c = 34
      · simp [h34]
      · rw [if_neg h34, if_neg h34]
        by_cases h92 : c = 92
        · rw [if_pos h92, if_pos h92]
          match t, ht with
          | [], _ => rfl
          | e :: t', ht =>
            have ht' : t'.length ≤ n := by simp at ht; omega
            by_cases h117 : e = 117
            · simp only [h117, if_true]
              match t', ht' with
              | [], _ => rfl
              | [_], _ => rfl
              | [_, _], _ => rfl
              | [_, _, _], _ => rfl
              | h1 :: h2 :: h3 :: h4 :: t'', ht' =>
                simp only
                cases hu : decU h1 h2 h3 h4 with
                | none => rfl
                | some u =>
                  simp only
                  rw [ih t'' (by simp at ht'; omega)]
                  cases decStrBody t'' <;> simp [prep]
            · simp only [h117, if_false]
              cases hb : unesc e with
              | none => rfl
              | some b =>
                simp only
                rw [ih t' ht']
                cases decStrBody t' <;> simp [prep]
        · rw [if_neg h92, if_neg h92]
          by_cases h32 : c < 32
          · simp [h32]
          · rw [if_neg h32, if_neg h32, ih t ht]
            cases decStrBody t <;> simp [prep]

theorem decStrBodyF_eq (s : Bytes) : decStrBodyF s = decStrBody s := by
  rw [decStrBodyF, decStrBodyRev_aux s.length s (Nat.le_refl _) []]
  cases decStrBody s <;> simp

/-! ## the encoder / decoder copies -/

mutual
theorem encValF_eq : ∀ v : JVal, encValF v = encVal v
  | .null => by simp [encValF, encVal]
  | .bool true => by simp [encValF, encVal]
  | .bool false => by simp [encValF, encVal]
  | .num _ => by simp [encValF, encVal]
  | .str s => by simp [encValF, encVal, encStrBodyF_eq]
  | .arr l => by simp [encValF, encVal, encElemsF_eq l]
  | .obj m => by simp [encValF, encVal, encMemsF_eq m]
theorem encElemsF_eq : ∀ l : JList, encElemsF l = encElems l
  | .nil => by simp [encElemsF, encElems]
  | .cons v .nil => by simp [encElemsF, encElems, encValF_eq v]
  | .cons v (.cons w t) => by simp [encElemsF, encElems, encValF_eq v, encElemsF_eq (.cons w t)]
theorem encMemsF_eq : ∀ m : JMems, encMemsF m = encMems m
  | .nil => by simp [encMemsF, encMems]
  | .cons k v .nil => by simp [encMemsF, encMems, encValF_eq v, encStrBodyF_eq]
  | .cons k v (.cons k2 v2 t) => by simp [encMemsF, encMems, encValF_eq v, encStrBodyF_eq, encMemsF_eq (.cons k2 v2 t)]
end

theorem encodeObjF_eq (m : JMems) : encodeObjF m = encodeObj m := by simp [encodeObjF, encodeObj, encValF_eq]

theorem infoF_eq (ann : JMems) (defn : Option Bytes) : infoF ann defn = info ObiVerif.Json.goJson ann defn := by
  unfold infoF info
  by_cases h : ann = ObiVerif.Json.goJson.empty ∧ defn = none
  · rw [if_pos h, if_pos h]
  · rw [if_neg h, if_neg h, encodeObjF_eq]; rfl

theorem decF_eq : ∀ n : Nat, (∀ s, decValF n s = decVal n s) ∧ (∀ s, decElemsF n s = decElems n s)
    ∧ (∀ s, decMemsF n s = decMems n s)
  | 0 => ⟨by intro s; simp [decValF, decVal], by intro s; simp [decElemsF, decElems], by intro s; simp [decMemsF, decMems]⟩
  | n + 1 =>
    have ih := decF_eq n
    ⟨by intro s; cases s <;> simp [decValF, decVal, decStrBodyF_eq, ih.2.1, ih.2.2] <;> rfl,
     by intro s; simp [decElemsF, decElems, ih.1, ih.2.1] <;> rfl,
     by intro s; cases s <;> simp [decMemsF, decMems, decStrBodyF_eq, ih.1, ih.2.2] <;> rfl⟩

theorem decodeObjF_eq (s : Bytes) : decodeObjF s = decodeObj s := by
  simp [decodeObjF, decodeObj, (decF_eq _).1] <;> rfl

/-! ## folding -/

theorem foldRev_eq : ∀ (n : Nat) (acc s : Bytes), foldRev n acc s = (foldLinesF n s).reverse ++ acc := by
  intro n
  induction n with
  | zero => intro acc s; simp [foldRev, foldLinesF]
  | succ n ih =>
    intro acc s
    by_cases h : s = []
    · simp [foldRev, foldLinesF, h]
    · simp [foldRev, foldLinesF, h, ih]

theorem fold60F_eq (s : Bytes) : fold60F s = fold60 s := by
  unfold fold60F fold60 foldLines
  by_cases h : s = []
  · simp [h]
  · simp only [h, if_false, foldRev_eq, List.append_nil, List.drop_one, List.tail_reverse, List.reverse_reverse]

theorem formatFastaF_eq (id info seq : Bytes) : formatFastaF id info seq = formatFasta id info seq := by
  simp [formatFastaF, formatFasta, fold60F_eq]

end ObiVerif.HeaderFast
