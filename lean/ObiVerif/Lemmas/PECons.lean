import ObiVerif.Lemmas.PEAlign
/-!
# Lemmas for C08: fast-mode path extension, consensus, statistics
-/
namespace ObiVerif.PEAlign
open ObiVerif.Align

/-! ## paths as lists of pairs -/

theorem wf_append : ∀ (q r : Path), wf q = true → wf (q ++ r) = wf r
  | [], _, _ => rfl
  | [_], _, h => by simp [wf] at h
  | ind :: d :: q, r, h => by
    simp only [wf_cons, Bool.and_eq_true, decide_eq_true_eq] at h
    simp [wf_cons, h.1, wf_append q r h.2]

theorem usedA_append : ∀ (q r : Path), wf q = true → usedA (q ++ r) = usedA q + usedA r
  | [], _, _ => by simp [usedA]
  | [_], _, h => by simp [wf] at h
  | ind :: d :: q, r, h => by
    simp only [wf_cons, Bool.and_eq_true] at h
    simp only [List.cons_append, usedA_cons, usedA_append q r h.2]; omega

theorem usedB_append : ∀ (q r : Path), wf q = true → usedB (q ++ r) = usedB q + usedB r
  | [], _, _ => by simp [usedB]
  | [_], _, h => by simp [wf] at h
  | ind :: d :: q, r, h => by
    simp only [wf_cons, Bool.and_eq_true] at h
    simp only [List.cons_append, usedB_cons, usedB_append q r h.2]; omega

/-- a non-empty well-formed path ends with a pair -/
theorem wf_last_pair : ∀ (p : Path), wf p = true → p ≠ [] →
    ∃ init prev last, p = init ++ [prev, last] ∧ wf init = true ∧ 0 ≤ last
  | [], _, h => by simp at h
  | [_], h, _ => by simp [wf] at h
  | [ind, d], h, _ => by
    simp only [wf_cons, Bool.and_eq_true, decide_eq_true_eq] at h
    exact ⟨[], ind, d, rfl, rfl, h.1⟩
  | ind :: d :: x :: rest, h, _ => by
    simp only [wf_cons, Bool.and_eq_true, decide_eq_true_eq] at h
    obtain ⟨init, prev, last, he, hw, hl⟩ := wf_last_pair (x :: rest) h.2 (by simp)
    refine ⟨ind :: d :: init, prev, last, by simp [he], by simp [wf_cons, h.1, hw], hl⟩

theorem same_sign_of_mul_nonneg (a b : Int) (h : ¬ a * b < 0) : (0 ≤ a ∧ 0 ≤ b) ∨ (a ≤ 0 ∧ b ≤ 0) := by
  by_cases ha : 0 < a
  · by_cases hb : b < 0
    · exact absurd (Int.mul_neg_of_pos_of_neg ha hb) h
    · left; omega
  · by_cases hb : 0 < b
    · by_cases ha' : a < 0
      · exact absurd (Int.mul_neg_of_neg_of_pos ha' hb) h
      · left; omega
    · right; omega

/-! ## the fast-mode path extension (`C08-fast-path-extension`) -/

theorem extend5_spec (e : Int) (p : Path) (hw : wf p = true) (hne : p ≠ []) :
    wf (extend5 e p) = true ∧ extend5 e p ≠ [] ∧
    usedA (extend5 e p) = usedA p + (-e).toNat ∧ usedB (extend5 e p) = usedB p + e.toNat := by
  match p, hw, hne with
  | [_], hw, _ => simp [wf] at hw
  | p0 :: d :: rest, hw, _ =>
    unfold extend5
    by_cases hs : p0 * e < 0
    · simp only [hs, if_true]
      refine ⟨by simp [wf_cons, hw], by simp, ?_, ?_⟩
      · rw [usedA_cons]; simp; omega
      · rw [usedB_cons]; simp; omega
    · simp only [hs, if_false]
      simp only [wf_cons] at hw
      refine ⟨by simp [wf_cons, hw], by simp, ?_, ?_⟩
      · simp only [usedA_cons]
        rcases same_sign_of_mul_nonneg p0 e hs with h | h <;> omega
      · simp only [usedB_cons]
        rcases same_sign_of_mul_nonneg p0 e hs with h | h <;> omega

theorem extend3_spec (e : Int) (p : Path) (hw : wf p = true) (hne : p ≠ []) :
    wf (extend3 e p) = true ∧
    usedA (extend3 e p) = usedA p + (-e).toNat ∧ usedB (extend3 e p) = usedB p + e.toNat := by
  obtain ⟨init, prev, last, rfl, hwi, hl⟩ := wf_last_pair p hw hne
  have hrev : (init ++ [prev, last]).reverse = last :: prev :: init.reverse := by simp
  unfold extend3
  rw [hrev]
  simp only
  by_cases hc : last = 0 ∧ prev * e ≥ 0
  · simp only [hc, and_self, if_true, List.reverse_cons, List.reverse_reverse, List.append_assoc,
      List.cons_append, List.nil_append]
    have hc2 : ¬ prev * e < 0 := by omega
    obtain ⟨rfl, _⟩ := hc
    refine ⟨?_, ?_, ?_⟩
    · rw [wf_append _ _ hwi]; simp [wf]
    · rw [usedA_append _ _ hwi, usedA_append _ _ hwi]
      simp only [usedA]
      rcases same_sign_of_mul_nonneg prev e hc2 with h | h <;> omega
    · rw [usedB_append _ _ hwi, usedB_append _ _ hwi]
      simp only [usedB]
      rcases same_sign_of_mul_nonneg prev e hc2 with h | h <;> omega
  · simp only [hc, if_false]
    refine ⟨?_, ?_, ?_⟩
    · rw [wf_append _ _ hw]; simp [wf]
    · rw [usedA_append _ _ hw]; simp [usedA]
    · rw [usedB_append _ _ hw]; simp [usedB]

/-- both extensions keep a consuming path consuming, for every sign of the first / last local run -/
theorem extend_consumes (e5 e3 : Int) (p : Path) (a b : Nat) (hp : consumes p a b) (hne : p ≠ []) :
    consumes (extend3 e3 (extend5 e5 p)) (a + (-e5).toNat + (-e3).toNat) (b + e5.toNat + e3.toNat) := by
  obtain ⟨hw, hA, hB⟩ := hp
  obtain ⟨hw5, hne5, hA5, hB5⟩ := extend5_spec e5 p hw hne
  obtain ⟨hw3, hA3, hB3⟩ := extend3_spec e3 _ hw5 hne5
  exact ⟨hw3, by omega, by omega⟩

theorem consumes_cast {p : Path} {a b a' b' : Nat} (h : consumes p a b) (ha : a = a') (hb : b = b') :
    consumes p a' b' := ha ▸ hb ▸ h

theorem consumes_ne_nil (p : Path) (a b : Nat) (hp : consumes p a b) (ha : 0 < a) : p ≠ [] := by
  intro h
  subst h
  have := hp.2.1
  simp [usedA] at this
  omega

/-- **fast mode**: whatever the vote returned (within the bounds a diagonal can have), the patched
`PEAlign` does not panic and its path consumes both reads exactly -/
theorem fastFrom_consumes (s : Nat → Nat → Int) (g : Int) (la lb delta : Nat) (shift count : Int)
    (hla : 0 < la) (hlb : 0 < lb) (h1 : -(lb : Int) < shift) (h2 : shift < la)
    (h3 : 1 ≤ count → count + 3 ≤ la ∧ count + 3 ≤ lb) :
    ∃ r, peAlignFastFrom s g la lb delta shift count = some r ∧ consumes r.path la lb := by
  unfold peAlignFastFrom over
  by_cases hdp : count < 1 ∨ count + 3 < (if shift > 0 then (la : Int) - shift else (lb : Int) + shift)
  · simp only [hdp, if_true]
    by_cases hs : shift > 0
    · simp only [hs, if_true]
      have hsa : ¬ ((shift - (delta : Int)).toNat > la) := by omega
      simp only [hsa, if_false]
      obtain ⟨p, hf, hc, _⟩ := fill_ok (fun i j => s ((shift - (delta : Int)).toNat + i) j) (cALeft g)
        (cBLeft g (la - (shift - (delta : Int)).toNat)) (la - (shift - (delta : Int)).toNat)
        (min (la - (shift - (delta : Int)).toNat) lb) (by omega) (by omega)
      unfold fillLeft
      rw [hf]
      refine ⟨_, rfl, ?_⟩
      have := extend_consumes (-((shift - (delta : Int)).toNat : Int))
        ((lb : Int) - ((min (la - (shift - (delta : Int)).toNat) lb : Nat) : Int)) p _ _ hc
        (consumes_ne_nil _ _ _ hc (by omega))
      exact consumes_cast this (by omega) (by omega)
    · simp only [hs, if_false]
      have hsb : ¬ ((-shift - (delta : Int)).toNat > lb) := by omega
      simp only [hsb, if_false]
      obtain ⟨p, hf, hc, _⟩ := fill_ok (fun i j => s i ((-shift - (delta : Int)).toNat + j))
        (cARight g (lb - (-shift - (delta : Int)).toNat)) (cBRight g)
        (min (lb - (-shift - (delta : Int)).toNat) la) (lb - (-shift - (delta : Int)).toNat) (by omega) (by omega)
      unfold fillRight
      rw [hf]
      refine ⟨_, rfl, ?_⟩
      have := extend_consumes (((-shift - (delta : Int)).toNat : Int))
        (((min (lb - (-shift - (delta : Int)).toNat) la : Nat) : Int) - (la : Int)) p _ _ hc
        (consumes_ne_nil _ _ _ hc (by omega))
      exact consumes_cast this (by omega) (by omega)
  · simp only [hdp, if_false]
    by_cases hs : shift > 0
    · simp only [hs, if_true] at hdp ⊢
      have hsa : ¬ (shift.toNat > la) := by omega
      have hpl : ¬ (la - shift.toNat > lb) := by omega
      simp only [hsa, hpl, if_false]
      refine ⟨_, rfl, ?_⟩
      have hc : consumes [0, ((la - shift.toNat : Nat) : Int)] (la - shift.toNat) (la - shift.toNat) := by
        refine ⟨by simp [wf], by simp [usedA], by simp [usedB]⟩
      have := extend_consumes (-(shift.toNat : Int)) ((lb : Int) - ((la - shift.toNat : Nat) : Int)) _ _ _ hc (by simp)
      exact consumes_cast this (by omega) (by omega)
    · simp only [hs, if_false] at hdp ⊢
      have hsb : ¬ ((-shift).toNat > lb) := by omega
      have hpl : ¬ (lb - (-shift).toNat > la) := by omega
      simp only [hsb, hpl, if_false]
      refine ⟨_, rfl, ?_⟩
      have hc : consumes [0, ((lb - (-shift).toNat : Nat) : Int)] (lb - (-shift).toNat) (lb - (-shift).toNat) := by
        refine ⟨by simp [wf], by simp [usedA], by simp [usedB]⟩
      have := extend_consumes (((-shift).toNat : Nat) : Int) (((lb - (-shift).toNat : Nat) : Int) - (la : Int)) _ _ _ hc
        (by simp)
      exact consumes_cast this (by omega) (by omega)

/-! ## `_BuildAlignment` and the consensus loop -/

theorem slice_ok (x : Bytes) (a n : Nat) (h : a + n ≤ x.length) :
    ∃ r, slice x a n = some r ∧ r.length = n := by
  refine ⟨(x.drop a).take n, by simp [slice, h], ?_⟩
  simp only [List.length_take, List.length_drop]; omega

theorem ncols_cons (ind d : Int) (r : Path) : ncols (ind :: d :: r) = ind.natAbs + d.toNat + ncols r := rfl

/-- on a path that stays inside the reads, `_BuildAlignment` does not panic and both rows have one
symbol per path column -/
theorem buildAlignment_ok (a b : Bytes) (gap : UInt8) : ∀ (p : Path) (posA posB : Nat), wf p = true →
    posA + usedA p ≤ a.length → posB + usedB p ≤ b.length →
    ∃ ra rb, buildAlignment a b gap p posA posB = some (ra, rb) ∧ ra.length = ncols p ∧ rb.length = ncols p
  | [], _, _, _, _, _ => ⟨[], [], rfl, rfl, rfl⟩
  | [_], _, _, h, _, _ => by simp [wf] at h
  | ind :: d :: rest, posA, posB, hw, hA, hB => by
    simp only [wf_cons, Bool.and_eq_true, decide_eq_true_eq] at hw
    rw [usedA_cons] at hA
    rw [usedB_cons] at hB
    obtain ⟨a1, h1, l1⟩ := slice_ok a posA (-ind).toNat (by omega)
    obtain ⟨b1, h2, l2⟩ := slice_ok b posB ind.toNat (by omega)
    obtain ⟨a2, h3, l3⟩ := slice_ok a (posA + (-ind).toNat) d.toNat (by omega)
    obtain ⟨b2, h4, l4⟩ := slice_ok b (posB + ind.toNat) d.toNat (by omega)
    obtain ⟨ra, rb, h5, l5, l6⟩ := buildAlignment_ok a b gap rest (posA + (-ind).toNat + d.toNat)
      (posB + ind.toNat + d.toNat) hw.2 (by omega) (by omega)
    refine ⟨a1 ++ List.replicate ind.toNat gap ++ a2 ++ ra, List.replicate (-ind).toNat gap ++ b1 ++ b2 ++ rb,
      by simp only [buildAlignment, h1, h2, h3, h4, h5], ?_, ?_⟩
    · simp only [List.length_append, List.length_replicate, l1, l3, l5, ncols_cons]; omega
    · simp only [List.length_append, List.length_replicate, l2, l4, l6, ncols_cons]; omega

/-- the loop keeps one base and one quality per column; the base of column `k` is `consBase` of that
column, whatever the carried `qM`/`qm` -/
theorem consLoop_spec (adj : UInt8 → UInt8) : ∀ (sA sB qA qB : Bytes) (qM qm : UInt8),
    sB.length = sA.length → qA.length = sA.length → qB.length = sA.length →
    (consLoop adj qM qm sA sB qA qB).1.length = sA.length ∧
    (consLoop adj qM qm sA sB qA qB).2.1.length = sA.length ∧
    ∀ k, k < sA.length → (consLoop adj qM qm sA sB qA qB).1.getD k 0 =
      consBase (sA.getD k 0) (qA.getD k 0) (sB.getD k 0) (qB.getD k 0)
  | [], sB, qA, qB, _, _, _, _, _ => by
    cases sB <;> cases qA <;> cases qB <;> simp [consLoop]
  | nA :: sA, [], _, _, _, _, h, _, _ => by simp at h
  | nA :: sA, nB :: sB, [], _, _, _, _, h, _ => by simp at h
  | nA :: sA, nB :: sB, a :: qA, [], _, _, _, _, h => by simp at h
  | nA :: sA, nB :: sB, a :: qA, b :: qB, qM, qm, h1, h2, h3 => by
    simp only [List.length_cons, Nat.add_right_cancel_iff] at h1 h2 h3
    obtain ⟨i1, i2, i3⟩ := consLoop_spec adj sA sB qA qB
      (if b > a then b else a) (if b > a then a else b) h1 h2 h3
    refine ⟨by simp [consLoop, i1], by simp [consLoop, i2], ?_⟩
    intro k hk
    cases k with
    | zero => simp [consLoop]
    | succ k =>
      simp only [List.length_cons] at hk
      simp only [consLoop, List.getD_cons_succ]
      exact i3 k (by omega)

/-- "the higher-quality base wins; on a quality tie an IUPAC symbol for the union is written" -/
theorem consBase_rule (nA qA nB qB : UInt8) :
    (qA > qB → consBase nA qA nB qB = nA) ∧
    (qB > qA → consBase nA qA nB qB = nB) ∧
    (qA = qB → nA = nB → consBase nA qA nB qB = nA) ∧
    (qA = qB → nA ≠ nB → consBase nA qA nB qB =
      UInt8.ofNat (Gen.fourBitsBaseDecode.getD (fourCode nA ||| fourCode nB) 0)) := by
  unfold consBase
  refine ⟨?_, ?_, ?_, ?_⟩
  · intro h
    have h1 : ¬ qB > qA := by
      simp only [gt_iff_lt, UInt8.lt_iff_toNat_lt] at h ⊢; omega
    have h2 : ¬ qB = qA := by
      intro e; subst e; simp only [gt_iff_lt, UInt8.lt_iff_toNat_lt] at h; omega
    simp [h1, h2]
  · intro h; simp [h]
  · intro h e
    subst h e
    have h1 : ¬ qA > qA := by simp only [gt_iff_lt, UInt8.lt_iff_toNat_lt]; omega
    simp [h1]
  · intro h e
    subst h
    have h1 : ¬ qA > qA := by simp only [gt_iff_lt, UInt8.lt_iff_toNat_lt]; omega
    simp [h1, e]

end ObiVerif.PEAlign
