import ObiVerif.Model.PEFillV
import ObiVerif.Lemmas.PEAlign
/-!
# Lemmas for C08: the verbatim fills over the flat arena matrices compute the recurrence

Both `_FillMatrixPeLeftAlign` and `_FillMatrixPeRightAlign` write the cells of the flat matrix in strictly
increasing index order; the invariant `Good F la lb n m` says that the first `n` flat positions of both
matrices hold the cells `F i j` of the recurrence (`cellAt`).  Whatever the arena contained before
(stale data of the previous pair) is overwritten before it is read.
-/
namespace ObiVerif.PEAlign
open ObiVerif.Align

/-- flat index of the cell at prefix lengths (i, j) (Go position (i−1, j−1)) -/
def fidx (la i j : Nat) : Nat := j * (la + 1) + i

theorem fidx_succ_col (la i j : Nat) : fidx la i (j + 1) = fidx la i j + (la + 1) := by
  unfold fidx; rw [Nat.succ_mul]; omega

theorem fidx_lt (la lb i j : Nat) (hi : i ≤ la) (hj : j ≤ lb) : fidx la i j < (la + 1) * (lb + 1) := by
  unfold fidx
  have h1 : j * (la + 1) ≤ lb * (la + 1) := Nat.mul_le_mul_right _ hj
  have h2 : (la + 1) * (lb + 1) = lb * (la + 1) + (la + 1) := by rw [Nat.mul_comm, Nat.succ_mul]
  omega

theorem fidx_inj (la i j i' j' : Nat) (hi : i ≤ la) (hi' : i' ≤ la) (h : fidx la i j = fidx la i' j') :
    i = i' ∧ j = j' := by
  unfold fidx at h
  have key : ∀ a b x y : Nat, x ≤ la → a < b → a * (la + 1) + x < b * (la + 1) + y := by
    intro a b x y hx hab
    have : (a + 1) * (la + 1) ≤ b * (la + 1) := Nat.mul_le_mul_right _ hab
    rw [Nat.succ_mul] at this
    omega
  by_cases h1 : j < j'
  · have := key j j' i i' hi h1; omega
  · by_cases h2 : j' < j
    · have := key j' j i' i hi' h2; omega
    · have : j = j' := by omega
      subst this
      exact ⟨by omega, rfl⟩

theorem matIdx_cast (la i j : Nat) : matIdx la ((i : Int) - 1) ((j : Int) - 1) = ((fidx la i j : Nat) : Int) := by
  unfold matIdx fidx
  have : (j : Int) - 1 + 1 = j := by omega
  rw [this]
  simp only [Int.natCast_add, Int.natCast_mul, Int.natCast_one]
  omega

/-- the first `n` flat positions of both matrices hold the cells of the recurrence -/
structure Good (F : Nat → Nat → Cell) (la lb n : Nat) (m : Mats) : Prop where
  szS : m.sm.size = (la + 1) * (lb + 1)
  szP : m.pm.size = (la + 1) * (lb + 1)
  cells : ∀ i j, i ≤ la → j ≤ lb → fidx la i j < n →
    m.sm[fidx la i j]? = some (F i j).1 ∧ m.pm[fidx la i j]? = some (F i j).2

theorem Good.cast {F : Nat → Nat → Cell} {la lb n n' : Nat} {m : Mats} (h : Good F la lb n m) (e : n = n') :
    Good F la lb n' m := e ▸ h

theorem prepare_size (arr : Array Int) (needed : Nat) : (prepare arr needed).size = needed := by
  unfold prepare
  by_cases h : needed > arr.size
  · simp [h]
  · simp only [h, if_false, Array.size_extract]; omega

/-- after `(*matrix)[:needed]` nothing is known about the content: stale data of the previous alignment -/
theorem good_prepare (F : Nat → Nat → Cell) (la lb : Nat) (m0 : Mats) :
    Good F la lb 0 ⟨prepare m0.sm ((la + 1) * (lb + 1)), prepare m0.pm ((la + 1) * (lb + 1))⟩ :=
  ⟨prepare_size _ _, prepare_size _ _, fun _ _ _ _ h => by omega⟩

/-- writing the right value at flat position `n` extends the invariant -/
theorem setMatrices_good {F : Nat → Nat → Cell} {la lb n : Nat} {m : Mats} (hg : Good F la lb n m)
    (i j : Nat) (hn : fidx la i j = n) (hi : i ≤ la) (hj : j ≤ lb) (a b vA vB : Int)
    (ha : a = (i : Int) - 1) (hb : b = (j : Int) - 1) (hvA : vA = (F i j).1) (hvB : vB = (F i j).2) :
    ∃ m', setMatrices m la a b vA vB = some m' ∧ Good F la lb (n + 1) m' := by
  subst ha hb hvA hvB
  have hlt := fidx_lt la lb i j hi hj
  unfold setMatrices
  rw [matIdx_cast]
  have c1 : (0 : Int) ≤ ((fidx la i j : Nat) : Int) := Int.natCast_nonneg _
  simp only [c1, Int.toNat_natCast, hg.szS, hg.szP, hlt, and_self, if_true]
  refine ⟨_, rfl, ⟨by simp [hg.szS], by simp [hg.szP], ?_⟩⟩
  intro i' j' hi' hj' hlt'
  by_cases he : fidx la i' j' = fidx la i j
  · obtain ⟨rfl, rfl⟩ := fidx_inj la i' j' i j hi' hi he
    simp only [Array.getElem?_setIfInBounds_self, hg.szS, hg.szP, hlt, if_true, and_self]
  · have hne : fidx la i j ≠ fidx la i' j' := fun e => he e.symm
    simp only [Array.getElem?_setIfInBounds_ne hne]
    exact hg.cells i' j' hi' hj' (by omega)

theorem getMatrixFrom_some (mat : Array Int) (la i j : Nat) (l d tp : Int)
    (h1 : mat[fidx la (i + 1) j]? = some l) (h2 : mat[fidx la i j]? = some d) (h3 : mat[fidx la i (j + 1)]? = some tp) :
    getMatrixFrom mat la (i : Int) (j : Int) = some (l, d, tp) := by
  have e1 : ((j : Int) + 1) * ((la : Int) + 1) + (i : Int) = ((fidx la i (j + 1) : Nat) : Int) := by
    unfold fidx
    simp only [Int.natCast_add, Int.natCast_mul, Int.natCast_one]
  have e2 : ((j : Int) + 1) * ((la : Int) + 1) + (i : Int) - (la : Int) = ((fidx la (i + 1) j : Nat) : Int) := by
    unfold fidx
    simp only [Int.natCast_add, Int.natCast_mul, Int.natCast_one, Int.add_mul, Int.one_mul]
    omega
  have e3 : ((j : Int) + 1) * ((la : Int) + 1) + (i : Int) - (la : Int) - 1 = ((fidx la i j : Nat) : Int) := by
    unfold fidx
    simp only [Int.natCast_add, Int.natCast_mul, Int.natCast_one, Int.add_mul, Int.one_mul]
    omega
  unfold getMatrixFrom
  dsimp only
  rw [e3, e2, e1]
  simp only [Int.toNat_natCast, Int.natCast_nonneg, if_true, h1, h2, h3]

theorem setBest_eq (m : Mats) (la : Nat) (a b d l t : Int) :
    setBest m la a b d l t = setMatrices m la a b (best d l t).1 (best d l t).2 := by
  unfold setBest best
  by_cases h1 : d ≥ l ∧ d ≥ t
  · simp [h1]
  · by_cases h2 : l ≥ d ∧ l ≥ t
    · simp [h1, h2]
    · simp [h1, h2]

section Cells
variable (s : Nat → Nat → Int) (cA cB : Nat → Int) (la lb : Nat)

theorem cellAt_row0 : ∀ j, cellAt s cA cB la 0 j = if j = 0 then (0, 0) else ((j : Int) * cB 0, 1)
  | 0 => by simp [cell_zero_col]
  | j + 1 => by
    rw [cell_first_row, cellAt_row0 j]
    by_cases h : j = 0
    · simp [h]
    · simp only [h, if_false, Nat.add_eq_zero_iff, Nat.succ_ne_self, and_false, Int.natCast_add,
        Int.natCast_one, Int.add_mul, Int.one_mul]

/-- one inner cell: the three reads hit already written cells, the `switch` writes the recurrence value -/
theorem cellStep_good {n : Nat} {m : Mats} (hg : Good (cellAt s cA cB la) la lb n m)
    (i j : Nat) (hn : fidx la (i + 1) (j + 1) = n) (hi : i < la) (hj : j < lb) (gl gt : Int)
    (hgl : gl = cB (i + 1)) (hgt : gt = cA (j + 1)) :
    ∃ m', cellStep s la gl gt i j m = some m' ∧ Good (cellAt s cA cB la) la lb (n + 1) m' := by
  subst hgl hgt
  have h1 := fidx_succ_col la (i + 1) j
  have h2 := fidx_succ_col la i j
  have r1 := (hg.cells (i + 1) j (by omega) (by omega) (by unfold fidx at *; omega)).1
  have r2 := (hg.cells i j (by omega) (by omega) (by unfold fidx at *; omega)).1
  have r3 := (hg.cells i (j + 1) (by omega) (by omega) (by unfold fidx at *; omega)).1
  unfold cellStep
  rw [getMatrixFrom_some _ _ _ _ _ _ _ r1 r2 r3]
  simp only
  rw [setBest_eq]
  exact setMatrices_good hg (i + 1) (j + 1) hn (by omega) (by omega) _ _ _ _ (by simp) (by simp)
    (by rw [cell_inner s cA cB la i j hi]) (by rw [cell_inner s cA cB la i j hi])

end Cells

theorem forLoop_inv {σ : Type} (Inv : Nat → σ → Prop) (body : Nat → σ → Option σ) :
    ∀ (n lo : Nat) (st : σ),
      (∀ i st, lo ≤ i → i < lo + n → Inv i st → ∃ st', body i st = some st' ∧ Inv (i + 1) st') →
      Inv lo st → ∃ st', forLoop body n lo st = some st' ∧ Inv (lo + n) st'
  | 0, lo, st, _, h0 => ⟨st, rfl, h0⟩
  | n + 1, lo, st, hstep, h0 => by
    obtain ⟨st1, hb, h1⟩ := hstep lo st (Nat.le_refl _) (by omega) h0
    obtain ⟨st2, hl, h2⟩ := forLoop_inv Inv body n (lo + 1) st1
      (fun i st hi hi' hinv => hstep i st (by omega) (by omega) hinv) h1
    refine ⟨st2, ?_, by have e : lo + (n + 1) = lo + 1 + n := by omega
                        rw [e]; exact h2⟩
    simp only [forLoop, hb, hl]

/-! ## `_FillMatrixPeLeftAlign` -/

theorem fillLeftV_ok (s : Nat → Nat → Int) (g : Int) (la lb : Nat) (m0 : Mats) (hla : 0 < la) (hlb : 0 < lb) :
    ∃ m, fillLeftV s g la lb m0 = some (Mf s (cALeft g) (cBLeft g la) la la lb, m) ∧
      Good (cellAt s (cALeft g) (cBLeft g la) la) la lb ((la + 1) * (lb + 1)) m := by
  have g0 := good_prepare (cellAt s (cALeft g) (cBLeft g la) la) la lb m0
  -- (-1, -1)
  obtain ⟨m1, e1, g1⟩ := setMatrices_good g0 0 0 (by simp [fidx]) (by omega) (by omega) (-1) (-1) 0 0
    (by simp) (by simp) (by simp [cell_zero_col]) (by simp [cell_zero_col])
  -- first column
  obtain ⟨m2, e2, g2⟩ := forLoop_inv (fun i m => Good (cellAt s (cALeft g) (cBLeft g la) la) la lb (1 + i) m)
    (fun i m => setMatrices m la i (-1) 0 (-1)) la 0 m1
    (by
      intro i m _ hi hinv
      have := setMatrices_good hinv (i + 1) 0 (by simp [fidx]; omega) (by omega) (by omega) (i : Int) (-1) 0 (-1)
        (by omega) (by simp)
        (by rw [cell_zero_col _ _ _ _ _ (by omega)]; simp [cALeft])
        (by rw [cell_zero_col _ _ _ _ _ (by omega)]; simp)
      exact this)
    (g1.cast (by omega))
  -- the columns
  obtain ⟨m3, e3, g3⟩ := forLoop_inv
    (fun j m => Good (cellAt s (cALeft g) (cBLeft g la) la) la lb (fidx la 0 (j + 1)) m)
    (leftCol s g la) lb 0 m2
    (by
      intro j m _ hj hinv
      obtain ⟨ma, ea, ga⟩ := setMatrices_good hinv 0 (j + 1) rfl (by omega) (by omega) (-1) (j : Int)
        (((j : Int) + 1) * g) 1 (by simp) (by omega)
        (by rw [cellAt_row0]; have h0 : ¬ (0 = la) := by omega
            simp [cBLeft, h0]) (by rw [cellAt_row0]; simp)
      obtain ⟨mb, eb, gb⟩ := forLoop_inv
        (fun i m => Good (cellAt s (cALeft g) (cBLeft g la) la) la lb (fidx la (i + 1) (j + 1)) m)
        (cellStep s la g g · j) (la - 1) 0 ma
        (by
          intro i m _ hi hinv
          obtain ⟨m', e', g'⟩ := cellStep_good s (cALeft g) (cBLeft g la) la lb hinv i j rfl (by omega) (by omega) g g
            (by unfold cBLeft; rw [if_neg (by omega)]) (by unfold cALeft; rw [if_neg (by omega)])
          exact ⟨m', e', g'.cast (by unfold fidx; omega)⟩)
        (ga.cast (by unfold fidx; omega))
      obtain ⟨mc, ec, gc⟩ := cellStep_good s (cALeft g) (cBLeft g la) la lb gb (la - 1) j (by simp) (by omega)
        (by omega) 0 g (by unfold cBLeft; rw [if_pos (by omega)]) (by unfold cALeft; rw [if_neg (by omega)])
      refine ⟨mc, by simp only [leftCol, ea, eb, ec], gc.cast ?_⟩
      have := fidx_succ_col la 0 (j + 1)
      unfold fidx at *
      omega)
    (g2.cast (by simp [fidx]; omega))
  have hN : fidx la 0 (0 + lb + 1) = (la + 1) * (lb + 1) := by
    unfold fidx; rw [Nat.mul_comm]; simp
  have g4 := g3.cast hN
  have hcorner := (g4.cells la lb (Nat.le_refl _) (Nat.le_refl _) (fidx_lt la lb la lb (Nat.le_refl _) (Nat.le_refl _))).1
  have hget : getMatrix m3.sm la ((la - 1 : Nat) : Int) ((lb : Int) - 1) =
      some (cellAt s (cALeft g) (cBLeft g la) la la lb).1 := by
    unfold getMatrix
    have : ((la - 1 : Nat) : Int) = (la : Int) - 1 := by omega
    rw [this, matIdx_cast]
    simp only [Int.natCast_nonneg, if_true, Int.toNat_natCast, hcorner]
  refine ⟨m3, ?_, g4⟩
  unfold fillLeftV
  have hla0 : ¬ la = 0 := by omega
  simp only [e1, e2, hla0, if_false, e3, hget]
  rfl

/-! ## `_FillMatrixPeRightAlign` -/

theorem fillRightV_ok (s : Nat → Nat → Int) (g : Int) (la lb : Nat) (m0 : Mats) (hla : 0 < la) (hlb : 0 < lb) :
    ∃ m, fillRightV s g la lb m0 = some (Mf s (cARight g lb) (cBRight g) la la lb, m) ∧
      Good (cellAt s (cARight g lb) (cBRight g) la) la lb ((la + 1) * (lb + 1)) m := by
  have g0 := good_prepare (cellAt s (cARight g lb) (cBRight g) la) la lb m0
  obtain ⟨m1, e1, g1⟩ := setMatrices_good g0 0 0 (by simp [fidx]) (by omega) (by omega) (-1) (-1) 0 0
    (by simp) (by simp) (by simp [cell_zero_col]) (by simp [cell_zero_col])
  -- first column: (i+1) * gapPenalty
  obtain ⟨m2, e2, g2⟩ := forLoop_inv (fun i m => Good (cellAt s (cARight g lb) (cBRight g) la) la lb (1 + i) m)
    (fun i m => setMatrices m la i (-1) (((i : Int) + 1) * g) (-1)) la 0 m1
    (by
      intro i m _ hi hinv
      have := setMatrices_good hinv (i + 1) 0 (by simp [fidx]; omega) (by omega) (by omega) (i : Int) (-1)
        (((i : Int) + 1) * g) (-1) (by omega) (by simp)
        (by
          rw [cell_zero_col _ _ _ _ _ (by omega)]
          have : ¬ (0 = lb) := by omega
          simp [cARight, this])
        (by rw [cell_zero_col _ _ _ _ _ (by omega)]; simp)
      exact this)
    (g1.cast (by omega))
  -- all columns but the last
  obtain ⟨m3, e3, g3⟩ := forLoop_inv
    (fun j m => Good (cellAt s (cARight g lb) (cBRight g) la) la lb (fidx la 0 (j + 1)) m)
    (rightCol s g la) (lb - 1) 0 m2
    (by
      intro j m _ hj hinv
      obtain ⟨ma, ea, ga⟩ := setMatrices_good hinv 0 (j + 1) rfl (by omega) (by omega) (-1) (j : Int)
        0 1 (by simp) (by omega)
        (by rw [cellAt_row0]; simp [cBRight]) (by rw [cellAt_row0]; simp)
      obtain ⟨mb, eb, gb⟩ := forLoop_inv
        (fun i m => Good (cellAt s (cARight g lb) (cBRight g) la) la lb (fidx la (i + 1) (j + 1)) m)
        (cellStep s la g g · j) la 0 ma
        (by
          intro i m _ hi hinv
          obtain ⟨m', e', g'⟩ := cellStep_good s (cARight g lb) (cBRight g) la lb hinv i j rfl (by omega) (by omega) g g
            (by unfold cBRight; rw [if_neg (by omega)]) (by unfold cARight; rw [if_neg (by omega)])
          exact ⟨m', e', g'.cast (by unfold fidx; omega)⟩)
        (ga.cast (by unfold fidx; omega))
      refine ⟨mb, by simp only [rightCol, ea, eb], gb.cast ?_⟩
      have := fidx_succ_col la 0 (j + 1)
      unfold fidx at *
      omega)
    (g2.cast (by simp [fidx]; omega))
  -- the last column
  have hlb1 : 0 + (lb - 1) + 1 = lb := by omega
  obtain ⟨m4, e4, g4⟩ := setMatrices_good (g3.cast (by rw [hlb1])) 0 lb rfl (by omega) (by omega) (-1)
    ((lb - 1 : Nat) : Int) 0 1 (by simp) (by omega)
    (by rw [cellAt_row0]; have : ¬ lb = 0 := by omega
        simp [cBRight, this]) (by rw [cellAt_row0]; have : ¬ lb = 0 := by omega
                                  simp [this])
  obtain ⟨m5, e5, g5⟩ := forLoop_inv
    (fun i m => Good (cellAt s (cARight g lb) (cBRight g) la) la lb (fidx la (i + 1) lb) m)
    (cellStep s la g 0 · (lb - 1)) la 0 m4
    (by
      intro i m _ hi hinv
      have hinv' : Good (cellAt s (cARight g lb) (cBRight g) la) la lb (fidx la (i + 1) (lb - 1 + 1)) m :=
        hinv.cast (by rw [show lb - 1 + 1 = lb by omega])
      obtain ⟨m', e', g'⟩ := cellStep_good s (cARight g lb) (cBRight g) la lb hinv' i (lb - 1) rfl (by omega) (by omega)
        g 0 (by unfold cBRight; rw [if_neg (by omega)]) (by unfold cARight; rw [if_pos (by omega)])
      exact ⟨m', e', g'.cast (by rw [show lb - 1 + 1 = lb by omega]; unfold fidx; omega)⟩)
    (g4.cast (by unfold fidx; omega))
  have hN : fidx la (0 + la + 1) lb = (la + 1) * (lb + 1) := by
    unfold fidx; rw [Nat.mul_comm (la + 1), Nat.succ_mul]; omega
  have g6 := g5.cast hN
  have hcorner := (g6.cells la lb (Nat.le_refl _) (Nat.le_refl _) (fidx_lt la lb la lb (Nat.le_refl _) (Nat.le_refl _))).1
  have hget : getMatrix m5.sm la ((la : Int) - 1) ((lb - 1 : Nat) : Int) =
      some (cellAt s (cARight g lb) (cBRight g) la la lb).1 := by
    unfold getMatrix
    have : ((lb - 1 : Nat) : Int) = (lb : Int) - 1 := by omega
    rw [this, matIdx_cast]
    simp only [Int.natCast_nonneg, if_true, Int.toNat_natCast, hcorner]
  refine ⟨m5, ?_, g6⟩
  unfold fillRightV
  have hlb0 : ¬ lb = 0 := by omega
  simp only [e1, e2, hlb0, if_false, e3, e4, e5, hget]
  rfl

/-! ## `_Backtracking` reads the flat path matrix -/

theorem pathAt_good {F : Nat → Nat → Cell} {la lb : Nat} {m : Mats} (hg : Good F la lb ((la + 1) * (lb + 1)) m)
    (i j : Nat) (hi : i ≤ la) (hj : j ≤ lb) : pathAt m.pm la i j = (F i j).2 := by
  unfold pathAt getMatrix
  rw [matIdx_cast]
  simp only [Int.natCast_nonneg, if_true, Int.toNat_natCast,
    (hg.cells i j hi hj (fidx_lt la lb i j hi hj)).2, Option.getD_some]

/-- `_Backtracking` never leaves the matrix: two path matrices that agree on `0..la × 0..lb` give the same path -/
theorem btLoop_congr (P P' : Nat → Nat → Int) (la lb : Nat) (h : ∀ i j, i ≤ la → j ≤ lb → P i j = P' i j) :
    ∀ (fuel i j : Nat) (ld lu ll : Int) (acc : Path), i ≤ la → j ≤ lb →
      btLoop P fuel i j ld lu ll acc = btLoop P' fuel i j ld lu ll acc
  | 0, _, _, _, _, _, _, _, _ => rfl
  | fuel + 1, i, j, ld, lu, ll, acc, hi, hj => by
    have ih := btLoop_congr P P' la lb h fuel
    rw [btLoop, btLoop, h i j hi hj]
    dsimp only
    generalize P' i j = step
    by_cases h0 : i = 0 ∧ j = 0
    · simp only [h0, and_self, if_true]
    · simp only [h0, if_false]
      by_cases hs0 : step = 0
      · simp only [hs0, if_true]
        by_cases hz : i = 0 ∨ j = 0
        · simp only [hz, if_true]
        · simp only [hz, if_false]
          apply ih <;> omega
      · simp only [hs0, if_false]
        by_cases hp : step > 0
        · simp only [hp, if_true]
          by_cases hj' : j < step.toNat
          · simp only [hj', if_true]
          · simp only [hj', if_false]
            apply ih <;> omega
        · simp only [hp, if_false]
          by_cases hi' : i < (-step).toNat
          · simp only [hi', if_true]
          · simp only [hi', if_false]
            apply ih <;> omega

theorem backtrack_congr (P P' : Nat → Nat → Int) (la lb : Nat) (h : ∀ i j, i ≤ la → j ≤ lb → P i j = P' i j) :
    backtrack P la lb = backtrack P' la lb :=
  btLoop_congr P P' la lb h _ la lb 0 0 0 [] (Nat.le_refl _) (Nat.le_refl _)

/-- `fill` written with `cellAt` -/
theorem fill_eq_cells (s : Nat → Nat → Int) (cA cB : Nat → Int) (la lb : Nat) (hla : 0 < la) (hlb : 0 < lb) :
    fill s cA cB la lb =
      (backtrack (fun i j => (cellAt s cA cB la i j).2) la lb).map
        (fun p => (⟨(cellAt s cA cB la la lb).1, p⟩ : FillRes)) := by
  unfold fill
  have h1 : ¬ (la = 0 ∨ lb = 0) := by omega
  simp only [h1, if_false]
  have e : ∀ i j, j ≤ lb → ((table s cA cB la lb).getD j []).getD i ((0, 0) : Cell) = cellAt s cA cB la i j := by
    intro i j hj
    rw [table_getD _ _ _ _ _ _ hj]; rfl
  rw [backtrack_congr _ (fun i j => (cellAt s cA cB la i j).2) la lb (fun i j _ hj => by rw [e i j hj]),
    e la lb (Nat.le_refl _)]
  cases backtrack (fun i j => (cellAt s cA cB la i j).2) la lb <;> rfl

/-- **refinement, left fill**: for every content of the arena, the verbatim fill + backtracking returns
exactly what the recurrence-level `fillLeft` returns -/
theorem fillLeftA_eq (s : Nat → Nat → Int) (g : Int) (la lb : Nat) (m0 : Mats) (hla : 0 < la) (hlb : 0 < lb) :
    (fillLeftA s g la lb m0).map (·.1) = fillLeft s g la lb := by
  obtain ⟨m, hv, hg⟩ := fillLeftV_ok s g la lb m0 hla hlb
  unfold fillLeftA fillLeft
  rw [hv, fill_eq_cells _ _ _ _ _ hla hlb]
  simp only
  rw [backtrack_congr (pathAt m.pm la) (fun i j => (cellAt s (cALeft g) (cBLeft g la) la i j).2) la lb
      (fun i j hi hj => pathAt_good hg i j hi hj)]
  simp only [Mf]
  cases backtrack (fun i j => (cellAt s (cALeft g) (cBLeft g la) la i j).2) la lb <;> rfl

theorem fillRightA_eq (s : Nat → Nat → Int) (g : Int) (la lb : Nat) (m0 : Mats) (hla : 0 < la) (hlb : 0 < lb) :
    (fillRightA s g la lb m0).map (·.1) = fillRight s g la lb := by
  obtain ⟨m, hv, hg⟩ := fillRightV_ok s g la lb m0 hla hlb
  unfold fillRightA fillRight
  rw [hv, fill_eq_cells _ _ _ _ _ hla hlb]
  simp only
  rw [backtrack_congr (pathAt m.pm la) (fun i j => (cellAt s (cARight g lb) (cBRight g) la i j).2) la lb
      (fun i j hi hj => pathAt_good hg i j hi hj)]
  simp only [Mf]
  cases backtrack (fun i j => (cellAt s (cARight g lb) (cBRight g) la i j).2) la lb <;> rfl

/-- **refinement, exact mode**: `PEAlign` on a reused arena (the left fill runs over the matrices of the
right fill, which themselves ran over the matrices of the previous pair) returns what `peAlignExact` returns -/
theorem peAlignExactA_eq (s : Nat → Nat → Int) (g : Int) (la lb : Nat) (m0 : Mats) (hla : 0 < la) (hlb : 0 < lb) :
    (peAlignExactA s g la lb m0).map (·.1) = peAlignExact s g la lb := by
  obtain ⟨pr, hr, _, _⟩ := fill_ok s (cARight g lb) (cBRight g) la lb hla hlb
  obtain ⟨pl, hl, _, _⟩ := fill_ok s (cALeft g) (cBLeft g la) la lb hla hlb
  have hR := fillRightA_eq s g la lb m0 hla hlb
  unfold fillRight at hR
  rw [hr] at hR
  cases hra : fillRightA s g la lb m0 with
  | none => rw [hra] at hR; simp at hR
  | some x =>
    obtain ⟨r, m1⟩ := x
    rw [hra] at hR
    simp only [Option.map_some, Option.some.injEq] at hR
    obtain ⟨m2, hv, hg⟩ := fillLeftV_ok s g la lb m1 hla hlb
    have hL := fillLeftA_eq s g la lb m1 hla hlb
    unfold fillLeft at hL
    rw [hl] at hL
    unfold fillLeftA at hL
    rw [hv] at hL
    simp only at hL
    unfold peAlignExactA peAlignExact fillLeft fillRight
    rw [hra, hl, hr]
    simp only
    rw [hv]
    simp only
    subst hR
    by_cases hgt : Mf s (cALeft g) (cBLeft g la) la la lb > Mf s (cARight g lb) (cBRight g) la la lb
    · simp only [hgt, if_true]
      cases hb : backtrack (pathAt m2.pm la) la lb with
      | none => rw [hb] at hL; simp at hL
      | some p =>
        rw [hb] at hL
        simp only [Option.map_some, Option.some.injEq, FillRes.mk.injEq, true_and] at hL
        simp [hL]
    · simp only [hgt, if_false, Option.map_some]

end ObiVerif.PEAlign
