import ObiVerif.Model.Kmer
/-!
# Lemmas on the 4-mer encoder and counter (C19)
-/
namespace ObiVerif.Kmer

/-- every entry of `__single_base_code__` is a 2-bit code (decided over the whole generated table) -/
theorem singleBaseCode_lt : ∀ i, i < 32 → Gen.singleBaseCode.getD i 0 < 4 := by decide

theorem singleBaseCode_length : Gen.singleBaseCode.length = 32 := by decide

theorem baseCode_lt (b : UInt8) : baseCode b < 4 :=
  singleBaseCode_lt _ (Nat.mod_lt _ (by decide))

/-- `x | c = x + c` when the two low bits of `x` are clear and `c` is a 2-bit code -/
theorem lor_low2 (x c : Nat) (hx : x % 4 = 0) (hc : c < 4) : x ||| c = x + c := by
  have h := Nat.two_pow_add_eq_or_of_lt (i := 2) (b := c) (by simpa using hc) (x / 4)
  have e : 2 ^ 2 * (x / 4) = x := by omega
  rw [e] at h
  exact h.symm

/-- the code of the 4-mer `a b c d` -/
def code4 (a b c d : UInt8) : Nat :=
  ((baseCode a * 4 + baseCode b) * 4 + baseCode c) * 4 + baseCode d

/-- specification: the codes of the 4-mers of `s`, in order -/
def fourmers : Bytes → List Nat
  | a :: b :: c :: d :: t => code4 a b c d :: fourmers (b :: c :: d :: t)
  | [_, _, _] => []
  | [_, _] => []
  | [_] => []
  | [] => []

theorem code4_lt (a b c d : UInt8) : code4 a b c d < 256 := by
  have := baseCode_lt a; have := baseCode_lt b; have := baseCode_lt c; have := baseCode_lt d
  unfold code4; omega

theorem roll_code4 (a b c d e : UInt8) :
    ((code4 a b c d * 4) % 256) ||| baseCode e = code4 b c d e := by
  have ha := baseCode_lt a; have hb := baseCode_lt b; have hc := baseCode_lt c
  have hd := baseCode_lt d; have he := baseCode_lt e
  rw [lor_low2 _ _ (by omega) he]
  unfold code4; omega

theorem encode4Roll_eq (t : Bytes) : ∀ a b c d : UInt8,
    encode4Roll (code4 a b c d) t = fourmers (b :: c :: d :: t) := by
  induction t with
  | nil => intros; rfl
  | cons e t ih =>
    intro a b c d
    simp only [encode4Roll, fourmers, roll_code4]
    rw [ih]

theorem encode4First_eq (a b c d : UInt8) (t : Bytes) :
    encode4First (a :: b :: c :: d :: t) = code4 a b c d := by
  have ha := baseCode_lt a; have hb := baseCode_lt b; have hc := baseCode_lt c
  have hd := baseCode_lt d
  simp only [encode4First, List.take, List.foldl]
  unfold code4; omega

theorem encode4mer_eq (s : Bytes) : encode4mer s = fourmers s := by
  match s with
  | [] => rfl
  | [_] => rfl
  | [_, _] => rfl
  | [_, _, _] => rfl
  | a :: b :: c :: d :: t =>
    have hl : ¬ (a :: b :: c :: d :: t).length < 4 := by simp
    simp only [encode4mer, hl, if_false, encode4First_eq, List.drop, fourmers]
    rw [encode4Roll_eq]

theorem fourmers_length (s : Bytes) : (fourmers s).length = s.length - 3 := by
  match s with
  | [] => rfl
  | [_] => rfl
  | [_, _] => rfl
  | [_, _, _] => rfl
  | a :: b :: c :: d :: t =>
    simp only [fourmers, List.length_cons]
    rw [fourmers_length (b :: c :: d :: t)]
    simp

theorem fourmers_lt (s : Bytes) : ∀ c ∈ fourmers s, c < 256 := by
  match s with
  | [] => simp [fourmers]
  | [_] => simp [fourmers]
  | [_, _] => simp [fourmers]
  | [_, _, _] => simp [fourmers]
  | a :: b :: c :: d :: t =>
    intro x hx
    simp only [fourmers, List.mem_cons] at hx
    rcases hx with rfl | hx
    · exact code4_lt _ _ _ _
    · exact fourmers_lt (b :: c :: d :: t) x hx

/-- the i-th 4-mer code is the code of the four bases at `i..i+3` -/
theorem fourmers_getElem (s : Bytes) (i : Nat) (h : i + 3 < s.length) :
    (fourmers s)[i]'(by rw [fourmers_length]; omega) =
      code4 (s[i]'(by omega)) (s[i+1]'(by omega)) (s[i+2]'(by omega)) (s[i+3]'h) := by
  match s, i with
  | a :: b :: c :: d :: t, 0 => simp [fourmers]
  | a :: b :: c :: d :: t, i + 1 =>
    have h' : i + 3 < (b :: c :: d :: t).length := by simpa using h
    have := fourmers_getElem (b :: c :: d :: t) i h'
    simp only [fourmers, List.getElem_cons_succ]
    exact this
  | [], _ => simp at h
  | [_], _ => simp at h
  | [_, _], _ => simp at h; omega
  | [_, _, _], _ => simp at h; omega

/-! ## the counting table -/

def step16 (t : Array Nat) (c : Nat) : Array Nat := t.modify c (fun x => (x + 1) % 65536)

theorem step16_size (t : Array Nat) (c : Nat) : (step16 t c).size = t.size := by
  simp [step16]

theorem step16_getD (t : Array Nat) (c i : Nat) (hi : i < t.size) :
    (step16 t c).getD i 0 = if c = i then (t.getD i 0 + 1) % 65536 else t.getD i 0 := by
  simp only [Array.getD_eq_getD_getElem?, step16, Array.getElem?_modify]
  by_cases e : c = i
  · simp [e, Array.getElem?_eq_getElem hi]
  · simp [e]

theorem foldl_step16_size (l : List Nat) (t : Array Nat) : (l.foldl step16 t).size = t.size := by
  induction l generalizing t with
  | nil => rfl
  | cons a l ih => simp [ih, step16_size]

theorem foldl_step16_getD (l : List Nat) (t : Array Nat) (i : Nat) (hi : i < t.size) :
    (l.foldl step16 t).getD i 0 = (t.getD i 0 + l.count i) % 65536 ∨
    (l.count i = 0 ∧ (l.foldl step16 t).getD i 0 = t.getD i 0) := by
  induction l generalizing t with
  | nil => right; simp
  | cons a l ih =>
    have hs : i < (step16 t a).size := by rw [step16_size]; exact hi
    simp only [List.foldl_cons]
    rcases ih (step16 t a) hs with h | ⟨h0, h⟩
    · by_cases e : a = i
      · subst e
        left
        rw [h, step16_getD _ _ _ hi]
        simp only [if_true, List.count_cons_self]
        omega
      · rw [h, step16_getD _ _ _ hi]
        simp only [e, if_false]
        left
        rw [List.count_cons_of_ne (by simpa using e)]
    · by_cases e : a = i
      · subst e
        left
        rw [h, step16_getD _ _ _ hi]
        simp only [if_true, List.count_cons_self, h0]
      · right
        refine ⟨?_, ?_⟩
        · rw [List.count_cons_of_ne (by simpa using e)]; exact h0
        · rw [h, step16_getD _ _ _ hi]; simp [e]

theorem count4mer_eq (s : Bytes) (c : Nat) (hc : c < 256) :
    (count4mer s).getD c 0 = (fourmers s).count c % 65536 := by
  have hsz : c < (Array.replicate 256 0 : Array Nat).size := by simpa using hc
  have h0 : (Array.replicate 256 0 : Array Nat).getD c 0 = 0 := by
    simp [Array.getD, hc]
  unfold count4mer
  rw [encode4mer_eq]
  rcases foldl_step16_getD (fourmers s) (Array.replicate 256 0) c hsz with h | ⟨hz, h⟩
  · have : (fourmers s).foldl (fun t c => t.modify c (fun x => (x + 1) % 65536)) (Array.replicate 256 0)
        = (fourmers s).foldl step16 (Array.replicate 256 0) := rfl
    rw [this, h, h0]; simp
  · have : (fourmers s).foldl (fun t c => t.modify c (fun x => (x + 1) % 65536)) (Array.replicate 256 0)
        = (fourmers s).foldl step16 (Array.replicate 256 0) := rfl
    rw [this, h, h0, hz]

theorem count4mer_size (s : Bytes) : (count4mer s).size = 256 := by
  unfold count4mer
  have : ∀ l : List Nat, l.foldl (fun t c => t.modify c (fun x => (x + 1) % 65536)) (Array.replicate 256 0)
        = l.foldl step16 (Array.replicate 256 0) := fun _ => rfl
  rw [this, foldl_step16_size]; simp

theorem fourmers_replicate_a (n : Nat) : fourmers (List.replicate (n + 3) 97) = List.replicate n 0 := by
  induction n with
  | zero => rfl
  | succ n ih =>
    have : List.replicate (n + 1 + 3) (97 : UInt8) = 97 :: 97 :: 97 :: 97 :: List.replicate n 97 := by
      simp [List.replicate_succ]
    rw [this, fourmers]
    have h2 : (97 : UInt8) :: 97 :: 97 :: List.replicate n 97 = List.replicate (n + 3) 97 := by
      simp [List.replicate_succ]
    rw [h2, ih]
    have : code4 97 97 97 97 = 0 := by decide
    rw [this, List.replicate_succ]

end ObiVerif.Kmer
