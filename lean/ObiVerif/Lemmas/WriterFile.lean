import ObiVerif.Model.WriterFmt
import ObiVerif.Lemmas.Reseq
import ObiVerif.Lemmas.Header
/-!
# Whole files of the four writers: formatter model ∘ re-sequencing writer (C04 lemmas)
-/
namespace ObiVerif.WriterFile
open ObiVerif.Reseq ObiVerif.Writer ObiVerif.WriterFmt

theorem foldl_emitRaw (l : List Bytes) (acc : Bytes) : l.foldl emitRaw acc = acc ++ l.flatten := by
  induction l generalizing acc with
  | nil => simp
  | cons a t ih => simp [ih, emitRaw]

/-- FASTA / FASTQ / CSV: whatever the arrival order, the output is chunk 0, chunk 1, …, chunk n-1 -/
theorem writeRaw_perm (v : Nat → Bytes) (n : Nat) (ks : List Nat) (hp : ks.Perm (List.range n)) :
    writeRaw (ks.map fun k => (k, v k)) = ((List.range n).map v).flatten := by
  unfold writeRaw
  rw [(run_perm emitRaw [] v n ks hp).1, foldl_emitRaw]; simp

/-- when every batch is formatted (no formatter dies), `writeFile` is the writer machine on the texts -/
theorem mapM_fmt (c : Cfg) (recs : Nat → List Rec) (txt : Nat → B) (ks : List Nat)
    (h : ∀ k, fmtBatch c k (recs k) = some (txt k)) :
    (ks.map fun k => (k, recs k)).mapM (fun a => (fmtBatch c a.1 a.2).map (fun t => (a.1, t)))
      = some (ks.map fun k => (k, txt k)) := by
  induction ks with
  | nil => rfl
  | cons k ks ih =>
    simp only [List.map_cons]
    rw [List.mapM_cons, h k, ih]
    rfl

theorem writeFile_raw (c : Cfg) (hk : c.kind ≠ Kind.json) (recs : Nat → List Rec) (txt : Nat → B)
    (h : ∀ k, fmtBatch c k (recs k) = some (txt k)) (n : Nat) (ks : List Nat) (hp : ks.Perm (List.range n)) :
    writeFile c (ks.map fun k => (k, recs k)) = some ((List.range n).map txt).flatten := by
  unfold writeFile
  rw [mapM_fmt c recs txt ks h]
  have := writeRaw_perm txt n ks hp
  cases hc : c.kind <;> simp_all [Bytes, B]

theorem writeFile_json (c : Cfg) (hk : c.kind = Kind.json) (recs : Nat → List Rec) (n : Nat) (ks : List Nat) :
    writeFile c (ks.map fun k => (k, recs k))
      = some (writeJson (ks.map fun k => (k, fmtJsonBatch c.shift (recs k)))) := by
  unfold writeFile
  rw [mapM_fmt c recs (fun k => fmtJsonBatch c.shift (recs k)) ks (by intro k; simp [fmtBatch, hk])]
  simp [hk]

/-! ## FASTA: the batch formatter on records whose sequence is not empty -/

/-- a record of the C02 model as the batch formatter sees it -/
def recOf {α : Type} [DecidableEq α] (J : Header.JsonLib α) (x : Header.Record α) : Rec :=
  ⟨x.id, x.seq, x.qual, Header.info J x.ann x.defn, []⟩

theorem fmtFastaBatch_eq {α : Type} [DecidableEq α] (J : Header.JsonLib α) (se : Bool) (rs : List (Header.Record α))
    (h : ∀ x ∈ rs, x.seq ≠ []) :
    fmtFastaBatch se (rs.map (recOf J)) = some (rs.map (Header.writeFasta J)).flatten := by
  induction rs with
  | nil => rfl
  | cons r rs ih =>
    have h1 := h r (by simp)
    have ih' := ih (fun x hx => h x (List.mem_cons_of_mem _ hx))
    simp only [List.map_cons, fmtFastaBatch, recOf, h1, if_false] at ih' ⊢
    rw [ih']
    simp [Header.writeFasta]

theorem fmtFastqBatch_eq {α : Type} [DecidableEq α] (J : Header.JsonLib α) (sh : UInt8) (se : Bool)
    (rs : List (Header.Record α)) (h : ∀ x ∈ rs, x.seq ≠ []) :
    fmtFastqBatch sh se (rs.map (recOf J)) = some (rs.map (Header.writeFastq J sh)).flatten := by
  induction rs with
  | nil => rfl
  | cons r rs ih =>
    have h1 := h r (by simp)
    have ih' := ih (fun x hx => h x (List.mem_cons_of_mem _ hx))
    simp only [List.map_cons, fmtFastqBatch, recOf, h1, if_false] at ih' ⊢
    rw [ih']
    simp [Header.writeFastq]

theorem flatten_map_flatten {α β : Type} (f : α → List β) (ls : List (List α)) :
    (ls.map fun l => (l.map f).flatten).flatten = (ls.flatten.map f).flatten := by
  induction ls with
  | nil => rfl
  | cons l ls ih => simp [ih]

/-! ## CSV: the header line -/

theorem fmtCsvBatch_rows (sh : UInt8) (o : CsvOpt) (k : Nat) (rs : List Rec) (rows : List (List B))
    (h : rs.mapM (csvRecord sh o) = some rows) :
    fmtCsvBatch sh o k rs = some ((if k = 0 then csvRow (csvHeader o) else []) ++ (rows.map csvRow).flatten) := by
  simp [fmtCsvBatch, h]

theorem range_succ_flatten (v : Nat → B) (m : Nat) :
    ((List.range (m + 1)).map v).flatten = v 0 ++ ((List.range m).map (fun k => v (k + 1))).flatten := by
  rw [List.range_succ_eq_map]
  simp [List.map_map, Function.comp_def]

/-- a data row has as many fields as the header line -/
theorem csvRecord_length (sh : UInt8) (o : CsvOpt) (r : Rec) (row : List B) (h : csvRecord sh o r = some row) :
    row.length = (csvHeader o).length := by
  unfold csvRecord at h
  cases h1 : intAttr r (ofStr "count") 1 with
  | none => simp [h1] at h
  | some cnt =>
    cases h2 : intAttr r (ofStr "taxid") 1 with
    | none => simp [h1, h2] at h
    | some tx =>
      simp only [h1, h2, Option.bind_eq_bind, Option.bind_some, Option.pure_def, Option.some.injEq] at h
      subst h
      unfold csvHeader
      cases o.id <;> cases o.count <;> cases o.taxon <;> cases o.defn <;> cases o.seq <;> cases o.qual <;> simp

theorem mapM_csvRecord_length (sh : UInt8) (o : CsvOpt) (rs : List Rec) (rows : List (List B))
    (h : rs.mapM (csvRecord sh o) = some rows) : ∀ row ∈ rows, row.length = (csvHeader o).length := by
  induction rs generalizing rows with
  | nil => simp at h; subst h; simp
  | cons r rs ih =>
    rw [List.mapM_cons] at h
    cases h1 : csvRecord sh o r with
    | none => simp [h1] at h
    | some row =>
      cases h2 : rs.mapM (csvRecord sh o) with
      | none => simp [h1, h2] at h
      | some rows' =>
        simp [h1, h2] at h
        subst h
        intro x hx
        rcases List.mem_cons.mp hx with rfl | hx
        · exact csvRecord_length sh o r _ h1
        · exact ih rows' h2 x hx

/-! ## JSON: a string literal of the encoder denotes the string -/

/-- `StrBody t s`: the text `t` between two quotes is a JSON string body (RFC 8259: no raw control character,
quote or backslash; escapes `\"` `\\` `\n` `\r` `\t` `\u00XX`) denoting the byte string `s` -/
inductive StrBody : B → B → Prop
  | nil : StrBody [] []
  | plain (c : UInt8) (t s : B) : 32 ≤ c → c ≠ 34 → c ≠ 92 → StrBody t s → StrBody (c :: t) (c :: s)
  | quote (t s : B) : StrBody t s → StrBody (92 :: 34 :: t) (34 :: s)
  | bslash (t s : B) : StrBody t s → StrBody (92 :: 92 :: t) (92 :: s)
  | lf (t s : B) : StrBody t s → StrBody (92 :: 110 :: t) (10 :: s)
  | cr (t s : B) : StrBody t s → StrBody (92 :: 114 :: t) (13 :: s)
  | tab (t s : B) : StrBody t s → StrBody (92 :: 116 :: t) (9 :: s)
  | uni (h l c : UInt8) (t s : B) : h < 16 → l < 16 → c = h * 16 + l → StrBody t s →
      StrBody (92 :: 117 :: 48 :: 48 :: hexDigit h :: hexDigit l :: t) (c :: s)

set_option maxRecDepth 20000 in
theorem nibbles (c : UInt8) : c >>> 4 < 16 ∧ c &&& 15 < 16 ∧ c = (c >>> 4) * 16 + (c &&& 15) := by
  revert c; apply Header.forall_uint8; decide

/-- for EVERY byte string the escaper writes a valid JSON string body that denotes it -/
theorem escaped_denotes (s : B) : StrBody (s.flatMap escByte) s := by
  induction s with
  | nil => exact StrBody.nil
  | cons c s ih =>
    simp only [List.flatMap_cons]
    unfold escByte
    split
    · rename_i h; subst h; exact StrBody.quote _ _ ih
    · split
      · rename_i h; subst h; exact StrBody.bslash _ _ ih
      · split
        · rename_i h; subst h; exact StrBody.lf _ _ ih
        · split
          · rename_i h; subst h; exact StrBody.cr _ _ ih
          · split
            · rename_i h; subst h; exact StrBody.tab _ _ ih
            · split
              · obtain ⟨h1, h2, h3⟩ := nibbles c
                exact StrBody.uni _ _ c _ _ h1 h2 h3 ih
              · rename_i h34 h92 _ _ _ h32
                exact StrBody.plain c _ _ (by simpa [UInt8.not_lt] using h32) h34 h92 ih

end ObiVerif.WriterFile
