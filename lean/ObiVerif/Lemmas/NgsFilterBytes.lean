import ObiVerif.Model.NgsFilterBytes
import ObiVerif.Lemmas.TaxRender
import ObiVerif.Lemmas.NgsFilter
/-!
# Renderings of a CSV sample sheet are read back record for record (C12)

A *rendering* of a list of records is any text made of record lines (fields joined by commas, blanks —
spaces / tabs — before any field, LF or CRLF), comment lines and empty lines in any arrangement.
`csvAll_render`: the model of `encoding/csv` as configured by `ReadCSVNGSFilter` returns exactly the declared
records; `csvAll_render_raw`: the detectors (no `TrimLeadingSpace`) see the same records with the blanks.
-/
-- sequential elaboration: with 16 worker threads the address-space limit of the build (`ulimit -v`) is hit
set_option Elab.async false

namespace ObiVerif.NgsFilterBytes

open ObiVerif.TaxLoad (rawLines csvLine splitOn trimLeft isSpace joinBytes splitOn_joinBytes rawLines_flatten
  trimLeft_cons_space trimLeft_cons_keep)

/-- blanks that may precede a field -/
def IsPad (p : Bytes) : Prop := ∀ c ∈ p, c = 32 ∨ c = 9

/-- a field that can be written bare: no comma, no line break, it does not start with a blank or a double quote -/
structure FieldOK (f : Bytes) : Prop where
  noComma : 44 ∉ f
  noLF : 10 ∉ f
  noCR : 13 ∉ f
  noLead : ∀ c, f.head? = some c → isSpace c = false ∧ c ≠ 34

/-- the cells of a record line: (blanks, field) -/
abbrev Cells := List (Bytes × Bytes)

def cellBytes (c : Bytes × Bytes) : Bytes := c.1 ++ c.2

def body (cs : Cells) : Bytes := joinBytes 44 (cs.map cellBytes)

def eol (crlf : Bool) : Bytes := if crlf then [13, 10] else [10]

structure CellsOK (cs : Cells) : Prop where
  nonempty : cs ≠ []
  pads : ∀ c ∈ cs, IsPad c.1
  fields : ∀ c ∈ cs, FieldOK c.2
  /-- not a comment line, not an empty line -/
  first : ∀ x, (body cs).head? = some x → x ≠ 35
  notEmpty : body cs ≠ []

inductive Item
  | row (cs : Cells) (crlf : Bool)
  | comment (c : Bytes) (crlf : Bool)
  | empty (crlf : Bool)

def Item.bytes : Item → Bytes
  | .row cs crlf => body cs ++ eol crlf
  | .comment c crlf => 35 :: c ++ eol crlf
  | .empty crlf => eol crlf

def Item.OK : Item → Prop
  | .row cs _ => CellsOK cs
  | .comment c _ => 10 ∉ c ∧ 13 ∉ c
  | .empty _ => True

/-- the record an item declares -/
def Item.record : Item → Option (List Bytes)
  | .row cs _ => some (cs.map (·.2))
  | _ => none

/-- … and what a reader that does not trim sees -/
def Item.rawRecord : Item → Option (List Bytes)
  | .row cs _ => some (cs.map cellBytes)
  | _ => none

def render (items : List Item) : Bytes := (items.map Item.bytes).flatten

/-! ## one line -/

theorem pad_no (p : Bytes) (hp : IsPad p) (x : UInt8) (hx : x ≠ 32 ∧ x ≠ 9) : x ∉ p := by
  intro h
  rcases hp x h with e | e <;> simp [e] at hx

theorem trimLeft_pad (p f : Bytes) (hp : IsPad p) (hf : ∀ c, f.head? = some c → isSpace c = false) :
    trimLeft (p ++ f) = f := by
  induction p with
  | nil =>
    cases f with
    | nil => rfl
    | cons c r => exact trimLeft_cons_keep r (hf c rfl)
  | cons c r ih =>
    have hc : isSpace c = true := by
      rcases hp c (by simp) with e | e <;> subst e <;> decide
    rw [List.cons_append, trimLeft_cons_space _ hc]
    exact ih (fun x hx => hp x (by simp [hx]))

theorem cell_no (c : Bytes × Bytes) (hp : IsPad c.1) (hf : FieldOK c.2) :
    44 ∉ cellBytes c ∧ 10 ∉ cellBytes c ∧ 13 ∉ cellBytes c := by
  unfold cellBytes
  refine ⟨?_, ?_, ?_⟩ <;> intro h <;> rcases List.mem_append.1 h with h | h
  · exact pad_no _ hp 44 (by decide) h
  · exact hf.noComma h
  · exact pad_no _ hp 10 (by decide) h
  · exact hf.noLF h
  · exact pad_no _ hp 13 (by decide) h
  · exact hf.noCR h

theorem joinBytes_no (sep x : UInt8) (hx : x ≠ sep) : ∀ l : List Bytes, (∀ a ∈ l, x ∉ a) → x ∉ joinBytes sep l := by
  intro l
  induction l with
  | nil => intro _; simp [joinBytes]
  | cons a r ih =>
    intro h
    cases r with
    | nil => simpa [joinBytes] using h a (by simp)
    | cons b r' =>
      simp only [joinBytes]
      intro hm
      rcases List.mem_append.1 hm with hm | hm
      · exact h a (by simp) hm
      · rcases List.mem_cons.1 hm with e | hm
        · exact hx e
        · exact ih (fun y hy => h y (by simp [hy])) hm

theorem body_no (cs : Cells) (h : CellsOK cs) : 10 ∉ body cs ∧ 13 ∉ body cs := by
  constructor
  · apply joinBytes_no 44 10 (by decide)
    intro a ha
    obtain ⟨c, hc, rfl⟩ := List.mem_map.1 ha
    exact (cell_no c (h.pads c hc) (h.fields c hc)).2.1
  · apply joinBytes_no 44 13 (by decide)
    intro a ha
    obtain ⟨c, hc, rfl⟩ := List.mem_map.1 ha
    exact (cell_no c (h.pads c hc) (h.fields c hc)).2.2

theorem getLast?_ne_of_not_mem {x : UInt8} : ∀ (b : Bytes), x ∉ b → b.getLast? ≠ some x := by
  intro b h e
  exact h (List.mem_of_getLast? e)

/-- `csv.Reader.readLine` gives the body followed by one LF, for LF and for CRLF -/
theorem csvLine_line (b : Bytes) (crlf : Bool) (h13 : 13 ∉ b) : csvLine (b ++ eol crlf) = b ++ [10] := by
  unfold csvLine eol
  cases crlf
  · have e1 : (b ++ [10]).getLast? = some 10 := by simp
    have e2 : (b ++ [10]).dropLast = b := by simp
    simp only [Bool.false_eq_true, if_false, e1, if_true, e2]
    rw [if_neg (getLast?_ne_of_not_mem b h13)]
  · have e0 : b ++ [13, 10] = (b ++ [13]) ++ [10] := by simp
    have e1 : ((b ++ [13]) ++ [10]).getLast? = some 10 := by simp
    have e2 : ((b ++ [13]) ++ [10]).dropLast = b ++ [13] := by simp
    have e3 : (b ++ [13]).getLast? = some 13 := by simp
    have e4 : (b ++ [13]).dropLast = b := by simp
    simp only [if_true]
    rw [e0, e1, if_pos rfl, e2, e3, if_pos rfl, e4]

theorem stripNL_line (b : Bytes) : stripNL (b ++ [10]) = b := by
  unfold stripNL
  simp

theorem splitOn_body (cs : Cells) (h : CellsOK cs) : splitOn 44 (body cs) = cs.map cellBytes := by
  unfold body
  apply splitOn_joinBytes
  · intro e
    exact h.nonempty (List.map_eq_nil_iff.1 e)
  · intro a ha
    obtain ⟨c, hc, rfl⟩ := List.mem_map.1 ha
    exact (cell_no c (h.pads c hc) (h.fields c hc)).1

/-- the reader (`TrimLeadingSpace`) on a record line: the declared fields -/
theorem lineRec_trim (cs : Cells) (h : CellsOK cs) :
    lineRec true 44 (body cs ++ [10]) = some (cs.map (·.2)) := by
  unfold lineRec
  rw [stripNL_line, splitOn_body cs h, List.map_map]
  have e : cs.map ((fun f => if true = true then trimLeft f else f) ∘ cellBytes) = cs.map (·.2) := by
    apply List.map_congr_left
    intro c hc
    simp only [Function.comp, if_true, cellBytes]
    exact trimLeft_pad c.1 c.2 (h.pads c hc) (fun x hx => ((h.fields c hc).noLead x hx).1)
  rw [e]
  have : (cs.map (·.2)).any (fun f => f.head? = some 34) = false := by
    rw [List.any_eq_false]
    intro f hf
    obtain ⟨c, hc, rfl⟩ := List.mem_map.1 hf
    intro e
    have := ((h.fields c hc).noLead 34 (by simpa using e)).2
    exact this rfl
  simp [this]

/-- a detector (no trimming) on a record line: the cells with their blanks; `none` never happens when no
cell starts with a double quote -/
theorem lineRec_raw (cs : Cells) (h : CellsOK cs) (hq : ∀ c ∈ cs, (cellBytes c).head? ≠ some 34) :
    lineRec false 44 (body cs ++ [10]) = some (cs.map cellBytes) := by
  unfold lineRec
  rw [stripNL_line, splitOn_body cs h]
  have e : (cs.map cellBytes).map (fun f => if false = true then trimLeft f else f) = cs.map cellBytes := by
    simp
  rw [e]
  have : (cs.map cellBytes).any (fun f => f.head? = some 34) = false := by
    rw [List.any_eq_false]
    intro f hf
    obtain ⟨c, hc, rfl⟩ := List.mem_map.1 hf
    simpa using hq c hc
  simp [this]

/-! ## the whole text -/

theorem item_line (it : Item) (h : it.OK) : ∃ b, it.bytes = b ++ [10] ∧ 10 ∉ b := by
  cases it with
  | row cs crlf =>
    have hb := body_no cs h
    cases crlf
    · exact ⟨body cs, by simp [Item.bytes, eol], hb.1⟩
    · refine ⟨body cs ++ [13], by simp [Item.bytes, eol], ?_⟩
      intro hm
      rcases List.mem_append.1 hm with hm | hm
      · exact hb.1 hm
      · simp at hm
  | comment c crlf =>
    cases crlf
    · refine ⟨35 :: c, by simp [Item.bytes, eol], ?_⟩
      intro hm
      rcases List.mem_cons.1 hm with e | hm
      · simp at e
      · exact h.1 hm
    · refine ⟨35 :: c ++ [13], by simp [Item.bytes, eol], ?_⟩
      intro hm
      rcases List.mem_append.1 hm with hm | hm
      · rcases List.mem_cons.1 hm with e | hm
        · simp at e
        · exact h.1 hm
      · simp at hm
  | empty crlf =>
    cases crlf
    · exact ⟨[], by simp [Item.bytes, eol], by simp⟩
    · exact ⟨[13], by simp [Item.bytes, eol], by simp⟩

theorem rawLines_render (items : List Item) (h : ∀ it ∈ items, it.OK) :
    rawLines (render items) = items.map Item.bytes := by
  unfold render
  apply rawLines_flatten
  intro l hl
  obtain ⟨it, hit, rfl⟩ := List.mem_map.1 hl
  exact item_line it (h it hit)

theorem csvLine_item (it : Item) (h : it.OK) :
    csvLine it.bytes = match it with
      | .row cs _ => body cs ++ [10]
      | .comment c _ => 35 :: c ++ [10]
      | .empty _ => [10] := by
  cases it with
  | row cs crlf => exact csvLine_line (body cs) crlf (body_no cs h).2
  | comment c crlf =>
    have : 13 ∉ (35 :: c : Bytes) := by
      intro hm
      rcases List.mem_cons.1 hm with e | hm
      · simp at e
      · exact h.2 hm
    simpa [Item.bytes] using csvLine_line (35 :: c) crlf this
  | empty crlf => simpa [Item.bytes] using csvLine_line [] crlf (by simp)

theorem recsOf_items (trim : Bool) (recOf : Item → Option (List Bytes))
    (hrec : ∀ cs crlf, (Item.row cs crlf).OK → lineRec trim 44 (body cs ++ [10]) = recOf (.row cs crlf))
    (hsome : ∀ cs crlf, (recOf (.row cs crlf)).isSome)
    (hnone : ∀ it, (∀ cs crlf, it ≠ .row cs crlf) → recOf it = none) :
    ∀ (items : List Item), (∀ it ∈ items, it.OK) →
      recsOf trim 44 (items.map (fun it => csvLine it.bytes)) = some (items.filterMap recOf) := by
  intro items
  induction items with
  | nil => intro _; rfl
  | cons it rest ih =>
    intro h
    have hit := h it (by simp)
    have ihr := ih (fun x hx => h x (by simp [hx]))
    rw [List.map_cons, csvLine_item it hit]
    cases it with
    | row cs crlf =>
      have hne : (body cs ++ [10]).head? ≠ some 35 := by
        cases hb : body cs with
        | nil => exact absurd hb hit.notEmpty
        | cons x r =>
          simp only [List.cons_append, List.head?_cons]
          intro e
          exact hit.first x (by rw [hb]; rfl) (Option.some.inj e)
      have hne2 : ¬ (body cs ++ [10] = [10] ∨ body cs ++ [10] = []) := by
        intro e
        rcases e with e | e
        · have : body cs = [] := by
            have := congrArg List.length e
            simp at this
            exact this
          exact hit.notEmpty this
        · simp at e
      simp only [recsOf]
      rw [if_neg hne, if_neg hne2, hrec cs crlf hit, ihr]
      have := hsome cs crlf
      cases hr : recOf (.row cs crlf) with
      | none => rw [hr] at this; simp at this
      | some r => simp [hr]
    | comment c crlf =>
      simp only [recsOf, List.cons_append, List.head?_cons, if_true]
      rw [ihr, List.filterMap_cons, hnone _ (by intro cs crlf e; cases e)]
    | empty crlf =>
      have e1 : ([10] : Bytes).head? ≠ some 35 := by decide
      simp only [recsOf]
      rw [if_neg e1, if_pos (Or.inl trivial), ihr, List.filterMap_cons, hnone _ (by intro cs crlf e; cases e)]

/-- READ-BACK: the CSV reader of the sample sheets (`Comma=','`, `Comment='#'`, `TrimLeadingSpace`,
`LazyQuotes`, `FieldsPerRecord=-1`) returns exactly the declared records of any rendering -/
theorem csvAll_render (items : List Item) (h : ∀ it ∈ items, it.OK) :
    csvAll true 44 (render items) = some (items.filterMap Item.record) := by
  unfold csvAll
  rw [rawLines_render items h, List.map_map]
  exact recsOf_items true Item.record (fun cs _ hk => lineRec_trim cs hk) (fun _ _ => rfl)
    (fun it hne => by cases it <;> first | rfl | exact absurd rfl (hne _ _)) items h

/-- … and the two detectors (the same reader without `TrimLeadingSpace`) see the same records, blanks
included: the same number of records, the same number of fields in each -/
theorem csvAll_render_raw (items : List Item) (h : ∀ it ∈ items, it.OK)
    (hq : ∀ cs crlf, Item.row cs crlf ∈ items → ∀ c ∈ cs, (cellBytes c).head? ≠ some 34) :
    csvAll false 44 (render items) = some (items.filterMap Item.rawRecord) := by
  unfold csvAll
  rw [rawLines_render items h, List.map_map]
  -- the hypothesis on quotes is needed per item: go through a membership-carrying induction
  have key : ∀ (l : List Item), (∀ it ∈ l, it.OK) →
      (∀ cs crlf, Item.row cs crlf ∈ l → ∀ c ∈ cs, (cellBytes c).head? ≠ some 34) →
      recsOf false 44 (l.map (fun it => csvLine it.bytes)) = some (l.filterMap Item.rawRecord) := by
    intro l
    induction l with
    | nil => intro _ _; rfl
    | cons it rest ih =>
      intro hok hqq
      have hit := hok it (by simp)
      have ihr := ih (fun x hx => hok x (by simp [hx])) (fun cs crlf hm => hqq cs crlf (by simp [hm]))
      rw [List.map_cons, csvLine_item it hit]
      cases it with
      | row cs crlf =>
        have hne : (body cs ++ [10]).head? ≠ some 35 := by
          cases hb : body cs with
          | nil => exact absurd hb hit.notEmpty
          | cons x r =>
            simp only [List.cons_append, List.head?_cons]
            intro e
            exact hit.first x (by rw [hb]; rfl) (Option.some.inj e)
        have hne2 : ¬ (body cs ++ [10] = [10] ∨ body cs ++ [10] = []) := by
          intro e
          rcases e with e | e
          · have : body cs = [] := by
              have := congrArg List.length e
              simp at this
              exact this
            exact hit.notEmpty this
          · simp at e
        simp only [recsOf]
        rw [if_neg hne, if_neg hne2, lineRec_raw cs hit (hqq cs crlf (by simp)), ihr]
        simp [Item.rawRecord]
      | comment c crlf =>
        simp only [recsOf, List.cons_append, List.head?_cons, if_true]
        rw [ihr]
        rfl
      | empty crlf =>
        have e1 : ([10] : Bytes).head? ≠ some 35 := by decide
        simp only [recsOf]
        rw [if_neg e1, if_pos (Or.inl trivial), ihr]
        rfl
  exact key items h hq

end ObiVerif.NgsFilterBytes

namespace ObiVerif.NgsFilterBytes

open ObiVerif.TaxLoad (rawLines csvLine splitOn trimLeft isSpace joinBytes splitOn_clean)
open ObiVerif.NgsFilter

/-! ## which reader, for a rendering shorter than the window of the detectors -/

theorem head_ne_of_body (cs : Cells) (h : CellsOK cs) : (body cs ++ [10]).head? ≠ some 35 := by
  cases hb : body cs with
  | nil => exact absurd hb h.notEmpty
  | cons x r =>
    simp only [List.cons_append, List.head?_cons]
    intro e
    exact h.first x (by rw [hb]; rfl) (Option.some.inj e)

theorem not_blank_of_body (cs : Cells) (h : CellsOK cs) : ¬ (body cs ++ [10] = [10] ∨ body cs ++ [10] = []) := by
  intro e
  rcases e with e | e
  · have := congrArg List.length e
    simp at this
    exact h.notEmpty this
  · simp at e

/-- the tab-separated detector on a rendering without tab: every record is ONE field -/
theorem csvAll_render_tab (items : List Item) :
    (∀ it ∈ items, it.OK) → (∀ cs crlf, Item.row cs crlf ∈ items → 9 ∉ body cs ∧ (body cs).head? ≠ some 34) →
    recsOf false 9 (items.map (fun it => csvLine it.bytes)) =
      some (items.filterMap (fun it => match it with | .row cs _ => some [body cs] | _ => none)) := by
  induction items with
  | nil => intro _ _; rfl
  | cons it rest ih =>
    intro hok hq
    have hit := hok it (by simp)
    have ihr := ih (fun x hx => hok x (by simp [hx])) (fun cs crlf hm => hq cs crlf (by simp [hm]))
    rw [List.map_cons, csvLine_item it hit]
    cases it with
    | row cs crlf =>
      have hb := hq cs crlf (by simp)
      have hl : lineRec false 9 (body cs ++ [10]) = some [body cs] := by
        unfold lineRec
        rw [stripNL_line, splitOn_clean 9 _ hb.1]
        simp [hb.2]
      simp only [recsOf]
      rw [if_neg (head_ne_of_body cs hit), if_neg (not_blank_of_body cs hit), hl, ihr]
      rfl
    | comment c crlf =>
      simp only [recsOf, List.cons_append, List.head?_cons, if_true]
      rw [ihr]
      rfl
    | empty crlf =>
      have e1 : ([10] : Bytes).head? ≠ some 35 := by decide
      simp only [recsOf]
      rw [if_neg e1, if_pos (Or.inl trivial), ihr]
      rfl

/-- what the generic detector and `NGSFilterCsvDetector` decide, on the records they see -/
def widthsOK (rs : List (List Bytes)) : Bool :=
  match rs with
  | [] => false
  | r :: _ => decide (r.length > 1) && decide (rs.length > 1) && rs.all (fun x => x.length = r.length)

def ngsOK (rs : List (List Bytes)) : Bool :=
  match rs.filter (fun r => r.head? ≠ some paramHead) with
  | [] => false
  | r :: rest => decide (r.length > 1) && decide (rest.length + 1 > 1) && rest.all (fun x => x.length = r.length)

/-- the branch of `ReadNGSFilter` once a CSV reader is chosen -/
def csvBranch (recs : List (List Bytes)) : M Lib := do
  let lib ← readCsv (recs.map (fun r => r.map toStr))
  if !tagLengthsOk lib then .error .sheetError
  return lib

theorem detectorInput_short (text : Bytes) (h : text.length < readLimit) : detectorInput text = text := by
  unfold detectorInput
  have : text.take readLimit = text := List.take_of_length_le (Nat.le_of_lt h)
  simp only [this, h, if_true]

theorem tab_all_single (items : List Item) :
    widthsOK (items.filterMap (fun it => match it with | .row cs _ => some [body cs] | _ => none)) = false := by
  unfold widthsOK
  split
  · rfl
  · rename_i r _ heq
    have : r ∈ items.filterMap (fun it => match it with | .row cs _ => some [body cs] | _ => none) := by
      rw [heq]; simp
    obtain ⟨it, _, hr⟩ := List.mem_filterMap.1 this
    cases it <;> simp at hr
    subst hr
    simp

/-- WHICH READER: a rendering shorter than the 3072 bytes the detectors look at, that does not look like a
sequence file and holds no "binary data byte", goes to the CSV reader iff its records (as the detectors see them,
blanks included) all have the same number > 1 of fields, or those that are not `@param` lines do -/
theorem whichReader_render (items : List Item) (hok : ∀ it ∈ items, it.OK)
    (hq : ∀ cs crlf, Item.row cs crlf ∈ items → ∀ c ∈ cs, (cellBytes c).head? ≠ some 34)
    (short : (render items).length < readLimit) (hseq : seqFormatDetect (render items) = false)
    (hbin : (render items).any isBinaryByte = false) :
    whichReader (render items) =
      some (if widthsOK (items.filterMap Item.rawRecord) || ngsOK (items.filterMap Item.rawRecord) then .csv else .old) := by
  unfold whichReader
  rw [List.take_of_length_le (Nat.le_of_lt short), detectorInput_short _ short]
  have e44 : csvAll false 44 (render items) = some (items.filterMap Item.rawRecord) := csvAll_render_raw items hok hq
  have s44 : svDetect 44 (render items) = some (widthsOK (items.filterMap Item.rawRecord)) := by
    unfold svDetect widthsOK; rw [e44]; rfl
  have sn : ngsDetect (render items) = some (ngsOK (items.filterMap Item.rawRecord)) := by
    unfold ngsDetect ngsOK; rw [e44]; rfl
  show (do
    if seqFormatDetect (render items) then return Kind.old
    if (← svDetect 44 (render items)) then return Kind.csv
    if (render items).any isBinaryByte then return Kind.old
    if (← ngsDetect (render items)) then return Kind.csv
    return Kind.old : Option Kind) = _
  simp only [hseq, hbin, s44, sn, bind, Option.bind, pure]
  cases widthsOK (items.filterMap Item.rawRecord) <;> cases ngsOK (items.filterMap Item.rawRecord) <;> simp

/-- ACCEPTED SHEET = DECLARED TABLE (CSV): whatever the rendering — blanks before fields, LF / CRLF, comment and
empty lines anywhere —, a sheet that the detectors see as CSV is read by `ReadCSVNGSFilter` from exactly the
declared records -/
theorem readSheetBytes_render (items : List Item) (hok : ∀ it ∈ items, it.OK)
    (hq : ∀ cs crlf, Item.row cs crlf ∈ items → ∀ c ∈ cs, (cellBytes c).head? ≠ some 34)
    (short : (render items).length < readLimit) (hseq : seqFormatDetect (render items) = false)
    (hbin : (render items).any isBinaryByte = false)
    (hcsv : (widthsOK (items.filterMap Item.rawRecord) || ngsOK (items.filterMap Item.rawRecord)) = true) :
    readSheetBytes (render items) = some (csvBranch (items.filterMap Item.record)) := by
  have hne : (render items).isEmpty = false := by
    cases hr : render items with
    | nil =>
      -- no byte: no record, the detectors say "not CSV"
      exfalso
      have hrecs : items.filterMap Item.rawRecord = [] := by
        have e := csvAll_render_raw items hok hq
        rw [hr] at e
        simpa [csvAll, rawLines, recsOf] using e.symm
      rw [hrecs] at hcsv
      simp [widthsOK, ngsOK] at hcsv
    | cons _ _ => rfl
  unfold readSheetBytes
  rw [hne, whichReader_render items hok hq short hseq hbin, hcsv]
  simp only [Bool.false_eq_true, if_false, if_true, bind, Option.bind, csvAll_render items hok]
  rfl

/-- a library returned for ANY bytes (either reader) has no primer used twice and consistent tag lengths -/
theorem readSheetBytes_wf (text : Bytes) (lib : Lib) (h : readSheetBytes text = some (.ok lib)) :
    unicity lib = true ∧ tagLengthsOk lib = true := by
  unfold readSheetBytes at h
  split at h
  · simp at h
  · cases hw : whichReader text with
    | none => simp [hw, bind, Option.bind] at h
    | some k =>
      cases k with
      | csv =>
        cases hc : csvAll true 44 text with
        | none => simp [hw, hc, bind, Option.bind] at h
        | some recs =>
          simp only [hw, hc, bind, Option.bind, Option.some.injEq] at h
          simp only [Except.bind, pure, Except.pure] at h
          cases hr : readCsv (recs.map (fun r => r.map toStr)) with
          | error e => simp [hr] at h
          | ok l =>
            simp only [hr] at h
            split at h
            · exact absurd h (by simp)
            · rename_i ht
              injection h with h; subst h
              exact ⟨readCsv_unicity _ l hr, by simpa using ht⟩
      | old =>
        simp only [hw, bind, Option.bind, Option.some.injEq] at h
        exact readSheetOld_wf _ lib h

end ObiVerif.NgsFilterBytes
