import ObiVerif.Lemmas.SeqAnnot
set_option Elab.async false
/-!
# rc (sub x) = sub' (rc x) on the WHOLE object, linear AND wrapping circular windows (C07)

`Model/SeqAnnot.lean`: `subW` = `Subsequence` (+ `_subseqMutation`), `rcW` = `ReverseComplement`
(+ `_revcmpMutation`).  Here: the two ways round a window give the SAME whole object — bases,
qualities, the whole `pairing_mismatches` map (every entry: dropped on both sides or kept with the same
rewritten key and the same position; the empty-map case; the absent-attribute case), other annotations —
for every normalised window `[fr, to)` with `fr < to` (one piece) or `to ≤ fr` (circular, two pieces
stitched across the origin).
-/
namespace ObiVerif.SeqAnnot
open ObiVerif.SeqOps ObiVerif.SeqHeap

/-- number of bases of the normalised window `(fr, to)` of a sequence of `n` bases -/
def wlen (fr to n : Nat) : Nat := if fr < to then to - fr else n - fr + to

theorem wlen_mirror (fr to n : Nat) (hfr : fr < n) (_hto1 : 1 ≤ to) (hto : to ≤ n) :
    wlen (n - to) (n - fr) n = wlen fr to n := by
  unfold wlen
  by_cases h : fr < to
  · rw [if_pos h, if_pos (by omega)]; omega
  · rw [if_neg h, if_neg (by omega)]; omega

theorem wlen_pos (fr to n : Nat) (hfr : fr < n) : 1 ≤ wlen fr to n := by
  unfold wlen; split <;> omega

theorem revcompInPlace_eq (s : Bytes) : revcompInPlace s = (s.map nucComplement).reverse := by
  unfold revcompInPlace
  rw [rcLoop_eq_genLoop]
  exact genLoop_spec nucComplement s (s.length + 1) s.toArray s.length 0 (LoopInv.init _ _) (by omega)

theorem reverseInPlace_eq (q : Bytes) : reverseInPlace q = q.reverse := by
  unfold reverseInPlace
  rw [revLoop_eq_genLoop, genLoop_spec id q (q.length + 1) q.toArray q.length 0 (LoopInv.init _ _) (by omega),
    List.map_id]

theorem win_zero (l : Bytes) (b : Nat) : win l 0 b = l.take b := by simp [win]

theorem win_full (l : Bytes) (a : Nat) : win l a l.length = l.drop a := by
  unfold win
  rw [List.take_of_length_le (by simp)]

theorem cut_nil (fr to n : Nat) : cut [] fr to n = [] := by
  unfold cut; split <;> simp [win]

theorem cut_length (l : Bytes) (fr to : Nat) (hfr : fr < l.length) (hto : to ≤ l.length) :
    (cut l fr to l.length).length = wlen fr to l.length := by
  unfold cut wlen win
  split
  · simp; omega
  · simp; omega

/-- **mirror of a window, one piece or two**, under `reverse ∘ map f` (`f` = complement: bases;
`f = id`: qualities): cutting `(fr, to)` then mirroring = mirroring then cutting `(n - to, n - fr)` -/
theorem rev_map_cut (f : UInt8 → UInt8) (l : Bytes) (fr to : Nat) (hfr : fr < l.length) (hto1 : 1 ≤ to)
    (hto : to ≤ l.length) :
    ((cut l fr to l.length).map f).reverse =
      cut ((l.map f).reverse) (l.length - to) (l.length - fr) l.length := by
  unfold cut
  by_cases h : fr < to
  · rw [if_pos h, if_pos (by omega)]
    exact map_rev_win f l fr to (by omega) hto
  · rw [if_neg h, if_neg (by omega), List.map_append, List.reverse_append]
    have a := map_rev_win f l 0 to (by omega) hto
    have b := map_rev_win f l fr l.length (by omega) (Nat.le_refl _)
    rw [win_zero] at a
    rw [Nat.sub_self, win_zero] at b
    rw [a, b, Nat.sub_zero]

/-- **position transforms commute for every normalised window** (one piece or wrapping): a position of
the source is dropped by both routes or sent to the same position of the result -/
theorem subseqPos_revcmpPos_gen (n fr to : Nat) (p : Int) (hfr : fr < n) (_hto1 : 1 ≤ to) (hto : to ≤ n)
    (h1 : 1 ≤ p) (hn : p ≤ n) :
    (subseqPos fr n (wlen fr to n) p).map (revcmpPos (wlen fr to n)) =
      subseqPos (n - to : Nat) n (wlen fr to n) (revcmpPos n p) := by
  unfold subseqPos revcmpPos wlen
  simp only [ge_iff_le, Bool.and_eq_true, decide_eq_true_eq]
  have e1 : ((n - to : Nat) : Int) = (n : Int) - to := by omega
  rw [e1]
  by_cases hft : fr < to
  · rw [if_pos hft]
    have e2 : ((to - fr : Nat) : Int) = (to : Int) - fr := by omega
    rw [e2]
    by_cases a : p - (fr : Int) < 1 <;> by_cases b : (n : Int) - p + 1 - ((n : Int) - to) < 1 <;>
      simp only [a, b, if_true, if_false] <;> split <;> split <;>
      simp only [Option.map_some, Option.map_none, Option.some.injEq, reduceCtorEq] <;> omega
  · rw [if_neg hft]
    have e2 : ((n - fr + to : Nat) : Int) = (n : Int) - fr + to := by omega
    rw [e2]
    by_cases a : p - (fr : Int) < 1 <;> by_cases b : (n : Int) - p + 1 - ((n : Int) - to) < 1 <;>
      simp only [a, b, if_true, if_false] <;> split <;> split <;>
      simp only [Option.map_some, Option.map_none, Option.some.injEq, reduceCtorEq] <;> omega

theorem subMm_cons (shift origLen lseq : Nat) (k : Bytes) (p : Int) (t : Mm) :
    subMm shift origLen lseq ((k, p) :: t) =
      match subseqPos shift origLen lseq p with
      | some np => (k, np) :: subMm shift origLen lseq t
      | none => subMm shift origLen lseq t := by
  unfold subMm
  rw [List.filterMap_cons]
  cases subseqPos (↑shift) (↑origLen) (↑lseq) p <;> rfl

/-- **the whole map**: rewriting the entries kept by the window = keeping, with the mirrored window, the
rewritten entries — as lists, entry by entry in the same order (so as Go maps, whatever the iteration
order); neither side panics -/
theorem revcmpMm_subMm (n fr to : Nat) (m : Mm) (hfr : fr < n) (hto1 : 1 ≤ to) (hto : to ≤ n)
    (hk : ∀ kp ∈ m, 13 ≤ kp.1.length ∧ 1 ≤ kp.2 ∧ kp.2 ≤ n) :
    ∃ m' x, revcmpMm n m = some m' ∧ m'.length = m.length ∧
      revcmpMm (wlen fr to n) (subMm fr n (wlen fr to n) m) = some x ∧
      subMm (n - to) n (wlen fr to n) m' = x := by
  induction m with
  | nil => exact ⟨[], [], rfl, rfl, rfl, rfl⟩
  | cons kp t ih =>
    obtain ⟨k, p⟩ := kp
    obtain ⟨t', x, h1, hl, h2, h3⟩ := ih (fun y hy => hk y (List.mem_cons_of_mem _ hy))
    obtain ⟨hk13, hp1, hpn⟩ := hk (k, p) (by simp)
    obtain ⟨k', ek, _, _⟩ := revcmpKey_spec k hk13
    have hpos := subseqPos_revcmpPos_gen n fr to p hfr hto1 hto hp1 hpn
    refine ⟨(k', revcmpPos n p) :: t', _, by simp only [revcmpMm, ek, h1], by simp [hl], ?_, rfl⟩
    rw [subMm_cons, subMm_cons, ← hpos]
    cases hs : subseqPos (↑fr) (↑n) (↑(wlen fr to n)) p with
    | none => simp only [Option.map_none]; rw [h2, h3]
    | some np => simp only [Option.map_some, revcmpMm, ek, h2, h3]

theorem rcMut_of (n : Nat) (m x : Mm) (h : revcmpMm n m = some x) : rcMut n (some m) = some (some x) := by
  cases m with
  | nil => simp only [revcmpMm, Option.some.injEq] at h; subst h; rfl
  | cons kp t => simp only [rcMut, h, Option.map_some]

theorem subMut_some (a b c : Nat) (m : Mm) : subMut a b c (some m) = some (subMm a b c m) := by
  cases m <;> rfl

/-- the attribute: absent, empty, or any number of entries -/
theorem rcMut_subMut (n fr to : Nat) (mm : Option Mm) (hfr : fr < n) (hto1 : 1 ≤ to) (hto : to ≤ n)
    (hk : ∀ m, mm = some m → ∀ kp ∈ m, 13 ≤ kp.1.length ∧ 1 ≤ kp.2 ∧ kp.2 ≤ n) :
    ∃ mm' x, rcMut n mm = some mm' ∧ rcMut (wlen fr to n) (subMut fr n (wlen fr to n) mm) = some x ∧
      subMut (n - to) n (wlen fr to n) mm' = x := by
  cases mm with
  | none => exact ⟨none, none, rfl, rfl, rfl⟩
  | some m =>
    obtain ⟨m', x, h1, _, h2, h3⟩ := revcmpMm_subMm n fr to m hfr hto1 hto (hk m rfl)
    refine ⟨some m', some x, rcMut_of n m m' h1, ?_, ?_⟩
    · rw [subMut_some]; exact rcMut_of _ _ _ h2
    · rw [subMut_some, h3]

theorem rcQual_full (n : Nat) (q : Bytes) (h : q = [] ∨ q.length = n) : rcQual n q = some (reverseInPlace q) := by
  by_cases h0 : q = []
  · subst h0; rfl
  · have hl : q.length = n := by rcases h with h | h; exact absurd h h0; exact h
    unfold rcQual
    rw [if_neg h0, if_neg (by omega), ← hl]
    simp

/-- `Subsequence` accepts every window given by naturals `fr < n`, `1 ≤ to ≤ n`, linear when `fr < to`,
circular otherwise, and does not renormalise it -/
theorem subWindow_ok (n a b : Nat) (c : Bool) (ha : a < n) (hb1 : 1 ≤ b) (hb : b ≤ n) (hc : a < b ∨ c = true) :
    subWindow n (a : Int) (b : Int) c = .ok (a, b) := by
  have h1 : Int.tmod (a : Int) (n : Int) = a := Int.tmod_eq_of_lt (by omega) (by omega)
  have h2 : Int.tmod ((b : Int) - 1) (n : Int) = b - 1 := Int.tmod_eq_of_lt (by omega) (by omega)
  have e3 : ¬ n ≤ a := by omega
  have e4 : ¬ n = 0 := by omega
  have e5 : ¬ n < b := by omega
  have e2 : ¬ (a : Int) < 0 := by omega
  have e6 : ¬ (b : Int) < 0 := by omega
  unfold subWindow
  simp only [h1, h2]
  rcases hc with hc | hc
  · have e1 : ¬ b ≤ a := by omega
    simp [e1, e2, e3, e4, e5, e6]
  · subst hc
    simp [e2, e3, e4, e5, e6]

/-- **rc (sub x) = sub' (rc x) on the whole object** (`Model/SeqAnnot.lean`), for every window — one piece
(`fr < to`, linear or circular flag) or wrapping across the origin (`to ≤ fr`, circular): the two routes
succeed (no error, no panic) and give the same object: bases, qualities, `pairing_mismatches` (absent,
empty, any entries: the same entries survive with the same rewritten keys and positions) and the other
annotations.  Hypotheses: qualities absent or as long as the bases; keys of at least 13 bytes (shorter
ones make `rev` panic) and positions within `1..n`. -/
theorem rcW_subW (o : WObj) (fr to : Nat) (c : Bool)
    (hq : o.qual = [] ∨ o.qual.length = o.seq.length)
    (hk : ∀ m, o.mm = some m → ∀ kp ∈ m, 13 ≤ kp.1.length ∧ 1 ≤ kp.2 ∧ kp.2 ≤ o.seq.length)
    (hfr : fr < o.seq.length) (hto1 : 1 ≤ to) (hto : to ≤ o.seq.length) (hc : fr < to ∨ c = true) :
    ∃ s r x, subW o fr to c = .ok s ∧ rcW s = some x ∧ rcW o = some r ∧
      subW r ((o.seq.length - to : Nat) : Int) ((o.seq.length - fr : Nat) : Int) c = .ok x ∧
      x.seq.length = wlen fr to o.seq.length := by
  obtain ⟨sq, qq, mq, rest⟩ := o
  simp only at hq hk hfr hto hc ⊢
  have hn := sq.length
  have hlr : (revcompInPlace sq).length = sq.length := revcompInPlace_length _
  have hcl : (cut sq fr to sq.length).length = wlen fr to sq.length := cut_length sq fr to hfr hto
  obtain ⟨mm', mx, m1, m2, m3⟩ := rcMut_subMut sq.length fr to mq hfr hto1 hto hk
  have w1 := subWindow_ok sq.length fr to c hfr hto1 hto hc
  have w2 := subWindow_ok sq.length (sq.length - to) (sq.length - fr) c (by omega) (by omega) (by omega)
    (by rcases hc with hc | hc; exact Or.inl (by omega); exact Or.inr hc)
  -- the qualities of the cut
  have hq' : cut qq fr to sq.length = [] ∨ (cut qq fr to sq.length).length = wlen fr to sq.length := by
    rcases hq with hq | hq
    · left; rw [hq]; exact cut_nil _ _ _
    · right; rw [← hq]; exact cut_length qq fr to (by omega) (by omega)
  have es : revcompInPlace (cut sq fr to sq.length) =
      cut (revcompInPlace sq) (sq.length - to) (sq.length - fr) sq.length := by
    rw [revcompInPlace_eq, revcompInPlace_eq]
    exact rev_map_cut nucComplement sq fr to hfr hto1 hto
  have eq : reverseInPlace (cut qq fr to sq.length) =
      cut (reverseInPlace qq) (sq.length - to) (sq.length - fr) sq.length := by
    rcases hq with hq | hq
    · rw [hq, cut_nil, reverseInPlace_nil, cut_nil]
    · rw [reverseInPlace_eq, reverseInPlace_eq, ← hq]
      have := rev_map_cut id qq fr to (by omega) hto1 (by omega)
      simpa using this
  refine ⟨⟨cut sq fr to sq.length, cut qq fr to sq.length, subMut fr sq.length (cut sq fr to sq.length).length mq, rest⟩,
    ⟨revcompInPlace sq, reverseInPlace qq, mm', rest⟩,
    ⟨revcompInPlace (cut sq fr to sq.length), reverseInPlace (cut qq fr to sq.length), mx, rest⟩, ?_, ?_, ?_, ?_, ?_⟩
  · simp only [subW, w1]
  · simp only [rcW, rcQual_full _ _ hq', hcl, m2]
  · simp only [rcW, rcQual_full _ _ hq, m1]
  · simp only [subW, hlr, w2]
    rw [← es, ← eq, revcompInPlace_length, hcl, m3]
  · rw [revcompInPlace_length, hcl]

end ObiVerif.SeqAnnot
