import ObiVerif.Model.TaxLoad
/-!
# Lemmas on the textual forms of a taxid: `%d` rendering, `strconv.Atoi`, `TX:(\d+)` (C14)
-/
namespace ObiVerif.TaxLoad

def digitOf (n : Nat) : UInt8 := UInt8.ofNat (48 + n % 10)

theorem digitOf_toNat (n : Nat) : (digitOf n).toNat = 48 + n % 10 := by
  unfold digitOf
  rw [UInt8.toNat_ofNat']
  have : n % 10 < 10 := Nat.mod_lt _ (by decide)
  omega

theorem isDigit_digitOf (n : Nat) : isDigit (digitOf n) = true := by
  have := digitOf_toNat n
  have : n % 10 < 10 := Nat.mod_lt _ (by decide)
  simp [isDigit]; omega

theorem isDigit_not_sign {c : UInt8} (h : isDigit c = true) : c ≠ 43 ∧ c ≠ 45 ∧ c ≠ 84 := by
  simp [isDigit] at h
  refine ⟨?_, ?_, ?_⟩ <;> intro e <;> subst e <;> simp at h

theorem isDigit_not_space {c : UInt8} (h : isDigit c = true) : isSpace c = false := by
  simp [isDigit] at h
  simp [isSpace]
  refine ⟨⟨⟨⟨⟨?_, ?_⟩, ?_⟩, ?_⟩, ?_⟩, ?_⟩ <;> intro e <;> subst e <;> simp at h

/-- `decAux` prepends digits only, at least one -/
theorem decAux_shape : ∀ (f n : Nat) (acc : Bytes), n < f →
    ∃ d ds, decAux f n acc = d :: ds ++ acc ∧ isDigit d = true ∧ (∀ c ∈ ds, isDigit c = true) := by
  intro f
  induction f with
  | zero => intro n acc h; omega
  | succ f ih =>
    intro n acc h
    unfold decAux
    by_cases hz : n / 10 = 0
    · simp only [hz, if_true]
      exact ⟨digitOf n, [], rfl, isDigit_digitOf n, by simp⟩
    · simp only [hz, if_false]
      have : n / 10 < f := by omega
      obtain ⟨d, ds, e, hd, hds⟩ := ih (n / 10) (UInt8.ofNat (48 + n % 10) :: acc) this
      refine ⟨d, ds ++ [digitOf n], ?_, hd, ?_⟩
      · rw [e]; simp [digitOf]
      · intro c hc
        rcases List.mem_append.1 hc with h1 | h1
        · exact hds c h1
        · simp at h1; rw [h1]; exact isDigit_digitOf n

/-- reading back the digits written by `decAux` in front of `acc` -/
theorem digitsVal_decAux : ∀ (f n : Nat) (acc : Bytes), n < f →
    digitsVal (decAux f n acc) 0 = digitsVal acc n := by
  intro f
  induction f with
  | zero => intro n acc h; omega
  | succ f ih =>
    intro n acc h
    unfold decAux
    have hd := isDigit_digitOf n
    have hv := digitOf_toNat n
    by_cases hz : n / 10 = 0
    · simp only [hz, if_true]
      show digitsVal (digitOf n :: acc) 0 = _
      conv => lhs; unfold digitsVal
      simp only [hd, if_true, hv]
      congr 1; omega
    · simp only [hz, if_false]
      have : n / 10 < f := by omega
      rw [ih (n / 10) _ this]
      show digitsVal (digitOf n :: acc) (n / 10) = _
      conv => lhs; unfold digitsVal
      simp only [hd, if_true, hv]
      congr 1; omega

theorem showNat_shape (n : Nat) :
    ∃ d ds, showNat n = d :: ds ∧ isDigit d = true ∧ (∀ c ∈ ds, isDigit c = true) := by
  obtain ⟨d, ds, e, hd, hds⟩ := decAux_shape (n + 1) n [] (by omega)
  exact ⟨d, ds, by simpa [showNat] using e, hd, hds⟩

theorem showNat_all_digits (n : Nat) : ∀ c ∈ showNat n, isDigit c = true := by
  obtain ⟨d, ds, e, hd, hds⟩ := showNat_shape n
  intro c hc
  rw [e] at hc
  rcases List.mem_cons.1 hc with h | h
  · rw [h]; exact hd
  · exact hds c h

theorem digitsVal_showNat (n : Nat) : digitsVal (showNat n) 0 = some n := by
  unfold showNat
  rw [digitsVal_decAux (n + 1) n [] (by omega)]
  rfl

/-- `strconv.Atoi(strconv.Itoa(n)) = n` for a non-negative `int` -/
theorem atoi_showNat' (n : Nat) (h : n < 2 ^ 63) : atoi (showNat n) = .ok n := by
  obtain ⟨d, ds, e, hd, _⟩ := showNat_shape n
  obtain ⟨h1, h2, _⟩ := isDigit_not_sign hd
  have hv := digitsVal_showNat n
  rw [e] at hv ⊢
  unfold atoi
  split
  · rename_i r heq; cases heq; exact absurd rfl h1
  · rename_i r heq; cases heq; exact absurd rfl h2
  · simp [atoiBody, hv, h]

/-- a string with a byte that is neither a digit nor a sign is not a number -/
theorem digitsVal_none_of_mem : ∀ (b : Bytes) (a : Nat), (∃ c ∈ b, isDigit c = false) → digitsVal b a = none := by
  intro b
  induction b with
  | nil => intro a h; simp at h
  | cons c r ih =>
    intro a h
    unfold digitsVal
    by_cases hc : isDigit c = true
    · simp only [hc, if_true]
      apply ih
      obtain ⟨x, hx, hxd⟩ := h
      rcases List.mem_cons.1 hx with e | e
      · rw [e] at hxd; rw [hxd] at hc; cases hc
      · exact ⟨x, e, hxd⟩
    · simp [hc]

theorem atoiBody_err (sign : Bool) (b : Bytes) (h : ∃ c ∈ b, isDigit c = false) : atoiBody sign b = .err := by
  unfold atoiBody
  split
  · rfl
  · rw [digitsVal_none_of_mem b 0 h]

/-- `strconv.Atoi` fails on a string holding a byte that is neither a digit nor `+`/`-` -/
theorem atoi_err (s : Bytes) (h : ∃ c ∈ s, isDigit c = false ∧ c ≠ 43 ∧ c ≠ 45) : atoi s = .err := by
  obtain ⟨c, hc, hd, h1, h2⟩ := h
  unfold atoi
  split
  · rename_i r
    apply atoiBody_err
    rcases List.mem_cons.1 hc with e | e
    · exact absurd e h1
    · exact ⟨c, e, hd⟩
  · rename_i r
    apply atoiBody_err
    rcases List.mem_cons.1 hc with e | e
    · exact absurd e h2
    · exact ⟨c, e, hd⟩
  · exact atoiBody_err _ _ ⟨c, hc, hd⟩

/-! ## the leftmost `TX:<digit>` -/

/-- the regular expression `TX:\d` matches at the head of `s` -/
def isTXat : Bytes → Bool
  | 84 :: 88 :: 58 :: d :: _ => isDigit d
  | _ => false

theorem findTX_cons (c : UInt8) (r : Bytes) :
    findTX (c :: r) = if isTXat (c :: r) then some ((r.drop 2).takeWhile isDigit) else findTX r := by
  conv => lhs; unfold findTX
  by_cases hc : c = 84
  · subst hc
    simp only [if_true]
    split
    · rename_i d r'
      by_cases hd : isDigit d = true
      · simp [isTXat, hd]
      · simp [isTXat, hd]
    · rename_i hno
      have : isTXat (84 :: r) = false := by
        unfold isTXat
        split
        · rename_i d r' heq
          cases heq
          exact absurd rfl (hno d r')
        · rfl
      simp [this]
  · simp only [hc, if_false]
    have : isTXat (c :: r) = false := by
      unfold isTXat
      split
      · rename_i heq; cases heq; exact absurd rfl hc
      · rfl
    simp [this]

/-- in front of a `TX:<digit>` a non-empty prefix matches or not by itself -/
theorem isTXat_append (a : UInt8) (p : Bytes) (d : UInt8) (rest : Bytes) :
    isTXat ((a :: p) ++ 84 :: 88 :: 58 :: d :: rest) = isTXat (a :: p) := by
  match p with
  | [] => by_cases h : a = 84 <;> simp [isTXat, h]
  | [b] =>
    by_cases h : a = 84
    · subst h; by_cases h2 : b = 88 <;> simp [isTXat, h2]
    · simp [isTXat, h]
  | [b, c] =>
    by_cases h : a = 84
    · subst h
      by_cases h2 : b = 88
      · subst h2
        by_cases h3 : c = 58
        · subst h3; simp [isTXat, isDigit]
        · simp [isTXat, h3]
      · simp [isTXat, h2]
    · simp [isTXat, h]
  | b :: c :: e :: q =>
    by_cases h : a = 84
    · subst h
      by_cases h2 : b = 88
      · subst h2
        by_cases h3 : c = 58
        · subst h3; simp [isTXat]
        · simp [isTXat, h3]
      · simp [isTXat, h2]
    · simp [isTXat, h]

/-- no earlier match in `pre` : the leftmost match of `pre ++ "TX:" ++ digits…` is the one written -/
theorem findTX_append : ∀ (pre : Bytes) (d : UInt8) (rest : Bytes), findTX pre = none → isDigit d = true →
    findTX (pre ++ 84 :: 88 :: 58 :: d :: rest) = some ((d :: rest).takeWhile isDigit) := by
  intro pre
  induction pre with
  | nil =>
    intro d rest _ hd
    simp only [List.nil_append]
    rw [findTX_cons]
    simp [isTXat, hd]
  | cons a p ih =>
    intro d rest h hd
    rw [findTX_cons] at h
    have h1 : isTXat (a :: p) = false := by
      cases hx : isTXat (a :: p)
      · rfl
      · rw [hx] at h; simp at h
    have h2 : findTX p = none := by rw [h1] at h; simpa using h
    have := isTXat_append a p d rest
    rw [List.cons_append] at this ⊢
    rw [findTX_cons, this, h1]
    simp only [Bool.false_eq_true, if_false]
    exact ih d rest h2 hd

theorem takeWhile_digits (ds suf : Bytes) (h : ∀ c ∈ ds, isDigit c = true)
    (hs : ∀ c, suf.head? = some c → isDigit c = false) :
    (ds ++ suf).takeWhile isDigit = ds := by
  induction ds with
  | nil =>
    cases suf with
    | nil => rfl
    | cons c r => simp [hs c rfl]
  | cons x r ih =>
    have hx := h x (by simp)
    simp only [List.cons_append, List.takeWhile, hx]
    rw [ih (fun c hc => h c (by simp [hc]))]

end ObiVerif.TaxLoad
