import ObiVerif.Model.DeBruijn
import ObiVerif.Lemmas.DeBruijn
/-!
# Lemmas on the De Bruijn graph model (C19), continued: weights of reads with ambiguity codes, the graph
(`Edge`, `Walk`, `Cyclic`), correctness of the depth-first cycle detection, invariants of the label-correcting
loop of `HaviestPath` (walk, termination, optimality), round trip of a single read
-/
namespace ObiVerif.DeBruijn
open ObiVerif.Kmer

/-! ## the graph as a relation -/

/-- the nodes (k-mer words present in the map) -/
def Graph.keys (g : Graph) : List Nat := g.nodes.map Prod.fst

/-- edge `x → y`: `y` is one of the nodes returned by `Nexts(x)` (the (k-1)-overlap as the code computes it) -/
def Graph.Edge (g : Graph) (x y : Nat) : Prop := y ∈ g.succ x

/-- a walk: a list of nodes of the graph, consecutive nodes linked by `Nexts` -/
def Graph.Walk (g : Graph) : List Nat → Prop
  | [] => True
  | [x] => x ∈ g.keys
  | x :: y :: t => g.Edge x y ∧ g.Walk (y :: t)

/-- a directed cycle: a walk with at least one edge that comes back to its first node -/
def Graph.Cyclic (g : Graph) : Prop := ∃ x p, g.Walk (x :: (p ++ [x]))

/-- total weight of a list of nodes -/
def Graph.pathWeight (g : Graph) (p : List Nat) : Nat := (p.map g.weight).sum

/-- a node without predecessor -/
def Graph.IsSource (g : Graph) (x : Nat) : Prop := x ∈ g.keys ∧ ∀ y, ¬ g.Edge y x

/-- the parameters are those `MakeDeBruijnGraph` computes for `1 ≤ k ≤ 32` and every node is a word of `k`
bases (true of every graph built by `MakeDeBruijnGraph` and `Push`: `wf_pushes`) -/
structure Graph.WF (g : Graph) : Prop where
  kpos : 1 ≤ g.k
  k32 : g.k ≤ 32
  mask : g.mask = 4 ^ g.k - 1
  prevc : g.prevc = 4 ^ (g.k - 1)
  prevg : g.prevg = 2 * 4 ^ (g.k - 1)
  prevt : g.prevt = 3 * 4 ^ (g.k - 1)
  bound : ∀ x ∈ g.keys, x < 4 ^ g.k

theorem has_iff_mem (nodes : List (Nat × Nat)) (x : Nat) : has nodes x = true ↔ x ∈ nodes.map Prod.fst := by
  induction nodes with
  | nil => simp [has, List.lookup]
  | cons p t ih =>
    obtain ⟨y, v⟩ := p
    by_cases h : x = y
    · subst h; simp [has, List.lookup]
    · have h' : (x == y) = false := by simpa using h
      simp only [has, List.lookup, h', List.map_cons, List.mem_cons, h, false_or] at ih ⊢
      exact ih

theorem Graph.has_iff (g : Graph) (x : Nat) : has g.nodes x = true ↔ x ∈ g.keys := has_iff_mem g.nodes x

theorem Graph.succ_of_not_mem (g : Graph) (x : Nat) (h : x ∉ g.keys) : g.succ x = [] := by
  have : has g.nodes x = false := by
    cases hh : has g.nodes x with
    | false => rfl
    | true => exact absurd ((g.has_iff x).mp hh) h
  simp [Graph.succ, Graph.nexts, this]

theorem Graph.Edge.left {g : Graph} {x y : Nat} (h : g.Edge x y) : x ∈ g.keys := by
  apply Classical.byContradiction
  intro hx
  have := g.succ_of_not_mem x hx
  simp [Graph.Edge, this] at h

theorem Graph.Edge.right {g : Graph} {x y : Nat} (h : g.Edge x y) : y ∈ g.keys := by
  have hx := h.left
  have hh : has g.nodes x = true := (g.has_iff x).mpr hx
  simp only [Graph.Edge, Graph.succ, Graph.nexts, hh, Bool.not_true, Bool.false_eq_true, if_false,
    Option.getD_some, List.mem_filter] at h
  exact (g.has_iff y).mp h.2

/-! ## reachability, cycles -/

/-- reflexive transitive closure of `Edge` -/
inductive Graph.Reach (g : Graph) : Nat → Nat → Prop
  | refl (x : Nat) : Graph.Reach g x x
  | head {x y z : Nat} : g.Edge x y → Graph.Reach g y z → Graph.Reach g x z

theorem Graph.Reach.tail {g : Graph} {x y z : Nat} (h : g.Reach x y) (e : g.Edge y z) : g.Reach x z := by
  induction h with
  | refl x => exact .head e (.refl _)
  | head e' _ ih => exact .head e' (ih e)

/-- `x` lies on a directed cycle -/
def Graph.OnCycle (g : Graph) (x : Nat) : Prop := ∃ y, g.Edge x y ∧ g.Reach y x

theorem Graph.walk_of_reach {g : Graph} {x y z : Nat} (e : g.Edge x y) (h : g.Reach y z) :
    ∃ p, g.Walk (x :: (p ++ [z])) := by
  induction h generalizing x with
  | refl y => exact ⟨[], e, e.right⟩
  | head e' _ ih =>
    obtain ⟨p, hp⟩ := ih e'
    exact ⟨_ :: p, e, hp⟩

theorem Graph.reach_of_walk {g : Graph} (p : List Nat) : ∀ x z, g.Walk (x :: (p ++ [z])) →
    ∃ y, g.Edge x y ∧ g.Reach y z := by
  induction p with
  | nil => intro x z h; exact ⟨z, h.1, .refl _⟩
  | cons y p ih =>
    intro x z h
    obtain ⟨y', e', r'⟩ := ih y z h.2
    exact ⟨y, h.1, .head e' r'⟩

theorem Graph.cyclic_iff (g : Graph) : g.Cyclic ↔ ∃ x, g.OnCycle x := by
  constructor
  · rintro ⟨x, p, h⟩; exact ⟨x, g.reach_of_walk p x x h⟩
  · rintro ⟨x, y, e, r⟩
    obtain ⟨p, hp⟩ := Graph.walk_of_reach e r
    exact ⟨x, p, hp⟩

/-! ## the depth-first search -/

/-- number of nodes not yet visited (with multiplicity in the association list) -/
def unvisited (g : Graph) (vis : List Nat) : Nat := (g.keys.filter fun x => !vis.contains x).length

theorem filter_length_le_of_imp {α : Type} (p q : α → Bool) (l : List α) (h : ∀ x, q x = true → p x = true) :
    (l.filter q).length ≤ (l.filter p).length := by
  induction l with
  | nil => simp
  | cons a l ih =>
    simp only [List.filter_cons]
    by_cases hq : q a = true
    · simp only [hq, h a hq, if_true, List.length_cons]; omega
    · by_cases hp : p a = true
      · simp only [hq, hp, if_true, List.length_cons]; simp only [Bool.false_eq_true, if_false]; omega
      · simp only [hq, hp]; exact ih

theorem filter_length_lt_of_imp {α : Type} (p q : α → Bool) (l : List α) (h : ∀ x, q x = true → p x = true)
    (a : α) (ha : a ∈ l) (hp : p a = true) (hq : q a = false) :
    (l.filter q).length < (l.filter p).length := by
  induction l with
  | nil => simp at ha
  | cons b l ih =>
    simp only [List.filter_cons]
    rcases List.mem_cons.mp ha with rfl | ha
    · have := filter_length_le_of_imp p q l h
      simp only [hp, hq, if_true, List.length_cons]
      simp; omega
    · have := ih ha
      by_cases hqb : q b = true
      · simp only [hqb, h b hqb, if_true, List.length_cons]; omega
      · by_cases hpb : p b = true
        · simp only [hqb, hpb, if_true, List.length_cons]; simp only [Bool.false_eq_true, if_false]; omega
        · simp only [hqb, hpb]; exact this

theorem unvisited_mono (g : Graph) (v v' : List Nat) (h : ∀ x ∈ v, x ∈ v') : unvisited g v' ≤ unvisited g v := by
  apply filter_length_le_of_imp
  intro x hx
  simp only [Bool.not_eq_true', List.contains_eq_mem, decide_eq_false_iff_not] at hx ⊢
  exact fun hv => hx (h x hv)

theorem unvisited_cons_lt (g : Graph) (v : List Nat) (n : Nat) (hn : n ∈ g.keys) (hv : n ∉ v) :
    unvisited g (n :: v) < unvisited g v := by
  apply filter_length_lt_of_imp _ _ _ _ n hn
  · simpa using hv
  · simp
  · intro x hx
    simp only [Bool.not_eq_true', List.contains_eq_mem, decide_eq_false_iff_not, List.mem_cons, not_or] at hx ⊢
    exact hx.2

/-- a node whose exploration is over -/
def Dfs.black (st : Dfs) (x : Nat) : Prop := x ∈ st.visited ∧ x ∉ st.stack

/-- invariant of the search: the stack is visited, the finished nodes are closed under `Nexts` and none of
them lies on a cycle -/
structure DfsInv (g : Graph) (st : Dfs) : Prop where
  stack : ∀ x ∈ st.stack, x ∈ st.visited
  closed : ∀ x, st.black x → ∀ y, g.Edge x y → st.black y
  acyc : ∀ x, st.black x → ¬ g.OnCycle x

theorem black_reach {g : Graph} {st : Dfs} (hc : ∀ x, st.black x → ∀ y, g.Edge x y → st.black y)
    {x y : Nat} (r : g.Reach x y) (hx : st.black x) : st.black y := by
  induction r with
  | refl => exact hx
  | head e _ ih => exact ih (hc _ hx _ e)

def DfsPost (r : DfsOut) (C : Prop) (P : Dfs → Prop) : Prop :=
  match r with
  | .fuel => False
  | .cycle => C
  | .done s => P s

theorem forNexts_spec (g : Graph) (node : Nat) (S : List Nat) (f : Nat → Dfs → DfsOut) (fuel : Nat)
    (hf : ∀ n s, n ∈ g.keys → n ∉ s.visited → DfsInv g s → (∀ x ∈ s.stack, g.Reach x n) →
      unvisited g s.visited ≤ fuel →
      DfsPost (f n s) (∃ x, g.OnCycle x) fun s' =>
        s'.stack = s.stack ∧ (∀ x ∈ s.visited, x ∈ s'.visited) ∧ n ∈ s'.visited ∧ DfsInv g s') :
    ∀ (l : List Nat) (s : Dfs), (∀ n ∈ l, g.Edge node n) → s.stack = node :: S → DfsInv g s →
      (∀ x ∈ s.stack, g.Reach x node) → unvisited g s.visited ≤ fuel →
      DfsPost (forNexts f l s) (∃ x, g.OnCycle x) fun s' =>
        s'.stack = node :: S ∧ (∀ x ∈ s.visited, x ∈ s'.visited) ∧ DfsInv g s' ∧ ∀ n ∈ l, s'.black n := by
  intro l
  induction l with
  | nil =>
    intro s _ hs hi _ _
    simp only [forNexts, DfsPost]
    exact ⟨hs, fun _ h => h, hi, by simp⟩
  | cons n t ih =>
    intro s hl hs hi hr hu
    have he : g.Edge node n := hl n (by simp)
    have hlt : ∀ m ∈ t, g.Edge node m := fun m hm => hl m (by simp [hm])
    simp only [forNexts]
    by_cases hv : n ∈ s.visited
    · have hv' : (!s.visited.contains n) = false := by simpa using hv
      simp only [hv']
      by_cases hst : n ∈ s.stack
      · have : s.stack.contains n = true := by simpa using hst
        simp only [this, if_true, DfsPost, Bool.false_eq_true, if_false]
        exact ⟨node, n, he, hr n hst⟩
      · have : s.stack.contains n = false := by simpa using hst
        simp only [this, Bool.false_eq_true, if_false]
        have := ih s hlt hs hi hr hu
        revert this
        cases forNexts f t s with
        | fuel => exact id
        | cycle => exact id
        | done s' =>
          simp only [DfsPost]
          rintro ⟨h1, h2, h3, h4⟩
          refine ⟨h1, h2, h3, ?_⟩
          intro m hm
          rcases List.mem_cons.mp hm with rfl | hm
          · exact ⟨h2 _ hv, by rw [h1, ← hs]; exact hst⟩
          · exact h4 m hm
    · have hv' : (!s.visited.contains n) = true := by simpa using hv
      simp only [hv', if_true]
      have h0 := hf n s he.right hv hi (fun x hx => (hr x hx).tail he) hu
      revert h0
      cases f n s with
      | fuel => exact id
      | cycle => exact id
      | done s1 =>
        simp only [DfsPost]
        rintro ⟨k1, k2, k3, k4⟩
        have := ih s1 hlt (by rw [k1, hs]) k4 (by rw [k1]; exact hr)
          (Nat.le_trans (unvisited_mono g _ _ k2) hu)
        revert this
        cases forNexts f t s1 with
        | fuel => exact id
        | cycle => exact id
        | done s' =>
          simp only [DfsPost]
          rintro ⟨h1, h2, h3, h4⟩
          refine ⟨h1, fun x hx => h2 x (k2 x hx), h3, ?_⟩
          intro m hm
          rcases List.mem_cons.mp hm with rfl | hm
          · refine ⟨h2 _ k3, ?_⟩
            rw [h1, ← hs]
            exact fun hc => hv (hi.stack _ hc)
          · exact h4 m hm

theorem unvisited_pos (g : Graph) (v : List Nat) (n : Nat) (hn : n ∈ g.keys) (hv : n ∉ v) : 0 < unvisited g v := by
  apply List.length_pos_of_mem (a := n)
  simp [List.mem_filter, hn, hv]

theorem dfs_spec (g : Graph) : ∀ (fuel node : Nat) (st : Dfs), node ∈ g.keys → node ∉ st.visited → DfsInv g st →
    (∀ x ∈ st.stack, g.Reach x node) → unvisited g st.visited ≤ fuel →
    DfsPost (dfs g fuel node st) (∃ x, g.OnCycle x) fun s' =>
      s'.stack = st.stack ∧ (∀ x ∈ st.visited, x ∈ s'.visited) ∧ node ∈ s'.visited ∧ DfsInv g s' := by
  intro fuel
  induction fuel with
  | zero =>
    intro node st hn hv _ _ hu
    have := unvisited_pos g st.visited node hn hv
    omega
  | succ fuel ih =>
    intro node st hn hv hi hr hu
    simp only [dfs]
    have hns : node ∉ st.stack := fun h => hv (hi.stack _ h)
    have hb : ∀ x, (Dfs.black ⟨node :: st.visited, node :: st.stack⟩ x) ↔ st.black x := by
      intro x
      simp only [Dfs.black, List.mem_cons, not_or]
      constructor
      · rintro ⟨h1 | h1, h2, h3⟩
        · exact absurd h1 h2
        · exact ⟨h1, h3⟩
      · rintro ⟨h1, h3⟩
        exact ⟨Or.inr h1, fun e => hv (e ▸ h1), h3⟩
    have hi0 : DfsInv g ⟨node :: st.visited, node :: st.stack⟩ := by
      refine ⟨?_, ?_, ?_⟩
      · intro x hx
        rcases List.mem_cons.mp hx with rfl | hx
        · simp
        · exact List.mem_cons_of_mem _ (hi.stack x hx)
      · intro x hx y e
        exact (hb y).mpr (hi.closed x ((hb x).mp hx) y e)
      · intro x hx
        exact hi.acyc x ((hb x).mp hx)
    have hr0 : ∀ x ∈ (Dfs.mk (node :: st.visited) (node :: st.stack)).stack, g.Reach x node := by
      intro x hx
      rcases List.mem_cons.mp hx with rfl | hx
      · exact .refl _
      · exact hr x hx
    have hu0 : unvisited g (node :: st.visited) ≤ fuel := by
      have := unvisited_cons_lt g st.visited node hn hv
      omega
    have := forNexts_spec g node st.stack (dfs g fuel) fuel ih (g.succ node)
      ⟨node :: st.visited, node :: st.stack⟩ (fun n hn => hn) rfl hi0 hr0 hu0
    revert this
    cases forNexts (dfs g fuel) (g.succ node) ⟨node :: st.visited, node :: st.stack⟩ with
    | fuel => exact id
    | cycle => exact id
    | done s' =>
      simp only [DfsPost]
      rintro ⟨h1, h2, h3, h4⟩
      have hst : s'.stack.erase node = st.stack := by rw [h1]; simp
      rw [hst]
      have hnv : node ∈ s'.visited := h2 node (by simp)
      refine ⟨rfl, fun x hx => h2 x (by simp [hx]), hnv, ?_, ?_, ?_⟩
      · intro x hx
        exact h2 x (List.mem_cons_of_mem _ (hi.stack x hx))
      · rintro x ⟨hx1, hx2⟩ y e
        simp only at hx1 hx2
        by_cases hxn : x = node
        · subst hxn
          have := h4 y e
          exact ⟨this.1, fun hy => this.2 (by rw [h1]; exact List.mem_cons_of_mem _ hy)⟩
        · have hbx : s'.black x := ⟨hx1, by rw [h1]; simp [hxn, hx2]⟩
          have := h3.closed x hbx y e
          exact ⟨this.1, fun hy => this.2 (by rw [h1]; exact List.mem_cons_of_mem _ hy)⟩
      · rintro x ⟨hx1, hx2⟩
        simp only at hx1 hx2
        by_cases hxn : x = node
        · subst hxn
          rintro ⟨y, e, r⟩
          have hby := h4 y e
          have := black_reach h3.closed r hby
          exact this.2 (by rw [h1]; simp)
        · exact h3.acyc x ⟨hx1, by rw [h1]; simp [hxn, hx2]⟩

theorem dfsAll_spec (g : Graph) (fuel : Nat) : ∀ (l : List Nat) (st : Dfs), (∀ n ∈ l, n ∈ g.keys) → st.stack = [] →
    DfsInv g st → unvisited g st.visited ≤ fuel →
    DfsPost (dfsAll g fuel l st) (∃ x, g.OnCycle x) fun s' =>
      s'.stack = [] ∧ DfsInv g s' ∧ (∀ x ∈ st.visited, x ∈ s'.visited) ∧ ∀ n ∈ l, n ∈ s'.visited := by
  intro l
  induction l with
  | nil => intro st _ hs hi _; simp only [dfsAll, DfsPost]; exact ⟨hs, hi, fun _ h => h, by simp⟩
  | cons n t ih =>
    intro st hl hs hi hu
    have hlt : ∀ m ∈ t, m ∈ g.keys := fun m hm => hl m (by simp [hm])
    simp only [dfsAll]
    by_cases hv : n ∈ st.visited
    · have hv' : (!st.visited.contains n) = false := by simpa using hv
      simp only [hv', Bool.false_eq_true, if_false]
      have := ih st hlt hs hi hu
      revert this
      cases dfsAll g fuel t st with
      | fuel => exact id
      | cycle => exact id
      | done s' =>
        simp only [DfsPost]
        rintro ⟨h1, h2, h3, h4⟩
        refine ⟨h1, h2, h3, ?_⟩
        intro m hm
        rcases List.mem_cons.mp hm with rfl | hm
        · exact h3 _ hv
        · exact h4 m hm
    · have hv' : (!st.visited.contains n) = true := by simpa using hv
      simp only [hv', if_true]
      have h0 := dfs_spec g fuel n st (hl n (by simp)) hv hi (by rw [hs]; simp) hu
      revert h0
      cases dfs g fuel n st with
      | fuel => exact id
      | cycle => exact id
      | done s1 =>
        simp only [DfsPost]
        rintro ⟨k1, k2, k3, k4⟩
        have := ih s1 hlt (by rw [k1, hs]) k4 (Nat.le_trans (unvisited_mono g _ _ k2) hu)
        revert this
        cases dfsAll g fuel t s1 with
        | fuel => exact id
        | cycle => exact id
        | done s' =>
          simp only [DfsPost]
          rintro ⟨h1, h2, h3, h4⟩
          refine ⟨h1, h2, fun x hx => h3 x (k2 x hx), ?_⟩
          intro m hm
          rcases List.mem_cons.mp hm with rfl | hm
          · exact h3 _ k3
          · exact h4 m hm

/-- `HasCycle` always answers (the fuel of the model is never exhausted) and answers true exactly when the
graph has a directed cycle -/
theorem hasCycle_spec (g : Graph) :
    (g.hasCycle = some true ∧ g.Cyclic) ∨ (g.hasCycle = some false ∧ ¬ g.Cyclic) := by
  have hi : DfsInv g ⟨[], []⟩ := ⟨by simp, by simp [Dfs.black], by simp [Dfs.black]⟩
  have hu : unvisited g [] ≤ g.nodes.length + 1 := by
    have : unvisited g [] ≤ g.keys.length := List.length_filter_le _ _
    simp only [Graph.keys, List.length_map] at this
    omega
  have := dfsAll_spec g (g.nodes.length + 1) g.keys ⟨[], []⟩ (fun _ h => h) rfl hi hu
  unfold Graph.hasCycle
  revert this
  show DfsPost (dfsAll g (g.nodes.length + 1) g.keys ⟨[], []⟩) _ _ → _
  cases hd : dfsAll g (g.nodes.length + 1) g.keys ⟨[], []⟩ with
  | fuel => exact False.elim
  | cycle =>
    simp only [DfsPost]
    intro h
    refine Or.inl ⟨?_, (g.cyclic_iff).mpr h⟩
    simp only [Graph.keys] at hd
    rw [hd]
  | done s' =>
    simp only [DfsPost]
    rintro ⟨h1, h2, _, h4⟩
    refine Or.inr ⟨?_, ?_⟩
    · simp only [Graph.keys] at hd
      rw [hd]
    rw [g.cyclic_iff]
    rintro ⟨x, y, e, r⟩
    exact h2.acyc x ⟨h4 x e.left, by rw [h1]; simp⟩ ⟨y, e, r⟩

/-! ## `Previouses` against `Nexts`, heads, decoding -/


/-! ### `Previouses` is the converse of `Nexts` -/

theorem w64_eq : W64 = 2 ^ 64 := by decide

/-- `(x << 2) & (4^k - 1)` drops the leading base and shifts: `(x mod 4^(k-1)) * 4` -/
theorem shift_mask (k x : Nat) (hk : 1 ≤ k) (h32 : k ≤ 32) :
    ((x * 4) % W64) &&& (4 ^ k - 1) = (x % 4 ^ (k - 1)) * 4 := by
  have hdv : 2 ^ (2 * k) ∣ 2 ^ 64 := Nat.pow_dvd_pow 2 (by omega)
  have e4 : (2:Nat) ^ (2 * k) = 4 ^ (k - 1) * 4 := by
    rw [four_pow, ← Nat.pow_succ]; congr 1; omega
  rw [w64_eq, ← four_pow k, Nat.and_two_pow_sub_one_eq_mod, Nat.mod_mod_of_dvd _ hdv, e4,
    Nat.mul_mod_mul_right]

theorem mem_four (r y : Nat) :
    y ∈ [r * 4, r * 4 ||| 1, r * 4 ||| 2, r * 4 ||| 3] ↔ y / 4 = r := by
  rw [lor_low2 (r * 4) 1 (by omega) (by omega), lor_low2 (r * 4) 2 (by omega) (by omega),
    lor_low2 (r * 4) 3 (by omega) (by omega)]
  simp only [List.mem_cons, List.not_mem_nil, or_false]
  omega

theorem mem_succ_iff (g : Graph) (h : g.WF) (x y : Nat) :
    y ∈ g.succ x ↔ x ∈ g.keys ∧ y ∈ g.keys ∧ y / 4 = x % 4 ^ (g.k - 1) := by
  by_cases hx : x ∈ g.keys
  · have hh : has g.nodes x = true := (g.has_iff x).mpr hx
    simp only [Graph.succ, Graph.nexts, hh, Bool.not_true, Bool.false_eq_true, if_false,
      Option.getD_some, List.mem_filter, h.mask, shift_mask g.k x h.kpos h.k32, mem_four, g.has_iff]
    constructor
    · rintro ⟨a, b⟩; exact ⟨hx, b, a⟩
    · rintro ⟨_, b, a⟩; exact ⟨a, b⟩
  · rw [g.succ_of_not_mem x hx]
    simp [hx]

theorem edge_iff (g : Graph) (h : g.WF) (x y : Nat) :
    g.Edge x y ↔ x ∈ g.keys ∧ y ∈ g.keys ∧ y / 4 = x % 4 ^ (g.k - 1) :=
  mem_succ_iff g h x y

/-- the four words whose `k-1` low bases are `r` -/
theorem mem_four_hi (P r y : Nat) (hr : r < P) :
    (y = r ∨ y = P + r ∨ y = 2 * P + r ∨ y = 3 * P + r) ↔ y < 4 * P ∧ y % P = r := by
  have hP : 0 < P := by omega
  constructor
  · rintro (e | e | e | e) <;> subst e
    · exact ⟨by omega, Nat.mod_eq_of_lt hr⟩
    · refine ⟨by omega, ?_⟩
      rw [Nat.add_comm, Nat.add_mod_right]; exact Nat.mod_eq_of_lt hr
    · refine ⟨by omega, ?_⟩
      rw [Nat.add_comm, Nat.mul_comm, Nat.add_mul_mod_self_left]; exact Nat.mod_eq_of_lt hr
    · refine ⟨by omega, ?_⟩
      rw [Nat.add_comm, Nat.mul_comm, Nat.add_mul_mod_self_left]; exact Nat.mod_eq_of_lt hr
  · rintro ⟨hy, e⟩
    have hd : y / P < 4 := Nat.div_lt_of_lt_mul (by rw [Nat.mul_comm]; exact hy)
    have hs := Nat.div_add_mod y P
    rw [e] at hs
    generalize y / P = a at hd hs
    have h0 : a = 0 ∨ a = 1 ∨ a = 2 ∨ a = 3 := by omega
    rcases h0 with h0 | h0 | h0 | h0 <;> subst h0 <;> omega

theorem mem_prev_list (g : Graph) (h : g.WF) (x y : Nat) (hx : x < 4 ^ g.k) :
    y ∈ [x / 4, x / 4 ||| g.prevc, x / 4 ||| g.prevg, x / 4 ||| g.prevt]
      ↔ y < 4 ^ g.k ∧ y % 4 ^ (g.k - 1) = x / 4 := by
  have hk := h.kpos
  have e4 : 4 ^ g.k = 4 * 4 ^ (g.k - 1) := by
    rw [Nat.mul_comm, ← Nat.pow_succ]; congr 1; omega
  have hP : (2:Nat) ^ (2 * (g.k - 1)) = 4 ^ (g.k - 1) := four_pow _
  have hr : x / 4 < 4 ^ (g.k - 1) := by omega
  have hr2 : x / 4 < 2 ^ (2 * (g.k - 1)) := by rw [hP]; exact hr
  have e1 : x / 4 ||| g.prevc = 4 ^ (g.k - 1) + x / 4 := by
    have := lor_disjoint' 1 (x / 4) _ hr2
    rw [hP, Nat.one_mul] at this
    rw [h.prevc]; exact this
  have e2 : x / 4 ||| g.prevg = 2 * 4 ^ (g.k - 1) + x / 4 := by
    have := lor_disjoint' 2 (x / 4) _ hr2
    rw [hP] at this
    rw [h.prevg]; exact this
  have e3 : x / 4 ||| g.prevt = 3 * 4 ^ (g.k - 1) + x / 4 := by
    have := lor_disjoint' 3 (x / 4) _ hr2
    rw [hP] at this
    rw [h.prevt]; exact this
  rw [e1, e2, e3, e4]
  simp only [List.mem_cons, List.not_mem_nil, or_false]
  exact mem_four_hi _ _ _ hr

theorem mem_previouses_iff (g : Graph) (h : g.WF) (x y : Nat) (hx : x ∈ g.keys) :
    y ∈ (g.previouses x).getD [] ↔ g.Edge y x := by
  have hh : has g.nodes x = true := (g.has_iff x).mpr hx
  have hb := h.bound x hx
  rw [edge_iff g h]
  simp only [Graph.previouses, hh, Bool.not_true, Bool.false_eq_true, if_false, Option.getD_some,
    List.mem_filter, mem_prev_list g h x y hb, g.has_iff]
  constructor
  · rintro ⟨⟨_, e⟩, hy⟩; exact ⟨hy, hx, e.symm⟩
  · rintro ⟨hy, _, e⟩; exact ⟨⟨h.bound y hy, e.symm⟩, hy⟩

theorem mem_heads_iff (g : Graph) (h : g.WF) (x : Nat) : x ∈ g.heads ↔ g.IsSource x := by
  simp only [Graph.heads, List.mem_filter, Graph.IsSource, beq_iff_eq]
  show x ∈ g.keys ∧ _ ↔ _
  constructor
  · rintro ⟨hx, e⟩
    refine ⟨hx, fun y hy => ?_⟩
    have := (mem_previouses_iff g h x y hx).mpr hy
    rw [e] at this
    simp at this
  · rintro ⟨hx, e⟩
    refine ⟨hx, ?_⟩
    apply List.eq_nil_iff_forall_not_mem.mpr
    intro y hy
    exact e y ((mem_previouses_iff g h x y hx).mp hy)

theorem zero_not_head (g : Graph) : 0 ∉ g.heads := by
  intro h0
  simp only [Graph.heads, List.mem_filter, beq_iff_eq] at h0
  obtain ⟨hx, e⟩ := h0
  have hh : has g.nodes 0 = true := (g.has_iff 0).mpr hx
  simp [Graph.previouses, hh, List.filter_cons] at e

/-! ### decoding a word of digits -/

theorem land3 (x : Nat) : x &&& 3 = x % 4 := Nat.and_two_pow_sub_one_eq_mod x 2

theorem val_land3 (d : List Nat) (c : Nat) (hc : c < 4) : val (d ++ [c]) &&& 3 = c := by
  rw [val_snoc, land3]; omega

theorem val_snoc_div (d : List Nat) (c : Nat) (hc : c < 4) : val (d ++ [c]) / 4 = val d := by
  rw [val_snoc]; omega

theorem decodeNode_val_rev (r : List Nat) (hr : Dig r) (acc : List UInt8) :
    decodeNode r.length (val r.reverse) acc = r.reverse.map decode ++ acc := by
  induction r generalizing acc with
  | nil => rfl
  | cons c t ih =>
    have hc : c < 4 := hr c (by simp)
    have ht : Dig t := fun a ha => hr a (by simp [ha])
    rw [List.reverse_cons, List.length_cons]
    show decodeNode t.length (val (t.reverse ++ [c]) / 4) (decode (val (t.reverse ++ [c]) &&& 3) :: acc) = _
    rw [val_land3 _ _ hc, val_snoc_div _ _ hc, ih ht]
    simp

theorem decodeNode_val_acc (d : List Nat) (hd : Dig d) (acc : List UInt8) :
    decodeNode d.length (val d) acc = d.map decode ++ acc := by
  have := decodeNode_val_rev d.reverse (fun c hc => hd c (List.mem_reverse.mp hc)) acc
  simpa using this

theorem decodeNode_val (d : List Nat) (hd : Dig d) : decodeNode d.length (val d) [] = d.map decode := by
  rw [decodeNode_val_acc d hd]; simp


/-! ## weights of reads with ambiguity codes; well-formedness of the graphs built by `Push` -/


/-- the IUPAC readings of a window of bytes: one digit list per choice of a nucleotide in every code of the generated table `Gen.kmerIupac` -/
def readings : Bytes → List (List Nat)
  | [] => [[]]
  | b :: t => (iupac b.toNat).flatMap fun c => (readings t).map (c :: ·)
/-- the k-mer words a window can be read as -/
def kmerReadings (win : Bytes) : List Nat := (readings win).map val
/-- `Push` stops enumerating at the first byte outside the IUPAC table (outside the contract) -/
def validPrefix (s : Bytes) : Bytes := s.takeWhile fun b => !(iupac b.toNat).isEmpty
/-- number of windows of `k` bytes of `s` one of whose readings is the word `x` -/
def winCount (k x : Nat) (s : Bytes) : Nat := (windowsAll k s).countP fun win => (kmerReadings win).contains x

/-! ## `sortDedup` -/

theorem mem_insertU (x y : Nat) (l : List Nat) : y ∈ insertU x l ↔ y = x ∨ y ∈ l := by
  induction l with
  | nil => simp [insertU]
  | cons a t ih =>
    simp only [insertU]
    split
    · simp
    · split
      · rename_i h; subst h; simp
      · simp only [List.mem_cons, ih]
        constructor
        · rintro (h | h | h) <;> simp [h]
        · rintro (h | h | h) <;> simp [h]

theorem pairwise_insertU (x : Nat) (l : List Nat) (h : l.Pairwise (· < ·)) : (insertU x l).Pairwise (· < ·) := by
  induction l with
  | nil => simp [insertU]
  | cons a t ih =>
    simp only [insertU]
    rw [List.pairwise_cons] at h
    split
    · rename_i hx
      rw [List.pairwise_cons]
      refine ⟨?_, List.pairwise_cons.mpr h⟩
      intro y hy
      rcases List.mem_cons.mp hy with rfl | hy
      · exact hx
      · exact Nat.lt_trans hx (h.1 y hy)
    · split
      · exact List.pairwise_cons.mpr h
      · rename_i h1 h2
        rw [List.pairwise_cons]
        refine ⟨?_, ih h.2⟩
        intro y hy
        rcases (mem_insertU x y t).mp hy with rfl | hy
        · omega
        · exact h.1 y hy

theorem mem_sortDedup (x : Nat) (l : List Nat) : x ∈ sortDedup l ↔ x ∈ l := by
  induction l with
  | nil => simp [sortDedup]
  | cons a t ih =>
    have : sortDedup (a :: t) = insertU a (sortDedup t) := rfl
    rw [this, mem_insertU, ih]; simp

theorem pairwise_sortDedup (l : List Nat) : (sortDedup l).Pairwise (· < ·) := by
  induction l with
  | nil => simp [sortDedup]
  | cons a t ih => exact pairwise_insertU a _ ih

theorem nodup_sortDedup (l : List Nat) : (sortDedup l).Nodup :=
  (pairwise_sortDedup l).imp (fun h => Nat.ne_of_lt h)

/-! ## weights added by one position -/

theorem foldl_addWeight (w x : Nat) (kmers : List Nat) (hn : kmers.Nodup) :
    ∀ nodes, weightOf (kmers.foldl (fun n key => addWeight n key w) nodes) x
      = weightOf nodes x + (if x ∈ kmers then w else 0) := by
  induction kmers with
  | nil => intro nodes; simp
  | cons a t ih =>
    intro nodes
    rw [List.nodup_cons] at hn
    rw [List.foldl_cons, ih hn.2, weightOf_addWeight]
    by_cases h : a = x
    · subst h
      simp [hn.1]
    · have h' : ¬ x = a := fun e => h e.symm
      simp [h, h']

set_option maxRecDepth 100000 in
theorem iupac_table : ∀ n, n < 256 → ∀ c ∈ iupac n, c < 4 := by decide

theorem iupac_lt (b : UInt8) (c : Nat) (h : c ∈ iupac b.toNat) : c < 4 :=
  iupac_table b.toNat b.toNat_lt c h

/-! ## readings -/

theorem mem_readings_cons (a : UInt8) (p : Bytes) (t : List Nat) :
    t ∈ readings (a :: p) ↔ ∃ c ∈ iupac a.toNat, ∃ t' ∈ readings p, t = c :: t' := by
  simp only [readings, List.mem_flatMap, List.mem_map]
  constructor
  · rintro ⟨c, hc, t', ht', rfl⟩; exact ⟨c, hc, t', ht', rfl⟩
  · rintro ⟨c, hc, t', ht', rfl⟩; exact ⟨c, hc, t', ht', rfl⟩

theorem mem_readings_snoc (p : Bytes) (b : UInt8) :
    ∀ t, t ∈ readings (p ++ [b]) ↔ ∃ t' ∈ readings p, ∃ c ∈ iupac b.toNat, t = t' ++ [c] := by
  induction p with
  | nil =>
    intro t
    rw [List.nil_append, mem_readings_cons]
    simp only [readings, List.mem_singleton]
    constructor
    · rintro ⟨c, hc, t', rfl, rfl⟩; exact ⟨[], rfl, c, hc, rfl⟩
    · rintro ⟨t', rfl, c, hc, rfl⟩; exact ⟨c, hc, [], rfl, rfl⟩
  | cons a p ih =>
    intro t
    rw [List.cons_append, mem_readings_cons]
    constructor
    · rintro ⟨c, hc, t', ht', rfl⟩
      obtain ⟨t'', ht'', d, hd, rfl⟩ := (ih t').mp ht'
      exact ⟨c :: t'', (mem_readings_cons a p _).mpr ⟨c, hc, t'', ht'', rfl⟩, d, hd, rfl⟩
    · rintro ⟨t', ht', d, hd, rfl⟩
      obtain ⟨c, hc, t'', ht'', rfl⟩ := (mem_readings_cons a p _).mp ht'
      exact ⟨c, hc, t'' ++ [d], (ih _).mpr ⟨t'', ht'', d, hd, rfl⟩, rfl⟩

theorem readings_spec (win : Bytes) : ∀ t ∈ readings win, t.length = win.length ∧ Dig t := by
  induction win with
  | nil => intro t ht; simp [readings] at ht; subst ht; exact ⟨rfl, fun c hc => by simp at hc⟩
  | cons a p ih =>
    intro t ht
    obtain ⟨c, hc, t', ht', rfl⟩ := (mem_readings_cons a p t).mp ht
    obtain ⟨h1, h2⟩ := ih t' ht'
    refine ⟨by simp [h1], ?_⟩
    intro d hd
    rcases List.mem_cons.mp hd with rfl | hd
    · exact iupac_lt a _ hc
    · exact h2 d hd

theorem mem_kmerReadings (win : Bytes) (v : Nat) : v ∈ kmerReadings win ↔ ∃ t ∈ readings win, val t = v := by
  simp [kmerReadings]

/-- the window of bytes after one more byte (at most `k` bytes are kept) -/
def slideB (k : Nat) (pre : Bytes) (b : UInt8) : Bytes := (if pre.length = k then pre.tail else pre) ++ [b]

/-- readings of the slid window: the slid readings -/
theorem mem_readings_slideB (k : Nat) (pre : Bytes) (b : UInt8) (hv : ∀ a ∈ pre, iupac a.toNat ≠ []) (t : List Nat) :
    t ∈ readings (slideB k pre b) ↔ ∃ t' ∈ readings pre, ∃ c ∈ iupac b.toNat, t = slide k t' c := by
  unfold slideB
  split
  · rename_i hl
    rw [mem_readings_snoc]
    cases pre with
    | nil =>
      simp only [List.tail_nil]
      constructor
      · rintro ⟨t', ht', c, hc, rfl⟩
        refine ⟨t', ht', c, hc, ?_⟩
        simp [readings] at ht'; subst ht'
        simp [slide]
      · rintro ⟨t', ht', c, hc, rfl⟩
        refine ⟨t', ht', c, hc, ?_⟩
        simp [readings] at ht'; subst ht'
        simp [slide]
    | cons a p =>
      simp only [List.tail_cons]
      obtain ⟨a', ha'⟩ := List.exists_mem_of_ne_nil _ (hv a (by simp))
      constructor
      · rintro ⟨t', ht', c, hc, rfl⟩
        refine ⟨a' :: t', (mem_readings_cons a p _).mpr ⟨a', ha', t', ht', rfl⟩, c, hc, ?_⟩
        have := (readings_spec p t' ht').1
        rw [slide_length_eq c (by simp [this]; simpa using hl)]
        rfl
      · rintro ⟨t', ht', c, hc, rfl⟩
        obtain ⟨a'', _, t'', ht'', rfl⟩ := (mem_readings_cons a p _).mp ht'
        refine ⟨t'', ht'', c, hc, ?_⟩
        have := (readings_spec p t'' ht'').1
        rw [slide_length_eq c (by simp [this]; simpa using hl)]
        rfl
  · rename_i hl
    rw [mem_readings_snoc]
    constructor
    · rintro ⟨t', ht', c, hc, rfl⟩
      refine ⟨t', ht', c, hc, ?_⟩
      have := (readings_spec pre t' ht').1
      simp [slide, this, hl]
    · rintro ⟨t', ht', c, hc, rfl⟩
      refine ⟨t', ht', c, hc, ?_⟩
      have := (readings_spec pre t' ht').1
      simp [slide, this, hl]

/-! ## the loop of `Push` -/

theorem mem_pushStep (mask : Nat) (codes kmers : List Nat) (v : Nat) :
    v ∈ pushStep mask codes kmers ↔ ∃ key ∈ kmers, ∃ c ∈ codes, v = (((key * 4) % W64) &&& mask) ||| c := by
  simp only [pushStep, mem_sortDedup, List.mem_flatMap, List.mem_map]
  constructor
  · rintro ⟨key, hk, c, hc, rfl⟩; exact ⟨key, hk, c, hc, rfl⟩
  · rintro ⟨key, hk, c, hc, rfl⟩; exact ⟨key, hk, c, hc, rfl⟩

theorem pushStep_inv (k : Nat) (hk : 1 ≤ k) (h2 : 2 * k ≤ 64) (pre : Bytes) (b : UInt8) (kmers : List Nat)
    (hpl : pre.length ≤ k) (hv : ∀ a ∈ pre, iupac a.toNat ≠ [])
    (hi : ∀ v, v ∈ kmers ↔ v ∈ kmerReadings pre) (v : Nat) :
    v ∈ pushStep (2 ^ (2 * k) - 1) (iupac b.toNat) kmers ↔ v ∈ kmerReadings (slideB k pre b) := by
  have step : ∀ t ∈ readings pre, ∀ c ∈ iupac b.toNat,
      (((val t * 4) % W64) &&& (2 ^ (2 * k) - 1)) ||| c = val (slide k t c) := by
    intro t ht c hc
    obtain ⟨hl, hd⟩ := readings_spec pre t ht
    exact cur_step 64 k t c hk h2 hd (by omega) (iupac_lt b c hc)
  rw [mem_pushStep, mem_kmerReadings]
  constructor
  · rintro ⟨key, hkey, c, hc, rfl⟩
    obtain ⟨t, ht, rfl⟩ := (mem_kmerReadings pre key).mp ((hi key).mp hkey)
    exact ⟨slide k t c, (mem_readings_slideB k pre b hv _).mpr ⟨t, ht, c, hc, rfl⟩, (step t ht c hc).symm⟩
  · rintro ⟨t, ht, rfl⟩
    obtain ⟨t', ht', c, hc, rfl⟩ := (mem_readings_slideB k pre b hv _).mp ht
    exact ⟨val t', (hi _).mpr ((mem_kmerReadings pre _).mpr ⟨t', ht', rfl⟩), c, hc, (step t' ht' c hc).symm⟩

theorem pushStep_nil_kmers (mask : Nat) (codes : List Nat) : pushStep mask codes [] = [] := by
  simp [pushStep, sortDedup]

theorem pushStep_nil_codes (mask : Nat) (kmers : List Nat) : pushStep mask [] kmers = [] := by
  have : ∀ v, ¬ v ∈ pushStep mask [] kmers := by
    intro v hv
    obtain ⟨_, _, c, hc, _⟩ := (mem_pushStep mask [] kmers v).mp hv
    simp at hc
  exact List.eq_nil_iff_forall_not_mem.mpr this

/-- once no reading is left (a byte outside the table was met) nothing is added any more -/
theorem pushLoop_nil (k mask w : Nat) (bs : Bytes) : ∀ i nodes, pushLoop k mask w i [] nodes bs = nodes := by
  induction bs with
  | nil => intros; rfl
  | cons b bs ih =>
    intro i nodes
    simp only [pushLoop, pushStep_nil_kmers, List.foldl_nil, ite_self]
    exact ih _ _

theorem winCount_short (k x : Nat) (s : Bytes) (h : s.length < k) : winCount k x s = 0 := by
  simp [winCount, windowsAll_short k s h]

theorem windowsAll_full {α : Type} (k : Nat) (hk : 1 ≤ k) (t r : List α) (ht : t.length = k) :
    windowsAll k (t ++ r) = t :: windowsAll k (t.tail ++ r) := by
  cases t with
  | nil => simp at ht; omega
  | cons a p =>
    simp only [List.cons_append, windowsAll, List.tail_cons]
    rw [if_pos (by simp at ht ⊢; omega)]
    have : a :: (p ++ r) = (a :: p) ++ r := rfl
    rw [this, List.take_left' ht]

theorem validPrefix_cons_valid (b : UInt8) (bs : Bytes) (h : iupac b.toNat ≠ []) :
    validPrefix (b :: bs) = b :: validPrefix bs := by
  have : (!(iupac b.toNat).isEmpty) = true := by simpa using h
  simp only [validPrefix, List.takeWhile, this]

theorem validPrefix_cons_invalid (b : UInt8) (bs : Bytes) (h : iupac b.toNat = []) :
    validPrefix (b :: bs) = [] := by
  simp [validPrefix, List.takeWhile, h]

theorem slideB_length (k : Nat) (pre : Bytes) (b : UInt8) (hk : 1 ≤ k) (hl : pre.length ≤ k) :
    (slideB k pre b).length = min (pre.length + 1) k := by
  unfold slideB; split
  · simp; omega
  · simp; omega

theorem pushLoop_iupac (k : Nat) (hk : 1 ≤ k) (h2 : 2 * k ≤ 64) (w x : Nat) (bs : Bytes) :
    ∀ (i : Nat) (kmers : List Nat) (nodes : List (Nat × Nat)) (pre : Bytes),
      pre.length = min i k → (∀ a ∈ pre, iupac a.toNat ≠ []) → (∀ v, v ∈ kmers ↔ v ∈ kmerReadings pre) →
      weightOf (pushLoop k (2 ^ (2 * k) - 1) w i kmers nodes bs) x
        = weightOf nodes x + w * winCount k x (pre.drop (pre.length - (k - 1)) ++ validPrefix bs) := by
  induction bs with
  | nil =>
    intro i kmers nodes pre hl _ _
    rw [winCount_short _ _ _ (by simp [validPrefix]; omega)]
    simp [pushLoop]
  | cons b bs ih =>
    intro i kmers nodes pre hl hv hi
    by_cases hb : iupac b.toNat = []
    · rw [validPrefix_cons_invalid b bs hb, winCount_short _ _ _ (by simp; omega)]
      simp only [pushLoop, hb, pushStep_nil_codes, List.foldl_nil, ite_self, pushLoop_nil]
      simp
    · have hpl : pre.length ≤ k := by omega
      have hi' := pushStep_inv k hk h2 pre b kmers hpl hv hi
      have hnd : (pushStep (2 ^ (2 * k) - 1) (iupac b.toNat) kmers).Nodup := nodup_sortDedup _
      have hsl := slideB_length k pre b hk hpl
      have hl' : (slideB k pre b).length = min (i + 1) k := by omega
      have hv' : ∀ a ∈ slideB k pre b, iupac a.toNat ≠ [] := by
        intro a ha
        unfold slideB at ha
        rcases List.mem_append.mp ha with h | h
        · split at h
          · exact hv a (List.mem_of_mem_tail h)
          · exact hv a h
        · simp at h; subst h; exact hb
      rw [validPrefix_cons_valid b bs hb]
      simp only [pushLoop]
      rw [ih (i + 1) _ _ (slideB k pre b) hl' hv' hi']
      by_cases hA : k - 1 ≤ pre.length
      · have hpre' : slideB k pre b = pre.drop (pre.length - (k - 1)) ++ [b] := by
          unfold slideB
          by_cases he : pre.length = k
          · rw [if_pos he, he]
            have : k - (k - 1) = 1 := by omega
            rw [this, List.drop_one]
          · rw [if_neg he]
            have : pre.length - (k - 1) = 0 := by omega
            rw [this, List.drop_zero]
        have hfull : (slideB k pre b).length = k := by omega
        have e1 : pre.drop (pre.length - (k - 1)) ++ b :: validPrefix bs = slideB k pre b ++ validPrefix bs := by
          rw [hpre']; simp
        have e2 : (slideB k pre b).length - (k - 1) = 1 := by omega
        rw [if_pos (by omega), foldl_addWeight w x _ hnd, e1, e2, List.drop_one]
        unfold winCount
        rw [windowsAll_full k hk _ _ hfull, List.countP_cons]
        by_cases hx : x ∈ pushStep (2 ^ (2 * k) - 1) (iupac b.toNat) kmers
        · have : (kmerReadings (slideB k pre b)).contains x = true := by
            rw [List.contains_iff_mem]; exact (hi' x).mp hx
          rw [if_pos hx, if_pos this, Nat.mul_add]; omega
        · have : ¬ (kmerReadings (slideB k pre b)).contains x = true := by
            rw [List.contains_iff_mem]; exact fun h => hx ((hi' x).mpr h)
          rw [if_neg hx, if_neg this, Nat.add_zero, Nat.add_zero]
      · have hpre' : slideB k pre b = pre ++ [b] := by
          unfold slideB; rw [if_neg (by omega)]
        have h1 : pre.length - (k - 1) = 0 := by omega
        have h2' : (pre ++ [b]).length - (k - 1) = 0 := by simp; omega
        rw [if_neg (by omega), hpre', h1, h2']
        simp

theorem validPrefix_length_le (s : Bytes) : (validPrefix s).length ≤ s.length := by
  induction s with
  | nil => simp [validPrefix]
  | cons b s ih =>
    by_cases hb : iupac b.toNat = []
    · rw [validPrefix_cons_invalid b s hb]; simp
    · rw [validPrefix_cons_valid b s hb]; simp; exact ih

/-- `Push` of any read (ambiguity codes included): the weight of every word `x` grows by the count of the read
times the number of windows of `k` bytes (of the part of the read before the first byte outside the IUPAC
table) one of whose readings is `x` -/
theorem push_iupac (g : Graph) (hk : 1 ≤ g.k) (h2 : 2 * g.k ≤ 64) (hm : g.mask = 2 ^ (2 * g.k) - 1)
    (s : Bytes) (w x : Nat) :
    (g.push s w).weight x = g.weight x + w * winCount g.k x (validPrefix s) := by
  unfold Graph.push
  split
  · rename_i hs
    rw [winCount_short _ _ _ (by have := validPrefix_length_le s; omega)]; simp
  · simp only [Graph.weight, hm]
    have := pushLoop_iupac g.k hk h2 w x s 0 [0] g.nodes [] (by simp) (by intro a ha; simp at ha)
      (by intro v; simp [kmerReadings, readings, val])
    simpa using this

/-- the full weight theorem: after pushing any list of reads in a fresh graph the weight of every word is the
sum over the reads of count × number of windows one of whose IUPAC readings is the word -/
theorem pushes_weight (k : Nat) (hk : 1 ≤ k) (h2 : 2 * k ≤ 64) (reads : List (Bytes × Nat)) (x : Nat) :
    (reads.foldl (fun g r => g.push r.1 r.2) (makeGraph k)).weight x
      = (reads.map fun r => r.2 * winCount k x (validPrefix r.1)).sum := by
  have gen : ∀ (reads : List (Bytes × Nat)) (g : Graph), g.k = k → g.mask = 2 ^ (2 * k) - 1 →
      (reads.foldl (fun g r => g.push r.1 r.2) g).weight x
        = g.weight x + (reads.map fun r => r.2 * winCount k x (validPrefix r.1)).sum := by
    intro reads
    induction reads with
    | nil => intros; simp
    | cons r rs ih =>
      intro g hgk hgm
      have h1 := push_iupac g (by omega) (by omega) (by rw [hgk]; exact hgm) r.1 r.2 x
      have hk' := push_k g r.1 r.2
      rw [List.foldl_cons, ih (g.push r.1 r.2) (by rw [hk'.1, hgk]) (by rw [hk'.2, hgm]), h1, hgk]
      simp [Nat.add_assoc]
  have := gen reads (makeGraph k) rfl (makeGraph_mask k h2)
  rw [this]
  simp [Graph.weight, weightOf, makeGraph]

/-- on a read made of IUPAC codes only (the contract) every window counts -/
theorem validPrefix_of_iupac (s : Bytes) (h : ∀ b ∈ s, iupac b.toNat ≠ []) : validPrefix s = s := by
  induction s with
  | nil => simp [validPrefix]
  | cons b s ih =>
    rw [validPrefix_cons_valid b s (h b (by simp)), ih (fun b hb => h b (by simp [hb]))]

/-- non-vacuity: the read "ancg" (k = 3, count 2): the window "anc" reads aac, acc, agc, atc = 1, 5, 9, 13 and
the window "ncg" reads acg, ccg, gcg, tcg = 6, 22, 38, 54 -/
example : validPrefix [97, 110, 99, 103] = [97, 110, 99, 103] ∧
    winCount 3 5 (validPrefix [97, 110, 99, 103]) = 1 ∧ winCount 3 38 (validPrefix [97, 110, 99, 103]) = 1 ∧
    winCount 3 7 (validPrefix [97, 110, 99, 103]) = 0 ∧
    ((makeGraph 3).push [97, 110, 99, 103] 2).weight 5 = 2 ∧
    ((makeGraph 3).push [97, 110, 99, 103] 2).weight 38 = 2 ∧
    ((makeGraph 3).push [97, 110, 99, 103] 2).weight 7 = 0 := by decide

/-- non-vacuity: a byte outside the table ('x' = 120) stops the enumeration: "acgxacg" only counts "acg" once -/
example : validPrefix [97, 99, 103, 120, 97, 99, 103] = [97, 99, 103] ∧
    winCount 3 6 (validPrefix [97, 99, 103, 120, 97, 99, 103]) = 1 ∧
    ((makeGraph 3).push [97, 99, 103, 120, 97, 99, 103] 1).weight 6 = 1 := by decide

/-! ## well-formedness is preserved by `Push` -/

theorem keys_addWeight (n : List (Nat × Nat)) (x w y : Nat) (h : y ∈ (addWeight n x w).map Prod.fst) :
    y = x ∨ y ∈ n.map Prod.fst := by
  induction n with
  | nil => simp [addWeight] at h; exact Or.inl h
  | cons p t ih =>
    obtain ⟨z, v⟩ := p
    simp only [addWeight] at h
    split at h
    · right; simpa using h
    · simp only [List.map_cons, List.mem_cons] at h ⊢
      rcases h with h | h
      · exact Or.inr (Or.inl h)
      · rcases ih h with h | h
        · exact Or.inl h
        · exact Or.inr (Or.inr h)

theorem keys_foldl_addWeight (B w : Nat) (kmers : List Nat) (hkm : ∀ v ∈ kmers, v < B) :
    ∀ nodes : List (Nat × Nat), (∀ y ∈ nodes.map Prod.fst, y < B) →
      ∀ y ∈ (kmers.foldl (fun n key => addWeight n key w) nodes).map Prod.fst, y < B := by
  induction kmers with
  | nil => intro nodes hn; simpa using hn
  | cons a t ih =>
    intro nodes hn
    rw [List.foldl_cons]
    apply ih (fun v hv => hkm v (by simp [hv]))
    intro y hy
    rcases keys_addWeight nodes a w y hy with rfl | h
    · exact hkm _ (by simp)
    · exact hn y h

theorem pushStep_lt (k : Nat) (hk : 1 ≤ k) (codes kmers : List Nat) (hc : ∀ c ∈ codes, c < 4) :
    ∀ v ∈ pushStep (4 ^ k - 1) codes kmers, v < 4 ^ k := by
  intro v hv
  obtain ⟨key, _, c, hcm, rfl⟩ := (mem_pushStep _ _ _ v).mp hv
  rw [← four_pow, Nat.and_two_pow_sub_one_eq_mod]
  apply Nat.or_lt_two_pow
  · exact Nat.mod_lt _ (Nat.two_pow_pos _)
  · have h4 : c < 4 := hc c hcm
    have : (2:Nat) ^ 2 ≤ 2 ^ (2 * k) := Nat.pow_le_pow_right (by decide) (by omega)
    omega

theorem pushLoop_lt (k : Nat) (hk : 1 ≤ k) (w : Nat) (bs : Bytes) :
    ∀ (i : Nat) (kmers : List Nat) (nodes : List (Nat × Nat)), (∀ y ∈ nodes.map Prod.fst, y < 4 ^ k) →
      ∀ y ∈ (pushLoop k (4 ^ k - 1) w i kmers nodes bs).map Prod.fst, y < 4 ^ k := by
  induction bs with
  | nil => intro i kmers nodes hn; simpa [pushLoop] using hn
  | cons b bs ih =>
    intro i kmers nodes hn
    simp only [pushLoop]
    apply ih
    have hlt := pushStep_lt k hk (iupac b.toNat) kmers (fun c hc => iupac_lt b c hc)
    split
    · exact keys_foldl_addWeight _ w _ hlt nodes hn
    · exact hn

theorem makeGraph_wf (k : Nat) (hk : 1 ≤ k) (h2 : k ≤ 32) : (makeGraph k).WF := by
  have e : (2:Nat) ^ ((k - 1) * 2) = 4 ^ (k - 1) := by rw [Nat.mul_comm, four_pow]
  refine ⟨hk, h2, ?_, ?_, ?_, ?_, ?_⟩
  · rw [makeGraph_mask k (by omega), four_pow]; rfl
  · show shl 64 1 ((k - 1) * 2) = 4 ^ (k - 1)
    rw [shl_small 64 1 _ 1 (by decide) (by omega), e, Nat.one_mul]
  · show shl 64 2 ((k - 1) * 2) = 2 * 4 ^ (k - 1)
    rw [shl_small 64 2 _ 2 (by decide) (by omega), e]
  · show shl 64 3 ((k - 1) * 2) = 3 * 4 ^ (k - 1)
    rw [shl_small 64 3 _ 2 (by decide) (by omega), e]
  · intro x hx; simp [Graph.keys, makeGraph] at hx

theorem push_wf (g : Graph) (h : g.WF) (s : Bytes) (w : Nat) : (g.push s w).WF := by
  unfold Graph.push
  split
  · exact h
  · refine ⟨h.kpos, h.k32, h.mask, h.prevc, h.prevg, h.prevt, ?_⟩
    show ∀ x ∈ (pushLoop g.k g.mask w 0 [0] g.nodes s).map Prod.fst, x < 4 ^ g.k
    rw [h.mask]
    exact pushLoop_lt g.k h.kpos w s 0 [0] g.nodes h.bound

theorem wf_pushes (k : Nat) (hk : 1 ≤ k) (h2 : k ≤ 32) (reads : List (Bytes × Nat)) :
    (reads.foldl (fun g r => g.push r.1 r.2) (makeGraph k)).WF := by
  have gen : ∀ (reads : List (Bytes × Nat)) (g : Graph), g.WF →
      (reads.foldl (fun g r => g.push r.1 r.2) g).WF := by
    intro reads
    induction reads with
    | nil => intro g hg; exact hg
    | cons r rs ih => intro g hg; exact ih _ (push_wf g hg r.1 r.2)
  exact gen reads _ (makeGraph_wf k hk h2)




/-! ## association lists, the queue -/

theorem lookup_setKV (m : List (Nat × Nat)) (x v y : Nat) :
    (setKV m x v).lookup y = if y = x then some v else m.lookup y := by
  induction m with
  | nil =>
    by_cases h : y = x
    · subst h; simp [setKV]
    · have : (y == x) = false := by simpa using h
      simp [setKV, List.lookup, h, this]
  | cons p t ih =>
    obtain ⟨z, u⟩ := p
    simp only [setKV]
    by_cases hz : z = x
    · subst hz
      by_cases h : y = z
      · subst h; simp
      · have : (y == z) = false := by simpa using h
        simp [List.lookup, h, this]
    · simp only [hz, if_false]
      by_cases h : y = z
      · subst h
        have : ¬ y = x := hz
        simp [List.lookup, this]
      · have h' : (y == z) = false := by simpa using h
        simp only [List.lookup, h']
        exact ih

theorem getD0_setKV (m : List (Nat × Nat)) (x v y : Nat) :
    getD0 (setKV m x v) y = if y = x then v else getD0 m y := by
  unfold getD0; rw [lookup_setKV]; split <;> rfl

theorem has_setKV (m : List (Nat × Nat)) (x v y : Nat) :
    has (setKV m x v) y = true ↔ y = x ∨ has m y = true := by
  unfold has; rw [lookup_setKV]
  by_cases h : y = x <;> simp [h]

theorem getD0_of_not_has (m : List (Nat × Nat)) (x : Nat) (h : has m x = false) : getD0 m x = 0 := by
  unfold has at h; unfold getD0
  cases hl : m.lookup x with
  | none => rfl
  | some v => rw [hl] at h; simp at h

theorem mem_qPush (x y : Nat) (q : List Nat) : y ∈ qPush x q ↔ y = x ∨ y ∈ q := by
  induction q with
  | nil => simp [qPush]
  | cons a t ih =>
    simp only [qPush]
    split
    · simp
    · simp only [List.mem_cons, ih]
      constructor
      · rintro (h | h | h) <;> simp [h]
      · rintro (h | h | h) <;> simp [h]

theorem length_qPush (x : Nat) (q : List Nat) : (qPush x q).length = q.length + 1 := by
  induction q with
  | nil => rfl
  | cons a t ih =>
    simp only [qPush]
    split
    · simp
    · simp [ih]

/-! ## walks -/

theorem Graph.Walk.append {g : Graph} : ∀ (a b : List Nat), g.Walk (a ++ b) → g.Walk a ∧ g.Walk b := by
  intro a
  induction a with
  | nil => intro b h; exact ⟨trivial, h⟩
  | cons x a ih =>
    intro b h
    cases a with
    | nil =>
      cases b with
      | nil => exact ⟨h, trivial⟩
      | cons y t => exact ⟨h.1.left, h.2⟩
    | cons y a =>
      have := ih b h.2
      exact ⟨⟨h.1, this.1⟩, this.2⟩

theorem Graph.Walk.tail {g : Graph} {x : Nat} {t : List Nat} (h : g.Walk (x :: t)) : g.Walk t :=
  (Graph.Walk.append [x] t h).2

theorem Graph.Walk.mem {g : Graph} : ∀ (p : List Nat), g.Walk p → ∀ x ∈ p, x ∈ g.keys := by
  intro p
  induction p with
  | nil => intro _ x hx; simp at hx
  | cons a t ih =>
    intro h x hx
    rcases List.mem_cons.mp hx with rfl | hx
    · cases t with
      | nil => exact h
      | cons y t => exact h.1.left
    · exact ih h.tail x hx

theorem Graph.Walk.snoc {g : Graph} : ∀ (p : List Nat) (x y : Nat), g.Walk (p ++ [x]) → g.Edge x y →
    g.Walk (p ++ [x] ++ [y]) := by
  intro p
  induction p with
  | nil => intro x y _ e; exact ⟨e, e.right⟩
  | cons a p ih =>
    intro x y h e
    cases p with
    | nil => exact ⟨h.1, e, e.right⟩
    | cons b p => exact ⟨h.1, ih x y h.2 e⟩

/-- in a graph without cycle a walk never meets a node twice -/
theorem Graph.Walk.nodup {g : Graph} (hc : ¬ g.Cyclic) : ∀ (p : List Nat), g.Walk p → p.Nodup := by
  intro p
  induction p with
  | nil => intro _; exact List.nodup_nil
  | cons x t ih =>
    intro h
    rw [List.nodup_cons]
    refine ⟨?_, ih h.tail⟩
    intro hx
    obtain ⟨a, b, rfl⟩ := List.append_of_mem hx
    apply hc
    refine ⟨x, a, ?_⟩
    have : x :: (a ++ x :: b) = (x :: (a ++ [x])) ++ b := by simp
    rw [this] at h
    exact (Graph.Walk.append _ _ h).1

theorem Graph.no_loop {g : Graph} (hc : ¬ g.Cyclic) (x : Nat) : ¬ g.Edge x x :=
  fun e => hc ⟨x, [], e, e.right⟩

/-- sum of all the weights -/
def Graph.totalWeight (g : Graph) : Nat := (g.nodes.map Prod.snd).sum

theorem sum_lookup_nodup (m : List (Nat × Nat)) : ∀ (p : List Nat), p.Nodup →
    (p.map (getD0 m)).sum ≤ (m.map Prod.snd).sum := by
  induction m with
  | nil =>
    intro p _
    have : ∀ x ∈ p, getD0 [] x = 0 := fun x _ => rfl
    rw [List.map_congr_left this]
    clear this
    induction p with
    | nil => simp
    | cons a p ih =>
      rename_i hp
      have := ih (List.nodup_cons.mp hp).2
      simpa using this
  | cons e m ih =>
    obtain ⟨y, v⟩ := e
    intro p hp
    have key : ∀ (p : List Nat), p.Nodup → (p.map (getD0 ((y, v) :: m))).sum
        ≤ (if y ∈ p then v else 0) + ((p.erase y).map (getD0 m)).sum := by
      intro p
      induction p with
      | nil => simp
      | cons a p ih2 =>
        intro hp
        rw [List.nodup_cons] at hp
        by_cases ha : a = y
        · subst ha
          have h1 : getD0 ((a, v) :: m) a = v := by simp [getD0, List.lookup]
          have h2 : ∀ b ∈ p, getD0 ((a, v) :: m) b = getD0 m b := by
            intro b hb
            have : (b == a) = false := by simp; intro e; exact hp.1 (e ▸ hb)
            simp [getD0, List.lookup, this]
          simp only [List.map_cons, List.sum_cons, h1, List.mem_cons, true_or, if_true, List.erase_cons_head]
          rw [List.map_congr_left h2]; omega
        · have h1 : getD0 ((y, v) :: m) a = getD0 m a := by
            have : (a == y) = false := by simpa using ha
            simp [getD0, List.lookup, this]
          have h3 : (a :: p).erase y = a :: p.erase y := by
            rw [List.erase_cons_tail]; simpa using ha
          have := ih2 hp.2
          have h4 : (y ∈ a :: p) ↔ y ∈ p := by simp [Ne.symm ha]
          simp only [List.map_cons, List.sum_cons, h1, h3, h4]
          omega
    have h1 := key p hp
    have h2 := ih (p.erase y) (hp.erase y)
    simp only [List.map_cons, List.sum_cons]
    split at h1 <;> omega

/-- in a graph without cycle the weight of a walk is at most the sum of all the weights -/
theorem Graph.Walk.weight_le {g : Graph} (hc : ¬ g.Cyclic) (p : List Nat) (h : g.Walk p) :
    g.pathWeight p ≤ g.totalWeight :=
  sum_lookup_nodup g.nodes p (h.nodup hc)

/-- pigeonhole -/
theorem nodup_length_le : ∀ (l p : List Nat), p.Nodup → (∀ x ∈ p, x ∈ l) → p.length ≤ l.length := by
  intro l
  induction l with
  | nil =>
    intro p _ h
    cases p with
    | nil => simp
    | cons a p => exact absurd (h a (by simp)) (by simp)
  | cons a l ih =>
    intro p hp h
    have h1 := ih (p.erase a) (hp.erase a) (by
      intro x hx
      rw [hp.mem_erase_iff] at hx
      rcases List.mem_cons.mp (h x hx.2) with e | e
      · exact absurd e hx.1
      · exact e)
    by_cases ha : a ∈ p
    · rw [List.length_erase_of_mem ha] at h1
      simp only [List.length_cons]; omega
    · rw [List.erase_of_not_mem ha] at h1
      simp only [List.length_cons]; omega

theorem Graph.Walk.length_le {g : Graph} (hc : ¬ g.Cyclic) (p : List Nat) (h : g.Walk p) :
    p.length ≤ g.nodes.length := by
  have := nodup_length_le g.keys p (h.nodup hc) (h.mem p)
  simpa [Graph.keys] using this


/-! ## positive weights -/


/-- every node of the map has a positive weight -/
def PosNodes (nodes : List (Nat × Nat)) : Prop := ∀ x ∈ nodes.map Prod.fst, 0 < weightOf nodes x

theorem posNodes_addWeight (n : List (Nat × Nat)) (x w : Nat) (hw : 1 ≤ w) (h : PosNodes n) :
    PosNodes (addWeight n x w) := by
  intro y hy
  rw [weightOf_addWeight]
  rcases keys_addWeight n x w y hy with rfl | hy
  · simp; omega
  · have := h y hy; omega

theorem posNodes_foldl (w : Nat) (hw : 1 ≤ w) (kmers : List Nat) :
    ∀ nodes, PosNodes nodes → PosNodes (kmers.foldl (fun n key => addWeight n key w) nodes) := by
  induction kmers with
  | nil => intro nodes h; exact h
  | cons a t ih => intro nodes h; exact ih _ (posNodes_addWeight nodes a w hw h)

theorem posNodes_pushLoop (k mask w : Nat) (hw : 1 ≤ w) (bs : Bytes) :
    ∀ i kmers nodes, PosNodes nodes → PosNodes (pushLoop k mask w i kmers nodes bs) := by
  induction bs with
  | nil => intro i kmers nodes h; exact h
  | cons b bs ih =>
    intro i kmers nodes h
    simp only [pushLoop]
    apply ih
    split
    · exact posNodes_foldl w hw _ nodes h
    · exact h

/-- `Push` of a read of positive count keeps every weight of the map positive -/
theorem push_pos (g : Graph) (s : Bytes) (w : Nat) (hw : 1 ≤ w) (h : ∀ x ∈ g.keys, 0 < g.weight x) :
    ∀ x ∈ (g.push s w).keys, 0 < (g.push s w).weight x := by
  unfold Graph.push
  split
  · exact h
  · exact posNodes_pushLoop g.k g.mask w hw s 0 [0] g.nodes h

/-- every node of a graph built by `MakeDeBruijnGraph` and `Push` of reads of positive counts has a positive
weight -/
theorem pushes_pos (k : Nat) (reads : List (Bytes × Nat)) (hc : ∀ r ∈ reads, 1 ≤ r.2) :
    ∀ x ∈ (reads.foldl (fun g r => g.push r.1 r.2) (makeGraph k)).keys,
      0 < (reads.foldl (fun g r => g.push r.1 r.2) (makeGraph k)).weight x := by
  have gen : ∀ (reads : List (Bytes × Nat)) (g : Graph), (∀ r ∈ reads, 1 ≤ r.2) →
      (∀ x ∈ g.keys, 0 < g.weight x) →
      ∀ x ∈ (reads.foldl (fun g r => g.push r.1 r.2) g).keys,
        0 < (reads.foldl (fun g r => g.push r.1 r.2) g).weight x := by
    intro reads
    induction reads with
    | nil => intro g _ hg; exact hg
    | cons r rs ih =>
      intro g hc hg
      exact ih _ (fun r' hr' => hc r' (by simp [hr'])) (push_pos g r.1 r.2 (hc r (by simp)) hg)
  exact gen reads _ hc (by intro x hx; simp [Graph.keys, makeGraph] at hx)

/-- non-vacuity: the hypothesis holds of a real graph and the conclusion is not empty -/
example : ((makeGraph 3).push [97, 110, 99, 103] 2).keys = [1, 5, 9, 13, 6, 22, 38, 54] ∧
    ((makeGraph 3).push [97, 110, 99, 103] 2).weight 5 = 2 := by decide




/-! ## invariant of the label-correcting loop of `HaviestPath` -/

/-- Invariant of the loop.  `E x y` says which edges out of a visited node must already be relaxed
(all of them between two iterations; those treated so far during the inner loop). -/
structure HPInv (g : Graph) (E : Nat → Nat → Prop) (h : HP) : Prop where
  keys : ∀ x, has h.dist x = true → x ∈ g.keys
  heads : ∀ x ∈ g.heads, has h.dist x = true ∧ getD0 h.dist x = g.weight x
  prev : ∀ x, has h.dist x = true → x ∉ g.heads →
    g.Edge (getD0 h.prev x) x ∧ has h.dist (getD0 h.prev x) = true ∧
      getD0 h.dist x ≤ g.weight x + getD0 h.dist (getD0 h.prev x)
  prev0 : ∀ x, has h.dist x = false → getD0 h.prev x = 0
  pending : ∀ x, has h.dist x = true → getD0 h.visited x ≠ 1 → x ∈ h.queue
  queued : ∀ x ∈ h.queue, has h.dist x = true
  relaxed : ∀ x y, has h.dist x = true → getD0 h.visited x = 1 → g.Edge x y → E x y →
    g.weight y + getD0 h.dist x ≤ getD0 h.dist y
  maxw : ∀ x, has h.dist x = true → getD0 h.visited x = 1 → getD0 h.dist x ≤ h.hWeight
  hnode : getD0 h.dist h.hNode = h.hWeight
  hlab : has h.dist h.hNode = true ∨ h.hNode = 0
  /-- every label is the weight of a walk ending at the node -/
  real : ∀ x, has h.dist x = true → ∃ p, g.Walk (p ++ [x]) ∧ g.pathWeight (p ++ [x]) = getD0 h.dist x

theorem HPInv.weaken {g : Graph} {E E' : Nat → Nat → Prop} {h : HP} (hi : HPInv g E h)
    (hE : ∀ x y, g.Edge x y → E' x y → E x y) : HPInv g E' h :=
  { hi with relaxed := fun x y a b c d => hi.relaxed x y a b c (hE x y c d) }

/-- the potential that bounds the number of iterations left -/
def phi (g : Graph) (d : List (Nat × Nat)) : Nat := (g.keys.map fun x => g.totalWeight - getD0 d x).sum

theorem sum_map_succ_le (f f' : Nat → Nat) (a : Nat) (hle : ∀ x, f' x ≤ f x) (ha : f' a + 1 ≤ f a) :
    ∀ l : List Nat, a ∈ l → (l.map f').sum + 1 ≤ (l.map f).sum := by
  have hmono : ∀ l : List Nat, (l.map f').sum ≤ (l.map f).sum := by
    intro l
    induction l with
    | nil => simp
    | cons b l ih => have := hle b; simp only [List.map_cons, List.sum_cons]; omega
  intro l
  induction l with
  | nil => intro h; simp at h
  | cons b l ih =>
    intro h
    simp only [List.map_cons, List.sum_cons]
    rcases List.mem_cons.mp h with rfl | h
    · have := hmono l; omega
    · have := ih h; have := hle b; omega

theorem pathWeight_snoc (g : Graph) (p : List Nat) (x : Nat) : g.pathWeight (p ++ [x]) = g.pathWeight p + g.weight x := by
  simp [Graph.pathWeight, List.sum_append]

theorem pathWeight_cons (g : Graph) (x : Nat) (p : List Nat) : g.pathWeight (x :: p) = g.weight x + g.pathWeight p := by
  simp [Graph.pathWeight]

/-- one iteration of the inner loop -/
def relax1 (g : Graph) (cur nx : Nat) (h : HP) : HP :=
  let w := g.weight nx + getD0 h.dist cur
  if getD0 h.dist nx < w then
    let h : HP := { h with dist := setKV h.dist nx w, prev := setKV h.prev nx cur,
                           visited := setKV h.visited nx 0, queue := qPush nx h.queue }
    if w > h.hWeight then { h with hWeight := w, hNode := nx } else h
  else h

theorem relax_cons (g : Graph) (cur nx : Nat) (t : List Nat) (h : HP) :
    relax g cur (nx :: t) h = relax g cur t (relax1 g cur nx h) := by
  simp only [relax, relax1]
  split <;> rfl

/-- the standing hypotheses on the graph -/
structure HPHyp (g : Graph) : Prop where
  src : ∀ x ∈ g.heads, ∀ y, ¬ g.Edge y x
  acyc : ¬ g.Cyclic

theorem relax_upd_inv (g : Graph) (hy : HPHyp g) (cur nx : Nat) (D : Nat → Prop) (h : HP)
    (hi : HPInv g (fun x y => x ≠ cur ∨ D y) h) (hcl : has h.dist cur = true)
    (e : g.Edge cur nx) (hlt : getD0 h.dist nx < g.weight nx + getD0 h.dist cur)
    (hn' hw' : Nat) (h1 : h.hWeight ≤ hw')
    (h3 : getD0 (setKV h.dist nx (g.weight nx + getD0 h.dist cur)) hn' = hw')
    (h4 : has (setKV h.dist nx (g.weight nx + getD0 h.dist cur)) hn' = true ∨ hn' = 0) :
    HPInv g (fun x y => x ≠ cur ∨ (y = nx ∨ D y))
      ⟨setKV h.dist nx (g.weight nx + getD0 h.dist cur), setKV h.visited nx 0, setKV h.prev nx cur,
        qPush nx h.queue, hn', hw'⟩ := by
  have hne : cur ≠ nx := fun e' => g.no_loop hy.acyc cur (e' ▸ e)
  have mono : ∀ y, getD0 h.dist y ≤ getD0 (setKV h.dist nx (g.weight nx + getD0 h.dist cur)) y := by
    intro y; rw [getD0_setKV]; split
    · rename_i hh; subst hh; omega
    · omega
  refine ⟨?_, ?_, ?_, ?_, ?_, ?_, ?_, ?_, h3, h4, ?_⟩
  · intro x hx
    rcases (has_setKV _ _ _ _).mp hx with rfl | hx
    · exact e.right
    · exact hi.keys x hx
  · intro x hx
    have hxn : x ≠ nx := fun e' => hy.src x hx cur (e' ▸ e)
    have := hi.heads x hx
    refine ⟨(has_setKV _ _ _ _).mpr (Or.inr this.1), ?_⟩
    show getD0 (setKV _ _ _) x = _
    rw [getD0_setKV, if_neg hxn]; exact this.2
  · intro x hx hxh
    show g.Edge (getD0 (setKV _ _ _) x) x ∧ has (setKV _ _ _) (getD0 (setKV _ _ _) x) = true ∧
      getD0 (setKV _ _ _) x ≤ g.weight x + getD0 (setKV _ _ _) (getD0 (setKV _ _ _) x)
    by_cases hxn : x = nx
    · subst hxn
      simp only [getD0_setKV, if_true, if_neg hne]
      exact ⟨e, (has_setKV _ _ _ _).mpr (Or.inr hcl), Nat.le_refl _⟩
    · have hx' : has h.dist x = true := by
        rcases (has_setKV _ _ _ _).mp hx with e' | hx
        · exact absurd e' hxn
        · exact hx
      obtain ⟨a1, a2, a3⟩ := hi.prev x hx' hxh
      rw [getD0_setKV h.prev, if_neg hxn, getD0_setKV h.dist _ _ x, if_neg hxn]
      refine ⟨a1, (has_setKV _ _ _ _).mpr (Or.inr a2), ?_⟩
      have := mono (getD0 h.prev x)
      omega
  · intro x hx
    have hxn : x ≠ nx := by
      intro e'; subst e'
      have : has (setKV h.dist x (g.weight x + getD0 h.dist cur)) x = true := (has_setKV _ _ _ _).mpr (Or.inl rfl)
      simp only at hx
      rw [this] at hx; exact absurd hx (by simp)
    have hx' : has h.dist x = false := by
      cases hh : has h.dist x with
      | false => rfl
      | true =>
        have : has (setKV h.dist nx (g.weight nx + getD0 h.dist cur)) x = true := (has_setKV _ _ _ _).mpr (Or.inr hh)
        simp only at hx
        rw [this] at hx; exact absurd hx (by simp)
    show getD0 (setKV _ _ _) x = 0
    rw [getD0_setKV, if_neg hxn]; exact hi.prev0 x hx'
  · intro x hx hv
    show x ∈ qPush nx h.queue
    rw [mem_qPush]
    by_cases hxn : x = nx
    · exact Or.inl hxn
    · right
      have hx' : has h.dist x = true := by
        rcases (has_setKV _ _ _ _).mp hx with e' | hx
        · exact absurd e' hxn
        · exact hx
      apply hi.pending x hx'
      simp only [getD0_setKV, if_neg hxn] at hv
      exact hv
  · intro x hx
    rcases (mem_qPush _ _ _).mp hx with rfl | hx
    · exact (has_setKV _ _ _ _).mpr (Or.inl rfl)
    · exact (has_setKV _ _ _ _).mpr (Or.inr (hi.queued x hx))
  · intro x y hx hv exy hE
    have hxn : x ≠ nx := by
      intro e'; subst e'
      simp [getD0_setKV] at hv
    have hx' : has h.dist x = true := by
      rcases (has_setKV _ _ _ _).mp hx with e' | hx
      · exact absurd e' hxn
      · exact hx
    have hv' : getD0 h.visited x = 1 := by
      simp only [getD0_setKV, if_neg hxn] at hv; exact hv
    show g.weight y + getD0 (setKV _ _ _) x ≤ getD0 (setKV _ _ _) y
    rw [getD0_setKV h.dist _ _ x, if_neg hxn]
    have old : (x ≠ cur ∨ D y) →
        g.weight y + getD0 h.dist x ≤ getD0 (setKV h.dist nx (g.weight nx + getD0 h.dist cur)) y := by
      intro hE'
      exact Nat.le_trans (hi.relaxed x y hx' hv' exy hE') (mono y)
    rcases hE with hE | hE | hE
    · exact old (Or.inl hE)
    · by_cases hxc : x = cur
      · subst hxc; subst hE
        rw [getD0_setKV, if_pos rfl]; exact Nat.le_refl _
      · exact old (Or.inl hxc)
    · exact old (Or.inr hE)
  · intro x hx hv
    have hxn : x ≠ nx := by
      intro e'; subst e'
      simp [getD0_setKV] at hv
    have hx' : has h.dist x = true := by
      rcases (has_setKV _ _ _ _).mp hx with e' | hx
      · exact absurd e' hxn
      · exact hx
    have hv' : getD0 h.visited x = 1 := by
      simp only [getD0_setKV, if_neg hxn] at hv; exact hv
    show getD0 (setKV _ _ _) x ≤ hw'
    rw [getD0_setKV, if_neg hxn]
    exact Nat.le_trans (hi.maxw x hx' hv') h1
  · intro x hx
    show ∃ p, g.Walk (p ++ [x]) ∧ g.pathWeight (p ++ [x]) = getD0 (setKV _ _ _) x
    by_cases hxn : x = nx
    · subst hxn
      obtain ⟨p, hp1, hp2⟩ := hi.real cur hcl
      refine ⟨p ++ [cur], Graph.Walk.snoc p cur x hp1 e, ?_⟩
      rw [pathWeight_snoc, hp2, getD0_setKV, if_pos rfl]; omega
    · have hx' : has h.dist x = true := by
        rcases (has_setKV _ _ _ _).mp hx with e' | hx
        · exact absurd e' hxn
        · exact hx
      obtain ⟨p, hp1, hp2⟩ := hi.real x hx'
      exact ⟨p, hp1, by rw [getD0_setKV, if_neg hxn]; exact hp2⟩

theorem HPInv.dist_le {g : Graph} {E : Nat → Nat → Prop} {h : HP} (hi : HPInv g E h) (hc : ¬ g.Cyclic) (x : Nat) :
    getD0 h.dist x ≤ g.totalWeight := by
  cases hh : has h.dist x with
  | false => rw [getD0_of_not_has _ _ hh]; omega
  | true =>
    obtain ⟨p, hp1, hp2⟩ := hi.real x hh
    rw [← hp2]; exact hp1.weight_le hc

theorem relax1_inv (g : Graph) (hy : HPHyp g) (cur nx : Nat) (D : Nat → Prop) (h : HP)
    (hi : HPInv g (fun x y => x ≠ cur ∨ D y) h) (hcl : has h.dist cur = true) (hcv : getD0 h.visited cur = 1)
    (e : g.Edge cur nx) :
    HPInv g (fun x y => x ≠ cur ∨ (y = nx ∨ D y)) (relax1 g cur nx h) ∧
    has (relax1 g cur nx h).dist cur = true ∧ getD0 (relax1 g cur nx h).visited cur = 1 ∧
    phi g (relax1 g cur nx h).dist + (relax1 g cur nx h).queue.length ≤ phi g h.dist + h.queue.length := by
  have hne : cur ≠ nx := fun e' => g.no_loop hy.acyc cur (e' ▸ e)
  unfold relax1
  simp only []
  by_cases hlt : getD0 h.dist nx < g.weight nx + getD0 h.dist cur
  · rw [if_pos hlt]
    have hcl' : has (setKV h.dist nx (g.weight nx + getD0 h.dist cur)) cur = true :=
      (has_setKV _ _ _ _).mpr (Or.inr hcl)
    have hcv' : getD0 (setKV h.visited nx 0) cur = 1 := by rw [getD0_setKV, if_neg hne]; exact hcv
    have hnx' : has (setKV h.dist nx (g.weight nx + getD0 h.dist cur)) nx = true :=
      (has_setKV _ _ _ _).mpr (Or.inl rfl)
    have inv : ∀ hn' hw', h.hWeight ≤ hw' →
        getD0 (setKV h.dist nx (g.weight nx + getD0 h.dist cur)) hn' = hw' →
        (has (setKV h.dist nx (g.weight nx + getD0 h.dist cur)) hn' = true ∨ hn' = 0) → _ :=
      relax_upd_inv g hy cur nx D h hi hcl e hlt
    have hphi : ∀ hn' hw', HPInv g (fun x y => x ≠ cur ∨ (y = nx ∨ D y))
        ⟨setKV h.dist nx (g.weight nx + getD0 h.dist cur), setKV h.visited nx 0, setKV h.prev nx cur,
          qPush nx h.queue, hn', hw'⟩ →
        phi g (setKV h.dist nx (g.weight nx + getD0 h.dist cur)) + (qPush nx h.queue).length
          ≤ phi g h.dist + h.queue.length := by
      intro hn' hw' hi'
      have hb := hi'.dist_le hy.acyc nx
      simp only [getD0_setKV, if_true] at hb
      have := sum_map_succ_le (fun x => g.totalWeight - getD0 h.dist x)
        (fun x => g.totalWeight - getD0 (setKV h.dist nx (g.weight nx + getD0 h.dist cur)) x) nx
        (by
          intro x; simp only [getD0_setKV]; split
          · rename_i hh; subst hh; omega
          · omega)
        (by simp only [getD0_setKV, if_true]; omega) g.keys e.right
      rw [length_qPush]; unfold phi; omega
    by_cases hgt : g.weight nx + getD0 h.dist cur > h.hWeight
    · rw [if_pos hgt]
      have hi' := inv nx (g.weight nx + getD0 h.dist cur) (by omega) (by rw [getD0_setKV, if_pos rfl]) (Or.inl hnx')
      exact ⟨hi', hcl', hcv', hphi _ _ hi'⟩
    · rw [if_neg hgt]
      have hnn : h.hNode ≠ nx := by
        intro e'
        have := hi.hnode
        rw [e'] at this; omega
      have hi' := inv h.hNode h.hWeight (Nat.le_refl _) (by rw [getD0_setKV, if_neg hnn]; exact hi.hnode)
        (by
          rcases hi.hlab with hl | hl
          · exact Or.inl ((has_setKV _ _ _ _).mpr (Or.inr hl))
          · exact Or.inr hl)
      exact ⟨hi', hcl', hcv', hphi _ _ hi'⟩
  · rw [if_neg hlt]
    refine ⟨?_, hcl, hcv, Nat.le_refl _⟩
    refine { hi with relaxed := ?_ }
    intro x y hx hv exy hE
    rcases hE with hE | hE | hE
    · exact hi.relaxed x y hx hv exy (Or.inl hE)
    · by_cases hxc : x = cur
      · subst hxc; subst hE
        omega
      · exact hi.relaxed x y hx hv exy (Or.inl hxc)
    · exact hi.relaxed x y hx hv exy (Or.inr hE)

theorem relax_inv (g : Graph) (hy : HPHyp g) (cur : Nat) : ∀ (l : List Nat) (D : Nat → Prop) (h : HP),
    HPInv g (fun x y => x ≠ cur ∨ D y) h → has h.dist cur = true → getD0 h.visited cur = 1 →
    (∀ n ∈ l, g.Edge cur n) →
    HPInv g (fun x y => x ≠ cur ∨ (y ∈ l ∨ D y)) (relax g cur l h) ∧
    phi g (relax g cur l h).dist + (relax g cur l h).queue.length ≤ phi g h.dist + h.queue.length := by
  intro l
  induction l with
  | nil =>
    intro D h hi _ _ _
    simp only [relax]
    exact ⟨hi.weaken (by rintro x y _ (h | h | h); exact Or.inl h; simp at h; exact Or.inr h), Nat.le_refl _⟩
  | cons nx t ih =>
    intro D h hi hcl hcv hl
    obtain ⟨a1, a2, a3, a4⟩ := relax1_inv g hy cur nx D h hi hcl hcv (hl nx (by simp))
    obtain ⟨b1, b2⟩ := ih (fun y => y = nx ∨ D y) (relax1 g cur nx h) a1 a2 a3 (fun n hn => hl n (by simp [hn]))
    rw [relax_cons]
    refine ⟨b1.weaken ?_, by omega⟩
    rintro x y _ (h | h | h)
    · exact Or.inl h
    · rcases List.mem_cons.mp h with h | h
      · exact Or.inr (Or.inr (Or.inl h))
      · exact Or.inr (Or.inl h)
    · exact Or.inr (Or.inr (Or.inr h))




/-! ## the main loop of `HaviestPath` -/

/-- the state after popping an unvisited node `cur` (queue tail `q`) and before relaxing its edges -/
def popUpd (h : HP) (cur : Nat) (q : List Nat) : HP :=
  if getD0 h.dist cur > h.hWeight then ⟨h.dist, setKV h.visited cur 1, h.prev, q, cur, getD0 h.dist cur⟩
  else ⟨h.dist, setKV h.visited cur 1, h.prev, q, h.hNode, h.hWeight⟩

theorem hpLoop_succ_cons (g : Graph) (fuel : Nat) (h : HP) (cur : Nat) (q : List Nat) (hq : h.queue = cur :: q) :
    hpLoop g (fuel + 1) h =
      if getD0 h.visited cur = 1 then hpLoop g fuel { h with queue := q }
      else hpLoop g fuel (relax g cur (g.succ cur) (popUpd h cur q)) := by
  simp only [hpLoop, hq, popUpd]

theorem hpLoop_succ_nil (g : Graph) (fuel : Nat) (h : HP) (hq : h.queue = []) :
    hpLoop g (fuel + 1) h = some h := by
  simp only [hpLoop, hq]

theorem skip_inv (g : Graph) (cur : Nat) (q : List Nat) (h : HP) (hi : HPInv g (fun _ _ => True) h)
    (hq : h.queue = cur :: q) (hv : getD0 h.visited cur = 1) :
    HPInv g (fun _ _ => True) { h with queue := q } := by
  refine ⟨hi.keys, hi.heads, hi.prev, hi.prev0, ?_, ?_, hi.relaxed, hi.maxw, hi.hnode, hi.hlab, hi.real⟩
  · intro x hx hvx
    have := hi.pending x hx hvx
    rw [hq] at this
    rcases List.mem_cons.mp this with rfl | h'
    · exact absurd hv hvx
    · exact h'
  · intro x hx
    exact hi.queued x (by rw [hq]; exact List.mem_cons_of_mem _ hx)

theorem pop_inv (g : Graph) (cur : Nat) (q : List Nat) (h : HP) (hi : HPInv g (fun _ _ => True) h)
    (hq : h.queue = cur :: q) (hv : getD0 h.visited cur ≠ 1) :
    HPInv g (fun x _ => x ≠ cur ∨ False) (popUpd h cur q) ∧ has (popUpd h cur q).dist cur = true ∧
      getD0 (popUpd h cur q).visited cur = 1 ∧ (popUpd h cur q).dist = h.dist ∧ (popUpd h cur q).queue = q := by
  have hcl : has h.dist cur = true := hi.queued cur (by rw [hq]; simp)
  have gen : ∀ hn' hw', h.hWeight ≤ hw' → getD0 h.dist cur ≤ hw' → getD0 h.dist hn' = hw' →
      (has h.dist hn' = true ∨ hn' = 0) →
      HPInv g (fun x _ => x ≠ cur ∨ False) ⟨h.dist, setKV h.visited cur 1, h.prev, q, hn', hw'⟩ := by
    intro hn' hw' h1 h2 h3 h4
    refine ⟨hi.keys, hi.heads, hi.prev, hi.prev0, ?_, ?_, ?_, ?_, h3, h4, hi.real⟩
    · intro x hx hvx
      have hxc : x ≠ cur := by
        intro e; subst e; simp [getD0_setKV] at hvx
      simp only [getD0_setKV, if_neg hxc] at hvx
      have := hi.pending x hx hvx
      rw [hq] at this
      rcases List.mem_cons.mp this with e | h'
      · exact absurd e hxc
      · exact h'
    · intro x hx
      exact hi.queued x (by rw [hq]; exact List.mem_cons_of_mem _ hx)
    · intro x y hx hvx exy hE
      have hxc : x ≠ cur := by
        rcases hE with hE | hE
        · exact hE
        · exact hE.elim
      simp only [getD0_setKV, if_neg hxc] at hvx
      exact hi.relaxed x y hx hvx exy trivial
    · intro x hx hvx
      by_cases hxc : x = cur
      · subst hxc; exact h2
      · simp only [getD0_setKV, if_neg hxc] at hvx
        exact Nat.le_trans (hi.maxw x hx hvx) h1
  unfold popUpd
  by_cases hgt : getD0 h.dist cur > h.hWeight
  · rw [if_pos hgt]
    exact ⟨gen cur _ (by omega) (Nat.le_refl _) rfl (Or.inl hcl), hcl, by simp [getD0_setKV], rfl, rfl⟩
  · rw [if_neg hgt]
    exact ⟨gen h.hNode h.hWeight (Nat.le_refl _) (by omega) hi.hnode hi.hlab, hcl, by simp [getD0_setKV], rfl, rfl⟩

/-- partial correctness and termination of the main loop: whenever it ends, the invariant holds on an empty
queue; it ends as soon as the fuel reaches the potential plus the length of the queue -/
theorem hpLoop_spec (g : Graph) (hy : HPHyp g) : ∀ (fuel : Nat) (h : HP), HPInv g (fun _ _ => True) h →
    (∀ h', hpLoop g fuel h = some h' → HPInv g (fun _ _ => True) h' ∧ h'.queue = []) ∧
    (phi g h.dist + h.queue.length ≤ fuel → ∃ h', hpLoop g fuel h = some h') := by
  intro fuel
  induction fuel with
  | zero =>
    intro h hi
    constructor
    · intro h' e
      simp only [hpLoop] at e
      split at e
      · rename_i he
        simp only [Option.some.injEq] at e; subst e
        exact ⟨hi, by simpa using he⟩
      · simp at e
    · intro hf
      have : h.queue = [] := List.eq_nil_of_length_eq_zero (by omega)
      exact ⟨h, by simp [hpLoop, this]⟩
  | succ fuel ih =>
    intro h hi
    cases hq : h.queue with
    | nil =>
      rw [hpLoop_succ_nil g fuel h hq]
      exact ⟨fun h' e => by simp only [Option.some.injEq] at e; subst e; exact ⟨hi, hq⟩, fun _ => ⟨h, rfl⟩⟩
    | cons cur q =>
      rw [hpLoop_succ_cons g fuel h cur q hq]
      by_cases hv : getD0 h.visited cur = 1
      · rw [if_pos hv]
        have := ih { h with queue := q } (skip_inv g cur q h hi hq hv)
        refine ⟨this.1, fun hf => this.2 ?_⟩
        simp only [List.length_cons] at hf ⊢
        omega
      · rw [if_neg hv]
        obtain ⟨a1, a2, a3, a4, a5⟩ := pop_inv g cur q h hi hq hv
        obtain ⟨b1, b2⟩ := relax_inv g hy cur (g.succ cur) (fun _ => False) (popUpd h cur q) a1 a2 a3 (fun n hn => hn)
        have b1' : HPInv g (fun _ _ => True) (relax g cur (g.succ cur) (popUpd h cur q)) := by
          apply b1.weaken
          intro x y exy _
          by_cases hxc : x = cur
          · subst hxc; exact Or.inr (Or.inl exy)
          · exact Or.inl hxc
        have := ih _ b1'
        refine ⟨this.1, fun hf => this.2 ?_⟩
        rw [a4, a5] at b2
        simp only [List.length_cons] at hf
        omega

/-! ## initialisation -/

/-- the state during the initialisation: exactly the heads in `S` are labelled and queued -/
structure InitS (g : Graph) (S : Nat → Prop) (n : Nat) (h : HP) : Prop where
  lab : ∀ x, has h.dist x = true ↔ S x
  dist : ∀ x, S x → getD0 h.dist x = g.weight x
  prev : ∀ x, getD0 h.prev x = 0
  vis : ∀ x, getD0 h.visited x = 0
  queue : ∀ x, x ∈ h.queue ↔ S x
  hn : h.hNode = 0
  hw : h.hWeight = 0
  len : h.queue.length = n

theorem InitS.congr {g : Graph} {S S' : Nat → Prop} {n n' : Nat} {h : HP} (hi : InitS g S n h)
    (hS : ∀ x, S x ↔ S' x) (hn : n = n') : InitS g S' n' h :=
  ⟨fun x => (hi.lab x).trans (hS x), fun x hx => hi.dist x ((hS x).mpr hx), hi.prev, hi.vis,
    fun x => (hi.queue x).trans (hS x), hi.hn, hi.hw, hn ▸ hi.len⟩

theorem init_fold (g : Graph) : ∀ (l : List Nat) (S : Nat → Prop) (n : Nat) (h : HP), InitS g S n h →
    InitS g (fun x => x ∈ l ∨ S x) (n + l.length)
      (l.foldl (fun h n => { h with queue := qPush n h.queue, dist := setKV h.dist n (g.weight n),
                                     prev := setKV h.prev n 0, visited := setKV h.visited n 0 }) h) := by
  intro l
  induction l with
  | nil => intro S n h hi; exact hi.congr (by simp) (by simp)
  | cons a t ih =>
    intro S n h hi
    rw [List.foldl_cons]
    have step : InitS g (fun x => x = a ∨ S x) (n + 1)
        { h with queue := qPush a h.queue, dist := setKV h.dist a (g.weight a),
                 prev := setKV h.prev a 0, visited := setKV h.visited a 0 } := by
      refine ⟨?_, ?_, ?_, ?_, ?_, hi.hn, hi.hw, ?_⟩
      · intro x; rw [has_setKV, hi.lab]
      · intro x hx
        show getD0 (setKV _ _ _) x = _
        rw [getD0_setKV]
        split
        · rename_i e; rw [e]
        · rename_i e
          rcases hx with hx | hx
          · exact absurd hx e
          · exact hi.dist x hx
      · intro x
        show getD0 (setKV _ _ _) x = _
        rw [getD0_setKV]; split
        · rfl
        · exact hi.prev x
      · intro x
        show getD0 (setKV _ _ _) x = _
        rw [getD0_setKV]; split
        · rfl
        · exact hi.vis x
      · intro x; rw [mem_qPush, hi.queue]
      · show (qPush _ _).length = _
        rw [length_qPush, hi.len]
    refine (ih _ _ _ step).congr ?_ (by simp only [List.length_cons]; omega)
    intro x
    simp only [List.mem_cons]
    constructor
    · rintro (h | h | h)
      · exact Or.inl (Or.inr h)
      · exact Or.inl (Or.inl h)
      · exact Or.inr h
    · rintro ((h | h) | h)
      · exact Or.inr (Or.inl h)
      · exact Or.inl h
      · exact Or.inr (Or.inr h)

theorem heads_sub_keys (g : Graph) (x : Nat) (h : x ∈ g.heads) : x ∈ g.keys := by
  unfold Graph.heads at h
  exact (List.mem_filter.mp h).1

theorem hpInit_init (g : Graph) : InitS g (fun x => x ∈ g.heads) g.heads.length (hpInit g) := by
  have h0 : InitS g (fun _ => False) 0 ⟨[], [], [], [], 0, 0⟩ :=
    ⟨by simp [has], by simp, by simp [getD0], by simp [getD0], by simp, rfl, rfl, rfl⟩
  exact (init_fold g g.heads _ 0 _ h0).congr (by simp) (by simp)

theorem hpInit_inv (g : Graph) : HPInv g (fun _ _ => True) (hpInit g) := by
  have hi := hpInit_init g
  have hv : ∀ x, getD0 (hpInit g).visited x = 1 → False := by
    intro x hx; rw [hi.vis] at hx; omega
  refine ⟨?_, ?_, ?_, ?_, ?_, ?_, ?_, ?_, ?_, Or.inr hi.hn, ?_⟩
  · intro x hx; exact heads_sub_keys g x ((hi.lab x).mp hx)
  · intro x hx; exact ⟨(hi.lab x).mpr hx, hi.dist x hx⟩
  · intro x hx hxh; exact absurd ((hi.lab x).mp hx) hxh
  · intro x _; exact hi.prev x
  · intro x hx _; exact (hi.queue x).mpr ((hi.lab x).mp hx)
  · intro x hx; exact (hi.lab x).mpr ((hi.queue x).mp hx)
  · intro x y _ hvx; exact (hv x hvx).elim
  · intro x _ hvx; exact (hv x hvx).elim
  · rw [hi.hn, hi.hw]
    apply getD0_of_not_has
    cases hh : has (hpInit g).dist 0 with
    | false => rfl
    | true => exact absurd ((hi.lab 0).mp hh) (zero_not_head g)
  · intro x hx
    have hxh := (hi.lab x).mp hx
    refine ⟨[], heads_sub_keys g x hxh, ?_⟩
    rw [hi.dist x hxh]
    simp [Graph.pathWeight]

/-- the fuel that is always enough for the main loop on a graph without cycle -/
def Graph.hpBound (g : Graph) : Nat := g.nodes.length * g.totalWeight + g.nodes.length

theorem sum_map_le_mul (f : Nat → Nat) (B : Nat) (hf : ∀ x, f x ≤ B) : ∀ l : List Nat, (l.map f).sum ≤ l.length * B := by
  intro l
  induction l with
  | nil => simp
  | cons a l ih =>
    have := hf a
    simp only [List.map_cons, List.sum_cons, List.length_cons, Nat.succ_mul]
    omega

theorem hpInit_bound (g : Graph) : phi g (hpInit g).dist + (hpInit g).queue.length ≤ g.hpBound := by
  have h1 : phi g (hpInit g).dist ≤ g.keys.length * g.totalWeight :=
    sum_map_le_mul _ _ (fun x => Nat.sub_le _ _) g.keys
  have h2 : (hpInit g).queue.length = g.heads.length := (hpInit_init g).len
  have h3 : g.heads.length ≤ g.keys.length := List.length_filter_le _ _
  have h4 : g.keys.length = g.nodes.length := by simp [Graph.keys]
  unfold Graph.hpBound
  rw [h4] at h1 h3
  omega




/-! ## the fixed point reached by the main loop; path reconstruction -/

theorem HPInv.final_visited {g : Graph} {h : HP} (hi : HPInv g (fun _ _ => True) h) (hq : h.queue = [])
    (x : Nat) (hx : has h.dist x = true) : getD0 h.visited x = 1 := by
  apply Classical.byContradiction
  intro hv
  have := hi.pending x hx hv
  rw [hq] at this; simp at this

/-- at the fixed point every label is the weight of the node plus the label of its recorded predecessor -/
theorem HPInv.final_eq {g : Graph} {h : HP} (hi : HPInv g (fun _ _ => True) h) (hq : h.queue = [])
    (x : Nat) (hx : has h.dist x = true) (hxh : x ∉ g.heads) :
    getD0 h.dist x = g.weight x + getD0 h.dist (getD0 h.prev x) := by
  obtain ⟨a1, a2, a3⟩ := hi.prev x hx hxh
  have := hi.relaxed _ x a2 (hi.final_visited hq _ a2) a1 trivial
  omega

theorem hpBack_spec (g : Graph) (hc : ¬ g.Cyclic) (h : HP) (hi : HPInv g (fun _ _ => True) h) (hq : h.queue = []) :
    ∀ (fuel cur : Nat) (acc : List Nat), has h.dist cur = true → g.Walk (cur :: acc) →
      fuel + acc.length = g.nodes.length + 2 →
      ∃ p, hpBack g.heads h.prev fuel cur acc = .path p ∧ g.Walk p ∧ (∃ s t, p = s :: t ∧ s ∈ g.heads) ∧
        g.pathWeight p = g.pathWeight acc + getD0 h.dist cur := by
  intro fuel
  induction fuel with
  | zero =>
    intro cur acc _ hw hf
    have := hw.length_le hc
    simp only [List.length_cons] at this
    omega
  | succ fuel ih =>
    intro cur acc hcl hw hf
    simp only [hpBack]
    by_cases hs : cur ∈ g.heads
    · have : g.heads.contains cur = true := by simpa using hs
      rw [if_pos this]
      refine ⟨_, rfl, hw, ⟨cur, acc, rfl, hs⟩, ?_⟩
      rw [pathWeight_cons, (hi.heads cur hs).2]; omega
    · have : g.heads.contains cur = false := by simpa using hs
      rw [this]
      have hnd := hw.nodup hc
      rw [List.nodup_cons] at hnd
      have : acc.contains cur = false := by simpa using hnd.1
      rw [this]
      simp only [Bool.false_eq_true, if_false]
      obtain ⟨a1, a2, _⟩ := hi.prev cur hcl hs
      have hw' : g.Walk (getD0 h.prev cur :: cur :: acc) := ⟨a1, hw⟩
      obtain ⟨p, hp1, hp2, hp3, hp4⟩ := ih (getD0 h.prev cur) (cur :: acc) a2 hw'
        (by simp only [List.length_cons]; omega)
      refine ⟨p, hp1, hp2, hp3, ?_⟩
      rw [hp4, pathWeight_cons, hi.final_eq hq cur hcl hs]; omega

theorem hpBack_unlabelled (g : Graph) (h : HP) (hi : HPInv g (fun _ _ => True) h) (hl : has h.dist h.hNode = false) :
    hpBack g.heads h.prev (g.nodes.length + 2) h.hNode [] = .panic := by
  have h0 : h.hNode = 0 := by
    rcases hi.hlab with h' | h'
    · rw [h'] at hl; exact absurd hl (by simp)
    · exact h'
  rw [h0] at hl ⊢
  have hp := hi.prev0 0 hl
  have hs : 0 ∉ g.heads := zero_not_head g
  simp [hpBack, hs, hp]

theorem hpHyp_of (g : Graph) (hwf : g.WF) (hc : ¬ g.Cyclic) : HPHyp g :=
  ⟨fun x hx => ((mem_heads_iff g hwf x).mp hx).2, hc⟩

theorem not_cyclic_of_hasCycle {g : Graph} (h : g.hasCycle = some false) : ¬ g.Cyclic := by
  rcases hasCycle_spec g with ⟨h1, _⟩ | ⟨_, h2⟩
  · rw [h] at h1; simp at h1
  · exact h2

/-- the outcomes of `HaviestPath` on a graph without cycle -/
theorem heaviestPath_cases (g : Graph) (hwf : g.WF) (hcyc : g.hasCycle = some false) (fuel : Nat) :
    (hpLoop g fuel (hpInit g) = none ∧ g.heaviestPath fuel = .fuel) ∨
    ∃ h, hpLoop g fuel (hpInit g) = some h ∧ HPInv g (fun _ _ => True) h ∧ h.queue = [] ∧
      ((has h.dist h.hNode = true ∧ ∃ p, g.heaviestPath fuel = .path p ∧ g.Walk p ∧
          (∃ s t, p = s :: t ∧ s ∈ g.heads) ∧ g.pathWeight p = h.hWeight) ∨
       (has h.dist h.hNode = false ∧ g.heaviestPath fuel = .panic)) := by
  have hc := not_cyclic_of_hasCycle hcyc
  have hy := hpHyp_of g hwf hc
  unfold Graph.heaviestPath
  rw [hcyc]
  simp only []
  cases hl : hpLoop g fuel (hpInit g) with
  | none => exact Or.inl ⟨rfl, rfl⟩
  | some h =>
    right
    obtain ⟨hi, hq⟩ := (hpLoop_spec g hy fuel (hpInit g) (hpInit_inv g)).1 h hl
    refine ⟨h, rfl, hi, hq, ?_⟩
    simp only []
    cases hlab : has h.dist h.hNode with
    | true =>
      left
      have hk : h.hNode ∈ g.keys := hi.keys _ hlab
      obtain ⟨p, hp1, hp2, hp3, hp4⟩ := hpBack_spec g hc h hi hq (g.nodes.length + 2) h.hNode [] hlab hk (by simp)
      refine ⟨rfl, p, hp1, hp2, hp3, ?_⟩
      rw [hp4, hi.hnode]; simp [Graph.pathWeight]
    | false =>
      right
      exact ⟨rfl, hpBack_unlabelled g h hi hlab⟩

/-- at the fixed point no walk from a head is heavier than the largest label (positive weights) -/
theorem HPInv.walk_le {g : Graph} {h : HP} (hi : HPInv g (fun _ _ => True) h) (hq : h.queue = [])
    (hpos : ∀ x ∈ g.keys, 0 < g.weight x) : ∀ (q : List Nat) (x c : Nat), has h.dist x = true →
      c + g.weight x ≤ getD0 h.dist x → g.Walk (x :: q) → c + g.pathWeight (x :: q) ≤ h.hWeight := by
  intro q
  induction q with
  | nil =>
    intro x c hx hcx _
    have := hi.maxw x hx (hi.final_visited hq x hx)
    rw [pathWeight_cons]; simp only [Graph.pathWeight, List.map_nil, List.sum_nil]; omega
  | cons y q ih =>
    intro x c hx hcx hw
    have hr := hi.relaxed x y hx (hi.final_visited hq x hx) hw.1 trivial
    have hp := hpos y hw.1.right
    have hy : has h.dist y = true := by
      cases hh : has h.dist y with
      | true => rfl
      | false => have := getD0_of_not_has _ _ hh; omega
    have := ih y (c + g.weight x) hy (by omega) hw.2
    rw [pathWeight_cons]; omega

/-- a non-empty graph without cycle has a node without predecessor -/
theorem exists_head (g : Graph) (hwf : g.WF) (hc : ¬ g.Cyclic) (hne : g.nodes ≠ []) : ∃ x, x ∈ g.heads := by
  apply Classical.byContradiction
  intro hno
  have hpred : ∀ x ∈ g.keys, ∃ y, g.Edge y x := by
    intro x hx
    apply Classical.byContradiction
    intro hn
    exact hno ⟨x, (mem_heads_iff g hwf x).mpr ⟨hx, fun y e => hn ⟨y, e⟩⟩⟩
  have hlong : ∀ n : Nat, ∃ p, g.Walk p ∧ p.length = n + 1 := by
    intro n
    induction n with
    | zero =>
      cases hn : g.nodes with
      | nil => exact absurd hn hne
      | cons e t =>
        refine ⟨[e.1], ?_, rfl⟩
        show e.1 ∈ g.keys
        simp [Graph.keys, hn]
    | succ n ih =>
      obtain ⟨p, hp, hl⟩ := ih
      cases p with
      | nil => simp at hl
      | cons a p =>
        obtain ⟨y, e⟩ := hpred a (hp.mem _ a (by simp))
        exact ⟨y :: a :: p, ⟨e, hp⟩, by simp only [List.length_cons] at hl ⊢; omega⟩
  obtain ⟨p, hp, hl⟩ := hlong g.nodes.length
  have := hp.length_le hc
  omega




/-! ## `HaviestPath`: the returned path is a walk from a source, termination, optimality -/

theorem hasCycle_false_of_path {g : Graph} {fuel : Nat} {p : List Nat} (h : g.heaviestPath fuel = .path p) :
    g.hasCycle = some false := by
  unfold Graph.heaviestPath at h
  cases hc : g.hasCycle with
  | none => rw [hc] at h; simp at h
  | some b =>
    cases b with
    | true => rw [hc] at h; simp at h
    | false => rfl

theorem heaviestPath_is_walk (g : Graph) (hwf : g.WF) (fuel : Nat) (p : List Nat)
    (h : g.heaviestPath fuel = .path p) :
    g.Walk p ∧ ∃ s t, p = s :: t ∧ s ∈ g.heads ∧ g.IsSource s := by
  rcases heaviestPath_cases g hwf (hasCycle_false_of_path h) fuel with ⟨_, h1⟩ | ⟨hh, _, _, _, h1 | h1⟩
  · rw [h1] at h; simp at h
  · obtain ⟨_, p', hp, hw, ⟨s, t, e, hs⟩, _⟩ := h1
    rw [hp] at h
    simp only [HPOut.path.injEq] at h; subst h
    exact ⟨hw, s, t, e, hs, (mem_heads_iff g hwf s).mp hs⟩
  · rw [h1.2] at h; simp at h

theorem hasCycle_false_iff (g : Graph) : g.hasCycle = some false ↔ ¬ g.Cyclic := by
  rcases hasCycle_spec g with ⟨h1, h2⟩ | ⟨h1, h2⟩
  · rw [h1]; simp [h2]
  · rw [h1]; simp [h2]

theorem heaviestPath_terminates (g : Graph) (hwf : g.WF) (hc : ¬ g.Cyclic) (fuel : Nat) (hf : g.hpBound ≤ fuel) :
    g.heaviestPath fuel ≠ .fuel ∧ g.heaviestPath fuel ≠ .nil ∧
    (g.nodes ≠ [] → (∀ x ∈ g.keys, 0 < g.weight x) → ∃ p, g.heaviestPath fuel = .path p) := by
  have hcyc : g.hasCycle = some false := (hasCycle_false_iff g).mpr hc
  have hy := hpHyp_of g hwf hc
  obtain ⟨h0, hl0⟩ := (hpLoop_spec g hy fuel (hpInit g) (hpInit_inv g)).2
    (Nat.le_trans (hpInit_bound g) hf)
  rcases heaviestPath_cases g hwf hcyc fuel with ⟨h1, _⟩ | ⟨h, hl, hi, hq, h1⟩
  · rw [hl0] at h1; simp at h1
  · rcases h1 with ⟨hlab, p, hp, _⟩ | ⟨hlab, hp⟩
    · rw [hp]; exact ⟨by simp, by simp, fun _ _ => ⟨p, rfl⟩⟩
    · rw [hp]
      refine ⟨by simp, by simp, ?_⟩
      intro hne hpos
      obtain ⟨s, hs⟩ := exists_head g hwf hc hne
      obtain ⟨a1, a2⟩ := hi.heads s hs
      have a3 := hi.maxw s a1 (hi.final_visited hq s a1)
      have a4 := hpos s (heads_sub_keys g s hs)
      have a5 := hi.hnode
      rw [getD0_of_not_has _ _ hlab] at a5
      omega

theorem heaviestPath_optimal (g : Graph) (hwf : g.WF) (hpos : ∀ x ∈ g.keys, 0 < g.weight x) (fuel : Nat)
    (p : List Nat) (h : g.heaviestPath fuel = .path p) :
    ∀ s t, g.IsSource s → g.Walk (s :: t) → g.pathWeight (s :: t) ≤ g.pathWeight p := by
  intro s t hs hw
  rcases heaviestPath_cases g hwf (hasCycle_false_of_path h) fuel with ⟨_, h1⟩ | ⟨hh, _, hi, hq, h1 | h1⟩
  · rw [h1] at h; simp at h
  · obtain ⟨_, p', hp, _, _, hpw⟩ := h1
    rw [hp] at h
    simp only [HPOut.path.injEq] at h; subst h
    have hsh := (mem_heads_iff g hwf s).mpr hs
    obtain ⟨a1, a2⟩ := hi.heads s hsh
    have := hi.walk_le hq hpos t s 0 a1 (by omega) hw
    omega
  · rw [h1.2] at h; simp at h


/-! ## windows of digits by position -/


/-- the word of the window of `k` digits at position `i` -/
def kw (k : Nat) (d : List Nat) (i : Nat) : Nat := val ((d.drop i).take k)
/-- the words of all the windows of `k` digits, in order -/
def kwords (k : Nat) (d : List Nat) : List Nat := (windowsAll k d).map val
/-- the 2-bit code of a plain base (0 for any other byte) -/
def digit (b : UInt8) : Nat := (plain b).getD 0

theorem windowsAll_eq_range {α : Type} (k : Nat) (hk : 1 ≤ k) (l : List α) :
    windowsAll k l = (List.range (l.length + 1 - k)).map fun i => (l.drop i).take k := by
  induction l with
  | nil =>
    have : ([] : List α).length + 1 - k = 0 := by simp; omega
    rw [this]; rfl
  | cons a t ih =>
    simp only [windowsAll]
    by_cases h : k ≤ (a :: t).length
    · rw [if_pos h, ih]
      have e : (a :: t).length + 1 - k = (t.length + 1 - k) + 1 := by simp at h ⊢; omega
      rw [e, List.range_succ_eq_map, List.map_cons, List.map_map]
      rfl
    · rw [if_neg h]
      have e : (a :: t).length + 1 - k = 0 := by omega
      rw [e]; rfl

theorem kwords_eq_range (k : Nat) (hk : 1 ≤ k) (d : List Nat) :
    kwords k d = (List.range (d.length + 1 - k)).map (kw k d) := by
  unfold kwords
  rw [windowsAll_eq_range k hk, List.map_map]
  rfl

theorem val_inj : ∀ (a b : List Nat), Dig a → Dig b → a.length = b.length → val a = val b → a = b := by
  intro a
  induction a with
  | nil =>
    intro b _ _ hl _
    cases b with
    | nil => rfl
    | cons y b => simp at hl
  | cons x a ih =>
    intro b ha hb hl hv
    cases b with
    | nil => simp at hl
    | cons y b =>
      have hl' : a.length = b.length := by simpa using hl
      have hda : Dig a := fun c hc => ha c (by simp [hc])
      have hdb : Dig b := fun c hc => hb c (by simp [hc])
      have h1 := val_lt a hda
      have h2 := val_lt b hdb
      rw [val_cons, val_cons, ← hl'] at hv
      rw [← hl'] at h2
      have hP : 0 < 4 ^ a.length := Nat.pow_pos (by decide)
      have e1 : (x * 4 ^ a.length + val a) / 4 ^ a.length = x := by
        rw [Nat.add_comm, Nat.add_mul_div_right _ _ hP, Nat.div_eq_of_lt h1, Nat.zero_add]
      have e2 : (y * 4 ^ a.length + val b) / 4 ^ a.length = y := by
        rw [Nat.add_comm, Nat.add_mul_div_right _ _ hP, Nat.div_eq_of_lt h2, Nat.zero_add]
      have hxy : x = y := by rw [← e1, hv, e2]
      subst hxy
      have hvv : val a = val b := by omega
      rw [ih b hda hdb hl' hvv]

theorem dig_take {d : List Nat} (hd : Dig d) (n : Nat) : Dig (d.take n) :=
  fun c hc => hd c (List.mem_of_mem_take hc)

theorem dig_drop {d : List Nat} (hd : Dig d) (n : Nat) : Dig (d.drop n) :=
  fun c hc => hd c (List.mem_of_mem_drop hc)

theorem kw_lt (k : Nat) (d : List Nat) (hd : Dig d) (i : Nat) : kw k d i < 4 ^ k := by
  have h := val_lt _ (dig_take (dig_drop hd i) k)
  have hl : ((d.drop i).take k).length ≤ k := by simp; omega
  have : 4 ^ ((d.drop i).take k).length ≤ 4 ^ k := Nat.pow_le_pow_right (by decide) hl
  unfold kw; omega

/-- a full window is its first `k - 1` digits followed by the digit at position `i + (k - 1)` -/
theorem window_snoc (k : Nat) (hk : 1 ≤ k) (d : List Nat) (i : Nat) (hi : i + k ≤ d.length) :
    (d.drop i).take k = (d.drop i).take (k - 1) ++ [d[i + (k - 1)]'(by omega)] := by
  obtain ⟨k', rfl⟩ : ∃ k', k = k' + 1 := ⟨k - 1, by omega⟩
  have hlt : k' < (d.drop i).length := by simp; omega
  rw [List.take_succ_eq_append_getElem hlt]
  simp

/-- a full window is the digit at position `i` followed by the first `k - 1` digits from `i + 1` -/
theorem window_cons (k : Nat) (hk : 1 ≤ k) (d : List Nat) (i : Nat) (hi : i + k ≤ d.length) :
    (d.drop i).take k = d[i]'(by omega) :: (d.drop (i + 1)).take (k - 1) := by
  obtain ⟨k', rfl⟩ : ∃ k', k = k' + 1 := ⟨k - 1, by omega⟩
  rw [List.drop_eq_getElem_cons (by omega : i < d.length), List.take_succ_cons]
  rfl

theorem kw_div (k : Nat) (hk : 1 ≤ k) (d : List Nat) (hd : Dig d) (i : Nat) (hi : i + k ≤ d.length) :
    kw k d i / 4 = kw (k - 1) d i := by
  unfold kw
  rw [window_snoc k hk d i hi, val_snoc_div _ _ (hd _ (List.getElem_mem _))]

theorem kw_land3 (k : Nat) (hk : 1 ≤ k) (d : List Nat) (hd : Dig d) (i : Nat) (hi : i + k ≤ d.length) :
    kw k d i &&& 3 = d[i + (k - 1)]'(by omega) := by
  unfold kw
  rw [window_snoc k hk d i hi, val_land3 _ _ (hd _ (List.getElem_mem _))]

theorem kw_mod (k : Nat) (hk : 1 ≤ k) (d : List Nat) (hd : Dig d) (i : Nat) (hi : i + k ≤ d.length) :
    kw k d i % 4 ^ (k - 1) = kw (k - 1) d (i + 1) := by
  unfold kw
  rw [window_cons k hk d i hi, val_cons]
  have hl : ((d.drop (i + 1)).take (k - 1)).length = k - 1 := by simp; omega
  have h := val_lt _ (dig_take (dig_drop hd (i + 1)) (k - 1))
  rw [hl] at h ⊢
  rw [Nat.add_comm, Nat.add_mul_mod_self_right, Nat.mod_eq_of_lt h]

/-- the (k-1)-overlap on words, by positions: when no window of k-1 digits occurs twice, the last k-1 digits
of window i are the first k-1 digits of window j exactly when j = i + 1 -/
theorem kw_overlap_iff (k : Nat) (hk : 2 ≤ k) (d : List Nat) (hd : Dig d) (hn : (windowsAll (k - 1) d).Nodup)
    (i j : Nat) (hi : i + k ≤ d.length) (hj : j + k ≤ d.length) :
    kw k d j / 4 = kw k d i % 4 ^ (k - 1) ↔ j = i + 1 := by
  rw [kw_div k (by omega) d hd j hj, kw_mod k (by omega) d hd i hi]
  constructor
  · intro h
    have hlj : ((d.drop j).take (k - 1)).length = k - 1 := by simp; omega
    have hli : ((d.drop (i + 1)).take (k - 1)).length = k - 1 := by simp; omega
    have hw : (d.drop j).take (k - 1) = (d.drop (i + 1)).take (k - 1) :=
      val_inj _ _ (dig_take (dig_drop hd j) _) (dig_take (dig_drop hd (i + 1)) _) (by rw [hlj, hli]) h
    rw [windowsAll_eq_range (k - 1) (by omega)] at hn
    have hp := List.pairwise_iff_getElem.mp hn
    have hlen : ((List.range (d.length + 1 - (k - 1))).map fun i => (d.drop i).take (k - 1)).length
        = d.length + 1 - (k - 1) := by simp
    have hj' : j < d.length + 1 - (k - 1) := by omega
    have hi' : i + 1 < d.length + 1 - (k - 1) := by omega
    rcases Nat.lt_trichotomy j (i + 1) with hlt | heq | hgt
    · have := hp j (i + 1) (by rw [hlen]; exact hj') (by rw [hlen]; exact hi') hlt
      simp only [List.getElem_map, List.getElem_range] at this
      exact absurd hw this
    · exact heq
    · have := hp (i + 1) j (by rw [hlen]; exact hi') (by rw [hlen]; exact hj') hgt
      simp only [List.getElem_map, List.getElem_range] at this
      exact absurd hw.symm this
  · intro h; subst h; rfl

theorem decodePath_kwords (g : Graph) (d : List Nat) (hd : Dig d) (hk : 1 ≤ g.k) (hl : g.k ≤ d.length) :
    g.decodePath (kwords g.k d) = d.map decode := by
  rw [kwords_eq_range g.k hk]
  have e : d.length + 1 - g.k = (d.length - g.k) + 1 := by omega
  rw [e, List.range_succ_eq_map, List.map_cons, List.map_map]
  simp only [Graph.decodePath, List.map_map]
  have h0 : kw g.k d 0 = val (d.take g.k) := by simp [kw]
  have hlen : (d.take g.k).length = g.k := by simp; omega
  have h1 : decodeNode g.k (kw g.k d 0) [] = (d.take g.k).map decode := by
    rw [h0]
    have := decodeNode_val (d.take g.k) (dig_take hd _)
    rw [hlen] at this
    exact this
  rw [h1]
  have h2 : (List.range (d.length - g.k)).map
      ((fun y => decode (y &&& 3)) ∘ (kw g.k d ∘ Nat.succ)) = (d.drop g.k).map decode := by
    apply List.ext_getElem
    · simp
    · intro n hn1 hn2
      have hn : n < d.length - g.k := by simpa using hn1
      simp only [List.getElem_map, List.getElem_range, Function.comp, Nat.succ_eq_add_one,
        List.getElem_drop]
      rw [kw_land3 g.k hk d hd (n + 1) (by omega)]
      congr 2
      omega
  rw [h2, ← List.map_append, List.take_append_drop]

theorem winSpec_digits (k : Nat) (d : List Nat) : winSpec val k (d.map some) = kwords k d := by
  unfold winSpec kwords
  rw [windowsAll_map, List.filterMap_map]
  conv => rhs; rw [← List.filterMap_eq_map]
  apply filterMap_congr'
  intro w _
  simp [Function.comp, allSome_map_some]

theorem plain_digit (b : UInt8) (h : (plain b).isSome) : plain b = some (digit b) := by
  unfold digit
  cases hp : plain b with
  | none => rw [hp] at h; simp at h
  | some c => rfl

theorem map_plain_digit (s : Bytes) (hp : ∀ b ∈ s, (plain b).isSome) : s.map plain = (s.map digit).map some := by
  rw [List.map_map]
  apply List.map_congr_left
  intro b hb
  exact plain_digit b (hp b hb)

theorem digit_lt (b : UInt8) : digit b < 4 := by
  unfold digit
  cases hp : plain b with
  | none => simp
  | some c => simpa using plain_lt b c hp

theorem dig_digits (s : Bytes) : Dig (s.map digit) := by
  intro c hc
  obtain ⟨b, _, rfl⟩ := List.mem_map.mp hc
  exact digit_lt b

theorem decode_digit_byte (b : UInt8) (h : b = 97 ∨ b = 99 ∨ b = 103 ∨ b = 116) : decode (digit b) = b := by
  rcases h with rfl | rfl | rfl | rfl <;> decide

/-- a read over a, c, g, t (bytes 97, 99, 103, 116) -/
theorem decode_digit_acgt (s : Bytes) (h : ∀ b ∈ s, b = 97 ∨ b = 99 ∨ b = 103 ∨ b = 116) :
    (s.map digit).map decode = s := by
  rw [List.map_map]
  conv => rhs; rw [← List.map_id s]
  apply List.map_congr_left
  intro b hb
  exact decode_digit_byte b (h b hb)

theorem plain_acgt (s : Bytes) (h : ∀ b ∈ s, b = 97 ∨ b = 99 ∨ b = 103 ∨ b = 116) :
    ∀ b ∈ s, (plain b).isSome := by
  intro b hb
  rcases h b hb with rfl | rfl | rfl | rfl <;> decide

theorem digit_inj_acgt (a b : UInt8) (ha : a = 97 ∨ a = 99 ∨ a = 103 ∨ a = 116)
    (hb : b = 97 ∨ b = 99 ∨ b = 103 ∨ b = 116) (h : digit a = digit b) : a = b := by
  rw [← decode_digit_byte a ha, ← decode_digit_byte b hb, h]

theorem map_digit_inj_acgt : ∀ (a b : Bytes), (∀ x ∈ a, x = 97 ∨ x = 99 ∨ x = 103 ∨ x = 116) →
    (∀ x ∈ b, x = 97 ∨ x = 99 ∨ x = 103 ∨ x = 116) → a.map digit = b.map digit → a = b := by
  intro a b ha hb h
  have h2 := congrArg (List.map decode) h
  rw [decode_digit_acgt a ha, decode_digit_acgt b hb] at h2
  exact h2

theorem windows_digit_nodup (k : Nat) (s : Bytes) (h : ∀ b ∈ s, b = 97 ∨ b = 99 ∨ b = 103 ∨ b = 116)
    (hn : (windowsAll k s).Nodup) : (windowsAll k (s.map digit)).Nodup := by
  rw [windowsAll_map]
  unfold List.Nodup at hn ⊢
  rw [List.pairwise_map]
  apply List.Pairwise.imp_of_mem _ hn
  intro a b ha hb hab hm
  apply hab
  exact map_digit_inj_acgt a b (fun x hx => h x (mem_windowsAll k s a ha x hx))
    (fun x hx => h x (mem_windowsAll k s b hb x hx)) hm





/-! ## a single read without repeated (k-1)-mer -/

/-- the graph of a single read `s` of plain bases (digits `d`), count `w ≥ 1`, `2 ≤ k ≤ 32`, no window of
`k-1` digits occurring twice -/
structure OneRead (g : Graph) (k : Nat) (d : List Nat) : Prop where
  k2 : 2 ≤ k
  wf : g.WF
  gk : g.k = k
  dig : Dig d
  len : k ≤ d.length
  nodup : (windowsAll (k - 1) d).Nodup
  pos : ∀ x ∈ g.keys, 0 < g.weight x
  keys : ∀ x, x ∈ g.keys ↔ x ∈ kwords k d

theorem oneRead_push (k : Nat) (hk : 2 ≤ k) (h32 : k ≤ 32) (s : Bytes) (w : Nat) (hw : 1 ≤ w)
    (hp : ∀ b ∈ s, (plain b).isSome) (hl : k ≤ s.length) (hn : (windowsAll (k - 1) (s.map digit)).Nodup) :
    OneRead ((makeGraph k).push s w) k (s.map digit) := by
  have hwf0 := makeGraph_wf k (by omega) h32
  have hwf := push_wf _ hwf0 s w
  have hk' := push_k (makeGraph k) s w
  have hpos : ∀ x ∈ ((makeGraph k).push s w).keys, 0 < ((makeGraph k).push s w).weight x :=
    push_pos (makeGraph k) s w hw (by intro x hx; simp [Graph.keys, makeGraph] at hx)
  have hwt : ∀ x, ((makeGraph k).push s w).weight x = w * (kwords k (s.map digit)).count x := by
    intro x
    have := push_plain (makeGraph k) (by show 1 ≤ k; omega) (by show 2 * k ≤ 64; omega)
      (makeGraph_mask k (by omega)) s w x hp
    have hkk : (makeGraph k).k = k := rfl
    rw [hkk] at this
    rw [this, map_plain_digit s hp, winSpec_digits]
    show weightOf [] x + _ = _
    simp [weightOf]
  refine ⟨hk, hwf, hk'.1, dig_digits s, by simpa using hl, hn, hpos, ?_⟩
  intro x
  constructor
  · intro hx
    have := hpos x hx
    rw [hwt] at this
    apply List.count_pos_iff.mp
    apply Nat.pos_of_ne_zero
    intro h0; rw [h0] at this; omega
  · intro hx
    have hc := List.count_pos_iff.mpr hx
    have hwx : 0 < ((makeGraph k).push s w).weight x := by
      rw [hwt]; exact Nat.mul_pos (by omega) hc
    apply (Graph.has_iff _ x).mp
    unfold Graph.weight weightOf at hwx
    unfold has
    cases hh : List.lookup x ((makeGraph k).push s w).nodes with
    | none => rw [hh] at hwx; simp at hwx
    | some v => rfl

namespace OneRead
variable {g : Graph} {k : Nat} {d : List Nat}

theorem mem_keys (h : OneRead g k d) (x : Nat) : x ∈ g.keys ↔ ∃ i, i < (d.length + 1 - k) ∧ x = kw k d i := by
  rw [h.keys, kwords_eq_range k (by have := h.k2; omega), List.mem_map]
  constructor
  · rintro ⟨i, hi, rfl⟩; exact ⟨i, List.mem_range.mp hi, rfl⟩
  · rintro ⟨i, hi, rfl⟩; exact ⟨i, List.mem_range.mpr hi, rfl⟩

theorem edge_iff' (h : OneRead g k d) (i j : Nat) (hi : i < (d.length + 1 - k)) (hj : j < (d.length + 1 - k)) :
    g.Edge (kw k d i) (kw k d j) ↔ j = i + 1 := by
  have hk := h.k2
  have hl := h.len
  rw [edge_iff g h.wf, h.gk, kw_overlap_iff k h.k2 d h.dig h.nodup i j (by omega) (by omega)]
  constructor
  · exact fun a => a.2.2
  · exact fun a => ⟨(h.mem_keys _).mpr ⟨i, hi, rfl⟩, (h.mem_keys _).mpr ⟨j, hj, rfl⟩, a⟩

theorem walk_range (h : OneRead g k d) : ∀ (m a : Nat), a + (m + 1) ≤ (d.length + 1 - k) →
    g.Walk ((List.range' a (m + 1)).map (kw k d)) := by
  intro m
  induction m with
  | zero =>
    intro a ha
    show kw k d a ∈ g.keys
    exact (h.mem_keys _).mpr ⟨a, by omega, rfl⟩
  | succ m ih =>
    intro a ha
    have := ih (a + 1) (by omega)
    rw [List.range'_succ] at this
    rw [List.range'_succ, List.range'_succ]
    simp only [List.map_cons] at this ⊢
    exact ⟨(h.edge_iff' a (a + 1) (by omega) (by omega)).mpr rfl, this⟩

theorem source0 (h : OneRead g k d) : g.IsSource (kw k d 0) := by
  have hk := h.k2
  have hl := h.len
  refine ⟨(h.mem_keys _).mpr ⟨0, by omega, rfl⟩, ?_⟩
  intro y e
  obtain ⟨i, hi, rfl⟩ := (h.mem_keys y).mp e.left
  have := (h.edge_iff' i 0 hi (by omega)).mp e
  omega

theorem source_eq (h : OneRead g k d) (s : Nat) (hs : g.IsSource s) : s = kw k d 0 := by
  obtain ⟨i, hi, rfl⟩ := (h.mem_keys s).mp hs.1
  cases i with
  | zero => rfl
  | succ i => exact absurd ((h.edge_iff' i (i + 1) (by omega) hi).mpr rfl) (hs.2 _)

theorem walk_prefix (h : OneRead g k d) : ∀ (q : List Nat) (a : Nat), a < (d.length + 1 - k) → g.Walk (kw k d a :: q) →
    ∃ m, a + 1 + m ≤ (d.length + 1 - k) ∧ q = (List.range' (a + 1) m).map (kw k d) := by
  intro q
  induction q with
  | nil => intro a ha _; exact ⟨0, by omega, rfl⟩
  | cons y q ih =>
    intro a ha hw
    obtain ⟨j, hj, rfl⟩ := (h.mem_keys y).mp hw.1.right
    have := (h.edge_iff' a j ha hj).mp hw.1
    subst this
    obtain ⟨m, hm, hq⟩ := ih (a + 1) hj hw.2
    exact ⟨m + 1, by omega, by rw [List.range'_succ, List.map_cons, hq]⟩

theorem pathWeight_append (g : Graph) (a b : List Nat) : g.pathWeight (a ++ b) = g.pathWeight a + g.pathWeight b := by
  simp [Graph.pathWeight, List.sum_append]

theorem acyclic (h : OneRead g k d) : ¬ g.Cyclic := by
  -- every edge increases the position
  have key : ∀ (p : List Nat) (a : Nat), a < (d.length + 1 - k) → ∀ z, g.Walk (kw k d a :: (p ++ [z])) →
      ∃ b, a < b ∧ b < (d.length + 1 - k) ∧ z = kw k d b := by
    intro p
    induction p with
    | nil =>
      intro a ha z hw
      obtain ⟨j, hj, rfl⟩ := (h.mem_keys z).mp hw.1.right
      exact ⟨j, by have := (h.edge_iff' a j ha hj).mp hw.1; omega, hj, rfl⟩
    | cons y p ih =>
      intro a ha z hw
      obtain ⟨j, hj, rfl⟩ := (h.mem_keys y).mp hw.1.right
      have := (h.edge_iff' a j ha hj).mp hw.1
      obtain ⟨b, hb, hbN, hz⟩ := ih j hj z hw.2
      exact ⟨b, by omega, hbN, hz⟩
  rintro ⟨x, p, hw⟩
  have hx : x ∈ g.keys := Graph.Walk.mem _ hw x (by simp)
  obtain ⟨a, ha, rfl⟩ := (h.mem_keys x).mp hx
  obtain ⟨b, hb, hbN, hz⟩ := key p a ha _ hw
  have e1 := (h.edge_iff' (b - 1) b (by omega) hbN).mpr (by omega)
  rw [← hz] at e1
  have := (h.edge_iff' (b - 1) a (by omega) ha).mp e1
  omega

/-- the heaviest path of the graph of a single read is the list of its k-mers -/
theorem heaviest (h : OneRead g k d) (fuel : Nat) (hf : g.hpBound ≤ fuel) :
    g.heaviestPath fuel = .path (kwords k d) := by
  have hk := h.k2
  have hl := h.len
  obtain ⟨N, hN⟩ : ∃ N, (d.length + 1 - k) = N + 1 := ⟨(d.length + 1 - k) - 1, by omega⟩
  have hkw : kwords k d = (List.range' 0 (N + 1)).map (kw k d) := by
    rw [kwords_eq_range k (by omega), List.range_eq_range']
    rw [hN]
  have hwalk : g.Walk (kwords k d) := by rw [hkw]; exact h.walk_range N 0 (by omega)
  have hne : g.nodes ≠ [] := by
    intro e
    have := (h.mem_keys (kw k d 0)).mpr ⟨0, by omega, rfl⟩
    simp [Graph.keys, e] at this
  obtain ⟨p, hp⟩ := (heaviestPath_terminates g h.wf h.acyclic fuel hf).2.2 hne h.pos
  obtain ⟨hpw, s, t, rfl, _, hs⟩ := heaviestPath_is_walk g h.wf fuel p hp
  have hs0 := h.source_eq s hs
  subst hs0
  obtain ⟨m, hm, rfl⟩ := h.walk_prefix t 0 (by omega) hpw
  have hopt := heaviestPath_optimal g h.wf h.pos fuel _ hp (kw k d 0) ((List.range' 1 N).map (kw k d)) h.source0
    (by have := hwalk; rw [hkw, List.range'_succ] at this; exact this)
  rw [hp, hkw, List.range'_succ, List.map_cons]
  congr 2
  -- `m = N`: otherwise the k-mer at position `m + 1` would add a positive weight
  have hmN : m = N := by
    apply Classical.byContradiction
    intro hne'
    obtain ⟨r, hr⟩ : ∃ r, N = m + (r + 1) := ⟨N - m - 1, by omega⟩
    have hsplit : List.range' 1 N = List.range' 1 m ++ (1 + m) :: List.range' (1 + m + 1) r := by
      rw [hr, ← List.range'_append (s := 1) (m := m) (n := r + 1) (step := 1), List.range'_succ]
      simp
    rw [pathWeight_cons, pathWeight_cons, hsplit, List.map_append, pathWeight_append, List.map_cons,
      pathWeight_cons] at hopt
    have := h.pos (kw k d (1 + m)) ((h.mem_keys _).mpr ⟨1 + m, by omega, rfl⟩)
    simp only [Nat.zero_add] at hopt
    omega
  rw [hmN]

/-- `LongestConsensus` on the graph of a single read gives back the read -/
theorem consensus (h : OneRead g k d) (fuel : Nat) (hf : g.hpBound ≤ fuel) :
    g.longestConsensus fuel = .seq (d.map decode) := by
  have hk := h.k2
  have hl := h.len
  have hne : g.nodes.isEmpty = false := by
    have := (h.mem_keys (kw k d 0)).mpr ⟨0, by omega, rfl⟩
    cases hn : g.nodes with
    | nil => simp [Graph.keys, hn] at this
    | cons a t => rfl
  unfold Graph.longestConsensus
  rw [hne, h.heaviest fuel hf]
  simp only [Bool.false_eq_true, if_false]
  have := decodePath_kwords g d h.dig (by rw [h.gk]; omega) (by rw [h.gk]; exact hl)
  rw [h.gk] at this
  rw [this]
  have : (d.map decode).isEmpty = false := by
    cases d with
    | nil => simp at hl; omega
    | cons a t => rfl
  rw [this]; rfl

end OneRead

/-- a single read of plain bases (a, c, g, t, u), at least `k` of them, `2 ≤ k ≤ 32`, count at least 1, in
which no window of `k-1` bases occurs twice: the consensus is the read (u read as t) -/
theorem single_read_consensus (k : Nat) (hk : 2 ≤ k) (h32 : k ≤ 32) (s : Bytes) (w : Nat) (hw : 1 ≤ w)
    (hp : ∀ b ∈ s, (plain b).isSome) (hl : k ≤ s.length) (hn : (windowsAll (k - 1) (s.map digit)).Nodup)
    (fuel : Nat) (hf : ((makeGraph k).push s w).hpBound ≤ fuel) :
    ((makeGraph k).push s w).longestConsensus fuel = .seq ((s.map digit).map decode) :=
  (oneRead_push k hk h32 s w hw hp hl hn).consensus fuel hf


end ObiVerif.DeBruijn
