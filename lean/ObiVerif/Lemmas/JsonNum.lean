import ObiVerif.Model.JsonNum
import ObiVerif.Lemmas.Header
/-! Lemmas for `Model/JsonNum.lean` (property C02): decimal digits of naturals, the literal of an `int`, `decomp` on
    the shapes the float formatter prints -/
namespace ObiVerif.JsonNum
open ObiVerif.Header (Bytes)
open ObiVerif.Json

theorem toList_loop (bs : ByteArray) (i : Nat) (r : List UInt8) (hi : i ≤ bs.size) :
    ByteArray.toList.loop bs i r = r.reverse ++ bs.data.toList.drop i := by
  have hsz : bs.size = bs.data.toList.length := by rw [Array.length_toList]; rfl
  induction h : bs.size - i generalizing i r with
  | zero =>
    rw [ByteArray.toList.loop]
    have h2 : ¬ i < bs.size := by omega
    simp only [h2, if_false]
    have : bs.data.toList.drop i = [] := List.drop_of_length_le (by omega)
    rw [this]; simp
  | succ n ih =>
    rw [ByteArray.toList.loop]
    have h2 : i < bs.size := by omega
    simp only [h2, if_true]
    rw [ih (i + 1) _ (by omega) (by omega)]
    have hlen : i < bs.data.toList.length := by omega
    rw [List.drop_eq_getElem_cons hlen]
    have : bs.get! i = bs.data.toList[i] := by
      simp only [ByteArray.get!]
      rw [getElem!_pos bs.data i (by rw [← Array.length_toList]; exact hlen)]
      simp
    rw [this]; simp

theorem byteArray_toList (bs : ByteArray) : bs.toList = bs.data.toList := by
  rw [ByteArray.toList, toList_loop bs 0 [] (Nat.zero_le _)]; simp


theorem digit_utf8 (c : Char) (h : c.isDigit = true) : String.utf8EncodeChar c = [c.val.toUInt8] := by
  apply String.utf8EncodeChar_eq_singleton
  simp [Char.isDigit] at h
  have h3 : c.val ≤ 57 := h.2
  have h4 : c.val ≤ 127 := UInt32.le_trans h3 (by decide)
  simp [Char.utf8Size, h4]

theorem utf8_digits (l : List Char) (h : ∀ c ∈ l, c.isDigit = true) :
    (String.ofList l).toUTF8.toList = l.map (fun c => c.val.toUInt8) := by
  rw [String.toUTF8, String.toByteArray_ofList, byteArray_toList, List.utf8Encode]
  simp only [List.data_toByteArray]
  induction l with
  | nil => simp
  | cons c t ih =>
    simp only [List.flatMap_cons, List.map_cons]
    rw [digit_utf8 c (h c (by simp))]
    simp
    have := ih (fun c hc => h c (List.mem_cons_of_mem _ hc))
    simpa using this

theorem toString_bytes (n : Nat) : (toString n).toUTF8.toList = natDigits n := by
  rw [Nat.toString_eq_ofList_toDigits, natDigits]
  exact utf8_digits _ (fun c hc => Nat.isDigit_of_mem_toDigits (by decide) (by decide) hc)

/-- the byte of the decimal digit `k` -/
def dg (k : Nat) : UInt8 := UInt8.ofNat (48 + k)

theorem digitChar_byte : ∀ k, k < 10 → (Nat.digitChar k).val.toUInt8 = dg k := by decide

theorem natDigits_lt (n : Nat) (h : n < 10) : natDigits n = [dg n] := by
  rw [natDigits, Nat.toDigits_of_lt_base h]
  simp only [List.map_cons, List.map_nil, digitChar_byte n h]

theorem natDigits_ge (n : Nat) (h : 10 ≤ n) : natDigits n = natDigits (n / 10) ++ [dg (n % 10)] := by
  rw [natDigits, Nat.toDigits_of_base_le (by decide) h]
  simp only [List.map_append, List.map_cons, List.map_nil, digitChar_byte (n % 10) (Nat.mod_lt _ (by decide))]
  rfl

theorem digit_props : ∀ k, k < 10 → isDigit (dg k) = true ∧ (dg k).toNat - 48 = k
    ∧ (k ≠ 0 → dg k ≠ 48) := by decide

theorem natDigits_digits (n : Nat) : ∀ c ∈ natDigits n, isDigit c = true := by
  induction n using Nat.strongRecOn with
  | _ n ih =>
    by_cases h : n < 10
    · rw [natDigits_lt n h]; intro c hc
      rw [List.mem_singleton] at hc; subst hc; exact (digit_props n h).1
    · rw [natDigits_ge n (by omega)]
      intro c hc
      rcases List.mem_append.mp hc with hc | hc
      · exact ih (n / 10) (by omega) c hc
      · rw [List.mem_singleton] at hc; subst hc; exact (digit_props _ (Nat.mod_lt _ (by decide))).1

theorem natDigits_ne_nil (n : Nat) : natDigits n ≠ [] := by
  simp [natDigits]

theorem natDigits_head (n : Nat) (h : 0 < n) : ∀ c, (natDigits n).head? = some c → c ≠ 48 := by
  induction n using Nat.strongRecOn with
  | _ n ih =>
    by_cases h10 : n < 10
    · rw [natDigits_lt n h10]; intro c hc
      rw [List.head?_cons, Option.some.injEq] at hc; subst hc; exact (digit_props n h10).2.2 (by omega)
    · rw [natDigits_ge n (by omega)]
      intro c hc
      have hne := natDigits_ne_nil (n / 10)
      cases hd : natDigits (n / 10) with
      | nil => exact absurd hd hne
      | cons x t =>
        rw [hd] at hc
        rw [List.cons_append, List.head?_cons, Option.some.injEq] at hc
        subst hc
        exact ih (n / 10) (by omega) (by omega) x (by rw [hd]; rfl)

theorem digitsVal_append (a : Bytes) (c : UInt8) : digitsVal (a ++ [c]) = digitsVal a * 10 + (c.toNat - 48) := by
  simp [digitsVal, List.foldl_append]

theorem digitsVal_natDigits (n : Nat) : digitsVal (natDigits n) = n := by
  induction n using Nat.strongRecOn with
  | _ n ih =>
    by_cases h : n < 10
    · rw [natDigits_lt n h]
      show 0 * 10 + ((dg n).toNat - 48) = n
      rw [(digit_props n h).2.1]; omega
    · rw [natDigits_ge n (by omega), digitsVal_append, ih (n / 10) (by omega),
        (digit_props _ (Nat.mod_lt _ (by decide))).2.1]
      omega

def expOf : Bytes → Int
  | _ :: 45 :: t => - (digitsVal t : Int)
  | _ :: 43 :: t => (digitsVal t : Int)
  | _ :: t => (digitsVal t : Int)
  | [] => 0

def leadZ (D : Bytes) : Nat := (D.takeWhile (· == 48)).length
def stripZ (D : Bytes) : Bytes := ((D.drop (leadZ D)).reverse.dropWhile (· == 48)).reverse

/-- the unsigned part of `decomp` -/
def decompU (s : Bytes) : Bytes × Int :=
  let ip := s.takeWhile isDigit
  let s1 := s.dropWhile isDigit
  let fps := match s1 with
    | 46 :: t => (t.takeWhile isDigit, t.dropWhile isDigit)
    | _ => (([] : Bytes), s1)
  (stripZ (ip ++ fps.1), (ip.length : Int) + expOf fps.2 - (leadZ (ip ++ fps.1) : Int))

theorem decomp_neg (s : Bytes) : decomp (45 :: s) = (true, (decompU s).1, (decompU s).2) := by
  rfl

theorem decomp_pos (s : Bytes) (h : s.head? ≠ some 45) : decomp s = (false, (decompU s).1, (decompU s).2) := by
  cases s with
  | nil => rfl
  | cons c t =>
    have hc : c ≠ 45 := by intro e; subst e; simp at h
    unfold decomp
    split
    rename_i heq
    split at heq
    · rename_i h2; simp at h2; exact absurd h2.1 hc
    · cases heq; rfl

theorem takeWhile_app (p : UInt8 → Bool) (l r : Bytes) (hl : ∀ c ∈ l, p c = true)
    (hr : ∀ c, r.head? = some c → p c = false) : (l ++ r).takeWhile p = l ∧ (l ++ r).dropWhile p = r := by
  induction l with
  | nil =>
    cases r with
    | nil => simp
    | cons c t => simp [hr c rfl]
  | cons c t ih =>
    have := ih (fun c h => hl c (List.mem_cons_of_mem _ h))
    simp [hl c (by simp), this]

theorem decompU_parts (ip fp tail : Bytes)
    (hip : ∀ c ∈ ip, isDigit c = true) (hfp : ∀ c ∈ fp, isDigit c = true)
    (ht : ∀ c, tail.head? = some c → c = 101) :
    decompU (ip ++ ((if fp = [] then [] else 46 :: fp) ++ tail))
      = (stripZ (ip ++ fp), (ip.length : Int) + expOf tail - (leadZ (ip ++ fp) : Int)) := by
  have htd : ∀ c, tail.head? = some c → isDigit c = false := by
    intro c hc; rw [ht c hc]; decide
  by_cases hf : fp = []
  · subst hf
    simp only [if_true, List.nil_append, List.append_nil]
    obtain ⟨h1, h2⟩ := takeWhile_app isDigit ip tail hip htd
    unfold decompU
    simp only [h1, h2]
    cases tail with
    | nil => simp
    | cons c t =>
      have := ht c rfl; subst this
      simp
  · simp only [hf, if_false]
    have hr : ∀ c, ((46 :: fp) ++ tail).head? = some c → isDigit c = false := by
      intro c hc; simp at hc; subst hc; decide
    obtain ⟨h1, h2⟩ := takeWhile_app isDigit ip ((46 :: fp) ++ tail) hip hr
    obtain ⟨h3, h4⟩ := takeWhile_app isDigit fp tail hfp htd
    simp only [List.cons_append] at h1 h2
    unfold decompU
    simp only [List.cons_append, h1, h2, h3, h4]


/-! ## leading / trailing zeros of normal digits -/

theorem replicate_all48 (k : Nat) : ∀ c ∈ List.replicate k (48 : UInt8), (c == 48) = true := by
  intro c hc; rw [(List.mem_replicate.mp hc).2]; rfl

theorem leadZ_zeros (k : Nat) (D : Bytes) (hh : ∀ c, D.head? = some c → (c == 48) = false) :
    leadZ (List.replicate k 48 ++ D) = k ∧ (List.replicate k 48 ++ D).drop k = D := by
  obtain ⟨h1, _⟩ := takeWhile_app (· == 48) (List.replicate k 48) D (replicate_all48 k) hh
  unfold leadZ
  rw [h1]
  refine ⟨by simp, ?_⟩
  rw [List.drop_append_of_le_length (by simp)]
  simp

theorem stripTrail (D : Bytes) (k : Nat) (hl : ∀ c, D.reverse.head? = some c → (c == 48) = false) :
    ((D ++ List.replicate k 48).reverse.dropWhile (· == 48)).reverse = D := by
  rw [List.reverse_append, List.reverse_replicate]
  obtain ⟨_, h2⟩ := takeWhile_app (· == 48) (List.replicate k 48) D.reverse (replicate_all48 k) hl
  rw [h2, List.reverse_reverse]

/-- `k` zeros, the digits, `j` zeros: `k` leading zeros, the digits are what remains -/
theorem strip_zeros (k j : Nat) (D : Bytes) (hh : ∀ c, D.head? = some c → (c == 48) = false)
    (hl : ∀ c, D.reverse.head? = some c → (c == 48) = false) (hne : D ≠ []) :
    leadZ (List.replicate k 48 ++ (D ++ List.replicate j 48)) = k
      ∧ stripZ (List.replicate k 48 ++ (D ++ List.replicate j 48)) = D := by
  have hh' : ∀ c, (D ++ List.replicate j 48).head? = some c → (c == 48) = false := by
    intro c hc
    cases D with
    | nil => exact absurd rfl hne
    | cons x t => exact hh c hc
  obtain ⟨h1, h2⟩ := leadZ_zeros k (D ++ List.replicate j 48) hh'
  refine ⟨h1, ?_⟩
  unfold stripZ
  rw [h1, h2, stripTrail D j hl]

/-! ## the parts of a printed float: integer digits, fraction digits, exponent -/

/-- `ip [. fp] tail` -/
def assemble (ip fp tail : Bytes) : Bytes := ip ++ ((if fp = [] then [] else 46 :: fp) ++ tail)

structure Parts (D : Bytes) (P : Int) (body : Bytes) : Prop where
  ex : ∃ ip fp tail, body = assemble ip fp tail
    ∧ (∀ c ∈ ip, isDigit c = true) ∧ (∀ c ∈ fp, isDigit c = true) ∧ ip ≠ []
    ∧ (ip = [48] ∨ ∀ c, ip.head? = some c → c ≠ 48)
    ∧ (tail = [] ∨ ∃ sg xd, tail = 101 :: sg :: xd ∧ (sg = 43 ∨ sg = 45) ∧ xd ≠ [] ∧ ∀ c ∈ xd, isDigit c = true)
    ∧ stripZ (ip ++ fp) = D
    ∧ (ip.length : Int) + expOf tail - (leadZ (ip ++ fp) : Int) = P

/-- digits in normal form, non-empty -/
structure NormD (D : Bytes) : Prop where
  dig : ∀ c ∈ D, isDigit c = true
  ne : D ≠ []
  hh : ∀ c, D.head? = some c → (c == 48) = false
  hl : ∀ c, D.reverse.head? = some c → (c == 48) = false

theorem zeros_digits (k : Nat) : ∀ c ∈ List.replicate k (48 : UInt8), isDigit c = true := by
  intro c hc; rw [(List.mem_replicate.mp hc).2]; rfl

theorem NormD.head_ne {D : Bytes} (h : NormD D) : ∀ c, D.head? = some c → c ≠ 48 := by
  intro c hc e; have := h.hh c hc; subst e; exact absurd this (by decide)

/-- `strconv` `'f'` format, `P ≤ 0`: `0.000ddd` -/
theorem parts_small (D : Bytes) (P : Int) (h : NormD D) (hP : P ≤ 0) : Parts D P (positional D P) := by
  refine ⟨[48], List.replicate (-P).toNat 48 ++ D, [], ?_, ?_, ?_, by simp, Or.inl rfl, Or.inl rfl, ?_, ?_⟩
  · have hne : List.replicate (-P).toNat (48 : UInt8) ++ D ≠ [] := by
      intro e; exact h.ne (List.append_eq_nil_iff.mp e).2
    simp only [positional, assemble, h.ne, hP, hne, if_true, if_false, List.append_nil]
    rfl
  · intro c hc; rw [List.mem_singleton] at hc; subst hc; rfl
  · intro c hc
    rcases List.mem_append.mp hc with hc | hc
    · exact zeros_digits _ c hc
    · exact h.dig c hc
  · have := (strip_zeros ((-P).toNat + 1) 0 D h.hh h.hl h.ne).2
    simpa [List.replicate_succ] using this
  · have := (strip_zeros ((-P).toNat + 1) 0 D h.hh h.hl h.ne).1
    have e : [48] ++ (List.replicate (-P).toNat 48 ++ D) = List.replicate ((-P).toNat + 1) 48 ++ (D ++ List.replicate 0 48) := by
      simp [List.replicate_succ]
    rw [e, this]
    simp [expOf]; omega

/-- `'f'` format, `P ≥ len D`: `ddd000` -/
theorem parts_big (D : Bytes) (P : Int) (h : NormD D) (hP : P ≥ D.length) : Parts D P (positional D P) := by
  have hpos : ¬ P ≤ 0 := by
    have : 0 < D.length := List.length_pos_iff.mpr h.ne
    omega
  refine ⟨D ++ List.replicate (P.toNat - D.length) 48, [], [], ?_, ?_, by simp, ?_, Or.inr ?_, Or.inl rfl, ?_, ?_⟩
  · have : P.toNat ≥ D.length := by omega
    simp [positional, assemble, h.ne, hpos, this]
  · intro c hc
    rcases List.mem_append.mp hc with hc | hc
    · exact h.dig c hc
    · exact zeros_digits _ c hc
  · intro e; exact h.ne (List.append_eq_nil_iff.mp e).1
  · intro c hc
    cases D with
    | nil => exact absurd rfl h.ne
    | cons x t => exact h.head_ne c hc
  · have := (strip_zeros 0 (P.toNat - D.length) D h.hh h.hl h.ne).2
    simpa using this
  · have := (strip_zeros 0 (P.toNat - D.length) D h.hh h.hl h.ne).1
    simp only [List.replicate_zero, List.nil_append] at this
    rw [List.append_nil, this]
    simp [expOf]; omega

/-- `'f'` format, `0 < P < len D`: `dd.ddd` -/
theorem parts_mid (D : Bytes) (P : Int) (h : NormD D) (h0 : 0 < P) (h1 : P < D.length) :
    Parts D P (positional D P) := by
  have hd : D.drop P.toNat ≠ [] := by
    intro e; have := List.drop_eq_nil_iff.mp e; omega
  have ht : D.take P.toNat ≠ [] := by
    intro e; rcases List.take_eq_nil_iff.mp e with e | e
    · omega
    · exact h.ne e
  refine ⟨D.take P.toNat, D.drop P.toNat, [], ?_, ?_, ?_, ht, Or.inr ?_, Or.inl rfl, ?_, ?_⟩
  · have : ¬ P.toNat ≥ D.length := by omega
    have hp : ¬ P ≤ 0 := by omega
    simp [positional, assemble, h.ne, hp, this, hd]
  · intro c hc; exact h.dig c (List.mem_of_mem_take hc)
  · intro c hc; exact h.dig c (List.mem_of_mem_drop hc)
  · intro c hc
    have : (D.take P.toNat).head? = D.head? := by
      cases D with
      | nil => exact absurd rfl h.ne
      | cons x t =>
        have : P.toNat = (P.toNat - 1) + 1 := by omega
        rw [this]; rfl
    rw [this] at hc
    exact h.head_ne c hc
  · rw [List.take_append_drop]
    have := (strip_zeros 0 0 D h.hh h.hl h.ne).2
    simpa using this
  · rw [List.take_append_drop]
    have := (strip_zeros 0 0 D h.hh h.hl h.ne).1
    simp only [List.replicate_zero, List.nil_append, List.append_nil] at this
    rw [this]
    have : (D.take P.toNat).length = P.toNat := by rw [List.length_take]; omega
    simp [expOf, this]; omega

theorem digitsVal_pad (l : Bytes) : digitsVal (48 :: l) = digitsVal l := by
  simp [digitsVal]

/-- `'e'` format: `d.ddde±XX` -/
theorem parts_exp (D : Bytes) (P : Int) (h : NormD D) : Parts D P (eFmt D P) := by
  cases hD : D with
  | nil => exact absurd hD h.ne
  | cons d0 rest =>
    subst hD
    let n := (P - 1).natAbs
    let xd : Bytes := if (natDigits n).length < 2 then 48 :: natDigits n else natDigits n
    let sg : UInt8 := if P - 1 < 0 then 45 else 43
    have hxd_ne : xd ≠ [] := by
      show (if (natDigits n).length < 2 then 48 :: natDigits n else natDigits n) ≠ []
      split
      · simp
      · exact natDigits_ne_nil n
    have hxd_dig : ∀ c ∈ xd, isDigit c = true := by
      show ∀ c ∈ (if (natDigits n).length < 2 then 48 :: natDigits n else natDigits n), isDigit c = true
      split
      · intro c hc
        rcases List.mem_cons.mp hc with hc | hc
        · subst hc; rfl
        · exact natDigits_digits n c hc
      · exact natDigits_digits n
    have hxd_val : digitsVal xd = n := by
      show digitsVal (if (natDigits n).length < 2 then 48 :: natDigits n else natDigits n) = n
      split
      · rw [digitsVal_pad, digitsVal_natDigits]
      · exact digitsVal_natDigits n
    have hsg : sg = 43 ∨ sg = 45 := by
      show (if P - 1 < 0 then (45 : UInt8) else 43) = 43 ∨ (if P - 1 < 0 then (45 : UInt8) else 43) = 45
      split <;> simp
    refine ⟨[d0], rest, 101 :: sg :: xd, ?_, ?_, ?_, by simp, Or.inr ?_, Or.inr ⟨sg, xd, rfl, hsg, hxd_ne, hxd_dig⟩, ?_, ?_⟩
    · simp only [eFmt, assemble]
      simp
      exact ⟨rfl, rfl⟩
    · intro c hc; rw [List.mem_singleton] at hc; subst hc; exact h.dig c (by simp)
    · intro c hc; exact h.dig c (List.mem_cons_of_mem _ hc)
    · intro c hc; exact h.head_ne c hc
    · have := (strip_zeros 0 0 (d0 :: rest) h.hh h.hl h.ne).2
      simpa using this
    · have := (strip_zeros 0 0 (d0 :: rest) h.hh h.hl h.ne).1
      simp only [List.replicate_zero, List.nil_append, List.append_nil] at this
      have e1 : [d0] ++ rest = d0 :: rest := rfl
      rw [e1, this]
      have he : expOf (101 :: sg :: xd) = P - 1 := by
        by_cases hneg : P - 1 < 0
        · have : sg = 45 := by show (if P - 1 < 0 then (45 : UInt8) else 43) = 45; rw [if_pos hneg]
          rw [this]; show -(digitsVal xd : Int) = P - 1
          rw [hxd_val]; omega
        · have : sg = 43 := by show (if P - 1 < 0 then (45 : UInt8) else 43) = 43; rw [if_neg hneg]
          rw [this]; show (digitsVal xd : Int) = P - 1
          rw [hxd_val]; omega
      rw [he]; simp; omega

set_option maxRecDepth 100000 in
theorem digit_ne48 : ∀ x : UInt8, isDigit x = true → x ≠ 48 → (49 ≤ x ∧ x ≤ 57) := by
  apply ObiVerif.Header.forall_uint8
  decide

/-! ## what the parts give: the value read back, and the grammar -/

theorem expOK_tail (tail : Bytes)
    (ht : tail = [] ∨ ∃ sg xd, tail = 101 :: sg :: xd ∧ (sg = 43 ∨ sg = 45) ∧ xd ≠ [] ∧ ∀ c ∈ xd, isDigit c = true) :
    expOK tail = true ∧ fracOK tail = true ∧ (∀ c, tail.head? = some c → c = 101) ∧ tail.all numChar = true := by
  rcases ht with rfl | ⟨sg, xd, rfl, hsg, hne, hd⟩
  · exact ⟨rfl, rfl, by simp, rfl⟩
  · have hall : xd.all isDigit = true := List.all_eq_true.mpr hd
    have hnum : xd.all numChar = true := List.all_eq_true.mpr (fun c hc => by simp [numChar, hd c hc])
    have hemp : xd.isEmpty = false := by cases xd with | nil => exact absurd rfl hne | cons _ _ => rfl
    rcases hsg with rfl | rfl
    · exact ⟨by simp [expOK, hall, hemp], by simp [fracOK, expOK, hall, hemp], by simp, by simp [numChar, hnum]⟩
    · exact ⟨by simp [expOK, hall, hemp], by simp [fracOK, expOK, hall, hemp], by simp, by simp [numChar, hnum]⟩

theorem fracOK_mid (fp tail : Bytes) (hfp : ∀ c ∈ fp, isDigit c = true)
    (ht : tail = [] ∨ ∃ sg xd, tail = 101 :: sg :: xd ∧ (sg = 43 ∨ sg = 45) ∧ xd ≠ [] ∧ ∀ c ∈ xd, isDigit c = true) :
    fracOK ((if fp = [] then [] else 46 :: fp) ++ tail) = true := by
  obtain ⟨h1, h2, h3, _⟩ := expOK_tail tail ht
  by_cases hf : fp = []
  · simp [hf, h2]
  · have htd : ∀ c, tail.head? = some c → isDigit c = false := by
      intro c hc; rw [h3 c hc]; decide
    obtain ⟨e1, e2⟩ := takeWhile_app isDigit fp tail hfp htd
    have hemp : fp.isEmpty = false := by cases fp with | nil => exact absurd rfl hf | cons _ _ => rfl
    simp [hf, fracOK, e1, e2, h1, hemp]

theorem parts_read (D : Bytes) (P : Int) (body : Bytes) (hp : Parts D P body) :
    decompU body = (D, P) ∧ (∀ c, body.head? = some c → isDigit c = true) ∧ intOK body = true
      ∧ body.all numChar = true := by
  obtain ⟨ip, fp, tail, rfl, hip, hfp, hne, hlead, ht, hs, hP⟩ := hp.ex
  obtain ⟨h1, h2, h3, h4⟩ := expOK_tail tail ht
  refine ⟨?_, ?_, ?_, ?_⟩
  · rw [assemble, decompU_parts ip fp tail hip hfp h3, hs, hP]
  · intro c hc
    cases ip with
    | nil => exact absurd rfl hne
    | cons x t => simp [assemble] at hc; subst hc; exact hip x (by simp)
  · have hmid := fracOK_mid fp tail hfp ht
    cases ip with
    | nil => exact absurd rfl hne
    | cons x t =>
      have hx := hip x (by simp)
      rcases hlead with e | hh
      · cases e
        simp only [assemble, List.cons_append, List.nil_append, intOK]
        simp [hmid]
      · have hx48 : x ≠ 48 := hh x rfl
        have hr : ∀ c, ((if fp = [] then [] else 46 :: fp) ++ tail).head? = some c → isDigit c = false := by
          intro c hc
          by_cases hf : fp = []
          · simp [hf] at hc; rw [h3 c hc]; decide
          · simp [hf] at hc; subst hc; decide
        obtain ⟨_, e2⟩ := takeWhile_app isDigit t _ (fun c hc => hip c (List.mem_cons_of_mem _ hc)) hr
        have hx2 := digit_ne48 x hx hx48
        simp only [assemble, List.cons_append, intOK]
        simp [hx48, e2, hmid, hx2]
  · simp only [assemble, List.all_append]
    have a1 : ip.all numChar = true := List.all_eq_true.mpr (fun c hc => by simp [numChar, hip c hc])
    have a2 : (if fp = [] then [] else 46 :: fp).all numChar = true := by
      by_cases hf : fp = []
      · simp [hf]
      · simp only [hf, if_false, List.all_cons]
        have : fp.all numChar = true := List.all_eq_true.mpr (fun c hc => by simp [numChar, hfp c hc])
        simp [numChar, this]
    simp [a1, a2, h4]

/-! ## signed literals -/

theorem isNumLit_pos (s : Bytes) (h : ∀ c, s.head? = some c → isDigit c = true) : isNumLit s = intOK s := by
  cases s with
  | nil => rfl
  | cons c t =>
    have hc : c ≠ 45 := by intro e; subst e; exact absurd (h 45 rfl) (by decide)
    unfold isNumLit
    split
    · rename_i h2; simp at h2; exact absurd h2.1 hc
    · rfl

def signed (neg : Bool) (body : Bytes) : Bytes := if neg then 45 :: body else body

theorem numLitOK_parts (neg : Bool) (D : Bytes) (P : Int) (body : Bytes) (hp : Parts D P body) :
    numLitOK (signed neg body) = true := by
  obtain ⟨_, h2, h3, h4⟩ := parts_read D P body hp
  cases neg with
  | true =>
    have : isNumLit (45 :: body) = intOK body := rfl
    simp [signed, numLitOK, this, h3, h4, numChar]
  | false =>
    simp [signed, numLitOK, isNumLit_pos body h2, h3, h4]

theorem decomp_parts (neg : Bool) (D : Bytes) (P : Int) (body : Bytes) (hp : Parts D P body) :
    decomp (signed neg body) = (neg, D, P) := by
  obtain ⟨h1, h2, _, _⟩ := parts_read D P body hp
  cases neg with
  | true => simp only [signed, if_true]; rw [decomp_neg, h1]
  | false =>
    have : body.head? ≠ some 45 := by
      intro e; exact absurd (h2 45 e) (by decide)
    simp only [signed]; rw [if_neg (by simp), decomp_pos body this, h1]

/-! ## floats -/

theorem Dec.norm_NormD (d : Dec) (h : d.norm = true) (hne : d.D ≠ []) : NormD d.D := by
  simp only [Dec.norm, Bool.and_eq_true] at h
  obtain ⟨⟨⟨h1, h2⟩, h3⟩, _⟩ := h
  refine ⟨List.all_eq_true.mp h1, hne, ?_, ?_⟩
  · intro c hc; rw [hc] at h2
    cases hb : (c == 48) with
    | false => rfl
    | true => have := beq_iff_eq.mp hb; subst this; simp at h2
  · intro c hc; rw [List.head?_reverse] at hc; rw [hc] at h3
    cases hb : (c == 48) with
    | false => rfl
    | true => have := beq_iff_eq.mp hb; subst this; simp at h3

theorem fmtFloat_eq (d : Dec) : fmtFloat d = signed d.neg
    (if d.D = [] then [48] else if d.P ≤ -6 ∨ d.P ≥ 22 then eFmt d.D d.P else positional d.D d.P) := rfl

/-- the body of a printed non-zero float has parts -/
theorem fmt_parts (d : Dec) (h : d.norm = true) (hne : d.D ≠ []) :
    Parts d.D d.P (if d.D = [] then [48] else if d.P ≤ -6 ∨ d.P ≥ 22 then eFmt d.D d.P else positional d.D d.P) := by
  have hN := d.norm_NormD h hne
  rw [if_neg hne]
  by_cases he : d.P ≤ -6 ∨ d.P ≥ 22
  · rw [if_pos he]; exact parts_exp d.D d.P hN
  · rw [if_neg he]
    by_cases h0 : d.P ≤ 0
    · exact parts_small d.D d.P hN h0
    · by_cases h1 : d.P ≥ d.D.length
      · exact parts_big d.D d.P hN h1
      · exact parts_mid d.D d.P hN (by omega) (by omega)

/-- **the value (and the sign of zero) of every `float64` survives `AppendFloat64` → decimal value of the literal** -/
theorem ofLit_fmtFloat (d : Dec) (h : d.norm = true) : Dec.ofLit (fmtFloat d) = d := by
  by_cases hne : d.D = []
  · have hP : d.P = 0 := by
      simp only [Dec.norm, Bool.and_eq_true] at h
      have := h.2; simp [hne] at this; exact this
    obtain ⟨neg, D, P⟩ := d
    simp only at hne hP; subst hne; subst hP
    cases neg <;> rfl
  · rw [fmtFloat_eq, Dec.ofLit, decomp_parts d.neg d.D d.P _ (fmt_parts d h hne)]
    simp [hne]

theorem zero_parts : Parts [] 0 [48] :=
  ⟨[48], [], [], rfl, by decide, by simp, by simp, Or.inl rfl, Or.inl rfl, by decide, by decide⟩

/-- **what `AppendFloat64` prints obeys the JSON number grammar** -/
theorem numLitOK_fmtFloat (d : Dec) (h : d.norm = true) : numLitOK (fmtFloat d) = true := by
  rw [fmtFloat_eq]
  by_cases hne : d.D = []
  · rw [if_pos hne]; exact numLitOK_parts d.neg [] 0 [48] zero_parts
  · exact numLitOK_parts d.neg d.D d.P _ (fmt_parts d h hne)

/-! ## ints -/

theorem intLit_eq (i : Int) : intLit i = signed (decide (i < 0)) (natDigits i.natAbs) := by
  unfold intLit signed
  rw [toString_bytes]
  by_cases h : i < 0 <;> simp [h]

theorem natDigits_zero : natDigits 0 = [48] := natDigits_lt 0 (by decide)

/-- the digits of a natural number as parts: all of them before the point -/
theorem nat_parts (n : Nat) :
    Parts (stripZ (natDigits n)) (((natDigits n).length : Int) - (leadZ (natDigits n) : Int)) (natDigits n) := by
  refine ⟨natDigits n, [], [], by simp [assemble], natDigits_digits n, by simp, natDigits_ne_nil n, ?_, Or.inl rfl,
    by simp, by simp [expOf]⟩
  by_cases h : n = 0
  · subst h; exact Or.inl natDigits_zero
  · exact Or.inr (natDigits_head n (by omega))

/-- **`numLitOK (intLit i)` for every `i`** (was a run-time check) -/
theorem numLitOK_intLit (i : Int) : numLitOK (intLit i) = true := by
  rw [intLit_eq]; exact numLitOK_parts _ _ _ _ (nat_parts _)

theorem digitsVal_zeros (a : Bytes) (k : Nat) : digitsVal (a ++ List.replicate k 48) = digitsVal a * 10 ^ k := by
  induction k with
  | zero => simp
  | succ k ih =>
    rw [List.replicate_succ', ← List.append_assoc, digitsVal_append, ih, Nat.pow_succ]
    show digitsVal a * 10 ^ k * 10 + 0 = _
    rw [Nat.add_zero, Nat.mul_assoc]

theorem mem_takeWhile_p (p : UInt8 → Bool) : ∀ (l : Bytes) (c : UInt8), c ∈ l.takeWhile p → p c = true
  | [], _, h => by simp at h
  | x :: t, c, h => by
    by_cases hx : p x = true
    · rw [List.takeWhile_cons_of_pos hx] at h
      rcases List.mem_cons.mp h with e | h
      · rw [e]; exact hx
      · exact mem_takeWhile_p p t c h
    · rw [List.takeWhile_cons_of_neg hx] at h; simp at h

theorem split_trailing (l : Bytes) :
    ∃ k, l = (l.reverse.dropWhile (· == 48)).reverse ++ List.replicate k 48 := by
  refine ⟨(l.reverse.takeWhile (· == 48)).length, ?_⟩
  have h1 : l.reverse = l.reverse.takeWhile (· == 48) ++ l.reverse.dropWhile (· == 48) :=
    (List.takeWhile_append_dropWhile).symm
  have h2 : l.reverse.takeWhile (· == 48) = List.replicate (l.reverse.takeWhile (· == 48)).length 48 := by
    apply List.eq_replicate_iff.mpr
    refine ⟨rfl, ?_⟩
    intro c hc
    exact beq_iff_eq.mp (mem_takeWhile_p (· == 48) _ c hc)
  have h3 := congrArg List.reverse h1
  rw [List.reverse_reverse, List.reverse_append] at h3
  rw [h2, List.reverse_replicate] at h3
  rw [← h2] at h3
  rw [h2] at h3
  simpa using h3

/-- **an `int` is read back as the `float64` of exactly its value**: the decimal value of `AppendInt`'s literal is
    integral and equal to `i`, for every `i` -/
theorem ofLit_intLit (i : Int) : (Dec.ofLit (intLit i)).isInt = true ∧ (Dec.ofLit (intLit i)).toInt = i := by
  rw [intLit_eq, Dec.ofLit, decomp_parts _ _ _ _ (nat_parts _)]
  simp only
  by_cases h0 : i.natAbs = 0
  · have : i = 0 := Int.natAbs_eq_zero.mp h0
    subst this
    decide
  · have hh := natDigits_head i.natAbs (by omega)
    have hlead : leadZ (natDigits i.natAbs) = 0 := by
      have hh' : ∀ c, (natDigits i.natAbs).head? = some c → (c == 48) = false := by
        intro c hc; cases hb : (c == 48) with
        | false => rfl
        | true => exact absurd (beq_iff_eq.mp hb) (hh c hc)
      have := (leadZ_zeros 0 (natDigits i.natAbs) hh').1
      simpa using this
    obtain ⟨k, hk⟩ := split_trailing (natDigits i.natAbs)
    have hs : stripZ (natDigits i.natAbs) = ((natDigits i.natAbs).reverse.dropWhile (· == 48)).reverse := by
      unfold stripZ; rw [hlead]; rfl
    generalize hD : stripZ (natDigits i.natAbs) = D at *
    rw [← hs] at hk
    have hne : D ≠ [] := by
      intro e
      rw [e, List.nil_append] at hk
      have hne := natDigits_ne_nil i.natAbs
      cases k with
      | zero => exact hne (by simpa using hk)
      | succ k => exact hh 48 (by rw [hk]; rfl) rfl
    have hval : digitsVal D * 10 ^ k = i.natAbs := by
      rw [← digitsVal_zeros, ← hk, digitsVal_natDigits]
    have hlen : (natDigits i.natAbs).length = D.length + k := by
      rw [hk]; simp
    rw [if_neg hne, hlead]
    refine ⟨by simp [Dec.isInt, hlen]; omega, ?_⟩
    simp only [Dec.toInt, hlen]
    have : ((D.length + k : Nat) : Int) - ((0 : Nat) : Int) - (D.length : Int) = (k : Int) := by omega
    rw [this, Int.toNat_natCast, hval]
    by_cases hneg : i < 0
    · simp [hneg]; omega
    · simp [hneg]; omega

/-! ## values -/

mutual
  theorem toJ_WF_val : ∀ v : GVal, v.WF = true → v.toJ.WF = true
    | .null, _ => rfl
    | .bool _, _ => rfl
    | .int i, _ => by simp only [GVal.toJ, JVal.WF]; exact numLitOK_intLit i
    | .float d, h => by simp only [GVal.toJ, JVal.WF]; exact numLitOK_fmtFloat d h
    | .str _, _ => rfl
    | .arr l, h => by simp only [GVal.toJ, JVal.WF]; exact toJ_WF_list l h
    | .obj m, h => by simp only [GVal.toJ, JVal.WF]; exact toJ_WF_mems m h
  theorem toJ_WF_list : ∀ l : GList, l.WF = true → l.toJ.WF = true
    | .nil, _ => rfl
    | .cons v t, h => by
      simp only [GList.WF, Bool.and_eq_true] at h
      simp only [GList.toJ, JList.WF, Bool.and_eq_true]
      exact ⟨toJ_WF_val v h.1, toJ_WF_list t h.2⟩
  theorem toJ_WF_mems : ∀ m : GMems, m.WF = true → m.toJ.WF = true
    | .nil, _ => rfl
    | .cons _ v t, h => by
      simp only [GMems.WF, Bool.and_eq_true] at h
      simp only [GMems.toJ, JMems.WF, Bool.and_eq_true]
      exact ⟨toJ_WF_val v h.1, toJ_WF_mems t h.2⟩
end

mutual
  theorem ofJ_toJ_val : ∀ v : GVal, v.WF = true → GVal.ofJ v.toJ = v.floatify
    | .null, _ => rfl
    | .bool _, _ => rfl
    | .int _, _ => rfl
    | .float d, h => by simp only [GVal.toJ, GVal.ofJ, GVal.floatify]; rw [ofLit_fmtFloat d h]
    | .str _, _ => rfl
    | .arr l, h => by simp only [GVal.toJ, GVal.ofJ, GVal.floatify]; rw [ofJ_toJ_list l h]
    | .obj m, h => by simp only [GVal.toJ, GVal.ofJ, GVal.floatify]; rw [ofJ_toJ_mems m h]
  theorem ofJ_toJ_list : ∀ l : GList, l.WF = true → GList.ofJ l.toJ = l.floatify
    | .nil, _ => rfl
    | .cons v t, h => by
      simp only [GList.WF, Bool.and_eq_true] at h
      simp only [GList.toJ, GList.ofJ, GList.floatify]
      rw [ofJ_toJ_val v h.1, ofJ_toJ_list t h.2]
  theorem ofJ_toJ_mems : ∀ m : GMems, m.WF = true → GMems.ofJ m.toJ = m.floatify
    | .nil, _ => rfl
    | .cons _ v t, h => by
      simp only [GMems.WF, Bool.and_eq_true] at h
      simp only [GMems.toJ, GMems.ofJ, GMems.floatify]
      rw [ofJ_toJ_val v h.1, ofJ_toJ_mems t h.2]
end

mutual
  theorem floatify_noInt_val : ∀ v : GVal, v.noInt = true → v.floatify = v
    | .null, _ => rfl
    | .bool _, _ => rfl
    | .int _, h => by simp [GVal.noInt] at h
    | .float _, _ => rfl
    | .str _, _ => rfl
    | .arr l, h => by simp only [GVal.floatify]; rw [floatify_noInt_list l h]
    | .obj m, h => by simp only [GVal.floatify]; rw [floatify_noInt_mems m h]
  theorem floatify_noInt_list : ∀ l : GList, l.noInt = true → l.floatify = l
    | .nil, _ => rfl
    | .cons v t, h => by
      simp only [GList.noInt, Bool.and_eq_true] at h
      simp only [GList.floatify]; rw [floatify_noInt_val v h.1, floatify_noInt_list t h.2]
  theorem floatify_noInt_mems : ∀ m : GMems, m.noInt = true → m.floatify = m
    | .nil, _ => rfl
    | .cons _ v t, h => by
      simp only [GMems.noInt, Bool.and_eq_true] at h
      simp only [GMems.floatify]; rw [floatify_noInt_val v h.1, floatify_noInt_mems t h.2]
end

mutual
  theorem floatify_noInt'_val : ∀ v : GVal, v.floatify.noInt = true
    | .null => rfl
    | .bool _ => rfl
    | .int _ => rfl
    | .float _ => rfl
    | .str _ => rfl
    | .arr l => by simp only [GVal.floatify, GVal.noInt]; exact floatify_noInt'_list l
    | .obj m => by simp only [GVal.floatify, GVal.noInt]; exact floatify_noInt'_mems m
  theorem floatify_noInt'_list : ∀ l : GList, l.floatify.noInt = true
    | .nil => rfl
    | .cons v t => by
      simp only [GList.floatify, GList.noInt, Bool.and_eq_true]
      exact ⟨floatify_noInt'_val v, floatify_noInt'_list t⟩
  theorem floatify_noInt'_mems : ∀ m : GMems, m.floatify.noInt = true
    | .nil => rfl
    | .cons _ v t => by
      simp only [GMems.floatify, GMems.noInt, Bool.and_eq_true]
      exact ⟨floatify_noInt'_val v, floatify_noInt'_mems t⟩
end

theorem narrowAsIs1_id (v : GVal) : narrowAsIs1 v = v := by
  cases v <;> rfl

theorem narrowAsIs_id : ∀ m : GMems, narrowAsIs m = m
  | .nil => rfl
  | .cons k v t => by simp only [narrowAsIs]; rw [narrowAsIs1_id, narrowAsIs_id t]

end ObiVerif.JsonNum
