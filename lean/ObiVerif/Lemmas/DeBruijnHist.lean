import ObiVerif.Model.DeBruijnHist
import ObiVerif.Lemmas.DeBruijnOrder
import ObiVerif.Lemmas.DeBruijnHeap
set_option Elab.async false
/-!
# Histories on one graph object (C19, fourth pass)

* `Graph.Inv`: what every state reached by `MakeDeBruijnGraph`, `Push` (counts ≥ 1) and `FilterMinWeight` satisfies
  (parameters of `MakeDeBruijnGraph`, distinct keys, positive weights); `inv_after`.
* `filterMinWeight_filterMinWeight`: two filters in a row are one filter (`fmax`).
* `after_equiv`: equivalent states (same map) stay equivalent under any history; `pushes_perm_from`: a run of pushes
  may be permuted on any reachable state.
* `fresh_equiv`: the graph rebuilt from the weight table of a reachable state (every k-mer pushed as a read of `k`
  bases, its weight as count) holds the same map; `answer_equiv`: the answers are a function of the map.
-/
namespace ObiVerif.DeBruijn
open ObiVerif.Kmer

/-! ## the invariant of reachable states -/

structure Graph.Inv (g : Graph) : Prop where
  wf : g.WF
  nodup : g.keys.Nodup
  pos : ∀ x ∈ g.keys, 0 < g.weight x

/-- the counts of the pushed reads are at least 1 -/
def Step.Pos : Step → Prop
  | .push _ w => 1 ≤ w
  | _ => True

theorem inv_make (k : Nat) (hk : 1 ≤ k) (h32 : k ≤ 32) : (makeGraph k).Inv :=
  ⟨makeGraph_wf k hk h32, by simp [Graph.keys, makeGraph], by intro x hx; simp [Graph.keys, makeGraph] at hx⟩

theorem inv_push (g : Graph) (h : g.Inv) (s : Bytes) (w : Nat) (hw : 1 ≤ w) : (g.push s w).Inv :=
  ⟨push_wf g h.wf s w, push_nodup g s w h.nodup, push_pos g s w hw h.pos⟩

theorem inv_filter (g : Graph) (h : g.Inv) (min : Int) : (g.filterMinWeight min).Inv :=
  ⟨filterMinWeight_wf g h.wf min, filterMinWeight_nodup g h.nodup min, filterMinWeight_pos g h.nodup min h.pos⟩

theorem inv_apply (g : Graph) (h : g.Inv) (s : Step) (hs : s.Pos) : (g.apply s).Inv := by
  cases s with
  | push r w => exact inv_push g h r w hs
  | filter m => exact inv_filter g h m
  | query => exact h
  | cov m e => exact h

theorem inv_after (hist : List Step) : ∀ (g : Graph), g.Inv → (∀ s ∈ hist, s.Pos) → (g.after hist).Inv := by
  induction hist with
  | nil => intro g h _; exact h
  | cons s t ih =>
    intro g h hp
    exact ih (g.apply s) (inv_apply g h s (hp s (by simp))) (fun s' hs' => hp s' (by simp [hs']))

theorem after_append (g : Graph) (a b : List Step) : g.after (a ++ b) = (g.after a).after b := by
  simp [Graph.after, List.foldl_append]

theorem inv_pushes (reads : List (Bytes × Nat)) : ∀ (g : Graph), g.Inv → (∀ r ∈ reads, 1 ≤ r.2) →
    (reads.foldl (fun g r => g.push r.1 r.2) g).Inv := by
  induction reads with
  | nil => intro g h _; exact h
  | cons r rs ih =>
    intro g h hc
    exact ih _ (inv_push g h r.1 r.2 (hc r (by simp))) (fun r' hr' => hc r' (by simp [hr']))

/-! ## two filters in a row -/

theorem filterMinWeight_filterMinWeight (g : Graph) (a b : Int) :
    (g.filterMinWeight a).filterMinWeight b = g.filterMinWeight (fmax a b) := by
  unfold Graph.filterMinWeight fmax
  by_cases ha : a < 0
  · by_cases hb : b < 0 <;> simp [ha, hb]
  · by_cases hb : b < 0
    · simp [ha, hb]
    · by_cases hab : a ≤ b
      · simp only [ha, hb, hab, if_false, if_true, List.filter_filter]
        congr 1
        apply List.filter_congr
        intro p _
        have : a.toNat ≤ b.toNat := by omega
        by_cases h1 : p.2 < b.toNat
        · simp [h1]
        · have : ¬ p.2 < a.toNat := by omega
          simp [h1, this]
      · simp only [ha, hb, hab, if_false, List.filter_filter]
        congr 1
        apply List.filter_congr
        intro p _
        have : b.toNat ≤ a.toNat := by omega
        by_cases h1 : p.2 < a.toNat
        · simp [h1]
        · have : ¬ p.2 < b.toNat := by omega
          simp [h1, this]

/-! ## a state with positive weights is determined by its weight function -/

theorem lookup_of_pos (g : Graph) (hpos : ∀ x ∈ g.keys, 0 < g.weight x) (x : Nat) :
    g.nodes.lookup x = if 0 < g.weight x then some (g.weight x) else none := by
  rw [lookup_eq_has_weight]
  cases hh : has g.nodes x with
  | true =>
    have := hpos x ((g.has_iff x).1 hh)
    simp only [Graph.weight] at this ⊢
    simp [this]
  | false =>
    have h0 := getD0_of_not_has g.nodes x hh
    have : g.weight x = 0 := h0
    simp [this]

theorem equiv_of_weight (g g' : Graph) (hpos : ∀ x ∈ g.keys, 0 < g.weight x)
    (hpos' : ∀ x ∈ g'.keys, 0 < g'.weight x)
    (hp : g.k = g'.k ∧ g.mask = g'.mask ∧ g.prevc = g'.prevc ∧ g.prevg = g'.prevg ∧ g.prevt = g'.prevt)
    (hw : ∀ x, g.weight x = g'.weight x) : g.Equiv g' := by
  refine ⟨hp.1, hp.2.1, hp.2.2.1, hp.2.2.2.1, hp.2.2.2.2, fun x => ?_⟩
  rw [lookup_of_pos g hpos, lookup_of_pos g' hpos', hw]

theorem Graph.Equiv.params {g g' : Graph} (e : g.Equiv g') :
    g.k = g'.k ∧ g.mask = g'.mask ∧ g.prevc = g'.prevc ∧ g.prevg = g'.prevg ∧ g.prevt = g'.prevt :=
  ⟨e.1, e.2.1, e.2.2.1, e.2.2.2.1, e.2.2.2.2.1⟩

theorem Graph.Equiv.symm {g g' : Graph} (e : g.Equiv g') : g'.Equiv g :=
  ⟨e.1.symm, e.2.1.symm, e.2.2.1.symm, e.2.2.2.1.symm, e.2.2.2.2.1.symm, fun x => (e.2.2.2.2.2 x).symm⟩

theorem Graph.Equiv.trans {a b c : Graph} (e : a.Equiv b) (f : b.Equiv c) : a.Equiv c :=
  ⟨e.1.trans f.1, e.2.1.trans f.2.1, e.2.2.1.trans f.2.2.1, e.2.2.2.1.trans f.2.2.2.1,
    e.2.2.2.2.1.trans f.2.2.2.2.1, fun x => (e.2.2.2.2.2 x).trans (f.2.2.2.2.2 x)⟩

theorem Graph.Equiv.refl (g : Graph) : g.Equiv g := ⟨rfl, rfl, rfl, rfl, rfl, fun _ => rfl⟩

theorem wf_mask2 (g : Graph) (h : g.WF) : g.mask = 2 ^ (2 * g.k) - 1 := by
  rw [h.mask, Nat.pow_mul]

theorem wf_k64 (g : Graph) (h : g.WF) : 2 * g.k ≤ 64 := by have := h.k32; omega

/-! ## the mutators respect the equivalence -/

theorem push_equiv (g g' : Graph) (e : g.Equiv g') (h : g.Inv) (h' : g'.Inv) (s : Bytes) (w : Nat) (hw : 1 ≤ w) :
    (g.push s w).Equiv (g'.push s w) := by
  have i := inv_push g h s w hw
  have i' := inv_push g' h' s w hw
  obtain ⟨a, b, c, d, f⟩ := push_params g s w
  obtain ⟨a', b', c', d', f'⟩ := push_params g' s w
  obtain ⟨p1, p2, p3, p4, p5⟩ := e.params
  apply equiv_of_weight _ _ i.pos i'.pos
  · exact ⟨by rw [a, a', p1], by rw [b, b', p2], by rw [c, c', p3], by rw [d, d', p4], by rw [f, f', p5]⟩
  · intro x
    rw [push_iupac g h.wf.kpos (wf_k64 g h.wf) (wf_mask2 g h.wf), push_iupac g' h'.wf.kpos (wf_k64 g' h'.wf) (wf_mask2 g' h'.wf),
      e.weight_eq, p1]

theorem filter_equiv (g g' : Graph) (e : g.Equiv g') (hn : g.keys.Nodup) (hn' : g'.keys.Nodup) (min : Int) :
    (g.filterMinWeight min).Equiv (g'.filterMinWeight min) := by
  obtain ⟨p1, p2, p3, p4, p5⟩ := e.params
  refine ⟨p1, p2, p3, p4, p5, fun x => ?_⟩
  rw [filterMinWeight_lookup g hn, filterMinWeight_lookup g' hn', e.2.2.2.2.2 x]

theorem apply_equiv (g g' : Graph) (e : g.Equiv g') (h : g.Inv) (h' : g'.Inv) (s : Step) (hs : s.Pos) :
    (g.apply s).Equiv (g'.apply s) := by
  cases s with
  | push r w => exact push_equiv g g' e h h' r w hs
  | filter m => exact filter_equiv g g' e h.nodup h'.nodup m
  | query => exact e
  | cov m e' => exact e

/-- equivalent states stay equivalent under any history -/
theorem after_equiv (hist : List Step) : ∀ (g g' : Graph), g.Equiv g' → g.Inv → g'.Inv → (∀ s ∈ hist, s.Pos) →
    (g.after hist).Equiv (g'.after hist) := by
  induction hist with
  | nil => intro g g' e _ _ _; exact e
  | cons s t ih =>
    intro g g' e h h' hp
    have hs := hp s (by simp)
    exact ih (g.apply s) (g'.apply s) (apply_equiv g g' e h h' s hs) (inv_apply g h s hs) (inv_apply g' h' s hs)
      (fun s' hs' => hp s' (by simp [hs']))

/-! ## a run of pushes on any reachable state -/

theorem pushes_weight_from (reads : List (Bytes × Nat)) (x : Nat) : ∀ (g : Graph), g.WF →
    (reads.foldl (fun g r => g.push r.1 r.2) g).weight x
      = g.weight x + (reads.map fun r => r.2 * winCount g.k x (validPrefix r.1)).sum := by
  induction reads with
  | nil => intro g _; simp
  | cons r rs ih =>
    intro g h
    have h1 := push_iupac g h.kpos (wf_k64 g h) (wf_mask2 g h) r.1 r.2 x
    rw [List.foldl_cons, ih (g.push r.1 r.2) (push_wf g h r.1 r.2), h1, (push_k g r.1 r.2).1]
    simp [Nat.add_assoc]

theorem pushes_params_from (reads : List (Bytes × Nat)) (g : Graph) :
    let g' := reads.foldl (fun g r => g.push r.1 r.2) g
    g'.k = g.k ∧ g'.mask = g.mask ∧ g'.prevc = g.prevc ∧ g'.prevg = g.prevg ∧ g'.prevt = g.prevt :=
  pushes_params reads g

/-- pushing the same reads (counts ≥ 1) in another order on ANY reachable state gives the same map -/
theorem pushes_perm_from (g : Graph) (h : g.Inv) (reads reads' : List (Bytes × Nat)) (hp : reads.Perm reads')
    (hc : ∀ r ∈ reads, 1 ≤ r.2) :
    (reads.foldl (fun g r => g.push r.1 r.2) g).Equiv (reads'.foldl (fun g r => g.push r.1 r.2) g) := by
  have hc' : ∀ r ∈ reads', 1 ≤ r.2 := fun r hr => hc r (hp.mem_iff.2 hr)
  obtain ⟨a, b, c, d, e⟩ := pushes_params reads g
  obtain ⟨a', b', c', d', e'⟩ := pushes_params reads' g
  apply equiv_of_weight _ _ (inv_pushes reads g h hc).pos (inv_pushes reads' g h hc').pos
  · exact ⟨a.trans a'.symm, b.trans b'.symm, c.trans c'.symm, d.trans d'.symm, e.trans e'.symm⟩
  · intro x
    rw [pushes_weight_from reads x g h.wf, pushes_weight_from reads' x g h.wf]
    congr 1
    exact (hp.map _).sum_nat

/-! ## the graph rebuilt from the weight table -/

theorem exists_digits (k : Nat) : ∀ x, x < 4 ^ k → ∃ d : List Nat, Dig d ∧ d.length = k ∧ val d = x := by
  induction k with
  | zero => intro x hx; exact ⟨[], by intro c hc; simp at hc, rfl, by simp [val]; omega⟩
  | succ k ih =>
    intro x hx
    obtain ⟨d, hd, hl, hv⟩ := ih (x / 4) (by rw [Nat.pow_succ] at hx; omega)
    refine ⟨d ++ [x % 4], ?_, by simp [hl], by rw [val_snoc, hv]; omega⟩
    intro c hc
    rcases List.mem_append.1 hc with hc | hc
    · exact hd c hc
    · simp at hc; omega

theorem plain_decode (c : Nat) (hc : c < 4) : plain (decode c) = some c := by
  have : c = 0 ∨ c = 1 ∨ c = 2 ∨ c = 3 := by omega
  rcases this with rfl | rfl | rfl | rfl <;> decide

theorem map_plain_decode (d : List Nat) (hd : Dig d) : (d.map decode).map plain = d.map some := by
  rw [List.map_map]
  apply List.map_congr_left
  intro c hc
  exact plain_decode c (hd c hc)

theorem kwords_full (k : Nat) (hk : 1 ≤ k) (d : List Nat) (hl : d.length = k) : kwords k d = [val d] := by
  rw [kwords_eq_range k hk, hl]
  have : k + 1 - k = 1 := by omega
  rw [this]
  simp [kw, ← hl]

/-- pushing the read that spells the k-mer `y` adds its count to `y` and to nothing else -/
theorem push_kmerRead (g : Graph) (h : g.WF) (y w x : Nat) (hy : y < 4 ^ g.k) :
    (g.push (kmerRead g.k y) w).weight x = g.weight x + (if y = x then w else 0) := by
  obtain ⟨d, hd, hl, hv⟩ := exists_digits g.k y hy
  have hr : kmerRead g.k y = d.map decode := by
    unfold kmerRead
    rw [← hv, ← hl]
    exact decodeNode_val d hd
  have hpl : ∀ b ∈ d.map decode, (plain b).isSome := by
    intro b hb
    obtain ⟨c, hc, rfl⟩ := List.mem_map.1 hb
    rw [plain_decode c (hd c hc)]; rfl
  rw [hr, push_plain g h.kpos (wf_k64 g h) (wf_mask2 g h) _ w x hpl, map_plain_decode d hd, winSpec_digits,
    kwords_full g.k h.kpos d hl, hv]
  by_cases e : y = x
  · subst e; simp
  · simp [e]

/-- sum of the weights listed under `x` in a table -/
def tableSum (table : List (Nat × Nat)) (x : Nat) : Nat := (table.map fun p => if p.1 = x then p.2 else 0).sum

theorem fresh_weight_from (k : Nat) (x : Nat) (table : List (Nat × Nat)) : ∀ (g : Graph), g.WF → g.k = k →
    (∀ p ∈ table, p.1 < 4 ^ k) →
    (table.foldl (fun g p => g.push (kmerRead k p.1) p.2) g).weight x = g.weight x + tableSum table x := by
  induction table with
  | nil => intro g _ _ _; simp [tableSum]
  | cons p t ih =>
    intro g h hk hb
    have hp := hb p (by simp)
    have h1 := push_kmerRead g h p.1 p.2 x (by rw [hk]; exact hp)
    rw [hk] at h1
    rw [List.foldl_cons, ih (g.push (kmerRead k p.1) p.2) (push_wf g h _ _) (by rw [(push_k g _ _).1, hk])
      (fun q hq => hb q (by simp [hq])), h1]
    simp [tableSum, Nat.add_assoc]

theorem tableSum_not_mem (table : List (Nat × Nat)) (x : Nat) (h : x ∉ table.map Prod.fst) : tableSum table x = 0 := by
  induction table with
  | nil => rfl
  | cons p t ih =>
    simp only [List.map_cons, List.mem_cons, not_or] at h
    have : ¬ p.1 = x := fun e => h.1 e.symm
    simp only [tableSum, List.map_cons, List.sum_cons, this, if_false, Nat.zero_add]
    exact ih h.2

theorem weightOf_not_mem (table : List (Nat × Nat)) (x : Nat) (h : x ∉ table.map Prod.fst) : weightOf table x = 0 := by
  have : has table x = false := by
    cases hh : has table x with
    | false => rfl
    | true => exact absurd ((has_iff_mem table x).1 hh) h
  exact getD0_of_not_has table x this

theorem tableSum_nodup (table : List (Nat × Nat)) (hn : (table.map Prod.fst).Nodup) (x : Nat) :
    tableSum table x = weightOf table x := by
  induction table with
  | nil => rfl
  | cons p t ih =>
    obtain ⟨y, v⟩ := p
    simp only [List.map_cons, List.nodup_cons] at hn
    by_cases e : y = x
    · subst e
      have h0 := tableSum_not_mem t y hn.1
      simp only [tableSum] at h0
      simp [tableSum, weightOf, List.lookup, h0]
    · have e' : (x == y) = false := by simp; omega
      have := ih hn.2
      simp only [tableSum, weightOf] at this
      simp [tableSum, weightOf, List.lookup, e, e', this]

theorem fresh_eq_pushes (k : Nat) (table : List (Nat × Nat)) :
    fresh k table = (table.map fun p => (kmerRead k p.1, p.2)).foldl (fun g r => g.push r.1 r.2) (makeGraph k) := by
  simp [fresh, List.foldl_map]

/-- **The graph rebuilt from the table of a reachable state holds the same map.** -/
theorem fresh_equiv (g : Graph) (h : g.Inv) : (fresh g.k g.nodes).Equiv g ∧ (fresh g.k g.nodes).Inv := by
  have hmk := makeGraph_wf g.k h.wf.kpos h.wf.k32
  have hc : ∀ r ∈ g.nodes.map (fun p => (kmerRead g.k p.1, p.2)), 1 ≤ r.2 := by
    intro r hr
    obtain ⟨p, hp, rfl⟩ := List.mem_map.1 hr
    have := h.pos p.1 (List.mem_map.2 ⟨p, hp, rfl⟩)
    rw [weight_of_mem_nodup g h.nodup p hp] at this
    exact this
  have hinv : (fresh g.k g.nodes).Inv := by
    rw [fresh_eq_pushes]
    exact inv_pushes _ _ (inv_make g.k h.wf.kpos h.wf.k32) hc
  refine ⟨?_, hinv⟩
  apply equiv_of_weight _ _ hinv.pos h.pos
  · rw [fresh_eq_pushes]
    obtain ⟨a, b, c, d, e⟩ := pushes_params (g.nodes.map fun p => (kmerRead g.k p.1, p.2)) (makeGraph g.k)
    refine ⟨a, ?_, ?_, ?_, ?_⟩
    · rw [b, hmk.mask, h.wf.mask]; rfl
    · rw [c, hmk.prevc, h.wf.prevc]; rfl
    · rw [d, hmk.prevg, h.wf.prevg]; rfl
    · rw [e, hmk.prevt, h.wf.prevt]; rfl
  · intro x
    have hb : ∀ p ∈ g.nodes, p.1 < 4 ^ g.k := fun p hp => h.wf.bound p.1 (List.mem_map.2 ⟨p, hp, rfl⟩)
    have := fresh_weight_from g.k x g.nodes (makeGraph g.k) hmk rfl hb
    unfold fresh
    rw [this, tableSum_nodup g.nodes h.nodup]
    simp [Graph.weight, weightOf, makeGraph]

/-! ## the answers are a function of the map -/

theorem maxWeight_le_of_equiv (g g' : Graph) (e : g.Equiv g') (hn : g.keys.Nodup) (_hn' : g'.keys.Nodup) :
    g.maxWeight ≤ g'.maxWeight := by
  by_cases hne : g.nodes = []
  · simp [Graph.maxWeight, hne]
  · obtain ⟨x, _, hx⟩ := maxWeight_attained g hn hne
    rw [← hx, e.weight_eq]
    exact maxWeight_ge g' x

theorem maxWeight_equiv (g g' : Graph) (e : g.Equiv g') (hn : g.keys.Nodup) (hn' : g'.keys.Nodup) :
    g.maxWeight = g'.maxWeight :=
  Nat.le_antisymm (maxWeight_le_of_equiv g g' e hn hn') (maxWeight_le_of_equiv g' g e.symm hn' hn)

theorem answer_equiv (g g' : Graph) (e : g.Equiv g') (hn : g.keys.Nodup) (hn' : g'.keys.Nodup) (fuel : Nat) :
    g.answer fuel = g'.answer fuel := by
  unfold Graph.answer
  rw [e.hasCycle_eq, maxWeight_equiv g g' e hn hn', heaviestPathH_eq, heaviestPathH_eq, longestConsensusH_eq,
    longestConsensusH_eq, heaviestPath_equiv g g' e hn hn' fuel, longestConsensus_equiv g g' e hn hn' fuel]
  have : g.len = g'.len := e.length_eq hn hn'
  rw [this]

/-! ## the trace -/

theorem trace_append (fuel : Nat) (a b : List Step) : ∀ (g : Graph),
    Graph.trace fuel g (a ++ b) = Graph.trace fuel g a ++ Graph.trace fuel (g.after a) b := by
  induction a with
  | nil => intro g; rfl
  | cons s t ih =>
    intro g
    cases s with
    | push r w => simp only [List.cons_append, Graph.trace]; rw [ih]; rfl
    | filter m => simp only [List.cons_append, Graph.trace]; rw [ih]; rfl
    | query => simp only [List.cons_append, Graph.trace]; rw [ih]; rfl
    | cov m e => simp only [List.cons_append, Graph.trace]; rw [ih]; rfl

/-! ## more on histories -/

theorem apply_k (g : Graph) (s : Step) : (g.apply s).k = g.k := by
  cases s with
  | push r w => exact (push_k g r w).1
  | filter m => rfl
  | query => rfl
  | cov m e => rfl

theorem after_k (hist : List Step) : ∀ (g : Graph), (g.after hist).k = g.k := by
  induction hist with
  | nil => intro g; rfl
  | cons s t ih => intro g; exact (ih (g.apply s)).trans (apply_k g s)

theorem after_pushes (g : Graph) (reads : List (Bytes × Nat)) :
    g.after (reads.map fun r => Step.push r.1 r.2) = reads.foldl (fun g r => g.push r.1 r.2) g := by
  simp [Graph.after, List.foldl_map, Graph.apply]

/-- a mutator (`Push`, `FilterMinWeight`), as opposed to a query -/
def Step.isMut : Step → Bool
  | .push _ _ => true
  | .filter _ => true
  | _ => false

theorem after_mutators (hist : List Step) : ∀ (g : Graph), g.after (hist.filter Step.isMut) = g.after hist := by
  induction hist with
  | nil => intro g; rfl
  | cons s t ih =>
    intro g
    cases s with
    | push r w => simp only [List.filter, Step.isMut]; exact ih _
    | filter m => simp only [List.filter, Step.isMut]; exact ih _
    | query => simp only [List.filter, Step.isMut]; exact ih _
    | cov m e => simp only [List.filter, Step.isMut]; exact ih _

theorem pos_of_pushes (reads : List (Bytes × Nat)) (hc : ∀ r ∈ reads, 1 ≤ r.2) :
    ∀ s ∈ reads.map (fun r => Step.push r.1 r.2), s.Pos := by
  intro s hs
  obtain ⟨r, hr, rfl⟩ := List.mem_map.1 hs
  exact hc r hr

theorem consensusCov_equiv (g g' : Graph) (e : g.Equiv g') (hn : g.keys.Nodup) (hn' : g'.keys.Nodup) (fuel m : Nat)
    (ex : Int) : g.consensusCovCands fuel m ex = g'.consensusCovCands fuel m ex := by
  have hH : g.heaviestPathH fuel = g'.heaviestPathH fuel := by
    rw [heaviestPathH_eq, heaviestPathH_eq]; exact heaviestPath_equiv g g' e hn hn' fuel
  have hE : g.nodes.isEmpty = g'.nodes.isEmpty := by
    have := e.length_eq hn hn'
    cases h1 : g.nodes <;> cases h2 : g'.nodes <;> simp [h1, h2] at this ⊢
  have hD : g.decodePath = g'.decodePath := by funext p; exact decodePath_equiv e p
  unfold Graph.consensusCovCands Graph.longestConsensusCov
  rw [hH, hE, e.weight_eq, hD]

end ObiVerif.DeBruijn

namespace ObiVerif.Kmer

/-- the state of the index after a history -/
def IState.after (m : KmerMap) (st : IState) (h : List IStep) : IState := h.foldl (IState.apply m) st

theorem itrace_append (m : KmerMap) (rank : Nat → Nat) (a b : List IStep) : ∀ (st : IState),
    itrace m rank st (a ++ b) = itrace m rank st a ++ itrace m rank (st.after m a) b := by
  induction a with
  | nil => intro st; rfl
  | cons s t ih =>
    intro st
    cases s with
    | push r mo => simp only [List.cons_append, itrace]; rw [ih]; rfl
    | query qid q mc => simp only [List.cons_append, itrace]; rw [ih]; rfl

/-- a run of pushes with one occurrence limit is the indexing loop of `NewKmerMap` -/
theorem after_pushes_eq (m : KmerMap) (maxocc : Int) (refs : List Bytes) : ∀ (st : IState),
    st.after m (refs.map fun r => IStep.push r maxocc) = ⟨kmPushAll m maxocc st.idx st.next refs, st.next + refs.length⟩ := by
  induction refs with
  | nil => intro st; rfl
  | cons r t ih =>
    intro st
    simp only [List.map_cons, IState.after, List.foldl_cons] at ih ⊢
    rw [ih]
    simp [IState.apply, kmPushAll, Nat.add_assoc, Nat.add_comm 1]

end ObiVerif.Kmer
