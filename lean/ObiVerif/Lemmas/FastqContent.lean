import ObiVerif.Lemmas.FastqGrammar
import ObiVerif.Lemmas.FastaContent
/-!
# FASTQ: the content of every record is what its own text says (property C01)

`fqFileText`: abstract four-line records rendered with an arbitrary lay-out of the end-of-line runs;
its images are exactly the files of the grammar `WellFormedFastq`; `parseFastq_content`: the exact
value `FastqChunkParser` returns on them, for every quality shift, with or without qualities:
identifier and definition from the title as for FASTA (`titleId`, `titleDef`), sequence = the
sequence line lower-cased, qualities = the quality line minus the shift (byte arithmetic) or none.
-/
namespace ObiVerif.Parse
open ObiVerif.Chunk

/-- source text of one FASTQ record -/
structure FqSrc where
  title : Seq
  e1 : Seq
  sq : Seq
  e2 : Seq
  /-- what follows `+` on the separator line -/
  plus : Seq
  e3 : Seq
  qual : Seq

def FqSrc.body (r : FqSrc) : Seq := r.title ++ r.e1 ++ r.sq ++ r.e2 ++ 43 :: r.plus ++ r.e3 ++ r.qual
def FqSrc.text (r : FqSrc) : Seq := 64 :: r.body
def FqSrc.OK (r : FqSrc) : Prop :=
  TitleOK r.title ∧ EolRun r.e1 ∧ SeqLineOK r.sq ∧ EolRun r.e2 ∧ NoEol r.plus ∧ EolRun r.e3 ∧ NoEol r.qual ∧
    r.qual.length = r.sq.length
/-- **what the record's own text implies** -/
def FqSrc.record (sh : UInt8) (wq : Bool) (r : FqSrc) : Rec :=
  { id := titleId r.title, defn := titleDef r.title, seq := r.sq.map lower,
    qual := if wq then some (r.qual.map (· - sh)) else none }

def fqRestText (rest : List (Seq × FqSrc)) : Seq := rest.flatMap (fun p => p.1 ++ p.2.text)
def fqFileText (r0 : FqSrc) (rest : List (Seq × FqSrc)) (tail : Seq) : Seq := r0.text ++ fqRestText rest ++ tail

section
variable (sh : UInt8) (wq : Bool)

theorem fqRun_s4_title : ∀ (t : Seq) (id d : Seq) (x : UInt8), NoEol t → isEol x = true →
    fqRun sh wq (.s4 id d) (t ++ [x]) = .ok (.s5 id (d ++ t), []) := by
  intro t
  induction t with
  | nil =>
    intro id d x _ hx
    simp [fqRun, fqStep, hx]
  | cons c t ih =>
    intro id d x hne hx
    have hc : isEol c = false := hne c (by simp)
    have ht : NoEol t := fun y hy => hne y (by simp [hy])
    have hstep : fqStep sh wq (.s4 id d) c = .ok (.s4 id (d ++ [c]), none) := by simp [fqStep, hc]
    simp only [List.cons_append, fqRun_cons, hstep, ih id (d ++ [c]) x ht hx]
    simp

theorem fqRun_s3_title : ∀ (t : Seq) (id : Seq) (x : UInt8), NoEol t → isEol x = true →
    fqRun sh wq (.s3 id) (t ++ [x]) = .ok (.s5 id (t.dropWhile isSpace), []) := by
  intro t
  induction t with
  | nil =>
    intro id x _ hx
    simp [fqRun, fqStep, hx]
  | cons c t ih =>
    intro id x hne hx
    have hc : isEol c = false := hne c (by simp)
    have ht : NoEol t := fun y hy => hne y (by simp [hy])
    by_cases hs : isSpace c = true
    · have hstep : fqStep sh wq (.s3 id) c = .ok (.s3 id, none) := by simp [fqStep, hc, hs]
      simp only [List.cons_append, fqRun_cons, hstep, ih id x ht hx, List.dropWhile_cons, hs, if_true]
      rfl
    · have hs' : isSpace c = false := by simpa using hs
      have hstep : fqStep sh wq (.s3 id) c = .ok (.s4 id [c], none) := by simp [fqStep, hc, hs']
      simp only [List.cons_append, fqRun_cons, hstep, fqRun_s4_title sh wq t id [c] x ht hx, List.dropWhile_cons, hs']
      simp

theorem fqRun_s2_title : ∀ (t : Seq) (idB : Seq) (x : UInt8), NoEol t → isEol x = true →
    fqRun sh wq (.s2 idB) (t ++ [x]) = .ok (.s5 (idB ++ titleId t) (titleDef t), []) := by
  intro t
  induction t with
  | nil =>
    intro idB x _ hx
    simp [fqRun, fqStep, hx, titleId, titleDef]
  | cons c t ih =>
    intro idB x hne hx
    have hc : isEol c = false := hne c (by simp)
    have ht : NoEol t := fun y hy => hne y (by simp [hy])
    by_cases hs : isSep c = true
    · have hsp : isSpace c = true := by rw [← noEol_sep_space hc]; exact hs
      have hstep : fqStep sh wq (.s2 idB) c = .ok (.s3 idB, none) := by simp [fqStep, hc, hs]
      simp only [List.cons_append, fqRun_cons, hstep, fqRun_s3_title sh wq t idB x ht hx]
      simp [titleId, titleDef, hs, hsp]
    · have hs' : isSep c = false := by simpa using hs
      have hstep : fqStep sh wq (.s2 idB) c = .ok (.s2 (idB ++ [c]), none) := by simp [fqStep, hc, hs']
      simp only [List.cons_append, fqRun_cons, hstep, ih (idB ++ [c]) x ht hx]
      simp [titleId, titleDef, hs']

/-- title line and the end-of-line run after it, from state 1 (just after `@`) -/
theorem fqRun_title_content {h e : Seq} (hh : TitleOK h) (he : EolRun e) :
    fqRun sh wq .s1 (h ++ e) = .ok (.s5 (titleId h) (titleDef h), []) := by
  obtain ⟨c, t, rfl, hc, ht⟩ := hh
  obtain ⟨hne, hall⟩ := he
  cases e with
  | nil => exact absurd rfl hne
  | cons x e' =>
    have hx : isEol x = true := hall x (by simp)
    have he' : AllEol e' := fun y hy => hall y (by simp [hy])
    have h1 : fqStep sh wq .s1 c = .ok (.s2 [c], none) := by simp [fqStep, hc]
    have hsplit : c :: t ++ x :: e' = c :: ((t ++ [x]) ++ e') := by simp
    rw [hsplit, fqRun_cons, h1]
    simp only
    rw [fqRun_append, fqRun_s2_title sh wq t [c] x ht hx]
    simp only [fqRun_s5_eols sh wq e' _ _ he']
    simp [titleId, titleDef, hc]

/-- one record from state 1 (after its `@`): the pending record and quality line are exactly what the
text says (same proof as `fqRun_record`, with the title tracked) -/
theorem fqRun_record_content {h e1 sq e2 p e3 q : Seq} (hh : TitleOK h) (he1 : EolRun e1) (hsq : SeqLineOK sq)
    (he2 : EolRun e2) (hp : NoEol p) (he3 : EolRun e3) (hq : NoEol q) (hlen : q.length = sq.length) :
    fqRun sh wq .s1 (h ++ e1 ++ sq ++ e2 ++ 43 :: p ++ e3 ++ q) =
      .ok (.s10 (mkRec (titleId h) (titleDef h) (sq.map lower)) q, []) := by
  have h1 := fqRun_title_content sh wq hh he1
  generalize titleId h = id at h1 ⊢
  generalize titleDef h = d at h1 ⊢
  have h2 := fqRun_seqLine sh wq hsq id d
  have hsqne : sq ≠ [] := hsq.1
  have hqne : q ≠ [] := by
    intro hq0
    rw [hq0] at hlen
    cases sq with
    | nil => exact hsqne rfl
    | cons a t => simp at hlen
  have hshape : h ++ e1 ++ sq ++ e2 ++ 43 :: p ++ e3 ++ q = (h ++ e1) ++ (sq ++ (e2 ++ 43 :: (p ++ (e3 ++ q)))) := by
    simp
  rw [hshape, fqRun_append, h1]
  simp only
  rw [fqRun_append, h2]
  simp only
  -- end of the sequence line
  obtain ⟨hne2, hall2⟩ := he2
  cases e2 with
  | nil => exact absurd rfl hne2
  | cons x2 e2' =>
    have hx2 : isEol x2 = true := hall2 x2 (by simp)
    have he2' : AllEol e2' := fun y hy => hall2 y (by simp [hy])
    have hemp : (sq.map lower).isEmpty = false := by
      cases sq with
      | nil => exact absurd rfl hsqne
      | cons a t => rfl
    have hstep7 : fqStep sh wq (.s6 id d (sq.map lower)) x2 = .ok (.s7 (mkRec id d (sq.map lower)), none) := by
      simp [fqStep, hx2, hemp]
    rw [List.cons_append, fqRun_cons, hstep7]
    simp only
    rw [fqRun_append, fqRun_s7_eols sh wq e2' _ he2']
    simp only
    have hplus : fqStep sh wq (.s7 (mkRec id d (sq.map lower))) 43 = .ok (.s8 (mkRec id d (sq.map lower)), none) := by
      simp [fqStep, isEol]
    rw [fqRun_cons, hplus]
    simp only
    rw [fqRun_append, fqRun_s8_noEol sh wq p _ hp]
    simp only
    obtain ⟨hne3, hall3⟩ := he3
    cases e3 with
    | nil => exact absurd rfl hne3
    | cons x3 e3' =>
      have hx3 : isEol x3 = true := hall3 x3 (by simp)
      have he3' : AllEol e3' := fun y hy => hall3 y (by simp [hy])
      have hstep9 : fqStep sh wq (.s8 (mkRec id d (sq.map lower))) x3 = .ok (.s9 (mkRec id d (sq.map lower)), none) := by
        simp [fqStep, hx3]
      rw [List.cons_append, fqRun_cons, hstep9]
      simp only
      rw [fqRun_append, fqRun_s9_eols sh wq e3' _ he3']
      simp only
      cases q with
      | nil => exact absurd rfl hqne
      | cons c q' =>
        have hc : isEol c = false := hq c (by simp)
        have hq' : NoEol q' := fun y hy => hq y (by simp [hy])
        have hstep10 : fqStep sh wq (.s9 (mkRec id d (sq.map lower))) c = .ok (.s10 (mkRec id d (sq.map lower)) [c], none) := by
          simp [fqStep, hc]
        rw [fqRun_cons, hstep10]
        simp only
        rw [fqRun_s10_noEol sh wq q' _ [c] hq']
        simp


/-- the finished record -/
theorem fqFinish_content (r : FqSrc) (h : r.OK) :
    fqFinish sh wq (.s10 (mkRec (titleId r.title) (titleDef r.title) (r.sq.map lower)) r.qual) = .ok [r.record sh wq] := by
  obtain ⟨_, _, hsq, _, _, _, _, hlen⟩ := h
  have hne : r.qual.length ≠ 0 := by
    rw [hlen]
    intro h0
    exact hsq.1 (List.eq_nil_of_length_eq_zero h0)
  rw [mkRec_lower]
  cases wq with
  | false => simp [fqFinish, FqSrc.record]
  | true =>
    have hsq' : storeQual sh { id := titleId r.title, defn := titleDef r.title, seq := r.sq.map lower } r.qual =
        .ok { id := titleId r.title, defn := titleDef r.title, seq := r.sq.map lower,
              qual := some (r.qual.map (· - sh)) } := by
      unfold storeQual
      rw [if_neg hne, if_neg (by simp [hlen])]
    simp [fqFinish, hsq', FqSrc.record]

/-- a single record followed by end-of-line bytes -/
theorem fqComplete_single (r : FqSrc) (h : r.OK) (tail : Seq) (ht : AllEol tail) :
    FqComplete sh wq (r.text ++ tail) [r.record sh wq] := by
  have hrun := fqRun_record_content sh wq h.1 h.2.1 h.2.2.1 h.2.2.2.1 h.2.2.2.2.1 h.2.2.2.2.2.1 h.2.2.2.2.2.2.1 h.2.2.2.2.2.2.2
  have hfin := fqFinish_content sh wq r h
  have h0 : fqStep sh wq .s0 64 = .ok (.s1, none) := by simp [fqStep]
  have hrecs : fqRun sh wq .s0 r.text = .ok (.s10 (mkRec (titleId r.title) (titleDef r.title) (r.sq.map lower)) r.qual, []) := by
    unfold FqSrc.text FqSrc.body
    rw [fqRun_cons, h0]
    simp only [hrun]
    simp
  cases tail with
  | nil =>
    refine ⟨.s10 _ r.qual, [], [r.record sh wq], ?_, trivial, hfin, by simp⟩
    rw [List.append_nil]; exact hrecs
  | cons c tl =>
    have h4 := fqRun_end_eols sh wq (s := .s10 _ r.qual) trivial hfin ht (by simp)
    refine ⟨.s11, [r.record sh wq], [], ?_, trivial, rfl, by simp⟩
    rw [fqRun_append, hrecs]
    simp only [h4]
    simp

/-- **parseFastq_content**: on every rendered file `FastqChunkParser` returns, in order, exactly the
records their own texts imply -/
theorem parseFastq_content : ∀ (rest : List (Seq × FqSrc)) (r0 : FqSrc) (tail : Seq), r0.OK →
    (∀ p ∈ rest, EolRun p.1 ∧ p.2.OK) → AllEol tail →
    parseFastq sh wq (fqFileText r0 rest tail) = .ok (r0.record sh wq :: rest.map (fun p => p.2.record sh wq)) := by
  intro rest
  induction rest with
  | nil =>
    intro r0 tail h0 _ ht
    have := parseFastq_complete sh wq (fqComplete_single sh wq r0 h0 tail ht)
    simpa [fqFileText, fqRestText] using this
  | cons p t ih =>
    intro r0 tail h0 h ht
    obtain ⟨hsep, hok⟩ := h p (by simp)
    have hc := fqComplete_single sh wq r0 h0 [] (by intro c hc; cases hc)
    rw [List.append_nil] at hc
    have hshape : fqFileText r0 (p :: t) tail = r0.text ++ p.1 ++ 64 :: (p.2.body ++ fqRestText t ++ tail) := by
      simp [fqFileText, fqRestText, FqSrc.text]
    have hnext : (64 :: (p.2.body ++ fqRestText t ++ tail)) = fqFileText p.2 t tail := by
      simp [fqFileText, FqSrc.text]
    rw [hshape, parseFastq_append_complete sh wq hc hsep.2 hsep.1, hnext, ih p.2 tail hok (fun q hq => h q (by simp [hq])) ht]
    simp

end

/-! ## the rendered files are exactly the files of the grammar -/

theorem fastqRecords_of_src : ∀ (rest : List (Seq × FqSrc)) (r0 : FqSrc), r0.OK →
    (∀ p ∈ rest, EolRun p.1 ∧ p.2.OK) → FastqRecords (r0.text ++ fqRestText rest) := by
  intro rest
  induction rest with
  | nil =>
    intro r0 h0 _
    obtain ⟨a, b, c, d, e, f, g, hl⟩ := h0
    have := FastqRecords.one a b c d e f g hl
    simpa [fqRestText, FqSrc.text, FqSrc.body, List.append_assoc] using this
  | cons p t ih =>
    intro r0 h0 h
    obtain ⟨a, b, c, d, e, f, g, hl⟩ := h0
    obtain ⟨hsep, hok⟩ := h p (by simp)
    have := FastqRecords.more a b c d e f g hl hsep (ih p.2 hok (fun q hq => h q (by simp [hq])))
    simpa [fqRestText, FqSrc.text, FqSrc.body, List.append_assoc] using this

theorem fqFileText_wellFormed (r0 : FqSrc) (rest : List (Seq × FqSrc)) (tail : Seq) (h0 : r0.OK)
    (hrest : ∀ p ∈ rest, EolRun p.1 ∧ p.2.OK) (ht : AllEol tail) :
    WellFormedFastq (fqFileText r0 rest tail) :=
  ⟨r0.text ++ fqRestText rest, tail, fastqRecords_of_src rest r0 h0 hrest, ht, rfl⟩

theorem src_of_fastqRecords {recs : Seq} (h : FastqRecords recs) :
    ∃ (r0 : FqSrc) (rest : List (Seq × FqSrc)), r0.OK ∧ (∀ p ∈ rest, EolRun p.1 ∧ p.2.OK) ∧
      recs = r0.text ++ fqRestText rest := by
  induction h with
  | @one h e1 sq e2 p e3 q a b c d e f g hl =>
    exact ⟨⟨h, e1, sq, e2, p, e3, q⟩, [], ⟨a, b, c, d, e, f, g, hl⟩, by simp,
      by simp [fqRestText, FqSrc.text, FqSrc.body]⟩
  | @more h e1 sq e2 p e3 q e4 rest a b c d e f g hl he4 _ ih =>
    obtain ⟨r1, rest1, h1, hr1, rfl⟩ := ih
    refine ⟨⟨h, e1, sq, e2, p, e3, q⟩, (e4, r1) :: rest1, ⟨a, b, c, d, e, f, g, hl⟩, ?_,
      by simp [fqRestText, FqSrc.text, FqSrc.body]⟩
    intro x hx
    simp only [List.mem_cons] at hx
    rcases hx with rfl | hx
    · exact ⟨he4, h1⟩
    · exact hr1 x hx

/-- every file of the grammar is a rendered file -/
theorem wellFormed_fqFileText {file : Seq} (h : WellFormedFastq file) :
    ∃ (r0 : FqSrc) (rest : List (Seq × FqSrc)) (tail : Seq), r0.OK ∧ (∀ p ∈ rest, EolRun p.1 ∧ p.2.OK) ∧
      AllEol tail ∧ file = fqFileText r0 rest tail := by
  obtain ⟨recs, tail, hr, htail, rfl⟩ := h
  obtain ⟨r0, rest, h0, hrest, rfl⟩ := src_of_fastqRecords hr
  exact ⟨r0, rest, tail, h0, hrest, htail, rfl⟩

end ObiVerif.Parse
