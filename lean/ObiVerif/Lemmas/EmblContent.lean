import ObiVerif.Lemmas.FlatContent
/-!
# EMBL: the record the parser returns is the record the entry's own text implies (property C01)

`EmEntry` = the source text of one EMBL entry as classified lines: the `ID` line, then in any order `DE`, `OS`,
`FH`, `FT`, sequence lines (`     g1 g2 … g6   coord`) and other lines (`XX`, `AC`, `SQ`, `OC`, …), the `//`
line and optional blank lines.  `EmEntry.record` = what that text says, field by field, each field a
projection of the entry's own lines: identifier = `ID` value up to the first `;`, definition = the trimmed
`DE` values joined by one blank, scientific name = the trimmed value of the (last) `OS` line, taxid = the
value of the (last) `FT … /db_xref="taxon:` qualifier or 1, sequence = the groups of the sequence lines
(blanks and coordinates dropped) lower-cased, feature table (if requested) = the `FH`/`FT` lines joined by
`\n`.  `emRun_entries`: the line machine of `EmblChunkParser` returns exactly these records, whatever the
neighbours.
-/
namespace ObiVerif.Parse
open ObiVerif.Chunk

inductive EmItem where
  /-- `DE   ` ++ v -/
  | de (v : Seq)
  /-- `OS   ` ++ v -/
  | os (v : Seq)
  /-- `FH   ` ++ rest (header of the feature table) -/
  | fh (rest : Seq)
  /-- `FH` -/
  | fhAlone
  /-- `FT   ` ++ rest -/
  | ft (rest : Seq)
  /-- 5 blanks, the groups each followed by a blank, `pad` more blanks, the coordinate -/
  | sq (groups : List Seq) (pad : Nat) (coord : Seq)
  /-- any other line (`XX`, `AC   …`, `SQ   …`, `OC   …`, …) -/
  | other (l : Seq)

namespace EmItem

def line : EmItem → Seq
  | .de v => emDE ++ v
  | .os v => emOS ++ v
  | .fh r => emFH ++ r
  | .fhAlone => emFHalone
  | .ft r => emFT ++ r
  | .sq gs pad coord => emSEQ ++ (groupsText gs ++ (List.replicate pad 32 ++ coord))
  | .other l => l

def OK : EmItem → Prop
  | .de v => NoEol v ∧ trimSpace v ≠ []
  | .os v => NoEol v
  | .fh r => NoEol r
  | .fhAlone => True
  | .ft r => NoEol r
  | .sq gs _ coord => (∀ g ∈ gs, NoBlank g ∧ NoEol g) ∧ gs.length ≤ 6 ∧ NoBlank coord ∧ NoEol coord
  | .other l => NoEol l ∧ hasPrefix emID l = false ∧ hasPrefix emOS l = false ∧ hasPrefix emDE l = false ∧
      hasPrefix emFH l = false ∧ l ≠ emFHalone ∧ hasPrefix emFT l = false ∧ hasPrefix emSEQ l = false ∧
      l ≠ slashes

/-- the trimmed value of a `DE` line -/
def deVal? : EmItem → Option Seq
  | .de v => some (trimSpace v)
  | _ => none

/-- the trimmed value of an `OS` line -/
def osVal? : EmItem → Option Seq
  | .os v => some (trimSpace v)
  | _ => none

/-- the value of a `FT                   /db_xref="taxon:` qualifier (`taxonOf_digits`: the number written there) -/
def taxon? : EmItem → Option Int
  | .ft r => if hasPrefix emXREF (emFT ++ r) then some (taxonOf (emFT ++ r)) else none
  | _ => none

/-- the nucleotides of a sequence line -/
def seqPart : EmItem → Seq
  | .sq gs _ _ => gs.flatten
  | _ => []

/-- a line of the feature table -/
def featLine? : EmItem → Option Seq
  | .fh r => some (emFH ++ r)
  | .fhAlone => some emFHalone
  | .ft r => some (emFT ++ r)
  | _ => none

end EmItem

/-- the feature table starts with its `FH   ` header line, which occurs once (`seen` = a line of the table
has been seen) -/
def emFeatOK : Bool → List EmItem → Prop
  | _, [] => True
  | seen, .fh _ :: t => seen = false ∧ emFeatOK true t
  | seen, .fhAlone :: t => seen = true ∧ emFeatOK true t
  | seen, .ft _ :: t => seen = true ∧ emFeatOK true t
  | seen, _ :: t => emFeatOK seen t

/-- values joined by one blank -/
def joinSp : List Seq → Seq
  | [] => []
  | v :: t => v ++ t.flatMap (32 :: ·)

/-- lines joined by `\n` -/
def joinNl : List Seq → Seq
  | [] => []
  | l :: t => l ++ t.flatMap (10 :: ·)

structure EmEntry where
  /-- the `ID` line after `ID   ` -/
  idRest : Seq
  items : List EmItem
  /-- blank lines after the `//` line -/
  blanks : Nat := 0

namespace EmEntry

def lines (e : EmEntry) : List Seq :=
  (emID ++ e.idRest) :: (e.items.map EmItem.line ++ (slashes :: List.replicate e.blanks []))

def OK (e : EmEntry) : Prop := NoEol e.idRest ∧ (∀ it ∈ e.items, it.OK) ∧ emFeatOK false e.items

/-- **the record the entry's own text implies** -/
def record (wf : Bool) (e : EmEntry) : Rec :=
  flatRec (e.idRest.takeWhile (· != 59)) (joinSp (e.items.filterMap EmItem.deVal?))
    (e.items.flatMap EmItem.seqPart)
    ((e.items.filterMap EmItem.taxon?).getLast?.getD 1)
    ((e.items.filterMap EmItem.osVal?).getLast?.getD [])
    (if wf then joinNl (e.items.filterMap EmItem.featLine?) else [])

end EmEntry

/-! ## one line -/

/-- what one classified line does to the accumulators -/
def emApply (wf : Bool) (s : EmSt) : EmItem → EmSt
  | .de v => { s with defB := (if s.defB.length > 0 then s.defB ++ [32] else s.defB) ++ trimSpace v }
  | .os v => { s with sci := trimSpace v }
  | .fh r => if wf then { s with featB := s.featB ++ (emFH ++ r) } else s
  | .fhAlone => if wf then { s with featB := s.featB ++ [10] ++ emFHalone } else s
  | .ft r =>
    let s1 := if wf then { s with featB := s.featB ++ [10] ++ (emFT ++ r) } else s
    if hasPrefix emXREF (emFT ++ r) then { s1 with taxid := taxonOf (emFT ++ r) } else s1
  | .sq gs _ _ => { s with seqB := s.seqB ++ gs.flatten }
  | .other _ => s

theorem drop_key (q v : Seq) : (q ++ v).drop q.length = v := List.drop_left' rfl

theorem emLine_item (wf : Bool) (s : EmSt) (it : EmItem) (h : it.OK) :
    emLine wf s it.line = (emApply wf s it, none) := by
  cases it with
  | de v =>
    have h1 : hasPrefix emID (emDE ++ v) = false := hasPrefix_ne _ _ _ (by rfl) (by decide)
    have h2 : hasPrefix emOS (emDE ++ v) = false := hasPrefix_ne _ _ _ (by rfl) (by decide)
    have h3 : hasPrefix emDE (emDE ++ v) = true := hasPrefix_self _ _
    have hd : (emDE ++ v).drop 5 = v := drop_key emDE v
    simp only [EmItem.line, emLine, h1, h2, h3, hd, emApply]
    simp
  | os v =>
    have h1 : hasPrefix emID (emOS ++ v) = false := hasPrefix_ne _ _ _ (by rfl) (by decide)
    have h2 : hasPrefix emOS (emOS ++ v) = true := hasPrefix_self _ _
    have hd : (emOS ++ v).drop 5 = v := drop_key emOS v
    simp only [EmItem.line, emLine, h1, h2, hd, emApply]
    simp
  | fh r =>
    have h1 : hasPrefix emID (emFH ++ r) = false := hasPrefix_ne _ _ _ (by rfl) (by decide)
    have h2 : hasPrefix emOS (emFH ++ r) = false := hasPrefix_ne _ _ _ (by rfl) (by decide)
    have h3 : hasPrefix emDE (emFH ++ r) = false := hasPrefix_ne _ _ _ (by rfl) (by decide)
    have h4 : hasPrefix emFH (emFH ++ r) = true := hasPrefix_self _ _
    have h5 : hasPrefix emFT (emFH ++ r) = false := hasPrefix_ne _ _ _ (by rfl) (by decide)
    have h6 : hasPrefix emSEQ (emFH ++ r) = false := hasPrefix_ne _ _ _ (by rfl) (by decide)
    have h7 : (emFH ++ r == slashes) = false := by simp [emFH, slashes]
    have h8 : (emFH ++ r == emFHalone) = false := by simp [emFH, emFHalone]
    cases wf <;> simp [EmItem.line, emLine, h1, h2, h3, h4, h5, h6, h7, h8, emApply]
  | fhAlone =>
    cases wf <;> rfl
  | ft r =>
    have h1 : hasPrefix emID (emFT ++ r) = false := hasPrefix_ne _ _ _ (by rfl) (by decide)
    have h2 : hasPrefix emOS (emFT ++ r) = false := hasPrefix_ne _ _ _ (by rfl) (by decide)
    have h3 : hasPrefix emDE (emFT ++ r) = false := hasPrefix_ne _ _ _ (by rfl) (by decide)
    have h4 : hasPrefix emFH (emFT ++ r) = false := hasPrefix_ne _ _ _ (by rfl) (by decide)
    have h5 : hasPrefix emFT (emFT ++ r) = true := hasPrefix_self _ _
    have h8 : (emFT ++ r == emFHalone) = false := by simp [emFT, emFHalone]
    cases wf <;> simp [EmItem.line, emLine, h1, h2, h3, h4, h5, h8, emApply]
  | sq gs pad coord =>
    obtain ⟨hg, hlen, hc, _⟩ := h
    generalize hrest : groupsText gs ++ (List.replicate pad 32 ++ coord) = rest
    have h1 : hasPrefix emID (emSEQ ++ rest) = false := hasPrefix_ne _ _ _ (by rfl) (by decide)
    have h2 : hasPrefix emOS (emSEQ ++ rest) = false := hasPrefix_ne _ _ _ (by rfl) (by decide)
    have h3 : hasPrefix emDE (emSEQ ++ rest) = false := hasPrefix_ne _ _ _ (by rfl) (by decide)
    have h4 : hasPrefix emFH (emSEQ ++ rest) = false := hasPrefix_ne _ _ _ (by rfl) (by decide)
    have h5 : hasPrefix emFT (emSEQ ++ rest) = false := hasPrefix_ne _ _ _ (by rfl) (by decide)
    have h6 : hasPrefix emSEQ (emSEQ ++ rest) = true := hasPrefix_self _ _
    have h8 : (emSEQ ++ rest == emFHalone) = false := by simp [emSEQ, emFHalone]
    have hd : (emSEQ ++ rest).drop 5 = rest := drop_key emSEQ rest
    have hparts : ((splitN 32 7 rest).take ((splitN 32 7 rest).length - 1)).flatten = gs.flatten := by
      rw [take_length_sub_one, ← hrest]
      exact splitN_groups_dropLast gs 7 pad coord (fun g hgm => (hg g hgm).1) hc (by omega)
    cases wf <;> simp [EmItem.line, hrest, emLine, h1, h2, h3, h4, h5, h6, h8, hd, hparts, emApply]
  | other l =>
    obtain ⟨_, h1, h2, h3, h4, h5, h6, h7, h8⟩ := h
    have h5' : (l == emFHalone) = false := by simpa using h5
    have h8' : (l == slashes) = false := by simpa using h8
    cases wf <;> simp [EmItem.line, emLine, h1, h2, h3, h4, h5', h6, h7, h8', emApply]

theorem emRun_items (wf : Bool) : ∀ (items : List EmItem) (s : EmSt) (tail : List Seq), (∀ it ∈ items, it.OK) →
    emRun wf s (items.map EmItem.line ++ tail) = emRun wf (items.foldl (emApply wf) s) tail
  | [], _, _, _ => rfl
  | it :: t, s, tail, h => by
    simp only [List.map_cons, List.cons_append, emRun, List.foldl_cons]
    rw [emLine_item wf s it (h it (by simp))]
    simp only [Option.toList, List.nil_append]
    rw [emRun_items wf t _ tail (fun x hx => h x (by simp [hx]))]

/-! ## the fields after the lines of an entry -/

theorem fold_id (wf : Bool) : ∀ (items : List EmItem) (s : EmSt), (items.foldl (emApply wf) s).id = s.id
  | [], _ => rfl
  | it :: t, s => by
    rw [List.foldl_cons, fold_id wf t]
    cases it <;> simp only [emApply] <;> (try split) <;> (try split) <;> rfl

theorem getLast_cons_getD {α : Type} (a : α) (l : List α) (d : α) :
    (a :: l).getLast?.getD d = l.getLast?.getD a := by
  induction l generalizing a d with
  | nil => rfl
  | cons b t ih => rw [List.getLast?_cons_cons, ih b d, ih b a]

theorem fold_sci (wf : Bool) : ∀ (items : List EmItem) (s : EmSt),
    (items.foldl (emApply wf) s).sci = (items.filterMap EmItem.osVal?).getLast?.getD s.sci
  | [], _ => rfl
  | it :: t, s => by
    rw [List.foldl_cons, fold_sci wf t]
    cases it with
    | os v => simp only [List.filterMap_cons, EmItem.osVal?, getLast_cons_getD, emApply]
    | ft r => simp only [List.filterMap_cons, EmItem.osVal?, emApply]; cases wf <;> split <;> rfl
    | fh r => simp only [List.filterMap_cons, EmItem.osVal?, emApply]; cases wf <;> rfl
    | fhAlone => simp only [List.filterMap_cons, EmItem.osVal?, emApply]; cases wf <;> rfl
    | de v => rfl
    | sq _ _ _ => rfl
    | other _ => rfl

theorem fold_taxid (wf : Bool) : ∀ (items : List EmItem) (s : EmSt),
    (items.foldl (emApply wf) s).taxid = (items.filterMap EmItem.taxon?).getLast?.getD s.taxid
  | [], _ => rfl
  | it :: t, s => by
    rw [List.foldl_cons, fold_taxid wf t]
    cases it with
    | ft r =>
      simp only [List.filterMap_cons, EmItem.taxon?, emApply]
      cases hx : hasPrefix emXREF (emFT ++ r) with
      | true => simp only [if_true, getLast_cons_getD]
      | false => cases wf <;> rfl
    | os v => rfl
    | fh r => simp only [List.filterMap_cons, EmItem.taxon?, emApply]; cases wf <;> rfl
    | fhAlone => simp only [List.filterMap_cons, EmItem.taxon?, emApply]; cases wf <;> rfl
    | de v => rfl
    | sq _ _ _ => rfl
    | other _ => rfl

theorem fold_seq (wf : Bool) : ∀ (items : List EmItem) (s : EmSt),
    (items.foldl (emApply wf) s).seqB = s.seqB ++ items.flatMap EmItem.seqPart
  | [], _ => by simp
  | it :: t, s => by
    rw [List.foldl_cons, fold_seq wf t]
    cases it with
    | sq gs _ _ => simp [emApply, EmItem.seqPart]
    | ft r => simp only [emApply, List.flatMap_cons, EmItem.seqPart, List.nil_append]; cases wf <;> split <;> rfl
    | fh r => simp only [emApply, List.flatMap_cons, EmItem.seqPart, List.nil_append]; cases wf <;> rfl
    | fhAlone => simp only [emApply, List.flatMap_cons, EmItem.seqPart, List.nil_append]; cases wf <;> rfl
    | os v => simp [emApply, EmItem.seqPart]
    | de v => simp [emApply, EmItem.seqPart]
    | other _ => simp [emApply, EmItem.seqPart]

/-- the `DE` accumulation: a blank before every value but the first -/
def deAcc : Seq → List Seq → Seq
  | d, [] => d
  | d, v :: t => deAcc ((if d.length > 0 then d ++ [32] else d) ++ v) t

theorem fold_def (wf : Bool) : ∀ (items : List EmItem) (s : EmSt),
    (items.foldl (emApply wf) s).defB = deAcc s.defB (items.filterMap EmItem.deVal?)
  | [], _ => rfl
  | it :: t, s => by
    rw [List.foldl_cons, fold_def wf t]
    cases it with
    | de v => simp only [List.filterMap_cons, EmItem.deVal?, emApply, deAcc]
    | ft r => simp only [List.filterMap_cons, EmItem.deVal?, emApply]; cases wf <;> split <;> rfl
    | fh r => simp only [List.filterMap_cons, EmItem.deVal?, emApply]; cases wf <;> rfl
    | fhAlone => simp only [List.filterMap_cons, EmItem.deVal?, emApply]; cases wf <;> rfl
    | os v => rfl
    | sq _ _ _ => rfl
    | other _ => rfl

theorem deAcc_nonempty : ∀ (vs : List Seq) (d : Seq), d ≠ [] → deAcc d vs = d ++ vs.flatMap (32 :: ·)
  | [], d, _ => by simp [deAcc]
  | v :: t, d, hd => by
    have : d.length > 0 := List.length_pos_iff.mpr hd
    simp only [deAcc, this, if_true]
    rw [deAcc_nonempty t _ (by simp [hd])]
    simp

theorem deAcc_join : ∀ (vs : List Seq), (∀ v ∈ vs, v ≠ []) → deAcc [] vs = joinSp vs
  | [], _ => rfl
  | v :: t, h => by
    simp only [deAcc, List.length_nil, Nat.lt_irrefl, if_false, List.nil_append, joinSp, gt_iff_lt]
    exact deAcc_nonempty t v (h v (by simp))

/-- the pieces the feature lines add to the feature buffer -/
def featAcc : Seq → List EmItem → Seq
  | f, [] => f
  | f, .fh r :: t => featAcc (f ++ (emFH ++ r)) t
  | f, .fhAlone :: t => featAcc (f ++ [10] ++ emFHalone) t
  | f, .ft r :: t => featAcc (f ++ [10] ++ (emFT ++ r)) t
  | f, _ :: t => featAcc f t

theorem fold_feat : ∀ (items : List EmItem) (s : EmSt),
    (items.foldl (emApply true) s).featB = featAcc s.featB items ∧
    (items.foldl (emApply false) s).featB = s.featB
  | [], _ => ⟨rfl, rfl⟩
  | it :: t, s => by
    rw [List.foldl_cons, List.foldl_cons, (fold_feat t _).1, (fold_feat t _).2]
    cases it with
    | ft r => simp only [emApply, featAcc]; constructor <;> split <;> rfl
    | fh r => exact ⟨rfl, rfl⟩
    | fhAlone => exact ⟨rfl, rfl⟩
    | de v => exact ⟨rfl, rfl⟩
    | os v => exact ⟨rfl, rfl⟩
    | sq _ _ _ => exact ⟨rfl, rfl⟩
    | other _ => exact ⟨rfl, rfl⟩

/-- with the header line first, the buffer is the feature lines joined by `\n` -/
theorem featAcc_join : ∀ (items : List EmItem) (L : List Seq), emFeatOK (!L.isEmpty) items →
    featAcc (joinNl L) items = joinNl (L ++ items.filterMap EmItem.featLine?)
  | [], L, _ => by simp [featAcc]
  | it :: t, L, h => by
    have snoc : ∀ (L : List Seq) (l : Seq), L ≠ [] → joinNl L ++ [10] ++ l = joinNl (L ++ [l]) := by
      intro L l hL
      cases L with
      | nil => exact absurd rfl hL
      | cons a u => simp [joinNl]
    cases it with
    | fh r =>
      obtain ⟨h1, h2⟩ := h
      have hL : L = [] := by cases L <;> simp_all
      subst hL
      have := featAcc_join t [emFH ++ r] (by simpa using h2)
      simp only [featAcc, List.filterMap_cons, EmItem.featLine?, joinNl, List.nil_append] at this ⊢
      simpa [joinNl] using this
    | fhAlone =>
      obtain ⟨h1, h2⟩ := h
      have hL : L ≠ [] := by cases L <;> simp_all
      have hne : (!(L ++ [emFHalone]).isEmpty) = true := by cases L <;> rfl
      have := featAcc_join t (L ++ [emFHalone]) (by rw [hne]; exact h2)
      simp only [featAcc, List.filterMap_cons, EmItem.featLine?]
      rw [snoc L _ hL, this]
      simp
    | ft r =>
      obtain ⟨h1, h2⟩ := h
      have hL : L ≠ [] := by cases L <;> simp_all
      have hne : (!(L ++ [emFT ++ r]).isEmpty) = true := by cases L <;> rfl
      have := featAcc_join t (L ++ [emFT ++ r]) (by rw [hne]; exact h2)
      simp only [featAcc, List.filterMap_cons, EmItem.featLine?]
      rw [snoc L _ hL, this]
      simp
    | de v => rw [List.filterMap_cons_none rfl]; exact featAcc_join t L h
    | os v => rw [List.filterMap_cons_none rfl]; exact featAcc_join t L h
    | sq _ _ _ => rw [List.filterMap_cons_none rfl]; exact featAcc_join t L h
    | other _ => rw [List.filterMap_cons_none rfl]; exact featAcc_join t L h

/-! ## entries -/

theorem emLine_id (wf : Bool) (s : EmSt) (r : Seq) :
    emLine wf s (emID ++ r) = ({ s with id := r.takeWhile (· != 59) }, none) := by
  have h1 : hasPrefix emID (emID ++ r) = true := hasPrefix_self _ _
  have hd : (emID ++ r).drop 5 = r := drop_key emID r
  simp [emLine, h1, hd]

theorem emLine_end (wf : Bool) (s : EmSt) :
    emLine wf s slashes = ({}, some (flatRec s.id s.defB s.seqB s.taxid s.sci (if wf then s.featB else []))) := by
  cases wf <;> rfl

/-- **one entry**: from the initial state the lines of a well-formed entry yield exactly the record its text
implies, and leave the machine in its initial state -/
theorem emRun_entry (wf : Bool) (e : EmEntry) (h : e.OK) (tail : List Seq) :
    emRun wf {} (e.lines ++ tail) = ((emRun wf {} tail).1, e.record wf :: (emRun wf {} tail).2) := by
  obtain ⟨_, hit, hfeat⟩ := h
  have hblank : ∀ (n : Nat), emRun wf {} (List.replicate n [] ++ tail) = emRun wf {} tail := by
    intro n
    induction n with
    | zero => rfl
    | succ k ih =>
      simp only [List.replicate_succ, List.cons_append, emRun, emLine_blank]
      rw [ih]
      simp
  unfold EmEntry.lines
  simp only [List.cons_append, List.append_assoc]
  rw [emRun, emLine_id]
  simp only
  rw [emRun_items wf e.items _ _ hit]
  rw [emRun, emLine_end]
  simp only
  rw [hblank]
  generalize emRun wf {} tail = q
  obtain ⟨sT, rsT⟩ := q
  simp only [Option.toList, List.nil_append, List.cons_append, Prod.mk.injEq, List.cons.injEq, and_true, true_and]
  unfold EmEntry.record
  rw [fold_id, fold_def, fold_seq, fold_taxid, fold_sci]
  have hde : ∀ v ∈ e.items.filterMap EmItem.deVal?, v ≠ [] := by
    intro v hv
    obtain ⟨it, hmem, hval⟩ := List.mem_filterMap.mp hv
    cases it with
    | de w =>
      simp only [EmItem.deVal?, Option.some.injEq] at hval
      subst hval
      exact (hit _ hmem).2
    | _ => simp [EmItem.deVal?] at hval
  rw [deAcc_join _ hde]
  congr 1
  cases wf with
  | false => simp [(fold_feat e.items _).2]
  | true =>
    simp only [if_true, (fold_feat e.items _).1]
    have := featAcc_join e.items [] (by simpa using hfeat)
    simpa [joinNl] using this

/-- **a file of entries**: the records, in file order, each the record of its own entry -/
theorem emRun_entries (wf : Bool) : ∀ (es : List EmEntry), (∀ e ∈ es, e.OK) →
    emRun wf {} (es.flatMap EmEntry.lines) = ({}, es.map (EmEntry.record wf))
  | [], _ => rfl
  | e :: t, h => by
    simp only [List.flatMap_cons, List.map_cons]
    rw [emRun_entry wf e (h e (by simp)), emRun_entries wf t (fun x hx => h x (by simp [hx]))]

/-! ## lines of an entry: no end-of-line byte -/

theorem noEol_append {a b : Seq} (ha : NoEol a) (hb : NoEol b) : NoEol (a ++ b) := by
  intro c hc
  rcases List.mem_append.mp hc with h | h
  · exact ha c h
  · exact hb c h

theorem noEol_groups : ∀ (gs : List Seq), (∀ g ∈ gs, NoEol g) → NoEol (groupsText gs)
  | [], _ => by intro c hc; simp [groupsText] at hc
  | g :: t, h => by
    have e : groupsText (g :: t) = (g ++ [32]) ++ groupsText t := by simp [groupsText]
    rw [e]
    exact noEol_append (noEol_append (h g (by simp)) (by decide)) (noEol_groups t (fun x hx => h x (by simp [hx])))

theorem noEol_replicate32 (n : Nat) : NoEol (List.replicate n 32) := by
  intro c hc
  rw [List.eq_of_mem_replicate hc]; rfl

theorem EmItem.noEol_line (it : EmItem) (h : it.OK) : NoEol it.line := by
  cases it with
  | de v => exact noEol_append (by decide) h.1
  | os v => exact noEol_append (by decide) h
  | fh r => exact noEol_append (by decide) h
  | fhAlone => decide
  | ft r => exact noEol_append (by decide) h
  | sq gs pad coord =>
    exact noEol_append (by decide) (noEol_append (noEol_groups gs (fun g hg => (h.1 g hg).2))
      (noEol_append (noEol_replicate32 pad) h.2.2.2))
  | other l => exact h.1

theorem EmEntry.noEol_lines (e : EmEntry) (h : e.OK) : ∀ l ∈ e.lines, NoEol l := by
  intro l hl
  unfold EmEntry.lines at hl
  simp only [List.mem_cons, List.mem_append, List.mem_map] at hl
  rcases hl with rfl | ⟨it, hit, rfl⟩ | rfl | hl
  · exact noEol_append (by decide) h.1
  · exact it.noEol_line (h.2.1 it hit)
  · decide
  · rw [List.eq_of_mem_replicate hl]; intro c hc; cases hc

end ObiVerif.Parse
