import ObiVerif.Lemmas.FpShift
import ObiVerif.Lemmas.FpArith
/-!
# Division lemmas for C20 (core Lean only): `QuoRem64`, `Uint256.Div`
-/
namespace ObiVerif.Fp

theorem bitsDiv64_ok {hi lo y : Nat} (h : hi < y) :
    bitsDiv64 hi lo y = .ok ((hi * W + lo) / y, (hi * W + lo) % y) := by
  unfold bitsDiv64
  rw [if_neg (by omega)]

/-- quotient of a two-limb number whose high limb is below the divisor fits in one limb -/
theorem div_limb_lt {hi lo y : Nat} (h : hi < y) (hlo : lo < W) : (hi * W + lo) / y < W := by
  apply Nat.div_lt_of_lt_mul
  have := Nat.mul_le_mul_right W (Nat.succ_le_of_lt h)
  grind

theorem U128.quoRem64_spec (u : U128) (v : Nat) (hu : u.WF) (hv0 : v ≠ 0) :
    ∃ q, U128.quoRem64 u v = .ok (q, u.toNat % v) ∧ q.WF ∧ q.toNat = u.toNat / v := by
  obtain ⟨h1, h0⟩ := hu
  unfold U128.quoRem64 U128.toNat
  by_cases c : u.w1 < v
  · rw [if_pos c, bitsDiv64_ok c]
    refine ⟨⟨0, (u.w1 * W + u.w0) / v⟩, rfl, ⟨W_pos, div_limb_lt c h0⟩, ?_⟩
    simp
  · rw [if_neg c, bitsDiv64_ok (Nat.pos_of_ne_zero hv0)]
    have hr : u.w1 % v < v := Nat.mod_lt _ (Nat.pos_of_ne_zero hv0)
    simp only [Nat.zero_mul, Nat.zero_add]
    have e : (do
        let (q1, r) ← (Except.ok (u.w1 / v, u.w1 % v) : Except Unit (Nat × Nat))
        let (q0, r) ← bitsDiv64 r u.w0 v
        pure ((⟨q1, q0⟩ : U128), r)) =
        .ok (⟨u.w1 / v, (u.w1 % v * W + u.w0) / v⟩, (u.w1 % v * W + u.w0) % v) := by
      show (do
        let (q0, r) ← bitsDiv64 (u.w1 % v) u.w0 v
        pure ((⟨u.w1 / v, q0⟩ : U128), r)) = _
      rw [bitsDiv64_ok hr]; rfl
    rw [e]
    have hw := (Nat.div_add_mod u.w1 v).symm
    have e2 : u.w1 * W + u.w0 = v * (u.w1 / v * W) + (u.w1 % v * W + u.w0) := by
      generalize u.w1 / v = a at *
      generalize u.w1 % v = b at *
      rw [hw]; generalize W = B; grind
    refine ⟨⟨u.w1 / v, (u.w1 % v * W + u.w0) / v⟩, ?_, ⟨Nat.lt_of_le_of_lt (Nat.div_le_self _ _) h1, div_limb_lt hr h0⟩, ?_⟩
    · rw [e2, Nat.mul_add_mod]
    · simp only []
      rw [e2, Nat.mul_add_div (Nat.pos_of_ne_zero hv0)]

/-! ## `Uint256.Div`: comparison predicates -/

theorem U256.isZero_iff (u : U256) (hu : u.WF) : u.isZero = true ↔ u.toNat = 0 := by
  obtain ⟨h3, h2, h1, h0⟩ := hu
  unfold U256.isZero U256.toNat
  simp only [Bool.and_eq_true, beq_iff_eq, W] at *
  omega

theorem U256.lessThan_iff (u v : U256) (hu : u.WF) (hv : v.WF) :
    u.lessThan v = true ↔ u.toNat < v.toNat := by
  unfold U256.lessThan
  rw [U256.cmp_spec u v hu hv]
  repeat' split
  all_goals simp <;> omega

theorem U256.greaterThan_iff (u v : U256) (hu : u.WF) (hv : v.WF) :
    u.greaterThan v = true ↔ v.toNat < u.toNat := by
  unfold U256.greaterThan
  rw [U256.cmp_spec u v hu hv]
  repeat' split
  all_goals simp <;> omega

theorem U256.lessThanOrEqual_iff (u v : U256) (hu : u.WF) (hv : v.WF) :
    u.lessThanOrEqual v = true ↔ u.toNat ≤ v.toNat := by
  unfold U256.lessThanOrEqual
  have := U256.greaterThan_iff u v hu hv
  cases h : u.greaterThan v <;> simp [h] at this ⊢ <;> omega

theorem U256.greaterThanOrEqual_iff (u v : U256) (hu : u.WF) (hv : v.WF) :
    u.greaterThanOrEqual v = true ↔ v.toNat ≤ u.toNat := by
  unfold U256.greaterThanOrEqual
  have := U256.lessThan_iff u v hu hv
  cases h : u.lessThan v <;> simp [h] at this ⊢ <;> omega

theorem U256.one_WF : U256.WF ⟨0, 0, 0, 1⟩ := by decide
theorem U256.zero_WF : U256.WF ⟨0, 0, 0, 0⟩ := by decide

theorem U256.cmp_one_iff (v : U256) (hv : v.WF) :
    (v.cmp ⟨0, 0, 0, 1⟩ == 0) = true ↔ v.toNat = 1 := by
  rw [U256.cmp_spec v _ hv U256.one_WF]
  have : U256.toNat ⟨0, 0, 0, 1⟩ = 1 := by decide
  rw [this]
  repeat' split
  all_goals simp <;> omega

end ObiVerif.Fp
