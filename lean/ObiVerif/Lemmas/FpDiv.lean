import ObiVerif.Lemmas.FpShift
import ObiVerif.Lemmas.FpArith
/-!
# Division lemmas for C20 (core Lean only): `QuoRem64`, `Uint128.QuoRem`, `Uint256.Div`
-/
namespace ObiVerif.Fp

theorem bitsDiv64_ok {hi lo y : Nat} (h : hi < y) :
    bitsDiv64 hi lo y = .ok ((hi * W + lo) / y, (hi * W + lo) % y) := by
  unfold bitsDiv64
  rw [if_neg (by omega)]

/-- quotient of a two-limb number whose high limb is below the divisor fits in one limb -/
theorem div_limb_lt {hi lo y : Nat} (h : hi < y) (hlo : lo < W) : (hi * W + lo) / y < W := by
  apply Nat.div_lt_of_lt_mul
  have := Nat.mul_le_mul_right W (Nat.succ_le_of_lt h)
  grind

theorem U128.quoRem64_spec (u : U128) (v : Nat) (hu : u.WF) (hv0 : v ≠ 0) :
    ∃ q, U128.quoRem64 u v = .ok (q, u.toNat % v) ∧ q.WF ∧ q.toNat = u.toNat / v := by
  obtain ⟨h1, h0⟩ := hu
  unfold U128.quoRem64 U128.toNat
  by_cases c : u.w1 < v
  · rw [if_pos c, bitsDiv64_ok c]
    refine ⟨⟨0, (u.w1 * W + u.w0) / v⟩, rfl, ⟨W_pos, div_limb_lt c h0⟩, ?_⟩
    simp
  · rw [if_neg c, bitsDiv64_ok (Nat.pos_of_ne_zero hv0)]
    have hr : u.w1 % v < v := Nat.mod_lt _ (Nat.pos_of_ne_zero hv0)
    simp only [Nat.zero_mul, Nat.zero_add]
    have e : (do
        let (q1, r) ← (Except.ok (u.w1 / v, u.w1 % v) : Except Unit (Nat × Nat))
        let (q0, r) ← bitsDiv64 r u.w0 v
        pure ((⟨q1, q0⟩ : U128), r)) =
        .ok (⟨u.w1 / v, (u.w1 % v * W + u.w0) / v⟩, (u.w1 % v * W + u.w0) % v) := by
      show (do
        let (q0, r) ← bitsDiv64 (u.w1 % v) u.w0 v
        pure ((⟨u.w1 / v, q0⟩ : U128), r)) = _
      rw [bitsDiv64_ok hr]; rfl
    rw [e]
    have hw := (Nat.div_add_mod u.w1 v).symm
    have e2 : u.w1 * W + u.w0 = v * (u.w1 / v * W) + (u.w1 % v * W + u.w0) := by
      generalize u.w1 / v = a at *
      generalize u.w1 % v = b at *
      rw [hw]; generalize W = B; grind
    refine ⟨⟨u.w1 / v, (u.w1 % v * W + u.w0) / v⟩, ?_, ⟨Nat.lt_of_le_of_lt (Nat.div_le_self _ _) h1, div_limb_lt hr h0⟩, ?_⟩
    · rw [e2, Nat.mul_add_mod]
    · simp only []
      rw [e2, Nat.mul_add_div (Nat.pos_of_ne_zero hv0)]

/-! ## `Uint128.QuoRem`: the trial-quotient branch (`v.w1 ≠ 0`) -/

/-- `LeadingZeros64` normalises a non-zero limb: the shifted limb has its top bit set and
`(h + 1) * 2^n` still fits -/
theorem lz_norm {h : Nat} (h0 : h ≠ 0) (hW : h < W) :
    bitsLeadingZeros64 h ≤ 63 ∧ 2 ^ 63 ≤ h * 2 ^ bitsLeadingZeros64 h ∧
      (h + 1) * 2 ^ bitsLeadingZeros64 h ≤ W := by
  unfold bitsLeadingZeros64
  rw [if_neg h0]
  have hL : h.log2 < 64 := (Nat.log2_lt h0).mpr (W_eq_pow ▸ hW)
  have e : 64 - h.log2 - 1 = 63 - h.log2 := by omega
  rw [e]
  have l1 := Nat.log2_self_le h0
  have l2 := @Nat.lt_log2_self h
  have p1 : 2 ^ h.log2 * 2 ^ (63 - h.log2) = 2 ^ 63 := by rw [← Nat.pow_add]; congr 1; omega
  have p2 : 2 ^ (h.log2 + 1) * 2 ^ (63 - h.log2) = W := by
    rw [← Nat.pow_add, W_eq_pow]; congr 1; omega
  refine ⟨by omega, ?_, ?_⟩
  · rw [← p1]; exact Nat.mul_le_mul_right _ l1
  · rw [← p2]; exact Nat.mul_le_mul_right _ (Nat.succ_le_of_lt l2)

theorem four_le_sq {T e : Nat} (hT : 2 ≤ T) (he : e < T) : 4 * e ≤ T * T := by
  obtain ⟨k, rfl⟩ : ∃ k, T = k + 2 := ⟨T - 2, by omega⟩
  have : 4 * e ≤ 4 * (k + 1) := by omega
  have : (k + 2) * (k + 2) = k * k + 4 * k + 4 := by grind
  omega

/-- the trial quotient `U / D` computed from the normalised top limb (`D = H * T ≤ V < D + T`,
`H ≥ 2^63`, `U < 2^128`) is the true quotient or one more -/
theorem trial_quot {U V D e T H : Nat} (hU : U < W * W) (hH : 2 ^ 63 ≤ H) (hT : 2 ≤ T)
    (hD : D = H * T) (hV : V = D + e) (he : e < T) :
    U / V ≤ U / D ∧ U / D ≤ U / V + 1 := by
  have hGT : 2 ^ 63 * T ≤ D := hD ▸ Nat.mul_le_mul_right T hH
  have hD0 : 0 < D := Nat.lt_of_lt_of_le (Nat.mul_pos (by decide) (by omega)) hGT
  have hDV : D ≤ V := by omega
  have hV0 : 0 < V := by omega
  refine ⟨Nat.div_le_div_left hDV hD0, ?_⟩
  -- key inequality `U * e < D * V`
  have key : U * e < D * V := by
    by_cases e0 : e = 0
    · rw [e0, Nat.mul_zero]; exact Nat.mul_pos hD0 hV0
    · have s1 : U * e < W * W * e := Nat.mul_lt_mul_of_pos_right hU (Nat.pos_of_ne_zero e0)
      have s2 : W * W * e = 2 ^ 63 * 2 ^ 63 * (4 * e) := by
        have : W * W = 2 ^ 63 * 2 ^ 63 * 4 := by decide
        rw [this, Nat.mul_assoc]
      have s3 : 2 ^ 63 * 2 ^ 63 * (4 * e) ≤ 2 ^ 63 * 2 ^ 63 * (T * T) :=
        Nat.mul_le_mul_left _ (four_le_sq hT he)
      have s4 : 2 ^ 63 * 2 ^ 63 * (T * T) = (2 ^ 63 * T) * (2 ^ 63 * T) := by
        generalize 2 ^ 63 = G; grind
      have s5 : (2 ^ 63 * T) * (2 ^ 63 * T) ≤ D * V := Nat.mul_le_mul hGT (Nat.le_trans hGT hDV)
      omega
  generalize hQ : U / V = Q
  apply Nat.le_of_lt_succ
  rw [Nat.div_lt_iff_lt_mul hD0]
  apply Nat.lt_of_not_le
  intro hc
  -- hc : (Q + 2) * D ≤ U
  have a1 : (Q + 1 + 1) * D * V ≤ U * V := Nat.mul_le_mul_right V hc
  have a2 : U * V = U * D + U * e := by rw [hV, Nat.mul_add]
  have a3 : D * ((Q + 1 + 1) * V) < D * (U + V) := by
    have : D * ((Q + 1 + 1) * V) = (Q + 1 + 1) * D * V := by grind
    rw [this, Nat.mul_add, Nat.mul_comm D U]; omega
  have a4 := Nat.lt_of_mul_lt_mul_left a3
  have a5 : U < V * (U / V + 1) := Nat.lt_mul_div_succ U hV0
  rw [hQ] at a5
  have a6 : (Q + 1 + 1) * V = V * (Q + 1) + V := by grind
  omega

theorem half_top_lt {U a1 a0 H : Nat} (hU : U < W * W) (h : a1 * W + a0 = U / 2) (hH : 2 ^ 63 ≤ H) :
    a1 < H := by
  simp only [W] at *; omega

theorem U128.mk0_eq_ofNat {r : Nat} (hr : r < W) : (⟨0, r⟩ : U128) = U128.ofNat r := by
  have := U128.eq_ofNat_toNat (u := ⟨0, r⟩) ⟨W_pos, hr⟩
  rw [this]; unfold U128.toNat; simp

theorem U128.cmp_ge_iff (u v : U128) (hu : u.WF) (hv : v.WF) : u.cmp v ≥ 0 ↔ v.toNat ≤ u.toNat := by
  have := U128.cmp_spec u v hu hv
  rw [this]
  repeat' split
  all_goals simp <;> omega

theorem U128.quoRem_spec (u v : U128) (hu : u.WF) (hv : v.WF) (hv0 : v.toNat ≠ 0) :
    U128.quoRem u v = .ok (U128.ofNat (u.toNat / v.toNat), U128.ofNat (u.toNat % v.toNat)) := by
  unfold U128.quoRem
  by_cases h : v.w1 = 0
  · rw [if_pos h]
    have hV : v.toNat = v.w0 := by unfold U128.toNat; rw [h]; omega
    rw [hV] at hv0 ⊢
    obtain ⟨q, hq, hqwf, hqval⟩ := U128.quoRem64_spec u v.w0 hu hv0
    simp only [bind, Except.bind, pure, Except.pure]
    rw [hq]
    simp only []
    rw [U128.eq_ofNat_toNat hqwf, hqval,
      U128.mk0_eq_ofNat (Nat.lt_trans (Nat.mod_lt _ (Nat.pos_of_ne_zero hv0)) hv.2)]
  · rw [if_neg h]
    simp only [bind, Except.bind, pure, Except.pure]
    obtain ⟨hn, hnorm, hfit⟩ := lz_norm h hv.1
    generalize bitsLeadingZeros64 v.w1 = n at *
    -- names
    have hUlt := U128.toNat_lt hu
    have hVdef : v.toNat = v.w1 * W + v.w0 := rfl
    -- the normalised divisor
    have hpq := two_pow_split (show n ≤ 64 by omega)
    have hp := Nat.two_pow_pos n
    have hVfit : v.toNat * 2 ^ n < W * W := by
      have h1 : v.toNat < (v.w1 + 1) * W := by rw [hVdef, Nat.add_mul]; have := hv.2; omega
      have h2 := Nat.mul_lt_mul_of_pos_right h1 hp
      have h3 : (v.w1 + 1) * W * 2 ^ n = (v.w1 + 1) * 2 ^ n * W := Nat.mul_right_comm _ _ _
      have h4 := Nat.mul_le_mul_right W hfit
      omega
    have hv1 := U128.leftShift_spec v n hv
    rw [Nat.mod_eq_of_lt hVfit] at hv1
    obtain ⟨⟨hHlt, hllt⟩, hv1val⟩ := hv1
    have hv1val' : (v.leftShift n).w1 * W + (v.leftShift n).w0 = v.toNat * 2 ^ n := hv1val
    clear hv1val
    generalize (v.leftShift n).w1 = H at *
    generalize (v.leftShift n).w0 = l at *
    -- T = 2^(64-n), H = V / T
    have hT2 : 2 ^ (64 - n) = 2 ^ (63 - n) * 2 := by rw [← Nat.pow_succ]; congr 1; omega
    have hT : 2 ≤ 2 ^ (64 - n) := by have := Nat.two_pow_pos (63 - n); omega
    have hHdiv : H = v.toNat / 2 ^ (64 - n) := by
      have e1 : v.toNat * 2 ^ n / W = H := by
        apply Nat.div_eq_of_lt_le
        · omega
        · rw [Nat.add_mul]; omega
      rw [← e1, ← hpq, Nat.mul_comm (2 ^ n), Nat.mul_div_mul_right _ _ hp]
    have hH63 : 2 ^ 63 ≤ H := by
      have e1 : v.toNat * 2 ^ n = v.w1 * 2 ^ n * W + v.w0 * 2 ^ n := by
        rw [hVdef, Nat.add_mul, Nat.mul_right_comm]
      generalize v.w1 * 2 ^ n = X at *
      generalize v.w0 * 2 ^ n = Y at *
      simp only [W] at *
      omega
    have hVsplit : v.toNat = H * 2 ^ (64 - n) + v.toNat % 2 ^ (64 - n) := by
      rw [hHdiv, Nat.mul_comm]; exact (Nat.div_add_mod _ _).symm
    have hbounds := trial_quot hUlt hH63 hT rfl hVsplit (Nat.mod_lt _ (Nat.two_pow_pos _))
    -- the shifted dividend
    obtain ⟨⟨_, hu1lo⟩, hu1val⟩ := U128.rightShift_spec u 1 hu
    have hu1val' : (u.rightShift 1).w1 * W + (u.rightShift 1).w0 = u.toNat / 2 := hu1val
    clear hu1val
    generalize (u.rightShift 1).w1 = a1 at *
    generalize (u.rightShift 1).w0 = a0 at *
    have ha1 : a1 < H := half_top_lt hUlt hu1val' hH63
    obtain ⟨tq0, r0, hdiv, htq0def, _⟩ : ∃ q r, bitsDiv64 a1 a0 H = .ok (q, r) ∧
        q = (a1 * W + a0) / H ∧ r = (a1 * W + a0) % H := ⟨_, _, bitsDiv64_ok ha1, rfl, rfl⟩
    rw [hdiv]
    simp only []
    have htq0 : tq0 < W := htq0def ▸ div_limb_lt ha1 hu1lo
    have htq : shr64 tq0 (63 - n) = u.toNat / (H * 2 ^ (64 - n)) := by
      unfold shr64
      rw [htq0def, hu1val', Nat.div_div_eq_div_mul, Nat.div_div_eq_div_mul, hT2]
      congr 1
      generalize 2 ^ (63 - n) = p; grind
    have htqlt : shr64 tq0 (63 - n) < W :=
      Nat.lt_of_le_of_lt (Nat.div_le_self _ _) htq0
    rw [htq] at htqlt ⊢
    generalize u.toNat / (H * 2 ^ (64 - n)) = tq at *
    clear htq hdiv htq0def htq0 hVsplit hHdiv hv1val' hVfit hu1val'
    -- the decremented trial quotient `k`
    generalize hk : (if (tq != 0) = true then tq - 1 else tq) = k
    have hk1 : k ≤ u.toNat / v.toNat ∧ u.toNat / v.toNat ≤ k + 1 ∧ k < W := by
      rw [← hk]
      obtain ⟨hb1, hb2⟩ := hbounds
      by_cases c : tq = 0
      · simp only [c, bne_self_eq_false, Bool.false_eq_true, if_false] at hb1 ⊢
        exact ⟨Nat.zero_le _, by omega, W_pos⟩
      · rw [if_pos (by simpa using c)]
        exact ⟨by omega, by omega, by omega⟩
    obtain ⟨hkQ, hQk, hkW⟩ := hk1
    have hV0 : 0 < v.toNat := Nat.pos_of_ne_zero hv0
    have hPU : v.toNat * k ≤ u.toNat :=
      Nat.le_trans (Nat.mul_le_mul_left _ hkQ) (Nat.mul_div_le _ _)
    have hdm := Nat.div_add_mod u.toNat v.toNat
    have hsucc : v.toNat * (k + 1) = v.toNat * k + v.toNat := Nat.mul_succ _ _
    -- m = v * k
    obtain ⟨m, hm, hmwf, hmval⟩ : ∃ m, v.mul64 k = .ok m ∧ m.WF ∧ m.toNat = v.toNat * k := by
      refine ⟨_, ?_, U128.ofNat_WF _, U128.toNat_ofNat (Nat.lt_of_le_of_lt hPU hUlt)⟩
      rw [U128.mul64_spec v k hv hkW, if_pos (Nat.lt_of_le_of_lt hPU hUlt)]
    rw [hm]; simp only []
    -- r = u - m
    obtain ⟨r, hr, hrwf, hrval⟩ : ∃ r, u.sub m = .ok r ∧ r.WF ∧ r.toNat = u.toNat - v.toNat * k := by
      refine ⟨_, ?_, U128.ofNat_WF _, U128.toNat_ofNat (Nat.lt_of_le_of_lt (Nat.sub_le _ _) hUlt)⟩
      rw [U128.sub_spec u m hu hmwf, hmval, if_pos hPU]
    rw [hr]; simp only []
    by_cases c : r.cmp v ≥ 0
    · rw [if_pos c]
      have hge := (U128.cmp_ge_iff r v hrwf hv).mp c
      have hQ : u.toNat / v.toNat = k + 1 := by
        have : k + 1 ≤ u.toNat / v.toNat := by
          rw [Nat.le_div_iff_mul_le hV0, Nat.mul_comm]; omega
        omega
      rw [hQ] at hdm
      obtain ⟨q', hq', hq'val⟩ : ∃ q', (⟨0, k⟩ : U128).add64 1 = .ok q' ∧ q' = U128.ofNat (k + 1) := by
        refine ⟨_, ?_, rfl⟩
        have hwf : U128.WF ⟨0, k⟩ := ⟨W_pos, hkW⟩
        have hval : U128.toNat ⟨0, k⟩ = k := by unfold U128.toNat; simp
        rw [U128.add64_spec _ 1 hwf, hval, if_pos (by simp only [W] at *; omega)]
      rw [hq']; simp only []
      obtain ⟨r', hr', hr'val⟩ : ∃ r', r.sub v = .ok r' ∧ r' = U128.ofNat (r.toNat - v.toNat) :=
        ⟨_, by rw [U128.sub_spec r v hrwf hv, if_pos hge], rfl⟩
      rw [hr']; simp only []
      rw [hq'val, hr'val, hQ, hrval]
      congr 3
      omega
    · rw [if_neg c]
      have hlt : r.toNat < v.toNat := by
        apply Nat.lt_of_not_le
        intro hh; exact c ((U128.cmp_ge_iff r v hrwf hv).mpr hh)
      have hQ : u.toNat / v.toNat = k := by
        have : u.toNat / v.toNat < k + 1 := by
          rw [Nat.div_lt_iff_lt_mul hV0, Nat.mul_comm]; omega
        omega
      rw [hQ] at hdm
      rw [hQ, U128.mk0_eq_ofNat hkW, U128.eq_ofNat_toNat hrwf, hrval]
      congr 3
      omega

/-! ## `Uint256.Div`: comparison predicates -/

theorem U256.isZero_iff (u : U256) (hu : u.WF) : u.isZero = true ↔ u.toNat = 0 := by
  obtain ⟨h3, h2, h1, h0⟩ := hu
  unfold U256.isZero U256.toNat
  simp only [Bool.and_eq_true, beq_iff_eq, W] at *
  omega

theorem U256.lessThan_iff (u v : U256) (hu : u.WF) (hv : v.WF) :
    u.lessThan v = true ↔ u.toNat < v.toNat := by
  unfold U256.lessThan
  rw [U256.cmp_spec u v hu hv]
  repeat' split
  all_goals simp <;> omega

theorem U256.greaterThan_iff (u v : U256) (hu : u.WF) (hv : v.WF) :
    u.greaterThan v = true ↔ v.toNat < u.toNat := by
  unfold U256.greaterThan
  rw [U256.cmp_spec u v hu hv]
  repeat' split
  all_goals simp <;> omega

theorem U256.lessThanOrEqual_iff (u v : U256) (hu : u.WF) (hv : v.WF) :
    u.lessThanOrEqual v = true ↔ u.toNat ≤ v.toNat := by
  unfold U256.lessThanOrEqual
  have := U256.greaterThan_iff u v hu hv
  cases h : u.greaterThan v <;> simp [h] at this ⊢ <;> omega

theorem U256.greaterThanOrEqual_iff (u v : U256) (hu : u.WF) (hv : v.WF) :
    u.greaterThanOrEqual v = true ↔ v.toNat ≤ u.toNat := by
  unfold U256.greaterThanOrEqual
  have := U256.lessThan_iff u v hu hv
  cases h : u.lessThan v <;> simp [h] at this ⊢ <;> omega

theorem U256.one_WF : U256.WF ⟨0, 0, 0, 1⟩ := by decide
theorem U256.zero_WF : U256.WF ⟨0, 0, 0, 0⟩ := by decide

theorem U256.cmp_one_iff (v : U256) (hv : v.WF) :
    (v.cmp ⟨0, 0, 0, 1⟩ == 0) = true ↔ v.toNat = 1 := by
  rw [U256.cmp_spec v _ hv U256.one_WF]
  have : U256.toNat ⟨0, 0, 0, 1⟩ = 1 := by decide
  rw [this]
  repeat' split
  all_goals simp <;> omega

/-! ## `Uint256.Div`: the doubling loop -/

theorem U256.top_bit_clear (t : U256) (ht : t.WF) (h : (shr64 t.w3 63 == 0) = true) :
    t.toNat * 2 < W ^ 4 := by
  obtain ⟨h3, h2, h1, h0⟩ := ht
  unfold shr64 at h
  unfold U256.toNat
  simp only [beq_iff_eq, W] at *
  have : t.w3 < 2 ^ 63 := by
    have := Nat.div_eq_zero_iff.mp h
    omega
  omega

theorem U256.top_bit_set (t : U256) (ht : t.WF) (h : ¬ (shr64 t.w3 63 == 0) = true) :
    W ^ 4 ≤ t.toNat * 2 := by
  obtain ⟨h3, h2, h1, h0⟩ := ht
  unfold shr64 at h
  unfold U256.toNat
  simp only [beq_iff_eq, W] at *
  have : 2 ^ 63 ≤ t.w3 := by
    apply Nat.le_of_not_lt
    intro hlt
    exact h (Nat.div_eq_of_lt hlt)
  omega

/-- the doubling loop stops (fuel is enough as soon as `r < t * 2^fuel`) on `t' = m' * v`,
`t' ≤ r < 2 t'` -/
theorem U256.divInner_spec (r : U256) (hr : r.WF) (vn : Nat) (hv : 1 ≤ vn) :
    ∀ (fuel : Nat) (t m : U256), t.WF → m.WF → t.toNat = m.toNat * vn → t.toNat ≤ r.toNat →
      r.toNat < t.toNat * 2 ^ fuel →
      ∃ t' m', U256.divInner r fuel t m = some (t', m') ∧ t'.WF ∧ m'.WF ∧
        t'.toNat = m'.toNat * vn ∧ t'.toNat ≤ r.toNat ∧ r.toNat < t'.toNat * 2 := by
  intro fuel
  induction fuel with
  | zero => intro t m _ _ _ hle hlt; simp at hlt; omega
  | succ fuel ih =>
    intro t m ht hm htm hle hlt
    unfold U256.divInner
    have hts := U256.leftShift_spec t 1 ht
    have hms := U256.leftShift_spec m 1 hm
    by_cases c1 : (shr64 t.w3 63 == 0) = true
    · have hfit := U256.top_bit_clear t ht c1
      have e1 : (t.leftShift 1).toNat = t.toNat * 2 := by
        rw [hts.2]; exact Nat.mod_eq_of_lt hfit
      by_cases c2 : (t.leftShift 1).lessThanOrEqual r = true
      · rw [if_pos (by simp [c1, c2])]
        have hle' := (U256.lessThanOrEqual_iff _ _ hts.1 hr).mp c2
        have hmle : m.toNat * 2 ≤ t.toNat * 2 := by
          rw [htm]; exact Nat.mul_le_mul_right 2 (Nat.le_mul_of_pos_right _ hv)
        have e2 : (m.leftShift 1).toNat = m.toNat * 2 := by
          rw [hms.2]; exact Nat.mod_eq_of_lt (Nat.lt_of_le_of_lt hmle hfit)
        apply ih _ _ hts.1 hms.1
        · rw [e1, e2, htm, Nat.mul_right_comm]
        · rw [e1] at hle'; rw [e1]; exact hle'
        · rw [e1, Nat.mul_assoc, ← Nat.pow_succ']; exact hlt
      · rw [if_neg (by simp [c1, c2])]
        refine ⟨t, m, rfl, ht, hm, htm, hle, ?_⟩
        have : ¬ (t.leftShift 1).toNat ≤ r.toNat :=
          fun h => c2 ((U256.lessThanOrEqual_iff _ _ hts.1 hr).mpr h)
        rw [e1] at this; omega
    · rw [if_neg (by simp [c1])]
      refine ⟨t, m, rfl, ht, hm, htm, hle, ?_⟩
      have h1 := U256.top_bit_set t ht c1
      have h2 := U256.toNat_lt hr
      omega

/-! ## `Uint256.Div`: the subtract-and-accumulate loop -/

theorem W4_eq_pow : W ^ 4 = 2 ^ 256 := by decide

/-- with `q * v + r = un` as invariant and `r < 2^fuel` as measure (the remainder at least halves
every turn), `fuel + 1` turns are enough, neither `Sub` nor `Add` panics, and the result is `un / v` -/
theorem U256.divOuter_spec (v : U256) (hv : v.WF) (hv1 : 1 ≤ v.toNat) (un : Nat) (hun : un < W ^ 4) :
    ∀ (fuel : Nat) (q r : U256), q.WF → r.WF → q.toNat * v.toNat + r.toNat = un →
      r.toNat < 2 ^ fuel →
      ∃ q', U256.divOuter v (fuel + 1) q r = some (.ok q') ∧ q'.WF ∧ q'.toNat = un / v.toNat := by
  intro fuel
  induction fuel with
  | zero =>
    intro q r hq hr hinv hlt
    have hr0 : r.toNat = 0 := by simp at hlt; omega
    unfold U256.divOuter
    have c : ¬ r.greaterThanOrEqual v = true := by
      rw [U256.greaterThanOrEqual_iff r v hr hv]; omega
    rw [if_neg c]
    refine ⟨q, rfl, hq, ?_⟩
    rw [← hinv, hr0, Nat.add_zero, Nat.mul_div_cancel _ hv1]
  | succ fuel ih =>
    intro q r hq hr hinv hlt
    unfold U256.divOuter
    by_cases c : r.greaterThanOrEqual v = true
    · rw [if_pos c]
      have hge := (U256.greaterThanOrEqual_iff r v hr hv).mp c
      have hr256 := U256.toNat_lt hr
      obtain ⟨t, m, e, ht, hm, htm, hle, hlt2⟩ :=
        U256.divInner_spec r hr v.toNat hv1 300 v ⟨0, 0, 0, 1⟩ hv U256.one_WF
          (by have : U256.toNat ⟨0, 0, 0, 1⟩ = 1 := by decide
              rw [this, Nat.one_mul])
          hge
          (by
            have h1 : r.toNat < 2 ^ 300 := by rw [W4_eq_pow] at hr256; omega
            exact Nat.lt_of_lt_of_le h1 (Nat.le_mul_of_pos_left _ hv1))
      rw [e]
      simp only []
      have hqm : q.toNat + m.toNat < W ^ 4 := by
        have h1 : m.toNat ≤ m.toNat * v.toNat := Nat.le_mul_of_pos_right _ hv1
        have h2 : q.toNat ≤ q.toNat * v.toNat := Nat.le_mul_of_pos_right _ hv1
        omega
      rw [U256.sub_spec r t hr ht, if_pos hle, U256.add_spec q m hq hm, if_pos hqm]
      simp only []
      apply ih _ _ (U256.ofNat_WF _) (U256.ofNat_WF _)
      · rw [U256.toNat_ofNat hqm, U256.toNat_ofNat (by omega), Nat.add_mul, ← htm]; omega
      · rw [U256.toNat_ofNat (by omega)]
        rw [Nat.pow_succ] at hlt; omega
    · rw [if_neg c]
      have hlt' : r.toNat < v.toNat := by
        apply Nat.lt_of_not_le
        intro h; exact c ((U256.greaterThanOrEqual_iff r v hr hv).mpr h)
      refine ⟨q, rfl, hq, ?_⟩
      rw [← hinv, Nat.add_comm, Nat.add_mul_div_right _ _ hv1, Nat.div_eq_of_lt hlt', Nat.zero_add]

/-- `Uint256.Div` terminates, never panics for `v ≠ 0`, and returns the exact quotient -/
theorem U256.div_spec (u v : U256) (hu : u.WF) (hv : v.WF) (hv0 : v.toNat ≠ 0) :
    ∃ q, U256.div u v = some (.ok q) ∧ q.WF ∧ q.toNat = u.toNat / v.toNat := by
  unfold U256.div
  have c0 : ¬ v.isZero = true := by rw [U256.isZero_iff v hv]; exact hv0
  rw [if_neg c0]
  by_cases c1 : (u.isZero || u.lessThan v) = true
  · rw [if_pos c1]
    refine ⟨_, rfl, U256.zero_WF, ?_⟩
    have : u.toNat < v.toNat := by
      rw [Bool.or_eq_true, U256.isZero_iff u hu, U256.lessThan_iff u v hu hv] at c1
      omega
    rw [Nat.div_eq_of_lt this]; decide
  · rw [if_neg c1]
    by_cases c2 : (v.cmp ⟨0, 0, 0, 1⟩ == 0) = true
    · rw [if_pos c2]
      rw [U256.cmp_one_iff v hv] at c2
      exact ⟨u, rfl, hu, by rw [c2, Nat.div_one]⟩
    · rw [if_neg c2]
      have h256 := U256.toNat_lt hu
      apply U256.divOuter_spec v hv (by omega) u.toNat h256 299 _ _ U256.zero_WF hu
      · have : U256.toNat ⟨0, 0, 0, 0⟩ = 0 := by decide
        rw [this, Nat.zero_mul, Nat.zero_add]
      · rw [W4_eq_pow] at h256; omega

end ObiVerif.Fp
