import ObiVerif.Lemmas.FpShift
import ObiVerif.Lemmas.FpArith
/-!
# Division lemmas for C20 (core Lean only): `QuoRem64`, `Uint256.Div`
-/
namespace ObiVerif.Fp

theorem bitsDiv64_ok {hi lo y : Nat} (h : hi < y) :
    bitsDiv64 hi lo y = .ok ((hi * W + lo) / y, (hi * W + lo) % y) := by
  unfold bitsDiv64
  rw [if_neg (by omega)]

/-- quotient of a two-limb number whose high limb is below the divisor fits in one limb -/
theorem div_limb_lt {hi lo y : Nat} (h : hi < y) (hlo : lo < W) : (hi * W + lo) / y < W := by
  apply Nat.div_lt_of_lt_mul
  have := Nat.mul_le_mul_right W (Nat.succ_le_of_lt h)
  grind

theorem U128.quoRem64_spec (u : U128) (v : Nat) (hu : u.WF) (hv0 : v ≠ 0) :
    ∃ q, U128.quoRem64 u v = .ok (q, u.toNat % v) ∧ q.WF ∧ q.toNat = u.toNat / v := by
  obtain ⟨h1, h0⟩ := hu
  unfold U128.quoRem64 U128.toNat
  by_cases c : u.w1 < v
  · rw [if_pos c, bitsDiv64_ok c]
    refine ⟨⟨0, (u.w1 * W + u.w0) / v⟩, rfl, ⟨W_pos, div_limb_lt c h0⟩, ?_⟩
    simp
  · rw [if_neg c, bitsDiv64_ok (Nat.pos_of_ne_zero hv0)]
    have hr : u.w1 % v < v := Nat.mod_lt _ (Nat.pos_of_ne_zero hv0)
    simp only [Nat.zero_mul, Nat.zero_add]
    have e : (do
        let (q1, r) ← (Except.ok (u.w1 / v, u.w1 % v) : Except Unit (Nat × Nat))
        let (q0, r) ← bitsDiv64 r u.w0 v
        pure ((⟨q1, q0⟩ : U128), r)) =
        .ok (⟨u.w1 / v, (u.w1 % v * W + u.w0) / v⟩, (u.w1 % v * W + u.w0) % v) := by
      show (do
        let (q0, r) ← bitsDiv64 (u.w1 % v) u.w0 v
        pure ((⟨u.w1 / v, q0⟩ : U128), r)) = _
      rw [bitsDiv64_ok hr]; rfl
    rw [e]
    have hw := (Nat.div_add_mod u.w1 v).symm
    have e2 : u.w1 * W + u.w0 = v * (u.w1 / v * W) + (u.w1 % v * W + u.w0) := by
      generalize u.w1 / v = a at *
      generalize u.w1 % v = b at *
      rw [hw]; generalize W = B; grind
    refine ⟨⟨u.w1 / v, (u.w1 % v * W + u.w0) / v⟩, ?_, ⟨Nat.lt_of_le_of_lt (Nat.div_le_self _ _) h1, div_limb_lt hr h0⟩, ?_⟩
    · rw [e2, Nat.mul_add_mod]
    · simp only []
      rw [e2, Nat.mul_add_div (Nat.pos_of_ne_zero hv0)]

/-! ## `Uint256.Div`: comparison predicates -/

theorem U256.isZero_iff (u : U256) (hu : u.WF) : u.isZero = true ↔ u.toNat = 0 := by
  obtain ⟨h3, h2, h1, h0⟩ := hu
  unfold U256.isZero U256.toNat
  simp only [Bool.and_eq_true, beq_iff_eq, W] at *
  omega

theorem U256.lessThan_iff (u v : U256) (hu : u.WF) (hv : v.WF) :
    u.lessThan v = true ↔ u.toNat < v.toNat := by
  unfold U256.lessThan
  rw [U256.cmp_spec u v hu hv]
  repeat' split
  all_goals simp <;> omega

theorem U256.greaterThan_iff (u v : U256) (hu : u.WF) (hv : v.WF) :
    u.greaterThan v = true ↔ v.toNat < u.toNat := by
  unfold U256.greaterThan
  rw [U256.cmp_spec u v hu hv]
  repeat' split
  all_goals simp <;> omega

theorem U256.lessThanOrEqual_iff (u v : U256) (hu : u.WF) (hv : v.WF) :
    u.lessThanOrEqual v = true ↔ u.toNat ≤ v.toNat := by
  unfold U256.lessThanOrEqual
  have := U256.greaterThan_iff u v hu hv
  cases h : u.greaterThan v <;> simp [h] at this ⊢ <;> omega

theorem U256.greaterThanOrEqual_iff (u v : U256) (hu : u.WF) (hv : v.WF) :
    u.greaterThanOrEqual v = true ↔ v.toNat ≤ u.toNat := by
  unfold U256.greaterThanOrEqual
  have := U256.lessThan_iff u v hu hv
  cases h : u.lessThan v <;> simp [h] at this ⊢ <;> omega

theorem U256.one_WF : U256.WF ⟨0, 0, 0, 1⟩ := by decide
theorem U256.zero_WF : U256.WF ⟨0, 0, 0, 0⟩ := by decide

theorem U256.cmp_one_iff (v : U256) (hv : v.WF) :
    (v.cmp ⟨0, 0, 0, 1⟩ == 0) = true ↔ v.toNat = 1 := by
  rw [U256.cmp_spec v _ hv U256.one_WF]
  have : U256.toNat ⟨0, 0, 0, 1⟩ = 1 := by decide
  rw [this]
  repeat' split
  all_goals simp <;> omega

/-! ## `Uint256.Div`: the doubling loop -/

theorem U256.top_bit_clear (t : U256) (ht : t.WF) (h : (shr64 t.w3 63 == 0) = true) :
    t.toNat * 2 < W ^ 4 := by
  obtain ⟨h3, h2, h1, h0⟩ := ht
  unfold shr64 at h
  unfold U256.toNat
  simp only [beq_iff_eq, W] at *
  have : t.w3 < 2 ^ 63 := by
    have := Nat.div_eq_zero_iff.mp h
    omega
  omega

theorem U256.top_bit_set (t : U256) (ht : t.WF) (h : ¬ (shr64 t.w3 63 == 0) = true) :
    W ^ 4 ≤ t.toNat * 2 := by
  obtain ⟨h3, h2, h1, h0⟩ := ht
  unfold shr64 at h
  unfold U256.toNat
  simp only [beq_iff_eq, W] at *
  have : 2 ^ 63 ≤ t.w3 := by
    apply Nat.le_of_not_lt
    intro hlt
    exact h (Nat.div_eq_of_lt hlt)
  omega

/-- the doubling loop stops (fuel is enough as soon as `r < t * 2^fuel`) on `t' = m' * v`,
`t' ≤ r < 2 t'` -/
theorem U256.divInner_spec (r : U256) (hr : r.WF) (vn : Nat) (hv : 1 ≤ vn) :
    ∀ (fuel : Nat) (t m : U256), t.WF → m.WF → t.toNat = m.toNat * vn → t.toNat ≤ r.toNat →
      r.toNat < t.toNat * 2 ^ fuel →
      ∃ t' m', U256.divInner r fuel t m = some (t', m') ∧ t'.WF ∧ m'.WF ∧
        t'.toNat = m'.toNat * vn ∧ t'.toNat ≤ r.toNat ∧ r.toNat < t'.toNat * 2 := by
  intro fuel
  induction fuel with
  | zero => intro t m _ _ _ hle hlt; simp at hlt; omega
  | succ fuel ih =>
    intro t m ht hm htm hle hlt
    unfold U256.divInner
    have hts := U256.leftShift_spec t 1 ht
    have hms := U256.leftShift_spec m 1 hm
    by_cases c1 : (shr64 t.w3 63 == 0) = true
    · have hfit := U256.top_bit_clear t ht c1
      have e1 : (t.leftShift 1).toNat = t.toNat * 2 := by
        rw [hts.2]; exact Nat.mod_eq_of_lt hfit
      by_cases c2 : (t.leftShift 1).lessThanOrEqual r = true
      · rw [if_pos (by simp [c1, c2])]
        have hle' := (U256.lessThanOrEqual_iff _ _ hts.1 hr).mp c2
        have hmle : m.toNat * 2 ≤ t.toNat * 2 := by
          rw [htm]; exact Nat.mul_le_mul_right 2 (Nat.le_mul_of_pos_right _ hv)
        have e2 : (m.leftShift 1).toNat = m.toNat * 2 := by
          rw [hms.2]; exact Nat.mod_eq_of_lt (Nat.lt_of_le_of_lt hmle hfit)
        apply ih _ _ hts.1 hms.1
        · rw [e1, e2, htm, Nat.mul_right_comm]
        · rw [e1] at hle'; rw [e1]; exact hle'
        · rw [e1, Nat.mul_assoc, ← Nat.pow_succ']; exact hlt
      · rw [if_neg (by simp [c1, c2])]
        refine ⟨t, m, rfl, ht, hm, htm, hle, ?_⟩
        have : ¬ (t.leftShift 1).toNat ≤ r.toNat :=
          fun h => c2 ((U256.lessThanOrEqual_iff _ _ hts.1 hr).mpr h)
        rw [e1] at this; omega
    · rw [if_neg (by simp [c1])]
      refine ⟨t, m, rfl, ht, hm, htm, hle, ?_⟩
      have h1 := U256.top_bit_set t ht c1
      have h2 := U256.toNat_lt hr
      omega

/-! ## `Uint256.Div`: the subtract-and-accumulate loop -/

theorem W4_eq_pow : W ^ 4 = 2 ^ 256 := by decide

/-- with `q * v + r = un` as invariant and `r < 2^fuel` as measure (the remainder at least halves
every turn), `fuel + 1` turns are enough, neither `Sub` nor `Add` panics, and the result is `un / v` -/
theorem U256.divOuter_spec (v : U256) (hv : v.WF) (hv1 : 1 ≤ v.toNat) (un : Nat) (hun : un < W ^ 4) :
    ∀ (fuel : Nat) (q r : U256), q.WF → r.WF → q.toNat * v.toNat + r.toNat = un →
      r.toNat < 2 ^ fuel →
      ∃ q', U256.divOuter v (fuel + 1) q r = some (.ok q') ∧ q'.WF ∧ q'.toNat = un / v.toNat := by
  intro fuel
  induction fuel with
  | zero =>
    intro q r hq hr hinv hlt
    have hr0 : r.toNat = 0 := by simp at hlt; omega
    unfold U256.divOuter
    have c : ¬ r.greaterThanOrEqual v = true := by
      rw [U256.greaterThanOrEqual_iff r v hr hv]; omega
    rw [if_neg c]
    refine ⟨q, rfl, hq, ?_⟩
    rw [← hinv, hr0, Nat.add_zero, Nat.mul_div_cancel _ hv1]
  | succ fuel ih =>
    intro q r hq hr hinv hlt
    unfold U256.divOuter
    by_cases c : r.greaterThanOrEqual v = true
    · rw [if_pos c]
      have hge := (U256.greaterThanOrEqual_iff r v hr hv).mp c
      have hr256 := U256.toNat_lt hr
      obtain ⟨t, m, e, ht, hm, htm, hle, hlt2⟩ :=
        U256.divInner_spec r hr v.toNat hv1 300 v ⟨0, 0, 0, 1⟩ hv U256.one_WF
          (by have : U256.toNat ⟨0, 0, 0, 1⟩ = 1 := by decide
              rw [this, Nat.one_mul])
          hge
          (by
            have h1 : r.toNat < 2 ^ 300 := by rw [W4_eq_pow] at hr256; omega
            exact Nat.lt_of_lt_of_le h1 (Nat.le_mul_of_pos_left _ hv1))
      rw [e]
      simp only []
      have hqm : q.toNat + m.toNat < W ^ 4 := by
        have h1 : m.toNat ≤ m.toNat * v.toNat := Nat.le_mul_of_pos_right _ hv1
        have h2 : q.toNat ≤ q.toNat * v.toNat := Nat.le_mul_of_pos_right _ hv1
        omega
      rw [U256.sub_spec r t hr ht, if_pos hle, U256.add_spec q m hq hm, if_pos hqm]
      simp only []
      apply ih _ _ (U256.ofNat_WF _) (U256.ofNat_WF _)
      · rw [U256.toNat_ofNat hqm, U256.toNat_ofNat (by omega), Nat.add_mul, ← htm]; omega
      · rw [U256.toNat_ofNat (by omega)]
        rw [Nat.pow_succ] at hlt; omega
    · rw [if_neg c]
      have hlt' : r.toNat < v.toNat := by
        apply Nat.lt_of_not_le
        intro h; exact c ((U256.greaterThanOrEqual_iff r v hr hv).mpr h)
      refine ⟨q, rfl, hq, ?_⟩
      rw [← hinv, Nat.add_comm, Nat.add_mul_div_right _ _ hv1, Nat.div_eq_of_lt hlt', Nat.zero_add]

/-- `Uint256.Div` terminates, never panics for `v ≠ 0`, and returns the exact quotient -/
theorem U256.div_spec (u v : U256) (hu : u.WF) (hv : v.WF) (hv0 : v.toNat ≠ 0) :
    ∃ q, U256.div u v = some (.ok q) ∧ q.WF ∧ q.toNat = u.toNat / v.toNat := by
  unfold U256.div
  have c0 : ¬ v.isZero = true := by rw [U256.isZero_iff v hv]; exact hv0
  rw [if_neg c0]
  by_cases c1 : (u.isZero || u.lessThan v) = true
  · rw [if_pos c1]
    refine ⟨_, rfl, U256.zero_WF, ?_⟩
    have : u.toNat < v.toNat := by
      rw [Bool.or_eq_true, U256.isZero_iff u hu, U256.lessThan_iff u v hu hv] at c1
      omega
    rw [Nat.div_eq_of_lt this]; decide
  · rw [if_neg c1]
    by_cases c2 : (v.cmp ⟨0, 0, 0, 1⟩ == 0) = true
    · rw [if_pos c2]
      rw [U256.cmp_one_iff v hv] at c2
      exact ⟨u, rfl, hu, by rw [c2, Nat.div_one]⟩
    · rw [if_neg c2]
      have h256 := U256.toNat_lt hu
      apply U256.divOuter_spec v hv (by omega) u.toNat h256 299 _ _ U256.zero_WF hu
      · have : U256.toNat ⟨0, 0, 0, 0⟩ = 0 := by decide
        rw [this, Nat.zero_mul, Nat.zero_add]
      · rw [W4_eq_pow] at h256; omega

end ObiVerif.Fp
