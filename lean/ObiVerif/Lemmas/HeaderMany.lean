import ObiVerif.Lemmas.HeaderRefine
/-! refinement, third pass: the byte state machine `parseFasta` (FastaChunkParser) on **every** text — several
    records per text included — is the structural reading `readFastaManyS` (title lines split by `splitTitle`,
    bodies cut at the next `>` and read by `unfold`).  Exact answer, both directions, errors included. -/
namespace ObiVerif.Header

/-- put the records already delivered in front of an answer -/
def pre (out : List Rec) : Except Err (List Rec) → Except Err (List Rec)
  | .ok rs => .ok (out ++ rs)
  | .error e => .error e

@[simp] theorem pre_ok (out rs : List Rec) : pre out (.ok rs) = .ok (out ++ rs) := rfl
@[simp] theorem pre_error (out : List Rec) (e : Err) : pre out (.error e) = .error e := rfl

theorem pre_pre (a b : List Rec) (r : Except Err (List Rec)) : pre a (pre b r) = pre (a ++ b) r := by
  cases r <;> simp [pre]

/-- the last byte of a segment is an end of line -/
def lastIsEol (b : Bytes) : Bool :=
  match b.getLast? with
  | some c => isEol c
  | none => false

theorem lastIsEol_cons_cons (a c : UInt8) (t : Bytes) : lastIsEol (a :: c :: t) = lastIsEol (c :: t) := by
  simp [lastIsEol, List.getLast?_cons_cons]

/-- **the structural reading of a FASTA text after its first `>`** (fuel = an upper bound of the length): the title
    line up to the first end of line is split by `splitTitle`; the body runs up to the next `>` (excluded) and is read
    as by the one-record reading `faBodyRes` (`unfold`); when a `>` follows, the body must hold a sequence and end
    with an end of line, and the reading goes on after that `>`. -/
def faManyF : Nat → Bytes → Except Err (List Rec)
  | 0, _ => .ok []
  | n + 1, l =>
    match l with
    | [] => .ok []
    | d :: _ =>
      if isSep d = true then .error .fatal else
      let line := l.takeWhile (fun c => !isEol c)
      let rest := l.dropWhile (fun c => !isEol c)
      let body := rest.takeWhile (fun c => c != 62)
      match rest.dropWhile (fun c => c != 62) with
      | [] => faBodyRes (splitTitle line).1 (splitTitle line).2 body
      | _ :: l' =>
        match faBodyRes (splitTitle line).1 (splitTitle line).2 body with
        | .ok (r :: _) => if lastIsEol body = true then pre [r] (faManyF n l') else .error .fatal
        | _ => .error .fatal

/-- the structural reading of a whole FASTA chunk (the first two bytes are examined as `FastaChunkParser` does) -/
def readFastaManyS (text : Bytes) : Except Err (List Rec) :=
  match text with
  | [] => .error .panic
  | [c] => if c ≠ 62 then .error .fatal else .error .panic
  | c :: t => if c ≠ 62 then .error .fatal else faManyF t.length t

/-! ## the machine, state by state, with any records already delivered (`out`) and any stale buffers -/

/-- `prev` after a segment read in state 6 -/
def prevAfter (p : UInt8) (b : Bytes) : UInt8 := b.foldl (fun _ c => if isSep c = true then c else lower c) p

set_option maxRecDepth 100000 in
theorem isEol_prevByte : ∀ c : UInt8, isEol (if isSep c = true then c else lower c) = isEol c := by
  apply forall_uint8
  decide

set_option maxRecDepth 100000 in
theorem seqOK_lower_notEol : ∀ c : UInt8, seqOK (lower c) = true → isEol (lower c) = false := by
  apply forall_uint8
  decide

theorem isEol_prevAfter (p : UInt8) (b : Bytes) :
    isEol (prevAfter p b) = if b = [] then isEol p else lastIsEol b := by
  induction b generalizing p with
  | nil => rfl
  | cons c t ih =>
    show isEol (prevAfter (if isSep c = true then c else lower c) t) = _
    rw [ih]
    cases t with
    | nil => simp [lastIsEol, isEol_prevByte]
    | cons a t => simp [lastIsEol_cons_cons]

/-- state 6 over a segment without `>` : the machine stays in state 6, collects `unfold` of the segment, and is
    fatal exactly when a byte is neither a separator nor a letter of the alphabet -/
theorem fa_seg6 (b rest : Bytes) (hb : ∀ c ∈ b, c ≠ 62) (i d s q id df : Bytes) (p : UInt8) (out : List Rec) :
    faRun ⟨6, i, d, s, q, id, df, p, out⟩ (b ++ rest) =
      if b.all okByte = true then faRun ⟨6, i, d, s ++ unfold b, q, id, df, prevAfter p b, out⟩ rest
      else .error .fatal := by
  induction b generalizing s p with
  | nil => simp [unfold, prevAfter]
  | cons c t ih =>
    have hne : c ≠ 62 := hb c (by simp)
    have ht : ∀ c ∈ t, c ≠ 62 := fun c hc => hb c (List.mem_cons_of_mem _ hc)
    rw [List.cons_append]
    cases hs : isSep c with
    | true =>
      rw [faRun_ok (st2 := ⟨6, i, d, s, q, id, df, c, out⟩) (by simp [faStep, hne, hs])]
      rw [unfold_cons_sep t hs, ih ht]
      simp [okByte, hs, prevAfter]
    | false =>
      cases ho : seqOK (lower c) with
      | false =>
        rw [faRun_err (e := .fatal) (by simp [faStep, hne, hs, ho])]
        simp [okByte, hs, ho]
      | true =>
        rw [faRun_ok (st2 := ⟨6, i, d, s ++ [lower c], q, id, df, lower c, out⟩)
          (by simp [faStep, hne, hs, ho])]
        rw [unfold_cons_notSep t hs, ih ht]
        simp [okByte, hs, ho, prevAfter]

/-- state 6 at the end of the text -/
theorem fa_end6 (i d s q id df : Bytes) (p : UInt8) (out : List Rec) :
    faRun ⟨6, i, d, s, q, id, df, p, out⟩ [] =
      if s = [] then .error .fatal else .ok (out ++ [⟨id, df, s, none⟩]) := by
  rw [faRun_nil]; simp [faFin, pure, Except.pure]

/-- state 6 on `>` : the record is delivered when the previous byte is an end of line, fatal otherwise -/
theorem fa_gt6 (l : Bytes) (i d s q id df : Bytes) (p : UInt8) (out : List Rec) :
    faRun ⟨6, i, d, s, q, id, df, p, out⟩ (62 :: l) =
      if isEol p = true then
        (if s = [] then .error .fatal else faRun ⟨1, i, d, s, q, id, df, 62, out ++ [⟨id, df, s, none⟩]⟩ l)
      else .error .fatal := by
  by_cases hp : p = 13 ∨ p = 10
  · have he : isEol p = true := by rcases hp with h | h <;> subst h <;> decide
    by_cases hs : s = []
    · rw [faRun_err (e := .fatal) (by simp [faStep, hp, hs])]; simp [he, hs]
    · rw [faRun_ok (st2 := ⟨1, i, d, s, q, id, df, 62, out ++ [⟨id, df, s, none⟩]⟩) (by simp [faStep, hp, hs])]
      simp [he, hs]
  · have he : isEol p = false := by
      cases h : isEol p with
      | false => rfl
      | true => simp [isEol] at h; exact absurd h hp
    rw [faRun_err (e := .fatal) (by simp [faStep, hp])]; simp [he]

/-- state 5 over a body without `>` up to the end of the text -/
theorem fa_body_end (b : Bytes) (hb : ∀ c ∈ b, c ≠ 62) (i d s q id df : Bytes) (p : UInt8) (out : List Rec) :
    faRun ⟨5, i, d, s, q, id, df, p, out⟩ b = pre out (faBodyRes id df b) := by
  induction b generalizing p with
  | nil => rw [faRun_nil]; simp [faFin, faBodyRes, pure, Except.pure]
  | cons c t ih =>
    have ht : ∀ c ∈ t, c ≠ 62 := fun c hc => hb c (List.mem_cons_of_mem _ hc)
    cases he : isEol c with
    | true =>
      rw [faRun_ok (st2 := ⟨5, i, d, s, q, id, df, c, out⟩) (by simp [faStep, he])]
      rw [ih ht, faBodyRes_cons_eol id df t he]
    | false =>
      cases ho : seqOK (lower c) with
      | false =>
        rw [faRun_err (e := .fatal) (by simp [faStep, he, ho])]
        simp [faBodyRes, he, ho]
      | true =>
        rw [faRun_ok (st2 := ⟨6, i, d, [lower c], q, id, df, lower c, out⟩) (by simp [faStep, he, ho])]
        have := fa_seg6 t [] ht i d [lower c] q id df (lower c) out
        rw [List.append_nil] at this
        rw [this, fa_end6]
        simp only [faBodyRes, List.dropWhile_cons, he, Bool.false_eq_true, ↓reduceIte, ho, true_and,
          unfold_cons_notSep t (seqOK_lower_notSep c ho)]
        cases hall : t.all okByte <;> simp

/-- what follows a body that is followed by `>` -/
def afterBody (id df b : Bytes) (k : Rec → Except Err (List Rec)) : Except Err (List Rec) :=
  match faBodyRes id df b with
  | .ok (r :: _) => if lastIsEol b = true then k r else .error .fatal
  | _ => .error .fatal

theorem afterBody_cons_eol (id df : Bytes) {c : UInt8} (t : Bytes) (h : isEol c = true)
    (k : Rec → Except Err (List Rec)) : afterBody id df (c :: t) k = afterBody id df t k := by
  unfold afterBody
  rw [faBodyRes_cons_eol id df t h]
  cases t with
  | nil => simp [faBodyRes]
  | cons a t => rw [lastIsEol_cons_cons]

/-- state 5 over a body without `>` followed by `>` : fatal unless the body holds a sequence (first byte after the
    ends of line a letter, then letters and separators) and ends with an end of line; then the record is delivered
    and the machine is in state 1 -/
theorem fa_body_gt (b l : Bytes) (hb : ∀ c ∈ b, c ≠ 62) (i d s q id df : Bytes) (p : UInt8) (out : List Rec) :
    faRun ⟨5, i, d, s, q, id, df, p, out⟩ (b ++ 62 :: l) =
      afterBody id df b (fun r => faRun ⟨1, i, d, r.seq, q, id, df, 62, out ++ [r]⟩ l) := by
  induction b generalizing p with
  | nil =>
    rw [List.nil_append, faRun_err (e := .fatal) (by
      simp [faStep, show isEol 62 = false by decide, show seqOK (lower 62) = false by decide])]
    simp [afterBody, faBodyRes]
  | cons c t ih =>
    have ht : ∀ c ∈ t, c ≠ 62 := fun c hc => hb c (List.mem_cons_of_mem _ hc)
    rw [List.cons_append]
    cases he : isEol c with
    | true =>
      rw [faRun_ok (st2 := ⟨5, i, d, s, q, id, df, c, out⟩) (by simp [faStep, he])]
      rw [ih ht, afterBody_cons_eol id df t he]
    | false =>
      cases ho : seqOK (lower c) with
      | false =>
        rw [faRun_err (e := .fatal) (by simp [faStep, he, ho])]
        simp [afterBody, faBodyRes, he, ho]
      | true =>
        rw [faRun_ok (st2 := ⟨6, i, d, [lower c], q, id, df, lower c, out⟩) (by simp [faStep, he, ho])]
        rw [fa_seg6 t (62 :: l) ht, fa_gt6, isEol_prevAfter]
        have hlc : isEol (lower c) = false := seqOK_lower_notEol c ho
        simp only [afterBody, faBodyRes, List.dropWhile_cons, he, Bool.false_eq_true, ↓reduceIte, ho, true_and,
          unfold_cons_notSep t (seqOK_lower_notSep c ho)]
        cases hall : t.all okByte with
        | false => simp
        | true =>
          cases t with
          | nil => simp [lastIsEol, he, hlc]
          | cons a t => simp [lastIsEol_cons_cons]

end ObiVerif.Header
